(* Proofs for yaml-get and yaml-diff (C16). *)
From Coq Require Import List Ascii String ZArith Bool Arith Lia.
From YP Require Import Outcome PyStr Cli CliSpec.
Import ListNotations.
Open Scope list_scope.

(* ---------------- yaml-get ---------------- *)

Lemma get_print_ok : forall nodes,
  json_ok nodes = true -> get_print nodes = (map render_node nodes, None).
Proof.
  induction nodes as [|o r IH]; simpl; intros H; [reflexivity|].
  apply andb_true_iff in H. destruct H as [Ho Hr].
  unfold render_node. destruct (is_container o) eqn:C; simpl in Ho.
  - destruct (po_json o); try discriminate. rewrite (IH Hr). reflexivity.
  - rewrite (IH Hr). reflexivity.
Qed.

Lemma get_print_bad : forall nodes,
  json_ok nodes = false -> exists ls s, get_print nodes = (ls, Some s) /\ s <> Exit 0.
Proof.
  induction nodes as [|o r IH]; simpl; intros H; [discriminate|].
  apply andb_false_iff in H.
  destruct (is_container o) eqn:C; simpl in H.
  - destruct (po_json o) eqn:J.
    + destruct H as [H|H]; [discriminate|].
      destruct (IH H) as (ls & s & E & N). rewrite E. eexists _, _. split; [reflexivity|exact N].
    + eexists _, _. split; [reflexivity|discriminate].
    + eexists _, _. split; [reflexivity|discriminate].
  - destruct H as [H|H]; [discriminate|].
    destruct (IH H) as (ls & s & E & N). rewrite E. eexists _, _. split; [reflexivity|exact N].
Qed.

(* the run got as far as the query: the command line is valid and the document loaded *)
Definition get_reaches_query (a : get_args) (tty : bool) (load : raw1) : Prop :=
  get_validate_errors a tty = 0 /\ exists d, get_yaml_data load = L1Ok d.

Lemma get_exit_iff : forall a tty load qverb query,
  r_status (get_main a tty load qverb query) = Exit 0 <->
  (get_reaches_query a tty load /\ exists nodes, query = LOk nodes /\ nodes <> [] /\ json_ok nodes = true).
Proof.
  intros a tty load qverb query. unfold get_main, get_reaches_query.
  destruct (Nat.eqb (get_validate_errors a tty) 0) eqn:V; simpl.
  2:{ split; [discriminate|]. intros [[E _] _]. rewrite E in V. discriminate. }
  apply Nat.eqb_eq in V.
  destruct (get_yaml_data load) eqn:L; simpl.
  2:{ split; [discriminate|]. intros [[_ [d D]] _]. discriminate. }
  2:{ split; [discriminate|]. intros [[_ [d D]] _]. discriminate. }
  destruct query as [nodes|u].
  - destruct nodes as [|o r].
    + simpl. split; [discriminate|]. intros [_ (n & E & N & _)]. inversion E; subst. congruence.
    + destruct (json_ok (o :: r)) eqn:J.
      * rewrite (get_print_ok _ J). simpl. split; [|reflexivity]. intros _.
        split; [split; [exact V|eexists; reflexivity]|].
        exists (o :: r). repeat split; [discriminate|exact J].
      * destruct (get_print_bad _ J) as (ls & s & E & N). rewrite E. simpl.
        split; [intro H; congruence|]. intros [_ (n & E2 & _ & J2)]. inversion E2; subst. congruence.
  - split.
    + destruct u; simpl; discriminate.
    + intros [_ (n & E & _)]. discriminate.
Qed.

(* with a valid command line, a loaded document and a query that ended normally with renderable
   nodes: exit 0 exactly when something matched *)
Lemma get_exit_matched : forall a tty load qverb nodes,
  get_reaches_query a tty load -> json_ok nodes = true ->
  (r_status (get_main a tty load qverb (LOk nodes)) = Exit 0 <-> nodes <> []).
Proof.
  intros a tty load qverb nodes R J. rewrite get_exit_iff. split.
  - intros [_ (n & E & N & _)]. inversion E; subst. exact N.
  - intros N. split; [exact R|]. exists nodes. auto.
Qed.

Lemma data_lines_render : forall nodes, data_lines (map render_node nodes) = map render_node nodes.
Proof.
  induction nodes as [|o r IH]; simpl; [reflexivity|].
  unfold data_lines in *. simpl. unfold render_node at 1.
  destruct (is_container o); simpl; rewrite IH; reflexivity.
Qed.

Lemma data_lines_app : forall a b, data_lines (a ++ b) = data_lines a ++ data_lines b.
Proof. intros. unfold data_lines. apply filter_app. Qed.

Lemma data_lines_verbose : forall n k, data_lines (log_verbose n (repeat OVerb k)) = [].
Proof.
  intros n k. unfold log_verbose. destruct (negb (n_quiet n) && (n_verbose n || n_debug n)); [|reflexivity].
  induction k; simpl; auto.
Qed.

(* exit 0 => stdout's data lines are exactly one rendering per matched node, in query order *)
Lemma get_lines : forall a tty load qverb query,
  r_status (get_main a tty load qverb query) = Exit 0 ->
  exists nodes, query = LOk nodes /\ data_lines (r_out (get_main a tty load qverb query)) = map render_node nodes.
Proof.
  intros a tty load qverb query H.
  pose proof (proj1 (get_exit_iff a tty load qverb query) H) as [[V [d D]] (nodes & E & N & J)].
  exists nodes. split; [exact E|]. subst query. unfold get_main.
  rewrite V. simpl. rewrite D. destruct nodes as [|o r]; [congruence|].
  rewrite (get_print_ok _ J). cbn [r_out].
  rewrite data_lines_app, data_lines_verbose. cbn [app]. apply data_lines_render.
Qed.


(* ---------------- yaml-diff ---------------- *)

Lemma changes_found_iff : forall entries, changes_found entries = false <-> no_difference entries.
Proof.
  intros. unfold changes_found, no_difference. split.
  - intros H e He. destruct e; try reflexivity;
      (assert (X : existsb is_different entries = true) by (apply existsb_exists; eexists; split; [exact He|reflexivity]);
       congruence).
  - intros H. destruct (existsb is_different entries) eqn:X; [|reflexivity].
    apply existsb_exists in X. destruct X as (e & He & D). rewrite (H e He) in D. discriminate.
Qed.

Definition all_render (entries : list dentry) : Prop := forall e, In e entries -> snd e = None.

Lemma printed_entries_app : forall a b, printed_entries (a ++ b) = printed_entries a ++ printed_entries b.
Proof. intros. unfold printed_entries. apply flat_map_app. Qed.

Lemma diff_report_entries : forall a entries i sep,
  all_render entries ->
  snd (diff_report a entries i sep) = None /\
  printed_entries (fst (diff_report a entries i sep)) =
  (if n_quiet (da_noise a) then [] else selected_from a (map fst entries) i).
Proof.
  intros a entries. destruct (n_quiet (da_noise a)) eqn:Q.
  - induction entries as [|[act pr] r IH]; intros i sep R; simpl; [auto|]. rewrite Q.
    apply IH. intros e He. apply R. right. exact He.
  - induction entries as [|[act pr] r IH]; intros i sep R; simpl; [auto|]. rewrite Q.
    assert (R' : all_render r) by (intros e He; apply R; right; exact He).
    pose proof (R (act, pr) (or_introl eq_refl)) as P. simpl in P. subst pr.
    destruct (diff_selected a act).
    + destruct (IH (S i) true R') as [U E]. destruct (diff_report a r (S i) true) as [ls u]. simpl in *.
      split; [exact U|]. rewrite printed_entries_app. destruct sep; simpl; rewrite E; reflexivity.
    + apply IH. exact R'.
Qed.

(* once two documents were picked, the differ returned its report and every entry renders:
   the status is 0 or 1, and it is 0 exactly when no entry is a difference *)
Lemma diff_exit_iff : forall estr a lhs rhs entries li ri,
  dr_picked (diff_main estr a lhs rhs (LOk entries)) = Some (li, ri) -> all_render entries ->
  (r_status (dr_run (diff_main estr a lhs rhs (LOk entries))) = Exit 0 <-> no_difference (map fst entries)) /\
  (r_status (dr_run (diff_main estr a lhs rhs (LOk entries))) = Exit 1 <-> ~ no_difference (map fst entries)).
Proof.
  intros estr a lhs rhs entries li ri. unfold diff_main.
  destruct (negb (Nat.eqb (diff_validate_errors a) 0)); simpl; [discriminate|].
  destruct (diff_get_docs estr lhs) as [nl|h|c]; simpl; try discriminate;
  destruct (diff_get_docs estr rhs) as [nr|h'|c']; simpl; try discriminate.
  destruct (Nat.ltb 1 nl && _); simpl; [discriminate|].
  destruct (diff_get_doc nl _); simpl; try discriminate.
  destruct (Nat.ltb 1 nr && _); simpl; [discriminate|].
  destruct (diff_get_doc nr _); simpl; try discriminate.
  intros _ R. destruct (diff_report_entries a entries 0 false R) as [U _].
  destruct (diff_report a entries 0 false) as [ls u]. simpl in U. subst u. simpl.
  rewrite <- changes_found_iff.
  destruct (changes_found (map fst entries)); split; split; intro H; try reflexivity; try congruence; try discriminate.
Qed.

(* what is printed is exactly the selected entries of the differ's report, in report order
   (nothing under --quiet) *)
Lemma diff_prints_entries : forall estr a lhs rhs entries li ri,
  dr_picked (diff_main estr a lhs rhs (LOk entries)) = Some (li, ri) -> all_render entries ->
  printed_entries (r_out (dr_run (diff_main estr a lhs rhs (LOk entries)))) =
  if n_quiet (da_noise a) then [] else selected_from a (map fst entries) 0.
Proof.
  intros estr a lhs rhs entries li ri. unfold diff_main.
  destruct (negb (Nat.eqb (diff_validate_errors a) 0)); simpl; [discriminate|].
  destruct (diff_get_docs estr lhs) as [nl|h|c]; simpl; try discriminate;
  destruct (diff_get_docs estr rhs) as [nr|h'|c']; simpl; try discriminate.
  destruct (Nat.ltb 1 nl && _); simpl; [discriminate|].
  destruct (diff_get_doc nl _); simpl; try discriminate.
  destruct (Nat.ltb 1 nr && _); simpl; [discriminate|].
  destruct (diff_get_doc nr _); simpl; try discriminate.
  intros _ R. destruct (diff_report_entries a entries 0 false R) as [_ E].
  destruct (diff_report a entries 0 false) as [ls u]. simpl in *. exact E.
Qed.

(* default options: every difference is printed, nothing else *)
Lemma selected_default : forall a entries i,
  da_same a = false -> da_onlysame a = false ->
  List.length (selected_from a entries i) = List.length (filter is_different entries).
Proof.
  intros a entries. induction entries as [|e r IH]; intros i S O; simpl; [reflexivity|].
  unfold diff_selected. rewrite S, O. simpl. rewrite andb_true_r, orb_false_r.
  destruct (is_different e); simpl; rewrite IH; auto.
Qed.
