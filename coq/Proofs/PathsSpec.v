(* C07, step 2: the pure enumeration [enum] lists exactly the places of the
   declarative specification: soundness, completeness (exact in values-only
   mode, up to a matched key above otherwise) and no repetition. *)
From Coq Require Import List Ascii String ZArith NArith Bool Arith Lia.
From YP Require Import Outcome PyStr PyVal Doc Generated PathParser PathPrinter Searches PathsSearch
     SpecC07 PathsEnum.
Import ListNotations.

Section SpecProofs.
Variable lit : string -> outcome litres.
Variable re_search : string -> string -> outcome reres.
Variable tm : terms.
Variable o : opts.
Hypothesis Hnx : o_expand o = false.

Notation satb := (satb lit re_search tm).
Notation enum := (enum lit re_search tm o).

(* a hit produced by the container [tgt] itself for its child reference [r] *)
Definition local (tgt : node) (r : ref) (k : hkind) : Prop :=
  match k with
  | HValue => o_values o = true /\ exists i v, child_at tgt r (NLeaf i v) /\ satb v = true
  | HKey => o_keys o = true /\
            exists i kvs kn v, tgt = NMap i kvs /\ In (kn, v) kvs /\ r = key_ref kn /\ satb (key_val kn) = true
  | HMember => exists i els m, tgt = NSet i els /\ In m els /\ r = member_ref m /\ satb (key_val m) = true
  | _ => False
  end.

Definition good (n : node) (l : loc) (k : hkind) : Prop :=
  exists l0 tgt r, l = (l0 ++ [r])%list /\ reach n l0 tgt /\ local tgt r k.

Lemma good_step n r c l k : child_at n r c -> good c l k -> good n (r :: l) k.
Proof.
  intros Hc [l0 [tgt [r0 [-> [R L]]]]]. exists (r :: l0), tgt, r0. split; [reflexivity|].
  split; auto. econstructor; eauto.
Qed.

Lemma not_container_leaf v : is_container v = false -> exists i x, v = NLeaf i x.
Proof. destruct v; simpl; try discriminate. eauto. Qed.

Lemma nth_error_In' {A} (l : list A) j a : nth_error l j = Some a -> In a l.
Proof. apply nth_error_In. Qed.

(* ---- soundness ---- *)
Lemma val_enum_sound n r c lc l k :
  child_at n r c ->
  (forall lc l k, In (l, k) (enum c lc) -> exists l', l = (lc ++ l')%list /\ good c l' k) ->
  In (l, k) (val_enum lit re_search tm o (fun v l => enum v l) c (lc ++ [r])%list) ->
  exists l', l = (lc ++ l')%list /\ good n l' k.
Proof.
  intros Hc IH Hin. unfold val_enum in Hin. destruct (is_container c) eqn:Ec.
  - destruct (IH _ _ _ Hin) as [l' [-> G]]. exists (r :: l'). rewrite <- app_assoc. split; [reflexivity|].
    eapply good_step; eauto.
  - destruct (o_values o) eqn:Ev; simpl in Hin; [|contradiction].
    destruct (satb (key_val c)) eqn:Es; simpl in Hin; [|contradiction].
    destruct Hin as [Hin|[]]. inversion Hin; subst. exists [r]. split; [reflexivity|].
    destruct (not_container_leaf _ Ec) as [i [x ->]]. simpl in Es.
    exists [], n, r. split; [reflexivity|]. split; [constructor|].
    simpl. split; auto. eauto.
Qed.

Theorem enum_sound n : forall lc l k,
    In (l, k) (enum n lc) -> exists l', l = (lc ++ l')%list /\ good n l' k.
Proof.
  induction n as [i v|i kvs IH|i els IH|i els IH] using node_ind'; intros lc l k Hin; simpl in Hin.
  - contradiction.
  - apply In_floop in Hin. destruct Hin as [j [kv [Hn Hin]]]. destruct kv as [kn v].
    pose proof (nth_error_In _ _ Hn) as HIn.
    assert (Hc : child_at (NMap i kvs) (key_ref kn) v) by (constructor; auto).
    unfold entry_enum in Hin. simpl fst in Hin. simpl snd in Hin.
    destruct (o_keys o && satb (key_val kn)) eqn:Ek.
    + unfold key_hit_enum in Hin. rewrite Hnx in Hin.
      destruct Hin as [Hin|[]]. inversion Hin; subst. exists [key_ref kn]. split; [reflexivity|].
      apply andb_true_iff in Ek. destruct Ek.
      exists [], (NMap i kvs), (key_ref kn). split; [reflexivity|]. split; [constructor|].
      simpl. split; auto. exists i, kvs, kn, v. auto.
    + rewrite Forall_forall in IH. destruct (IH _ HIn) as [_ IHv]. simpl in IHv.
      eapply val_enum_sound; eauto.
  - apply In_floop in Hin. destruct Hin as [j [e [Hn Hin]]]. simpl in Hin.
    pose proof (nth_error_In _ _ Hn) as HIn.
    rewrite Forall_forall in IH.
    eapply val_enum_sound; eauto. constructor; auto.
  - apply In_floop in Hin. destruct Hin as [j [m [Hn Hin]]].
    pose proof (nth_error_In _ _ Hn) as HIn.
    unfold member_enum in Hin. destruct (satb (key_val m)) eqn:Es; [|contradiction].
    destruct Hin as [Hin|[]]. inversion Hin; subst. exists [member_ref m]. split; [reflexivity|].
    exists [], (NSet i els), (member_ref m). split; [reflexivity|]. split; [constructor|].
    simpl. exists i, els, m. auto.
Qed.

(* ---- completeness ---- *)
(* a reported location that is, or lies above, location l *)
Definition covered (n : node) (lc : loc) (l : loc) (k : hkind) : Prop :=
  exists l0 k0 p, In (l0, k0) (enum n lc) /\ l0 = (lc ++ p)%list /\ prefix p l /\
                  ((p = l /\ k0 = k) \/ (k0 = HKey /\ o_keys o = true)).

Lemma In_nth {A} (l : list A) a : In a l -> exists j, nth_error l j = Some a.
Proof. apply In_nth_error. Qed.

Lemma key_hit_covers i kvs kn v lc l k :
  In (kn, v) kvs -> o_keys o && satb (key_val kn) = true ->
  covered (NMap i kvs) lc (key_ref kn :: l) k.
Proof.
  intros Hin Ek. destruct (In_nth _ _ Hin) as [j Hn].
  exists (lc ++ [key_ref kn])%list, HKey, [key_ref kn]. split.
  - simpl. apply In_floop. exists j, (kn, v). split; auto. unfold entry_enum, key_hit_enum. simpl. rewrite Ek, Hnx. left; reflexivity.
  - split; [reflexivity|]. split; [exists l; reflexivity|]. right. split; auto.
    apply andb_true_iff in Ek. tauto.
Qed.

(* the hit of the container itself *)
Lemma local_covered tgt r k lc : local tgt r k -> covered tgt lc [r] k.
Proof.
  destruct k; simpl; try contradiction.
  - (* HKey *)
    intros [Hk [i [kvs [kn [v [-> [Hin [-> Hs]]]]]]]].
    eapply key_hit_covers; eauto. rewrite Hk, Hs. reflexivity.
  - (* HValue *)
    intros [Hv [i [v [Hc Hs]]]]. inversion Hc; subst.
    + destruct (o_keys o && satb (key_val k)) eqn:Ek.
      * eapply key_hit_covers; eauto.
      * destruct (In_nth _ _ H) as [j Hn].
        exists (lc ++ [key_ref k])%list, HValue, [key_ref k]. split.
        -- simpl. apply In_floop. exists j, (k, NLeaf i v). split; auto. unfold entry_enum. simpl fst. simpl snd.
           rewrite Ek. unfold val_enum. simpl. rewrite Hv, Hs. left; reflexivity.
        -- split; [reflexivity|]. split; [exists []; reflexivity|]. left; auto.
    + exists (lc ++ [RIdx idx])%list, HValue, [RIdx idx]. split.
      * simpl. apply In_floop. exists idx, (NLeaf i v). split; auto. unfold val_enum. simpl.
        rewrite Hv, Hs. left; reflexivity.
      * split; [reflexivity|]. split; [exists []; reflexivity|]. left; auto.
  - (* HMember *)
    intros [i [els [m [-> [Hin [-> Hs]]]]]]. destruct (In_nth _ _ Hin) as [j Hn].
    exists (lc ++ [member_ref m])%list, HMember, [member_ref m]. split.
    + simpl. apply In_floop. exists j, m. split; auto. unfold member_enum. rewrite Hs. left; reflexivity.
    + split; [reflexivity|]. split; [exists []; reflexivity|]. left; auto.
Qed.

Lemma covered_lift n r c lc l k :
  (forall l0 k0, In (l0, k0) (enum c (lc ++ [r])%list) -> In (l0, k0) (enum n lc)) ->
  covered c (lc ++ [r])%list l k -> covered n lc (r :: l) k.
Proof.
  intros Hsub [l0 [k0 [p [Hin [-> [Hp Hd]]]]]].
  exists ((lc ++ [r]) ++ p)%list, k0, (r :: p). split; [auto|].
  split; [rewrite <- app_assoc; reflexivity|].
  split; [destruct Hp as [s Hs]; exists s; rewrite Hs; reflexivity|].
  destruct Hd as [[Hpl Hk]|Hd]; [left; split; [rewrite Hpl; reflexivity|auto]|right; auto].
Qed.

Lemma leaf_no_local i v r k : ~ local (NLeaf i v) r k.
Proof.
  destruct k; simpl; try tauto.
  - intros [_ [i0 [kvs [kn [v0 [H _]]]]]]. discriminate.
  - intros [_ [i0 [v0 [H _]]]]. inversion H.
  - intros [i0 [els [m [H _]]]]. discriminate.
Qed.

Theorem enum_complete n l0 tgt : reach n l0 tgt ->
  forall r k lc, local tgt r k -> covered n lc (l0 ++ [r])%list k.
Proof.
  induction 1 as [n|n r0 c l m Hc R IH]; intros r k lc L.
  - apply local_covered; auto.
  - simpl. inversion Hc; subst.
    + (* through a mapping entry *)
      destruct (o_keys o && satb (key_val k0)) eqn:Ek; [eapply key_hit_covers; eauto|].
      destruct (is_container c) eqn:Ec.
      * eapply covered_lift; [|apply IH; auto].
        intros l1 k1 Hin. destruct (In_nth _ _ H) as [j Hn]. simpl. apply In_floop.
        exists j, (k0, c). split; auto. unfold entry_enum. simpl fst. simpl snd. rewrite Ek.
        unfold val_enum. rewrite Ec. exact Hin.
      * destruct (not_container_leaf _ Ec) as [i0 [x ->]]. inversion R; subst.
        -- exfalso. eapply leaf_no_local; eauto.
        -- match goal with H : child_at (NLeaf _ _) _ _ |- _ => inversion H end.
    + (* through a sequence element *)
      destruct (is_container c) eqn:Ec.
      * eapply covered_lift; [|apply IH; auto].
        intros l1 k1 Hin. simpl. apply In_floop. exists idx, c. split; auto.
        unfold val_enum. rewrite Ec. exact Hin.
      * destruct (not_container_leaf _ Ec) as [i0 [x ->]]. inversion R; subst.
        -- exfalso. eapply leaf_no_local; eauto.
        -- match goal with H : child_at (NLeaf _ _) _ _ |- _ => inversion H end.
Qed.

(* ---- no location is listed twice ---- *)
Lemma NoDup_app' {A} (l1 l2 : list A) :
  NoDup l1 -> NoDup l2 -> (forall x, In x l1 -> In x l2 -> False) -> NoDup (l1 ++ l2).
Proof.
  induction l1 as [|a l1 IH]; simpl; intros H1 H2 H; auto.
  inversion H1; subst. constructor.
  - rewrite in_app_iff. intros [?|?]; [auto|]. eapply H; eauto.
  - apply IH; auto. intros x Hx. apply H. auto.
Qed.

Lemma NoDup_floop {A B} (g : A -> nat -> list B) (l : list A) : forall idx,
  (forall j a, nth_error l j = Some a -> NoDup (g a (idx + j))) ->
  (forall j1 j2 a1 a2 x, j1 <> j2 -> nth_error l j1 = Some a1 -> nth_error l j2 = Some a2 ->
                         In x (g a1 (idx + j1)) -> In x (g a2 (idx + j2)) -> False) ->
  NoDup (floop g l idx).
Proof.
  induction l as [|a l IH]; intros idx H1 H2; simpl; [constructor|].
  apply NoDup_app'.
  - specialize (H1 0 a eq_refl). rewrite Nat.add_0_r in H1. exact H1.
  - apply IH.
    + intros j b Hn. specialize (H1 (S j) b Hn). replace (idx + S j) with (S idx + j) in H1 by lia. exact H1.
    + intros j1 j2 a1 a2 x Hne Hn1 Hn2 Hi1 Hi2.
      apply (H2 (S j1) (S j2) a1 a2 x); auto;
        [replace (idx + S j1) with (S idx + j1) by lia | replace (idx + S j2) with (S idx + j2) by lia]; auto.
  - intros x Hx Hy. apply In_floop in Hy. destruct Hy as [j [b [Hn Hy]]].
    apply (H2 0 (S j) a b x); auto.
    + rewrite Nat.add_0_r. exact Hx.
    + replace (idx + S j) with (S idx + j) by lia. exact Hy.
Qed.

Definition locs (l : list (loc * hkind)) : list loc := map fst l.

Lemma locs_floop {A} (g : A -> nat -> list (loc * hkind)) (l : list A) : forall idx,
  locs (floop g l idx) = floop (fun a i => locs (g a i)) l idx.
Proof. induction l; intros; simpl; auto. unfold locs in *. rewrite map_app, IHl. reflexivity. Qed.

Lemma enum_prefix n lc l : In l (locs (enum n lc)) -> exists r s, l = (lc ++ r :: s)%list.
Proof.
  unfold locs. rewrite in_map_iff. intros [[l0 k] [<- Hin]]. simpl.
  destruct (enum_sound _ _ _ _ Hin) as [l' [-> [l1 [tgt [r [-> _]]]]]].
  destruct l1; simpl; eauto.
Qed.

Lemma val_enum_locs_prefix c lc r l :
  In l (locs (val_enum lit re_search tm o (fun v l => enum v l) c (lc ++ [r])%list)) ->
  exists s, l = (lc ++ r :: s)%list.
Proof.
  unfold val_enum. destruct (is_container c).
  - intros H. destruct (enum_prefix _ _ _ H) as [r0 [s ->]]. rewrite <- app_assoc. simpl. eauto.
  - destruct (o_values o && satb (key_val c)); simpl; [|tauto].
    intros [<-|[]]. exists []. reflexivity.
Qed.

Lemma entry_enum_locs_prefix kv lc l :
  In l (locs (entry_enum lit re_search tm o (fun v l => enum v l) lc kv)) ->
  exists s, l = (lc ++ key_ref (fst kv) :: s)%list.
Proof.
  unfold entry_enum, key_hit_enum. rewrite Hnx. destruct (o_keys o && satb (key_val (fst kv))).
  - simpl. intros [<-|[]]. exists []. reflexivity.
  - apply val_enum_locs_prefix.
Qed.

Lemma nodup_keys_map_children i kvs :
  nodup_keys (NMap i kvs) -> forall kv, In kv kvs -> nodup_keys (snd kv).
Proof.
  simpl. intros [_ H]. induction kvs as [|a r IH]; intros kv Hin; [contradiction|].
  destruct H as [Ha Hr]. destruct Hin as [<-|Hin]; auto.
Qed.

Lemma nodup_keys_seq_children i els :
  nodup_keys (NSeq i els) -> forall e, In e els -> nodup_keys e.
Proof.
  simpl. induction els as [|a r IH]; intros H e Hin; [contradiction|].
  destruct H as [Ha Hr]. destruct Hin as [<-|Hin]; auto.
Qed.

Lemma NoDup_map_nth {A B} (f : A -> B) (l : list A) j1 j2 a1 a2 :
  NoDup (map f l) -> nth_error l j1 = Some a1 -> nth_error l j2 = Some a2 -> f a1 = f a2 -> j1 = j2.
Proof.
  intros H H1 H2 E. rewrite NoDup_nth_error in H. apply H.
  - rewrite map_length. apply nth_error_Some. congruence.
  - rewrite !nth_error_map, H1, H2. simpl. congruence.
Qed.

Lemma val_enum_nodup c lc :
  (forall lc, NoDup (locs (enum c lc))) ->
  NoDup (locs (val_enum lit re_search tm o (fun v l => enum v l) c lc)).
Proof.
  intros H. unfold val_enum. destruct (is_container c); auto.
  destruct (o_values o && satb (key_val c)); simpl; repeat constructor; auto.
Qed.

Theorem enum_nodup n : nodup_keys n -> forall lc, NoDup (locs (enum n lc)).
Proof.
  induction n as [i v|i kvs IH|i els IH|i els IH] using node_ind'; intros Hn lc; simpl enum.
  - constructor.
  - rewrite locs_floop. apply NoDup_floop.
    + intros j kv Hj. pose proof (nth_error_In _ _ Hj) as Hin.
      unfold entry_enum, key_hit_enum. rewrite Hnx.
      destruct (o_keys o && satb (key_val (fst kv))); [simpl; repeat constructor; auto|].
      apply val_enum_nodup. intros lc'. rewrite Forall_forall in IH. apply (IH _ Hin).
      eapply nodup_keys_map_children; eauto.
    + intros j1 j2 a1 a2 x Hne H1 H2 Hx1 Hx2.
      destruct (entry_enum_locs_prefix _ _ _ Hx1) as [s1 E1].
      destruct (entry_enum_locs_prefix _ _ _ Hx2) as [s2 E2].
      rewrite E1 in E2. apply app_inv_head in E2. injection E2 as Ek _.
      apply Hne. destruct Hn as [Hnd _].
      eapply (NoDup_map_nth (fun kv => key_val (fst kv))); eauto.
  - rewrite locs_floop. apply NoDup_floop.
    + intros j e Hj. pose proof (nth_error_In _ _ Hj) as Hin.
      apply val_enum_nodup. intros lc'. rewrite Forall_forall in IH. apply (IH _ Hin).
      eapply nodup_keys_seq_children; eauto.
    + intros j1 j2 a1 a2 x Hne H1 H2 Hx1 Hx2.
      destruct (val_enum_locs_prefix _ _ _ _ Hx1) as [s1 E1].
      destruct (val_enum_locs_prefix _ _ _ _ Hx2) as [s2 E2].
      rewrite E1 in E2. apply app_inv_head in E2. inversion E2. lia.
  - rewrite locs_floop. apply NoDup_floop.
    + intros j m Hj. unfold member_enum. destruct (satb (key_val m)); simpl; repeat constructor; auto.
    + intros j1 j2 a1 a2 x Hne H1 H2 Hx1 Hx2. unfold member_enum in *.
      destruct (satb (key_val a1)); simpl in Hx1; [|contradiction].
      destruct (satb (key_val a2)); simpl in Hx2; [|contradiction].
      destruct Hx1 as [<-|[]]. destruct Hx2 as [Hx2|[]].
      apply app_inv_head in Hx2. unfold member_ref in Hx2. injection Hx2 as Ek.
      apply Hne. simpl in Hn. eapply (NoDup_map_nth key_val); eauto.
Qed.

End SpecProofs.
