(* Proofs for C13 about Model/Keywords.v. *)
From Coq Require Import List Ascii String ZArith QArith Bool Arith Lia.
From YP Require Import Outcome PyStr PyVal Doc PathParser Searches Keywords SpecC13.
Import ListNotations.
Open Scope string_scope.
Open Scope list_scope.

(* ---------- rationals ---------- *)
Lemma Qlt_bool_true : forall a b, Qlt_bool a b = true <-> (a < b)%Q.
Proof.
  intros a b. unfold Qlt_bool. rewrite negb_true_iff. split.
  - intros H. apply Qnot_le_lt. intros Hle. apply Qle_bool_iff in Hle. congruence.
  - intros H. destruct (Qle_bool b a) eqn:E; [|reflexivity].
    apply Qle_bool_iff in E. exfalso. apply (Qlt_not_le _ _ H E).
Qed.
Lemma Qlt_bool_false : forall a b, Qlt_bool a b = false <-> (b <= a)%Q.
Proof.
  intros a b. unfold Qlt_bool. rewrite negb_false_iff. apply Qle_bool_iff.
Qed.

(* "the new value b beats the running value a" *)
Definition beats (cmp : smethod) (a b : Q) : bool :=
  match cmp with MLt => Qlt_bool b a | _ => Qlt_bool a b end.
(* a is at least as good as b *)
Definition good (cmp : smethod) (a b : Q) : Prop :=
  match cmp with MLt => (a <= b)%Q | _ => (b <= a)%Q end.

Lemma beats_false_good : forall cmp a b, beats cmp a b = false <-> good cmp a b.
Proof. intros [] a b; simpl; apply Qlt_bool_false. Qed.
Lemma beats_true_not_good : forall cmp a b, beats cmp a b = true -> ~ good cmp a b.
Proof.
  intros cmp a b H G. apply beats_false_good in G. congruence.
Qed.
Lemma good_trans : forall cmp a b c, good cmp a b -> good cmp b c -> good cmp a c.
Proof. intros [] a b c; simpl; intros; eapply Qle_trans; eauto. Qed.
Lemma good_refl : forall cmp a, good cmp a a.
Proof. intros [] a; simpl; apply Qle_refl. Qed.
Lemma good_total : forall cmp a b, good cmp a b \/ good cmp b a.
Proof.
  intros cmp a b. destruct (Qlt_le_dec a b) as [H|H].
  - apply Qlt_le_weak in H. destruct cmp; simpl; auto.
  - destruct cmp; simpl; auto.
Qed.
Lemma good_eq : forall cmp a b, good cmp a b -> good cmp b a -> (a == b)%Q.
Proof. intros [] a b; simpl; intros; apply Qle_antisym; assumption. Qed.
Lemma Qeq_good : forall cmp a b, (a == b)%Q -> good cmp a b.
Proof. intros [] a b H; simpl; rewrite H; apply Qle_refl. Qed.

Section WithOracles.
Variable lit : string -> outcome litres.
Variable re_search : string -> string -> outcome reres.
Variable node_str : node -> string.
Variable doc : node.

Notation sm := (Keywords.sm lit re_search).

(* ---------- name() ---------- *)
Lemma name_spec : forall x,
  kw_name_search false [] x =
    Ok [mkcoords (RefVal (k_parentref x)) (k_parent x) (k_parentref x) (k_path x) (k_ancestry x)].
Proof. reflexivity. Qed.

Lemma name_refuses : forall invert params x,
  invert = true \/ 1 < List.length params ->
  exists k, kw_name_search invert params x = Raise (YPE k).
Proof.
  intros invert params x H. unfold kw_name_search.
  destruct (Nat.ltb 1 (List.length params)) eqn:E; [eexists; reflexivity|].
  destruct H as [->|H]; [eexists; reflexivity|].
  apply Nat.ltb_lt in H. congruence.
Qed.

(* ---------- has_child ---------- *)
Definition plain_key (key : string) : Prop :=
  match key with String c _ => c <> "&"%char | EmptyString => False end.

Lemma has_child_plain : forall invert key data x,
  plain_key key ->
  has_child doc invert [key] data x = has_concrete_child invert key data x.
Proof.
  intros invert key data x H. unfold has_child. destruct key as [|c r]; [contradiction|].
  simpl in H. destruct (Ascii.eqb c "&"%char) eqn:E; [apply Ascii.eqb_eq in E; contradiction|reflexivity].
Qed.

Lemma xor_verdict_spec : forall invert present, xor_verdict invert present = xorb present invert.
Proof. intros [] []; reflexivity. Qed.

(* on a hash: the hash itself, iff it has (inverted: lacks) the key *)
Lemma has_child_map : forall invert key i kvs x,
  plain_key key ->
  has_child doc invert [key] (NMap i kvs) x =
    Ok (if xorb (has_key (NMap i kvs) key) invert then [self_coords x] else []).
Proof.
  intros. rewrite has_child_plain by assumption. simpl. unfold concrete_on_map, map_get.
  rewrite xor_verdict_spec. destruct (assoc_key (PStr key) kvs); reflexivity.
Qed.

Definition elem_ctx (x : kctx) (idx : nat) : kctx :=
  mkkctx (k_here x ++ [RIdx idx]) (Some (k_here x)) (Some (RIdx idx))
         (k_path x ++ [RIdx idx]) (k_ancestry x ++ [(k_here x, RIdx idx)]).

Lemma in_enumerate_from : forall A (l : list A) k i a,
  In (i, a) (enumerate_from k l) <-> (k <= i /\ nth_error l (i - k) = Some a).
Proof.
  intros A l. induction l as [|h t IH]; intros k i a; simpl.
  - split; [intros []|]. intros [_ H]. destruct (i - k); discriminate.
  - split.
    + intros [H|H].
      * inversion H; subst. split; [lia|]. rewrite Nat.sub_diag. reflexivity.
      * apply IH in H. destruct H as [Hk Hn]. split; [lia|].
        replace (i - k) with (S (i - S k)) by lia. exact Hn.
    + intros [Hk Hn]. destruct (Nat.eq_dec i k) as [->|Hne].
      * rewrite Nat.sub_diag in Hn. simpl in Hn. inversion Hn. left; reflexivity.
      * right. apply IH. split; [lia|].
        replace (i - k) with (S (i - S k)) in Hn by lia. exact Hn.
Qed.

(* on an Array-of-Hashes: exactly the element hashes having (lacking) the key *)
Lemma has_child_aoh : forall invert key i els x c,
  plain_key key ->
  node_is_aoh false (NSeq i els) = true ->
  exists res, has_child doc invert [key] (NSeq i els) x = Ok res /\
    (In c res <->
     exists idx ele, nth_error els idx = Some ele /\
       xorb (has_key ele key) invert = true /\ c = self_coords (elem_ctx x idx)).
Proof.
  intros invert key i els x c Hk Haoh. rewrite has_child_plain by assumption.
  unfold has_concrete_child. rewrite Haoh. eexists. split; [reflexivity|].
  rewrite in_flat_map. split.
  - intros [[idx ele] [Hin Hc]]. unfold enumerate in Hin. apply in_enumerate_from in Hin.
    destruct Hin as [_ Hn]. rewrite Nat.sub_0_r in Hn.
    exists idx, ele. split; [assumption|].
    destruct ele as [?|ie kvs|?|?]; try (simpl in Hc; contradiction).
    unfold concrete_on_map, map_get in Hc. rewrite xor_verdict_spec in Hc. simpl.
    destruct (assoc_key (PStr key) kvs); simpl in *;
      destruct invert; simpl in *; try contradiction;
      destruct Hc as [Hc|[]]; subst; split; reflexivity.
  - intros [idx [ele [Hn [Hx Hc]]]]. exists (idx, ele). split.
    + unfold enumerate. apply in_enumerate_from. split; [lia|]. rewrite Nat.sub_0_r. assumption.
    + destruct ele as [?|ie kvs|?|?]; simpl in Hx; try (destruct invert; discriminate).
      * simpl in Haoh. rewrite forallb_forall in Haoh.
        apply nth_error_In in Hn. specialize (Haoh _ Hn). simpl in Haoh. discriminate.
      * unfold concrete_on_map, map_get. rewrite xor_verdict_spec.
        destruct (assoc_key (PStr key) kvs); simpl in *; rewrite Hx; left; subst; reflexivity.
      * simpl in Haoh. rewrite forallb_forall in Haoh.
        apply nth_error_In in Hn. specialize (Haoh _ Hn). simpl in Haoh. discriminate.
      * simpl in Haoh. rewrite forallb_forall in Haoh.
        apply nth_error_In in Hn. specialize (Haoh _ Hn). simpl in Haoh. discriminate.
Qed.

(* ---------- max / min: the scan ---------- *)
Section Scan.
Variable cmp : smethod.
Variable key : pyval -> Q.
Variable P : pyval -> Prop.            (* the comparable values of the collection *)
Hypothesis HP_none : forall v, P v -> is_pnone v = false.
Hypothesis HP_cmp : forall a b, P a -> P b -> sm cmp a b = Ok (beats cmp (key a) (key b)).
Hypothesis HP_eq : forall a b, P a -> P b -> sm MEquals a b = Ok (Qeq_bool (key b) (key a)).

Definition mem := (option pyval * coords)%type.

Definition gstep (s : scan) (m : mem) : outcome scan :=
  match fst m with
  | None => Ok (discard s (snd m))
  | Some v =>
      do r <- scan_value lit re_search cmp s v (snd m);
      match r with Some s' => Ok s' | None => Ok (discard s (snd m)) end
  end.

Definition all_P (ms : list mem) : Prop := forall v c, In (Some v, c) ms -> P v.

Definition Inv (ms : list mem) (s : scan) : Prop :=
  ((forall v c, ~ In (Some v, c) ms) /\ s_value s = PNone /\ s_match s = [] /\
   (forall c, In c (s_discard s) <-> exists ov, In (ov, c) ms))
  \/
  (exists best, s_value s = best /\ P best /\ (exists c, In (Some best, c) ms) /\
     (forall w c, In (Some w, c) ms -> good cmp (key best) (key w)) /\
     (forall c, In c (s_match s) <-> exists w, In (Some w, c) ms /\ (key w == key best)%Q) /\
     (forall c, In c (s_discard s) <->
        exists ov, In (ov, c) ms /\ match ov with None => True | Some w => ~ good cmp (key w) (key best) end)).

Lemma in_snoc : forall A (l : list A) a x, In x (l ++ [a]) <-> In x l \/ x = a.
Proof. intros. rewrite in_app_iff. simpl. intuition. Qed.

Lemma gstep_inv : forall ms s m,
  Inv ms s -> all_P (ms ++ [m]) ->
  exists s', gstep s m = Ok s' /\ Inv (ms ++ [m]) s'.
Proof.
  intros ms s [ov c] HI HP. unfold gstep. simpl.
  destruct ov as [v|].
  2:{ (* nothing to compare: discarded *)
    eexists. split; [reflexivity|]. unfold discard.
    destruct HI as [[Hno [Hv [Hm Hd]]]|[best [Hv [Pb [Hin [Hg [Hm Hd]]]]]]].
    - left. simpl. repeat split; try assumption.
      + intros v c' Hi. apply in_snoc in Hi. destruct Hi as [Hi|Hi]; [apply (Hno _ _ Hi)|discriminate].
      + intros Hi. apply in_snoc in Hi. destruct Hi as [Hi|Hi].
        * apply Hd in Hi. destruct Hi as [ov Hi]. exists ov. apply in_snoc. left; assumption.
        * subst. exists None. apply in_snoc. right; reflexivity.
      + intros [ov Hi]. apply in_snoc. apply in_snoc in Hi. destruct Hi as [Hi|Hi].
        * left. apply Hd. exists ov; assumption.
        * inversion Hi; subst. right; reflexivity.
    - right. exists best. simpl. repeat split; try assumption.
      + destruct Hin as [c0 Hc0]. exists c0. apply in_snoc. left; assumption.
      + intros w c' Hi. apply in_snoc in Hi. destruct Hi as [Hi|Hi]; [apply (Hg _ _ Hi)|discriminate].
      + intros Hi. apply Hm in Hi. destruct Hi as [w [Hi He]]. exists w. split; [apply in_snoc; left; assumption|assumption].
      + intros [w [Hi He]]. apply Hm. apply in_snoc in Hi. destruct Hi as [Hi|Hi]; [exists w; split; assumption|discriminate].
      + intros Hi. apply in_snoc in Hi. destruct Hi as [Hi|Hi].
        * apply Hd in Hi. destruct Hi as [ov [Hi Ho]]. exists ov. split; [apply in_snoc; left; assumption|assumption].
        * subst. exists None. split; [apply in_snoc; right; reflexivity|exact I].
      + intros [ov [Hi Ho]]. apply in_snoc. apply in_snoc in Hi. destruct Hi as [Hi|Hi].
        * left. apply Hd. exists ov. split; assumption.
        * inversion Hi; subst. right; reflexivity. }
  assert (Pv : P v) by (apply (HP v c); apply in_snoc; right; reflexivity).
  unfold scan_value.
  destruct HI as [[Hno [Hv [Hm Hd]]]|[best [Hv [Pb [Hin [Hg [Hm Hd]]]]]]].
  - (* first comparable value *)
    rewrite Hv. simpl. eexists. split; [reflexivity|].
    right. exists v. simpl. repeat split; try assumption.
    + exists c. apply in_snoc. right; reflexivity.
    + intros w c' Hi. apply in_snoc in Hi. destruct Hi as [Hi|Hi]; [exfalso; apply (Hno _ _ Hi)|].
      inversion Hi; subst. apply good_refl.
    + intros [Hi|[]]. subst. exists v. split; [apply in_snoc; right; reflexivity|reflexivity].
    + intros [w [Hi He]]. apply in_snoc in Hi. destruct Hi as [Hi|Hi]; [exfalso; apply (Hno _ _ Hi)|].
      inversion Hi; subst. left; reflexivity.
    + rewrite Hm, app_nil_r. intros Hi. apply Hd in Hi. destruct Hi as [ov Hi]. exists ov.
      split; [apply in_snoc; left; assumption|].
      destruct ov as [w|]; [exfalso; apply (Hno _ _ Hi)|exact I].
    + rewrite Hm, app_nil_r. intros [ov [Hi Ho]]. apply in_snoc in Hi. destruct Hi as [Hi|Hi].
      * apply Hd. exists ov; assumption.
      * inversion Hi; subst. exfalso. apply Ho. apply good_refl.
  - subst best. rewrite (HP_none _ Pb). rewrite (HP_cmp _ _ Pb Pv). simpl.
    destruct (beats cmp (key (s_value s)) (key v)) eqn:Eb.
    + (* a new extremum: the former ones are discarded *)
      eexists. split; [reflexivity|].
      pose proof (beats_true_not_good _ _ _ Eb) as Hnb.
      assert (Hvb : good cmp (key v) (key (s_value s))).
      { destruct (good_total cmp (key v) (key (s_value s))); [assumption|contradiction]. }
      right. exists v. simpl. repeat split; try assumption.
      * exists c. apply in_snoc. right; reflexivity.
      * intros w c' Hi. apply in_snoc in Hi. destruct Hi as [Hi|Hi].
        -- eapply good_trans; [exact Hvb|apply (Hg _ _ Hi)].
        -- inversion Hi; subst. apply good_refl.
      * intros [Hi|[]]. subst. exists v. split; [apply in_snoc; right; reflexivity|reflexivity].
      * intros [w [Hi He]]. apply in_snoc in Hi. destruct Hi as [Hi|Hi].
        -- exfalso. apply Hnb. eapply good_trans; [apply (Hg _ _ Hi)|]. apply Qeq_good. assumption.
        -- inversion Hi; subst. left; reflexivity.
      * intros Hi. apply in_app_iff in Hi. destruct Hi as [Hi|Hi].
        -- apply Hd in Hi. destruct Hi as [ov [Hi Ho]]. exists ov. split; [apply in_snoc; left; assumption|].
           destruct ov as [w|]; [|exact I]. intros Hgw. apply Ho. eapply good_trans; [exact Hgw|exact Hvb].
        -- apply Hm in Hi. destruct Hi as [w [Hi He]]. exists (Some w). split; [apply in_snoc; left; assumption|].
           intros Hgw. apply Hnb. eapply good_trans; [|exact Hgw]. apply Qeq_good. symmetry; assumption.
      * intros [ov [Hi Ho]]. apply in_app_iff. apply in_snoc in Hi. destruct Hi as [Hi|Hi].
        -- destruct ov as [w|].
           ++ destruct (good_total cmp (key w) (key (s_value s))) as [G|G].
              ** right. apply Hm. exists w. split; [assumption|]. apply good_eq with cmp; [assumption|apply (Hg _ _ Hi)].
              ** destruct (Qeq_dec (key w) (key (s_value s))) as [E|E].
                 --- right. apply Hm. exists w. split; assumption.
                 --- left. apply Hd. exists (Some w). split; [assumption|].
                     intros G'. apply E. apply good_eq with cmp; assumption.
           ++ left. apply Hd. exists None. split; [assumption|exact I].
        -- inversion Hi; subst. exfalso. apply Ho. apply good_refl.
    + rewrite (HP_eq _ _ Pb Pv). simpl.
      pose proof (proj1 (beats_false_good _ _ _) Eb) as Hgb.
      destruct (Qeq_bool (key v) (key (s_value s))) eqn:Eq.
      * (* equal to the extremum: one more match *)
        apply Qeq_bool_iff in Eq.
        eexists. split; [reflexivity|].
        right. exists (s_value s). simpl. repeat split; try assumption.
        -- destruct Hin as [c0 Hc0]. exists c0. apply in_snoc. left; assumption.
        -- intros w c' Hi. apply in_snoc in Hi. destruct Hi as [Hi|Hi]; [apply (Hg _ _ Hi)|].
           inversion Hi; subst. assumption.
        -- intros Hi. apply in_snoc in Hi. destruct Hi as [Hi|Hi].
           ++ apply Hm in Hi. destruct Hi as [w [Hi He]]. exists w. split; [apply in_snoc; left; assumption|assumption].
           ++ subst. exists v. split; [apply in_snoc; right; reflexivity|assumption].
        -- intros [w [Hi He]]. apply in_snoc. apply in_snoc in Hi. destruct Hi as [Hi|Hi].
           ++ left. apply Hm. exists w. split; assumption.
           ++ inversion Hi; subst. right; reflexivity.
        -- intros Hi. apply Hd in Hi. destruct Hi as [ov [Hi Ho]]. exists ov. split; [apply in_snoc; left; assumption|assumption].
        -- intros [ov [Hi Ho]]. apply in_snoc in Hi. destruct Hi as [Hi|Hi].
           ++ apply Hd. exists ov. split; assumption.
           ++ inversion Hi; subst. exfalso. apply Ho. apply Qeq_good. assumption.
      * (* worse: discarded *)
        assert (Hne : ~ (key v == key (s_value s))%Q).
        { intros E. apply Qeq_bool_iff in E. congruence. }
        eexists. split; [reflexivity|]. unfold discard.
        right. exists (s_value s). simpl. repeat split; try assumption.
        -- destruct Hin as [c0 Hc0]. exists c0. apply in_snoc. left; assumption.
        -- intros w c' Hi. apply in_snoc in Hi. destruct Hi as [Hi|Hi]; [apply (Hg _ _ Hi)|].
           inversion Hi; subst. assumption.
        -- intros Hi. apply Hm in Hi. destruct Hi as [w [Hi He]]. exists w. split; [apply in_snoc; left; assumption|assumption].
        -- intros [w [Hi He]]. apply in_snoc in Hi. destruct Hi as [Hi|Hi].
           ++ apply Hm. exists w. split; assumption.
           ++ inversion Hi; subst. contradiction.
        -- intros Hi. apply in_snoc in Hi. destruct Hi as [Hi|Hi].
           ++ apply Hd in Hi. destruct Hi as [ov [Hi Ho]]. exists ov. split; [apply in_snoc; left; assumption|assumption].
           ++ subst. exists (Some v). split; [apply in_snoc; right; reflexivity|].
              intros G. apply Hne. apply good_eq with cmp; assumption.
        -- intros [ov [Hi Ho]]. apply in_snoc. apply in_snoc in Hi. destruct Hi as [Hi|Hi].
           ++ left. apply Hd. exists ov. split; assumption.
           ++ inversion Hi; subst. right; reflexivity.
Qed.

Lemma fold_gstep_inv : forall l ms s,
  Inv ms s -> all_P (ms ++ l) ->
  exists s', foldM gstep l s = Ok s' /\ Inv (ms ++ l) s'.
Proof.
  induction l as [|m r IH]; intros ms s HI HP; simpl.
  - exists s. rewrite app_nil_r. split; [reflexivity|assumption].
  - assert (HP1 : all_P (ms ++ [m])).
    { intros v c Hi. apply (HP v c). apply in_app_iff. apply in_snoc in Hi. destruct Hi as [Hi|Hi].
      - left; assumption.
      - right; left; symmetry; assumption. }
    destruct (gstep_inv ms s m HI HP1) as [s1 [E1 I1]]. rewrite E1. simpl.
    assert (HP2 : all_P ((ms ++ [m]) ++ r)) by (rewrite <- app_assoc; exact HP).
    destruct (IH (ms ++ [m]) s1 I1 HP2) as [s2 [E2 I2]].
    exists s2. split; [assumption|]. rewrite <- app_assoc in I2. exact I2.
Qed.

Lemma Inv_nil : Inv [] scan0.
Proof.
  left. simpl. split; [intros v c []|]. split; [reflexivity|]. split; [reflexivity|].
  intros c. split; [intros []|intros [ov []]].
Qed.

Lemma scan_total : forall l, all_P l ->
  exists s, foldM gstep l scan0 = Ok s /\ Inv l s.
Proof. intros l HP. apply (fold_gstep_inv l [] scan0 Inv_nil HP). Qed.

(* what the invariant says at the end, in the words of the spec *)
Definition is_best (v : pyval) (ms : list mem) : Prop :=
  forall w c, In (Some w, c) ms -> good cmp (key v) (key w).

Lemma Inv_match : forall ms s, Inv ms s ->
  forall c, In c (s_match s) <-> exists v, In (Some v, c) ms /\ is_best v ms.
Proof.
  intros ms s [[Hno [Hv [Hm Hd]]]|[best [Hv [Pb [Hin [Hg [Hm Hd]]]]]]] c.
  - rewrite Hm. split; [intros []|]. intros [v [Hi _]]. exfalso. apply (Hno _ _ Hi).
  - rewrite Hm. split.
    + intros [w [Hi He]]. exists w. split; [assumption|]. intros u cu Hu.
      eapply good_trans; [apply Qeq_good; exact He|apply (Hg _ _ Hu)].
    + intros [v [Hi Hb]]. exists v. split; [assumption|].
      destruct Hin as [c0 Hc0]. apply good_eq with cmp; [apply (Hb _ _ Hc0)|apply (Hg _ _ Hi)].
Qed.

Lemma Inv_discard : forall ms s, Inv ms s ->
  forall c, In c (s_discard s) <->
    exists ov, In (ov, c) ms /\ match ov with None => True | Some v => ~ is_best v ms end.
Proof.
  intros ms s [[Hno [Hv [Hm Hd]]]|[best [Hv [Pb [Hin [Hg [Hm Hd]]]]]]] c.
  - rewrite Hd. split.
    + intros [ov Hi]. exists ov. split; [assumption|]. destruct ov as [w|]; [exfalso; apply (Hno _ _ Hi)|exact I].
    + intros [ov [Hi _]]. exists ov; assumption.
  - rewrite Hd. split.
    + intros [ov [Hi Ho]]. exists ov. split; [assumption|]. destruct ov as [w|]; [|exact I].
      intros Hb. apply Ho. destruct Hin as [c0 Hc0]. apply (Hb _ _ Hc0).
    + intros [ov [Hi Ho]]. exists ov. split; [assumption|]. destruct ov as [w|]; [|exact I].
      intros G. apply Ho. intros u cu Hu. eapply good_trans; [exact G|apply (Hg _ _ Hu)].
Qed.

(* ---------- the model's loops are this scan ---------- *)
Definition list_member (x : kctx) (ie : nat * node) : mem :=
  (if is_none_node (snd ie) then None else Some (val_of_node node_str (snd ie)),
   child_coords x (RIdx (fst ie))).

Lemma list_step_gstep : forall x s ie,
  list_step lit re_search node_str cmp x s ie = gstep s (list_member x ie).
Proof.
  intros x s [idx ele]. unfold list_step, gstep, list_member. simpl.
  destruct (is_none_node ele); [reflexivity|]. simpl. unfold scan_value.
  destruct (is_pnone (s_value s)) eqn:E; simpl; [reflexivity|].
  destruct (sm cmp (s_value s) (val_of_node node_str ele)) as [[|]| |]; simpl; try reflexivity.
  destruct (sm MEquals (s_value s) (val_of_node node_str ele)) as [[|]| |]; reflexivity.
Qed.

Definition attr_value (attr : string) (rec : node) : option pyval :=
  match rec with
  | NMap _ kvs =>
      match map_get kvs attr with
      | Some vn => if is_none_node vn then None else Some (val_of_node node_str vn)
      | None => None
      end
  | _ => None
  end.

Definition aoh_member (attr : string) (x : kctx) (ie : nat * node) : mem :=
  (attr_value attr (snd ie), child_coords x (RIdx (fst ie))).

Lemma aoh_step_gstep : forall attr x s ie,
  aoh_step lit re_search node_str cmp attr x s ie = gstep s (aoh_member attr x ie).
Proof.
  intros attr x s [idx ele]. unfold aoh_step, gstep, aoh_member, attr_value. simpl.
  destruct ele as [?|i kvs|?|?]; try reflexivity.
  destruct (map_get kvs attr) as [vn|]; [|reflexivity].
  destruct (is_none_node vn); reflexivity.
Qed.

Lemma foldM_map_ext : forall A B (f : scan -> A -> outcome scan) (g : scan -> B -> outcome scan) (h : A -> B),
  (forall s a, f s a = g s (h a)) ->
  forall l s, foldM f l s = foldM g (map h l) s.
Proof.
  intros A B f g h H l. induction l as [|a r IH]; intros s; simpl; [reflexivity|].
  rewrite H. destruct (g s (h a)); simpl; auto.
Qed.

(* a plain list (not an Array-of-Hashes), no parameter *)
Lemma extremum_list : forall invert i els x,
  node_is_aoh true (NSeq i els) = false ->
  all_P (map (list_member x) (enumerate els)) ->
  exists s,
    extremum lit re_search node_str cmp invert [] (NSeq i els) x =
      Ok (if invert then s_discard s else s_match s) /\
    Inv (map (list_member x) (enumerate els)) s.
Proof.
  intros invert i els x Haoh HP. unfold extremum. simpl List.length. simpl Nat.ltb.
  cbv iota. rewrite Haoh.
  rewrite (foldM_map_ext _ _ _ gstep (list_member x) (list_step_gstep x)).
  destruct (scan_total _ HP) as [s [E I]]. rewrite E. simpl. exists s. split; [reflexivity|assumption].
Qed.

(* an Array-of-Hashes with the attribute named *)
Lemma extremum_aoh : forall invert attr i els x,
  node_is_aoh true (NSeq i els) = true ->
  all_P (map (aoh_member attr x) (enumerate els)) ->
  exists s,
    extremum lit re_search node_str cmp invert [attr] (NSeq i els) x =
      Ok (if invert then s_discard s else s_match s) /\
    Inv (map (aoh_member attr x) (enumerate els)) s.
Proof.
  intros invert attr i els x Haoh HP. unfold extremum. simpl List.length. simpl Nat.ltb.
  cbv iota. rewrite Haoh.
  rewrite (foldM_map_ext _ _ _ gstep (aoh_member attr x) (aoh_step_gstep attr x)).
  destruct (scan_total _ HP) as [s [E I]]. rewrite E. simpl. exists s. split; [reflexivity|assumption].
Qed.

End Scan.

(* ---------- same-kind numeric collections satisfy the hypotheses of the scan ---------- *)
Definition num_key (v : pyval) : Q := match num_of v with Some q => q | None => 0 end.

(* all ints (ints = true) or all floats, each its own typed reading *)
Definition same_kind_num (ints : bool) (v : pyval) : Prop :=
  (if ints then exists z, v = PInt z else exists q r, v = PFloat q r) /\
  typed_value lit v = Ok v.

Lemma same_kind_not_none : forall ints v, same_kind_num ints v -> is_pnone v = false.
Proof. intros [] v [H _]; [destruct H as [z ->]|destruct H as [q [r ->]]]; reflexivity. Qed.

Lemma sm_unfold_typed : forall m a b,
  typed_value lit a = Ok a -> typed_value lit b = Ok b ->
  sm m a b =
  match m with
  | MEquals =>
      if is_bool_inst b && type_is_bool a then Ok (py_eq b a)
      else if is_int_inst b && type_is_int a then Ok (py_eq b a)
      else if is_float_inst b && type_is_float a then Ok (py_eq b a)
      else Ok (String.eqb (py_str b) (py_str a))
  | MGt => ordered py_gt (fun p q => str_ltb q p) b a (py_str a)
  | MLt => ordered py_lt str_ltb b a (py_str a)
  | _ => sm m a b
  end.
Proof.
  intros m a b Ha Hb. unfold Keywords.sm, search_matches_g, typed_haystack. simpl hay_pyval.
  rewrite Hb. cbn [bind]. rewrite Ha. cbn [bind]. destruct m; reflexivity.
Qed.

Lemma same_kind_cmp : forall ints cmp a b,
  cmp = MGt \/ cmp = MLt ->
  same_kind_num ints a -> same_kind_num ints b ->
  sm cmp a b = Ok (beats cmp (num_key a) (num_key b)).
Proof.
  intros ints cmp a b Hc [Ka Ta] [Kb Tb]. rewrite (sm_unfold_typed cmp a b Ta Tb).
  destruct ints.
  - destruct Ka as [za ->]. destruct Kb as [zb ->].
    destruct Hc as [->| ->]; reflexivity.
  - destruct Ka as [qa [ra ->]]. destruct Kb as [qb [rb ->]].
    destruct Hc as [->| ->]; reflexivity.
Qed.

Lemma same_kind_eq : forall ints a b,
  same_kind_num ints a -> same_kind_num ints b ->
  sm MEquals a b = Ok (Qeq_bool (num_key b) (num_key a)).
Proof.
  intros ints a b [Ka Ta] [Kb Tb]. rewrite (sm_unfold_typed MEquals a b Ta Tb).
  destruct ints.
  - destruct Ka as [za ->]. destruct Kb as [zb ->]. reflexivity.
  - destruct Ka as [qa [ra ->]]. destruct Kb as [qb [rb ->]]. reflexivity.
Qed.

(* ---------- the headline statements ---------- *)
Definition selected (cmp : smethod) (invert : bool) (ms : list (option pyval * coords)) (c : coords) : Prop :=
  match cmp, invert with
  | MLt, false => min_members coords num_key ms c
  | MLt, true => non_min_members coords num_key ms c
  | _, false => max_members coords num_key ms c
  | _, true => non_max_members coords num_key ms c
  end.

Lemma selected_of_Inv : forall cmp ints (invert : bool) ms s,
  cmp = MGt \/ cmp = MLt ->
  Inv cmp num_key (same_kind_num ints) ms s ->
  forall c, In c (if invert then s_discard s else s_match s) <-> selected cmp invert ms c.
Proof.
  intros cmp ints invert ms s Hc HI c.
  destruct invert.
  - rewrite (Inv_discard cmp num_key (same_kind_num ints) ms s HI c).
    destruct Hc as [->| ->]; reflexivity.
  - rewrite (Inv_match cmp num_key (same_kind_num ints) ms s HI c).
    destruct Hc as [->| ->]; reflexivity.
Qed.

Lemma extremum_list_same_kind : forall cmp ints invert i els x,
  cmp = MGt \/ cmp = MLt ->
  node_is_aoh true (NSeq i els) = false ->
  (forall v c, In (Some v, c) (map (list_member x) (enumerate els)) -> same_kind_num ints v) ->
  exists res,
    extremum lit re_search node_str cmp invert [] (NSeq i els) x = Ok res /\
    forall c, In c res <-> selected cmp invert (map (list_member x) (enumerate els)) c.
Proof.
  intros cmp ints invert i els x Hc Haoh HP.
  destruct (extremum_list cmp num_key (same_kind_num ints) (same_kind_not_none ints)
              (fun a b Pa Pb => same_kind_cmp ints cmp a b Hc Pa Pb) (same_kind_eq ints)
              invert i els x Haoh HP) as [s [E I]].
  eexists. split; [exact E|]. apply (selected_of_Inv cmp ints invert _ s Hc I).
Qed.

Lemma extremum_aoh_same_kind : forall cmp ints invert attr i els x,
  cmp = MGt \/ cmp = MLt ->
  node_is_aoh true (NSeq i els) = true ->
  (forall v c, In (Some v, c) (map (aoh_member attr x) (enumerate els)) -> same_kind_num ints v) ->
  exists res,
    extremum lit re_search node_str cmp invert [attr] (NSeq i els) x = Ok res /\
    forall c, In c res <-> selected cmp invert (map (aoh_member attr x) (enumerate els)) c.
Proof.
  intros cmp ints invert attr i els x Hc Haoh HP.
  destruct (extremum_aoh cmp num_key (same_kind_num ints) (same_kind_not_none ints)
              (fun a b Pa Pb => same_kind_cmp ints cmp a b Hc Pa Pb) (same_kind_eq ints)
              invert attr i els x Haoh HP) as [s [E I]].
  eexists. split; [exact E|]. apply (selected_of_Inv cmp ints invert _ s Hc I).
Qed.

(* ---------- parent ---------- *)
Lemma parent_refuses_above_root : forall p z x,
  py_int p = Some z -> (Z.of_nat (List.length (k_ancestry x)) < z)%Z ->
  exists k, kw_parent false [p] x = Raise (YPE k).
Proof.
  intros p z x Hp Hz. unfold kw_parent. simpl. rewrite Hp. simpl.
  apply Z.ltb_lt in Hz. rewrite Hz. eexists; reflexivity.
Qed.

Lemma parent_zero_is_self : forall p z x,
  py_int p = Some z -> (z < 1)%Z ->
  kw_parent false [p] x = Ok [self_coords x].
Proof.
  intros p z x Hp Hz. unfold kw_parent. simpl. rewrite Hp. simpl.
  assert (H1 : (Z.of_nat (List.length (k_ancestry x)) <? z)%Z = false) by (apply Z.ltb_ge; lia).
  rewrite H1. apply Z.ltb_lt in Hz. rewrite Hz. reflexivity.
Qed.

(* a well-formed context: the ancestry lists the prefixes of the location and
   the translated path has one segment per step *)
Fixpoint ancestry_of (pre : loc) (rest : loc) : list (loc * ref) :=
  match rest with
  | [] => []
  | r :: t => (pre, r) :: ancestry_of (pre ++ [r]) t
  end.

Lemma ancestry_of_snoc : forall rest pre r,
  ancestry_of pre (rest ++ [r]) = ancestry_of pre rest ++ [(pre ++ rest, r)].
Proof.
  induction rest as [|a t IH]; intros pre r; simpl.
  - rewrite app_nil_r. reflexivity.
  - rewrite IH. rewrite <- app_assoc. reflexivity.
Qed.

Lemma ancestry_of_length : forall rest pre, List.length (ancestry_of pre rest) = List.length rest.
Proof. induction rest as [|a t IH]; intros pre; simpl; [reflexivity|]. rewrite IH. reflexivity. Qed.

Lemma climb_wf : forall n here path,
  n <= List.length here -> List.length path = List.length here ->
  exists path',
    climb n here path (ancestry_of [] here) =
      Ok (firstn (List.length here - n) here, path', ancestry_of [] (firstn (List.length here - n) here)) /\
    List.length path' = List.length here - n.
Proof.
  induction n as [|n IH]; intros here path Hn Hp.
  - simpl. exists path. rewrite Nat.sub_0_r, firstn_all. split; [reflexivity|assumption].
  - destruct (rev here) as [|r rh] eqn:Er.
    { apply (f_equal (@List.length ref)) in Er. rewrite rev_length in Er. simpl in Er. lia. }
    assert (Hh : here = rev rh ++ [r]).
    { rewrite <- (rev_involutive here), Er. reflexivity. }
    assert (Hrev : rev (ancestry_of [] here) = (rev rh, r) :: rev (ancestry_of [] (rev rh))).
    { rewrite Hh, ancestry_of_snoc, rev_app_distr. simpl. reflexivity. }
    assert (Hlen : List.length here = S (List.length (rev rh))).
    { rewrite Hh, app_length. simpl. lia. }
    destruct path as [|p0 pt].
    { simpl in Hp. lia. }
    cbn [climb]. rewrite Hrev. rewrite rev_involutive.
    destruct (IH (rev rh) (removelast (p0 :: pt))) as [path' [E L]].
    + lia.
    + assert (Hne : p0 :: pt <> []) by discriminate.
      pose proof (f_equal (@List.length ref) (app_removelast_last p0 Hne)) as Hl.
      rewrite app_length in Hl. cbn [List.length] in Hl. cbn [List.length] in Hp. lia.
    + exists path'. split.
      * rewrite E. rewrite Hlen.
        replace (S (List.length (rev rh)) - S n) with (List.length (rev rh) - n) by lia.
        rewrite Hh. rewrite firstn_app.
        replace (List.length (rev rh) - n - List.length (rev rh)) with 0 by lia.
        simpl. rewrite app_nil_r. reflexivity.
      * rewrite L. lia.
Qed.

Lemma parent_nth : forall p z x,
  py_int p = Some z -> (1 <= z)%Z -> (z <= Z.of_nat (List.length (k_here x)))%Z ->
  k_ancestry x = ancestry_of [] (k_here x) -> List.length (k_path x) = List.length (k_here x) ->
  exists c, kw_parent false [p] x = Ok [c] /\
    c_node c = AtLoc (nth_ancestor (Z.to_nat z) (k_here x)) /\
    c_ancestry c = ancestry_of [] (nth_ancestor (Z.to_nat z) (k_here x)).
Proof.
  intros p z x Hp H1 H2 Hanc Hpath. unfold kw_parent. simpl. rewrite Hp. simpl.
  assert (Hal : List.length (k_ancestry x) = List.length (k_here x)).
  { rewrite Hanc. apply ancestry_of_length. }
  rewrite Hal.
  assert (E1 : (Z.of_nat (List.length (k_here x)) <? z)%Z = false) by (apply Z.ltb_ge; lia).
  assert (E2 : (z <? 1)%Z = false) by (apply Z.ltb_ge; lia).
  rewrite E1, E2. rewrite Hanc.
  destruct (climb_wf (Z.to_nat z) (k_here x) (k_path x)) as [path' [E L]]; [lia|assumption|].
  rewrite E. simpl. eexists. split; [reflexivity|]. split; reflexivity.
Qed.

End WithOracles.
