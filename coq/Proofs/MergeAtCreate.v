(* C11: a MISSING target path.  Merger.merge_with asks the Processor for the
   target nodes with default_value = the right-hand document; a missing path
   is created by Processor._get_optional_nodes (model: Create.create_query,
   theorems: C09_create_frame / C09_create_resolves_partial) and the loop of
   merge_with (model: MergeAt.merge_at) then meets the created node.

   This file is the adapter between the two models:
   - [resolve_loc]: the Doc location a straight key / index path denotes
     (C09's [resolve] with the child references kept), which is what the
     merge model takes as its target;
   - [created_target_keeps_rhs]: a target that IS the right-hand document
     (a Hash / Array / Set handed to the Processor is stored as it is) is left
     alone by the merge -- any kind of right-hand document;
   - [missing_created_scalar]: the closed composition for the right-hand
     documents Create.v models (Scalars: Nodes.wrap_type of a value). *)
From Coq Require Import List Ascii String ZArith NArith Bool Lia.
From YP Require Import Outcome PyStr PyVal Doc PathParser Searches MergeConfig Merge MergeAt MergeAtProofs.
From YP Require Import Mutate Create C04spec C09create C09createP C09doc.
Import ListNotations.
Open Scope list_scope.

(* the location a straight path denotes in a document, and the node found there *)
Fixpoint resolve_loc (n : node) (segs : list seg) : option (loc * node) :=
  match segs with
  | [] => Some ([], n)
  | s :: rest =>
      match seg_ref n s with
      | Some r =>
          match child n r with
          | Some c => match resolve_loc c rest with Some (l, w) => Some (r :: l, w) | None => None end
          | None => None
          end
      | None => None
      end
  end.

Lemma resolve_loc_some : forall segs n w,
  resolve n segs = Some w -> exists l, resolve_loc n segs = Some (l, w).
Proof.
  induction segs as [|s rest IH]; intros n w H; simpl in *.
  - inversion H; subst. eauto.
  - unfold seg_child in H. destruct (seg_ref n s) as [r|]; [|discriminate].
    destruct (child n r) as [c|]; [|discriminate].
    destruct (IH c w H) as [l E]. rewrite E. eauto.
Qed.

Lemma resolve_loc_sound : forall segs n l w,
  resolve_loc n segs = Some (l, w) -> lookup n l = Some w /\ resolve n segs = Some w /\ List.length l = List.length segs.
Proof.
  induction segs as [|s rest IH]; intros n l w H; simpl in *.
  - inversion H; subst. auto.
  - unfold seg_child. destruct (seg_ref n s) as [r|]; [|discriminate].
    destruct (child n r) as [c|] eqn:Ec; [|discriminate].
    destruct (resolve_loc c rest) as [[l0 w0]|] eqn:E; [|discriminate].
    inversion H; subst. destruct (IH c l0 w E) as [A [B C]]. simpl. rewrite Ec. auto.
Qed.

(* Nodes.wrap_type of a value is a Scalar node *)
Lemma wrap_type_leaf : forall lit value fresh vo w,
  wrap_type lit value fresh vo = ROk w -> is_leaf w = true.
Proof.
  intros lit value fresh vo w H. unfold wrap_type, rbind in H.
  destruct (of_outcome (typed_value lit value)) as [ast|]; [|discriminate].
  destruct ast; destruct value; simpl in H;
    repeat match type of H with
           | context [match ?x with _ => _ end] => destruct x; simpl in H
           | context [if ?x then _ else _] => destruct x; simpl in H
           end; try discriminate; inversion H; reflexivity.
Qed.

Section Cfg.
Variable lit : string -> outcome litres.
Variable cfg : mconfig.

Lemma same_obj_refl : forall n, same_obj n n = true.
Proof. intros n. unfold same_obj. apply N.eqb_refl. Qed.

(* a created path that holds the right-hand document itself: the merge leaves it there *)
Theorem created_target_keeps_rhs : forall is_root l d' rhs out,
  is_none rhs = false ->
  lookup d' l = Some rhs ->
  merge_at lit cfg is_root [l] d' rhs = Ok out ->
  lookup out l = Some rhs.
Proof.
  intros is_root l d' rhs out Hn Hl H.
  destruct (target_holds_dispatch lit cfg is_root l d' rhs out rhs Hn H Hl) as [new [Hm Ho]].
  unfold merge_target in Hm. rewrite same_obj_refl in Hm. inversion Hm; subst. exact Ho.
Qed.

(* what the merge makes of a Scalar target met by a Scalar right-hand document *)
Lemma merge_target_scalars : forall ri value w new,
  is_leaf w = true ->
  (same_obj w (NLeaf ri value) = true -> w = NLeaf ri value) ->
  merge_target lit cfg false (NLeaf ri value) w = Ok new ->
  exists i, new = NLeaf i value.
Proof.
  intros ri value w new Hw Hid H. unfold merge_target in H.
  destruct (same_obj w (NLeaf ri value)) eqn:Es.
  - inversion H; subst. rewrite (Hid eq_refl). eauto.
  - destruct w; try discriminate. inversion H; subst. eauto.
Qed.

(* The closed composition: the Processor creates the missing straight path for
   the value of a Scalar right-hand document, the merge loop then runs on the
   created node. *)
Theorem missing_created_scalar : forall segs value vo d d' pc next' ri l w out,
  wf_doc d -> creates d segs = true -> null_prefix d segs = false ->
  create_query lit segs value vo d = ROk (d', pc, next') ->
  resolve_loc d' segs = Some (l, w) ->
  is_none (NLeaf ri value) = false ->
  (same_obj w (NLeaf ri value) = true -> w = NLeaf ri value) ->
  merge_at lit cfg false [l] d' (NLeaf ri value) = Ok out ->
  (exists i, lookup out l = Some (NLeaf i value)) /\
  (forall p n, lookup d p = Some n -> leaves l p ->
     exists n', lookup out p = Some n' /\ embeds n n' /\ node_info n' = node_info n /\
                (is_leaf n = true -> n' = n)).
Proof.
  intros segs value vo d d' pc next' ri l w out Hwf Hcr Hnp Hq Hl Hn Hid Hm.
  destruct (resolve_loc_sound _ _ _ _ Hl) as [Hlook [Hres _]].
  destruct (create_query_doc _ _ _ _ _ _ _ _ Hwf Hcr Hq) as [[w0 [fresh [vo' [R1 R2]]]] _].
  rewrite Hres in R1. inversion R1; subst w0.
  pose proof (wrap_type_leaf _ _ _ _ _ R2) as Hleaf.
  split.
  - destruct (target_holds_dispatch lit cfg false l d' (NLeaf ri value) out w Hn Hm Hlook) as [new [Hnew Hout]].
    destruct (merge_target_scalars _ _ _ _ Hleaf Hid Hnew) as [i Ei]. subst new. eauto.
  - intros p n Hp Hlv.
    pose proof (create_query_frame _ _ _ _ _ _ _ _ Hwf Hq) as He.
    rewrite Hnp in He.
    destruct (embeds_lookup None p d d' n He Hp) as [n' [A B]].
    exists n'. destruct (embeds_info _ _ B) as [I1 I2].
    rewrite (merge_at_frame lit cfg false [l] d' (NLeaf ri value) out p Hm); auto.
Qed.

(* ... and there is such a location: the created path resolves (C09) *)
Theorem created_location_exists : forall segs value vo d d' pc next',
  wf_doc d -> creates d segs = true ->
  create_query lit segs value vo d = ROk (d', pc, next') ->
  exists l w, resolve_loc d' segs = Some (l, w) /\ List.length l = List.length segs /\ is_leaf w = true.
Proof.
  intros segs value vo d d' pc next' Hwf Hcr Hq.
  destruct (create_query_doc _ _ _ _ _ _ _ _ Hwf Hcr Hq) as [[w [fresh [vo' [R1 R2]]]] _].
  destruct (resolve_loc_some _ _ _ R1) as [l El]. exists l, w.
  destruct (resolve_loc_sound _ _ _ _ El) as [_ [_ Hlen]].
  split; [exact El|]. split; [exact Hlen|]. eapply wrap_type_leaf; eauto.
Qed.

End Cfg.
