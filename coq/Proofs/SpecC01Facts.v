(* C01: facts about the specification alone.  Wherever the strict reading of
   Spec/SpecC01.v (the situations of the listed findings marked SOut) marks
   nothing, it IS the documented meaning. *)
From Coq Require Import List Ascii String ZArith NArith Bool Arith Lia.
From YP Require Import Outcome PyStr PyVal Doc Generated PathParser PathPrinter Searches Eval SpecC01
  EvalSemLib EvalTotal.
Import ListNotations.
Open Scope string_scope.
Open Scope nat_scope.

Lemma specified_cont (cont : selres -> list selres) l :
  cont SOut = [SOut] -> specified (flat_map cont l) = true -> specified l = true.
Proof.
  intros Hout. induction l as [|s r IH]; intros Hs; [reflexivity|]. cbn [flat_map] in Hs.
  rewrite specified_app in Hs. apply andb_prop in Hs. destruct Hs as [H1 H2].
  change (specified (s :: r)) with (is_spec s && specified r). rewrite IH by exact H2.
  destruct s; try reflexivity. rewrite Hout in H1. discriminate.
Qed.

Section Facts.
Variable lit : string -> outcome litres.
Variable re_search : string -> string -> outcome reres.
Variable nstr : node -> string.

Notation SPb := (sem_path lit re_search nstr).
Notation SSb b := (sem_segs lit re_search nstr b (sem_path lit re_search nstr b)).

Lemma sem_path_segs b segs : SPb b (PPath segs) = SSb b segs.
Proof.
  cbn [sem_path]. induction segs as [|[es us s s2] r IH]; [reflexivity|]. cbn [sem_segs]. rewrite <- IH. reflexivity.
Qed.

Lemma some_hit_strict_eq inv m term hits_t hits_f x :
  (specified hits_t = true -> hits_f = hits_t) ->
  specified (some_hit lit re_search nstr true inv m term hits_t x) = true ->
  some_hit lit re_search nstr false inv m term hits_f x = some_hit lit re_search nstr true inv m term hits_t x.
Proof.
  intros He Hs. unfold some_hit in *.
  destruct hits_t as [|h0 [|h1 r]].
  - rewrite He by reflexivity. reflexivity.
  - destruct h0; try discriminate. rewrite He by reflexivity. reflexivity.
  - destruct h0; discriminate.
Qed.

Lemma sel_search_strict_eq A_t A_f tl inv m attr term n :
  (forall e, specified (A_t e) = true -> A_f e = A_t e) ->
  specified (sel_search lit re_search nstr true A_t tl inv m attr term n) = true ->
  sel_search lit re_search nstr false A_f tl inv m attr term n
  = sel_search lit re_search nstr true A_t tl inv m attr term n.
Proof.
  intros HA Hs. unfold sel_search in *.
  destruct n as [i x|i kvs|i els|i els]; try reflexivity.
  - destruct (String.eqb attr "."); [reflexivity|].
    destruct (assoc_key (PStr attr) kvs); [reflexivity|].
    apply some_hit_strict_eq; auto.
  - destruct (negb tl); [reflexivity|].
    destruct (String.eqb attr "."); [reflexivity|].
    apply flat_map_ext_in. intros e He.
    pose proof (specified_flat_map _ _ Hs e He) as Hse. cbv beta in Hse.
    destruct (attr_of attr e); [reflexivity|].
    apply some_hit_strict_eq; auto.
Qed.

Lemma seg_sem_strict_eq es A_t A_f last k_t k_f tl n :
  (forall e, specified (A_t e) = true -> A_f e = A_t e) ->
  (forall t m, specified (k_t t m) = true -> k_f t m = k_t t m) ->
  specified (seg_sem lit re_search nstr true es A_t last k_t tl n) = true ->
  seg_sem lit re_search nstr false es A_f last k_f tl n = seg_sem lit re_search nstr true es A_t last k_t tl n.
Proof.
  intros HA Hk Hs.
  set (cont_t := fun s : selres => match s with
                                   | SNode c => k_t true c
                                   | SVirt _ => if last then [s] else [SOut]
                                   | SOut => [SOut]
                                   end).
  assert (Hcont : forall l, specified (flat_map cont_t l) = true ->
            flat_map (fun s : selres => match s with
                                        | SNode c => k_f true c
                                        | SVirt _ => if last then [s] else [SOut]
                                        | SOut => [SOut]
                                        end) l = flat_map cont_t l).
  { intros l Hl. apply flat_map_ext_in. intros s Hin.
    pose proof (specified_flat_map _ _ Hl s Hin) as Hss. destruct s; try reflexivity. apply Hk. exact Hss. }
  destruct es as [[[]|] a]; try reflexivity.
  - destruct a; try reflexivity. apply Hcont. exact Hs.
  - destruct a; try reflexivity; apply Hcont; exact Hs.
  - destruct a; try reflexivity. apply Hcont. exact Hs.
  - destruct a; try reflexivity. cbn [seg_sem] in *. fold cont_t in Hs |- *.
    rewrite (sel_search_strict_eq A_t A_f); auto.
    apply (specified_cont cont_t); [reflexivity | exact Hs].
  - cbn [seg_sem] in *. destruct last; [reflexivity|].
    apply flat_map_ext_in. intros x Hx. apply Hk. apply (specified_flat_map _ _ Hs x Hx).
  - cbn [seg_sem] in *. fold cont_t in Hs |- *. apply Hcont. exact Hs.
Qed.

Lemma sem_segs_strict_eq (Pt Pf : ppath -> bool -> node -> list selres) segs :
  (forall ps, In ps segs -> forall t e, specified (Pt (seg_sub ps) t e) = true -> Pf (seg_sub ps) t e = Pt (seg_sub ps) t e) ->
  forall tl n, specified (sem_segs lit re_search nstr true Pt segs tl n) = true ->
  sem_segs lit re_search nstr false Pf segs tl n = sem_segs lit re_search nstr true Pt segs tl n.
Proof.
  induction segs as [|[es us sub sub2] r IH]; intros Hsub tl n Hs; [reflexivity|].
  cbn [sem_segs] in *. apply seg_sem_strict_eq; auto.
  - intros e He. apply (Hsub (PSeg es us sub sub2)); [left; reflexivity | exact He].
  - intros t m Hm. apply IH; auto. intros ps Hin. apply Hsub. right. exact Hin.
Qed.

Lemma in_segs_weight ps segs : In ps segs -> pweight (seg_sub ps) < S (wsegs segs).
Proof.
  induction segs as [|[es us s s2] r IH]; intros H; [contradiction|].
  destruct H as [<-|H]; cbn [wsegs seg_sub]; [lia|]. specialize (IH H). lia.
Qed.

(* no marker in the strict reading: it is the documented meaning *)
Theorem sem_strict_eq : forall w p, pweight p <= w -> forall tl n,
  specified (SPb true p tl n) = true -> SPb false p tl n = SPb true p tl n.
Proof.
  induction w as [|w IH]; intros p Hw tl n Hs.
  - destruct p; cbn in Hw; lia.
  - destruct p as [segs|e]; [|discriminate].
    rewrite !sem_path_segs in *. apply sem_segs_strict_eq; auto.
    intros ps Hin t e He. apply IH; auto.
    rewrite pweight_ppath in Hw. pose proof (in_segs_weight ps segs Hin). lia.
Qed.

End Facts.
