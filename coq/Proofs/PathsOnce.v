(* C07 "each at most once" in EVERY mode: all four alias modes (the exclusion
   modes included), all key modes, expansion on or off - refnames off.  Every
   reported location extends the location of the node under which it was found
   and the children of a container have pairwise different references, so no
   location is reported twice.  Direct structural induction over
   search_for_paths / yield_children, whatever the control flow. *)
From Coq Require Import List Ascii String ZArith NArith Bool Arith Lia.
From YP Require Import Outcome PyStr PyVal Doc Generated PathParser PathPrinter Searches PathsSearch SpecC07.
Import ListNotations.
Open Scope list_scope.

Definition ND (lc : loc) (hs : list hit) : Prop :=
  NoDup (map h_loc hs) /\ Forall (fun h => exists rest, h_loc h = lc ++ rest) hs.

Lemma ND_nil lc : ND lc [].
Proof. split; constructor. Qed.
Lemma ND_one lc tmp kd : ND lc [mkhit tmp lc kd].
Proof.
  split; [constructor; [intros [] | constructor]|]. constructor; [|constructor].
  exists []. simpl. rewrite app_nil_r. reflexivity.
Qed.

Lemma NoDup_app_disj {A} : forall (l1 l2 : list A), NoDup l1 -> NoDup l2 ->
  (forall x, In x l1 -> ~ In x l2) -> NoDup (l1 ++ l2).
Proof.
  induction l1 as [|a r IH]; simpl; intros l2 N1 N2 D; [exact N2|].
  inversion N1; subst. constructor.
  - intros H. apply in_app_or in H. destruct H as [H|H]; [contradiction | exact (D a (or_introl eq_refl) H)].
  - apply IH; auto.
Qed.

(* results found under child references *)
Definition under {A} (lc : loc) (cref : A -> nat -> ref) (l : list A) (i0 : nat) (h : hit) : Prop :=
  exists i x rest, nth_error l i = Some x /\ h_loc h = lc ++ cref x (i0 + i) :: rest.

Section Once.
Variable lit : string -> outcome litres.
Variable re_search : string -> string -> outcome reres.
Variable mt : mtable.
Variable aa : adict.
Variable tm : terms.
Variable sp : sep.
Variable o : opts.
Hypothesis Ha : o_anchors o = false.

Lemma loop_ND {A} (body : A -> nat -> list string -> outcome res) (cref : A -> nat -> ref) (lc : loc) :
  forall (l : list A) i0,
    (forall i j x y, nth_error l i = Some x -> nth_error l j = Some y -> i <> j ->
                     cref x (i0 + i) <> cref y (i0 + j)) ->
    (forall i x, nth_error l i = Some x -> forall seen r, body x (i0 + i) seen = Ok r ->
                 ND (lc ++ [cref x (i0 + i)]) (fst r)) ->
    forall seen r, loop body l i0 seen = Ok r ->
      NoDup (map h_loc (fst r)) /\ Forall (under lc cref l i0) (fst r).
Proof.
  induction l as [|a l IH]; intros i0 Hd Hb seen r E; simpl in E.
  - inversion E; subst. split; constructor.
  - destruct (body a i0 seen) as [hs| |] eqn:Eb; simpl in E; try discriminate.
    destruct (loop body l (S i0) (snd hs)) as [rs| |] eqn:El; simpl in E; try discriminate.
    inversion E; subst; clear E. simpl fst.
    assert (Eb' : body a (i0 + 0) seen = Ok hs) by (rewrite Nat.add_0_r; exact Eb).
    destruct (Hb 0 a eq_refl seen hs Eb') as [N1 P1]. rewrite Nat.add_0_r in P1.
    destruct (IH (S i0)) with (seen := snd hs) (r := rs) as [N2 P2]; auto.
    { intros i j x y Hi Hj Hne. replace (S i0 + i) with (i0 + S i) by lia. replace (S i0 + j) with (i0 + S j) by lia.
      apply (Hd (S i) (S j)); auto. }
    { intros i x Hi seen0 r0 E0. replace (S i0 + i) with (i0 + S i) in * by lia. apply (Hb (S i) x Hi seen0 r0 E0). }
    assert (U1 : Forall (under lc cref (a :: l) i0) (fst hs)).
    { eapply Forall_impl; [|exact P1]. intros h [rest Eh]. exists 0, a, rest. split; [reflexivity|].
      rewrite Eh, <- app_assoc, Nat.add_0_r. reflexivity. }
    assert (U2 : Forall (under lc cref (a :: l) i0) (fst rs)).
    { eapply Forall_impl; [|exact P2]. intros h [i [x [rest [Hi Eh]]]]. exists (S i), x, rest. split; [exact Hi|].
      rewrite Eh. replace (S i0 + i) with (i0 + S i) by lia. reflexivity. }
    split; [|apply Forall_app; split; assumption].
    rewrite map_app. apply NoDup_app_disj; auto.
    intros loc0 H1 H2. apply in_map_iff in H1. destruct H1 as [h1 [E1 I1]]. apply in_map_iff in H2. destruct H2 as [h2 [E2 I2]].
    rewrite Forall_forall in P1, P2. destruct (P1 h1 I1) as [rest1 Q1]. destruct (P2 h2 I2) as [i [x [rest2 [Hi Q2]]]].
    rewrite <- app_assoc in Q1. simpl in Q1.
    assert (X : lc ++ cref a i0 :: rest1 = lc ++ cref x (S i0 + i) :: rest2) by congruence.
    apply app_inv_head in X. inversion X as [[X1 X2]].
    apply (Hd 0 (S i) a x eq_refl Hi); [lia|]. rewrite Nat.add_0_r. replace (i0 + S i) with (S i0 + i) by lia. exact X1.
Qed.

Lemma under_ND {A} lc (cref : A -> nat -> ref) l i0 hs :
  NoDup (map h_loc hs) /\ Forall (under lc cref l i0) hs -> ND lc hs.
Proof.
  intros [N U]. split; auto. eapply Forall_impl; [|exact U].
  intros h [i [x [rest [_ E]]]]. exists (cref x (i0 + i) :: rest). exact E.
Qed.

Lemma ND_up lc r hs : ND (lc ++ [r]) hs -> ND lc hs.
Proof.
  intros [N P]. split; auto. eapply Forall_impl; [|exact P].
  intros h [rest E]. exists (r :: rest). rewrite E, <- app_assoc. reflexivity.
Qed.

(* distinct child references *)
Lemma idx_distinct {A} (l : list A) i0 : forall i j (x y : A), nth_error l i = Some x -> nth_error l j = Some y -> i <> j ->
  (fun (_ : A) n => RIdx n) x (i0 + i) <> (fun (_ : A) n => RIdx n) y (i0 + j).
Proof. intros i j x y _ _ Hne E. inversion E. lia. Qed.

Lemma nth_map_nodup {A B} (f : A -> B) : forall (l : list A), NoDup (map f l) ->
  forall i j x y, nth_error l i = Some x -> nth_error l j = Some y -> i <> j -> f x <> f y.
Proof.
  induction l as [|a r IH]; intros N i j x y Hi Hj Hne E; [destruct i; discriminate|].
  simpl in N. inversion N as [|? ? Na Nr]; subst.
  destruct i as [|i], j as [|j]; simpl in Hi, Hj; try congruence.
  - inversion Hi; subst. apply Na. rewrite E. apply in_map. eapply nth_error_In; eauto.
  - inversion Hj; subst. apply Na. rewrite <- E. apply in_map. eapply nth_error_In; eauto.
  - apply (IH Nr i j x y Hi Hj); auto.
Qed.

Lemma nodup_map_values : forall i kvs, nodup_keys (NMap i kvs) ->
  NoDup (map (fun kv => key_val (fst kv)) kvs) /\ forall kv, In kv kvs -> nodup_keys (snd kv).
Proof.
  intros i kvs [N H]. split; auto. induction kvs as [|a r IH]; intros kv Hin; [contradiction|].
  destruct H as [H1 H2]. inversion N; subst. destruct Hin as [<-|Hin]; auto.
Qed.
Lemma nodup_seq_elems : forall i els, nodup_keys (NSeq i els) -> forall e, In e els -> nodup_keys e.
Proof.
  intros i els H. simpl in H. induction els as [|a r IH]; intros e Hin; [contradiction|].
  destruct H as [H1 H2]. destruct Hin as [<-|Hin]; auto.
Qed.

Theorem yc_once n :
  nodup_keys n ->
  forall bp lc kd seen r, yield_children lit re_search mt tm sp o n bp lc kd seen = Ok r -> ND lc (fst r).
Proof.
  induction n as [i v|i kvs IH|i els IH|i els IH] using node_ind'; intros Hn bp lc kd seen r E.
  - simpl in E. inversion E; subst. apply ND_one.
  - simpl in E. destruct (nodup_map_values _ _ Hn) as [Nk Nv].
    apply (under_ND lc (fun (kv : node * node) (_ : nat) => key_ref (fst kv)) kvs 0).
    eapply loop_ND; [| |exact E].
    + intros a b x y Ha' Hb' Hne Eq. unfold key_ref in Eq. inversion Eq as [Eq'].
      exact (nth_map_nodup (fun kv : node * node => key_val (fst kv)) kvs Nk a b x y Ha' Hb' Hne Eq').
    + intros idx kv Hi seen0 r0 Eb. cbv beta in Eb. simpl in Eb.
      pose proof (nth_error_In _ _ Hi) as Hin.
      destruct (search_anchor _ _ _ _ (fst kv) seen0 _) as [ka_s| |]; simpl in Eb; try discriminate.
      destruct (search_anchor _ _ _ _ (snd kv) (snd ka_s) _) as [va_s| |]; simpl in Eb; try discriminate.
      destruct (_ || _); [inversion Eb; apply ND_nil|].
      destruct (is_container (snd kv)).
      * rewrite Forall_forall in IH. destruct (IH _ Hin) as [_ IHv]. eapply IHv; [apply Nv; exact Hin | exact Eb].
      * inversion Eb; subst. apply ND_one.
  - simpl in E.
    apply (under_ND lc (fun (_ : node) (n : nat) => RIdx n) els 0).
    eapply loop_ND; [apply idx_distinct| |exact E].
    intros idx e Hi seen0 r0 Eb. cbv beta in Eb. simpl in Eb.
    pose proof (nth_error_In _ _ Hi) as Hin.
    destruct (search_anchor _ _ _ _ e seen0 _) as [am_s| |]; simpl in Eb; try discriminate.
    destruct (_ && _); [inversion Eb; apply ND_nil|].
    destruct (is_container e).
    + rewrite Forall_forall in IH. eapply (IH _ Hin); [eapply nodup_seq_elems; eauto | exact Eb].
    + inversion Eb; subst. apply ND_one.
  - simpl in E.
    apply (under_ND lc (fun (k : node) (_ : nat) => member_ref k) els 0).
    eapply loop_ND; [| |exact E].
    + intros a b x y Ha' Hb' Hne Eq. unfold member_ref in Eq. inversion Eq as [Eq'].
      simpl in Hn. exact (nth_map_nodup key_val els Hn a b x y Ha' Hb' Hne Eq').
    + intros idx k Hi seen0 r0 Eb. cbv beta in Eb. simpl in Eb.
      destruct (search_anchor _ _ _ _ k seen0 _) as [ka_s| |]; simpl in Eb; try discriminate.
      destruct (_ && _); inversion Eb; subst; [apply ND_nil | apply ND_one].
Qed.

Lemma report_once nd tmp lc kd seen r :
  nodup_keys nd -> report lit re_search mt tm sp o nd tmp lc kd seen = Ok r -> ND lc (fst r).
Proof.
  intros Hn. unfold report. destruct (o_expand o).
  - apply yc_once; assumption.
  - intros E. inversion E; subst. apply ND_one.
Qed.

Lemma value_part_once rec am v tmp lc' seen r :
  nodup_keys v ->
  (forall r, rec v tmp lc' seen = Ok r -> ND lc' (fst r)) ->
  value_part lit re_search mt tm sp o rec am v tmp lc' seen = Ok r -> ND lc' (fst r).
Proof.
  intros Hn Hrec E. unfold value_part in E.
  assert (G : (if is_unsearchable_alias am && negb (o_valias o) then Ok ([], seen)
               else if is_container v then rec v tmp lc' seen
               else if o_values o then
                 do m <- term_matches lit re_search tm (node_hay v);
                 Ok (if m then [mkhit tmp lc' HValue] else [], seen)
               else Ok ([], seen)) = Ok r -> ND lc' (fst r)).
  { intros E'. destruct (_ && _); [inversion E'; apply ND_nil|].
    destruct (is_container v); [apply Hrec; exact E'|].
    destruct (o_values o); [|inversion E'; apply ND_nil].
    destruct (term_matches _ _ _ _) as [[|]| |]; simpl in E'; try discriminate; inversion E'; subst;
      [apply ND_one | apply ND_nil]. }
  destruct am; try (apply G; exact E).
  - inversion E; apply ND_nil.
  - eapply report_once; eauto.
  - eapply report_once; eauto.
Qed.

Theorem sfp_once n :
  nodup_keys n ->
  forall bp lc seen r, search_for_paths lit re_search mt aa tm sp o n bp lc seen = Ok r -> ND lc (fst r).
Proof.
  induction n as [i v|i kvs IH|i els IH|i els IH] using node_ind'; intros Hn bp lc seen r E.
  - simpl in E. unfold scalar_root in E.
    destruct (negb (is_none_leaf (NLeaf i v)) && o_values o); [|inversion E; apply ND_nil].
    destruct (term_matches _ _ _ _) as [[|]| |]; simpl in E; try discriminate; inversion E; subst; simpl;
      [apply ND_one | apply ND_nil].
  - simpl in E. destruct (nodup_map_values _ _ Hn) as [Nk Nv].
    match type of E with bind (loop ?b _ _ _) _ = _ => set (body := b) in * end.
    destruct (loop body kvs 0 seen) as [bd| |] eqn:El; simpl in E; try discriminate.
    unfold ymk_hits in E. rewrite Ha, andb_false_r in E. simpl in E. inversion E; subst; clear E.
    simpl fst. rewrite app_nil_r.
    apply (under_ND lc (fun (kv : node * node) (_ : nat) => key_ref (fst kv)) kvs 0).
    eapply loop_ND; [| |exact El].
    + intros a b x y Ha' Hb' Hne Eq. unfold key_ref in Eq. inversion Eq as [Eq'].
      exact (nth_map_nodup (fun kv : node * node => key_val (fst kv)) kvs Nk a b x y Ha' Hb' Hne Eq').
    + intros idx kv Hi seen0 r0 Eb. unfold body in Eb. simpl in Eb. clear El body.
      pose proof (nth_error_In _ _ Hi) as Hin. pose proof (Nv _ Hin) as Hnv.
      destruct (search_anchor _ _ _ _ (fst kv) seen0 _) as [ka_s| |]; simpl in Eb; try discriminate.
      destruct (search_anchor _ _ _ _ (snd kv) (snd ka_s) _) as [va_s| |]; simpl in Eb; try discriminate.
      destruct (_ || _); [inversion Eb; apply ND_nil|].
      rewrite Forall_forall in IH. destruct (IH _ Hin) as [_ IHv].
      assert (Hvp : forall r1, value_part lit re_search mt tm sp o
                       (fun v t l s => search_for_paths lit re_search mt aa tm sp o v t l s)
                       (fst va_s) (snd kv) (map_prefix sp bp ++ escp sp (key_text (fst kv)))
                       (lc ++ [key_ref (fst kv)]) (snd va_s) = Ok r1 ->
                     ND (lc ++ [key_ref (fst kv)]) (fst r1)).
      { intros r1 E1. eapply value_part_once; [exact Hnv | | exact E1].
        intros r2 E2. eapply IHv; [exact Hnv | exact E2]. }
      destruct (o_keys o); simpl in Eb; [|apply Hvp; exact Eb].
      destruct (is_hit (fst ka_s)).
      * destruct (report _ _ _ _ _ _ (snd kv) _ _ HKeyAnchor _) as [hs| |] eqn:Er; simpl in Eb; try discriminate.
        inversion Eb; subst. eapply report_once; [exact Hnv | exact Er].
      * destruct (term_matches _ _ _ _) as [[|]| |]; simpl in Eb; try discriminate.
        -- destruct (report _ _ _ _ _ _ (snd kv) _ _ HKey _) as [hs| |] eqn:Er; simpl in Eb; try discriminate.
           inversion Eb; subst. eapply report_once; [exact Hnv | exact Er].
        -- apply Hvp; exact Eb.
  - simpl in E.
    apply (under_ND lc (fun (_ : node) (n : nat) => RIdx n) els 0).
    eapply loop_ND; [apply idx_distinct| |exact E].
    intros idx e Hi seen0 r0 Eb. cbv beta in Eb. simpl in Eb.
    pose proof (nth_error_In _ _ Hi) as Hin.
    destruct (search_anchor _ _ _ _ e seen0 _) as [am_s| |]; simpl in Eb; try discriminate.
    rewrite Forall_forall in IH.
    eapply value_part_once; [eapply nodup_seq_elems; eauto | | exact Eb].
    intros r2 E2. eapply (IH _ Hin); [eapply nodup_seq_elems; eauto | exact E2].
  - simpl in E.
    apply (under_ND lc (fun (k : node) (_ : nat) => member_ref k) els 0).
    eapply loop_ND; [| |exact E].
    + intros a b x y Ha' Hb' Hne Eq. unfold member_ref in Eq. inversion Eq as [Eq'].
      simpl in Hn. exact (nth_map_nodup key_val els Hn a b x y Ha' Hb' Hne Eq').
    + intros idx k Hi seen0 r0 Eb. cbv beta in Eb. simpl in Eb.
      destruct (search_anchor _ _ _ _ k seen0 _) as [ka_s| |]; simpl in Eb; try discriminate.
      destruct (_ && _); [inversion Eb; apply ND_nil|].
      destruct (is_hit (fst ka_s)); [inversion Eb; subst; apply ND_one|].
      destruct (term_matches _ _ _ _) as [[|]| |]; simpl in Eb; try discriminate; inversion Eb; subst;
        [apply ND_one | apply ND_nil].
Qed.
End Once.

Theorem once_any_mode :
  forall lit re_search (mt : mtable) (tm : terms) (sp : sep) (o : opts) (d : node) (res : list hit),
    o_anchors o = false -> nodup_keys d ->
    search_doc lit re_search mt tm sp o d = Ok res -> NoDup (map h_loc res).
Proof.
  intros lit re_search mt tm sp o d res Ha Hn E. unfold search_doc in E.
  destruct (search_for_paths lit re_search mt (scan_for_anchors d []) tm sp o d "" [] []) as [r| |] eqn:Es;
    simpl in E; try discriminate. inversion E; subst.
  destruct (sfp_once lit re_search mt _ tm sp o Ha d Hn "" [] [] r Es) as [N _]. exact N.
Qed.
