(* C16 -- glue and library composed: the abstract library results of the glue model (Model/Cli.v)
   instantiated with the LIBRARY MODELS (Eval.v, Diff.v, PathsSearch.v / PathsPrint.v) through the
   adapters of Spec/CliLibSpec.v. *)
From Coq Require Import List Ascii String ZArith NArith Bool Arith Lia Permutation.
From YP Require Import Outcome PyStr PyVal Doc Generated PathParser PathPrinter Searches.
From YP Require Import Cli CliSpec CliGetDiff CliSetPaths CliLibSpec.
From YP Require Eval SpecC15 EvalGood EvalPure EvalC15 Diff C06Spec DiffIff PathsSearch PathsPrint.
Import ListNotations.
Open Scope list_scope.

(* ================================================================== *)
(* yaml-get over Eval.get_required                                     *)

Section GetCompose.
  Variable lit : string -> outcome litres.
  Variable re_search : string -> string -> outcome reres.
  Variable nstr : node -> string.
  Variable vstr : list Eval.rval -> string.
  Variable kw_handler : bool -> keyword -> string -> Eval.rval -> Eval.ctx -> Eval.gen Eval.rval.
  Variable creator : list Eval.pseg -> nat -> Eval.rval -> Eval.ctx -> Eval.gen Eval.rval.
  Variable F : value_facts.
  Variable doc_of : nat -> node.
  Notation tool := (get_tool lit re_search nstr vstr kw_handler creator F doc_of).
  Notation query := (get_query lit re_search nstr vstr kw_handler creator doc_of).

  Lemma map_nonempty : forall {A B} (f : A -> B) l, map f l <> [] <-> l <> [].
  Proof. intros A B f [|x l]; simpl; split; intro H; congruence. Qed.

  (* the query ends normally: one line per result in query order; exit 0 iff there is a result *)
  Lemma get_end_to_end : forall a tty load qverb p od items,
    get_validate_errors a tty = 0 -> get_yaml_data load = L1Ok od ->
    query p od = (items, Eval.Done) ->
    json_ok (map (result_obj F) items) = true ->
    exists r, tool a tty load qverb p = Some r /\
      (r_status r = Exit 0 <-> items <> []) /\
      (items <> [] -> data_lines (r_out r) = map render_node (map (result_obj F) items)).
  Proof.
    intros a tty load qverb p od items V D Q J.
    unfold get_tool. rewrite D, Q. cbn [query_fact option_map].
    eexists. split; [reflexivity|].
    assert (R : get_reaches_query a tty load) by (split; [exact V|eexists; exact D]).
    pose proof (get_exit_matched a tty load qverb _ R J) as M.
    split.
    - rewrite M. apply map_nonempty.
    - intros N. apply (proj2 (map_nonempty (result_obj F) items)) in N. apply M in N.
      destruct (get_lines a tty load qverb _ N) as (nodes & E & L). inversion E; subst nodes. exact L.
  Qed.

  (* the query raises: no data line, a non-zero status (1 for a YAML Path error, 2 for an EYAML error) *)
  Lemma get_end_to_end_error : forall a tty load qverb p od items e,
    get_validate_errors a tty = 0 -> get_yaml_data load = L1Ok od ->
    query p od = (items, Eval.Err e) ->
    exists r, tool a tty load qverb p = Some r /\
      r_status r <> Exit 0 /\ data_lines (r_out r) = [] /\
      (forall k, e = YPE k -> r_status r = Exit 1) /\ (e = EyamlExc -> r_status r = Exit 2).
  Proof.
    intros a tty load qverb p od items e V D Q.
    unfold get_tool. rewrite D, Q. cbn [query_fact option_map].
    eexists. split; [reflexivity|].
    unfold get_main. rewrite V, D. cbn [Nat.eqb negb].
    destruct e as [k| | |c|]; try destruct c; cbn [ufam_of_exn r_status r_out];
      (split; [discriminate|]); (split; [apply data_lines_verbose|]);
      (split; [intros k0 E; try discriminate; reflexivity|intros E; try discriminate; reflexivity]).
  Qed.

  (* C15's guards: the oracles answer, the keyword handler / creator models are clean *)
  Hypothesis lit_total : forall s, exists r, lit s = Ok r /\ (forall c, r <> LCrash c).
  Hypothesis re_total : forall p s, exists r, re_search p s = Ok r.
  Hypothesis kw_ok : forall inv k ps v c, EvalGood.sres EvalGood.coords_or_list (kw_handler inv k ps v c).
  Hypothesis kw_pure : forall inv k ps v c, EvalPure.nomut (kw_handler inv k ps v c).
  Hypothesis creator_ok : forall segs i v c, EvalGood.sres EvalGood.is_coords (creator segs i v c).

  (* with C15: on the collector-free fragment the tool always has an answer, it is exit 0 or exit 1,
     and exit 0 exactly when the query ended normally with at least one node *)
  Lemma get_end_to_end_total : forall a tty load qverb p od,
    SpecC15.in_fragment p = true ->
    get_validate_errors a tty = 0 -> get_yaml_data load = L1Ok od ->
    json_ok (map (result_obj F) (fst (query p od))) = true ->
    exists r, tool a tty load qverb p = Some r /\
      (r_status r = Exit 0 \/ r_status r = Exit 1) /\
      (r_status r = Exit 0 <-> (snd (query p od) = Eval.Done /\ fst (query p od) <> [])).
  Proof.
    intros a tty load qverb p od Fr V D J.
    pose proof (EvalC15.required_only_ype lit re_search nstr vstr kw_handler creator
                  lit_total re_total kw_ok kw_pure creator_ok p
                  (match od with Some i => doc_of i | None => null_document end) Fr) as C.
    fold (query p od) in C.
    destruct (query p od) as [items st] eqn:Q. cbn [fst snd] in *.
    destruct st as [|e| |]; cbn [SpecC15.clean_stop] in C; try contradiction.
    - destruct (get_end_to_end a tty load qverb p od items V D Q J) as (r & T & S & _).
      exists r. split; [exact T|]. split.
      + destruct items as [|x xs].
        * right. unfold get_tool in T. rewrite D, Q in T. cbn in T. inversion T; subst r.
          unfold get_main. rewrite V, D. reflexivity.
        * left. apply S. discriminate.
      + rewrite S. split; [intros N; split; [reflexivity|exact N]|intros [_ N]; exact N].
    - destruct e as [k| | | |]; try contradiction.
      destruct (get_end_to_end_error a tty load qverb p od items (YPE k) V D Q) as (r & T & N & _ & Y & _).
      exists r. split; [exact T|]. split; [right; apply (Y k eq_refl)|].
      split; [intros E; congruence|intros [E _]; discriminate].
  Qed.
End GetCompose.

(* ================================================================== *)
(* yaml-diff over Diff.compare_to                                      *)

Lemma is_different_of : forall a,
  Cli.is_different (daction_of a) = match a with Diff.ASame => false | _ => true end.
Proof. destruct a; reflexivity. Qed.

Lemma changes_found_report : forall renders report es,
  Permutation report es ->
  Cli.changes_found (map fst (map (dentry_of renders) report)) = C06Spec.shows_difference es.
Proof.
  intros renders report es P. unfold Cli.changes_found, C06Spec.shows_difference.
  rewrite map_map. cbn [dentry_of fst].
  destruct (existsb _ es) eqn:X.
  - apply existsb_exists in X. destruct X as (e & I & D).
    apply existsb_exists. exists (daction_of (Diff.e_action e)). split.
    + apply in_map_iff. exists e. split; [reflexivity|]. apply (Permutation_in _ (Permutation_sym P)). exact I.
    + rewrite is_different_of. exact D.
  - destruct (existsb Cli.is_different _) eqn:Y; [|reflexivity].
    apply existsb_exists in Y. destruct Y as (x & I & D). apply in_map_iff in I. destruct I as (e & E & I).
    subst x. rewrite is_different_of in D.
    assert (existsb (fun e => match Diff.e_action e with Diff.ASame => false | _ => true end) es = true).
    { apply existsb_exists. exists e. split; [apply (Permutation_in _ P); exact I|exact D]. }
    congruence.
Qed.

(* the two documents the glue picks go through the differ model; get_report's order is any
   permutation [report] of compare_to's entries (its sort is not modelled) *)
Lemma diff_end_to_end : forall path_eq cfg (doc_of : nat -> node) renders estr a lhs rhs li ri l r es report,
  dr_picked (diff_main estr a lhs rhs (LOk [])) = Some (li, ri) ->
  nth_error (src_stream estr lhs) li = Some l -> nth_error (src_stream estr rhs) ri = Some r ->
  Diff.compare_to path_eq cfg (doc_of l) (doc_of r) = Ok es ->
  Permutation report es ->
  let entries := map (dentry_of renders) report in
  all_render entries ->
  let run := dr_run (diff_main estr a lhs rhs (LOk entries)) in
  (r_status run = Exit 0 <-> C06Spec.shows_difference es = false) /\
  (r_status run = Exit 1 <-> C06Spec.shows_difference es = true) /\
  CliSpec.printed_entries (r_out run) =
    (if n_quiet (da_noise a) then [] else selected_from a (map fst entries) 0).
Proof.
  intros path_eq cfg doc_of renders estr a lhs rhs li ri l r es report P _ _ _ Pm entries R run.
  assert (P' : dr_picked (diff_main estr a lhs rhs (LOk entries)) = Some (li, ri)).
  { revert P. unfold diff_main.
    destruct (negb (Nat.eqb (diff_validate_errors a) 0)); [discriminate|].
    destruct (diff_get_docs estr lhs) as [nl|h|c]; try discriminate;
    destruct (diff_get_docs estr rhs) as [nr|h'|c']; try discriminate.
    destruct (Nat.ltb 1 nl && _); [discriminate|].
    destruct (diff_get_doc nl _); try discriminate.
    destruct (Nat.ltb 1 nr && _); [discriminate|].
    destruct (diff_get_doc nr _); try discriminate.
    cbn. destruct (diff_report a entries 0 false). cbn. auto. }
  destruct (diff_exit_iff estr a lhs rhs entries li ri P' R) as [E0 E1].
  pose proof (changes_found_report renders report es Pm) as CF. fold entries in CF.
  pose proof (changes_found_iff (map fst entries)) as CI.
  split; [|split].
  - unfold run. rewrite E0, <- CI, CF. reflexivity.
  - unfold run. rewrite E1, <- CI, CF. destruct (C06Spec.shows_difference es); split; congruence.
  - apply (diff_prints_entries estr a lhs rhs entries li ri P' R).
Qed.

(* with C06's iff theorem: positional comparison (the defaults) of real documents, tags included -
   exit 0 exactly when the two documents are data-equal *)
Lemma diff_exit_iff_data_equal : forall path_eq cfg hm (doc_of : nat -> node) renders estr a lhs rhs li ri l r es report,
  C06Spec.uniform cfg Diff.ArrPosition hm -> hm = Diff.AohPosition \/ hm = Diff.AohDpos ->
  C06Spec.wf_doc (doc_of l) = true -> C06Spec.wf_doc (doc_of r) = true ->
  dr_picked (diff_main estr a lhs rhs (LOk [])) = Some (li, ri) ->
  nth_error (src_stream estr lhs) li = Some l -> nth_error (src_stream estr rhs) ri = Some r ->
  Diff.compare_to path_eq cfg (doc_of l) (doc_of r) = Ok es ->
  Permutation report es ->
  let entries := map (dentry_of renders) report in
  all_render entries ->
  let run := dr_run (diff_main estr a lhs rhs (LOk entries)) in
  (r_status run = Exit 0 <-> C06Spec.data_eq (doc_of l) (doc_of r) = true) /\
  (r_status run = Exit 1 <-> C06Spec.data_eq (doc_of l) (doc_of r) = false).
Proof.
  intros path_eq cfg hm doc_of renders estr a lhs rhs li ri l r es report U Hm WL WR P NL NR C Pm entries R run.
  destruct (diff_end_to_end path_eq cfg doc_of renders estr a lhs rhs li ri l r es report P NL NR C Pm R) as (E0 & E1 & _).
  pose proof (DiffIff.nonsame_iff_differ_positional path_eq cfg hm _ _ es U Hm WL WR C) as S.
  fold entries in E0, E1. fold run in E0, E1. rewrite E0, E1, S.
  destruct (C06Spec.data_eq (doc_of l) (doc_of r)); cbn; split; split; congruence.
Qed.

(* ... and for every uniform option pair without identity keys: exit 0 exactly when the documents
   are equal up to what the options disregard (C06Spec.equiv) *)
Lemma diff_exit_iff_equiv : forall path_eq cfg am hm (doc_of : nat -> node) renders estr a lhs rhs li ri l r es report,
  C06Spec.uniform cfg am hm -> C06Spec.unkeyed hm = true ->
  C06Spec.wf_doc (doc_of l) = true -> C06Spec.wf_doc (doc_of r) = true ->
  dr_picked (diff_main estr a lhs rhs (LOk [])) = Some (li, ri) ->
  nth_error (src_stream estr lhs) li = Some l -> nth_error (src_stream estr rhs) ri = Some r ->
  Diff.compare_to path_eq cfg (doc_of l) (doc_of r) = Ok es ->
  Permutation report es ->
  let entries := map (dentry_of renders) report in
  all_render entries ->
  let run := dr_run (diff_main estr a lhs rhs (LOk entries)) in
  (r_status run = Exit 0 <-> C06Spec.equiv am hm (doc_of l) (doc_of r) = true).
Proof.
  intros path_eq cfg am hm doc_of renders estr a lhs rhs li ri l r es report U Hm WL WR P NL NR C Pm entries R run.
  destruct (diff_end_to_end path_eq cfg doc_of renders estr a lhs rhs li ri l r es report P NL NR C Pm R) as (E0 & _ & _).
  pose proof (DiffIff.nonsame_iff_differ path_eq cfg am hm _ _ es U Hm WL WR C) as S.
  fold entries in E0. fold run in E0. rewrite E0, S.
  destruct (C06Spec.equiv am hm (doc_of l) (doc_of r)); cbn; split; congruence.
Qed.

(* the picked indexes are positions of the two streams (so the hypotheses above can be met) *)
Lemma all_docs_length : forall ys n, all_docs ys = Some n -> exists ds, yielded_docs ys = Some ds /\ List.length ds = n.
Proof.
  induction ys as [|y ys IH]; intros n H; simpl in *.
  - inversion H. exists []. split; reflexivity.
  - destruct y; [|discriminate]. destruct (all_docs ys) as [m|]; [|discriminate]. inversion H; subst.
    destruct (IH m eq_refl) as (ds & E & L). rewrite E. exists (d :: ds). split; [reflexivity|simpl; congruence].
Qed.

Lemma diff_get_docs_stream : forall estr s n, diff_get_docs estr s = DocsOk n -> List.length (src_stream estr s) = n.
Proof.
  intros estr s n. unfold diff_get_docs, src_stream.
  destruct (negb (src_is_stdin s) && negb (s_isfile s)); [discriminate|].
  destruct (multidoc_yields estr (src_is_stdin s) (s_raw s)) as [ys unc]. cbn [fst].
  destruct (all_docs ys) as [m|] eqn:A; [|discriminate].
  destruct unc; [discriminate|]. intros E. inversion E; subst.
  destruct (all_docs_length ys n A) as (ds & Y & L). rewrite Y. exact L.
Qed.

Lemma diff_get_doc_bound : forall count index i, diff_get_doc count index = PickAt i -> i < count.
Proof.
  intros count index i. unfold diff_get_doc.
  destruct (Z.of_nat count - 1 <? index)%Z eqn:A; [discriminate|].
  destruct (0 <=? index)%Z eqn:B.
  - intros E. inversion E. apply Z.ltb_ge in A. apply Z.leb_le in B. lia.
  - destruct (- index <=? Z.of_nat count)%Z eqn:C; [|discriminate].
    intros E. inversion E. apply Z.leb_gt in B. apply Z.leb_le in C. lia.
Qed.

Lemma diff_picked_in_streams : forall estr a lhs rhs rep li ri,
  dr_picked (diff_main estr a lhs rhs rep) = Some (li, ri) ->
  (exists l, nth_error (src_stream estr lhs) li = Some l) /\
  (exists r, nth_error (src_stream estr rhs) ri = Some r).
Proof.
  intros estr a lhs rhs rep li ri. unfold diff_main.
  destruct (negb (Nat.eqb (diff_validate_errors a) 0)); [discriminate|].
  destruct (diff_get_docs estr lhs) as [nl|h|c] eqn:DL; try discriminate;
  destruct (diff_get_docs estr rhs) as [nr|h'|c'] eqn:DR; try discriminate.
  destruct (Nat.ltb 1 nl && _); [discriminate|].
  destruct (diff_get_doc nl _) as [i| |] eqn:GL; try discriminate.
  destruct (Nat.ltb 1 nr && _); [discriminate|].
  destruct (diff_get_doc nr _) as [j| |] eqn:GR; try discriminate.
  intros P.
  assert (E : (i, j) = (li, ri)).
  { destruct rep as [entries|u]; [destruct (diff_report a entries 0 false)|destruct u]; cbn in P; congruence. }
  inversion E; subst.
  apply diff_get_doc_bound in GL. apply diff_get_doc_bound in GR.
  apply diff_get_docs_stream in DL. apply diff_get_docs_stream in DR.
  split.
  - destruct (nth_error (src_stream estr lhs) li) eqn:N; [eexists; reflexivity|].
    apply nth_error_None in N. lia.
  - destruct (nth_error (src_stream estr rhs) ri) eqn:N; [eexists; reflexivity|].
    apply nth_error_None in N. lia.
Qed.

(* ================================================================== *)
(* yaml-paths over PathsSearch.search_doc and PathsPrint              *)

Lemma append_nil_r : forall s : string, (s ++ "")%string = s.
Proof. induction s as [|c s IH]; simpl; [reflexivity|rewrite IH; reflexivity]. Qed.

Section PathsCompose.
  Variable lit : string -> outcome litres.
  Variable re_search : string -> string -> outcome reres.
  Variable value_text : string -> outcome string.
  Variable mt : PathsSearch.mtable.
  Variable sp : sep.
  Variable o : PathsSearch.opts.
  Variable d : node.
  Notation results := (results_of lit re_search mt sp o).

  Definition conv (e : PathsPrint.pentry) : string * pathrec := (fst e, rec_of (snd e)).
  Definition printable (acc : list PathsPrint.pentry) : Prop :=
    forall e, In e acc -> exists s, PathsPrint.hit_str (snd e) = Ok s.

  Lemma is_dup_has_path : forall h s acc,
    printable acc -> PathsPrint.hit_str h = Ok s ->
    PathsPrint.is_dup h acc = Ok (has_path s (map conv acc)).
  Proof.
    intros h s acc. induction acc as [|e r IH]; intros P H; simpl; [reflexivity|].
    rewrite H. cbn [bind].
    destruct (P e (or_introl eq_refl)) as [se E]. rewrite E. cbn [bind].
    cbn [or_empty].
    destruct (String.eqb s se); [reflexivity|].
    cbn [orb]. apply IH; [|exact H]. intros x X. apply P. right. exact X.
  Qed.

  Lemma add_unique_compose : forall expr hs acc,
    printable acc -> (forall h, In h hs -> exists s, PathsPrint.hit_str h = Ok s) ->
    exists acc', foldM (PathsPrint.add_unique expr) hs acc = Ok acc' /\
                 map conv acc' = Cli.add_unique expr (map rec_of hs) (map conv acc) /\
                 printable acc'.
  Proof.
    intros expr hs. induction hs as [|h r IH]; intros acc P H.
    - exists acc. repeat split; auto.
    - destruct (H h (or_introl eq_refl)) as [s E].
      cbn [foldM map Cli.add_unique]. unfold PathsPrint.add_unique at 1.
      rewrite (is_dup_has_path h s acc P E). cbn [bind].
      assert (PS : pr_str (rec_of h) = s) by (unfold rec_of; cbn [pr_str]; rewrite E; reflexivity).
      rewrite PS.
      destruct (has_path s (map conv acc)).
      + apply IH; [exact P|]. intros x X. apply H. right. exact X.
      + destruct (IH (acc ++ [(expr, h)])) as (acc' & F & M & P').
        * intros x X. apply in_app_or in X. destruct X as [X|[X|[]]]; [apply P; exact X|].
          subst x. exists s. exact E.
        * intros x X. apply H. right. exact X.
        * exists acc'. split; [exact F|]. split; [|exact P'].
          rewrite M. rewrite map_app. reflexivity.
  Qed.

  Lemma collect_compose : forall all exprs acc bad nh acc' bad',
    hits_printable lit re_search mt sp o all d -> incl exprs all ->
    printable acc ->
    PathsPrint.collect lit re_search mt sp o d exprs acc bad = Ok (acc', bad') ->
    exists nh', paths_collect (results exprs d) (map conv acc) bad nh = (map conv acc', bad', nh', None) /\
                printable acc'.
  Proof.
    intros all exprs. induction exprs as [|e r IH]; intros acc bad nh acc' bad' HP I P C.
    - cbn in C. inversion C; subst. exists nh. split; [reflexivity|exact P].
    - cbn [PathsPrint.collect] in C. cbn [results_of map paths_collect].
      assert (Ie : In e all) by (apply I; left; reflexivity).
      assert (Ir : incl r all) by (intros x X; apply I; right; exact X).
      destruct (PathsSearch.get_search_term e) as [[tm|]| |] eqn:G; cbn [bind] in C; try discriminate.
      + destruct (PathsSearch.search_doc lit re_search mt tm sp o d) as [hs| |] eqn:S; cbn [bind] in C; try discriminate.
        destruct (add_unique_compose e hs acc P (fun h X => HP e tm hs h Ie G S X)) as (acc1 & F & M & P1).
        rewrite F in C. cbn [bind] in C.
        rewrite <- M. apply (IH acc1 bad nh acc' bad' HP Ir P1 C).
      + apply (IH acc true (S nh) acc' bad' HP Ir P C).
  Qed.

  Lemma print_line_compose : forall a fl exprs file idx e line,
    same_print_options a fl sp exprs ->
    (exists s, PathsPrint.hit_str (snd e) = Ok s) ->
    PathsPrint.print_line value_text sp fl (List.length exprs) file (Z.of_nat idx) e = Ok line ->
    paths_line a file idx (conv e) = inl (OPath line None).
  Proof.
    intros a fl exprs file idx [expr h] line (SE & NF & NX & NP & VA & VF & NE & FS) [s HS].
    cbn [snd] in HS. unfold PathsPrint.print_line, paths_line, conv. cbn [fst snd].
    rewrite SE, NF, NX, NP, VA, VF, NE, FS. unfold display_name, is_dash. unfold str_of_nat.
    destruct (PathsPrint.pf_noyamlpath fl); cbn [negb andb orb bind].
    - intros E. inversion E. rewrite !append_nil_r. reflexivity.
    - destruct (PathsPrint.pf_noescape fl).
      + unfold PathsPrint.noescape_str. unfold rec_of. cbn [pr_segs]. unfold hit_segs.
        destruct (parse Auto true (PathsSearch.h_path h)) as [sg| |]; cbn [bind]; try discriminate.
        intros E. inversion E. unfold noescape_text. rewrite !append_nil_r. reflexivity.
      + rewrite HS. cbn [bind]. intros E. inversion E.
        unfold rec_of. cbn [pr_str]. rewrite HS. cbn [or_empty]. rewrite !append_nil_r. reflexivity.
  Qed.

  Lemma print_compose : forall a fl exprs file idx es lines,
    same_print_options a fl sp exprs ->
    printable es ->
    mapM (PathsPrint.print_line value_text sp fl (List.length exprs) file (Z.of_nat idx)) es = Ok lines ->
    paths_print a file idx (map conv es) = (map (fun t => OPath t None) lines, None).
  Proof.
    intros a fl exprs file idx es. induction es as [|e r IH]; intros lines SO P M.
    - cbn in M. inversion M. reflexivity.
    - cbn [mapM] in M.
      destruct (PathsPrint.print_line value_text sp fl (List.length exprs) file (Z.of_nat idx) e) as [line| |] eqn:L;
        cbn [bind] in M; try discriminate.
      destruct (mapM _ r) as [ls| |] eqn:R; cbn [bind] in M; try discriminate.
      inversion M; subst lines.
      cbn [map paths_print].
      rewrite (print_line_compose a fl exprs file idx e line SO (P e (or_introl eq_refl)) L).
      rewrite (IH ls SO (fun x X => P x (or_intror X)) eq_refl). reflexivity.
  Qed.

  (* one loaded document, no --except, no --values: the glue's per-document step, fed with the
     search model's hits, prints exactly the lines of PathsPrint.process_doc, in order, and its
     state is 1 exactly when an expression was rejected *)
  Lemma paths_end_to_end : forall a fl exprs file idx lines bad,
    same_print_options a fl sp exprs ->
    hits_printable lit re_search mt sp o exprs d ->
    PathsPrint.process_doc lit re_search value_text mt sp o d fl exprs file (Z.of_nat idx) = Ok (lines, bad) ->
    exists nh,
      paths_docs a file [PDoc (results exprs d) []] idx 0 =
        ((if bad then 1 else 0), hints nh ++ map (fun t => OPath t None) lines, None).
  Proof.
    intros a fl exprs file idx lines bad SO HP PD.
    unfold PathsPrint.process_doc in PD.
    destruct (PathsPrint.collect lit re_search mt sp o d exprs [] false) as [[es b]| |] eqn:C;
      cbn [bind fst snd] in PD; try discriminate.
    destruct (mapM _ es) as [ls| |] eqn:M; cbn [bind] in PD; try discriminate.
    inversion PD; subst ls b. clear PD.
    destruct (collect_compose exprs exprs [] false 0 es bad HP (incl_refl _) (fun e X => match X with end) C)
      as (nh & PC & P).
    cbn [map] in PC. cbn [paths_docs]. rewrite PC.
    exists nh. destruct es as [|e r].
    - cbn in M. inversion M. cbn [map]. reflexivity.
    - cbn [map]. change (conv e :: map conv r) with (map conv (e :: r)).
      cbn [paths_except]. rewrite (print_compose a fl exprs file idx (e :: r) lines SO P M).
      cbn [map]. cbn [hints repeat app]. rewrite app_nil_r.
      destruct bad; reflexivity.
  Qed.
End PathsCompose.
