(* C13, collections mixing ints with floats (outside the property's
   "same-kind scalars"): what max / min DO select, proved of Model/Keywords.v
   for all such lists.

   The code orders mixed numbers numerically (Searches.search_matches
   GREATER_THAN / LESS_THAN: `typed_haystack > typed_needle` for any two
   numbers) but tests equality with EQUALS, whose ladder compares an int with
   an int and a float with a float numerically and everything else -- an int
   against a float too -- on TEXT.  So the scan keeps, beside the FIRST
   extremal member, only the later members EQUALS deems equal to it: those of
   the same numeric type with an equal value.  `[5, 5.0]` with max() yields
   only the first.

   The loop invariant below is generic in the order and in the equality test
   (it does not assume that the test is the order's equivalence, which is what
   Proofs/KeywordProofs.v [gstep_inv] needs); the instance is the int / float
   mix.  Also here: a float and a text are their own typed readings
   (Nodes.typed_value), as far as that can be said without the oracle. *)
From Coq Require Import List Ascii String ZArith QArith Bool Arith Lia.
From YP Require Import Outcome PyStr PyVal Doc PathParser Searches Keywords SpecC12 SpecC13 PyValOrder KeywordProofs RtInt.
Import ListNotations.
Open Scope string_scope.
Open Scope list_scope.

(* ---------- typed readings ---------- *)
Section Typed.
Variable lit : string -> outcome litres.

(* a float is its own typed reading unless its repr spells true / false
   (literal_eval is not consulted for a non-str: nodes.py:641-651) *)
Lemma typed_value_float : forall q r,
  bool_spelling r = None -> typed_value lit (PFloat q r) = Ok (PFloat q r).
Proof.
  intros q r H. unfold typed_value, bool_spelling in *. cbn [py_str].
  destruct (String.eqb (lower_str r) "true"); [discriminate|].
  destruct (String.eqb (lower_str r) "false"); [discriminate|]. reflexivity.
Qed.

(* ast.literal_eval rejects the text the way typed_value catches *)
Definition lit_rejects (s : string) : Prop :=
  lit s = Ok LFail \/ exists c, lit s = Ok (LCrash c) /\ lit_crash_caught c = true.

(* a text that is no Python literal and no spelling of true / false is its own typed reading *)
Lemma typed_value_text : forall s,
  bool_spelling s = None -> lit_rejects s -> typed_value lit (PStr s) = Ok (PStr s).
Proof.
  intros s H R. unfold typed_value, bool_spelling in *. cbn [py_str].
  destruct (String.eqb (lower_str s) "true"); [discriminate|].
  destruct (String.eqb (lower_str s) "false"); [discriminate|].
  destruct R as [R|[c [R Hc]]]; rewrite R; cbn [bind]; [reflexivity|]. rewrite Hc. reflexivity.
Qed.

(* ... and conversely: the hypothesis is necessary -- a text literal_eval reads
   as something else is not its own typed reading *)
Lemma typed_value_text_literal : forall s v,
  bool_spelling s = None -> lit s = Ok (LVal v) -> typed_value lit (PStr s) = Ok v.
Proof.
  intros s v H R. unfold typed_value, bool_spelling in *. cbn [py_str].
  destruct (String.eqb (lower_str s) "true"); [discriminate|].
  destruct (String.eqb (lower_str s) "false"); [discriminate|].
  rewrite R. reflexivity.
Qed.

(* the oracle reads a float's repr back as that float (true of CPython:
   literal_eval(repr(x)) == x for every finite float) *)
Definition lit_reads_repr (q : Q) (r : string) : Prop := lit r = Ok (LVal (PFloat q r)).

(* numeric-looking text: the text of a float's repr is read as the float
   (why '10' beats '9' and '2.5' is compared as 2.5) *)
Lemma typed_value_repr_text : forall q r,
  bool_spelling r = None -> lit_reads_repr q r -> typed_value lit (PStr r) = Ok (PFloat q r).
Proof. intros q r H R. apply typed_value_text_literal; assumption. Qed.

End Typed.

(* ---------- the scan with an arbitrary equality test ---------- *)
Section Scan2.
Variable lit : string -> outcome litres.
Variable re_search : string -> string -> outcome reres.
Variable cmp : smethod.
Variable le : pyval -> pyval -> Prop.
Variable leb : pyval -> pyval -> bool.
Hypothesis leb_le : forall a b, leb a b = true <-> le a b.
Hypothesis le_refl : forall a, le a a.
Hypothesis le_trans : forall a b c, le a b -> le b c -> le a c.
Hypothesis le_total : forall a b, le a b \/ le b a.
(* what Searches.search_matches(EQUALS, running value, new value) answers *)
Variable eqt : pyval -> pyval -> bool.
Variable P : pyval -> Prop.
Hypothesis HP_none : forall v, P v -> is_pnone v = false.
Hypothesis HP_cmp : forall a b, P a -> P b -> Keywords.sm lit re_search cmp a b = Ok (negb (goodb cmp leb a b)).
Hypothesis HP_eq : forall a b, P a -> P b -> Keywords.sm lit re_search MEquals a b = Ok (eqt a b).

Notation good := (good cmp le).
Notation gstep := (gstep lit re_search cmp).

(* the later members EQUALS deems equal to the running value b *)
Definition eq_later (b : pyval) (post : list mem) : list coords :=
  map snd (filter (fun m => match fst m with Some w => eqt b w | None => false end) post).

Lemma eq_later_app b l1 l2 : eq_later b (l1 ++ l2) = eq_later b l1 ++ eq_later b l2.
Proof. unfold eq_later. rewrite filter_app, map_app. reflexivity. Qed.

(* after the members [ms]: nothing comparable yet; or the collection splits at
   the FIRST extremal member (b, c0): everything before it is strictly worse,
   nothing after it is better; matched = c0 and the later members equal to b by
   the test; discarded = the rest *)
Definition Inv2 (ms : list mem) (s : scan) : Prop :=
  ((forall v c, ~ In (Some v, c) ms) /\ s_value s = PNone /\ s_match s = [] /\
   (forall c, In c (s_discard s) <-> exists ov, In (ov, c) ms))
  \/
  (exists pre b c0 post,
     ms = pre ++ (Some b, c0) :: post /\ s_value s = b /\ P b /\
     (forall w c, In (Some w, c) pre -> ~ good w b) /\
     (forall w c, In (Some w, c) post -> good b w) /\
     s_match s = c0 :: eq_later b post /\
     (forall c, In c (s_discard s) <->
        (exists ov, In (ov, c) pre) \/
        (exists ov, In (ov, c) post /\ match ov with None => True | Some w => eqt b w = false end))).

Lemma good_total2 : forall a b, good a b \/ good b a.
Proof. unfold KeywordProofs.good. intros a b. destruct cmp; try apply le_total; destruct (le_total a b); auto. Qed.
Lemma good_trans2 : forall a b c, good a b -> good b c -> good a c.
Proof. unfold KeywordProofs.good. intros a b c; destruct cmp; intros; eapply le_trans; eauto. Qed.
Lemma good_refl2 : forall a, good a a.
Proof. unfold KeywordProofs.good. intros a; destruct cmp; apply le_refl. Qed.
Lemma goodb_good2 : forall a b, goodb cmp leb a b = true <-> good a b.
Proof. intros a b. unfold goodb, KeywordProofs.good. destruct cmp; apply leb_le. Qed.
Lemma beats_true_not_good2 : forall a b, negb (goodb cmp leb a b) = true -> ~ good a b.
Proof. intros a b H G. apply goodb_good2 in G. rewrite G in H. discriminate. Qed.
Lemma beats_false_good2 : forall a b, negb (goodb cmp leb a b) = false -> good a b.
Proof. intros a b H. apply negb_false_iff in H. apply goodb_good2. exact H. Qed.
Lemma in_snoc2 : forall A (l : list A) a x, In x (l ++ [a]) <-> In x l \/ x = a.
Proof. intros. rewrite in_app_iff. cbn. intuition. Qed.

Lemma in_eq_later b post c :
  In c (eq_later b post) <-> exists w, In (Some w, c) post /\ eqt b w = true.
Proof.
  unfold eq_later. rewrite in_map_iff. split.
  - intros [[ov c'] [Hc Hf]]. cbn in Hc. subst c'. apply filter_In in Hf. destruct Hf as [Hi Ht].
    cbn in Ht. destruct ov as [w|]; [|discriminate]. exists w. split; assumption.
  - intros [w [Hi Ht]]. exists (Some w, c). split; [reflexivity|]. apply filter_In. split; [assumption|exact Ht].
Qed.

Lemma gstep_inv2 : forall ms s m,
  Inv2 ms s -> all_P P (ms ++ [m]) ->
  exists s', gstep s m = Ok s' /\ Inv2 (ms ++ [m]) s'.
Proof.
  intros ms s [ov c] HI HP. unfold KeywordProofs.gstep. cbn [fst snd].
  destruct ov as [v|].
  2:{ (* nothing to compare: discarded *)
    eexists. split; [reflexivity|]. unfold discard.
    destruct HI as [[Hno [Hv [Hm Hd]]]|[pre [b [c0 [post [Hms [Hv [Pb [Hpre [Hpost [Hm Hd]]]]]]]]]]].
    - left. cbn. repeat split; try assumption.
      + intros v c' Hi. apply in_snoc2 in Hi. destruct Hi as [Hi|Hi]; [apply (Hno _ _ Hi)|discriminate].
      + intros Hi. apply in_snoc2 in Hi. destruct Hi as [Hi|Hi].
        * apply Hd in Hi. destruct Hi as [ov Hi]. exists ov. apply in_snoc2. left; assumption.
        * subst. exists None. apply in_snoc2. right; reflexivity.
      + intros [ov Hi]. apply in_snoc2. apply in_snoc2 in Hi. destruct Hi as [Hi|Hi].
        * left. apply Hd. exists ov; assumption.
        * inversion Hi; subst. right; reflexivity.
    - right. exists pre, b, c0, (post ++ [(None, c)]). cbn.
      split; [rewrite Hms, <- app_assoc; reflexivity|]. split; [assumption|]. split; [assumption|].
      split; [assumption|]. split.
      { intros w c' Hi. apply in_snoc2 in Hi. destruct Hi as [Hi|Hi]; [apply (Hpost _ _ Hi)|discriminate]. }
      split.
      { rewrite Hm, eq_later_app. cbn. rewrite app_nil_r. reflexivity. }
      intros c'. rewrite in_snoc2, Hd. split.
      + intros [[H|H]|H].
        * left; assumption.
        * right. destruct H as [ov [Hi Ho]]. exists ov. split; [apply in_snoc2; left; assumption|assumption].
        * subst c'. right. exists None. split; [apply in_snoc2; right; reflexivity|exact I].
      + intros [H|[ov [Hi Ho]]].
        * left; left; assumption.
        * apply in_snoc2 in Hi. destruct Hi as [Hi|Hi].
          -- left; right. exists ov. split; assumption.
          -- inversion Hi; subst. right; reflexivity. }
  assert (Pv : P v) by (apply (HP v c); apply in_snoc2; right; reflexivity).
  unfold scan_value.
  destruct HI as [[Hno [Hv [Hm Hd]]]|[pre [b [c0 [post [Hms [Hv [Pb [Hpre [Hpost [Hm Hd]]]]]]]]]]].
  - (* the first comparable value *)
    rewrite Hv. cbn. eexists. split; [reflexivity|].
    right. exists ms, v, c, []. cbn. repeat split; try assumption; try reflexivity.
    + intros w c' Hi. exfalso. apply (Hno _ _ Hi).
    + intros w c' [].
    + rewrite Hm, app_nil_r. intros Hi. left. apply Hd. exact Hi.
    + rewrite Hm, app_nil_r. intros [H|[ov [[] _]]]. apply Hd. exact H.
  - subst b. rewrite (HP_none _ Pb). rewrite (HP_cmp _ _ Pb Pv). cbn [bind].
    assert (Hall : forall w c', In (Some w, c') ms -> good (s_value s) w).
    { intros w c' Hi. rewrite Hms in Hi. apply in_app_iff in Hi. destruct Hi as [Hi|[Hi|Hi]].
      - destruct (good_total2 (s_value s) w) as [G|G]; [assumption|]. exfalso. apply (Hpre _ _ Hi G).
      - inversion Hi; subst. apply good_refl2.
      - apply (Hpost _ _ Hi). }
    destruct (negb (goodb cmp leb (s_value s) v)) eqn:Eb.
    + (* a new extremum: everything so far is strictly worse *)
      eexists. split; [reflexivity|].
      pose proof (beats_true_not_good2 _ _ Eb) as Hnb.
      right. exists ms, v, c, []. cbn. repeat split; try assumption; try reflexivity.
      * intros w c' Hi G. apply Hnb. eapply good_trans2; [apply (Hall _ _ Hi)|exact G].
      * intros w c' [].
      * intros Hi. left. apply in_app_iff in Hi. destruct Hi as [Hi|Hi].
        -- apply Hd in Hi. destruct Hi as [[ov Hi]|[ov [Hi _]]]; exists ov; rewrite Hms; apply in_app_iff.
           ++ left; assumption.
           ++ right; right; assumption.
        -- rewrite Hm in Hi. destruct Hi as [Hi|Hi].
           ++ subst c0. exists (Some (s_value s)). rewrite Hms. apply in_app_iff. right; left; reflexivity.
           ++ apply in_eq_later in Hi. destruct Hi as [w [Hi _]]. exists (Some w). rewrite Hms.
              apply in_app_iff. right; right; assumption.
      * intros [[ov Hi]|[ov [[] _]]]. apply in_app_iff. rewrite Hms in Hi. apply in_app_iff in Hi.
        destruct Hi as [Hi|[Hi|Hi]].
        -- left. apply Hd. left. exists ov; assumption.
        -- inversion Hi; subst. right. rewrite Hm. left; reflexivity.
        -- destruct ov as [w|].
           ++ destruct (eqt (s_value s) w) eqn:Et.
              ** right. rewrite Hm. right. apply in_eq_later. exists w. split; assumption.
              ** left. apply Hd. right. exists (Some w). split; assumption.
           ++ left. apply Hd. right. exists None. split; [assumption|exact I].
    + rewrite (HP_eq _ _ Pb Pv). cbn [bind].
      pose proof (beats_false_good2 _ _ Eb) as Hgb.
      destruct (eqt (s_value s) v) eqn:Eq.
      * (* equal by the test: one more match *)
        eexists. split; [reflexivity|].
        right. exists pre, (s_value s), c0, (post ++ [(Some v, c)]). cbn.
        split; [rewrite Hms, <- app_assoc; reflexivity|]. split; [reflexivity|]. split; [assumption|].
        split; [assumption|]. split.
        { intros w c' Hi. apply in_snoc2 in Hi. destruct Hi as [Hi|Hi]; [apply (Hpost _ _ Hi)|].
          inversion Hi; subst. assumption. }
        split.
        { rewrite Hm, eq_later_app. unfold eq_later at 3. cbn. rewrite Eq. reflexivity. }
        intros c'. rewrite Hd. split.
        -- intros [H|[ov [Hi Ho]]]; [left; assumption|]. right. exists ov. split; [apply in_snoc2; left; assumption|assumption].
        -- intros [H|[ov [Hi Ho]]]; [left; assumption|]. apply in_snoc2 in Hi. destruct Hi as [Hi|Hi].
           ++ right. exists ov. split; assumption.
           ++ inversion Hi; subst. rewrite Eq in Ho. discriminate.
      * (* not better, not equal by the test: discarded *)
        eexists. split; [reflexivity|]. unfold discard.
        right. exists pre, (s_value s), c0, (post ++ [(Some v, c)]). cbn.
        split; [rewrite Hms, <- app_assoc; reflexivity|]. split; [reflexivity|]. split; [assumption|].
        split; [assumption|]. split.
        { intros w c' Hi. apply in_snoc2 in Hi. destruct Hi as [Hi|Hi]; [apply (Hpost _ _ Hi)|].
          inversion Hi; subst. assumption. }
        split.
        { rewrite Hm, eq_later_app. unfold eq_later at 3. cbn. rewrite Eq. cbn. rewrite app_nil_r. reflexivity. }
        intros c'. rewrite in_snoc2, Hd. split.
        -- intros [[H|[ov [Hi Ho]]]|H].
           ++ left; assumption.
           ++ right. exists ov. split; [apply in_snoc2; left; assumption|assumption].
           ++ subst c'. right. exists (Some v). split; [apply in_snoc2; right; reflexivity|exact Eq].
        -- intros [H|[ov [Hi Ho]]]; [left; left; assumption|]. apply in_snoc2 in Hi. destruct Hi as [Hi|Hi].
           ++ left; right. exists ov. split; assumption.
           ++ inversion Hi; subst. right; reflexivity.
Qed.

Lemma fold_gstep_inv2 : forall l ms s,
  Inv2 ms s -> all_P P (ms ++ l) ->
  exists s', foldM gstep l s = Ok s' /\ Inv2 (ms ++ l) s'.
Proof.
  induction l as [|m r IH]; intros ms s HI HP; cbn.
  - exists s. rewrite app_nil_r. split; [reflexivity|assumption].
  - assert (HP1 : all_P P (ms ++ [m])).
    { intros v c Hi. apply (HP v c). apply in_app_iff. apply in_snoc2 in Hi. destruct Hi as [Hi|Hi].
      - left; assumption.
      - right; left; symmetry; assumption. }
    destruct (gstep_inv2 ms s m HI HP1) as [s1 [E1 I1]]. rewrite E1. cbn.
    assert (HP2 : all_P P ((ms ++ [m]) ++ r)) by (rewrite <- app_assoc; exact HP).
    destruct (IH (ms ++ [m]) s1 I1 HP2) as [s2 [E2 I2]].
    exists s2. split; [assumption|]. rewrite <- app_assoc in I2. exact I2.
Qed.

Lemma Inv2_nil : Inv2 [] scan0.
Proof.
  left. cbn. split; [intros v c []|]. split; [reflexivity|]. split; [reflexivity|].
  intros c. split; [intros []|intros [ov []]].
Qed.

Lemma scan_total2 : forall l, all_P P l -> exists s, foldM gstep l scan0 = Ok s /\ Inv2 l s.
Proof. intros l HP. apply (fold_gstep_inv2 l [] scan0 Inv2_nil HP). Qed.

(* a plain list (not an Array-of-Hashes), no parameter *)
Lemma extremum_list2 : forall node_str invert i els x,
  node_is_aoh true (NSeq i els) = false ->
  all_P P (map (list_member node_str x) (enumerate els)) ->
  exists s,
    extremum lit re_search node_str cmp invert [] (NSeq i els) x =
      Ok (if invert then s_discard s else s_match s) /\
    Inv2 (map (list_member node_str x) (enumerate els)) s.
Proof.
  intros node_str invert i els x Haoh HP. unfold extremum. cbn [List.length Nat.ltb Nat.leb].
  cbv iota. rewrite Haoh.
  rewrite (foldM_map_ext _ _ _ gstep (list_member node_str x) (list_step_gstep lit re_search node_str cmp x)).
  destruct (scan_total2 _ HP) as [s [E I]]. rewrite E. cbn. exists s. split; [reflexivity|assumption].
Qed.

(* an Array-of-Hashes / a hash of hashes with the attribute named *)
Lemma extremum_aoh2 : forall node_str invert attr i els x,
  node_is_aoh true (NSeq i els) = true ->
  all_P P (map (aoh_member node_str attr x) (enumerate els)) ->
  exists s,
    extremum lit re_search node_str cmp invert [attr] (NSeq i els) x =
      Ok (if invert then s_discard s else s_match s) /\
    Inv2 (map (aoh_member node_str attr x) (enumerate els)) s.
Proof.
  intros node_str invert attr i els x Haoh HP. unfold extremum. cbn [List.length Nat.ltb Nat.leb].
  cbv iota. rewrite Haoh.
  rewrite (foldM_map_ext _ _ _ gstep (aoh_member node_str attr x) (aoh_step_gstep lit re_search node_str cmp attr x)).
  destruct (scan_total2 _ HP) as [s [E I]]. rewrite E. cbn. exists s. split; [reflexivity|assumption].
Qed.

Lemma extremum_hoh2 : forall node_str invert attr i kvs x,
  forallb (fun kv => is_map (snd kv)) kvs = true ->
  all_P P (map (hoh_member node_str attr x) kvs) ->
  exists s,
    extremum lit re_search node_str cmp invert [attr] (NMap i kvs) x =
      Ok (if invert then s_discard s else s_match s) /\
    Inv2 (map (hoh_member node_str attr x) kvs) s.
Proof.
  intros node_str invert attr i kvs x Hhoh HP. unfold extremum. cbn [List.length Nat.ltb Nat.leb].
  cbv iota. cbn [node_is_aoh]. cbv iota.
  rewrite (foldM_map_ext_in _ _ (hoh_step lit re_search node_str cmp attr kvs x) gstep (hoh_member node_str attr x) kvs).
  - destruct (scan_total2 _ HP) as [s [E I]]. rewrite E. cbn. exists s. split; [reflexivity|assumption].
  - intros s kv Hi. apply hoh_step_gstep. rewrite forallb_forall in Hhoh. apply (Hhoh _ Hi).
Qed.

End Scan2.

(* ---------- ints mixed with floats ---------- *)
(* a float whose repr is what Python prints for a float: never the text of an
   integer (it has a '.', an exponent, or is inf / nan) and not a spelling of
   true / false.  Computable; docenc.py ships repr(float). *)
Definition float_repr_ok (r : string) : bool :=
  match py_int r with Some _ => false | None => true end &&
  match bool_spelling r with Some _ => false | None => true end.

Definition mixed_num (v : pyval) : Prop :=
  (exists z, v = PInt z) \/ (exists q r, v = PFloat q r /\ float_repr_ok r = true).

(* EQUALS between two members, as the ladder of Searches.search_matches decides:
   the same numeric type and an equal value *)
Definition same_numtype (a b : pyval) : bool :=
  match a, b with
  | PInt _, PInt _ | PFloat _ _, PFloat _ _ => true
  | _, _ => false
  end.
Definition mixed_eq (a b : pyval) : bool := same_numtype a b && Qeq_bool (num_key a) (num_key b).

Section Mixed.
Variable lit : string -> outcome litres.
Variable re_search : string -> string -> outcome reres.
Variable node_str : node -> string.

Lemma mixed_typed : forall v, mixed_num v -> typed_value lit v = Ok v.
Proof.
  intros v [[z ->]|[q [r [-> H]]]]; [apply typed_value_int|].
  apply typed_value_float. unfold float_repr_ok in H. apply andb_prop in H. destruct H as [_ H].
  destruct (bool_spelling r); [discriminate|reflexivity].
Qed.

Lemma mixed_not_none : forall v, mixed_num v -> is_pnone v = false.
Proof. intros v [[z ->]|[q [r [-> _]]]]; reflexivity. Qed.

Lemma mixed_cmp : forall cmp a b,
  cmp = MGt \/ cmp = MLt -> mixed_num a -> mixed_num b ->
  Keywords.sm lit re_search cmp a b = Ok (negb (goodb cmp (kind_leb SKInt) a b)).
Proof.
  intros cmp a b Hc Ma Mb.
  rewrite (sm_unfold_typed lit re_search cmp a b (mixed_typed a Ma) (mixed_typed b Mb)).
  destruct Ma as [[za ->]|[qa [ra [-> _]]]]; destruct Mb as [[zb ->]|[qb [rb [-> _]]]];
    destruct Hc as [->| ->]; reflexivity.
Qed.

Lemma str_of_Z_not_float_repr : forall z r, float_repr_ok r = true -> String.eqb (str_of_Z z) r = false.
Proof.
  intros z r H. destruct (String.eqb (str_of_Z z) r) eqn:E; [|reflexivity].
  apply String.eqb_eq in E. subst r. unfold float_repr_ok in H. rewrite py_int_str_of_Z in H. discriminate.
Qed.

Lemma mixed_equals : forall a b,
  mixed_num a -> mixed_num b -> Keywords.sm lit re_search MEquals a b = Ok (mixed_eq a b).
Proof.
  intros a b Ma Mb.
  rewrite (sm_unfold_typed lit re_search MEquals a b (mixed_typed a Ma) (mixed_typed b Mb)).
  destruct Ma as [[za ->]|[qa [ra [-> Ha]]]]; destruct Mb as [[zb ->]|[qb [rb [-> Hb]]]];
    cbn [is_bool_inst type_is_bool is_int_inst type_is_int is_float_inst type_is_float andb py_str];
    unfold mixed_eq; cbn [same_numtype andb].
  - unfold py_eq. cbn [num_of]. rewrite Qeq_bool_sym. reflexivity.
  - (* running value an int, new value a float: text against text *)
    rewrite String.eqb_sym, (str_of_Z_not_float_repr za rb Hb). reflexivity.
  - rewrite (str_of_Z_not_float_repr zb ra Ha). reflexivity.
  - unfold py_eq. cbn [num_of]. rewrite Qeq_bool_sym. reflexivity.
Qed.

(* what max / min select on a list of ints and floats (nulls allowed): the
   collection splits at its FIRST extremal member (b, c0) -- everything before
   is strictly worse, nothing after is better --; selected are c0 and the later
   members of the same numeric type with an equal value; inverted: the rest *)
Definition mixed_split (cmp : smethod) (ms : list mem) (pre : list mem) (b : pyval) (c0 : coords) (post : list mem) : Prop :=
  ms = pre ++ (Some b, c0) :: post /\
  (forall w c, In (Some w, c) pre -> ~ good cmp (kind_le SKInt) w b) /\
  (forall w c, In (Some w, c) post -> good cmp (kind_le SKInt) b w).

Definition mixed_selected (cmp : smethod) (invert : bool) (ms : list mem) (c : coords) : Prop :=
  (forall v c', ~ In (Some v, c') ms) /\ (if invert then exists ov, In (ov, c) ms else False)
  \/
  exists pre b c0 post, mixed_split cmp ms pre b c0 post /\
    if invert then
      (exists ov, In (ov, c) pre) \/
      (exists ov, In (ov, c) post /\ match ov with None => True | Some w => mixed_eq b w = false end)
    else
      c = c0 \/ exists w, In (Some w, c) post /\ mixed_eq b w = true.

Lemma mixed_of_Inv2 : forall cmp (invert : bool) ms s,
  Inv2 cmp (kind_le SKInt) mixed_eq mixed_num ms s ->
  forall c, In c (if invert then s_discard s else s_match s) <-> mixed_selected cmp invert ms c.
Proof.
  intros cmp invert ms s I c. unfold mixed_selected.
  destruct I as [[Hno [Hv [Hm Hd]]]|[pre [b [c0 [post [Hms [Hv [Pb [Hpre [Hpost [Hm Hd]]]]]]]]]]].
  - split.
    + intros Hi. left. split; [assumption|]. destruct invert.
      * apply Hd. exact Hi.
      * rewrite Hm in Hi. destruct Hi.
    + intros [[_ H]|[pre [b [c0 [post [[Hms _] _]]]]]].
      * destruct invert; [apply Hd; exact H|destruct H].
      * exfalso. apply (Hno b c0). rewrite Hms. apply in_app_iff. right; left; reflexivity.
  - assert (Huniq : forall pre' b' c0' post', mixed_split cmp ms pre' b' c0' post' ->
                                              pre' = pre /\ b' = b /\ c0' = c0 /\ post' = post).
    { intros pre' b' c0' post' [Hms' [Hpre' Hpost']].
      assert (Hlen : List.length pre' = List.length pre).
      { destruct (Nat.lt_trichotomy (List.length pre') (List.length pre)) as [Hlt|[Heq|Hgt]]; [|assumption|]; exfalso.
        - (* (b', c0') lies inside pre: strictly worse than b, but b comes after it *)
          assert (Hin : In (Some b', c0') pre).
          { assert (Hn : nth_error (pre ++ (Some b, c0) :: post) (List.length pre') = Some (Some b', c0')).
            { rewrite <- Hms, Hms'. rewrite nth_error_app2 by lia. rewrite Nat.sub_diag. reflexivity. }
            rewrite nth_error_app1 in Hn by assumption. apply nth_error_In in Hn. exact Hn. }
          assert (Hin2 : In (Some b, c0) post').
          { assert (Hn : nth_error (pre' ++ (Some b', c0') :: post') (List.length pre) = Some (Some b, c0)).
            { rewrite <- Hms', Hms. rewrite nth_error_app2 by lia. rewrite Nat.sub_diag. reflexivity. }
            rewrite nth_error_app2 in Hn by lia.
            destruct (List.length pre - List.length pre') as [|k] eqn:Ek; [lia|]. cbn in Hn.
            apply nth_error_In in Hn. exact Hn. }
          apply (Hpre _ _ Hin). apply (Hpost' _ _ Hin2).
        - assert (Hin : In (Some b, c0) pre').
          { assert (Hn : nth_error (pre' ++ (Some b', c0') :: post') (List.length pre) = Some (Some b, c0)).
            { rewrite <- Hms', Hms. rewrite nth_error_app2 by lia. rewrite Nat.sub_diag. reflexivity. }
            rewrite nth_error_app1 in Hn by assumption. apply nth_error_In in Hn. exact Hn. }
          assert (Hin2 : In (Some b', c0') post).
          { assert (Hn : nth_error (pre ++ (Some b, c0) :: post) (List.length pre') = Some (Some b', c0')).
            { rewrite <- Hms, Hms'. rewrite nth_error_app2 by lia. rewrite Nat.sub_diag. reflexivity. }
            rewrite nth_error_app2 in Hn by lia.
            destruct (List.length pre' - List.length pre) as [|k] eqn:Ek; [lia|]. cbn in Hn.
            apply nth_error_In in Hn. exact Hn. }
          apply (Hpre' _ _ Hin). apply (Hpost _ _ Hin2). }
      rewrite Hms in Hms'.
      assert (Hp : pre = pre').
      { apply (f_equal (firstn (List.length pre))) in Hms'.
        rewrite firstn_app, firstn_all, Nat.sub_diag in Hms'. cbn in Hms'. rewrite app_nil_r in Hms'.
        rewrite <- Hlen in Hms'. rewrite firstn_app, firstn_all, Nat.sub_diag in Hms'. cbn in Hms'.
        rewrite app_nil_r in Hms'. exact Hms'. }
      subst pre'. apply app_inv_head in Hms'. inversion Hms'. repeat split; reflexivity. }
    split.
    + intros Hi. right. exists pre, b, c0, post. split; [repeat split; assumption|].
      destruct invert.
      * apply Hd. exact Hi.
      * rewrite Hm in Hi. destruct Hi as [Hi|Hi]; [left; symmetry; assumption|right].
        apply (in_eq_later mixed_eq) in Hi. exact Hi.
    + intros [[Hno _]|[pre' [b' [c0' [post' [Hsp Hsel]]]]]].
      * exfalso. apply (Hno b c0). rewrite Hms. apply in_app_iff. right; left; reflexivity.
      * destruct (Huniq _ _ _ _ Hsp) as [-> [-> [-> ->]]].
        destruct invert.
        -- apply Hd. exact Hsel.
        -- rewrite Hm. destruct Hsel as [->|Hsel]; [left; reflexivity|right].
           apply (in_eq_later mixed_eq). exact Hsel.
Qed.

Theorem extremum_list_mixed : forall cmp invert i els x,
  cmp = MGt \/ cmp = MLt ->
  node_is_aoh true (NSeq i els) = false ->
  (forall v c, In (Some v, c) (map (list_member node_str x) (enumerate els)) -> mixed_num v) ->
  exists res,
    extremum lit re_search node_str cmp invert [] (NSeq i els) x = Ok res /\
    forall c, In c res <-> mixed_selected cmp invert (map (list_member node_str x) (enumerate els)) c.
Proof.
  intros cmp invert i els x Hc Haoh HP.
  destruct (extremum_list2 lit re_search cmp (kind_le SKInt) (kind_leb SKInt) (kind_leb_le SKInt)
              (kind_le_refl SKInt) (kind_le_trans SKInt) (kind_le_total SKInt) mixed_eq mixed_num
              mixed_not_none (fun a b Pa Pb => mixed_cmp cmp a b Hc Pa Pb) mixed_equals
              node_str invert i els x Haoh HP) as [s [E I]].
  eexists. split; [exact E|]. apply (mixed_of_Inv2 cmp invert _ s I).
Qed.

Theorem extremum_aoh_mixed : forall cmp invert attr i els x,
  cmp = MGt \/ cmp = MLt ->
  node_is_aoh true (NSeq i els) = true ->
  (forall v c, In (Some v, c) (map (aoh_member node_str attr x) (enumerate els)) -> mixed_num v) ->
  exists res,
    extremum lit re_search node_str cmp invert [attr] (NSeq i els) x = Ok res /\
    forall c, In c res <-> mixed_selected cmp invert (map (aoh_member node_str attr x) (enumerate els)) c.
Proof.
  intros cmp invert attr i els x Hc Haoh HP.
  destruct (extremum_aoh2 lit re_search cmp (kind_le SKInt) (kind_leb SKInt) (kind_leb_le SKInt)
              (kind_le_refl SKInt) (kind_le_trans SKInt) (kind_le_total SKInt) mixed_eq mixed_num
              mixed_not_none (fun a b Pa Pb => mixed_cmp cmp a b Hc Pa Pb) mixed_equals
              node_str invert attr i els x Haoh HP) as [s [E I]].
  eexists. split; [exact E|]. apply (mixed_of_Inv2 cmp invert _ s I).
Qed.

Theorem extremum_hoh_mixed : forall cmp invert attr i kvs x,
  cmp = MGt \/ cmp = MLt ->
  forallb (fun kv => is_map (snd kv)) kvs = true ->
  (forall v c, In (Some v, c) (map (hoh_member node_str attr x) kvs) -> mixed_num v) ->
  exists res,
    extremum lit re_search node_str cmp invert [attr] (NMap i kvs) x = Ok res /\
    forall c, In c res <-> mixed_selected cmp invert (map (hoh_member node_str attr x) kvs) c.
Proof.
  intros cmp invert attr i kvs x Hc Hh HP.
  destruct (extremum_hoh2 lit re_search cmp (kind_le SKInt) (kind_leb SKInt) (kind_leb_le SKInt)
              (kind_le_refl SKInt) (kind_le_trans SKInt) (kind_le_total SKInt) mixed_eq mixed_num
              mixed_not_none (fun a b Pa Pb => mixed_cmp cmp a b Hc Pa Pb) mixed_equals
              node_str invert attr i kvs x Hh HP) as [s [E I]].
  eexists. split; [exact E|]. apply (mixed_of_Inv2 cmp invert _ s I).
Qed.

Lemma kgood_total : forall cmp a b, good cmp (kind_le SKInt) a b \/ good cmp (kind_le SKInt) b a.
Proof.
  intros cmp a b. unfold good. destruct cmp; try apply (kind_le_total SKInt);
    destruct (kind_le_total SKInt a b); auto.
Qed.
Lemma kgood_refl : forall cmp a, good cmp (kind_le SKInt) a a.
Proof. intros cmp a. unfold good. destruct cmp; apply (kind_le_refl SKInt). Qed.

Lemma mixed_split_exists : forall cmp ms,
  cmp = MGt \/ cmp = MLt -> all_P mixed_num ms ->
  (forall v c, ~ In (Some v, c) ms) \/ exists pre b c0 post, mixed_split cmp ms pre b c0 post.
Proof.
  intros cmp ms Hc HP.
  destruct (scan_total2 lit re_search cmp (kind_le SKInt) (kind_leb SKInt) (kind_leb_le SKInt)
              (kind_le_refl SKInt) (kind_le_trans SKInt) (kind_le_total SKInt) mixed_eq mixed_num
              mixed_not_none (fun a b Pa Pb => mixed_cmp cmp a b Hc Pa Pb) mixed_equals ms HP) as [s [_ I]].
  destruct I as [[Hno _]|[pre [b [c0 [post [Hms [_ [_ [Hpre [Hpost _]]]]]]]]]].
  - left. exact Hno.
  - right. exists pre, b, c0, post. repeat split; assumption.
Qed.

(* the guard under which a mixed list still satisfies the property's statement:
   no int member is numerically equal to a float member *)
Definition no_cross_equal (ms : list mem) : bool :=
  forallb (fun m1 =>
    forallb (fun m2 =>
      match fst m1, fst m2 with
      | Some a, Some b => implb (Qeq_bool (num_key a) (num_key b)) (same_numtype a b)
      | _, _ => true
      end) ms) ms.

Lemma no_cross_equal_spec ms a ca b cb :
  no_cross_equal ms = true -> In (Some a, ca) ms -> In (Some b, cb) ms ->
  Qeq_bool (num_key a) (num_key b) = true -> same_numtype a b = true.
Proof.
  intros H Ha Hb He. unfold no_cross_equal in H. rewrite forallb_forall in H.
  specialize (H _ Ha). rewrite forallb_forall in H. specialize (H _ Hb). cbn in H.
  rewrite He in H. exact H.
Qed.

Lemma mixed_selected_partial : forall cmp invert ms c,
  cmp = MGt \/ cmp = MLt -> all_P mixed_num ms -> no_cross_equal ms = true ->
  (mixed_selected cmp invert ms c <-> selected cmp invert ms c).
Proof.
  intros cmp invert ms c Hc HP Hg.
  assert (Hle : forall a b, good cmp (kind_le SKInt) a b -> good cmp (kind_le SKInt) b a ->
                            Qeq_bool (num_key a) (num_key b) = true).
  { intros a b G1 G2. apply Qeq_bool_iff. unfold good in *.
    destruct Hc as [->| ->]; cbn in G1, G2; unfold num_le in *; apply Qle_antisym; assumption. }
  assert (Hbest : forall pre b c0 post, mixed_split cmp ms pre b c0 post ->
                                        forall w c', In (Some w, c') ms -> good cmp (kind_le SKInt) b w).
  { intros pre b c0 post [Hms [Hpre Hpost]] w c' Hi. rewrite Hms in Hi. apply in_app_iff in Hi.
    destruct Hi as [Hi|[Hi|Hi]].
    - destruct (kgood_total cmp b w) as [G|G]; [assumption|].
      exfalso. apply (Hpre _ _ Hi G).
    - inversion Hi; subst. apply kgood_refl.
    - apply (Hpost _ _ Hi). }
  (* "v is extremal" in the words of the spec *)
  assert (Hext : forall v, (forall w c', In (Some w, c') ms -> good cmp (kind_le SKInt) v w) <->
                           match cmp with MLt => is_min_by coords (num_le num_key) v ms
                                        | _ => is_max_by coords (num_le num_key) v ms end).
  { intros v. destruct Hc as [->| ->]; reflexivity. }
  unfold mixed_selected, selected, selected_by.
  split.
  - intros [[Hno Hsel]|[pre [b [c0 [post [Hsp Hsel]]]]]].
    + destruct invert; [|destruct Hsel]. destruct Hsel as [ov Hi].
      assert (Hnone : ov = None) by (destruct ov as [w|]; [exfalso; apply (Hno _ _ Hi)|reflexivity]). subst ov.
      destruct Hc as [->| ->]; exists None; split; try assumption; exact I.
    + pose proof (Hbest _ _ _ _ Hsp) as Hb. destruct Hsp as [Hms [Hpre Hpost]].
      destruct invert.
      * (* the others *)
        assert (Hnot : exists ov, In (ov, c) ms /\
                         match ov with None => True
                                  | Some w => ~ (forall u cu, In (Some u, cu) ms -> good cmp (kind_le SKInt) w u) end).
        { destruct Hsel as [[ov Hi]|[ov [Hi Ho]]].
          - exists ov. split; [rewrite Hms; apply in_app_iff; left; assumption|].
            destruct ov as [w|]; [|exact I]. intros Hw. apply (Hpre _ _ Hi). apply (Hw b c0).
            rewrite Hms. apply in_app_iff. right; left; reflexivity.
          - exists ov. split; [rewrite Hms; apply in_app_iff; right; right; assumption|].
            destruct ov as [w|]; [|exact I]. intros Hw.
            assert (Hin : In (Some w, c) ms) by (rewrite Hms; apply in_app_iff; right; right; assumption).
            assert (Hb0 : In (Some b, c0) ms) by (rewrite Hms; apply in_app_iff; right; left; reflexivity).
            pose proof (Hle b w (Hb _ _ Hin) (Hw _ _ Hb0)) as Heq.
            pose proof (no_cross_equal_spec ms b c0 w c Hg Hb0 Hin Heq) as Hty.
            unfold mixed_eq in Ho. rewrite Hty, Heq in Ho. discriminate. }
        destruct Hnot as [ov [Hi Ho]].
        destruct Hc as [->| ->]; exists ov; (split; [assumption|]); destruct ov as [w|]; try exact I;
          intros Hw; apply Ho; apply (proj2 (Hext w)); exact Hw.
      * assert (Hsel' : exists w, In (Some w, c) ms /\ (forall u cu, In (Some u, cu) ms -> good cmp (kind_le SKInt) w u)).
        { destruct Hsel as [->|[w [Hi Ht]]].
          - exists b. split; [rewrite Hms; apply in_app_iff; right; left; reflexivity|exact Hb].
          - exists w. split; [rewrite Hms; apply in_app_iff; right; right; assumption|].
            intros u cu Hu. unfold mixed_eq in Ht. apply andb_prop in Ht. destruct Ht as [_ Ht].
            apply Qeq_bool_iff in Ht. pose proof (Hb _ _ Hu) as G. unfold good in *.
            destruct Hc as [->| ->]; cbn in *; unfold num_le in *; rewrite <- Ht; exact G. }
        destruct Hsel' as [w [Hi Hw]].
        destruct Hc as [->| ->]; exists w; (split; [assumption|]); apply (proj1 (Hext w)); exact Hw.
  - (* from the spec's words to the split *)
    intros Hsel.
    destruct (mixed_split_exists cmp ms Hc HP) as [Hno|[pre [b [c0 [post Hsp]]]]].
    + left. split; [assumption|]. destruct invert.
      * destruct Hc as [->| ->]; destruct Hsel as [ov [Hi _]]; exists ov; assumption.
      * destruct Hc as [->| ->]; destruct Hsel as [w [Hi _]]; apply (Hno _ _ Hi).
    + right. exists pre, b, c0, post. split; [exact Hsp|].
      pose proof (Hbest _ _ _ _ Hsp) as Hb. destruct Hsp as [Hms [Hpre Hpost]].
      assert (Hb0 : In (Some b, c0) ms) by (rewrite Hms; apply in_app_iff; right; left; reflexivity).
      destruct invert.
      * assert (Hnot : exists ov, In (ov, c) ms /\
                         match ov with None => True
                                  | Some w => ~ (forall u cu, In (Some u, cu) ms -> good cmp (kind_le SKInt) w u) end).
        { destruct Hc as [->| ->]; destruct Hsel as [ov [Hi Ho]]; exists ov; (split; [assumption|]);
            destruct ov as [w|]; try exact I; intros Hw; apply Ho; apply (proj1 (Hext w)); exact Hw. }
        destruct Hnot as [ov [Hi Ho]]. rewrite Hms in Hi. apply in_app_iff in Hi. destruct Hi as [Hi|[Hi|Hi]].
        -- left. exists ov; assumption.
        -- inversion Hi; subst. exfalso. apply Ho. exact Hb.
        -- right. exists ov. split; [assumption|]. destruct ov as [w|]; [|exact I].
           destruct (mixed_eq b w) eqn:Et; [|reflexivity]. exfalso. apply Ho.
           intros u cu Hu. unfold mixed_eq in Et. apply andb_prop in Et. destruct Et as [_ Et].
           apply Qeq_bool_iff in Et. pose proof (Hb _ _ Hu) as G. unfold good in *.
           destruct Hc as [->| ->]; cbn in *; unfold num_le in *; rewrite <- Et; exact G.
      * assert (Hsel' : exists w, In (Some w, c) ms /\ (forall u cu, In (Some u, cu) ms -> good cmp (kind_le SKInt) w u)).
        { destruct Hc as [->| ->]; destruct Hsel as [w [Hi Hw]]; exists w; (split; [assumption|]);
            apply (proj2 (Hext w)); exact Hw. }
        destruct Hsel' as [w [Hi Hw]]. pose proof Hi as Hi0.
        rewrite Hms in Hi. apply in_app_iff in Hi. destruct Hi as [Hi|[Hi|Hi]].
        -- exfalso. apply (Hpre _ _ Hi). apply (Hw _ _ Hb0).
        -- inversion Hi; subst. left; reflexivity.
        -- right. exists w. split; [assumption|].
           pose proof (Hle b w (Hb _ _ Hi0) (Hw _ _ Hb0)) as Heq.
           pose proof (no_cross_equal_spec ms b c0 w c Hg Hb0 Hi0 Heq) as Hty.
           unfold mixed_eq. rewrite Hty, Heq. reflexivity.
Qed.

Theorem extremum_list_mixed_partial : forall cmp invert i els x,
  cmp = MGt \/ cmp = MLt ->
  node_is_aoh true (NSeq i els) = false ->
  (forall v c, In (Some v, c) (map (list_member node_str x) (enumerate els)) -> mixed_num v) ->
  no_cross_equal (map (list_member node_str x) (enumerate els)) = true ->
  exists res,
    extremum lit re_search node_str cmp invert [] (NSeq i els) x = Ok res /\
    forall c, In c res <-> selected cmp invert (map (list_member node_str x) (enumerate els)) c.
Proof.
  intros cmp invert i els x Hc Haoh HP Hg.
  destruct (extremum_list_mixed cmp invert i els x Hc Haoh HP) as [res [E Hres]].
  exists res. split; [exact E|]. intros c. rewrite Hres. apply mixed_selected_partial; assumption.
Qed.

Theorem extremum_aoh_mixed_partial : forall cmp invert attr i els x,
  cmp = MGt \/ cmp = MLt ->
  node_is_aoh true (NSeq i els) = true ->
  (forall v c, In (Some v, c) (map (aoh_member node_str attr x) (enumerate els)) -> mixed_num v) ->
  no_cross_equal (map (aoh_member node_str attr x) (enumerate els)) = true ->
  exists res,
    extremum lit re_search node_str cmp invert [attr] (NSeq i els) x = Ok res /\
    forall c, In c res <-> selected cmp invert (map (aoh_member node_str attr x) (enumerate els)) c.
Proof.
  intros cmp invert attr i els x Hc Haoh HP Hg.
  destruct (extremum_aoh_mixed cmp invert attr i els x Hc Haoh HP) as [res [E Hres]].
  exists res. split; [exact E|]. intros c. rewrite Hres. apply mixed_selected_partial; assumption.
Qed.

Theorem extremum_hoh_mixed_partial : forall cmp invert attr i kvs x,
  cmp = MGt \/ cmp = MLt ->
  forallb (fun kv => is_map (snd kv)) kvs = true ->
  (forall v c, In (Some v, c) (map (hoh_member node_str attr x) kvs) -> mixed_num v) ->
  no_cross_equal (map (hoh_member node_str attr x) kvs) = true ->
  exists res,
    extremum lit re_search node_str cmp invert [attr] (NMap i kvs) x = Ok res /\
    forall c, In c res <-> selected cmp invert (map (hoh_member node_str attr x) kvs) c.
Proof.
  intros cmp invert attr i kvs x Hc Hh HP Hg.
  destruct (extremum_hoh_mixed cmp invert attr i kvs x Hc Hh HP) as [res [E Hres]].
  exists res. split; [exact E|]. intros c. rewrite Hres. apply mixed_selected_partial; assumption.
Qed.

(* ---------- same-kind lists without a hypothesis about typed readings ---------- *)
Lemma float_same_kind : forall q r, bool_spelling r = None -> same_kind lit SKFloat (PFloat q r).
Proof. intros q r H. split; [exists q, r; reflexivity|apply typed_value_float; exact H]. Qed.

Lemma text_same_kind : forall t, bool_spelling t = None -> lit_rejects lit t -> same_kind lit SKText (PStr t).
Proof. intros t H R. split; [exists t; reflexivity|apply typed_value_text; assumption]. Qed.

(* a list of floats (nulls allowed): the only hypothesis left is that no repr spells true / false *)
Lemma extremum_list_floats : forall cmp invert i els x,
  cmp = MGt \/ cmp = MLt ->
  node_is_aoh true (NSeq i els) = false ->
  (forall v c, In (Some v, c) (map (list_member node_str x) (enumerate els)) ->
               exists q r, v = PFloat q r /\ bool_spelling r = None) ->
  exists res,
    extremum lit re_search node_str cmp invert [] (NSeq i els) x = Ok res /\
    forall c, In c res <-> selected cmp invert (map (list_member node_str x) (enumerate els)) c.
Proof.
  intros cmp invert i els x Hc Haoh HP.
  apply (extremum_list_kind lit re_search node_str (NLeaf (mkinfo 0 None false None) PNone) cmp SKFloat Hc invert i els x Haoh).
  intros v c Hi. destruct (HP v c Hi) as [q [r [-> H]]]. apply float_same_kind. exact H.
Qed.

(* a list of text (nulls allowed) that ast.literal_eval rejects and that spells no boolean *)
Lemma extremum_list_words : forall cmp invert i els x,
  cmp = MGt \/ cmp = MLt ->
  node_is_aoh true (NSeq i els) = false ->
  (forall v c, In (Some v, c) (map (list_member node_str x) (enumerate els)) ->
               exists t, v = PStr t /\ bool_spelling t = None /\ lit_rejects lit t) ->
  exists res,
    extremum lit re_search node_str cmp invert [] (NSeq i els) x = Ok res /\
    forall c, In c res <-> selected_by text_le cmp invert (map (list_member node_str x) (enumerate els)) c.
Proof.
  intros cmp invert i els x Hc Haoh HP.
  apply (extremum_list_kind lit re_search node_str (NLeaf (mkinfo 0 None false None) PNone) cmp SKText Hc invert i els x Haoh).
  intros v c Hi. destruct (HP v c Hi) as [t [-> [H R]]]. apply text_same_kind; assumption.
Qed.

End Mixed.

(* ---------- the witness: x: [5, 5.0] ---------- *)
Definition mx_lit : string -> outcome litres := lit_of_table [].
Definition mx_re : string -> string -> outcome reres := re_of_table [].
Definition mx_str (_ : node) : string := "?".
Definition mx_els : list node :=
  [NLeaf (mkinfo 5 None false None) (PInt 5); NLeaf (mkinfo 6 None false None) (PFloat 5 "5.0")].
Definition mx_list : node := NSeq (mkinfo 2 None true None) mx_els.
Definition mx_ctx : kctx :=
  mkkctx [RKey (PStr "x")] (Some []) (Some (RKey (PStr "x"))) [RKey (PStr "x")] [([], RKey (PStr "x"))].
Definition mx_ms : list mem := map (list_member mx_str mx_ctx) (enumerate mx_els).

Lemma mx_hyps :
  node_is_aoh true mx_list = false /\
  (forall v c, In (Some v, c) mx_ms -> mixed_num v) /\
  no_cross_equal mx_ms = false.
Proof.
  split; [reflexivity|]. split; [|vm_compute; reflexivity].
  intros v c H. cbv in H. destruct H as [H|[H|H]]; try contradiction; inversion H; subst.
  - left. eexists; reflexivity.
  - right. eexists. eexists. split; [reflexivity|vm_compute; reflexivity].
Qed.

(* both members are greatest; max() yields only the first *)
Lemma mixed_refuted :
  exists res,
    kw_max mx_lit mx_re mx_str false [] mx_list mx_ctx = Ok res /\
    exists c, max_members coords num_key mx_ms c /\ ~ In c res.
Proof.
  eexists. split; [vm_compute; reflexivity|].
  exists (child_coords mx_ctx (RIdx 1)). split.
  - exists (PFloat 5 "5.0"). split; [right; left; reflexivity|].
    intros w c H. cbv in H. destruct H as [H|[H|H]]; try contradiction; inversion H; subst;
      unfold num_le, num_key; cbn; unfold Qle; cbn; lia.
  - vm_compute. intros [H|[]]. discriminate.
Qed.
