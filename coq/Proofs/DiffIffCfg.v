(* C06 for an ARBITRARY resolved configuration ([rules] choose the modes per
   list, [keys] the identity keys per list / per record): the diff contains a
   non-SAME entry exactly when the documents differ under the equivalence the
   configuration induces ([equiv_c]), under the guard [kguard_c] of finding F4
   (keyed lists only).  Part 1: vocabulary, the greedy synchroniser by an
   arbitrary matching relation, the model's matching = the spec's [id_match]. *)
From Coq Require Import List Ascii String ZArith NArith Bool Arith Lia Permutation.
From YP Require Import Outcome PyStr PyVal Doc Diff C06Spec DiffBase DiffEq DiffKeys DiffSync DiffSym DiffAcct
  DiffKSync DiffCover DiffIff.
Import ListNotations.
Open Scope nat_scope.

(* ---- unfolding the two fixpoints of the spec ---- *)
Fixpoint forall2i {A} (f : nat -> A -> A -> bool) (n : nat) (l l' : list A) : bool :=
  match l, l' with
  | [], [] => true
  | x :: r, y :: r' => f n x y && forall2i f (S n) r r'
  | _, _ => false
  end.
Fixpoint zipalli {A} (f : nat -> A -> A -> bool) (n : nat) (l l' : list A) : bool :=
  match l, l' with
  | x :: r, y :: r' => f n x y && zipalli f (S n) r r'
  | _, _ => true
  end.

Definition pidx (n : nat) : pyval := PInt (Z.of_nat n).

Definition keyed_eqc (cfg : dcfg) (b : node) (d : bool) (els els' : list node) : bool :=
  let K0 := list_key cfg b els' in
  Nat.eqb (List.length els) (List.length els') &&
  forallb (fun x => existsb (fun p => id_match cfg b K0 x p &&
                                      (if d then equiv_c cfg x (snd p) (Some b) (pidx (fst p))
                                       else data_eq x (snd p))) (enumerate els')) els.

Lemma equiv_c_map : forall cfg i kvs j kvs' par pref,
  equiv_c cfg (NMap i kvs) (NMap j kvs') par pref =
  tag_eqb (tag i) (tag j) && Nat.eqb (List.length kvs) (List.length kvs') &&
  forallb (fun kv => existsb (fun kv' => py_eq (leaf_value (fst kv)) (leaf_value (fst kv'))
                                        && equiv_c cfg (snd kv) (snd kv') (Some (NMap j kvs')) (leaf_value (fst kv'))) kvs') kvs.
Proof. reflexivity. Qed.

Lemma equiv_c_seq : forall cfg i els j els' par pref,
  equiv_c cfg (NSeq i els) (NSeq j els') par pref =
  tag_eqb (tag i) (tag j) &&
  match cfg_list_mode cfg (NSeq j els', par, pref) els' with
  | Some (LPos true) => forall2i (fun n x y => equiv_c cfg x y (Some (NSeq j els')) (pidx n)) 0 els els'
  | Some (LPos false) => forall2b data_eq els els'
  | Some LValue => bag_eqb data_eq els els'
  | Some (LKey d) => keyed_eqc cfg (NSeq j els') d els els'
  | None => forall2b data_eq els els'
  end.
Proof.
  intros. cbn [equiv_c]. f_equal. set (b := NSeq j els').
  destruct (cfg_list_mode cfg (b, par, pref) els') as [[[|]| |d]|]; auto.
  generalize 0 as n0. generalize els' as l'.
  induction els as [|x r IH]; destruct l'; intros n0; simpl; auto. rewrite IH. reflexivity.
Qed.

Definition kdeep_c (cfg : dcfg) (b : node) (els els' : list node) : bool :=
  let K0 := list_key cfg b els' in
  forallb (fun x => forallb (fun p => if id_match cfg b K0 x p
                                      then kguard_c cfg x (snd p) (Some b) (pidx (fst p))
                                      else true) (enumerate els')) els.

Fixpoint kvalue_c (cfg : dcfg) (b : node) (l : list node) (red : list (nat * node)) : bool :=
  match l with
  | [] => true
  | x :: r =>
      match extract_first (fun p => data_eq (snd p) x) red with
      | Some (p, red') => kguard_c cfg x (snd p) (Some b) (pidx (fst p)) && kvalue_c cfg b r red'
      | None => kvalue_c cfg b r red
      end
  end.

Lemma kguard_c_map : forall cfg i kvs j kvs' par pref,
  kguard_c cfg (NMap i kvs) (NMap j kvs') par pref =
  forallb (fun kv => forallb (fun kv' => if py_eq (leaf_value (fst kv)) (leaf_value (fst kv'))
                                         then kguard_c cfg (snd kv) (snd kv') (Some (NMap j kvs')) (leaf_value (fst kv'))
                                         else true) kvs') kvs.
Proof. reflexivity. Qed.

Lemma kguard_c_seq : forall cfg i els j els' par pref,
  kguard_c cfg (NSeq i els) (NSeq j els') par pref =
  match cfg_list_mode cfg (NSeq j els', par, pref) els' with
  | Some (LPos true) => zipalli (fun n x y => kguard_c cfg x y (Some (NSeq j els')) (pidx n)) 0 els els'
  | Some (LPos false) => true
  | Some LValue => kvalue_c cfg (NSeq j els') els (enumerate els')
  | Some (LKey d) => keyed_pair cfg (NSeq j els') els els' &&
                     (if d then kdeep_c cfg (NSeq j els') els els' else true)
  | None => true
  end.
Proof.
  intros. cbn [kguard_c]. set (b := NSeq j els').
  destruct (cfg_list_mode cfg (b, par, pref) els') as [[[|]| |d]|]; auto.
  - generalize 0 as n0. generalize els' as l'.
    induction els as [|x r IH]; destruct l'; intros n0; simpl; auto. rewrite IH. reflexivity.
  - generalize (enumerate els'). 
    induction els as [|x r IH]; intros red; simpl; auto.
    destruct (extract_first (fun p => data_eq (snd p) x) red) as [[p red']|]; rewrite IH; reflexivity.
Qed.

(* ---- the greedy synchroniser by an arbitrary matching relation ---- *)
Section GSync.
  Variable M : node -> nat * node -> bool.

  Fixpoint gsync (lhs red : list (nat * node)) : list spair :=
    match lhs with
    | [] => leftover red
    | (li, le) :: rest =>
        match extract_first (M le) red with
        | Some ((ri, re), red') => (Some li, le, Some ri, re) :: gsync rest red'
        | None => (Some li, le, None, none_node) :: gsync rest red
        end
    end.

  Inductive gshape (lhs red : list (nat * node)) : spair -> Prop :=
  | gs_both : forall li le ri re, In (li, le) lhs -> In (ri, re) red -> M le (ri, re) = true ->
      gshape lhs red (Some li, le, Some ri, re)
  | gs_left : forall li le, In (li, le) lhs -> (forall p, In p red -> M le p = false) ->
      gshape lhs red (Some li, le, None, none_node)
  | gs_right : forall ri re, In (ri, re) red -> (forall x, In x lhs -> M (snd x) (ri, re) = false) ->
      gshape lhs red (None, none_node, Some ri, re).

  (* the matching pairs the records one to one *)
  Definition uniq_l (lhs red : list (nat * node)) : Prop :=
    forall x p1 p2, In x lhs -> In p1 red -> In p2 red ->
      M (snd x) p1 = true -> M (snd x) p2 = true -> p1 = p2.
  Definition uniq_r (lhs red : list (nat * node)) : Prop :=
    forall p x1 x2, In p red -> In x1 lhs -> In x2 lhs ->
      M (snd x1) p = true -> M (snd x2) p = true -> x1 = x2.

  Lemma gsync_shape : forall lhs red,
    NoDup (map fst lhs) -> NoDup (map fst red) -> uniq_l lhs red -> uniq_r lhs red ->
    forall p, In p (gsync lhs red) -> gshape lhs red p.
  Proof.
    induction lhs as [|[li le] rest IH]; simpl; intros red Nl Nr UL UR p Hp.
    - unfold leftover in Hp. apply in_map_iff in Hp. destruct Hp as [[ri re] [<- Hin]].
      apply gs_right; auto. intros x [].
    - inversion Nl as [|? ? Nli Nrest]; subst.
      destruct (extract_first (M le) red) as [[[ri re] red']|] eqn:Ex.
      + destruct (extract_first_perm _ _ _ _ Ex) as [P Fx].
        assert (Sub : forall x, In x red' -> In x red).
        { intros x Hx. eapply Permutation_in; [apply Permutation_sym; exact P | right; exact Hx]. }
        assert (Hre : In (ri, re) red).
        { eapply Permutation_in; [apply Permutation_sym; exact P | left; reflexivity]. }
        assert (Nr' : NoDup (map fst ((ri, re) :: red'))).
        { eapply Permutation_NoDup; [apply Permutation_map; exact P | exact Nr]. }
        inversion Nr' as [|? ? Nri Nred']; subst.
        destruct Hp as [<-|Hp].
        * apply gs_both; [left; reflexivity | exact Hre | exact Fx].
        * assert (UL' : uniq_l rest red').
          { intros x p1 p2 Hx H1 H2. apply UL; auto. right; exact Hx. }
          assert (UR' : uniq_r rest red').
          { intros q x1 x2 Hq H1 H2. apply UR; auto; right; assumption. }
          destruct (IH red' Nrest Nred' UL' UR' p Hp) as [li' le' ri' re' H1 H2 H3|li' le' H1 H2|ri' re' H1 H2].
          -- apply gs_both; [right; exact H1 | apply Sub; exact H2 | exact H3].
          -- apply gs_left; [right; exact H1|]. intros q Hq.
             assert (Hq' : In q ((ri, re) :: red')) by (eapply Permutation_in; [exact P | exact Hq]).
             destruct Hq' as [<-|Hq']; auto.
             destruct (M le' (ri, re)) eqn:E; auto. exfalso.
             assert (X : (li, le) = (li', le')).
             { apply (UR (ri, re) (li, le) (li', le')); auto; [left; reflexivity | right; exact H1]. }
             inversion X; subst. apply Nli. apply in_map_iff. exists (li', le'). auto.
          -- apply gs_right; [apply Sub; exact H1|]. intros x [<-|Hx]; [|apply H2; exact Hx]. simpl.
             destruct (M le (ri', re')) eqn:E; auto. exfalso.
             assert (X : (ri, re) = (ri', re')).
             { apply (UL (li, le) (ri, re) (ri', re')); auto. left; reflexivity. }
             inversion X; subst. apply Nri. apply in_map_iff. exists (ri', re'). auto.
      + pose proof (extract_first_none _ _ Ex) as Fn.
        destruct Hp as [<-|Hp].
        * apply gs_left; [left; reflexivity | exact Fn].
        * assert (UL' : uniq_l rest red).
          { intros x p1 p2 Hx H1 H2. apply UL; auto. right; exact Hx. }
          assert (UR' : uniq_r rest red).
          { intros q x1 x2 Hq H1 H2. apply UR; auto; right; assumption. }
          destruct (IH red Nrest Nr UL' UR' p Hp) as [li' le' ri' re' H1 H2 H3|li' le' H1 H2|ri' re' H1 H2].
          -- apply gs_both; [right; exact H1 | exact H2 | exact H3].
          -- apply gs_left; [right; exact H1 | exact H2].
          -- apply gs_right; [exact H1|]. intros x [<-|Hx]; [|apply H2; exact Hx]. simpl. apply Fn; auto.
  Qed.

  (* without the uniqueness: a matched tuple is a matching pair of the two lists *)
  Lemma gsync_both : forall lhs red li le ri re,
    In (Some li, le, Some ri, re) (gsync lhs red) ->
    In (li, le) lhs /\ In (ri, re) red /\ M le (ri, re) = true.
  Proof.
    induction lhs as [|[i x] rest IH]; simpl; intros red li le ri re H.
    - unfold leftover in H. apply in_map_iff in H. destruct H as [[n y] [E _]]. discriminate.
    - destruct (extract_first (M x) red) as [[[rj ry] red']|] eqn:Ex.
      + destruct (extract_first_perm _ _ _ _ Ex) as [P Fx].
        destruct H as [H|H].
        * inversion H; subst. split; auto. split; auto.
          eapply Permutation_in; [apply Permutation_sym; exact P | left; reflexivity].
        * destruct (IH _ _ _ _ _ H) as [A [B C]]. split; auto. split; auto.
          eapply Permutation_in; [apply Permutation_sym; exact P | right; exact B].
      + destruct H as [H|H]; [discriminate|]. destruct (IH _ _ _ _ _ H) as [A [B C]]. auto.
  Qed.
End GSync.

Lemma gsync_ext : forall M M' lhs red,
  (forall x p, In x lhs -> In p red -> M (snd x) p = M' (snd x) p) ->
  gsync M lhs red = gsync M' lhs red.
Proof.
  intros M M'. induction lhs as [|[li le] rest IH]; simpl; intros red H; auto.
  rewrite (extract_first_ext (M le) (M' le) red) by (intros p Hp; apply (H (li, le) p); auto).
  destruct (extract_first (M' le) red) as [[[ri re] red']|] eqn:Ex.
  - f_equal. apply IH. intros x p Hx Hp. apply H; auto.
    destruct (extract_first_perm _ _ _ _ Ex) as [P _].
    eapply Permutation_in; [apply Permutation_sym; exact P | right; exact Hp].
  - f_equal. apply IH. intros x p Hx Hp. apply H; auto.
Qed.

(* the model's synchroniser is the greedy one for its own matching test *)
Definition model_match (c : dcfg) (r K : node) (le : node) (p : nat * node) : bool :=
  match node_map_items le with Some lkvs => map_has K lkvs | None => false end && key_match c r K le p.

Lemma extract_first_false {A} : forall (l : list A), extract_first (fun _ => false) l = None.
Proof. induction l as [|x r IH]; simpl; auto. rewrite IH. reflexivity. Qed.

Lemma sync_key_go_gsync : forall c r K lhs red,
  sync_key_go c r K lhs red = gsync (model_match c r K) lhs red.
Proof.
  intros c r K. induction lhs as [|[li le] rest IH]; simpl; intros red; auto.
  unfold model_match at 1.
  destruct (match node_map_items le with Some lkvs => map_has K lkvs | None => false end); simpl.
  - destruct (extract_first (key_match c r K le) red) as [[[ri re] red']|]; rewrite IH; reflexivity.
  - rewrite extract_first_false, IH. reflexivity.
Qed.

(* ---- the model's matching test is the spec's [id_match] on real records ---- *)
Lemma aoh_diff_key_plain : forall c nc alt, aoh_diff_key c nc = (alt, true) -> plain_leaf alt = true.
Proof.
  intros c [[n p] r] alt H. unfold aoh_diff_key in H.
  match type of H with (if ?X then _ else _) = _ => destruct X end.
  - inversion H; subst. reflexivity.
  - destruct n as [|i [|kv kvs]| |]; inversion H; subst; reflexivity.
Qed.

Lemma rec_key_plain : forall c r K0 ri re, plain_leaf K0 = true -> plain_leaf (rec_key c r K0 ri re) = true.
Proof.
  intros c r K0 ri re H. unfold rec_key.
  destruct (aoh_diff_key c (re, Some r, PInt (Z.of_nat ri))) as [alt [|]] eqn:E; simpl; auto.
  destruct (py_truthy (leaf_value alt)); auto. eapply aoh_diff_key_plain; eauto.
Qed.

Lemma field_get : forall K i kvs, okd (NMap i kvs) -> plain_leaf K = true ->
  map_get K kvs = field K (NMap i kvs).
Proof.
  intros K i kvs W PK. destruct (wf_map_inv _ _ W) as [Kp _]. simpl.
  rewrite (map_get_assoc _ _ Kp PK). reflexivity.
Qed.

Lemma field_okd : forall K x v, okd x -> field K x = Some v -> okd v.
Proof.
  intros K x v W H. destruct x as [|i kvs| |]; simpl in H; try discriminate.
  destruct (assoc_key_some_in _ _ _ H) as [kn Hin].
  apply (okd_child (NMap i kvs)); auto. simpl. apply in_map_iff. exists (kn, v). auto.
Qed.

Lemma model_match_spec : forall c r K0 le ri re,
  okd le -> okd re -> plain_leaf K0 = true ->
  model_match c r K0 le (ri, re) = id_match c r K0 le (ri, re).
Proof.
  intros c r K0 le ri re Wl Wr PK. unfold model_match, id_match, key_match, has_field.
  pose proof (rec_key_plain c r K0 ri re PK) as PK'. unfold rec_key in *. cbn [fst snd].
  change key_val with leaf_value.
  destruct (aoh_diff_key c (re, Some r, PInt (Z.of_nat ri))) as [alt is_user].
  set (K := if is_user && py_truthy (leaf_value alt) then alt else K0) in *.
  destruct le as [il vl|il lkvs|il lels|il lels]; try reflexivity.
  simpl node_map_items. unfold map_has. rewrite (field_get K0 il lkvs Wl PK).
  destruct (field K0 (NMap il lkvs)) as [f0|]; [|reflexivity]. rewrite !andb_true_l.
  destruct re as [ir vr|ir rkvs|ir rels|ir rels]; try reflexivity.
  simpl node_map_items. cbv iota beta.
  rewrite (field_get K ir rkvs Wr PK'), (field_get K il lkvs Wl PK').
  destruct (field K (NMap ir rkvs)) as [rv|] eqn:Fr; auto.
  destruct (field K (NMap il lkvs)) as [lv|] eqn:Fl; auto.
  apply okd_eq; [apply (field_okd K _ _ Wr Fr) | apply (field_okd K _ _ Wl Fl)].
Qed.

(* ---- under the guard, exact equality implies the configured equivalence ---- *)
Lemma data_eq_field : forall K x y v, okd x -> okd y -> data_eq x y = true ->
  field K y = Some v -> exists u, field K x = Some u /\ data_eq v u = true.
Proof.
  intros K x y v Wx Wy D F.
  destruct y as [|j kvs'| |]; simpl in F; try discriminate.
  destruct x as [|i kvs| |]; try discriminate D.
  pose proof (data_eq_sym _ _ Wx Wy D) as D'.
  destruct (wf_map_inv _ _ Wx) as [Xp [Xn _]]. destruct (wf_map_inv _ _ Wy) as [Yp _].
  rewrite data_eq_map in D'. apply andb_true_iff in D'. destruct D' as [_ G]. rewrite forallb_forall in G.
  destruct (child_map_item _ _ _ Yp F) as [k [Hk Ek]].
  specialize (G _ Hk). apply existsb_exists in G. destruct G as [[k' u] [Hk' X]]. simpl in X.
  apply andb_true_iff in X. destruct X as [X1 X2].
  exists u. split; auto. simpl.
  assert (E : py_eq (key_val k') (leaf_value K) = true).
  { eapply py_eq_trans; [apply py_eq_sym; exact X1 | exact Ek]. }
  rewrite <- (assoc_key_congr kvs _ _ E). apply (assoc_key_in kvs k' u Xp Xn Hk').
Qed.

Lemma forall2b_enum {A} (f : A -> A -> bool) : forall l l' i, forall2b f l l' = true ->
  forall x, In x l -> exists n y, In (n, y) (enumerate_from i l') /\ f x y = true.
Proof.
  induction l as [|a r IH]; destruct l' as [|b r']; simpl; intros i H x Hx; try discriminate; try contradiction.
  apply andb_true_iff in H. destruct H as [H1 H2]. destruct Hx as [<-|Hx].
  - exists i, b. auto.
  - destruct (IH r' (S i) H2 x Hx) as [n [y [Hy Fy]]]. exists n, y. auto.
Qed.

Lemma forall2b_2i {A} (f : A -> A -> bool) (g h : nat -> A -> A -> bool) : forall l l' n,
  (forall k x y, In x l -> In y l' -> g k x y = true -> f x y = true -> h k x y = true) ->
  zipalli g n l l' = true -> forall2b f l l' = true -> forall2i h n l l' = true.
Proof.
  induction l as [|x r IH]; destruct l' as [|y r']; simpl; intros n Hs G H; auto.
  apply andb_true_iff in G. destruct G as [G1 G2]. apply andb_true_iff in H. destruct H as [H1 H2].
  apply andb_true_iff. split.
  - apply Hs; auto.
  - apply IH; auto.
Qed.

Lemma in_enumerate_from_elem {A} : forall (l : list A) i n x, In (n, x) (enumerate_from i l) -> In x l.
Proof.
  induction l as [|y r IH]; simpl; intros i n x H; [contradiction|].
  destruct H as [H|H]; [inversion H; subst; auto | right; eapply IH; eauto].
Qed.

Theorem data_eq_equiv_c : forall cfg a b par pref,
  wf_doc a = true -> wf_doc b = true -> kguard_c cfg a b par pref = true ->
  data_eq a b = true -> equiv_c cfg a b par pref = true.
Proof.
  intros cfg.
  induction a as [i v|i kvs IH|i els IH|i els IH] using node_ind'; intros b par pref Hwa Hwb HG H;
    destruct b as [j w|j kvs'|j els'|j els']; try discriminate; try exact H.
  - rewrite data_eq_map in H. rewrite equiv_c_map. rewrite kguard_c_map in HG. rewrite forallb_forall in HG.
    apply andb_true_iff in H. destruct H as [H H3]. rewrite H. simpl.
    destruct (wf_map_inv _ _ Hwa) as [_ [_ Av]]. destruct (wf_map_inv _ _ Hwb) as [Bp [Bn Bv]].
    apply forallb_forall. intros kv Hkv. rewrite forallb_forall in H3. specialize (H3 kv Hkv).
    apply existsb_exists in H3. destruct H3 as [kv' [Hkv' X]]. apply andb_true_iff in X. destruct X as [X1 X2].
    apply existsb_exists. exists kv'. split; auto. rewrite X1. simpl.
    rewrite Forall_forall in IH. destruct (IH kv Hkv) as [_ IHv]. apply IHv; auto.
    specialize (HG kv Hkv). rewrite forallb_forall in HG. specialize (HG kv' Hkv'). rewrite X1 in HG. exact HG.
  - rewrite data_eq_seq in H. rewrite equiv_c_seq. rewrite kguard_c_seq in HG.
    apply andb_true_iff in H. destruct H as [H1 H2]. rewrite H1. simpl.
    pose proof (wf_seq_inv _ _ Hwa) as Aw. pose proof (wf_seq_inv _ _ Hwb) as Bw.
    rewrite Forall_forall in IH. set (b := NSeq j els') in *.
    destruct (cfg_list_mode cfg (b, par, pref) els') as [[[|]| |d]|] eqn:M.
    + eapply forall2b_2i; [|exact HG|exact H2]. intros k x y Hx Hy G D. apply IH; auto.
    + exact H2.
    + apply forall2b_bag; auto. intros x y Hx Hy D. apply data_eq_sym; auto.
    + unfold keyed_eqc. apply andb_true_iff in HG. destruct HG as [KP KD].
      unfold keyed_pair in KP. apply andb_true_iff in KP. destruct KP as [KP _].
      apply andb_true_iff in KP. destruct KP as [KF _]. rewrite forallb_forall in KF.
      rewrite (forall2b_length _ _ _ H2), Nat.eqb_refl. simpl.
      apply forallb_forall. intros x Hx.
      destruct (forall2b_enum _ _ _ 0 H2 x Hx) as [n [y [Hy D]]]. fold (enumerate els') in Hy.
      pose proof (in_enumerate_from_elem _ _ _ _ Hy) as Hy'.
      apply existsb_exists. exists (n, y). split; auto.
      specialize (KF (n, y) Hy). cbn [fst snd] in KF. apply andb_true_iff in KF. destruct KF as [F0 F1].
      assert (Im : id_match cfg b (list_key cfg b els') x (n, y) = true).
      { unfold id_match. cbn [fst snd]. unfold has_field in *.
        destruct (field (list_key cfg b els') y) as [v0|] eqn:E0; try discriminate.
        destruct (data_eq_field _ x y v0 (Aw x Hx) (Bw y Hy') D E0) as [u0 [Eu0 _]]. rewrite Eu0. simpl.
        destruct (field (rec_key cfg b (list_key cfg b els') n y) y) as [v1|] eqn:E1; try discriminate.
        destruct (data_eq_field _ x y v1 (Aw x Hx) (Bw y Hy') D E1) as [u1 [Eu1 Du1]]. rewrite Eu1. exact Du1. }
      rewrite Im. simpl. destruct d; [|exact D].
      apply IH; auto. unfold kdeep_c in KD. rewrite forallb_forall in KD. specialize (KD x Hx).
      rewrite forallb_forall in KD. specialize (KD (n, y) Hy). rewrite Im in KD. exact KD.
    + exact H2.
Qed.

(* ---- small tools ---- *)
Lemma at_most_one_eq {A} (f : A -> bool) : forall l a b,
  at_most_one f l = true -> In a l -> In b l -> f a = true -> f b = true -> a = b.
Proof.
  intros l a b H Ha Hb Fa Fb. unfold at_most_one in H.
  assert (Ia : In a (filter f l)) by (apply filter_In; auto).
  assert (Ib : In b (filter f l)) by (apply filter_In; auto).
  destruct (filter f l) as [|c [|c' t]]; simpl in *; try contradiction; try discriminate.
  destruct Ia as [<-|[]]. destruct Ib as [<-|[]]. reflexivity.
Qed.

Lemma inj_rel_le {A B} (R : A -> B -> Prop) : forall (l : list A) (r : list B),
  NoDup l -> (forall a, In a l -> exists b, In b r /\ R a b) ->
  (forall a1 a2 b, In a1 l -> In a2 l -> R a1 b -> R a2 b -> a1 = a2) ->
  List.length l <= List.length r.
Proof.
  induction l as [|a l' IH]; simpl; intros r N Hp Hi; [lia|].
  inversion N as [|? ? Na Nl]; subst.
  destruct (Hp a (or_introl eq_refl)) as [b [Hb Rab]].
  destruct (in_split _ _ Hb) as [r1 [r2 ->]].
  assert (L : List.length l' <= List.length (r1 ++ r2)).
  { apply IH; auto.
    - intros a' Ha'. destruct (Hp a' (or_intror Ha')) as [b' [Hb' Rb']].
      exists b'. split; auto. apply in_app_or in Hb'. apply in_or_app.
      destruct Hb' as [H|[H|H]]; auto. subst b'. exfalso. apply Na.
      rewrite (Hi a a' b (or_introl eq_refl) (or_intror Ha') Rab Rb'). exact Ha'.
    - intros a1 a2 b0 H1 H2. apply Hi; right; assumption. }
  rewrite app_length in *. simpl. lia.
Qed.

Lemma enumerate_from_fst {A} : forall (l : list A) i, map fst (enumerate_from i l) = seq i (List.length l).
Proof. induction l as [|x r IH]; simpl; intros i; auto. rewrite IH. reflexivity. Qed.

Lemma enumerate_nodup_fst {A} : forall (l : list A), NoDup (map fst (enumerate l)).
Proof. intros l. unfold enumerate. rewrite enumerate_from_fst. apply seq_NoDup. Qed.

Lemma enumerate_nodup {A} : forall (l : list A), NoDup (enumerate l).
Proof. intros l. eapply NoDup_map_inv. apply enumerate_nodup_fst. Qed.

Lemma in_enumerate_elem {A} : forall (l : list A) n x, In (n, x) (enumerate l) -> In x l.
Proof. intros l n x H. eapply in_enumerate_from_elem; eauto. Qed.

Lemma list_key_plain : forall cfg r rels, (forall y, In y rels -> okd y) -> plain_leaf (list_key cfg r rels) = true.
Proof.
  intros cfg r rels W. unfold list_key. destruct rels as [|[|i0 kvs0| |] rr]; try reflexivity.
  destruct (aoh_diff_key cfg (NMap i0 kvs0, Some r, PInt 0)) as [alt [|]] eqn:E; simpl.
  - eapply aoh_diff_key_plain; eauto.
  - unfold aoh_diff_key in E.
    match type of E with (if ?X then _ else _) = _ => destruct X end; [inversion E|].
    destruct kvs0 as [|kv kvs]; inversion E; subst.
    pose proof (W _ (or_introl eq_refl)) as W0. destruct (wf_map_inv _ _ W0) as [Kp _].
    simpl in Kp. apply andb_true_iff in Kp. tauto.
Qed.

Lemma sync_key_list_key : forall cfg r lels rels,
  sync_key cfg r lels rels = sync_key_go cfg r (list_key cfg r rels) (enumerate lels) (enumerate rels).
Proof. intros. unfold sync_key, list_key. destruct rels as [|[| | |] rr]; reflexivity. Qed.

(* which comparer _diff_lists runs, by the configuration's own lookups *)
Lemma lists_dispatch_c : forall path_eq cfg rec path q l r lels rels par pref a a',
  opt_str_eqb (tag (node_info l)) (tag (node_info r)) = true ->
  diff_lists path_eq cfg rec path q l r lels rels par pref a = Ok a' ->
  exists m, cfg_list_mode cfg (r, par, pref) rels = Some m /\
    match m with
    | LPos d => zip_go rec d path q r 0 lels rels a
    | LValue => diff_synced path_eq rec path q r lels rels a
    | LKey d => foldM (key_fold rec d path q r) (sync_key cfg r lels rels) a
    end = Ok a'.
Proof.
  intros path_eq cfg rec path q l r lels rels par pref a a' Ht H.
  unfold diff_lists in H. rewrite Ht in H. cbn [negb] in H. unfold diff_aoh, diff_arrays, cfg_list_mode in *.
  destruct rels as [|[ | | | ] rr].
  1-2,4-5: destruct (array_diff_mode cfg (r, par, pref)) as [[|]| |]; simpl in H; try discriminate H.
  1-8: eexists; split; [reflexivity | exact H].
  destruct (aoh_diff_mode cfg (r, par, pref)) as [[| | | |]| |]; simpl in H; try discriminate H.
  1,3,5: eexists; split; [reflexivity | exact H].
  1-2: destruct (array_diff_mode cfg (r, par, pref)) as [[|]| |]; simpl in H; try discriminate H.
  1-4: eexists; split; [reflexivity | exact H].
Qed.

Lemma kguard_c_leaf : forall cfg a b par pref, plain_leaf a = true -> kguard_c cfg a b par pref = true.
Proof. intros cfg a b par pref H. destruct a; try discriminate H. reflexivity. Qed.

Lemma equiv_c_leaves : forall cfg a b par pref, plain_leaf a = true -> plain_leaf b = true ->
  py_eq (key_val a) (key_val b) = true -> equiv_c cfg a b par pref = true.
Proof.
  intros cfg a b par pref Pa Pb H.
  destruct (plain_leaf_inv _ Pa) as [i [v [-> Ti]]]. destruct (plain_leaf_inv _ Pb) as [j [w [-> Tj]]].
  simpl in *. rewrite Ti, Tj. simpl. exact H.
Qed.

Section IffC.
  Variable path_eq : string -> string -> outcome bool.
  Variable cfg : dcfg.

  Notation E := (equiv_c cfg).
  Notation KGc := (fun l r par pref => kguard_c cfg l r par pref = true).

  Definition rec_iffc (rec : rec_t) : Prop :=
    forall path q l r par pref a a',
      okd l -> okd r -> kguard_c cfg l r par pref = true ->
      rec path q l r par pref a = Ok a' -> SD a' = SD a || negb (E l r par pref).

  (* ---- mappings ---- *)
  Definition gsharedc (r : node) (lkvs : list (node * node)) (kv' : node * node) : bool :=
    match map_get (fst kv') lkvs with
    | Some lv => negb (E lv (snd kv') (Some r) (leaf_value (fst kv')))
    | None => false
    end.

  Lemma dict_equiv_iffc : forall i lkvs j rkvs par pref,
    okd (NMap i lkvs) -> okd (NMap j rkvs) ->
    let adds := filter (fun kv => negb (map_has (fst kv) lkvs)) rkvs in
    let dels := filter (fun kv => negb (map_has (fst kv) rkvs)) lkvs in
    E (NMap i lkvs) (NMap j rkvs) par pref =
    tag_eqb (tag i) (tag j) && negb (nonempty adds || nonempty dels || existsb (gsharedc (NMap j rkvs) lkvs) rkvs).
  Proof.
    intros i lkvs j rkvs par pref HwL HwR adds dels. set (r := NMap j rkvs).
    destruct (wf_map_inv _ _ HwL) as [Lp [Ln Lw]].
    destruct (wf_map_inv _ _ HwR) as [Rp [Rn Rw]].
    assert (Ed : dels = dels_of kkey kkey lkvs rkvs).
    { unfold dels, dels_of. apply filter_ext_in. intros [k v] Hin. simpl.
      assert (Pk : plain_leaf k = true) by (rewrite forallb_forall in Lp; apply (Lp (k, v) Hin)).
      rewrite (map_has_hask _ _ Rp Pk). reflexivity. }
    assert (Ea : adds = filter (fun b => negb (hask kkey (kkey b) lkvs)) rkvs).
    { unfold adds. apply filter_ext_in. intros [k v] Hin. simpl.
      assert (Pk : plain_leaf k = true) by (rewrite forallb_forall in Rp; apply (Rp (k, v) Hin)).
      rewrite (map_has_hask _ _ Lp Pk). reflexivity. }
    pose proof (join_lengths kkey kkey lkvs rkvs Ln Rn) as J. rewrite <- Ed, <- Ea in J.
    assert (Partner : forall k' rv lv, In (k', rv) rkvs -> map_get k' lkvs = Some lv ->
              exists kn, In (kn, lv) lkvs /\ py_eq (key_val kn) (key_val k') = true).
    { intros k' rv lv Hin Eg.
      assert (Pk : plain_leaf k' = true) by (rewrite forallb_forall in Rp; apply (Rp (k', rv) Hin)).
      rewrite (map_get_findk _ _ Lp Pk) in Eg.
      destruct (findk kkey (key_val k') lkvs) as [[kn w]|] eqn:F; simpl in Eg; try discriminate.
      inversion Eg; subst. apply findk_some in F. exists kn. exact F. }
    unfold r at 1. rewrite equiv_c_map. fold r. rewrite <- andb_assoc. f_equal.
    match goal with |- ?X = _ => destruct X eqn:EE end; symmetry.
    - apply andb_true_iff in EE. destruct EE as [Len F]. apply Nat.eqb_eq in Len.
      rewrite forallb_forall in F.
      assert (D0 : dels = []).
      { unfold dels. apply filter_nil_iff. intros [k v] Hin. simpl. apply negb_false_iff.
        assert (Pk : plain_leaf k = true) by (rewrite forallb_forall in Lp; apply (Lp (k, v) Hin)).
        rewrite (map_has_hask _ _ Rp Pk).
        specialize (F (k, v) Hin). apply existsb_exists in F. destruct F as [kv' [Hkv' X]].
        apply andb_true_iff in X. destruct X as [X _]. simpl in X.
        unfold hask. apply existsb_exists. exists kv'. split; auto. apply py_eq_sym. exact X. }
      assert (A0 : adds = []).
      { rewrite D0 in J. simpl in J. destruct adds; auto. simpl in J. lia. }
      rewrite D0, A0. simpl. apply negb_true_iff.
      apply not_true_is_false. intros Hex. apply existsb_exists in Hex. destruct Hex as [[k' rv] [Hin G]].
      unfold gsharedc in G. simpl in G.
      destruct (map_get k' lkvs) as [lv|] eqn:Eg; try discriminate.
      destruct (Partner _ _ _ Hin Eg) as [kn [Hkn Ekn]].
      specialize (F (kn, lv) Hkn). apply existsb_exists in F. destruct F as [kv2 [Hkv2 X]].
      apply andb_true_iff in X. destruct X as [X1 X2]. simpl in X1, X2.
      assert (kv2 = (k', rv)).
      { apply (keyed_uniq kkey rkvs kv2 (k', rv) Rn Hkv2 Hin). unfold kkey. simpl.
        eapply py_eq_trans; [apply py_eq_sym; exact X1 | exact Ekn]. }
      subst kv2. simpl in X2. rewrite X2 in G. discriminate.
    - apply negb_false_iff.
      destruct (nonempty adds || nonempty dels || existsb (gsharedc r lkvs) rkvs) eqn:X; auto.
      exfalso. apply orb_false_iff in X. destruct X as [X G]. apply orb_false_iff in X. destruct X as [A0 D0].
      assert (A1 : adds = []) by (destruct adds; auto; discriminate).
      assert (D1 : dels = []) by (destruct dels; auto; discriminate).
      rewrite A1, D1 in J. simpl in J.
      assert (T : Nat.eqb (List.length lkvs) (List.length rkvs) &&
                  forallb (fun kv => existsb (fun kv' => py_eq (leaf_value (fst kv)) (leaf_value (fst kv'))
                                                        && E (snd kv) (snd kv') (Some r) (leaf_value (fst kv'))) rkvs) lkvs = true).
      { apply andb_true_iff. split; [apply Nat.eqb_eq; lia|].
        apply forallb_forall. intros [k v] Hin.
        assert (Pk : plain_leaf k = true) by (rewrite forallb_forall in Lp; apply (Lp (k, v) Hin)).
        pose proof (proj1 (filter_nil_iff _ lkvs) D1 (k, v) Hin) as Hh. simpl in Hh. apply negb_false_iff in Hh.
        rewrite (map_has_hask _ _ Rp Pk), hask_findk in Hh.
        destruct (findk kkey (key_val k) rkvs) as [[k' rv]|] eqn:F; try discriminate.
        apply findk_some in F. destruct F as [Hin' E']. unfold kkey in E'. simpl in E'.
        assert (Pk' : plain_leaf k' = true) by (rewrite forallb_forall in Rp; apply (Rp (k', rv) Hin')).
        assert (Eg : map_get k' lkvs = Some v).
        { rewrite (map_get_findk _ _ Lp Pk'), (findk_congr kkey _ _ lkvs E').
          change (key_val k) with (kkey (k, v)). rewrite (findk_in kkey lkvs (k, v) Ln Hin). reflexivity. }
        pose proof (existsb_false_in _ _ G (k', rv) Hin') as G1.
        apply existsb_exists. exists (k', rv). split; auto. simpl.
        unfold gsharedc in G1. simpl in G1. rewrite Eg in G1. apply negb_false_iff in G1.
        rewrite G1, andb_true_r. apply py_eq_sym. exact E'. }
      congruence.
  Qed.

  Lemma dicts_iffc : forall rec path q i lkvs j rkvs par pref a a',
    rec_iffc rec -> okd (NMap i lkvs) -> okd (NMap j rkvs) ->
    kguard_c cfg (NMap i lkvs) (NMap j rkvs) par pref = true ->
    diff_dicts rec path q (NMap i lkvs) (NMap j rkvs) lkvs rkvs a = Ok a' ->
    SD a' = SD a || negb (E (NMap i lkvs) (NMap j rkvs) par pref).
  Proof.
    intros rec path q i lkvs j rkvs par pref a a' Hrec OL OR HG H.
    rewrite (dict_equiv_iffc _ _ _ _ par pref OL OR). cbv zeta.
    destruct (wf_map_inv _ _ OL) as [Lp [Ln Lw]].
    destruct (wf_map_inv _ _ OR) as [Rp [Rn Rw]].
    unfold diff_dicts in H. simpl in H. rewrite opt_str_tag_eqb in H.
    destruct (tag_eqb (tag i) (tag j)); simpl in H.
    2:{ inversion H; subst. rewrite !SD_cons. simpl. rewrite orb_true_r. reflexivity. }
    rewrite andb_true_l, negb_involutive.
    match type of H with (bind ?F _ = _) => destruct F as [acc1| |] eqn:EF end; simpl in H; try discriminate.
    inversion H; subst; clear H.
    assert (FS := fun Hs => fold_SD _ (gsharedc (NMap j rkvs) lkvs) rkvs a acc1 Hs EF).
    rewrite SD_news by (intros; reflexivity). rewrite SD_news by (intros; reflexivity).
    rewrite FS.
    - destruct (SD a), (nonempty (filter (fun kv => negb (map_has (fst kv) lkvs)) rkvs)),
               (nonempty (filter (fun kv => negb (map_has (fst kv) rkvs)) lkvs)),
               (existsb (gsharedc (NMap j rkvs) lkvs) rkvs); reflexivity.
    - intros b [k rv] b' Hin Hstep. simpl in Hstep. unfold gsharedc. simpl.
      assert (Pk : plain_leaf k = true) by (rewrite forallb_forall in Rp; apply (Rp (k, rv) Hin)).
      assert (Hhas : map_has k rkvs = true).
      { rewrite (map_has_hask _ _ Rp Pk). apply (hask_in kkey rkvs (k, rv) Hin). }
      destruct (map_get k lkvs) as [lv|] eqn:Eg.
      + rewrite Hhas in Hstep. change (key_val k) with (leaf_value k) in Hstep.
        assert (Hp : exists kn, In (kn, lv) lkvs /\ py_eq (key_val kn) (key_val k) = true).
        { rewrite (map_get_findk _ _ Lp Pk) in Eg.
          destruct (findk kkey (key_val k) lkvs) as [[kn w]|] eqn:F; simpl in Eg; try discriminate.
          inversion Eg; subst. apply findk_some in F. exists kn. exact F. }
        destruct Hp as [kn [Hkn Ekn]].
        eapply Hrec; [ | | | exact Hstep].
        * apply (okd_child (NMap i lkvs)); [auto|]. simpl. apply in_map_iff. exists (kn, lv). auto.
        * apply (okd_child (NMap j rkvs)); [auto|]. simpl. apply in_map_iff. exists (k, rv). auto.
        * rewrite kguard_c_map in HG. rewrite forallb_forall in HG. specialize (HG (kn, lv) Hkn).
          rewrite forallb_forall in HG. specialize (HG (k, rv) Hin). simpl in HG.
          change (leaf_value kn) with (key_val kn) in HG. change (leaf_value k) with (key_val k) in HG at 1.
          rewrite Ekn in HG. exact HG.
      + inversion Hstep; subst. rewrite orb_false_r. reflexivity.
  Qed.

  (* ---- sets ---- *)
  Lemma sets_iffc : forall rec path q i lels j rels par pref a a',
    rec_iffc rec -> okd (NSet i lels) -> okd (NSet j rels) ->
    diff_sets rec path q (NSet i lels) (NSet j rels) lels rels a = Ok a' ->
    SD a' = SD a || negb (E (NSet i lels) (NSet j rels) par pref).
  Proof.
    intros rec path q i lels j rels par pref a a' Hrec OL OR H.
    change (E (NSet i lels) (NSet j rels) par pref)
      with (equiv ArrPosition AohPosition (NSet i lels) (NSet j rels)).
    rewrite (set_equiv_iff ArrPosition AohPosition _ _ _ _ OL OR). cbv zeta. rewrite negb_involutive.
    destruct (wf_set_inv _ _ OL) as [Lp Ln]. destruct (wf_set_inv _ _ OR) as [Rp Rn].
    unfold diff_sets in H.
    match type of H with (bind ?F _ = _) => destruct F as [acc1| |] eqn:EF end; simpl in H; try discriminate.
    inversion H; subst; clear H.
    assert (FS := fun Hs => fold_SD _ (fun _ : node => false) rels a acc1 Hs EF).
    rewrite SD_news by (intros; reflexivity). rewrite SD_news by (intros; reflexivity).
    rewrite FS.
    - assert (Z : existsb (fun _ : node => false) rels = false) by (clear; induction rels; simpl; auto).
      rewrite Z, orb_false_r.
      destruct (SD a), (nonempty (filter (fun k => negb (set_has k lels)) rels)),
               (nonempty (filter (fun k => negb (set_has k rels)) lels)); reflexivity.
    - intros b k b' Hin Hstep. simpl in Hstep. rewrite orb_false_r.
      assert (Pk : plain_leaf k = true) by (rewrite forallb_forall in Rp; auto).
      assert (Hself : set_find k rels = k).
      { rewrite (set_find_findk _ _ Rp Pk), (findk_in key_val rels k Rn Hin). reflexivity. }
      destruct (set_has k lels) eqn:E1; simpl in Hstep.
      + destruct (set_has k rels); simpl in Hstep; [|inversion Hstep; reflexivity].
        rewrite Hself in Hstep.
        pose proof (set_find_in _ _ E1) as Hm.
        assert (Pm : plain_leaf (set_find k lels) = true) by (rewrite forallb_forall in Lp; auto).
        rewrite (Hrec _ _ _ _ _ _ _ _ (wf_plain_leaf _ Pm) (wf_plain_leaf _ Pk) (kguard_c_leaf cfg _ _ _ _ Pm) Hstep).
        rewrite equiv_c_leaves; auto; [rewrite orb_false_r; reflexivity|].
        rewrite (set_find_findk _ _ Lp Pk).
        rewrite (set_has_hask _ _ Lp Pk), hask_findk in E1.
        destruct (findk key_val (key_val k) lels) as [m|] eqn:F; try discriminate.
        apply findk_some in F. tauto.
      + inversion Hstep; reflexivity.
  Qed.

  (* ---- sequences: the positional loop ---- *)
  Lemma zip_iffc : forall rec deep path q r0,
    rec_iffc rec ->
    forall lels idx rels a a',
      (forall x, In x lels -> okd x) -> (forall y, In y rels -> okd y) ->
      (deep = true -> zipalli (fun n x y => kguard_c cfg x y (Some r0) (pidx n)) idx lels rels = true) ->
      zip_go rec deep path q r0 idx lels rels a = Ok a' ->
      SD a' = SD a || negb (if deep then forall2i (fun n x y => E x y (Some r0) (pidx n)) idx lels rels
                            else forall2b data_eq lels rels).
  Proof.
    intros rec deep path q r0 Hrec.
    induction lels as [|le lr IH]; simpl; intros idx rels a a' OL OR HG H.
    - inversion H; subst. rewrite SD_news by (intros; reflexivity).
      destruct rels, deep; simpl; rewrite ?orb_false_r, ?orb_true_r; reflexivity.
    - destruct rels as [|re rr].
      + assert (HG0 : deep = true -> zipalli (fun n x y => kguard_c cfg x y (Some r0) (pidx n)) (S idx) lr [] = true).
        { intros _. destruct lr; reflexivity. }
        rewrite (IH (S idx) [] _ _ (fun x Hx => OL x (or_intror Hx)) OR HG0 H).
        rewrite SD_cons. simpl. destruct deep; rewrite orb_true_r; reflexivity.
      + match type of H with (bind ?F _ = _) => destruct F as [a1| |] eqn:EF end; simpl in H; try discriminate.
        assert (HG1 : deep = true -> zipalli (fun n x y => kguard_c cfg x y (Some r0) (pidx n)) (S idx) lr rr = true).
        { intros Hd. specialize (HG Hd). simpl in HG. apply andb_true_iff in HG. tauto. }
        rewrite (IH (S idx) rr _ _ (fun x Hx => OL x (or_intror Hx)) (fun x Hx => OR x (or_intror Hx)) HG1 H).
        assert (St : SD a1 = SD a || negb (if deep then E le re (Some r0) (pidx idx) else data_eq le re)).
        { destruct deep.
          - eapply Hrec; [ | | | exact EF]; [apply OL; left; reflexivity | apply OR; left; reflexivity |].
            specialize (HG eq_refl). simpl in HG. apply andb_true_iff in HG. tauto.
          - inversion EF; subst. rewrite SD_cons. unfold cmp_entry, nonsame. simpl.
            rewrite <- (okd_eq le re (OL le (or_introl eq_refl)) (OR re (or_introl eq_refl))).
            destruct (val_eq le re); simpl; rewrite ?orb_false_r, ?orb_true_r; reflexivity. }
        rewrite St. destruct deep; rewrite negb_andb, orb_assoc; reflexivity.
  Qed.

  (* ---- sequences: the value-synchronised comparer ---- *)
  Lemma kvalue_matched : forall b lhs red,
    (forall x, In x lhs -> okd (snd x)) -> (forall y, In y red -> okd (snd y)) ->
    kvalue_c cfg b (map snd lhs) red = true ->
    forall li le ri re, In (Some li, le, Some ri, re) (sync_value_go lhs red) ->
      kguard_c cfg le re (Some b) (pidx ri) = true.
  Proof.
    intros b. induction lhs as [|[i x] rest IH]; simpl; intros red OL OR HG li le ri re H.
    - unfold leftover in H. apply in_map_iff in H. destruct H as [[n y] [Eq _]]. discriminate.
    - assert (X : extract_first (fun p => val_eq (snd p) x) red = extract_first (fun p => data_eq (snd p) x) red).
      { apply extract_first_ext. intros p Hp. apply okd_eq; [apply OR; exact Hp | apply (OL (i, x)); left; reflexivity]. }
      rewrite X in H. clear X.
      destruct (extract_first (fun p => data_eq (snd p) x) red) as [[[rj ry] red']|] eqn:Ex.
      + apply andb_true_iff in HG. destruct HG as [G1 G2].
        destruct (extract_first_perm _ _ _ _ Ex) as [P _].
        destruct H as [H|H].
        * inversion H; subst. exact G1.
        * eapply (IH red'); eauto.
          intros y Hy. apply OR. eapply Permutation_in; [apply Permutation_sym; exact P | right; exact Hy].
      + destruct H as [H|H]; [discriminate|]. eapply (IH red); eauto.
  Qed.

  Lemma synced_iffc : forall rec path q r0 lels rels a a',
    rec_iffc rec ->
    (forall x, In x lels -> okd x) -> (forall y, In y rels -> okd y) ->
    kvalue_c cfg r0 lels (enumerate rels) = true ->
    diff_synced path_eq rec path q r0 lels rels a = Ok a' ->
    SD a' = SD a || negb (bag_eqb data_eq lels rels).
  Proof.
    intros rec path q r0 lels rels a a' Hrec OL OR HG H. unfold diff_synced in H.
    destruct (sync_value_accounting lels rels) as [El Pr].
    assert (FS := fun Hs => fold_SD _ (fun p => negb (matched p)) (sync_value lels rels) a a' Hs H).
    rewrite FS; clear FS.
    - f_equal.
      assert (X : existsb (fun p => negb (matched p)) (sync_value lels rels) = negb (forallb matched (sync_value lels rels))).
      { generalize (sync_value lels rels). induction l as [|p r IHl]; simpl; auto. rewrite IHl, negb_andb. reflexivity. }
      rewrite X. f_equal. unfold sync_value. rewrite sync_bag.
      + unfold enumerate. rewrite !enumerate_from_map_snd. reflexivity.
      + unfold enumerate. rewrite !enumerate_from_map_snd. intros x y Hx Hy. apply okd_eq; auto.
    - intros b p b' Hin Hstep.
      destruct p as [[[lidx lele] ridx] rele]. simpl in Hstep.
      destruct lidx as [li|].
      + destruct ridx as [ri|].
        * destruct (pair_elems _ _ _ _ _ _ _ El Pr Hin) as [I1 I2].
          pose proof (sync_value_go_matched _ _ _ _ _ _ Hin) as M.
          rewrite (okd_eq _ _ (OR _ I2) (OL _ I1)) in M.
          pose proof (OL _ I1) as W1. pose proof (OR _ I2) as W2.
          pose proof (data_eq_sym _ _ W2 W1 M) as D.
          assert (Gp : kguard_c cfg lele rele (Some r0) (pidx ri) = true).
          { apply (kvalue_matched r0 (enumerate lels) (enumerate rels)) with (li := li); auto.
            - intros x Hx. destruct x as [n x]. apply OL. eapply in_enumerate_elem; eauto.
            - intros y Hy. destruct y as [n y]. apply OR. eapply in_enumerate_elem; eauto.
            - unfold enumerate. rewrite enumerate_from_map_snd. exact HG. }
          rewrite (Hrec _ _ _ _ _ _ _ _ W1 W2 Gp Hstep). simpl.
          rewrite (data_eq_equiv_c cfg _ _ _ _ W1 W2 Gp D). reflexivity.
        * inversion Hstep; subst. rewrite SD_cons. simpl. rewrite ?orb_true_r. reflexivity.
      + destruct (find_delete path_eq (path_add_idx path ridx) b) as [[[d b'']|]| |] eqn:F;
          simpl in Hstep; try discriminate; inversion Hstep; subst; clear Hstep.
        * rewrite SD_cons. simpl. rewrite orb_true_r. reflexivity.
        * rewrite SD_cons. simpl. rewrite orb_true_r. reflexivity.
  Qed.

  (* ---- sequences: the identity-key comparer ---- *)
  Definition kbadc (r : node) (d : bool) (p : spair) : bool :=
    match p with
    | (Some _, le, Some ri, re) => negb (if d then E le re (Some r) (pidx ri) else data_eq le re)
    | _ => true
    end.

  Lemma keyed_iffc : forall rec d path q i lels j rels a a',
    rec_iffc rec -> okd (NSeq i lels) -> okd (NSeq j rels) ->
    keyed_pair cfg (NSeq j rels) lels rels = true ->
    (d = true -> kdeep_c cfg (NSeq j rels) lels rels = true) ->
    foldM (key_fold rec d path q (NSeq j rels)) (sync_key cfg (NSeq j rels) lels rels) a = Ok a' ->
    SD a' = SD a || negb (keyed_eqc cfg (NSeq j rels) d lels rels).
  Proof.
    intros rec d path q i lels j rels a a' Hrec OL OR KP KD H. set (r := NSeq j rels) in *.
    assert (CL : forall x, In x lels -> okd x) by (intros x Hx; apply (okd_child _ _ OL); exact Hx).
    assert (CR : forall y, In y rels -> okd y) by (intros y Hy; apply (okd_child _ _ OR); exact Hy).
    set (K0 := list_key cfg r rels) in *.
    assert (PK : plain_leaf K0 = true) by (apply list_key_plain; exact CR).
    set (Mx := id_match cfg r K0).
    unfold keyed_pair in KP. fold K0 in KP.
    apply andb_true_iff in KP. destruct KP as [KP UR0]. apply andb_true_iff in KP. destruct KP as [_ UL0].
    rewrite forallb_forall in UL0, UR0.
    assert (UL : uniq_l Mx (enumerate lels) (enumerate rels)).
    { intros [n x] p1 p2 Hx H1 H2 M1 M2. simpl in M1, M2.
      apply (at_most_one_eq (Mx x) (enumerate rels)); auto. apply UL0. eapply in_enumerate_elem; eauto. }
    assert (UR : uniq_r Mx (enumerate lels) (enumerate rels)).
    { intros p x1 x2 Hp H1 H2 M1 M2.
      apply (at_most_one_eq (fun lx => Mx (snd lx) p) (enumerate lels)); auto. }
    destruct (sync_key_accounting cfg r lels rels) as [El Pr].
    assert (Hps : sync_key cfg r lels rels = gsync Mx (enumerate lels) (enumerate rels)).
    { rewrite sync_key_list_key, sync_key_go_gsync. apply gsync_ext.
      intros [n x] [m y] Hx Hy. simpl. apply model_match_spec; auto.
      - apply CL. eapply in_enumerate_elem; eauto.
      - apply CR. eapply in_enumerate_elem; eauto. }
    rewrite Hps in H, El, Pr.
    set (ps := gsync Mx (enumerate lels) (enumerate rels)) in *.
    assert (Sh : forall p, In p ps -> gshape Mx (enumerate lels) (enumerate rels) p).
    { apply gsync_shape; auto; apply enumerate_nodup_fst. }
    rewrite (fold_SD (key_fold rec d path q r) (kbadc r d) ps a a'); [ | | exact H].
    - f_equal. unfold keyed_eqc. fold K0. fold Mx.
      match goal with |- _ = negb ?X => destruct X eqn:EE end; cbn [negb].
      + apply andb_true_iff in EE. destruct EE as [Len F]. apply Nat.eqb_eq in Len. rewrite forallb_forall in F.
        assert (Part : forall x, In x lels -> exists p, In p (enumerate rels) /\ Mx x p = true /\
                        (if d then E x (snd p) (Some r) (pidx (fst p)) else data_eq x (snd p)) = true).
        { intros x Hx. specialize (F x Hx). apply existsb_exists in F. destruct F as [p [Hp X]].
          apply andb_true_iff in X. exists p. tauto. }
        apply not_true_is_false. intros Hex. apply existsb_exists in Hex. destruct Hex as [p [Hp Bp]].
        destruct (Sh p Hp) as [li le ri re H1 H2 H3|li le H1 H2|ri re H1 H2].
        * pose proof (in_enumerate_elem _ _ _ H1) as H1'.
          destruct (Part le H1') as [p' [Hp' [Mp' Op']]].
          assert (p' = (ri, re)) by (apply (UL (li, le) p' (ri, re)); auto).
          subst p'. simpl in Bp, Op'. rewrite Op' in Bp. discriminate.
        * pose proof (in_enumerate_elem _ _ _ H1) as H1'.
          destruct (Part le H1') as [p' [Hp' [Mp' _]]]. rewrite (H2 p' Hp') in Mp'. discriminate.
        * (* pigeonhole: the left records are paired one to one with right records other than this one *)
          destruct (in_split _ _ H1) as [r1 [r2 Er]].
          assert (L : List.length (enumerate lels) <= List.length (r1 ++ r2)).
          { apply (inj_rel_le (fun x p => In p (enumerate rels) /\ Mx (snd x) p = true)).
            - apply enumerate_nodup.
            - intros [n x] Hx. destruct (Part x (in_enumerate_elem _ _ _ Hx)) as [p' [Hp' [Mp' _]]].
              exists p'. split; auto. rewrite Er in Hp'. apply in_app_or in Hp'. apply in_or_app.
              destruct Hp' as [X|[X|X]]; auto. subst p'. pose proof (H2 (n, x) Hx) as Q. simpl in Q. rewrite Q in Mp'. discriminate.
            - intros x1 x2 p' X1 X2 [Q1 Q2] [Q3 Q4]. apply (UR p' x1 x2); auto. }
          assert (L2 : List.length (enumerate rels) = S (List.length (r1 ++ r2))).
          { rewrite Er, !app_length. simpl. lia. }
          unfold enumerate in L, L2. rewrite !enumerate_from_length in *. lia.
      + destruct (existsb (kbadc r d) ps) eqn:X; auto. exfalso.
        pose proof (existsb_false_in _ _ X) as Gd.
        assert (Mt : forall p, In p ps -> matched p = true).
        { intros p Hp. specialize (Gd p Hp). destruct p as [[[[n|] x] [m|]] y]; simpl in Gd; try discriminate; reflexivity. }
        destruct (matched_lengths ps Mt) as [L1 L2].
        assert (Len : List.length lels = List.length rels).
        { rewrite El in L1. pose proof (Permutation_length Pr) as L3.
          unfold enumerate in L1, L3. rewrite enumerate_from_length in L1, L3. lia. }
        assert (T : Nat.eqb (List.length lels) (List.length rels) &&
                    forallb (fun x => existsb (fun p => Mx x p &&
                       (if d then E x (snd p) (Some r) (pidx (fst p)) else data_eq x (snd p))) (enumerate rels)) lels = true).
        { apply andb_true_iff. split; [apply Nat.eqb_eq; exact Len|].
          apply forallb_forall. intros x Hx. destruct (in_enumerate _ _ Hx) as [n Hn].
          rewrite <- El in Hn. destruct (in_lefts_inv _ _ _ Hn) as [ri [re Hp]].
          pose proof (Gd _ Hp) as Bp. pose proof (Mt _ Hp) as Mp.
          destruct ri as [m|]; try discriminate Mp. simpl in Bp. apply negb_false_iff in Bp.
          destruct (gsync_both Mx _ _ _ _ _ _ Hp) as [_ [B2 B3]].
          apply existsb_exists. exists (m, re). split; auto. rewrite B3. simpl. exact Bp. }
        congruence.
    - intros b p b' Hin Hstep. pose proof (Sh p Hin) as S0.
      destruct S0 as [li le ri re H1 H2 H3|li le H1 H2|ri re H1 H2]; simpl in Hstep; unfold kbadc.
      + pose proof (in_enumerate_elem _ _ _ H1) as H1'. pose proof (in_enumerate_elem _ _ _ H2) as H2'.
        destruct d.
        * eapply Hrec; [apply CL; exact H1' | apply CR; exact H2' | | exact Hstep].
          specialize (KD eq_refl). unfold kdeep_c in KD. fold K0 in KD. rewrite forallb_forall in KD.
          specialize (KD le H1'). rewrite forallb_forall in KD. specialize (KD (ri, re) H2).
          fold Mx in KD. rewrite H3 in KD. exact KD.
        * inversion Hstep; subst. rewrite SD_cons. unfold cmp_entry, nonsame. cbn [e_action].
          rewrite <- (okd_eq le re (CL _ H1') (CR _ H2')).
          destruct (val_eq le re); cbn [negb orb]; rewrite ?orb_false_r, ?orb_true_r; reflexivity.
      + inversion Hstep; subst. rewrite SD_cons. simpl. rewrite orb_true_r. reflexivity.
      + inversion Hstep; subst. rewrite SD_cons. simpl. rewrite orb_true_r. reflexivity.
  Qed.

  Lemma lists_iffc : forall rec path q i lels j rels par pref a a',
    rec_iffc rec -> okd (NSeq i lels) -> okd (NSeq j rels) ->
    kguard_c cfg (NSeq i lels) (NSeq j rels) par pref = true ->
    diff_lists path_eq cfg rec path q (NSeq i lels) (NSeq j rels) lels rels par pref a = Ok a' ->
    SD a' = SD a || negb (E (NSeq i lels) (NSeq j rels) par pref).
  Proof.
    intros rec path q i lels j rels par pref a a' Hrec OL OR HG H.
    assert (CL : forall x, In x lels -> okd x) by (intros x Hx; apply (okd_child _ _ OL); exact Hx).
    assert (CR : forall y, In y rels -> okd y) by (intros y Hy; apply (okd_child _ _ OR); exact Hy).
    rewrite equiv_c_seq. rewrite kguard_c_seq in HG.
    destruct (tag_eqb (tag i) (tag j)) eqn:Tg.
    2:{ unfold diff_lists in H. simpl in H. rewrite opt_str_tag_eqb, Tg in H. simpl in H.
        inversion H; subst. rewrite !SD_cons. simpl. rewrite orb_true_r. reflexivity. }
    rewrite andb_true_l.
    assert (Tg' : opt_str_eqb (tag (node_info (NSeq i lels))) (tag (node_info (NSeq j rels))) = true).
    { simpl. rewrite opt_str_tag_eqb. exact Tg. }
    destruct (lists_dispatch_c _ _ _ _ _ _ _ _ _ _ _ _ _ Tg' H) as [m [Hm Hrun]].
    rewrite Hm in *.
    destruct m as [[|]| |d].
    - eapply (zip_iffc rec true); try eassumption. intros _. exact HG.
    - eapply (zip_iffc rec false); try eassumption. intros X; discriminate X.
    - eapply synced_iffc; try eassumption.
    - apply andb_true_iff in HG. destruct HG as [KP KD].
      eapply keyed_iffc; try eassumption. intros ->. exact KD.
  Qed.

  Lemma body_iffc : forall rec, rec_iffc rec -> rec_iffc (diff_body path_eq cfg rec).
  Proof.
    intros rec Hrec path q l r par pref a a' OL OR HG H.
    destruct l as [i v|i lkvs|i lels|i lels], r as [j w|j rkvs|j rels|j rels];
      try (match type of H with diff_body _ _ _ _ _ ?l ?r _ _ _ = Ok _ =>
             rewrite (clash_SD path q l r _ a a' H) end; simpl; rewrite orb_true_r; reflexivity);
      simpl in H.
    - inversion H; subst. unfold diff_scalars. rewrite SD_cons.
      change (E (NLeaf i v) (NLeaf j w) par pref) with (data_eq (NLeaf i v) (NLeaf j w)).
      rewrite <- (okd_eq _ _ OL OR). unfold cmp_entry, nonsame. cbn [e_action].
      destruct (val_eq (NLeaf i v) (NLeaf j w)); cbn [negb orb]; rewrite ?orb_false_r, ?orb_true_r; reflexivity.
    - eapply dicts_iffc; eauto.
    - eapply lists_iffc; eauto.
    - eapply sets_iffc; eauto.
  Qed.

  Lemma between_iffc : forall fuel, rec_iffc (diff_between path_eq cfg fuel).
  Proof.
    induction fuel as [|f IH].
    - intros path q l r par pref a a' _ _ _ H. simpl in H. discriminate.
    - intros path q l r par pref a a' OL OR HG H. simpl in H. eapply body_iffc; eauto.
  Qed.

  Theorem compare_to_iff_c : forall L R es,
    wf_doc L = true -> wf_doc R = true -> kguard_c cfg L R None PNone = true ->
    compare_to path_eq cfg L R = Ok es -> shows_difference es = negb (equiv_c cfg L R None PNone).
  Proof.
    intros L R es HwL HwR HG H. unfold compare_to in H.
    match type of H with (bind ?F _ = _) => destruct F as [acc| |] eqn:EF end; simpl in H; try discriminate.
    inversion H; subst. rewrite SD_rev.
    rewrite (between_iffc _ _ _ _ _ _ _ _ _ HwL HwR HG EF). reflexivity.
  Qed.
End IffC.

(* ---- corollaries ---- *)
Lemma equal_no_difference_c : forall path_eq cfg L R es,
  wf_doc L = true -> wf_doc R = true -> kguard_c cfg L R None PNone = true ->
  data_eq L R = true ->
  compare_to path_eq cfg L R = Ok es -> shows_difference es = false.
Proof.
  intros path_eq cfg L R es HwL HwR HG D H.
  rewrite (compare_to_iff_c path_eq cfg L R es HwL HwR HG H).
  rewrite (data_eq_equiv_c cfg L R None PNone HwL HwR HG D). reflexivity.
Qed.

Lemma reflexive_c : forall path_eq cfg L es,
  wf_doc L = true -> kguard_c cfg L L None PNone = true ->
  compare_to path_eq cfg L L = Ok es -> shows_difference es = false.
Proof. intros. eapply equal_no_difference_c; eauto. apply data_eq_refl. Qed.

(* a configuration that never selects an identity-key mode needs no guard *)
Lemma cfg_list_mode_key : forall cfg nc rels d, cfg_list_mode cfg nc rels = Some (LKey d) ->
  aoh_diff_mode cfg nc = Ok (if d then AohDeep else AohKey).
Proof.
  intros cfg nc rels d H. unfold cfg_list_mode in H.
  destruct rels as [|[| | |] rr];
    try (destruct (array_diff_mode cfg nc) as [[|]| |]; discriminate H).
  destruct (aoh_diff_mode cfg nc) as [[| | | |]| |]; try discriminate H;
    try (destruct (array_diff_mode cfg nc) as [[|]| |]; discriminate H);
    inversion H; reflexivity.
Qed.

Lemma zipalli_all {A} (f : nat -> A -> A -> bool) : forall l l' n,
  (forall k x y, In x l -> f k x y = true) -> zipalli f n l l' = true.
Proof.
  induction l as [|x r IH]; destruct l' as [|y r']; simpl; intros n H; auto.
  rewrite (H n x y (or_introl eq_refl)). simpl. apply IH. intros k a b Ha. apply H. right; exact Ha.
Qed.

Theorem kguard_c_nokey : forall cfg, nokey_cfg cfg ->
  forall a b par pref, kguard_c cfg a b par pref = true.
Proof.
  intros cfg Hn.
  induction a as [i v|i kvs IH|i els IH|i els IH] using node_ind'; intros b par pref;
    destruct b as [j w|j kvs'|j els'|j els']; try reflexivity.
  - rewrite kguard_c_map. apply forallb_forall. intros kv Hkv. apply forallb_forall. intros kv' Hkv'.
    rewrite Forall_forall in IH. destruct (IH kv Hkv) as [_ IHv].
    destruct (py_eq _ _); auto.
  - rewrite kguard_c_seq. rewrite Forall_forall in IH. set (b := NSeq j els').
    destruct (cfg_list_mode cfg (b, par, pref) els') as [[[|]| |d]|] eqn:M; auto.
    + apply zipalli_all. intros k x y Hx. apply IH; auto.
    + generalize (enumerate els'). clear M. induction els as [|x r IHr]; intros red; simpl; auto.
      destruct (extract_first (fun p => data_eq (snd p) x) red) as [[p red']|].
      * rewrite (IH x (or_introl eq_refl)). simpl. apply IHr. intros y Hy. apply IH. right; exact Hy.
      * apply IHr. intros y Hy. apply IH. right; exact Hy.
    + exfalso. apply cfg_list_mode_key in M. destruct (Hn (b, par, pref)) as [N1 N2]. destruct d; auto.
Qed.

Lemma nonsame_iff_differ_nokey : forall path_eq cfg L R es,
  nokey_cfg cfg -> wf_doc L = true -> wf_doc R = true ->
  compare_to path_eq cfg L R = Ok es -> shows_difference es = negb (equiv_c cfg L R None PNone).
Proof. intros. eapply compare_to_iff_c; eauto. apply kguard_c_nokey; auto. Qed.

Lemma reflexive_nokey : forall path_eq cfg L es,
  nokey_cfg cfg -> wf_doc L = true ->
  compare_to path_eq cfg L L = Ok es -> shows_difference es = false.
Proof. intros. eapply reflexive_c; eauto. apply kguard_c_nokey; auto. Qed.

(* ---- the configured equivalence generalises the uniform one ---- *)
Lemma cfg_list_mode_uniform : forall cfg am hm nc rels, uniform cfg am hm ->
  cfg_list_mode cfg nc rels = Some (list_mode am hm rels).
Proof.
  intros cfg am hm nc rels [Ha Hh]. unfold cfg_list_mode, list_mode. rewrite Ha, Hh.
  destruct rels as [|[| | |] rr]; destruct am, hm; reflexivity.
Qed.

Lemma forall2i_const {A} (f : A -> A -> bool) (g : nat -> A -> A -> bool) : forall l l' n,
  (forall k x y, In x l -> g k x y = f x y) -> forall2i g n l l' = forall2b f l l'.
Proof.
  induction l as [|x r IH]; destruct l' as [|y r']; simpl; intros n H; auto.
  rewrite (H n x y (or_introl eq_refl)). f_equal. apply IH. intros k a b Ha. apply H. right; exact Ha.
Qed.

Theorem equiv_c_uniform : forall cfg am hm, uniform cfg am hm -> unkeyed hm = true ->
  forall a b par pref, equiv_c cfg a b par pref = equiv am hm a b.
Proof.
  intros cfg am hm Hu Hk.
  induction a as [i v|i kvs IH|i els IH|i els IH] using node_ind'; intros b par pref;
    destruct b as [j w|j kvs'|j els'|j els']; try reflexivity.
  - rewrite equiv_c_map, equiv_map. f_equal.
    apply forallb_ext_in. intros kv Hkv.
    rewrite Forall_forall in IH. destruct (IH kv Hkv) as [_ IHv].
    generalize (Some (NMap j kvs')) as p. intros p.
    clear - IHv. induction kvs' as [|kv' r IHr]; simpl; auto. rewrite IHv, IHr. reflexivity.
  - rewrite equiv_c_seq, equiv_seq. f_equal. rewrite (cfg_list_mode_uniform cfg am hm _ _ Hu).
    rewrite Forall_forall in IH.
    destruct (list_mode am hm els') as [[|]| |d] eqn:M; auto.
    + apply forall2i_const. intros k x y Hx. apply IH; auto.
    + exfalso. exact (list_mode_unkeyed _ _ _ _ Hk M).
Qed.

(* ---- concrete configurations with [rules] / [keys] (non-vacuity, witnesses) ---- *)
Open Scope string_scope.
Definition ci (o : N) : info := mkinfo o None true None.
Definition ints (o : N) (l : list Z) : node :=
  NSeq (ci o) (map (fun z => pl_leaf (o + 1 + Z.to_N z) (PInt z)) l).
Definition xy_doc (o : N) (xs ys : list Z) : node :=
  NMap (ci o) [(pl_leaf (o + 1) (PStr "x"), ints (o + 10) xs); (pl_leaf (o + 2) (PStr "y"), ints (o + 20) ys)].
(* [rules] /x = value, resolved against the right-hand document [R] *)
Definition rules_cfg (R : node) : dcfg :=
  match R with
  | NMap _ ((_, x) :: _) =>
      mkdcfg true [mkrule x (Some R) (PStr "x") "value"] [] None None None None
  | _ => mkdcfg true [] [] None None None None
  end.

Definition rec2 (o : N) (id : Z) (name : string) : node :=
  NMap (ci o) [(pl_leaf (o + 1) (PStr "id"), pl_leaf (o + 2) (PInt id));
               (pl_leaf (o + 3) (PStr "name"), pl_leaf (o + 4) (PStr name))].
Definition recs_doc (o : N) (l : list (Z * string)) : node :=
  NMap (ci o) [(pl_leaf (o + 1) (PStr "r"),
                NSeq (ci (o + 2)) (map (fun p => rec2 (o + 10 * (1 + Z.to_N (fst p)) + 100 * N.of_nat (String.length (snd p))) (fst p) (snd p)) l))].
(* --aoh key with [keys] /r = <k>, resolved against the right-hand document *)
Definition keys_cfg (k : string) (R : node) : dcfg :=
  match R with
  | NMap _ ((_, r) :: _) =>
      mkdcfg true [] [mkrule r (Some R) (PStr "r") k] None (Some "key") None None
  | _ => mkdcfg true [] [] None (Some "key") None None
  end.

(* per-path rule: x is compared by value (reordered: no difference), y by position *)
Lemma rules_example :
  let L := xy_doc 0 [1; 2; 3]%Z [1; 2; 3]%Z in
  let R := xy_doc 100 [3; 1; 2]%Z [1; 2; 3]%Z in
  let R' := xy_doc 100 [1; 2; 3]%Z [3; 1; 2]%Z in
  (wf_doc L = true /\ wf_doc R = true /\ wf_doc R' = true) /\
  (~ uniform (rules_cfg R) ArrPosition AohPosition /\ ~ uniform (rules_cfg R) ArrValue AohPosition) /\
  kguard_c (rules_cfg R) L R None PNone = true /\
  equiv_c (rules_cfg R) L R None PNone = true /\ data_eq L R = false /\
  (exists es, compare_to path_eq_real (rules_cfg R) L R = Ok es /\ shows_difference es = false) /\
  equiv_c (rules_cfg R') L R' None PNone = false /\
  (exists es, compare_to path_eq_real (rules_cfg R') L R' = Ok es /\ shows_difference es = true).
Proof.
  cbv zeta. split; [repeat split; vm_compute; reflexivity|]. split.
  - split; intros [Ha _].
    + specialize (Ha (ints 110 [3; 1; 2]%Z, Some (xy_doc 100 [3; 1; 2]%Z [1; 2; 3]%Z), PStr "x")). vm_compute in Ha. discriminate.
    + specialize (Ha (ints 120 [1; 2; 3]%Z, Some (xy_doc 100 [3; 1; 2]%Z [1; 2; 3]%Z), PStr "y")). vm_compute in Ha. discriminate.
  - repeat split; try (vm_compute; reflexivity); eexists; split; vm_compute; reflexivity.
Qed.

(* a rule naming a list nested DIRECTLY inside a positionally compared list
   ([rules] /a[0] = value on a: [[..], [..]]) is honoured: a[0] is compared by
   value, a[1] by position.  Before the repair of the stale parentref
   (`idx` after `idx += 1`) the rule was looked up under index 1 and ignored. *)
Definition nest_doc (o : N) (xs ys : list Z) : node :=
  NMap (ci o) [(pl_leaf (o + 1) (PStr "a"), NSeq (ci (o + 2)) [ints (o + 10) xs; ints (o + 20) ys])].
Definition nest_cfg (R : node) : dcfg :=
  match R with
  | NMap _ ((_, NSeq i (x :: r)) :: _) =>
      mkdcfg true [mkrule x (Some (NSeq i (x :: r))) (PInt 0) "value"] [] None None None None
  | _ => mkdcfg true [] [] None None None None
  end.
Lemma nested_rule_example :
  let L := nest_doc 0 [1; 2; 3]%Z [4; 5; 6]%Z in
  let R := nest_doc 100 [3; 1; 2]%Z [4; 5; 6]%Z in
  let R' := nest_doc 100 [1; 2; 3]%Z [6; 4; 5]%Z in
  (wf_doc L = true /\ wf_doc R = true /\ wf_doc R' = true) /\
  c_rules (nest_cfg R) <> [] /\
  kguard_c (nest_cfg R) L R None PNone = true /\
  equiv_c (nest_cfg R) L R None PNone = true /\ data_eq L R = false /\
  (exists es, compare_to path_eq_real (nest_cfg R) L R = Ok es /\ shows_difference es = false) /\
  equiv_c (nest_cfg R') L R' None PNone = false /\
  (exists es, compare_to path_eq_real (nest_cfg R') L R' = Ok es /\ shows_difference es = true).
Proof.
  cbv zeta. split; [repeat split; vm_compute; reflexivity|]. split; [vm_compute; discriminate|].
  repeat split; try (vm_compute; reflexivity); eexists; split; vm_compute; reflexivity.
Qed.

(* [keys] /r = name: the records share the first key's value (id), so the default
   identity would not tell them apart; the configured key does *)
Lemma keys_example :
  let L := recs_doc 0 [(1%Z, "a"); (1%Z, "bb")] in
  let R := recs_doc 1000 [(1%Z, "bb"); (1%Z, "a")] in
  wf_doc L = true /\ wf_doc R = true /\ c_keys (keys_cfg "name" R) <> [] /\
  kguard_c (keys_cfg "name" R) L R None PNone = true /\
  equiv_c (keys_cfg "name" R) L R None PNone = true /\ data_eq L R = false /\
  (exists es, compare_to path_eq_real (keys_cfg "name" R) L R = Ok es /\ shows_difference es = false) /\
  kguard_c (keys_cfg "id" R) L R None PNone = false.
Proof.
  cbv zeta. repeat split; try (vm_compute; reflexivity); try (vm_compute; discriminate).
  eexists; split; vm_compute; reflexivity.
Qed.

(* F4 with a [keys] table: the configured identity key is missing from the records *)
Lemma reflexive_cfg_refuted_witness :
  exists cfg d es, c_keys cfg <> [] /\ wf_doc d = true /\ kguard_c cfg d d None PNone = false /\
    compare_to path_eq_real cfg d d = Ok es /\ shows_difference es = true.
Proof.
  exists (keys_cfg "nom" (recs_doc 0 [(1%Z, "a")])), (recs_doc 0 [(1%Z, "a")]).
  eexists. repeat split; try (vm_compute; reflexivity). vm_compute; discriminate.
Qed.
