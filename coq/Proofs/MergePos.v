(* C05: WHERE the right-only keys of a Hash merge land.  _merge_dicts buffers the keys the
   left Hash lacks and writes the buffer out at `buffer_pos` when the next common key comes;
   buffer_pos counts a buffered key when it is buffered AND when it is written, a common key
   once unless its step ended in `continue`.  Hence: a maximal run of n right-only keys followed
   by a common key, preceded by a right-only keys and g counted common keys, occupies the indices
   min(2a+g+n, |left|+a) ... of the result; a trailing run is appended at |left|+a. *)
From Coq Require Import List Ascii String ZArith QArith NArith Bool Lia.
From YP Require Import Outcome PyStr PyVal Doc PathParser Searches MergeConfig Merge SpecC05 SpecC05Union
  MergeBasics MergeHash MergeNoCrash MergeUnion.
Import ListNotations.
Open Scope string_scope.
Open Scope list_scope.

(* ---------- insert_at / flush as statements about positions ---------- *)
Lemma insert_at_low : forall p (l : list (node * node)) j kv,
  j < p -> j < List.length l -> nth_error (insert_at p kv l) j = nth_error l j.
Proof.
  unfold insert_at. induction p as [|p IH]; intros l j kv Hp Hl; [lia|].
  destruct l as [|x l]; simpl in *; [lia|]. destruct j as [|j]; [reflexivity|]. simpl. apply IH; lia.
Qed.

Lemma insert_at_hit : forall p (l : list (node * node)) kv,
  nth_error (insert_at p kv l) (Nat.min p (List.length l)) = Some kv.
Proof.
  unfold insert_at. induction p as [|p IH]; intros l kv; [reflexivity|].
  destruct l as [|x l]; simpl; [reflexivity|]. apply IH.
Qed.

Lemma insert_at_length : forall p (l : list (node * node)) kv, List.length (insert_at p kv l) = S (List.length l).
Proof.
  unfold insert_at. induction p as [|p IH]; intros l kv; [reflexivity|].
  destruct l as [|x l]; simpl; [reflexivity|]. now rewrite IH.
Qed.

Lemma flush_length : forall buf p l, List.length (fst (flush buf p l)) = List.length l + List.length buf.
Proof.
  induction buf as [|kv r IH]; intros p l; simpl; [lia|]. rewrite IH, insert_at_length. lia.
Qed.

Lemma flush_pos : forall buf p l, snd (flush buf p l) = p + List.length buf.
Proof. induction buf as [|kv r IH]; intros p l; simpl; [lia|]. rewrite IH. lia. Qed.

Lemma flush_low : forall buf p l j, j < p -> j < List.length l -> nth_error (fst (flush buf p l)) j = nth_error l j.
Proof.
  induction buf as [|kv r IH]; intros p l j Hp Hl; simpl; [reflexivity|].
  rewrite IH; [apply insert_at_low; assumption|lia|rewrite insert_at_length; lia].
Qed.

Lemma flush_hit : forall buf p l i y, nth_error buf i = Some y ->
  nth_error (fst (flush buf p l)) (Nat.min p (List.length l) + i) = Some y.
Proof.
  induction buf as [|kv r IH]; intros p l i y H; [destruct i; discriminate|].
  destruct i as [|i]; simpl in H.
  - inversion H; subst y. simpl. rewrite Nat.add_0_r.
    rewrite flush_low; [apply insert_at_hit|lia|rewrite insert_at_length; lia].
  - simpl. specialize (IH (S p) (insert_at p kv l) i y H). rewrite insert_at_length in IH.
    rewrite <- Nat.succ_min_distr in IH. replace (Nat.min p (List.length l) + S i) with (S (Nat.min p (List.length l)) + i) by lia.
    exact IH.
Qed.

Lemma set_val_length : forall k v l, List.length (set_val k v l) = List.length l.
Proof. intros k v l. rewrite <- (map_length fst), set_val_fst, map_length. reflexivity. Qed.

Lemma set_val_nth_other : forall k v l j y,
  nth_error l j = Some y -> is_leaf (fst y) = true -> py_eq (keyof y) k = false ->
  nth_error (set_val k v l) j = Some y.
Proof.
  intros k v l. induction l as [|[kn old] r IH]; intros j y H Hl Hk; [destruct j; discriminate|].
  destruct j as [|j]; simpl in H.
  - inversion H; subst y. simpl. destruct kn; try discriminate. unfold keyof in Hk. simpl in Hk. rewrite Hk. reflexivity.
  - simpl. destruct kn; try (simpl; now apply IH). destruct (py_eq v0 k); [exact H|simpl; now apply IH].
Qed.

Section Pos.
Variable lit : string -> outcome litres.
Variable cfg : mconfig.
Variable ro : N.
Variable lkvs : list (node * node).
Hypothesis Lleaf : leafkeys lkvs.
Let L := keys_of lkvs.
Notation INV := (inv lit cfg ro lkvs).

(* the step of a common key counts unless it `continue`s (policy keep-left / take-right) *)
Definition mg_counted (kv : node * node) : bool :=
  match dict_shortcut cfg (snd kv) (mkcoord (node_oid (snd kv)) (Some ro) (Some (key_val (fst kv)))) with
  | Ok GoOn => true
  | _ => false
  end.

Definition cnt_new (done : list (node * node)) : nat := List.length (unnamed_part L done).
Definition cnt_go (done : list (node * node)) : nat := List.length (filter (fun kv => inL L kv && mg_counted kv) done).

Lemma step_present_pos : forall kvs buf pos key val st',
  assoc_key (key_val key) kvs <> None ->
  dict_step cfg (merge_rec lit cfg) ro (kvs, buf, pos) (key, val) = Ok st' ->
  snd st' = pos + List.length buf + (if mg_counted (key, val) then 1 else 0).
Proof.
  intros kvs buf pos key val st' Hk H. unfold dict_step in H.
  destruct (assoc_key (key_val key) kvs) eqn:Ek; [|congruence].
  pose proof (flush_pos buf pos kvs) as Fp.
  destruct (flush buf pos kvs) as [kvs1 pos1] eqn:Ef. cbn [fst snd] in *.
  unfold mg_counted. cbn [fst snd].
  destruct (dict_shortcut cfg val _) as [sc| |] eqn:Esc; cbn [bind] in H; try discriminate.
  destruct sc.
  - inversion H; subst. cbn. lia.
  - inversion H; subst. cbn. lia.
  - destruct (assoc_key (key_val key) kvs1); try discriminate.
    destruct val; cbn [bind] in H;
      repeat match type of H with
             | context [bind ?x _] => destruct x; cbn [bind] in H; try discriminate
             end;
      inversion H; subst; cbn; lia.
Qed.

(* presence in the left items as they stand = presence in the left Hash, for a key not yet met *)
Lemma new_key_side : forall done st k,
  INV done st -> named (keys_of done) k = false ->
  (assoc_key k (fst (fst st)) <> None -> named L k = true) /\
  (assoc_key k (fst (fst st)) = None -> named L k = false).
Proof.
  intros done [[kvs buf] pos] k I Hn. cbn [fst snd].
  pose proof (v_rest _ _ _ _ _ _ I k Hn) as V. cbn [fst snd] in V. rewrite assoc_app in V. split.
  - intros H. destruct (assoc_key k kvs) eqn:E; [|congruence]. apply assoc_named. rewrite <- V. discriminate.
  - intros H. rewrite H in V. apply assoc_none_named; [exact Lleaf|].
    destruct (assoc_key k lkvs) eqn:E; [|reflexivity]. exfalso.
    apply (i_keep _ _ _ _ _ _ I k); [congruence|exact H].
Qed.

Lemma side_of_named : forall done st k,
  INV done st -> named (keys_of done) k = false ->
  (named L k = true -> assoc_key k (fst (fst st)) <> None) /\
  (named L k = false -> assoc_key k (fst (fst st)) = None).
Proof.
  intros done st k I Hn. destruct (new_key_side done st k I Hn) as [A B]. split; intros H.
  - intros E. rewrite (B E) in H. discriminate.
  - destruct (assoc_key k (fst (fst st))) eqn:E; [|reflexivity]. rewrite A in H; [discriminate|congruence].
Qed.

(* ---------- the counting invariant ---------- *)
Definition cinv (done : list (node * node)) (st : dstate) : Prop :=
  snd st + List.length (snd (fst st)) = 2 * cnt_new done + cnt_go done /\
  List.length (fst (fst st)) + List.length (snd (fst st)) = List.length lkvs + cnt_new done.

Lemma cnt_new_snoc : forall done kv, cnt_new (done ++ [kv]) = cnt_new done + (if inL L kv then 0 else 1).
Proof.
  intros done kv. unfold cnt_new. rewrite unnamed_app, app_length. f_equal.
  rewrite unnamed_is_filter. simpl. destruct (inL L kv); reflexivity.
Qed.

Lemma cnt_go_snoc : forall done kv, cnt_go (done ++ [kv]) = cnt_go done + (if inL L kv && mg_counted kv then 1 else 0).
Proof.
  intros done kv. unfold cnt_go. rewrite filter_app, app_length. f_equal. simpl.
  destruct (inL L kv && mg_counted kv); reflexivity.
Qed.

Lemma cinv_step : forall done st kv st',
  INV done st -> cinv done st -> named (keys_of done) (keyof kv) = false ->
  dict_step cfg (merge_rec lit cfg) ro st kv = Ok st' -> cinv (done ++ [kv]) st'.
Proof.
  intros done [[kvs buf] pos] [key val] st' I [C1 C2] Hn H. cbn [fst snd] in *.
  destruct (new_key_side done (kvs, buf, pos) _ I Hn) as [A B]. cbn [fst snd] in A, B.
  change (keyof (key, val)) with (key_val key) in *.
  destruct (assoc_key (key_val key) kvs) eqn:Ek.
  - assert (Hne : assoc_key (key_val key) kvs <> None) by congruence.
    pose proof (step_present_pos kvs buf pos key val st' Hne H) as Hp.
    destruct (dict_step_present lit cfg ro kvs buf pos key val st' Hne H) as [lv [v [pos' [_ [_ [-> _]]]]]].
    cbn [fst snd] in *. unfold cinv. cbn [fst snd].
    rewrite cnt_new_snoc, cnt_go_snoc. unfold inL. change (keyof (key, val)) with (key_val key).
    rewrite (A ltac:(discriminate)). cbn [andb]. rewrite set_val_length, flush_length. simpl List.length.
    destruct (mg_counted (key, val)); lia.
  - assert (Hab : assoc_key (keyof (key, val)) kvs = None) by exact Ek.
    rewrite (dict_step_absent lit cfg ro kvs buf pos (key, val) Hab) in H. inversion H; subst st'.
    unfold cinv. cbn [fst snd]. rewrite cnt_new_snoc, cnt_go_snoc. unfold inL. change (keyof (key, val)) with (key_val key).
    rewrite (B eq_refl). cbn [andb]. rewrite app_length. simpl List.length. lia.
Qed.

Lemma both_loop : forall items done st st',
  INV done st -> cinv done st -> leafkeys items -> mg_distinct_from (keys_of done) items = true ->
  dict_loop lit cfg ro items st = Ok st' ->
  INV (done ++ items) st' /\ cinv (done ++ items) st'.
Proof.
  induction items as [|kv rest IH]; intros done st st' I C HL HD H.
  - simpl in H. inversion H; subst. now rewrite app_nil_r.
  - rewrite dict_loop_cons in H.
    destruct (dict_step cfg (merge_rec lit cfg) ro st kv) as [st1| |] eqn:Es; simpl in H; try discriminate.
    inversion HL; subst. apply distinct_from_cons in HD. destruct HD as [D1 D2].
    pose proof (inv_step lit cfg ro lkvs Lleaf done st kv st1 I H2 D1 Es) as I'.
    pose proof (cinv_step done st kv st1 I C D1 Es) as C'.
    replace (done ++ kv :: rest) with ((done ++ [kv]) ++ rest) by (rewrite <- app_assoc; reflexivity).
    apply (IH _ st1); auto. rewrite keys_of_app. exact D2.
Qed.

Lemma cinv_init : cinv [] (lkvs, [], 0).
Proof. unfold cinv, cnt_new, cnt_go. simpl. lia. Qed.

(* ---------- a written right-only item stays where it is ---------- *)
Definition sits (j : nat) (y : node * node) (st : dstate) : Prop :=
  j < snd st /\ nth_error (fst (fst st)) j = Some y.

Lemma nth_some_lt {A} : forall (l : list A) j y, nth_error l j = Some y -> j < List.length l.
Proof. intros l j y H. apply nth_error_Some. congruence. Qed.

Lemma sits_step : forall done st kv st' j y,
  INV done st -> named (keys_of done) (keyof kv) = false ->
  dict_step cfg (merge_rec lit cfg) ro st kv = Ok st' ->
  is_leaf (fst y) = true -> inL L y = false -> sits j y st -> sits j y st'.
Proof.
  intros done [[kvs buf] pos] [key val] st' j y I Hn H Hl Hy [S1 S2]. cbn [fst snd] in *.
  destruct (new_key_side done (kvs, buf, pos) _ I Hn) as [A B]. cbn [fst snd] in A, B.
  change (keyof (key, val)) with (key_val key) in *.
  destruct (assoc_key (key_val key) kvs) eqn:Ek.
  - assert (Hne : assoc_key (key_val key) kvs <> None) by congruence.
    pose proof (step_present_pos kvs buf pos key val st' Hne H) as Hp.
    destruct (dict_step_present lit cfg ro kvs buf pos key val st' Hne H) as [lv [v [pos' [_ [_ [-> _]]]]]].
    cbn [fst snd] in *. split; cbn [fst snd]; [lia|].
    apply set_val_nth_other; [|exact Hl|].
    + rewrite flush_low; [exact S2|exact S1|eapply nth_some_lt; eauto].
    + destruct (py_eq (keyof y) (key_val key)) eqn:E; [|reflexivity].
      unfold inL in Hy. rewrite (named_congr L _ _ E), (A ltac:(discriminate)) in Hy. discriminate.
  - assert (Hab : assoc_key (keyof (key, val)) kvs = None) by exact Ek.
    rewrite (dict_step_absent lit cfg ro kvs buf pos (key, val) Hab) in H. inversion H; subst st'.
    split; cbn [fst snd]; [lia|exact S2].
Qed.

Lemma sits_loop : forall items done st st' j y,
  INV done st -> leafkeys items -> mg_distinct_from (keys_of done) items = true ->
  dict_loop lit cfg ro items st = Ok st' ->
  is_leaf (fst y) = true -> inL L y = false -> sits j y st -> sits j y st'.
Proof.
  induction items as [|kv rest IH]; intros done st st' j y I HL HD H Hl Hy S.
  - simpl in H. inversion H; subst. exact S.
  - rewrite dict_loop_cons in H.
    destruct (dict_step cfg (merge_rec lit cfg) ro st kv) as [st1| |] eqn:Es; simpl in H; try discriminate.
    inversion HL; subst. apply distinct_from_cons in HD. destruct HD as [D1 D2].
    pose proof (inv_step lit cfg ro lkvs Lleaf done st kv st1 I H2 D1 Es) as I'.
    apply (IH (done ++ [kv]) st1 st' j y I'); auto; [rewrite keys_of_app; exact D2|].
    exact (sits_step done st kv st1 j y I D1 Es Hl Hy S).
Qed.

(* ---------- a run of right-only keys is buffered as it is ---------- *)
Lemma run_block : forall blk done kvs buf pos st',
  INV done (kvs, buf, pos) -> leafkeys blk -> mg_distinct_from (keys_of done) blk = true ->
  Forall (fun kv => inL L kv = false) blk ->
  dict_loop lit cfg ro blk (kvs, buf, pos) = Ok st' ->
  st' = (kvs, buf ++ blk, pos + List.length blk).
Proof.
  induction blk as [|kv rest IH]; intros done kvs buf pos st' I HL HD HB H.
  - simpl in H. inversion H; subst. simpl. rewrite app_nil_r, Nat.add_0_r. reflexivity.
  - rewrite dict_loop_cons in H. inversion HL; subst. inversion HB; subst.
    apply distinct_from_cons in HD. destruct HD as [D1 D2].
    destruct (side_of_named done (kvs, buf, pos) _ I D1) as [_ B]. cbn [fst snd] in B.
    assert (Hab : assoc_key (keyof kv) kvs = None) by (apply B; assumption).
    pose proof (dict_step_absent lit cfg ro kvs buf pos kv Hab) as Es. rewrite Es in H. cbn [bind] in H.
    pose proof (inv_step lit cfg ro lkvs Lleaf done _ kv _ I H2 D1 Es) as I'.
    rewrite (IH (done ++ [kv]) kvs (buf ++ [kv]) (S pos) st' I' H3) in *; auto.
    + rewrite <- app_assoc. simpl. f_equal. lia.
    + rewrite keys_of_app. exact D2.
    + rewrite keys_of_app. exact D2.
Qed.

Lemma dict_loop_app : forall a b st,
  dict_loop lit cfg ro (a ++ b) st = (do s <- dict_loop lit cfg ro a st; dict_loop lit cfg ro b s).
Proof.
  induction a as [|kv r IH]; intros b st; [reflexivity|].
  simpl app. rewrite !dict_loop_cons. destruct (dict_step cfg (merge_rec lit cfg) ro st kv); cbn [bind]; auto.
Qed.

Lemma distinct_app : forall a b seen, mg_distinct_from seen (a ++ b) = true ->
  mg_distinct_from seen a = true /\ mg_distinct_from (seen ++ keys_of a) b = true.
Proof.
  induction a as [|kv r IH]; intros b seen H.
  - simpl. rewrite app_nil_r. auto.
  - simpl app in H. apply distinct_from_cons in H. destruct H as [H1 H2].
    destruct (IH b _ H2) as [A B]. split.
    + simpl. apply andb_true_iff. split; [apply negb_true_iff; exact H1|exact A].
    + simpl keys_of. rewrite <- app_assoc in B. exact B.
Qed.

(* the run begins with an empty buffer: nothing before it, or a common key just before it *)
Definition mg_run_start (pre : list (node * node)) : Prop :=
  pre = [] \/ exists pre' c, pre = pre' ++ [c] /\ inL L c = true.

Lemma start_empty_buffer : forall pre st,
  leafkeys pre -> mg_distinct_from [] pre = true -> mg_run_start pre ->
  dict_loop lit cfg ro pre (lkvs, [], 0) = Ok st -> snd (fst st) = [].
Proof.
  intros pre st HL HD [->|[pre' [c [-> Hc]]]] H.
  - simpl in H. inversion H; reflexivity.
  - rewrite dict_loop_app in H.
    destruct (dict_loop lit cfg ro pre' (lkvs, [], 0)) as [s1| |] eqn:E1; cbn [bind] in H; try discriminate.
    apply Forall_app in HL. destruct HL as [HL1 HL2]. apply distinct_app in HD. destruct HD as [D1 D2].
    pose proof (inv_loop lit cfg ro lkvs Lleaf pre' [] _ _ (inv_init lit cfg ro lkvs) HL1 D1 E1) as I1. simpl in I1.
    rewrite dict_loop_cons in H.
    destruct (dict_step cfg (merge_rec lit cfg) ro s1 c) as [s2| |] eqn:E2; cbn [bind] in H; try discriminate.
    simpl in H. inversion H; subst s2.
    apply distinct_from_cons in D2. destruct D2 as [D2 _]. simpl in D2.
    destruct (side_of_named pre' s1 _ I1 D2) as [A _]. destruct s1 as [[kvs buf] pos]. destruct c as [key val].
    cbn [fst snd] in A.
    destruct (dict_step_present lit cfg ro kvs buf pos key val st (A Hc) E2) as [lv [v [pos' [_ [_ [-> _]]]]]].
    reflexivity.
Qed.

(* ---------- THE POSITION FORMULA ---------- *)
Theorem right_only_position : forall rkvs pre blk c post kvsF bufF posF,
  leafkeys rkvs -> mg_distinct rkvs = true ->
  rkvs = pre ++ blk ++ c :: post ->
  mg_run_start pre -> Forall (fun kv => inL L kv = false) blk -> inL L c = true ->
  dict_loop lit cfg ro rkvs (lkvs, [], 0) = Ok (kvsF, bufF, posF) ->
  forall i y, nth_error blk i = Some y ->
    nth_error (kvsF ++ bufF)
      (Nat.min (2 * cnt_new pre + cnt_go pre + List.length blk) (List.length lkvs + cnt_new pre) + i) = Some y.
Proof.
  intros rkvs pre blk c post kvsF bufF posF HL HD -> HS HB Hc H i y Hy.
  unfold mg_distinct in HD.
  apply Forall_app in HL. destruct HL as [HLpre HL]. apply Forall_app in HL. destruct HL as [HLblk HLc].
  inversion HLc as [|? ? HLc1 HLpost]; subst.
  apply distinct_app in HD. destruct HD as [Dpre HD]. apply distinct_app in HD. destruct HD as [Dblk HD].
  simpl app in HD. pose proof HD as HDc. apply distinct_from_cons in HDc. destruct HDc as [Dc Dpost].
  rewrite dict_loop_app in H.
  destruct (dict_loop lit cfg ro pre (lkvs, [], 0)) as [[[kvs1 buf1] pos1]| |] eqn:E1; cbn [bind] in H; try discriminate.
  pose proof (start_empty_buffer pre _ HLpre Dpre HS E1) as Eb. cbn [fst snd] in Eb. subst buf1.
  destruct (both_loop pre [] _ _ (inv_init lit cfg ro lkvs) cinv_init HLpre Dpre E1) as [I1 [C1 C2]].
  simpl app in I1, C1, C2. cbn [fst snd] in C1, C2. simpl List.length in C1, C2.
  rewrite dict_loop_app in H.
  destruct (dict_loop lit cfg ro blk (kvs1, [], pos1)) as [s2| |] eqn:E2; cbn [bind] in H; try discriminate.
  pose proof (run_block blk pre kvs1 [] pos1 s2 I1 HLblk Dblk HB E2) as ->. simpl app in *.
  pose proof (inv_loop lit cfg ro lkvs Lleaf blk pre _ _ I1 HLblk Dblk E2) as I2.
  rewrite dict_loop_cons in H.
  destruct (dict_step cfg (merge_rec lit cfg) ro (kvs1, blk, pos1 + List.length blk) c) as [s3| |] eqn:E3;
    cbn [bind] in H; try discriminate.
  destruct c as [key val].
  assert (Dc' : named (keys_of (pre ++ blk)) (keyof (key, val)) = false) by (rewrite keys_of_app; exact Dc).
  destruct (side_of_named (pre ++ blk) _ _ I2 Dc') as [A _]. cbn [fst snd] in A.
  pose proof (A Hc) as Hne. change (keyof (key, val)) with (key_val key) in Hne.
  pose proof (step_present_pos kvs1 blk (pos1 + List.length blk) key val s3 Hne E3) as Hp.
  destruct (dict_step_present lit cfg ro kvs1 blk _ key val s3 Hne E3) as [lv [v [pos' [_ [_ [-> _]]]]]].
  cbn [fst snd] in Hp.
  pose proof (inv_step lit cfg ro lkvs Lleaf (pre ++ blk) _ (key, val) _ I2 HLc1 Dc' E3) as I3.
  assert (Yl : is_leaf (fst y) = true).
  { rewrite Forall_forall in HLblk. apply HLblk. eapply nth_error_In; eauto. }
  assert (Yn : inL L y = false).
  { rewrite Forall_forall in HB. apply HB. eapply nth_error_In; eauto. }
  set (J := Nat.min (pos1 + List.length blk) (List.length kvs1) + i).
  assert (Hi : i < List.length blk) by (eapply nth_some_lt; eauto).
  assert (S3 : sits J y (set_val (key_val key) v (fst (flush blk (pos1 + List.length blk) kvs1)), [], pos')).
  { split; cbn [fst snd]; [unfold J; lia|].
    apply set_val_nth_other; [apply flush_hit; exact Hy|exact Yl|].
    destruct (py_eq (keyof y) (key_val key)) eqn:E; [|reflexivity].
    unfold inL in Yn, Hc. change (keyof (key, val)) with (key_val key) in Hc.
    rewrite (named_congr L _ _ E), Hc in Yn. discriminate. }
  assert (Dpost' : mg_distinct_from (keys_of ((pre ++ blk) ++ [(key, val)])) post = true).
  { rewrite !keys_of_app. exact Dpost. }
  pose proof (sits_loop post _ _ _ J y I3 HLpost Dpost' H Yl Yn S3) as [_ SF]. cbn [fst snd] in SF.
  replace (2 * cnt_new pre + cnt_go pre + List.length blk) with (pos1 + List.length blk) by lia.
  replace (List.length lkvs + cnt_new pre) with (List.length kvs1) by lia.
  fold J. rewrite nth_error_app1 by exact (nth_some_lt _ _ _ SF).
  exact SF.
Qed.

(* a trailing run (no common key behind it) is appended *)
Theorem right_only_trailing : forall rkvs pre blk kvsF bufF posF,
  leafkeys rkvs -> mg_distinct rkvs = true ->
  rkvs = pre ++ blk ->
  mg_run_start pre -> Forall (fun kv => inL L kv = false) blk ->
  dict_loop lit cfg ro rkvs (lkvs, [], 0) = Ok (kvsF, bufF, posF) ->
  forall i y, nth_error blk i = Some y ->
    nth_error (kvsF ++ bufF) (List.length lkvs + cnt_new pre + i) = Some y.
Proof.
  intros rkvs pre blk kvsF bufF posF HL HD -> HS HB H i y Hy.
  unfold mg_distinct in HD.
  apply Forall_app in HL. destruct HL as [HLpre HLblk].
  apply distinct_app in HD. destruct HD as [Dpre Dblk]. simpl app in Dblk.
  rewrite dict_loop_app in H.
  destruct (dict_loop lit cfg ro pre (lkvs, [], 0)) as [[[kvs1 buf1] pos1]| |] eqn:E1; cbn [bind] in H; try discriminate.
  pose proof (start_empty_buffer pre _ HLpre Dpre HS E1) as Eb. cbn [fst snd] in Eb. subst buf1.
  destruct (both_loop pre [] _ _ (inv_init lit cfg ro lkvs) cinv_init HLpre Dpre E1) as [I1 [C1 C2]].
  simpl app in I1, C1, C2. cbn [fst snd] in C1, C2. simpl List.length in C1, C2.
  pose proof (run_block blk pre kvs1 [] pos1 _ I1 HLblk Dblk HB H) as E. inversion E; subst kvsF bufF posF. simpl app.
  replace (List.length lkvs + cnt_new pre + i) with (List.length kvs1 + i) by lia.
  rewrite nth_error_app2 by lia. replace (List.length kvs1 + i - List.length kvs1) with i by lia. exact Hy.
Qed.

End Pos.

(* ---------- stated of the Hash merge ---------- *)
Theorem hash_union_position : forall lit cfg ri rkvs nc li lkvs res pre blk c post,
  mg_keys_leaf lkvs = true -> mg_keys_leaf rkvs = true -> mg_distinct rkvs = true ->
  merge_rec lit cfg (NMap ri rkvs) nc (NMap li lkvs) = Ok (NMap li res) ->
  rkvs = pre ++ blk ++ c :: post ->
  mg_run_start lkvs pre -> Forall (fun kv => inL (keys_of lkvs) kv = false) blk -> inL (keys_of lkvs) c = true ->
  forall i y, nth_error blk i = Some y ->
    nth_error res (Nat.min (2 * cnt_new lkvs pre + cnt_go cfg (oid ri) lkvs pre + List.length blk)
                           (List.length lkvs + cnt_new lkvs pre) + i) = Some y.
Proof.
  intros lit cfg ri rkvs nc li lkvs res pre blk c post HL HR HD H E HS HB Hc i y Hy.
  rewrite merge_rec_map in H.
  destruct (dict_loop lit cfg (oid ri) rkvs (lkvs, [], 0)) as [[[kvs buf] pos]| |] eqn:El; simpl in H; try discriminate.
  inversion H; subst res.
  exact (right_only_position lit cfg (oid ri) lkvs (leafkeys_of_bool _ HL) rkvs pre blk c post kvs buf pos
           (leafkeys_of_bool _ HR) HD E HS HB Hc El i y Hy).
Qed.

Theorem hash_union_trailing : forall lit cfg ri rkvs nc li lkvs res pre blk,
  mg_keys_leaf lkvs = true -> mg_keys_leaf rkvs = true -> mg_distinct rkvs = true ->
  merge_rec lit cfg (NMap ri rkvs) nc (NMap li lkvs) = Ok (NMap li res) ->
  rkvs = pre ++ blk ->
  mg_run_start lkvs pre -> Forall (fun kv => inL (keys_of lkvs) kv = false) blk ->
  forall i y, nth_error blk i = Some y ->
    nth_error res (List.length lkvs + cnt_new lkvs pre + i) = Some y.
Proof.
  intros lit cfg ri rkvs nc li lkvs res pre blk HL HR HD H E HS HB i y Hy.
  rewrite merge_rec_map in H.
  destruct (dict_loop lit cfg (oid ri) rkvs (lkvs, [], 0)) as [[[kvs buf] pos]| |] eqn:El; simpl in H; try discriminate.
  inversion H; subst res.
  exact (right_only_trailing lit cfg (oid ri) lkvs (leafkeys_of_bool _ HL) rkvs pre blk kvs buf pos
           (leafkeys_of_bool _ HR) HD E HS HB El i y Hy).
Qed.
