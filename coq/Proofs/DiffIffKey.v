(* C06, identity-key modes (--arrays position | value, --aoh key | deep, no [keys]
   configuration): the diff contains a non-SAME entry exactly when the
   documents differ as data with every Array-of-Hashes read as a bag of
   records named by its identity key -- under the guard [kguard] of finding
   F4 (every list pair compared by identity key is well keyed). *)
From Coq Require Import List Ascii String ZArith NArith Bool Arith Lia Permutation.
From YP Require Import Outcome PyStr PyVal Doc Diff C06Spec DiffBase DiffEq DiffKeys DiffSync DiffSym DiffAcct
  DiffKSync DiffCover DiffIff.
Import ListNotations.
Open Scope nat_scope.

Lemma kguard_map : forall am hm i kvs j kvs',
  kguard am hm (NMap i kvs) (NMap j kvs') =
  forallb (fun kv => match assoc_key (leaf_value (fst kv)) kvs' with
                     | Some w => kguard am hm (snd kv) w
                     | None => true
                     end) kvs.
Proof. reflexivity. Qed.

Fixpoint zipall (f : node -> node -> bool) (l l' : list node) : bool :=
  match l, l' with
  | x :: r, y :: r' => f x y && zipall f r r'
  | _, _ => true
  end.

Lemma kguard_seq : forall am hm i els j els',
  kguard am hm (NSeq i els) (NSeq j els') =
  match list_mode am hm els' with
  | LPos true => zipall (kguard am hm) els els'
  | LPos false => true
  | LValue => forallb (fun x => forallb (fun y => if data_eq x y then kguard am hm x y else true) els') els
  | LKey d =>
      match first_key els' with
      | Some K =>
          keyed_list K els && keyed_list K els' &&
          (if d then forallb (fun x => forallb (fun y => if same_id K x y then kguard am hm x y else true) els') els
           else true)
      | None => false
      end
  end.
Proof.
  intros. simpl. destruct (list_mode am hm els') as [[|]| |d]; auto.
  revert els'. induction els as [|x r IH]; destruct els'; simpl; auto. rewrite IH. reflexivity.
Qed.

Lemma zipall_combine : forall f l l', zipall f l l' = true -> forall x y, In (x, y) (combine l l') -> f x y = true.
Proof.
  induction l as [|a r IH]; destruct l' as [|b r']; simpl; intros H x y Hin; try contradiction.
  apply andb_true_iff in H. destruct H as [H1 H2].
  destruct Hin as [E|Hin]; [inversion E; subst; exact H1 | eapply IH; eauto].
Qed.

Lemma list_mode_keyed_cases : forall am hm rels, hm = AohKey \/ hm = AohDeep ->
  list_mode am hm rels <> LPos false.
Proof.
  intros am hm rels [-> | ->]; unfold list_mode; destruct rels as [|[| | |] ?]; destruct am; discriminate.
Qed.

(* ---- under the guard, exact equality implies the equivalence ---- *)
Lemma forall2b_combine {A} (f g : A -> A -> bool) : forall l l',
  (forall x y, In (x, y) (combine l l') -> f x y = true -> g x y = true) ->
  forall2b f l l' = true -> forall2b g l l' = true.
Proof.
  induction l as [|x r IH]; destruct l' as [|y r']; simpl; intros Hs H; auto.
  apply andb_true_iff in H. destruct H as [H1 H2]. apply andb_true_iff. split.
  - apply Hs; auto.
  - apply IH; [intros a b Hab; apply Hs; right; exact Hab | exact H2].
Qed.

Lemma forall2b_partner {A} (f : A -> A -> bool) : forall l l', forall2b f l l' = true ->
  List.length l = List.length l' /\
  forall x, In x l -> exists y, In (x, y) (combine l l') /\ f x y = true.
Proof.
  induction l as [|a r IH]; destruct l' as [|b r']; simpl; intros H; try discriminate.
  - split; auto. intros x [].
  - apply andb_true_iff in H. destruct H as [H1 H2]. destruct (IH r' H2) as [L P]. split; [congruence|].
    intros x [<-|Hx]; [exists b; auto|]. destruct (P x Hx) as [y [Hy Fy]]. exists y. auto.
Qed.

Lemma data_eq_same_id : forall K x y u v, wf_doc x = true -> wf_doc y = true ->
  data_eq x y = true -> id_val K x = Some u -> id_val K y = Some v -> py_eq u v = true.
Proof.
  intros K x y u v Wx Wy D Ix Iy.
  destruct x as [|i kvs| |]; simpl in Ix; try discriminate.
  destruct y as [|j kvs'| |]; simpl in Iy; try discriminate.
  destruct (assoc_key K kvs) as [[iu u'| | |]|] eqn:Ax; try discriminate.
  destruct (tag iu) eqn:Tu; try discriminate. inversion Ix; subst u'.
  destruct (assoc_key K kvs') as [[iv v'| | |]|] eqn:Ay; try discriminate.
  destruct (tag iv) eqn:Tv; try discriminate. inversion Iy; subst v'.
  destruct (wf_map_inv _ _ Wx) as [Xp _]. destruct (wf_map_inv _ _ Wy) as [Yp [Yn _]].
  rewrite data_eq_map in D. apply andb_true_iff in D. destruct D as [_ F]. rewrite forallb_forall in F.
  destruct (child_map_item _ _ _ Xp Ax) as [k [Hk Ek]].
  specialize (F _ Hk). apply existsb_exists in F. destruct F as [[k' w] [Hk' X]]. simpl in X.
  apply andb_true_iff in X. destruct X as [X1 X2].
  assert (E : py_eq (key_val k') K = true).
  { eapply py_eq_trans; [apply py_eq_sym; exact X1 | exact Ek]. }
  rewrite <- (assoc_key_congr kvs' _ _ E) in Ay.
  rewrite (assoc_key_in kvs' k' w Yp Yn Hk') in Ay. inversion Ay; subst w.
  simpl in X2. apply andb_true_iff in X2. tauto.
Qed.

Theorem data_eq_equiv_keyed : forall am hm,
  forall a b, wf_doc a = true -> wf_doc b = true -> kguard am hm a b = true ->
    data_eq a b = true -> equiv am hm a b = true.
Proof.
  intros am hm.
  induction a as [i v|i kvs IH|i els IH|i els IH] using node_ind'; intros b Hwa Hwb HG H;
    destruct b as [j w|j kvs'|j els'|j els']; try discriminate; try exact H.
  - rewrite data_eq_map in H. rewrite equiv_map. rewrite kguard_map in HG. rewrite forallb_forall in HG.
    apply andb_true_iff in H. destruct H as [H H3]. rewrite H. simpl.
    destruct (wf_map_inv _ _ Hwa) as [_ [_ Av]]. destruct (wf_map_inv _ _ Hwb) as [Bp [Bn Bv]].
    apply forallb_forall. intros kv Hkv. rewrite forallb_forall in H3. specialize (H3 kv Hkv).
    apply existsb_exists in H3. destruct H3 as [kv' [Hkv' X]]. apply andb_true_iff in X. destruct X as [X1 X2].
    apply existsb_exists. exists kv'. split; auto. rewrite X1. simpl.
    rewrite Forall_forall in IH. destruct (IH kv Hkv) as [_ IHv]. apply IHv; auto.
    specialize (HG kv Hkv). destruct kv' as [k' w]. simpl in *.
    change (leaf_value (fst kv)) with (key_val (fst kv)) in *. change (leaf_value k') with (key_val k') in X1.
    rewrite (assoc_key_congr kvs' _ _ X1), (assoc_key_in kvs' k' w Bp Bn Hkv') in HG. exact HG.
  - rewrite data_eq_seq in H. rewrite equiv_seq. rewrite kguard_seq in HG.
    apply andb_true_iff in H. destruct H as [H1 H2]. rewrite H1. simpl.
    pose proof (wf_seq_inv _ _ Hwa) as Aw. pose proof (wf_seq_inv _ _ Hwb) as Bw.
    rewrite Forall_forall in IH.
    destruct (list_mode am hm els') as [[|]| |d] eqn:M.
    + eapply forall2b_combine; [|exact H2]. intros x y Hxy D.
      pose proof (in_combine_l _ _ _ _ Hxy) as Hx. pose proof (in_combine_r _ _ _ _ Hxy) as Hy.
      apply IH; auto. eapply zipall_combine; eauto.
    + exact H2.
    + apply forall2b_bag; auto. intros x y Hx Hy D. apply data_eq_sym; auto.
    + unfold keyed_eqb. destruct (first_key els') as [K|]; [|discriminate].
      apply andb_true_iff in HG. destruct HG as [HG G3]. apply andb_true_iff in HG. destruct HG as [KL KR].
      apply andb_true_iff in KL. destruct KL as [KLs _]. apply andb_true_iff in KR. destruct KR as [KRs _].
      rewrite forallb_forall in KLs, KRs.
      destruct (forall2b_partner _ _ _ H2) as [Len Part]. rewrite Len, Nat.eqb_refl. simpl.
      apply forallb_forall. intros x Hx. destruct (Part x Hx) as [y [Hxy D]].
      pose proof (in_combine_r _ _ _ _ Hxy) as Hy.
      apply existsb_exists. exists y. split; auto.
      assert (S : same_id K x y = true).
      { unfold same_id. specialize (KLs x Hx). specialize (KRs y Hy).
        destruct (id_val K x) as [u|] eqn:Ix; try discriminate. destruct (id_val K y) as [v|] eqn:Iy; try discriminate.
        eapply (data_eq_same_id K x y); eauto. }
      rewrite S. simpl. destruct d; [|exact D].
      apply IH; auto. rewrite forallb_forall in G3. specialize (G3 x Hx).
      rewrite forallb_forall in G3. specialize (G3 y Hy). rewrite S in G3. exact G3.
Qed.

Section KeyedInstance.
  Variable path_eq : string -> string -> outcome bool.
  Variable cfg : dcfg.
  Variable am : arr_opt.
  Variable hm : aoh_opt.
  Hypothesis Hu : uniform cfg am hm.
  Hypothesis Hc : c_keys cfg = [].

  Definition KG (a b : node) : Prop := kguard am hm a b = true.

  Lemma KG_map : forall i lkvs j rkvs k rv lv,
    okd (NMap i lkvs) -> okd (NMap j rkvs) -> KG (NMap i lkvs) (NMap j rkvs) ->
    In (k, rv) rkvs -> map_get k lkvs = Some lv -> KG lv rv.
  Proof.
    intros i lkvs j rkvs k rv lv WL WR H Hin Eg. unfold KG in *.
    destruct (wf_map_inv _ _ WL) as [Lp [Ln _]]. destruct (wf_map_inv _ _ WR) as [Rp [Rn _]].
    assert (Pk : plain_leaf k = true) by (rewrite forallb_forall in Rp; apply (Rp (k, rv) Hin)).
    rewrite kguard_map in H. rewrite forallb_forall in H.
    rewrite (map_get_findk _ _ Lp Pk) in Eg.
    destruct (findk kkey (key_val k) lkvs) as [[kn w]|] eqn:F; simpl in Eg; try discriminate.
    inversion Eg; subst w. apply findk_some in F. destruct F as [Hkn E]. unfold kkey in E. simpl in E.
    specialize (H (kn, lv) Hkn). simpl in H.
    change (leaf_value kn) with (key_val kn) in H.
    rewrite (assoc_key_congr rkvs _ _ E) in H.
    rewrite (assoc_key_in rkvs k rv Rp Rn Hin) in H. exact H.
  Qed.

  Lemma KG_leaf : forall a b, plain_leaf a = true -> plain_leaf b = true -> KG a b.
  Proof.
    intros a b Pa Pb. destruct (plain_leaf_inv _ Pa) as [i [v [-> _]]]. destruct (plain_leaf_inv _ Pb) as [j [w [-> _]]].
    reflexivity.
  Qed.

  Lemma KG_zip : forall i lels j rels, KG (NSeq i lels) (NSeq j rels) ->
    list_mode am hm rels = LPos true -> forall x y, In (x, y) (combine lels rels) -> KG x y.
  Proof.
    intros i lels j rels H M x y Hin. unfold KG in *. rewrite kguard_seq, M in H.
    eapply zipall_combine; eauto.
  Qed.

  Lemma KG_value : forall i lels j rels, KG (NSeq i lels) (NSeq j rels) ->
    list_mode am hm rels = LValue ->
    forall x y, In x lels -> In y rels -> data_eq x y = true -> KG x y.
  Proof.
    intros i lels j rels H M x y Hx Hy D. unfold KG in *. rewrite kguard_seq, M in H.
    rewrite forallb_forall in H. specialize (H x Hx). rewrite forallb_forall in H. specialize (H y Hy).
    rewrite D in H. exact H.
  Qed.

  Lemma KG_equal : forall x y, okd x -> okd y -> KG x y -> data_eq x y = true -> equiv am hm x y = true.
  Proof. intros x y W1 W2 H D. apply data_eq_equiv_keyed; auto. Qed.

  Lemma KG_key : forall i lels j rels d,
    okd (NSeq i lels) -> okd (NSeq j rels) -> KG (NSeq i lels) (NSeq j rels) ->
    list_mode am hm rels = LKey d ->
    c_keys cfg = [] /\ exists K, first_key rels = Some K /\ keyed_list K lels = true /\ keyed_list K rels = true /\
      (d = true -> forall x y, In x lels -> In y rels -> same_id K x y = true -> KG x y).
  Proof.
    intros i lels j rels d _ _ H M. split; [exact Hc|]. unfold KG in *. rewrite kguard_seq, M in H.
    destruct (first_key rels) as [K|]; [|discriminate]. exists K. split; auto.
    apply andb_true_iff in H. destruct H as [H H3]. apply andb_true_iff in H. destruct H as [H1 H2].
    repeat split; auto.
    intros -> x y Hx Hy S. rewrite forallb_forall in H3. specialize (H3 x Hx).
    rewrite forallb_forall in H3. specialize (H3 y Hy). rewrite S in H3. exact H3.
  Qed.

  Theorem compare_to_iff_keyed : forall L R es,
    wf_doc L = true -> wf_doc R = true ->
    kguard am hm L R = true ->
    compare_to path_eq cfg L R = Ok es -> shows_difference es = negb (equiv am hm L R).
  Proof.
    intros L R es HwL HwR HG H.
    apply (compare_to_iff_G path_eq cfg am hm Hu KG KG_map KG_leaf KG_zip KG_value KG_equal KG_key L R es); auto.
  Qed.
End KeyedInstance.

(* ---- a well-keyed document is equivalent to itself ---- *)
Lemma forall2b_refl {A} (f : A -> A -> bool) : forall l, (forall x, In x l -> f x x = true) -> forall2b f l l = true.
Proof.
  induction l as [|x r IH]; simpl; intros H; auto.
  rewrite (H x (or_introl eq_refl)). simpl. apply IH. intros y Hy. apply H. right; exact Hy.
Qed.

Lemma zipall_self : forall f l, zipall f l l = true -> forall x, In x l -> f x x = true.
Proof.
  induction l as [|a r IH]; simpl; intros H x Hx; [contradiction|].
  apply andb_true_iff in H. destruct H as [H1 H2]. destruct Hx as [<-|Hx]; auto.
Qed.

Theorem equiv_refl_keyed : forall am hm,
  forall a, wf_doc a = true -> kguard am hm a a = true -> equiv am hm a a = true.
Proof.
  intros am hm a Hw HG. apply data_eq_equiv_keyed; auto. apply data_eq_refl.
Qed.

(* ---- statements for Properties/C06.v ---- *)
Lemma nonsame_iff_differ_keyed :
  forall path_eq cfg am hm L R es,
    uniform cfg am hm -> c_keys cfg = [] ->
    wf_doc L = true -> wf_doc R = true ->
    kguard am hm L R = true ->
    compare_to path_eq cfg L R = Ok es ->
    shows_difference es = negb (equiv am hm L R).
Proof. intros. eapply compare_to_iff_keyed; eauto. Qed.

Lemma reflexive_keyed :
  forall path_eq cfg am hm L es,
    uniform cfg am hm -> c_keys cfg = [] ->
    wf_doc L = true -> kguard am hm L L = true ->
    compare_to path_eq cfg L L = Ok es -> shows_difference es = false.
Proof.
  intros path_eq cfg am hm L es Hu Hc Hw HG H.
  rewrite (compare_to_iff_keyed path_eq cfg am hm Hu Hc L L es Hw Hw HG H).
  rewrite (equiv_refl_keyed am hm L Hw HG). reflexivity.
Qed.
