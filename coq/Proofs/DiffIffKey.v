(* C06, identity-key modes (--arrays position, --aoh key | deep, no [keys]
   configuration): the diff contains a non-SAME entry exactly when the
   documents differ as data with every Array-of-Hashes read as a bag of
   records named by its identity key -- under the guard [kguard] of finding
   F4 (every list pair compared by identity key is well keyed). *)
From Coq Require Import List Ascii String ZArith NArith Bool Arith Lia Permutation.
From YP Require Import Outcome PyStr PyVal Doc Diff C06Spec DiffBase DiffEq DiffKeys DiffSync DiffSym DiffAcct
  DiffKSync DiffCover DiffIff.
Import ListNotations.
Open Scope nat_scope.

Lemma kguard_map : forall hm i kvs j kvs',
  kguard hm (NMap i kvs) (NMap j kvs') =
  forallb (fun kv => match assoc_key (leaf_value (fst kv)) kvs' with
                     | Some w => kguard hm (snd kv) w
                     | None => true
                     end) kvs.
Proof. reflexivity. Qed.

Fixpoint zipall (f : node -> node -> bool) (l l' : list node) : bool :=
  match l, l' with
  | x :: r, y :: r' => f x y && zipall f r r'
  | _, _ => true
  end.

Lemma kguard_seq : forall hm i els j els',
  kguard hm (NSeq i els) (NSeq j els') =
  match list_mode ArrPosition hm els' with
  | LPos true => zipall (kguard hm) els els'
  | LKey d =>
      match first_key els' with
      | Some K =>
          keyed_list K els && keyed_list K els' &&
          (if d then forallb (fun x => forallb (fun y => if same_id K x y then kguard hm x y else true) els') els
           else true)
      | None => false
      end
  | _ => true
  end.
Proof.
  intros. simpl. destruct (list_mode ArrPosition hm els') as [[|]| |d]; auto.
  revert els'. induction els as [|x r IH]; destruct els'; simpl; auto. rewrite IH. reflexivity.
Qed.

Lemma zipall_combine : forall f l l', zipall f l l' = true -> forall x y, In (x, y) (combine l l') -> f x y = true.
Proof.
  induction l as [|a r IH]; destruct l' as [|b r']; simpl; intros H x y Hin; try contradiction.
  apply andb_true_iff in H. destruct H as [H1 H2].
  destruct Hin as [E|Hin]; [inversion E; subst; exact H1 | eapply IH; eauto].
Qed.

Lemma list_mode_keyed_cases : forall hm rels, hm = AohKey \/ hm = AohDeep ->
  list_mode ArrPosition hm rels = LPos true \/ exists d, list_mode ArrPosition hm rels = LKey d.
Proof.
  intros hm rels [-> | ->]; unfold list_mode; destruct rels as [|[| | |] ?]; eauto.
Qed.

Section KeyedInstance.
  Variable path_eq : string -> string -> outcome bool.
  Variable cfg : dcfg.
  Variable hm : aoh_opt.
  Hypothesis Hu : uniform cfg ArrPosition hm.
  Hypothesis Hm : hm = AohKey \/ hm = AohDeep.
  Hypothesis Hc : c_keys cfg = [].

  Definition KG (a b : node) : Prop := kguard hm a b = true.

  Lemma KG_map : forall i lkvs j rkvs k rv lv,
    okd (NMap i lkvs) -> okd (NMap j rkvs) -> KG (NMap i lkvs) (NMap j rkvs) ->
    In (k, rv) rkvs -> map_get k lkvs = Some lv -> KG lv rv.
  Proof.
    intros i lkvs j rkvs k rv lv [WL _] [WR _] H Hin Eg. unfold KG in *.
    destruct (wf_map_inv _ _ WL) as [Lp [Ln _]]. destruct (wf_map_inv _ _ WR) as [Rp [Rn _]].
    assert (Pk : plain_leaf k = true) by (rewrite forallb_forall in Rp; apply (Rp (k, rv) Hin)).
    rewrite kguard_map in H. rewrite forallb_forall in H.
    rewrite (map_get_findk _ _ Lp Pk) in Eg.
    destruct (findk kkey (key_val k) lkvs) as [[kn w]|] eqn:F; simpl in Eg; try discriminate.
    inversion Eg; subst w. apply findk_some in F. destruct F as [Hkn E]. unfold kkey in E. simpl in E.
    specialize (H (kn, lv) Hkn). simpl in H.
    change (leaf_value kn) with (key_val kn) in H.
    rewrite (assoc_key_congr rkvs _ _ E) in H.
    rewrite (assoc_key_in rkvs k rv Rp Rn Hin) in H. exact H.
  Qed.

  Lemma KG_leaf : forall a b, plain_leaf a = true -> plain_leaf b = true -> KG a b.
  Proof.
    intros a b Pa Pb. destruct (plain_leaf_inv _ Pa) as [i [v [-> _]]]. destruct (plain_leaf_inv _ Pb) as [j [w [-> _]]].
    reflexivity.
  Qed.

  Lemma KG_zip : forall i lels j rels, KG (NSeq i lels) (NSeq j rels) ->
    list_mode ArrPosition hm rels = LPos true -> forall x y, In (x, y) (combine lels rels) -> KG x y.
  Proof.
    intros i lels j rels H M x y Hin. unfold KG in *. rewrite kguard_seq, M in H.
    eapply zipall_combine; eauto.
  Qed.

  Lemma KG_value : forall i lels j rels, KG (NSeq i lels) (NSeq j rels) ->
    list_mode ArrPosition hm rels = LValue ->
    unkeyed hm = true /\ forall x y, In x lels -> In y rels -> KG x y.
  Proof.
    intros i lels j rels _ M. exfalso.
    destruct (list_mode_keyed_cases hm rels Hm) as [E|[d E]]; congruence.
  Qed.

  Lemma KG_key : forall i lels j rels d,
    okd (NSeq i lels) -> okd (NSeq j rels) -> KG (NSeq i lels) (NSeq j rels) ->
    list_mode ArrPosition hm rels = LKey d ->
    c_keys cfg = [] /\ exists K, first_key rels = Some K /\ keyed_list K lels = true /\ keyed_list K rels = true /\
      (d = true -> forall x y, In x lels -> In y rels -> same_id K x y = true -> KG x y).
  Proof.
    intros i lels j rels d _ _ H M. split; [exact Hc|]. unfold KG in *. rewrite kguard_seq, M in H.
    destruct (first_key rels) as [K|]; [|discriminate]. exists K. split; auto.
    apply andb_true_iff in H. destruct H as [H H3]. apply andb_true_iff in H. destruct H as [H1 H2].
    repeat split; auto.
    intros -> x y Hx Hy S. rewrite forallb_forall in H3. specialize (H3 x Hx).
    rewrite forallb_forall in H3. specialize (H3 y Hy). rewrite S in H3. exact H3.
  Qed.

  Theorem compare_to_iff_keyed : forall L R es,
    wf_doc L = true -> wf_doc R = true -> untagged L = true -> untagged R = true ->
    kguard hm L R = true ->
    compare_to path_eq cfg L R = Ok es -> shows_difference es = negb (equiv ArrPosition hm L R).
  Proof.
    intros L R es HwL HwR HuL HuR HG H.
    apply (compare_to_iff_G path_eq cfg ArrPosition hm Hu KG KG_map KG_leaf KG_zip KG_value KG_key L R es); auto.
  Qed.
End KeyedInstance.

(* ---- a well-keyed document is equivalent to itself ---- *)
Lemma forall2b_refl {A} (f : A -> A -> bool) : forall l, (forall x, In x l -> f x x = true) -> forall2b f l l = true.
Proof.
  induction l as [|x r IH]; simpl; intros H; auto.
  rewrite (H x (or_introl eq_refl)). simpl. apply IH. intros y Hy. apply H. right; exact Hy.
Qed.

Lemma zipall_self : forall f l, zipall f l l = true -> forall x, In x l -> f x x = true.
Proof.
  induction l as [|a r IH]; simpl; intros H x Hx; [contradiction|].
  apply andb_true_iff in H. destruct H as [H1 H2]. destruct Hx as [<-|Hx]; auto.
Qed.

Theorem equiv_refl_keyed : forall hm, hm = AohKey \/ hm = AohDeep ->
  forall a, wf_doc a = true -> kguard hm a a = true -> equiv ArrPosition hm a a = true.
Proof.
  intros hm Hm.
  induction a as [i v|i kvs IH|i els IH|i els IH] using node_ind'; intros Hw HG.
  - apply data_eq_refl.
  - rewrite equiv_map, tag_eqb_refl, Nat.eqb_refl. simpl.
    destruct (wf_map_inv _ _ Hw) as [Kp [Kn Kw]].
    rewrite kguard_map in HG. rewrite forallb_forall in HG.
    apply forallb_forall. intros kv Hkv. apply existsb_exists. exists kv. split; auto.
    rewrite py_eq_refl. simpl.
    rewrite Forall_forall in IH. destruct (IH kv Hkv) as [_ IHv]. apply IHv; [apply Kw; auto|].
    specialize (HG kv Hkv). destruct kv as [k v]. simpl in *.
    change (leaf_value k) with (key_val k) in HG.
    rewrite (assoc_key_in kvs k v Kp Kn Hkv) in HG. exact HG.
  - rewrite equiv_seq, tag_eqb_refl. simpl. rewrite kguard_seq in HG.
    pose proof (wf_seq_inv _ _ Hw) as Ew. rewrite Forall_forall in IH.
    destruct (list_mode ArrPosition hm els) as [[|]| |d] eqn:M.
    + apply forall2b_refl. intros x Hx. apply IH; auto. eapply zipall_self; eauto.
    + apply forall2b_refl. intros x Hx. apply data_eq_refl.
    + exfalso. destruct (list_mode_keyed_cases hm els Hm) as [E|[d E]]; congruence.
    + unfold keyed_eqb. destruct (first_key els) as [K|]; [|discriminate].
      rewrite Nat.eqb_refl. simpl.
      apply andb_true_iff in HG. destruct HG as [HG H3]. apply andb_true_iff in HG. destruct HG as [H1 _].
      apply andb_true_iff in H1. destruct H1 as [Hs _]. rewrite forallb_forall in Hs.
      apply forallb_forall. intros x Hx. apply existsb_exists. exists x. split; auto.
      assert (S : same_id K x x = true).
      { unfold same_id. specialize (Hs x Hx). destruct (id_val K x); [apply py_eq_refl | discriminate]. }
      rewrite S. simpl. destruct d; [|apply data_eq_refl].
      apply IH; auto. rewrite forallb_forall in H3. specialize (H3 x Hx).
      rewrite forallb_forall in H3. specialize (H3 x Hx). rewrite S in H3. exact H3.
  - apply data_eq_refl.
Qed.

(* ---- statements for Properties/C06.v ---- *)
Lemma nonsame_iff_differ_keyed :
  forall path_eq cfg hm L R es,
    uniform cfg ArrPosition hm -> hm = AohKey \/ hm = AohDeep -> c_keys cfg = [] ->
    wf_doc L = true -> wf_doc R = true -> untagged L = true -> untagged R = true ->
    kguard hm L R = true ->
    compare_to path_eq cfg L R = Ok es ->
    shows_difference es = negb (equiv ArrPosition hm L R).
Proof. intros. eapply compare_to_iff_keyed; eauto. Qed.

Lemma reflexive_keyed :
  forall path_eq cfg hm L es,
    uniform cfg ArrPosition hm -> hm = AohKey \/ hm = AohDeep -> c_keys cfg = [] ->
    wf_doc L = true -> untagged L = true -> kguard hm L L = true ->
    compare_to path_eq cfg L L = Ok es -> shows_difference es = false.
Proof.
  intros path_eq cfg hm L es Hu Hm Hc Hw Hun HG H.
  rewrite (compare_to_iff_keyed path_eq cfg hm Hu Hm Hc L L es Hw Hw Hun Hun HG H).
  rewrite (equiv_refl_keyed hm Hm L Hw HG). reflexivity.
Qed.
