(* C03 (histories): Doc.erase commutes with the declarative edits - the
   substitution of C03spec becomes a replacement at locations, the prune of
   C04spec a removal at locations, the embedding of C09create an embedding of
   plain data. *)
From Coq Require Import List ZArith NArith Bool Lia Arith.
From YP Require Import Outcome PyStr PyVal Doc Searches Mutate C03spec C04spec C09create C03hist.
Import ListNotations.

Theorem erase_subst : forall P repl d,
  erase (subst P repl d) = dsubst (mask_subst P d) (erase repl) (erase d).
Proof.
  intros P repl d. induction d using node_ind'.
  - reflexivity.
  - simpl. f_equal. induction kvs as [|kv r IHr]; simpl; auto.
    inversion H; subst. destruct H2 as [_ Hv]. rewrite <- IHr by assumption.
    destruct (P (oid i) (CKey (fst kv)) (snd kv)); simpl; [reflexivity|]. rewrite Hv. reflexivity.
  - simpl. f_equal. generalize 0. induction els as [|x r IHr]; intros k; simpl; auto.
    inversion H; subst. rewrite <- IHr by assumption.
    destruct (P (oid i) (CIdx k) x); simpl; [reflexivity|]. rewrite H2. reflexivity.
  - reflexivity.
Qed.

(* the replacement of alias keys becomes a re-filing of entries at locations *)
Theorem erase_ksubst : forall K ri rv d,
  erase (ksubst K (NLeaf ri rv) d) = drekey (mask_keys K d) rv (erase d).
Proof.
  intros K ri rv d. induction d using node_ind'.
  - reflexivity.
  - simpl. f_equal. induction kvs as [|kv r IHr]; simpl; auto.
    inversion H; subst. destruct H2 as [_ Hv]. rewrite <- IHr by assumption.
    rewrite Hv. destruct (K (fst kv)); reflexivity.
  - simpl. f_equal. induction els as [|x r IHr]; simpl; auto.
    inversion H; subst. rewrite <- IHr by assumption. rewrite H2. reflexivity.
  - reflexivity.
Qed.

Theorem erase_prune : forall T d, erase (prune T d) = dprune (mask_prune T d) (erase d).
Proof.
  intros T d. induction d using node_ind'.
  - reflexivity.
  - simpl. f_equal. generalize 0. induction kvs as [|kv r IHr]; intros k; simpl; auto.
    inversion H; subst. destruct H2 as [_ Hv]. rewrite <- IHr by assumption.
    destruct (T (oid i) k); simpl; [reflexivity|]. rewrite Hv. reflexivity.
  - simpl. f_equal. generalize 0. induction els as [|x r IHr]; intros k; simpl; auto.
    inversion H; subst. rewrite <- IHr by assumption.
    destruct (T (oid i) k); simpl; [reflexivity|]. rewrite H2. reflexivity.
  - simpl. f_equal. generalize 0. induction els as [|x r IHr]; intros k; simpl; auto.
    rewrite <- IHr by (inversion H; assumption).
    destruct (T (oid i) k); simpl; reflexivity.
Qed.

Theorem erase_embeds : forall fr d d', embeds_g fr d d' -> dembeds (erase d) (erase d').
Proof.
  intros fr d. induction d using node_ind'; intros d' He; inversion He; subst; simpl.
  - constructor.
  - apply demb_null. destruct d'; simpl in *; try discriminate; exact I.
  - rewrite map_app. constructor. clear He.
    match goal with Hf : Forall2 _ kvs _ |- _ => revert H; induction Hf as [|kv kv' l l' [Hk Hv] Hrest IHf]; intros HF end.
    + constructor.
    + inversion HF; subst. simpl. constructor; [|apply IHf; auto].
      simpl. rewrite Hk. split; auto. apply (proj2 H1). exact Hv.
  - rewrite map_app. constructor. clear He.
    match goal with Hf : Forall2 (embeds_g _) els _ |- _ => revert H; induction Hf as [|x x' l l' Hx Hrest IHf]; intros HF end.
    + constructor.
    + inversion HF; subst. simpl. constructor; [|apply IHf; auto]. apply H1. exact Hx.
  - rewrite map_app. constructor.
Qed.
