(* C03: the [name()] branch of _apply_change (Mutate.rename_key) IS the
   declarative key rename C03guard.krename: the entry at the first key ==
   parentref of the parent mapping is filed under the new name, its place and
   its value kept; a name that is already a key of that mapping is refused with
   DuplicateKey before anything changes; a parent that is no mapping is refused.
   On plain data: one PRekey at that entry.  The document invariants survive. *)
From Coq Require Import String List ZArith NArith Bool Lia Arith Permutation.
From YP Require Import Outcome PyStr PyVal Doc Searches Mutate Create History C03spec C04spec C03hist C03e2e C03set
  C04lists C04delete C04plan C09create C09createP C09doc C03inv C03invCreate C03guard.
Import ListNotations.

(* ---------------- app_obj on a document that holds the object once ---------------- *)
Lemma rmapM_id : forall A (h : A -> res A) l, (forall x, In x l -> h x = ROk x) -> rmapM h l = ROk l.
Proof.
  induction l as [|x r IH]; intros H; simpl; auto.
  rewrite (H x (or_introl eq_refl)). simpl. rewrite IH; auto. intros y Hy. apply H. right. exact Hy.
Qed.

Lemma app_obj_absent : forall o f d, ~ In o (coids d) -> app_obj o f d = ROk d.
Proof.
  intros o f. induction d using node_ind'; intros Hn; simpl.
  - reflexivity.
  - destruct (is_obj o (NMap i kvs)) eqn:E.
    + unfold is_obj in E. simpl in E. apply N.eqb_eq in E. exfalso. apply Hn. simpl. auto.
    + rewrite rmapM_id; [reflexivity|]. intros kv Hkv.
      rewrite Forall_forall in H. rewrite (proj2 (H kv Hkv)); [destruct kv; reflexivity|].
      intro Hin. apply Hn. simpl. right. apply in_flat_map. exists kv. auto.
  - destruct (is_obj o (NSeq i els)) eqn:E.
    + unfold is_obj in E. simpl in E. apply N.eqb_eq in E. exfalso. apply Hn. simpl. auto.
    + rewrite rmapM_id; [reflexivity|]. intros x Hx.
      rewrite Forall_forall in H. apply (H x Hx). intro Hin. apply Hn. simpl. right. apply in_flat_map. exists x. auto.
  - destruct (is_obj o (NSet i els)) eqn:E; auto.
    unfold is_obj in E. simpl in E. apply N.eqb_eq in E. exfalso. apply Hn. simpl. auto.
Qed.

Definition at_obj (f : node -> res node) (o : N) (pn d : node) : res node :=
  match f pn with ROk pn' => ROk (putf o pn' d) | RErr e => RErr e end.

Section ListAt.
Context {A : Type} (sel : A -> node) (upd : A -> node -> A).
Hypothesis upd_sel : forall a, upd a (sel a) = a.
Variables (o : N) (f : node -> res node) (pn : node).

Lemma rmapM_at : forall l,
  NoDup (flat_map (fun a => coids (sel a)) l) ->
  (forall a, In a l -> NoDup (coids (sel a)) -> In pn (objs o (sel a)) ->
     app_obj o f (sel a) = at_obj f o pn (sel a)) ->
  (exists a, In a l /\ In pn (objs o (sel a))) ->
  rmapM (fun a => rbind (app_obj o f (sel a)) (fun v => ROk (upd a v))) l
  = match f pn with
    | ROk pn' => ROk (map (fun a => upd a (putf o pn' (sel a))) l)
    | RErr e => RErr e
    end.
Proof.
  induction l as [|x r IH]; intros Hn Hp [y [Hy Hc]]; [contradiction|].
  simpl in Hn.
  assert (Hnx : NoDup (coids (sel x))) by (eapply nodup_app_l; eauto).
  assert (Hnr : NoDup (flat_map (fun a => coids (sel a)) r)) by (eapply nodup_app_r; eauto).
  simpl rmapM.
  destruct (in_dec N.eq_dec o (coids (sel x))) as [Hox|Hox].
  - assert (Hcx : In pn (objs o (sel x))).
    { destruct Hy as [<-|Hy]; auto. exfalso.
      eapply (nodup_app_disjoint _ _ _ o Hn); eauto. apply in_flat_map. exists y. split; auto.
      eapply objs_coids; eauto. }
    rewrite (Hp x (or_introl eq_refl) Hnx Hcx). unfold at_obj.
    destruct (f pn) as [pn'|e]; [|reflexivity]. simpl.
    assert (Hr : forall z, In z r -> ~ In o (coids (sel z))).
    { intros z Hz Hoz. eapply (nodup_app_disjoint _ _ _ o Hn); eauto. apply in_flat_map. exists z. auto. }
    rewrite rmapM_id.
    + simpl. f_equal. f_equal. rewrite <- (map_id r) at 1. apply map_ext_in. intros z Hz.
      rewrite putf_absent by (apply Hr; exact Hz). symmetry. apply upd_sel.
    + intros z Hz. rewrite app_obj_absent by (apply Hr; exact Hz). simpl. f_equal. apply upd_sel.
  - rewrite (app_obj_absent o f (sel x) Hox). simpl. rewrite IH; auto.
    + destruct (f pn) as [pn'|e]; [|reflexivity]. simpl. rewrite (putf_absent o pn' (sel x) Hox), upd_sel. reflexivity.
    + intros a Ha. apply Hp. right. exact Ha.
    + destruct Hy as [<-|Hy]; [exfalso; apply Hox; eapply objs_coids; eauto|]. exists y. auto.
Qed.
End ListAt.

Lemma rmapM_eta : forall (h : node -> res node) l, rmapM h l = rmapM (fun a => rbind (h a) (fun v => ROk v)) l.
Proof.
  induction l as [|x r IH]; simpl; auto. rewrite IH. destruct (h x); reflexivity.
Qed.

Theorem app_obj_at : forall o f pn d,
  NoDup (coids d) -> In pn (objs o d) -> app_obj o f d = at_obj f o pn d.
Proof.
  intros o f pn. induction d using node_ind'; intros Hn Hc.
  - simpl in Hc. contradiction.
  - unfold at_obj. simpl app_obj. simpl putf. destruct (is_obj o (NMap i kvs)) eqn:E.
    + rewrite (objs_unique o (NMap i kvs) pn (NMap i kvs) Hn Hc (objs_self _ _ (is_obj_coid _ _ E))).
      destruct (f pn); reflexivity.
    + unfold is_obj in E. simpl in E. simpl in Hc. rewrite E in Hc. simpl in Hc.
      simpl in Hn. inversion Hn; subst.
      rewrite (rmapM_at snd (fun kv v => (fst kv, v)) (fun kv => match kv with (a, b) => eq_refl end) o f pn kvs); auto.
      * destruct (f pn); reflexivity.
      * intros kv Hkv Hnk Hck. rewrite Forall_forall in H. apply (proj2 (H kv Hkv)); auto.
      * apply in_flat_map in Hc. destruct Hc as [kv [Hkv Hc]]. exists kv. auto.
  - unfold at_obj. simpl app_obj. simpl putf. destruct (is_obj o (NSeq i els)) eqn:E.
    + rewrite (objs_unique o (NSeq i els) pn (NSeq i els) Hn Hc (objs_self _ _ (is_obj_coid _ _ E))).
      destruct (f pn); reflexivity.
    + unfold is_obj in E. simpl in E. simpl in Hc. rewrite E in Hc. simpl in Hc.
      simpl in Hn. inversion Hn; subst.
      rewrite rmapM_eta.
      rewrite (rmapM_at (fun x => x) (fun _ v => v) (fun x => eq_refl) o f pn els); auto.
      * destruct (f pn); reflexivity.
      * intros x Hx Hnx Hcx. rewrite Forall_forall in H. apply (H x Hx); auto.
      * apply in_flat_map in Hc. destruct Hc as [x [Hx Hc]]. exists x. auto.
  - unfold at_obj. simpl app_obj. simpl putf. destruct (is_obj o (NSet i els)) eqn:E.
    + rewrite (objs_unique o (NSet i els) pn (NSet i els) Hn Hc (objs_self _ _ (is_obj_coid _ _ E))).
      destruct (f pn); reflexivity.
    + unfold is_obj in E. simpl in E. simpl in Hc. rewrite E in Hc. contradiction.
Qed.

Lemma find_obj_in : forall o d pn, find_obj o d = Some pn -> In pn (objs o d).
Proof.
  intros o d pn H. rewrite find_obj_hd in H. destruct (objs o d) as [|x r]; simpl in *; [discriminate|].
  inversion H; auto.
Qed.

Lemma find_obj_none : forall o d, find_obj o d = None -> ~ In o (coids d).
Proof.
  intros o d H. rewrite find_obj_hd in H. intro Hin.
  assert (Hex : exists n, In n (objs o d)).
  { clear H. induction d using node_ind'; simpl in *.
    - contradiction.
    - destruct Hin as [<-|Hin]; [rewrite N.eqb_refl; simpl; eauto|].
      apply in_flat_map in Hin. destruct Hin as [kv [Hkv Hin]]. rewrite Forall_forall in H.
      destruct (proj2 (H kv Hkv) Hin) as [n Hn]. exists n. apply in_or_app. right. apply in_flat_map. exists kv. auto.
    - destruct Hin as [<-|Hin]; [rewrite N.eqb_refl; simpl; eauto|].
      apply in_flat_map in Hin. destruct Hin as [x [Hx Hin]]. rewrite Forall_forall in H.
      destruct (H x Hx Hin) as [n Hn]. exists n. apply in_or_app. right. apply in_flat_map. exists x. auto.
    - destruct Hin as [<-|[]]. rewrite N.eqb_refl. simpl. eauto. }
  destruct Hex as [n Hn]. destruct (objs o d); [contradiction|discriminate].
Qed.

Lemma objs_linv : forall o d n, linv d = true -> In n (objs o d) -> linv n = true.
Proof.
  intros o. induction d using node_ind'; intros n Hl Hn; simpl in Hn.
  - contradiction.
  - apply in_app_or in Hn. destruct Hn as [Hn|Hn].
    + destruct (N.eqb (oid i) o); [|contradiction]. destruct Hn as [<-|[]]. exact Hl.
    + apply in_flat_map in Hn. destruct Hn as [kv [Hkv Hn]]. rewrite Forall_forall in H.
      apply (proj2 (H kv Hkv)); auto. eapply linv_child; [|exact Hl]. simpl. eauto.
  - apply in_app_or in Hn. destruct Hn as [Hn|Hn].
    + destruct (N.eqb (oid i) o); [|contradiction]. destruct Hn as [<-|[]]. exact Hl.
    + apply in_flat_map in Hn. destruct Hn as [x [Hx Hn]]. rewrite Forall_forall in H.
      apply (H x Hx); auto. eapply linv_child; [|exact Hl]. simpl. exact Hx.
  - destruct (N.eqb (oid i) o); [|contradiction]. destruct Hn as [<-|[]]. exact Hl.
Qed.

Lemma putf_same : forall o pn d, (forall n, In n (objs o d) -> n = pn) -> putf o pn d = d.
Proof.
  intros o pn. induction d using node_ind'; intros Hu; simpl.
  - reflexivity.
  - unfold is_obj. simpl. destruct (N.eqb (oid i) o) eqn:E.
    + symmetry. apply Hu. simpl. rewrite E. left. reflexivity.
    + f_equal. rewrite <- (map_id kvs) at 2. apply map_ext_in. intros kv Hkv.
      rewrite Forall_forall in H. rewrite (proj2 (H kv Hkv)); [destruct kv; reflexivity|].
      intros n Hn. apply Hu. simpl. rewrite E. simpl. apply in_flat_map. exists kv. auto.
  - unfold is_obj. simpl. destruct (N.eqb (oid i) o) eqn:E.
    + symmetry. apply Hu. simpl. rewrite E. left. reflexivity.
    + f_equal. rewrite <- (map_id els) at 2. apply map_ext_in. intros x Hx.
      rewrite Forall_forall in H. apply (H x Hx).
      intros n Hn. apply Hu. simpl. rewrite E. simpl. apply in_flat_map. exists x. auto.
  - unfold is_obj. simpl. destruct (N.eqb (oid i) o) eqn:E; auto.
    symmetry. apply Hu. simpl. rewrite E. left. reflexivity.
Qed.

Lemma objs_mkeys : forall o d n, mkeys_distinct d = true -> In n (objs o d) -> mkeys_distinct n = true.
Proof.
  intros o. induction d using node_ind'; intros n Hl Hn; simpl in Hn.
  - contradiction.
  - apply in_app_or in Hn. destruct Hn as [Hn|Hn].
    + destruct (N.eqb (oid i) o); [|contradiction]. destruct Hn as [<-|[]]. exact Hl.
    + apply in_flat_map in Hn. destruct Hn as [kv [Hkv Hn]]. rewrite Forall_forall in H.
      apply (proj2 (H kv Hkv)); auto.
      simpl in Hl. apply andb_true_iff in Hl. destruct Hl as [_ Hl]. rewrite forallb_forall in Hl. auto.
  - apply in_app_or in Hn. destruct Hn as [Hn|Hn].
    + destruct (N.eqb (oid i) o); [|contradiction]. destruct Hn as [<-|[]]. exact Hl.
    + apply in_flat_map in Hn. destruct Hn as [x [Hx Hn]]. rewrite Forall_forall in H.
      apply (H x Hx); auto. simpl in Hl. rewrite forallb_forall in Hl. auto.
  - destruct (N.eqb (oid i) o); [|contradiction]. destruct Hn as [<-|[]]. exact Hl.
Qed.

(* ---------------- the rename inside the parent mapping ---------------- *)
Lemma imap_update_at : forall A (g : A -> A) (pre : list A) x post k,
  imap (fun j a => if Nat.eqb j (k + length pre) then g a else a) k (pre ++ x :: post) = pre ++ g x :: post.
Proof.
  intros A g. induction pre as [|a r IH]; intros x post k; simpl.
  - rewrite Nat.add_0_r, Nat.eqb_refl. f_equal.
    assert (G : forall l m, (k < m)%nat -> imap (fun j (a : A) => if Nat.eqb j k then g a else a) m l = l).
    { induction l as [|b l' IHl]; intros m Hm; simpl; auto.
      replace (Nat.eqb m k) with false by (symmetry; apply Nat.eqb_neq; lia). rewrite IHl by lia. reflexivity. }
    apply G. lia.
  - replace (Nat.eqb k (k + S (length r))) with false by (symmetry; apply Nat.eqb_neq; lia).
    f_equal. replace (k + S (length r))%nat with (S k + length r)%nat by lia. apply IH.
Qed.

Lemma key_is_mkey : forall value vi kv, key_is value kv = mkey_eq (fst kv) (NLeaf vi value).
Proof. intros value vi [k v]. unfold key_is, mkey_eq. simpl. destruct k; reflexivity. Qed.

(* the CommentedMap branch on the parent's entries: refusal, or the positional replacement of the key *)
Lemma rename_entries : forall value vi r kvs,
  mkeys_nodup (map fst kvs) = true ->
  existsb (key_is value) kvs = false ->
  forall idx, find_idx (key_is r) kvs = Some idx ->
  exists kv, nth_error kvs idx = Some kv /\
    od_insert idx (NLeaf vi value) (snd kv) (remove_nth idx kvs)
    = imap (fun j kv0 => if Nat.eqb j idx then (NLeaf vi value, snd kv0) else kv0) 0 kvs /\
    mkeys_nodup (map fst (imap (fun j kv0 => if Nat.eqb j idx then (NLeaf vi value, snd kv0) else kv0) 0 kvs)) = true.
Proof.
  intros value vi r kvs Hn He idx Hf.
  destruct (find_idx_split _ _ _ _ Hf) as [pre [kv [post [-> [<- [_ _]]]]]].
  exists kv. split; [apply nth_error_mid|].
  rewrite remove_nth_mid.
  pose proof (imap_update_at _ (fun kv0 : node * node => (NLeaf vi value, snd kv0)) pre kv post 0) as Hi'.
  simpl in Hi'.
  rewrite Hi'.
  assert (Hnew : mkeys_nodup (map fst (pre ++ (NLeaf vi value, snd kv) :: post)) = true).
  { rewrite map_app in *. simpl in *. eapply nodup_replace; [exact Hn|].
    intros x Hx. rewrite <- map_app in Hx. apply in_map_iff in Hx. destruct Hx as [kv0 [<- Hkv0]].
    rewrite <- (key_is_mkey value vi kv0).
    apply (existsb_false _ _ _ He). apply in_app_or in Hkv0. apply in_or_app. simpl. tauto. }
  split; [|exact Hnew].
  apply od_insert_replace. apply all_fresh_nodup. exact Hnew.
Qed.

(* putting the renamed mapping back IS the declarative rename *)
Lemma putf_krename : forall o idx k i kvs d,
  (forall n, In n (objs o d) -> n = NMap i kvs) ->
  putf o (NMap i (imap (fun j kv => if Nat.eqb j idx then (k, snd kv) else kv) 0 kvs)) d = krename o idx k d.
Proof.
  intros o idx k i kvs. induction d using node_ind'; intros Hu; simpl.
  - reflexivity.
  - unfold is_obj. simpl. destruct (N.eqb (oid i0) o) eqn:E.
    + assert (Hs : NMap i0 kvs0 = NMap i kvs) by (apply Hu; simpl; rewrite E; left; reflexivity).
      inversion Hs; subst. reflexivity.
    + f_equal. apply map_ext_in. intros kv Hkv. f_equal. rewrite Forall_forall in H. apply (proj2 (H kv Hkv)).
      intros n Hn. apply Hu. simpl. rewrite E. simpl. apply in_flat_map. exists kv. auto.
  - unfold is_obj. simpl. destruct (N.eqb (oid i0) o) eqn:E.
    + assert (Hs : NSeq i0 els = NMap i kvs) by (apply Hu; simpl; rewrite E; left; reflexivity). discriminate.
    + f_equal. apply map_ext_in. intros x Hx. rewrite Forall_forall in H. apply (H x Hx).
      intros n Hn. apply Hu. simpl. rewrite E. simpl. apply in_flat_map. exists x. auto.
  - unfold is_obj. simpl. destruct (N.eqb (oid i0) o) eqn:E; auto.
    assert (Hs : NSet i0 els = NMap i kvs) by (apply Hu; simpl; rewrite E; left; reflexivity). discriminate.
Qed.

Section Rename.
Variable lit : string -> outcome litres.
Variable fl : string -> outcome flres.

(* THE RENAME STEP, every case of the [name()] branch *)
Theorem rename_exact : forall p value vo d,
  wf_doc d -> mkeys_distinct d = true ->
  match pc_parent p with
  | None => rename_key p value vo d = RErr (YPE Generic)
  | Some o =>
      match find_obj o d with
      | None => rename_key p value vo d = ROk d           (* a parent outside the document *)
      | Some (NMap i kvs) =>
          if existsb (key_is value) kvs then rename_key p value vo d = RErr (YPE DuplicateKey)
          else match find_idx (key_is (pc_ref p)) kvs with
               | Some idx => rename_key p value vo d = ROk (krename o idx (NLeaf (mkinfo vo None false None) value) d)
               | None => rename_key p value vo d = ROk d
               end
      | Some _ => rename_key p value vo d = RErr (YPE Generic)
      end
  end.
Proof.
  intros p value vo d Hwf Hkd. unfold rename_key. destruct (pc_parent p) as [o|]; [|reflexivity].
  destruct (find_obj o d) as [pn|] eqn:Ef.
  - pose proof (find_obj_in _ _ _ Ef) as Hin.
    rewrite (app_obj_at o _ pn d Hwf Hin). unfold at_obj.
    destruct pn as [i v|i kvs|i els|i els]; try reflexivity.
    destruct (existsb (key_is value) kvs) eqn:Ee; [reflexivity|].
    destruct (find_idx (key_is (pc_ref p)) kvs) as [idx|] eqn:Ei.
    + assert (Hn : mkeys_nodup (map fst kvs) = true).
      { pose proof (objs_mkeys o d (NMap i kvs) Hkd Hin) as Hl.
        simpl in Hl. apply andb_true_iff in Hl. tauto. }
      destruct (rename_entries value (mkinfo vo None false None) (pc_ref p) kvs Hn Ee idx Ei) as [kv [Hnth [Hod _]]].
      rewrite Hnth, Hod. f_equal. apply putf_krename.
      intros n Hn'. apply (objs_unique o d (NMap i kvs) n Hwf Hin Hn').
    + f_equal. apply putf_same. intros n Hn'. apply (objs_unique o d (NMap i kvs) n Hwf Hin Hn').
  - apply app_obj_absent. apply find_obj_none. exact Ef.
Qed.
End Rename.
