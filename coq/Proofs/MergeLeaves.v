(* C10 / C05: the merge proper creates no anchored Scalar and changes none.
   Parametric statement: whatever holds of every Scalar of the two documents
   (keys, values, elements, set members) and of the null Scalar _insert_set
   creates, holds of every Scalar of the merged document -- the merge only
   re-arranges sub-documents and creates containers. *)
From Coq Require Import List Ascii String ZArith QArith NArith Bool Lia.
From YP Require Import Outcome PyStr PyVal Doc PathParser Searches MergeConfig Merge SpecC05 SpecC05Union SpecC10
  MergeBasics MergeHash MergeNoCrash MergeUnion MergeUnique.
Import ListNotations.
Open Scope string_scope.
Open Scope list_scope.

Section Leaves.
Variable F : node -> Prop.
Hypothesis Hfresh : F (NLeaf (mkinfo 0%N None false None) PNone).

Definition lok (n : node) : Prop := forall p, In p (an_all n) -> is_leaf p = true -> F p.
Definition iok (kv : node * node) : Prop := lok (fst kv) /\ lok (snd kv).

Lemma lok_map : forall i kvs, lok (NMap i kvs) <-> Forall iok kvs.
Proof.
  intros i kvs. split.
  - intros H. apply Forall_forall. intros [k v] Hin. split; intros p Hp Hl; apply H; auto; simpl; right;
      apply in_flat_map; exists (k, v); (split; [assumption|]); apply in_or_app; [left|right]; exact Hp.
  - intros H p Hp Hl. simpl in Hp. destruct Hp as [<-|Hp]; [discriminate|].
    apply in_flat_map in Hp. destruct Hp as [kv [Hin Hp]]. rewrite Forall_forall in H. destruct (H kv Hin) as [A B].
    apply in_app_or in Hp. destruct Hp; [apply A|apply B]; assumption.
Qed.

Lemma lok_seq : forall i els, lok (NSeq i els) <-> Forall lok els.
Proof.
  intros i els. split.
  - intros H. apply Forall_forall. intros e Hin p Hp Hl. apply H; auto. simpl. right. apply in_flat_map. exists e. auto.
  - intros H p Hp Hl. simpl in Hp. destruct Hp as [<-|Hp]; [discriminate|].
    apply in_flat_map in Hp. destruct Hp as [e [Hin Hp]]. rewrite Forall_forall in H. now apply (H e Hin).
Qed.

Lemma lok_set : forall i els, lok (NSet i els) <-> Forall lok els.
Proof.
  intros i els. split.
  - intros H. apply Forall_forall. intros e Hin p Hp Hl. apply H; auto. simpl. right. apply in_flat_map. exists e. auto.
  - intros H p Hp Hl. simpl in Hp. destruct Hp as [<-|Hp]; [discriminate|].
    apply in_flat_map in Hp. destruct Hp as [e [Hin Hp]]. rewrite Forall_forall in H. now apply (H e Hin).
Qed.

Lemma lok_set_tag : forall n t, is_leaf n = false -> lok n -> lok (set_tag n t).
Proof.
  intros n t Hl H. destruct n; try discriminate; simpl.
  - apply lok_map. now apply lok_map in H.
  - apply lok_seq. now apply lok_seq in H.
  - apply lok_set. now apply lok_set in H.
Qed.

(* ---- items ---- *)
Lemma iok_assoc : forall k kvs v, Forall iok kvs -> assoc_key k kvs = Some v -> lok v.
Proof.
  intros k kvs v H. induction H as [|[kn x] r [Hk Hx] _ IH]; simpl; intros E; [discriminate|].
  destruct kn; auto. destruct (py_eq v0 k); [inversion E; subst; exact Hx|auto].
Qed.

Lemma iok_set_val : forall k v kvs, lok v -> Forall iok kvs -> Forall iok (set_val k v kvs).
Proof.
  intros k v kvs Hv H. induction H as [|[kn x] r [Hk Hx] Hr IH]; simpl; [constructor|].
  destruct kn; try (constructor; [split; assumption|exact IH]).
  destruct (py_eq v0 k); constructor; try (split; assumption); assumption.
Qed.

Lemma iok_insert : forall p kv kvs, iok kv -> Forall iok kvs -> Forall iok (insert_at p kv kvs).
Proof.
  intros p kv kvs Hkv H. unfold insert_at. apply Forall_app. split.
  - rewrite <- (firstn_skipn p kvs) in H. apply Forall_app in H. tauto.
  - constructor; [exact Hkv|]. rewrite <- (firstn_skipn p kvs) in H. apply Forall_app in H. tauto.
Qed.

Lemma iok_flush : forall buf pos kvs, Forall iok buf -> Forall iok kvs -> Forall iok (fst (flush buf pos kvs)).
Proof.
  induction buf as [|kv r IH]; intros pos kvs Hb Hk; simpl; [exact Hk|].
  inversion Hb; subst. apply IH; [assumption|]. now apply iok_insert.
Qed.

Section Cfg.
Variable lit : string -> outcome litres.
Variable cfg : mconfig.

(* ---- sets and plain arrays ---- *)
Lemma sets_loop_ok : forall rels tl lels, Forall lok rels -> Forall lok lels -> Forall lok (sets_loop rels tl lels).
Proof.
  induction rels as [|e r IH]; intros tl lels Hr Hl; simpl; [exact Hl|].
  inversion Hr; subst. destruct (in_list (tagless e) tl); [now apply IH|].
  apply IH; [assumption|]. destruct (in_list e lels); [exact Hl|]. apply Forall_app. split; [exact Hl|]. now constructor.
Qed.

Lemma merge_sets_ok : forall l r nc m,
  lok l -> lok r -> merge_sets cfg l r nc = Ok m -> lok (ret m) /\ lok (inplace m).
Proof.
  intros l r nc m Hl Hr H. unfold merge_sets in H. destruct l; try discriminate.
  destruct (set_merge_mode cfg nc) as [mode| |]; simpl in H; try discriminate.
  destruct mode.
  - inversion H; subst. simpl. auto.
  - inversion H; subst. simpl. auto.
  - assert (G : forall rels, Forall lok rels -> lok (NSet i (sets_loop rels (map tagless els) els))).
    { intros rels Hrels. apply lok_set. apply sets_loop_ok; [exact Hrels|]. now apply lok_set in Hl. }
    destruct r; try discriminate; inversion H; subst; simpl; split; apply G;
      first [now apply lok_seq in Hr|now apply lok_set in Hr].
Qed.

Lemma simple_fold_ok : forall u rels s, Forall lok rels -> Forall lok (cur s) -> Forall lok (orig s) ->
  Forall lok (cur (fold_left (simple_step u) rels s)) /\ Forall lok (orig (fold_left (simple_step u) rels s)).
Proof.
  intros u rels. induction rels as [|e r IH]; intros s Hr Hc Ho; [auto|].
  inversion Hr; subst. cbn [fold_left]. apply IH; [assumption| |]; unfold simple_step; destruct u.
  - destruct (in_list (tagless e) (tl s)); cbn [cur].
    + apply Forall_forall. intros x Hx. apply in_map_iff in Hx. destruct Hx as [y [<- Hy]].
      destruct (elem_matches y (tagless e)); [assumption|]. rewrite Forall_forall in Hc. now apply Hc.
    + apply Forall_app. split; [exact Hc|now constructor].
  - cbn [cur]. apply Forall_app. split; [exact Hc|now constructor].
  - destruct (in_list (tagless e) (tl s)); cbn [orig]; [exact Ho|].
    destruct (is_orig s); [apply Forall_app; split; [exact Ho|now constructor]|exact Ho].
  - cbn [orig]. destruct (is_orig s); [apply Forall_app; split; [exact Ho|now constructor]|exact Ho].
Qed.

Lemma merge_simple_lists_ok : forall l r nc m,
  lok l -> lok r -> merge_simple_lists cfg l r nc = Ok m -> lok (ret m) /\ lok (inplace m).
Proof.
  intros l r nc m Hl Hr H. unfold merge_simple_lists in H. destruct l; try discriminate.
  destruct (array_merge_mode cfg nc) as [mode| |]; simpl in H; try discriminate.
  assert (Hels : Forall lok els) by now apply lok_seq in Hl.
  assert (Hrels : Forall lok (match r with NSeq _ e => e | _ => [] end)).
  { destruct r; try constructor. now apply lok_seq in Hr. }
  destruct mode; inversion H; subst; cbn [ret inplace]; auto;
    match goal with |- context [fold_left (simple_step ?u) ?rels ?s] =>
      destruct (simple_fold_ok u rels s Hrels Hels Hels) as [A B] end;
    split; apply lok_seq; assumption.
Qed.

(* ---- the recursive core ---- *)
Definition rec_lok (r : node) : Prop := forall nc l m, lok r -> lok l -> merge_rec lit cfg r nc l = Ok m -> lok m.

Lemma dict_step_ok : forall ro kvs buf pos key val st',
  rec_lok val -> iok (key, val) -> Forall iok kvs -> Forall iok buf ->
  dict_step cfg (merge_rec lit cfg) ro (kvs, buf, pos) (key, val) = Ok st' ->
  Forall iok (fst (fst st')) /\ Forall iok (snd (fst st')).
Proof.
  intros ro kvs buf pos key val st' Hrec [Hkey Hval] Hk Hb H.
  destruct (assoc_key (key_val key) kvs) eqn:Ek.
  - assert (Hne : assoc_key (key_val key) kvs <> None) by congruence.
    destruct (dict_step_present lit cfg ro kvs buf pos key val st' Hne H) as [lv [v [pos' [E1 [Ev [-> _]]]]]].
    cbn [fst snd]. split; [|constructor].
    assert (Hk1 : Forall iok (fst (flush buf pos kvs))) by now apply iok_flush.
    apply iok_set_val; [|exact Hk1].
    pose proof (iok_assoc _ _ _ Hk1 E1) as Hlv.
    unfold mg_common_value in Ev.
    destruct (dict_shortcut cfg val _) as [sc| |]; simpl in Ev; try discriminate.
    destruct sc; try (inversion Ev; subst; assumption).
    destruct val as [vi vv|vi vkvs|vi vels|vi vels].
    + inversion Ev; subst. exact Hval.
    + destruct (merge_rec lit cfg _ _ lv) as [m| |] eqn:Em; simpl in Ev; try discriminate. inversion Ev; subst.
      apply lok_set_tag; [eapply merge_rec_shape; [exact Em|reflexivity]|]. exact (Hrec _ lv m Hval Hlv Em).
    + destruct (merge_rec lit cfg _ _ lv) as [m| |] eqn:Em; simpl in Ev; try discriminate. inversion Ev; subst.
      apply lok_set_tag; [eapply merge_rec_shape; [exact Em|reflexivity]|]. exact (Hrec _ lv m Hval Hlv Em).
    + destruct (merge_sets cfg lv _ _) as [m| |] eqn:Em; simpl in Ev; try discriminate. inversion Ev; subst.
      pose proof Em as Em'. apply merge_sets_shape in Em'; [|reflexivity].
      apply lok_set_tag; [tauto|]. eapply merge_sets_ok in Em; eauto. tauto.
  - rewrite (dict_step_absent lit cfg ro kvs buf pos (key, val) Ek) in H. inversion H; subst. cbn [fst snd].
    split; [exact Hk|]. apply Forall_app. split; [exact Hb|]. constructor; [split; assumption|constructor].
Qed.

Lemma dict_loop_ok : forall ro items st st',
  Forall (fun kv => rec_lok (snd kv)) items -> Forall iok items ->
  Forall iok (fst (fst st)) -> Forall iok (snd (fst st)) ->
  dict_loop lit cfg ro items st = Ok st' ->
  Forall iok (fst (fst st')) /\ Forall iok (snd (fst st')).
Proof.
  intros ro items. induction items as [|[key val] rest IH]; intros st st' HR HI Hk Hb H.
  - simpl in H. inversion H; subst. auto.
  - rewrite dict_loop_cons in H.
    destruct (dict_step cfg (merge_rec lit cfg) ro st (key, val)) as [st1| |] eqn:Es; simpl in H; try discriminate.
    inversion HR; subst. inversion HI; subst. destruct st as [[kvs buf] pos]. cbn [fst snd] in *.
    destruct (dict_step_ok ro kvs buf pos key val st1 H2 H4 Hk Hb Es) as [A B].
    apply (IH st1 st'); auto.
Qed.

Lemma replace_nth_ok : forall i x l, lok x -> Forall lok l -> Forall lok (replace_nth i x l).
Proof.
  intros i x l Hx H. revert i. induction H as [|y r Hy Hr IH]; intros i; destruct i; simpl; constructor; auto.
Qed.

Lemma aoh_step_ok : forall mode idk lels ele lels',
  rec_lok ele -> lok ele -> Forall lok lels ->
  aoh_step lit (merge_rec lit cfg) mode idk lels ele = Ok lels' -> Forall lok lels'.
Proof.
  intros mode idk lels ele lels' Hrec He Hl H.
  assert (App : Forall lok (lels ++ [ele])) by (apply Forall_app; split; [exact Hl|now constructor]).
  destruct mode; try (unfold aoh_step in H; inversion H; subst; exact App).
  - destruct (deep_step lit cfg idk lels ele lels' H) as [D1 D2].
    destruct ele as [i v|i kvs|i els|i els]; try (rewrite D1 by reflexivity; exact App).
    destruct (D2 i kvs eq_refl) as [idn [idv [_ [_ [[_ ->]|[j [lh [m [Hn [_ [_ [Em ->]]]]]]]]]]]]; [exact App|].
    apply replace_nth_ok; [|exact Hl].
    apply lok_set_tag; [eapply merge_rec_shape; [exact Em|reflexivity]|].
    apply nth_error_In in Hn. rewrite Forall_forall in Hl.
    exact (Hrec _ lh m He (Hl lh Hn) Em).
  - unfold aoh_step in H. destruct (in_list ele lels); inversion H; subst; [exact Hl|exact App].
Qed.

Lemma aoh_loop_ok : forall mode idk items lels lels',
  Forall rec_lok items -> Forall lok items -> Forall lok lels ->
  aoh_loop lit cfg mode idk items lels = Ok lels' -> Forall lok lels'.
Proof.
  intros mode idk items. induction items as [|e r IH]; intros lels lels' HR HI Hl H.
  - simpl in H. inversion H; subst. exact Hl.
  - simpl in H. destruct (aoh_step lit (merge_rec lit cfg) mode idk lels e) as [l1| |] eqn:Es; simpl in H; try discriminate.
    inversion HR as [|? ? Hr1 Hr2]; inversion HI as [|? ? Hi1 Hi2]; subst.
    exact (IH l1 lels' Hr2 Hi2 (aoh_step_ok mode idk lels e l1 Hr1 Hi1 Hl Es) H).
Qed.

Theorem merge_rec_lok : forall r, rec_lok r.
Proof.
  induction r as [i v|i kvs IH|i els IH|i els IH] using node_ind'; intros nc l m Hr Hl H.
  - simpl in H. inversion H; subst. exact Hr.
  - destruct l as [li lv|li lkvs|li lels|li lels]; try (simpl in H; discriminate).
    rewrite merge_rec_map in H.
    destruct (dict_loop lit cfg (oid i) kvs (lkvs, [], 0)) as [[[k b] p]| |] eqn:El; simpl in H; try discriminate.
    inversion H; subst. apply lok_map.
    destruct (dict_loop_ok (oid i) kvs (lkvs, [], 0) (k, b, p)) as [A B]; auto.
    + eapply Forall_impl; [|exact IH]. intros kv [_ X]. exact X.
    + now apply lok_map in Hr.
    + cbn. now apply lok_map in Hl.
    + cbn. constructor.
    + cbn [fst snd] in *. apply Forall_app. auto.
  - destruct els as [|first rest].
    + simpl in H. destruct (is_seq l); [|discriminate]. inversion H; subst. exact Hl.
    + destruct (is_map first) eqn:Ef.
      * destruct l as [li lv|li lkvs|li lels|li lels]; try (simpl in H; rewrite Ef in H; discriminate).
        rewrite merge_rec_aoh in H by exact Ef.
        destruct (aoh_merge_mode cfg nc) as [mode| |]; simpl in H; try discriminate.
        assert (Hre : Forall lok (first :: rest)) by now apply lok_seq in Hr.
        assert (Hle : Forall lok lels) by now apply lok_seq in Hl.
        destruct mode; try (inversion H; subst; assumption);
          match type of H with bind ?x _ = _ => destruct x as [els'| |] eqn:Ea; simpl in H; try discriminate end;
          inversion H; subst; apply lok_seq; eapply aoh_loop_ok; eauto.
      * simpl in H. rewrite Ef in H.
        destruct (merge_simple_lists cfg l (NSeq i (first :: rest)) nc) as [mr| |] eqn:E; simpl in H; try discriminate.
        inversion H; subst. eapply merge_simple_lists_ok in E; eauto. tauto.
  - simpl in H. destruct (merge_sets cfg l (NSet i els) nc) as [mr| |] eqn:E; simpl in H; try discriminate.
    inversion H; subst. eapply merge_sets_ok in E; eauto. tauto.
Qed.

End Cfg.
End Leaves.

(* every Scalar of the merged document is a Scalar of one of the two documents -- the same
   object with its anchor, tag and value -- or the unnamed null _insert_set creates *)
Definition mg_null : node := NLeaf (mkinfo 0%N None false None) PNone.

Theorem merge_keeps_scalars : forall lit cfg r nc l m,
  merge_rec lit cfg r nc l = Ok m ->
  forall p, In p (an_all m) -> is_leaf p = true -> In p (an_all l) \/ In p (an_all r) \/ p = mg_null.
Proof.
  intros lit cfg r nc l m H.
  apply (merge_rec_lok (fun p => In p (an_all l) \/ In p (an_all r) \/ p = mg_null) lit cfg r nc l m); auto.
  all: intros q Hq Hlq; auto.
Qed.

(* what every Scalar named a reads in the two resolved documents, it reads in the merged one *)
Theorem merge_lift_reads : forall lit cfg r nc l m a x,
  (forall p, In p (an_all l) -> is_leaf p = true -> c10_name p = Some a -> p = x) ->
  (forall p, In p (an_all r) -> is_leaf p = true -> c10_name p = Some a -> p = x) ->
  merge_rec lit cfg r nc l = Ok m ->
  forall p, In p (an_all m) -> is_leaf p = true -> c10_name p = Some a -> p = x.
Proof.
  intros lit cfg r nc l m a x Hl Hr H p Hp Hleaf.
  apply (merge_rec_lok (fun p => c10_name p = Some a -> p = x) lit cfg r nc l m); auto.
  all: try (intros q Hq Hlq; auto). all: try discriminate.
Qed.

(* one anchored Scalar per name in the two resolved documents => one in the merged document *)
Theorem merge_lift_unique : forall lit cfg r nc l m,
  (forall n k a, In n (an_all l ++ an_all r) -> In k (an_all l ++ an_all r) ->
     is_leaf n = true -> is_leaf k = true -> c10_name n = Some a -> c10_name k = Some a -> n = k) ->
  merge_rec lit cfg r nc l = Ok m ->
  forall n k a, In n (an_all m) -> In k (an_all m) -> is_leaf n = true -> is_leaf k = true ->
    c10_name n = Some a -> c10_name k = Some a -> n = k.
Proof.
  intros lit cfg r nc l m HU H n k a Hn Hk Ln Lk Nn Nk.
  assert (S : forall p, In p (an_all m) -> is_leaf p = true -> c10_name p = Some a -> In p (an_all l ++ an_all r)).
  { intros p Hp Lp Np. destruct (merge_keeps_scalars lit cfg r nc l m H p Hp Lp) as [X|[X|X]].
    - apply in_or_app. now left.
    - apply in_or_app. now right.
    - subst p. discriminate. }
  apply (HU n k a); auto.
Qed.
