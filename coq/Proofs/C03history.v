(* C03: chains of changes and whole edit histories refine the plain-data model. *)
From Coq Require Import String List ZArith NArith Bool Lia Arith.
From YP Require Import Outcome PyStr PyVal Doc Searches Mutate Create History
  C03spec C04spec C09create C03hist C04lists C04delete C04plan C03set C09createP C09doc C03erase.
Import ListNotations.

Lemma psteps_app : forall l1 l2 x y z, psteps l1 x y -> psteps l2 y z -> psteps (l1 ++ l2) x z.
Proof.
  induction l1 as [|p r IH]; intros l2 x y z H1 H2; simpl.
  - inversion H1; subst. exact H2.
  - inversion H1; subst. econstructor; eauto.
Qed.

Section Hist.
Variable lit : string -> outcome litres.
Variable fl : string -> outcome flres.

(* one change under its guard is the substitution of C03_set_exact (values at the addressed position and
   the aliases, then the alias keys), and the invariant survives *)
Lemma apply_action_exact : forall value vo a st st',
  wf_attr (fst st) = true -> act_ok a st = true ->
  apply_action lit fl value vo a st = ROk st' ->
  exists o r c ri rv,
    act_target a st = Some (o, r, c) /\
    make_new_node lit fl (Some (node_info c)) value (a_fmt a) (snd st) vo = ROk (NLeaf ri rv) /\
    st' = (ksubst (kdesignated (node_oid c)) (NLeaf ri rv)
             (subst (designated o r (node_oid c)) (NLeaf ri rv) (fst st)), N.succ (snd st)) /\
    wf_attr (fst st') = true.
Proof.
  intros value vo a [d next] st' Hwf Hok Ha. simpl in *.
  unfold act_ok in Hok. apply andb_true_iff in Hok. destruct Hok as [Hn Hk].
  apply andb_true_iff in Hn. destruct Hn as [Hn Hkd]. simpl in Hkd.
  apply negb_true_iff in Hn.
  destruct (act_target a (d, next)) as [[[o r] c]|] eqn:Et; [|discriminate].
  unfold apply_action in Ha. rewrite Hn in Ha.
  assert (Hu : update_node lit fl (a_pc a) value (a_fmt a) vo (d, next) = ROk st').
  { destruct (update_node lit fl (a_pc a) value (a_fmt a) vo (d, next)) as [s1|e]; auto.
    destruct e; try discriminate. destruct c0; discriminate. }
  unfold act_target in Et. simpl in Et.
  destruct (pc_parent (a_pc a)) as [o0|] eqn:Ep; [|discriminate].
  destruct (find_obj o0 d) as [pn|] eqn:Ef; [|discriminate].
  destruct (get_change pn (norm_ref pn (pc_ref (a_pc a)))) as [[c0|]|e] eqn:Eg; try discriminate.
  inversion Et; subst o0 r c0. clear Et.
  destruct st' as [d' next'].
  destruct (update_exact lit fl (a_pc a) value (a_fmt a) vo d next d' next' o pn c Hwf Ep Ef Eg Hk Hkd Hu)
    as [new [Hm [Hd Hx]]].
  destruct (make_new_node_shape _ _ _ _ _ _ _ _ Hm) as [nn [_ [i [E _]]]]. subst new.
  exists o, (norm_ref pn (pc_ref (a_pc a))), c, i, (nn_val nn). subst. repeat split; auto.
  simpl. apply ksubst_wf_attr. apply subst_wf_attr; auto.
Qed.

(* THE CHAIN: a list of changes, each under its guard, is the composition of the substitutions -
   on plain data: per change one replacement at locations and one re-filing of the alias keys *)
Theorem actions_refine : forall value vo acts st st',
  wf_attr (fst st) = true -> acts_ok lit fl value vo acts st = true ->
  run_actions lit fl value vo acts st = SDone st' ->
  psteps (abs_actions lit fl value vo acts st) (erase (fst st)) (erase (fst st')) /\ wf_attr (fst st') = true.
Proof.
  intros value vo acts. induction acts as [|a r IH]; intros st st' Hwf Hok H; simpl in *.
  - inversion H; subst. split; [constructor|assumption].
  - apply andb_true_iff in Hok. destruct Hok as [Hok1 Hok2].
    destruct (apply_action lit fl value vo a st) as [st1|e] eqn:Ea; [|discriminate].
    destruct (apply_action_exact _ _ _ _ _ Hwf Hok1 Ea) as [o [rf [c [ri [rv [Et [Hm [Hs Hw]]]]]]]].
    rewrite Et, Hm. destruct (IH st1 st' Hw Hok2 H) as [Hp Hw'].
    split; auto. econstructor; [constructor|]. econstructor; [|exact Hp].
    subst st1. simpl. rewrite erase_ksubst, erase_subst. constructor.
Qed.

Lemma set_value_unfold : forall cs value fmt vo st,
  set_value lit fl cs value fmt vo st =
  run_actions lit fl value (fst (sv_start vo st)) (flat_map (set_actions fmt) cs) (snd (sv_start vo st)).
Proof. intros cs value fmt vo [d next]. destruct vo; reflexivity. Qed.

Lemma create_set_unfold : forall segs value fmt vo d,
  create_set lit fl segs value fmt vo d =
  match create_walk lit segs value vo d with
  | (vo', RErr e) => SFailed (snd (sv_start vo (init_state d))) e
  | (vo', ROk (d1, pc, next1)) => run_actions lit fl value vo' [mkact pc false fmt] (d1, next1)
  end.
Proof.
  intros segs value fmt vo d. unfold create_set, create_walk, init_state. destruct vo; simpl;
    match goal with |- context [walk ?a ?b ?c ?e ?f ?g ?h ?i] => destruct (walk a b c e f g h i) as [[[d1 pc] n1]|e0] end;
    reflexivity.
Qed.

(* one operation of a history *)
Lemma op_refines : forall op d d',
  op_ok lit fl op d = true -> run_op lit fl op d = MDone d' ->
  psteps (abs_op lit fl op d) (erase d) (erase d').
Proof.
  intros op d d' Hok H. unfold op_ok in Hok. apply andb_true_iff in Hok. destruct Hok as [Hwf Hok].
  destruct op as [cs v f vo|segs v f vo|cs]; unfold run_op, abs_op in *; cbv iota beta in Hok.
  - rewrite set_value_unfold in H.
    destruct (run_actions lit fl v (fst (sv_start vo (init_state d))) (flat_map (set_actions f) cs)
                          (snd (sv_start vo (init_state d)))) as [st'|st' e] eqn:Er; [|discriminate].
    inversion H; subst d'.
    assert (Hw0 : wf_attr (fst (snd (sv_start vo (init_state d)))) = true) by (destruct vo; exact Hwf).
    destruct (actions_refine _ _ _ _ _ Hw0 Hok Er) as [Hp _].
    replace (erase d) with (erase (fst (snd (sv_start vo (init_state d))))) by (destruct vo; reflexivity).
    exact Hp.
  - apply andb_true_iff in Hok. destruct Hok as [Hwd Hok].
    rewrite create_set_unfold in H.
    destruct (create_walk lit segs v vo d) as [vo' [[[d1 pc] n1]|e]] eqn:Ew.
    + apply andb_true_iff in Hok. destruct Hok as [Hw1 Hok].
      destruct (run_actions lit fl v vo' [mkact pc false f] (d1, n1)) as [st'|st' e] eqn:Er; [|discriminate].
      inversion H; subst d'.
      destruct (actions_refine v vo' [mkact pc false f] (d1, n1) st' Hw1 Hok Er) as [Hp _].
      econstructor; [|exact Hp]. constructor.
      unfold create_walk in Ew. inversion Ew; subst.
      eapply erase_embeds.
      eapply (walk_frame_g _ _ _ _ _ _ _ _ _ _ _ (snd (snd (sv_start vo (init_state d)))));
        [apply wf_docb_sound; exact Hwd| |apply N.le_refl|eassumption].
      intros o Ho. apply objs_self. exact Ho.
    + discriminate.
  - apply andb_true_iff in Hok. destruct Hok as [Hwd Hok].
    rewrite (delete_exact d cs (wf_docb_sound _ Hwd) Hok) in H. inversion H; subst d'.
    econstructor; [|constructor]. unfold delete_spec. rewrite erase_prune. constructor.
Qed.

(* THE HISTORY THEOREM: every completed history, each operation under its guard, refines the plain-data run *)
Theorem history_refines : forall ops d k d',
  hist_ok lit fl ops d = true -> run_ops lit fl ops d k = HDone d' ->
  psteps (abs_ops lit fl ops d) (erase d) (erase d').
Proof.
  induction ops as [|op r IH]; intros d k d' Hok H; simpl in *.
  - inversion H; subst. constructor.
  - apply andb_true_iff in Hok. destruct Hok as [Hok1 Hok2].
    destruct (run_op lit fl op d) as [d1|d1 e] eqn:Eo; [|discriminate].
    eapply psteps_app; [eapply op_refines; eauto|]. eapply IH; eauto.
Qed.

(* a history that fails: the operations before the failing one refine the plain-data run up to there *)
Theorem history_failed_prefix : forall ops d k d' e n,
  hist_ok lit fl ops d = true -> run_ops lit fl ops d k = HFailed d' e n ->
  exists done rest op d0, ops = done ++ op :: rest /\ n = (k + List.length done)%nat /\
    run_ops lit fl done d k = HDone d0 /\ psteps (abs_ops lit fl done d) (erase d) (erase d0) /\
    run_op lit fl op d0 = Failed d' e.
Proof.
  induction ops as [|op r IH]; intros d k d' e n Hok H; simpl in *; [discriminate|].
  apply andb_true_iff in Hok. destruct Hok as [Hok1 Hok2].
  destruct (run_op lit fl op d) as [d1|d1 e1] eqn:Eo.
  - destruct (IH d1 (S k) d' e n Hok2 H) as [dn [rest [op' [d0 [E1 [E2 [E3 [E4 E5]]]]]]]].
    exists (op :: dn), rest, op', d0. subst. simpl. rewrite Eo. repeat split; auto; try lia.
    eapply psteps_app; [eapply op_refines; eauto|exact E4].
  - inversion H; subst. exists [], r, op, d. simpl. repeat split; auto; try lia. constructor.
Qed.
End Hist.

Lemma psteps_single_replace : forall m v x z, psteps [PReplace m v] x z -> z = dsubst m v x.
Proof.
  intros m v x z H. inversion H; subst.
  match goal with H1 : pstep _ _ _ |- _ => inversion H1; subst end.
  match goal with H2 : psteps [] _ _ |- _ => inversion H2; subst end. reflexivity.
Qed.
