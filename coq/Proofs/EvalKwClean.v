(* C15: the keyword handler of EvalKw.v (Keywords.keyword_search behind the
   coordinate conversion) is clean: for ALL data, contexts and keywords, and
   every parameter text SearchKeywordTerms.parameters can split, the stream
   ends Done or Err (YPE _) and yields NodeCoords only.  No IndexError (the
   parent() climb stays inside the ancestry), no TypeError (unhashable members
   are refused with a YAMLPathException; max/min compare through
   Searches.search_matches, never with Python's <). *)
From Coq Require Import List Ascii String ZArith NArith Bool Arith Lia.
From YP Require Import Outcome PyStr PyVal Doc Generated PathParser PathPrinter Searches Eval Keywords EvalKw
     SpecC15 SpecC09 SpecC15kw ParserTotal EvalGood EvalPure.
Import ListNotations.
Open Scope string_scope.
Open Scope nat_scope.

Lemma ok_ype_ok {A} (a : A) : ok_or_ype (Ok a). Proof. left; eauto. Qed.
Lemma ok_ype_ype {A} k : ok_or_ype (@Raise A (YPE k)). Proof. right; eauto. Qed.

Lemma foldM_ok_or_ype {A S} (f : S -> A -> outcome S) l :
  (forall s x, In x l -> ok_or_ype (f s x)) -> forall s, ok_or_ype (foldM f l s).
Proof.
  induction l as [|x r IH]; intros H s; cbn; [apply ok_ype_ok|].
  apply bind_ok_or_ype; [apply H; left; reflexivity|].
  intros s' _. apply IH. intros; apply H; right; assumption.
Qed.

(* ---- YAMLPath.pop on a translated path ---- *)
Lemma parse_es_auto tp :
  parse_es (infer_sep (normalize_original tp)) false (normalize_original tp) = parse Auto false tp.
Proof. unfold parse, parse_es, effective_sep. destruct (normalize_original tp); reflexivity. Qed.

Lemma y_pop_ok tp :
  (exists sg p, y_pop (y_new tp) = (Ok sg, p)) \/ (exists k p, y_pop (y_new tp) = (Raise (YPE k), p)).
Proof.
  unfold y_pop, y_new, y_set_original, y_unescaped. cbn [y_unesc seglist_nonempty].
  unfold y_separator. cbn [y_sep y_orig y_unesc y_esc y_strd].
  rewrite parse_es_auto.
  destruct (parse_total Auto false tp) as [[segs ->]|[k ->]].
  - destruct (rev segs) as [|popped rest].
    + destruct (y_str _) as [r p2]. right; eauto.
    + cbn [y_sep y_orig]. destruct (infer_sep (normalize_original tp)); left; eauto.
  - right; eauto.
Qed.

Lemma ek_pop_n_ok n : forall tp, ok_or_ype (ek_pop_n n tp).
Proof.
  induction n as [|n IH]; intros tp; cbn [ek_pop_n]; [apply ok_ype_ok|].
  destruct (y_pop_ok tp) as [(sg & p & ->)|(k & p & ->)]; [apply IH | apply ok_ype_ype].
Qed.

Lemma ek_path_ok c n0 q : ok_or_ype (ek_path c n0 q).
Proof. unfold ek_path. destruct (n0 <=? _); [apply ok_ype_ok | apply ek_pop_n_ok]. Qed.

Section Clean.
Variable lit : string -> outcome litres.
Variable re_search : string -> string -> outcome reres.
Variable nstr : node -> string.
Variable vstr : list rval -> string.
Hypothesis lit_total : forall s, exists r, lit s = Ok r /\ (forall c, r <> LCrash c).
Hypothesis re_total : forall p s, exists r, re_search p s = Ok r.

(* ---- the comparisons of max/min ---- *)
Lemma sm_cmp_ok m needle hay :
  m = MGt \/ m = MLt \/ m = MEquals -> exists b, sm lit re_search m needle hay = Ok b.
Proof.
  intros Hm. unfold sm, search_matches_g.
  destruct (typed_haystack_ok lit lit_total (HVal hay)) as [th ->].
  destruct (typed_value_ok lit lit_total needle) as [tn ->]. cbn [bind].
  destruct Hm as [->|[->| ->]].
  - apply ordered_ok. intros a b Ha Hb. unfold py_gt. apply py_lt_num; auto.
  - apply ordered_ok. intros a b Ha Hb. apply py_lt_num; auto.
  - repeat match goal with |- context[if ?b then _ else _] => destruct b end; eauto.
Qed.

Ltac smstep :=
  match goal with
  | |- ok_or_ype (Ok _) => apply ok_ype_ok
  | |- ok_or_ype (Raise (YPE _)) => apply ok_ype_ype
  | |- ok_or_ype (bind _ _) => apply bind_ok_or_ype; [|intros ? _]
  | |- ok_or_ype (if ?b then _ else _) => destruct b eqn:?
  | |- ok_or_ype (match ?x with _ => _ end) => destruct x eqn:?
  | |- ok_or_ype (let '(_, _) := ?x in _) => destruct x eqn:?
  end.

Lemma sm_ok_ype cmp needle hay :
  cmp = MGt \/ cmp = MLt \/ cmp = MEquals -> ok_or_ype (sm lit re_search cmp needle hay).
Proof. intros H. destruct (sm_cmp_ok cmp needle hay H) as [b ->]. apply ok_ype_ok. Qed.

Lemma scan_value_ok cmp s v nc :
  cmp = MGt \/ cmp = MLt -> ok_or_ype (scan_value lit re_search cmp s v nc).
Proof.
  intros Hc. unfold scan_value.
  repeat smstep; try (apply sm_ok_ype; tauto).
Qed.

Lemma aoh_step_ok cmp attr x s ie :
  cmp = MGt \/ cmp = MLt -> ok_or_ype (aoh_step lit re_search nstr cmp attr x s ie).
Proof.
  intros Hc. unfold aoh_step. destruct ie as [idx ele].
  repeat smstep; try (apply scan_value_ok; auto).
Qed.

Lemma hoh_step_ok cmp attr kvs x s kv :
  cmp = MGt \/ cmp = MLt -> ok_or_ype (hoh_step lit re_search nstr cmp attr kvs x s kv).
Proof.
  intros Hc. unfold hoh_step.
  repeat smstep; try (apply scan_value_ok; auto).
Qed.

Lemma list_step_ok cmp x s ie :
  cmp = MGt \/ cmp = MLt -> ok_or_ype (list_step lit re_search nstr cmp x s ie).
Proof.
  intros Hc. unfold list_step. destruct ie as [idx ele].
  repeat smstep; try (apply sm_ok_ype; tauto).
Qed.

Lemma extremum_ok cmp invert params data x :
  cmp = MGt \/ cmp = MLt -> ok_or_ype (extremum lit re_search nstr cmp invert params data x).
Proof.
  intros Hc. unfold extremum.
  repeat smstep.
  all: try (apply foldM_ok_or_ype; intros; first [apply aoh_step_ok | apply hoh_step_ok | apply list_step_ok]; auto).
Qed.

(* ---- unique / distinct ---- *)
Lemma hashable_val_ok n : ok_or_ype (hashable_val n).
Proof. destruct n; cbn; [apply ok_ype_ok | apply ok_ype_ype ..]. Qed.

Lemma group_values_ok params data x : ok_or_ype (group_values params data x).
Proof.
  unfold group_values.
  repeat smstep.
  all: try (apply foldM_ok_or_ype; intros; repeat smstep; try apply hashable_val_ok).
  all: try apply hashable_val_ok.
Qed.

Lemma kw_distinct_ok invert params data x : ok_or_ype (kw_distinct invert params data x).
Proof. unfold kw_distinct. repeat smstep. apply group_values_ok. Qed.

Lemma kw_unique_ok invert params data x : ok_or_ype (kw_unique invert params data x).
Proof. unfold kw_unique. repeat smstep. apply group_values_ok. Qed.

(* ---- has_child, name ---- *)
Lemma has_child_ok doc invert params data x : ok_or_ype (has_child doc invert params data x).
Proof.
  unfold has_child, has_concrete_child, has_anchored_child.
  repeat smstep.
Qed.

Lemma kw_name_ok invert params x : ok_or_ype (kw_name_search invert params x).
Proof. unfold kw_name_search. repeat smstep. Qed.

(* ---- parent: the climb never leaves the ancestry ---- *)
Lemma climb_ok n : forall here path anc,
  n <= List.length anc -> ok_or_ype (climb n here path anc).
Proof.
  induction n as [|n IH]; intros here path anc Hn; cbn [climb]; [apply ok_ype_ok|].
  destruct path as [|p0 pr]; [apply ok_ype_ype|].
  destruct (rev anc) as [|[l r] ranc] eqn:Er.
  - apply (f_equal (@List.length _)) in Er. rewrite rev_length in Er. cbn in Er. lia.
  - apply IH. apply (f_equal (@List.length _)) in Er. rewrite rev_length in Er. cbn in Er.
    rewrite rev_length. lia.
Qed.

Lemma kw_parent_ok invert params x : ok_or_ype (kw_parent invert params x).
Proof.
  unfold kw_parent.
  destruct (Nat.ltb 1 (List.length params)); [apply ok_ype_ype|].
  destruct invert; [apply ok_ype_ype|].
  apply bind_ok_or_ype.
  - destruct params as [|p ?]; [apply ok_ype_ok|]. destruct (py_int p); [apply ok_ype_ok | apply ok_ype_ype].
  - intros levels _.
    destruct (Z.ltb (Z.of_nat (List.length (k_ancestry x))) levels) eqn:E1; [apply ok_ype_ype|].
    destruct (Z.ltb levels 1) eqn:E2; [apply ok_ype_ok|].
    apply bind_ok_or_ype.
    + apply climb_ok. apply Z.ltb_ge in E1. apply Z.ltb_ge in E2. lia.
    + intros [[here path] anc] _. apply ok_ype_ok.
Qed.

(* ---- the dispatcher ---- *)
Lemma keyword_search_ok doc invert kw raw x :
  (exists n, lookup doc (k_here x) = Some n) ->
  ok_or_ype (keyword_search lit re_search nstr doc invert kw raw x).
Proof.
  intros [n Hn]. unfold keyword_search.
  destruct (keyword_parameters_total raw) as [[params ->]| ->]; cbn [bind]; [|apply ok_ype_ype].
  unfold node_at. rewrite Hn. cbn [bind].
  destruct kw.
  - apply kw_distinct_ok.
  - apply has_child_ok.
  - apply kw_name_ok.
  - apply extremum_ok; auto.
  - apply extremum_ok; auto.
  - apply kw_parent_ok.
  - apply kw_unique_ok.
Qed.

(* ---- the conversion back ---- *)
Lemma ek_back_ok kw v c n0 co :
  (exists x, ek_back kw v c n0 co = Ok x /\ is_coords x = true) \/ (exists k, ek_back kw v c n0 co = Raise (YPE k)).
Proof.
  unfold ek_back.
  destruct (ek_path_ok c n0 (c_path co)) as [[path ->]|[k ->]]; cbn [bind]; [|right; eauto].
  left.
  repeat match goal with
         | |- exists x, Ok _ = Ok x /\ _ => eexists; split; [reflexivity|]
         | |- exists x, (match ?y with _ => _ end) = Ok x /\ _ => destruct y eqn:?
         end; try reflexivity.
  all: match goal with H : ek_elem _ _ _ = Some ?e |- is_coords ?e = true => idtac end; reflexivity.
Qed.

Lemma mapM_back_ok kw v c n0 cs :
  (exists l, mapM (ek_back kw v c n0) cs = Ok l /\ Forall (fun x => is_coords x = true) l)
  \/ (exists k, mapM (ek_back kw v c n0) cs = Raise (YPE k)).
Proof.
  induction cs as [|co r IH]; cbn [mapM]; [left; eexists; split; [reflexivity | constructor]|].
  destruct (ek_back_ok kw v c n0 co) as [(x & -> & Hx)|(k & ->)]; cbn [bind]; [|right; eauto].
  destruct IH as [(l & -> & Hl)|(k & ->)]; cbn [bind]; [left | right; eauto].
  eexists; split; [reflexivity | constructor; auto].
Qed.

(* kw_handler_clean: the stream of every keyword segment ends Done or with a
   YAMLPathException, and yields NodeCoords *)
Theorem ek_kw_handler_res inv kw params v c :
  sres is_coords (ek_kw_handler lit re_search nstr vstr inv kw params v c).
Proof.
  unfold ek_kw_handler.
  apply sres_glift.
  - apply keyword_search_ok; auto. unfold ek_kctx, ek_doc, ek_here. cbn. eauto.
  - intros cs _.
    destruct (mapM_back_ok kw (ek_strip v) c (List.length (k_path (ek_kctx kw c))) cs) as [(l & -> & Hl)|(k & ->)];
      cbn [glift].
    + split; [exact I | exact Hl].
    + apply sres_gerr_ype.
Qed.

Lemma ek_kw_handler_seg inv kw params v c :
  sres coords_or_list (ek_kw_handler lit re_search nstr vstr inv kw params v c).
Proof.
  eapply sres_weaken; [|apply ek_kw_handler_res].
  intros x Hx. unfold coords_or_list. rewrite Hx. reflexivity.
Qed.

(* the handler never writes -- for every parameter text *)
Lemma ek_kw_handler_pure inv kw params v c : nomut (ek_kw_handler lit re_search nstr vstr inv kw params v c).
Proof.
  unfold ek_kw_handler.
  apply nomut_glift; intros cs. apply nomut_glift; intros l. exact I.
Qed.

Lemma ek_creator_ok segs i v c : sres is_coords (ek_creator segs i v c).
Proof. split; [exact I | constructor]. Qed.

End Clean.
