(* C19, the loop over the files: a file is rotated as if it were alone; only the
   exit status is carried. *)
From Coq Require Import List Ascii String NArith Bool Arith Lia.
From YP Require Import Outcome PyStr PyVal Doc Eyaml C19Spec C19DocSpec C19FilesSpec
                       EyamlProofs EyamlSubst EyamlDoc EyamlFinal.
Import ListNotations.
Open Scope list_scope.
Import Ey.

Definition lift_exit (ex : nat) (st : rstate) : rstate := with_exit (carry_exit ex (r_exit st)) st.

Definition olift (ex : nat) (o : outcome rstate) : outcome rstate :=
  match o with Ok s => Ok (lift_exit ex s) | Raise e => Raise e | OutOfFuel => OutOfFuel end.

Lemma set_at_lift : forall ex st l v f, set_at (lift_exit ex st) l v f = olift ex (set_at st l v f).
Proof.
  intros ex st l v f. unfold set_at. simpl.
  destruct (lookup (r_doc st) (removelast l)); [|reflexivity].
  destruct (lookup (r_doc st) l) as [[i x| | |]|]; reflexivity.
Qed.

Lemma set_value_locs_lift : forall ex ls st v f,
  set_value_locs (lift_exit ex st) ls v f = olift ex (set_value_locs st ls v f).
Proof.
  induction ls as [|l r IH]; intros st v f; [reflexivity|].
  simpl. rewrite set_at_lift. destruct (set_at st l v f) as [s1| |]; simpl; [apply IH | reflexivity | reflexivity].
Qed.

Section FilesProofs.
  Variable key : Type.
  Variables enc dec : key -> string -> option string.
  Variable layout : out_fmt -> string -> string.
  Variables oldk newk : key.

  Notation rot_at := (rotate_at key enc dec layout oldk newk).
  Notation rot_locs := (rotate_locs key enc dec layout oldk newk).
  Notation rot_path := (rotate_path key enc dec layout oldk newk).
  Notation rot_paths := (rotate_paths key enc dec layout oldk newk).
  Notation alone := (rotate_file key enc dec layout oldk newk).
  Notation from := (rotate_file_from key enc dec layout oldk newk).
  Notation files := (rotate_files key enc dec layout oldk newk).
  Notation sfrom := (status_from key enc dec layout oldk newk).
  Notation sstep := (status_step key enc dec layout oldk newk).

  Lemma rotate_at_lift : forall ex st p l, rot_at (lift_exit ex st) p l = olift ex (rot_at st p l).
  Proof.
    intros ex st p l. unfold rotate_at. simpl.
    destruct (lookup (r_doc st) l) as [[i v| | |]|]; try reflexivity.
    destruct (match anchor_name (NLeaf i v) with Some a => mem_string a (r_seen st) | None => false end); [reflexivity|].
    destruct (decrypt_eyaml key dec oldk v) as [pv|e|]; [| |reflexivity].
    2:{ destruct e; reflexivity. }
    destruct pv; try reflexivity.
    destruct (encrypt_eyaml key enc layout newk s _) as [ev|e|]; [| |reflexivity].
    2:{ destruct e; reflexivity. }
    match goal with |- (do st2 <- set_value_locs ?S ?LS ?V ?F; _) = _ =>
      change S with (lift_exit ex (mkrs (r_doc st)
         (match anchor_name (NLeaf i v) with Some a => r_seen st ++ [a] | None => r_seen st end)
         (r_changed st) (r_exit st) (r_next st) (r_folded st) (r_log st))) end.
    rewrite set_value_locs_lift.
    match goal with |- context [set_value_locs ?S ?LS ?V ?F] => destruct (set_value_locs S LS V F) as [s2| |] end; reflexivity.
  Qed.

  Lemma rotate_locs_lift : forall ex ls st p, rot_locs (lift_exit ex st) p ls = olift ex (rot_locs st p ls).
  Proof.
    induction ls as [|l r IH]; intros st p; [reflexivity|].
    simpl. rewrite rotate_at_lift. destruct (rot_at st p l) as [s1| |]; simpl; [apply IH | reflexivity | reflexivity].
  Qed.

  Lemma rotate_path_lift : forall ex st p, rot_path (lift_exit ex st) p = olift ex (rot_path st p).
  Proof.
    intros ex st p. unfold rotate_path. simpl r_doc.
    destruct (resolve (r_doc st) p) as [|l0 ls]; [reflexivity | apply rotate_locs_lift].
  Qed.

  Lemma rotate_paths_lift : forall ex ps st, rot_paths (lift_exit ex st) ps = olift ex (rot_paths st ps).
  Proof.
    induction ps as [|p r IH]; intros st; [reflexivity|].
    simpl. rewrite rotate_path_lift. destruct (rot_path st p) as [s1| |]; simpl; [apply IH | reflexivity | reflexivity].
  Qed.

  (* THE independence fact: the rotation of a file inside a run is the rotation of
     that file alone; only the exit status differs, and only by what is carried *)
  Lemma rotate_file_from_alone : forall ex d next folded,
    from ex d next folded = olift ex (alone d next folded).
  Proof.
    intros ex d next folded. unfold rotate_file, rotate_file_from.
    rewrite <- rotate_paths_lift. reflexivity.
  Qed.

  Lemma sfrom_cons : forall ex f r, sfrom ex (f :: r) = sfrom (sstep ex f) r.
  Proof. reflexivity. Qed.

  Lemma firstn_S_cons : forall (A : Type) (x : A) l n, firstn (S n) (x :: l) = x :: firstn n l.
  Proof. reflexivity. Qed.

  (* generalised over the status the loop starts with *)
  Lemma rotate_files_spec : forall fs ex,
    let o := files ex fs in
    List.length (ro_files o) <= List.length fs /\
    (forall j f r, nth_error fs j = Some f -> nth_error (ro_files o) j = Some r ->
       match f with
       | FiNotFile | FiUnloadable => r = FrSkipped
       | FiDoc d next folded =>
           exists st1, alone d next folded = Ok st1 /\ r = FrDone (with_exit (sfrom ex (firstn (S j) fs)) st1)
       end) /\
    match ro_end o with
    | Ok e => List.length (ro_files o) = List.length fs /\ e = sfrom ex fs
    | e => stops_at key enc dec layout oldk newk fs (List.length (ro_files o)) e
    end.
  Proof.
    induction fs as [|f rest IH]; intros ex.
    - simpl. split; [lia|]. split; [intros [|j] f r H; discriminate H | split; reflexivity].
    - (* the three kinds of argument *)
      destruct f as [| |d next folded].
      + (* not a file *)
        change (files ex (FiNotFile :: rest)) with (mkro (FrSkipped :: ro_files (files 2 rest)) (ro_end (files 2 rest))).
        destruct (IH 2) as (L & P & E). cbv zeta. simpl ro_files. simpl ro_end. split; [simpl; lia|]. split.
        * intros [|j] f r Hf Hr; simpl in Hf, Hr.
          -- inversion Hf; inversion Hr; reflexivity.
          -- specialize (P j f r Hf Hr). rewrite firstn_S_cons, sfrom_cons. exact P.
        * rewrite sfrom_cons. change (sstep ex FiNotFile) with 2.
          destruct (ro_end (files 2 rest)) as [e|x|].
          -- destruct E as [E1 E2]. split; [simpl; rewrite E1; reflexivity | exact E2].
          -- destruct E as (d & nx & fo & Hn & Hr). exists d, nx, fo. split; [exact Hn | exact Hr].
          -- destruct E as (d & nx & fo & Hn & Hr). exists d, nx, fo. split; [exact Hn | exact Hr].
      + (* not loadable *)
        change (files ex (FiUnloadable :: rest)) with (mkro (FrSkipped :: ro_files (files 3 rest)) (ro_end (files 3 rest))).
        destruct (IH 3) as (L & P & E). cbv zeta. simpl ro_files. simpl ro_end. split; [simpl; lia|]. split.
        * intros [|j] f r Hf Hr; simpl in Hf, Hr.
          -- inversion Hf; inversion Hr; reflexivity.
          -- specialize (P j f r Hf Hr). rewrite firstn_S_cons, sfrom_cons. exact P.
        * rewrite sfrom_cons. change (sstep ex FiUnloadable) with 3.
          destruct (ro_end (files 3 rest)) as [e|x|].
          -- destruct E as [E1 E2]. split; [simpl; rewrite E1; reflexivity | exact E2].
          -- destruct E as (d0 & nx & fo & Hn & Hr). exists d0, nx, fo. split; [exact Hn | exact Hr].
          -- destruct E as (d0 & nx & fo & Hn & Hr). exists d0, nx, fo. split; [exact Hn | exact Hr].
      + (* a document *)
        cbv zeta. simpl rotate_files. rewrite rotate_file_from_alone.
        destruct (alone d next folded) as [st1|x|] eqn:Ha; simpl olift; cbv iota beta.
        * assert (Es : sstep ex (FiDoc d next folded) = carry_exit ex (r_exit st1))
            by (unfold status_step; rewrite Ha; reflexivity).
          change (r_exit (lift_exit ex st1)) with (carry_exit ex (r_exit st1)).
          destruct (IH (carry_exit ex (r_exit st1))) as (L & P & E). simpl ro_files. simpl ro_end.
          split; [simpl; lia|]. split.
          -- intros [|j] f r Hf Hr; simpl in Hf, Hr.
             ++ inversion Hf; inversion Hr. exists st1. split; [exact Ha|].
                simpl firstn. unfold status_from; simpl fold_left. fold (sstep ex (FiDoc d next folded)). rewrite Es. reflexivity.
             ++ specialize (P j f r Hf Hr). rewrite firstn_S_cons, sfrom_cons, Es. exact P.
          -- rewrite sfrom_cons, Es.
             destruct (ro_end (files (carry_exit ex (r_exit st1)) rest)) as [e|x|].
             ++ destruct E as [E1 E2]. split; [simpl; rewrite E1; reflexivity | exact E2].
             ++ destruct E as (d0 & nx & fo & Hn & Hr). exists d0, nx, fo. split; [exact Hn | exact Hr].
             ++ destruct E as (d0 & nx & fo & Hn & Hr). exists d0, nx, fo. split; [exact Hn | exact Hr].
        * simpl. split; [lia|]. split; [intros [|j] f r _ H; discriminate H|].
          exists d, next, folded. split; [reflexivity | exact Ha].
        * simpl. split; [lia|]. split; [intros [|j] f r _ H; discriminate H|].
          exists d, next, folded. split; [reflexivity | exact Ha].
  Qed.

  Lemma rotate_main_spec : forall fs, run_spec key enc dec layout oldk newk fs (rotate_main key enc dec layout oldk newk fs).
  Proof.
    intro fs. unfold run_spec, rotate_main. destruct (rotate_files_spec fs 0) as (L & P & E).
    split; [exact L|]. split; [|exact E].
    intros j f r Hf Hr. specialize (P j f r Hf Hr). unfold file_alone. exact P.
  Qed.

  (* ---- the status: 0 at the end means 0 all the way, and documents only -------------------- *)
  Lemma carry_zero : forall ex e, carry_exit ex e = 0 -> ex = 0 /\ e = 0.
  Proof. intros ex [|e] H; simpl in H; [split; [exact H | reflexivity] | discriminate H]. Qed.

  Lemma sstep_zero : forall ex f, sstep ex f = 0 ->
    ex = 0 /\ match f with
              | FiDoc d next folded => forall st, alone d next folded = Ok st -> r_exit st = 0
              | _ => False
              end.
  Proof.
    intros ex [| |d next folded] H; simpl in H; try discriminate H.
    destruct (alone d next folded) as [st| |] eqn:E.
    - destruct (carry_zero _ _ H) as [A B]. split; [exact A|]. intros st' E'; inversion E'; subst; exact B.
    - split; [exact H | intros st' E'; discriminate E'].
    - split; [exact H | intros st' E'; discriminate E'].
  Qed.

  Lemma sfrom_zero : forall fs ex, sfrom ex fs = 0 ->
    ex = 0 /\ forall f, In f fs -> sstep 0 f = 0.
  Proof.
    induction fs as [|f r IH]; intros ex H; [split; [exact H | intros f []]|].
    rewrite sfrom_cons in H. destruct (IH _ H) as [A B].
    destruct (sstep_zero _ _ A) as [C D]. subst ex. split; [reflexivity|].
    intros f' [<-|Hin]; [exact A | apply B; exact Hin].
  Qed.

  Lemma sfrom_prefix_zero : forall fs n, sfrom 0 fs = 0 -> sfrom 0 (firstn n fs) = 0.
  Proof.
    intros fs n H. destruct (sfrom_zero fs 0 H) as [_ B].
    assert (G : forall l, (forall f, In f l -> sstep 0 f = 0) -> sfrom 0 l = 0).
    { induction l as [|f r IH]; intro Hl; [reflexivity|]. rewrite sfrom_cons, (Hl f (or_introl eq_refl)). apply IH.
      intros f' Hf'; apply Hl; right; exact Hf'. }
    apply G. intros f Hf. apply B. rewrite <- (firstn_skipn n fs). apply in_or_app; left; exact Hf.
  Qed.
End FilesProofs.

(* ---- the document-level theorems, for every file of a run --------------------------------------- *)
Section RunStatements.
  Variable key : Type.
  Variables enc dec : key -> string -> option string.
  Variable layout : out_fmt -> string -> string.
  Variables oldk newk : key.
  Hypothesis laws : cipher_laws key enc dec layout.
  Hypothesis keys_differ : oldk <> newk.

  Notation alone := (rotate_file key enc dec layout oldk newk).
  Notation main := (rotate_main key enc dec layout oldk newk).
  Notation sfrom := (status_from key enc dec layout oldk newk).

  Variable fs : list file_in.
  Variables (j : nat) (d : node) (next : N) (folded : list N).
  Hypothesis Hfile : nth_error fs j = Some (FiDoc d next folded).

  (* the entry of a file the loop got through *)
  Lemma run_entry : forall r, nth_error (ro_files (main fs)) j = Some r ->
    exists st1, alone d next folded = Ok st1 /\ r = FrDone (with_exit (sfrom 0 (firstn (S j) fs)) st1).
  Proof.
    intros r Hr. destruct (rotate_main_spec key enc dec layout oldk newk fs) as (_ & P & _).
    exact (P j _ r Hfile Hr).
  Qed.

  Hypothesis Hdoc : loaded_doc d next.

  Lemma run_inv : forall st, nth_error (ro_files (main fs)) j = Some (FrDone st) -> Inv (r_doc st) (r_next st).
  Proof.
    intros st Hr. destruct (run_entry _ Hr) as (st1 & Ha & E). inversion E; subst st. simpl.
    exact (stmt_inv_run key enc dec layout oldk newk laws keys_differ d next folded st1 Hdoc Ha).
  Qed.

  Lemma run_frame : forall st, nth_error (ro_files (main fs)) j = Some (FrDone st) ->
    rotated frame_leaf d (r_doc st) /\ frame_of (r_doc st) = frame_of d.
  Proof.
    intros st Hr. destruct (run_entry _ Hr) as (st1 & Ha & E). inversion E; subst st. simpl.
    exact (stmt_frame key enc dec layout oldk newk laws keys_differ d next folded st1 Hdoc Ha).
  Qed.

  Lemma run_shared : forall st, nth_error (ro_files (main fs)) j = Some (FrDone st) ->
    (forall l1' l2' x a, (forall m, ~ In (RMember m) l1') -> (forall m, ~ In (RMember m) l2') ->
       lookup d l1' = Some x -> lookup d l2' = Some x -> is_eyaml_node x = true -> anchor_name x = Some a ->
       exists y, lookup (r_doc st) l1' = Some y /\ lookup (r_doc st) l2' = Some y /\ anchor_name y = Some a /\ is_eyaml_node y = true)
    /\ NoDup (r_seen st).
  Proof.
    intros st Hr. destruct (run_entry _ Hr) as (st1 & Ha & E). inversion E; subst st. simpl.
    exact (stmt_shared key enc dec layout oldk newk laws keys_differ d next folded st1 Hdoc Ha).
  Qed.

  (* a successful run: the file was got through, without a failure of its own *)
  Lemma run_success_entry : ro_end (main fs) = Ok 0 ->
    exists st1, alone d next folded = Ok st1 /\ r_exit st1 = 0 /\
                nth_error (ro_files (main fs)) j = Some (FrDone (with_exit 0 st1)).
  Proof.
    intro Hend. destruct (rotate_main_spec key enc dec layout oldk newk fs) as (_ & P & E).
    rewrite Hend in E. destruct E as [El Es]. symmetry in Es.
    assert (Hj : j < List.length (ro_files (main fs))).
    { rewrite El. apply nth_error_Some. rewrite Hfile; discriminate. }
    destruct (nth_error (ro_files (main fs)) j) as [r|] eqn:Hr; [|apply nth_error_None in Hr; lia].
    destruct (P j _ r Hfile Hr) as (st1 & Ha & Er).
    rewrite (sfrom_prefix_zero key enc dec layout oldk newk fs (S j) Es) in Er.
    exists st1. split; [exact Ha|]. split; [|rewrite Er; reflexivity].
    destruct (sfrom_zero key enc dec layout oldk newk fs 0 Es) as [_ B].
    destruct (sstep_zero key enc dec layout oldk newk 0 _ (B _ (nth_error_In _ _ Hfile))) as [_ C].
    exact (C st1 Ha).
  Qed.

  Lemma run_rekeyed_all : ro_end (main fs) = Ok 0 ->
    exists st, nth_error (ro_files (main fs)) j = Some (FrDone st) /\ r_exit st = 0 /\
      forall l i s, In l (positions d) -> lookup d l = Some (NLeaf i (PStr s)) -> is_eyaml_str s = true ->
        exists i' s' p, lookup (r_doc st) l = Some (NLeaf i' (PStr s')) /\ is_eyaml_str s' = true /\
          decrypt_eyaml key dec oldk (PStr s) = Ok (PStr p) /\
          (plain_ok p = true -> decrypt_eyaml key dec newk (PStr s') = Ok (PStr p) /\
                                decrypt_eyaml key dec oldk (PStr s') = Raise EyamlExc).
  Proof.
    intro Hend. destruct (run_success_entry Hend) as (st1 & Ha & Hex & Hr).
    exists (with_exit 0 st1). split; [exact Hr|]. split; [reflexivity|]. simpl r_doc.
    exact (stmt_rekeyed_all key enc dec layout oldk newk laws keys_differ d next folded st1 Hdoc Ha Hex).
  Qed.

  Lemma run_rekeyed : ro_end (main fs) = Ok 0 ->
    exists st, nth_error (ro_files (main fs)) j = Some (FrDone st) /\ r_exit st = 0 /\
      forall l i s, In l (positions d) -> lookup d l = Some (NLeaf i (PStr s)) -> is_eyaml_str s = true ->
        exists i' s' p, lookup (r_doc st) l = Some (NLeaf i' (PStr s')) /\
          decrypt_eyaml key dec oldk (PStr s) = Ok (PStr p) /\
          (plain_ok p = true -> decrypt_eyaml key dec newk (PStr s') = Ok (PStr p)).
  Proof.
    intro Hend. destruct (run_rekeyed_all Hend) as (st & A & B & C). exists st. split; [exact A|]. split; [exact B|].
    intros l i s Hl Hm Hs. destruct (C l i s Hl Hm Hs) as (i' & s' & p & P1 & _ & P3 & P4).
    exists i', s', p. repeat split; try assumption. intro Hp; apply P4; exact Hp.
  Qed.

  Lemma run_old_key_dead : ro_end (main fs) = Ok 0 ->
    exists st, nth_error (ro_files (main fs)) j = Some (FrDone st) /\ r_exit st = 0 /\
      forall l i s, In l (positions d) -> lookup d l = Some (NLeaf i (PStr s)) -> is_eyaml_str s = true ->
        exists i' s' p, lookup (r_doc st) l = Some (NLeaf i' (PStr s')) /\ is_eyaml_str s' = true /\
          decrypt_eyaml key dec oldk (PStr s) = Ok (PStr p) /\
          (plain_ok p = true -> decrypt_eyaml key dec oldk (PStr s') = Raise EyamlExc).
  Proof.
    intro Hend. destruct (run_rekeyed_all Hend) as (st & A & B & C). exists st. split; [exact A|]. split; [exact B|].
    intros l i s Hl Hm Hs. destruct (C l i s Hl Hm Hs) as (i' & s' & p & P1 & P2 & P3 & P4).
    exists i', s', p. repeat split; try assumption. intro Hp; apply P4; exact Hp.
  Qed.
End RunStatements.

(* a successful run saw documents only *)
Lemma run_success_docs : forall key enc dec layout oldk newk fs,
  ro_end (rotate_main key enc dec layout oldk newk fs) = Ok 0 ->
  forall f, In f fs -> exists d next folded, f = FiDoc d next folded.
Proof.
  intros key enc dec layout oldk newk fs Hend f Hf.
  destruct (rotate_main_spec key enc dec layout oldk newk fs) as (_ & _ & E). rewrite Hend in E. destruct E as [_ Es].
  destruct (sfrom_zero key enc dec layout oldk newk fs 0 (eq_sym Es)) as [_ B].
  destruct (sstep_zero key enc dec layout oldk newk 0 f (B f Hf)) as [_ C].
  destruct f as [| |d n fo]; try contradiction. exists d, n, fo; reflexivity.
Qed.
