(* C15 for the evaluator joined with the keyword searches (EvalKw.v):
   part 1, the collector-free fragment with keyword segments (in_fragment_kw).
   Both halves at once: the streams stop cleanly and yield NodeCoords / lists
   ([sres], EvalGood.v) and they never end in a mutation ([nomut], EvalPure.v).
   The handler lemmas of EvalHandlers.v / EvalPure.v are reused; the dispatcher
   and the drivers are re-proved with hypotheses on the segments FROM INDEX i
   ON (what part 2, the collector chains, needs). *)
From Coq Require Import List Ascii String ZArith NArith Bool Arith Lia.
From YP Require Import Outcome PyStr PyVal Doc Generated PathParser PathPrinter Searches Eval Keywords EvalKw
     SpecC15 SpecC09 SpecC15kw EvalGood EvalHandlers EvalTotal EvalPure EvalKwClean.
Import ListNotations.
Open Scope string_scope.
Open Scope nat_scope.

Lemma in_fragment_kw_ppath segs : in_fragment_kw (PPath segs) = frag_segs_kw in_fragment_kw segs.
Proof.
  induction segs as [|[es us s s2] r IH]; [reflexivity|].
  change (in_fragment_kw (PPath (PSeg es us s s2 :: r)))
    with (seg_ok_kw es us && in_fragment_kw s && in_fragment_kw s2 && in_fragment_kw (PPath r)).
  rewrite IH. reflexivity.
Qed.

Lemma skipn_nth {A} (l : list A) : forall i x, nth_error l i = Some x -> skipn i l = x :: skipn (S i) l.
Proof.
  induction l as [|y r IH]; intros i x H; destruct i; cbn in *; try discriminate.
  - inversion H; reflexivity.
  - apply IH; exact H.
Qed.

Lemma skipn_none {A} (l : list A) : forall i, nth_error l i = None -> skipn i l = [].
Proof.
  induction l as [|y r IH]; intros i H; destruct i; cbn in *; try discriminate; auto.
Qed.

Lemma frag_kw_cons es us s s2 r :
  frag_segs_kw in_fragment_kw (PSeg es us s s2 :: r) = true ->
  seg_ok_kw es us = true /\ in_fragment_kw s = true /\ in_fragment_kw s2 = true /\ frag_segs_kw in_fragment_kw r = true.
Proof.
  cbn. intros H.
  apply andb_prop in H; destruct H as [H H4]. apply andb_prop in H; destruct H as [H H3].
  apply andb_prop in H; destruct H as [H1 H2]. auto.
Qed.

Lemma nomut_gfor_in {A B} (l : list A) (f : A -> gen B) : (forall x, In x l -> nomut (f x)) -> nomut (gfor l f).
Proof.
  induction l as [|x r IH]; intros H; cbn; [exact I|].
  apply nomut_gapp; [apply H; left; reflexivity|]. intros _. apply IH. intros; apply H; right; assumption.
Qed.

Lemma nomut_gbind_in {A B} (g : gen A) (f : A -> gen B) :
  nomut g -> (forall x, In x (fst g) -> nomut (f x)) -> nomut (gbind g f).
Proof.
  intros Hg Hf. unfold gbind. pose proof (nomut_gfor_in (fst g) f Hf) as H.
  destruct (gfor (fst g) f) as [l2 s2]; destruct s2; cbn in *; auto.
Qed.

Lemma gbind_gone {A B} (x : A) (f : A -> gen B) : gbind (gone x) f = f x.
Proof.
  unfold gbind, gone. cbn. destruct (f x) as [l s]. destruct s; cbn; rewrite ?app_nil_r; reflexivity.
Qed.

Definition res2 (md : mode) (g : gen rval) : Prop := res_of md g /\ (md <> MOpt -> nomut g).

Section KwTotal.
Variable lit : string -> outcome litres.
Variable re_search : string -> string -> outcome reres.
Variable nstr : node -> string.
Variable vstr : list rval -> string.
Hypothesis lit_total : forall s, exists r, lit s = Ok r /\ (forall c, r <> LCrash c).
Hypothesis re_total : forall p s, exists r, re_search p s = Ok r.

Notation KW := (ek_kw_handler lit re_search nstr vstr).
Notation EV := (ev lit re_search nstr vstr (ek_kw_handler lit re_search nstr vstr) ek_creator).

Lemma dispatch_tail self sg_next rqp segs i ps v0 c0 :
  nth_error segs i = Some ps ->
  seg_ok_kw (seg_es ps) (seg_us ps) = true ->
  (forall e c', nomut (self e c')) ->
  (forall e c', good (sg_next e c') /\ nomut (sg_next e c')) ->
  (forall e c', reqres (rqp (seg_sub ps) e c') /\ nomut (rqp (seg_sub ps) e c')) ->
  ((forall e c', vsize e < vsize v0 -> sres coords_or_list (self e c')) ->
   sres coords_or_list (dispatch lit re_search nstr vstr KW self sg_next rqp segs i v0 c0))
  /\ nomut (dispatch lit re_search nstr vstr KW self sg_next rqp segs i v0 c0).
Proof.
  intros En Hok Hselfp Hnext Hrq. unfold dispatch. rewrite En.
  assert (Hn1 : forall e c', good (sg_next e c')) by (intros; apply Hnext).
  assert (Hn2 : forall e c', nomut (sg_next e c')) by (intros; apply Hnext).
  assert (Hr1 : forall e c', reqres (rqp (seg_sub ps) e c')) by (intros; apply Hrq).
  assert (Hr2 : forall e c', nomut (rqp (seg_sub ps) e c')) by (intros; apply Hrq).
  destruct ps as [[ty a] [uty ua] sub sub2]; cbn [seg_es seg_us seg_sub] in *.
  destruct (_ && _ && _) eqn:Erec; [split; [intros _; apply sres_gerr_ype | exact I]|].
  destruct (unwrap_ctx v0 c0) as [v c] eqn:Eu. pose proof (unwrap_size _ _ _ _ Eu) as Hsz.
  unfold seg_ok_kw in Hok.
  unfold seg_ok in Hok; cbn [fst snd] in Hok. apply andb_prop in Hok. destruct Hok as [Hty Hnc].
  destruct ty as [[]|]; try discriminate.
  - (* anchor *) split; [intros _; apply by_anchor_res | apply by_anchor_pure].
  - (* index *) split; [intros _; apply by_index_res | apply by_index_pure].
  - (* key *) split; [intros Hself|apply by_key_pure; auto].
    apply by_key_res. intros e c' He. apply Hself. apply elems_size in He. lia.
  - (* search *) destruct a; try discriminate.
    split; [intros _; apply by_search_res; auto | apply by_search_pure; auto].
  - (* traverse *)
    destruct uty as [[]|]; cbn in Hnc; try discriminate;
      cbn [is_ty is_stype segtype_eqb];
      try (split; [intros _; eapply trav_res; eauto; lia | apply trav_pure; auto]).
    all: destruct ua; cbn [is_ty is_stype segtype_eqb];
      (split; [intros _; eapply trav_res; eauto; lia | apply trav_pure; auto]).
  - (* keyword *) destruct a; try discriminate.
    split; [intros _; apply ek_kw_handler_seg; auto | apply ek_kw_handler_pure].
  - (* match all *)
    destruct (S i <? Datatypes.length segs).
    + split; [intros _; apply match_all_filtered_res; auto | apply match_all_filtered_pure; auto].
    + split; [intros _; apply match_all_unfiltered_res | apply match_all_unfiltered_pure].
Qed.

Lemma walk_tail sg_next rqp segs i ps :
  nth_error segs i = Some ps ->
  seg_ok_kw (seg_es ps) (seg_us ps) = true ->
  (forall e c', good (sg_next e c') /\ nomut (sg_next e c')) ->
  (forall e c', reqres (rqp (seg_sub ps) e c') /\ nomut (rqp (seg_sub ps) e c')) ->
  forall vf v c,
  (vsize v < vf -> sres coords_or_list (walk lit re_search nstr vstr KW sg_next rqp segs i vf v c))
  /\ nomut (walk lit re_search nstr vstr KW sg_next rqp segs i vf v c).
Proof.
  intros En Hok Hnext Hrq. induction vf as [|vf IHv]; intros v c.
  - split; [lia | exact I].
  - cbn [walk].
    destruct (dispatch_tail (walk lit re_search nstr vstr KW sg_next rqp segs i vf) sg_next rqp segs i ps v c
                En Hok (fun e c' => proj2 (IHv e c')) Hnext Hrq) as [H1 H2].
    split; [|exact H2].
    intros Hsz. apply H1. intros e c' He. apply (IHv e c'). lia.
Qed.

Lemma nth_error_lt_true {A} (l : list A) i x : nth_error l i = Some x -> (i <? List.length l) = true.
Proof. intros H. apply Nat.ltb_lt. apply nth_error_Some. rewrite H. discriminate. Qed.
Lemma nth_error_lt_false {A} (l : list A) i : nth_error l i = None -> (i <? List.length l) = false.
Proof. intros H. apply Nat.ltb_ge. apply nth_error_None. exact H. Qed.

(* the drivers from index i on, when every segment from i on is collector-free *)
Lemma ev_tail : forall pf md segs i v c,
  wsegs (skipn i segs) < pf -> frag_segs_kw in_fragment_kw (skipn i segs) = true ->
  res2 md (EV pf md segs i v c).
Proof.
  induction pf as [|pf IH]; intros md segs i v c Hw Hfr; [lia|].
  cbn [ev]. unfold ev_body.
  set (rqp := fun (p : ppath) (v : rval) (c : ctx) =>
                match p with PFail e => gerr e | PPath s => EV pf MReq s 0 v c end).
  destruct (nth_error segs i) as [ps|] eqn:En.
  2:{ (* past the end *)
    destruct md; unfold res2; cbn [res_of].
    - rewrite (nth_error_lt_false _ _ En). split; [apply sres_coords; reflexivity | intros _; exact I].
    - split; [apply sres_coords; reflexivity | intros H; exfalso; apply H; reflexivity].
    - cbn [walk]. unfold dispatch. rewrite En. split; [apply sres_gnil | intros _; exact I]. }
  rewrite (skipn_nth _ _ _ En) in Hw, Hfr.
  destruct ps as [es us sub sub2]. destruct (frag_kw_cons _ _ _ _ _ Hfr) as (Hok & Hs & Hs2 & Hrest).
  cbn [wsegs] in Hw.
  assert (Hnext : forall e c', res2 MSeg (EV pf MSeg segs (S i) e c')).
  { intros e c'. apply IH; auto. lia. }
  assert (Hnext' : forall e c', good (EV pf MSeg segs (S i) e c') /\ nomut (EV pf MSeg segs (S i) e c')).
  { intros e c'. destruct (Hnext e c') as [[H1 _] H2]. split; [exact H1 | apply H2; discriminate]. }
  assert (Hrq : forall e c', reqres (rqp sub e c') /\ nomut (rqp sub e c')).
  { intros e c'. unfold rqp. destruct sub as [s|ex].
    - destruct (IH MReq s 0 e c') as [H1 H2]; [rewrite pweight_ppath in Hw; cbn [skipn]; lia
                                              | cbn [skipn]; rewrite <- in_fragment_kw_ppath; exact Hs |].
      split; [exact H1 | apply H2; discriminate].
    - cbn in Hs. destruct ex; try discriminate. split; [apply sres_gerr_ype | exact I]. }
  assert (Hhere : forall v c, sres coords_or_list
            (walk lit re_search nstr vstr KW (EV pf MSeg segs (S i)) rqp segs i (S (vsize v)) v c)
            /\ nomut (walk lit re_search nstr vstr KW (EV pf MSeg segs (S i)) rqp segs i (S (vsize v)) v c)).
  { intros v1 c1.
    destruct (walk_tail (EV pf MSeg segs (S i)) rqp segs i _ En Hok Hnext' Hrq (S (vsize v1)) v1 c1) as [H1 H2].
    split; [apply H1; lia | exact H2]. }
  assert (Hw' : wsegs (skipn (S i) segs) < pf) by lia.
  destruct md; unfold res2; cbn [res_of].
  - (* MReq *)
    rewrite (nth_error_lt_true _ _ _ En).
    split.
    + apply sres_gbind; [apply Hhere|].
      intros x Hx. destruct (Hhere v (mkctx (x_par c) (x_ref c) true (x_tp c) (x_anc c))) as [[_ Hf] _].
      rewrite Forall_forall in Hf. specialize (Hf x Hx).
      destruct (is_pylist x) eqn:El; [apply (IH MReq); auto|].
      destruct x; cbn in Hf, El; try discriminate.
      * rewrite El in Hf. discriminate.
      * apply (IH MReq); auto.
    + intros _. apply nomut_gbind; [apply Hhere|].
      intros x. destruct (is_pylist x); [apply (IH MReq); auto; discriminate|].
      destruct x; try exact I. apply (IH MReq); auto; discriminate.
  - (* MOpt *)
    split; [|intros H; exfalso; apply H; reflexivity].
    set (gg := walk lit re_search nstr vstr KW (EV pf MSeg segs (S i)) rqp segs i (S (vsize v)) v
                    (mkctx (x_par c) (x_ref c) true (x_tp c) (x_anc c))).
    assert (Hgg : sres coords_or_list gg) by apply Hhere.
    clearbody gg.
    assert (Hfound : sres is_coords
              (gbind gg
                 (fun x => if is_pylist x then EV pf MOpt segs (S i) x c
                           else match x with
                                | RCoords nd par rf path anc =>
                                    EV pf MOpt segs (S i) nd (mkctx par rf true path anc)
                                | _ => gerr (PyCrash AttributeError)
                                end))).
    { apply sres_gbind; [apply Hgg|].
      intros x Hx. destruct Hgg as [_ Hf].
      rewrite Forall_forall in Hf. specialize (Hf x Hx).
      destruct (is_pylist x) eqn:El; [apply (IH MOpt); auto|].
      destruct x; cbn in Hf, El; try discriminate.
      - rewrite El in Hf. discriminate.
      - apply (IH MOpt); auto. }
    destruct gg as [[|x0 l0] st]; [destruct st|]; try exact Hfound.
    destruct (creatable _); [apply missing_element_res; apply ek_creator_ok | exact Hfound].
  - (* MSeg *)
    split; [apply Hhere | intros _; apply Hhere].
Qed.

End KwTotal.
