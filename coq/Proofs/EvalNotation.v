(* C01_notation: a query gives the same answer in dot and in forward-slash
   notation.

   A prepared path (Model/Eval.v [prepare]) zips the ESCAPED parse with the
   UNESCAPED twin parse of the same text.  C08 gives: the dot text and the
   forward-slash text of the same segments have the same escaped parse
   (Proofs/EvalSemTop.v notation_same_segments); the unescaped parses differ
   (a separator escaped in one notation keeps its back-slash there).  Where
   does the required query read the unescaped parse?  [dispatch]: only the
   segment TYPE and, for a collector, its operator ([fallback]); the
   sub-paths of a pseg are prepared from the escaped search attribute and the
   collector expression, which the unescaped parse leaves alone.  (The
   optional walk hands the unescaped segments to the node-creating branches;
   it is not part of this statement.)

   [pseg_sim]: same escaped segment, same sub-paths, unescaped segments of the
   same type and equal when either is a collector.  [ev_sim]: the required
   driver and the per-segment driver give EQUAL streams (same results, same
   coordinates, same reported paths, same way of stopping) on similar
   paths -- every segment kind, keyword searches and collectors included. *)
From Coq Require Import List Ascii String ZArith NArith Bool Arith Lia.
From YP Require Import Outcome PyStr PyVal Doc Generated PathParser PathPrinter Searches Eval SpecC01
  EvalSem EvalSemLib EvalSemPath EvalSemTop C08Spec RtStep RtSeg RtInt RtRender RtTables RtCanon RtClauses.
Import ListNotations.
Open Scope string_scope.
Open Scope nat_scope.

Definition is_coll_attrs (a : attrs) : bool := match a with ACollector _ _ => true | _ => false end.

Definition us_sim (u1 u2 : seg) : Prop :=
  fst u1 = fst u2 /\ ((is_coll_attrs (snd u1) || is_coll_attrs (snd u2)) = true -> snd u1 = snd u2).

Definition pseg_sim (a b : pseg) : Prop :=
  seg_es a = seg_es b /\ us_sim (seg_us a) (seg_us b) /\ seg_sub a = seg_sub b /\ seg_sub2 a = seg_sub2 b.

Definition ppath_sim (p q : ppath) : Prop :=
  match p, q with
  | PPath a, PPath b => Forall2 pseg_sim a b
  | PFail e1, PFail e2 => e1 = e2
  | _, _ => False
  end.

(* ---- streams: extensionality of the consumers ---- *)
Lemma gfirst_ext {A B} (g : gen A) (k1 k2 : option A -> gen B) : (forall o, k1 o = k2 o) -> gfirst g k1 = gfirst g k2.
Proof. intros H. destruct g as [[|x l] s]; cbn; [destruct s; auto | auto]. Qed.

Lemma all_gen_ext {A B} (g : gen A) (k1 k2 : list A -> gen B) : (forall l, k1 l = k2 l) -> all_gen g k1 = all_gen g k2.
Proof. intros H. destruct g as [l []]; cbn; auto. Qed.

Lemma glift_ext {A B} (o : outcome A) (k1 k2 : A -> gen B) : (forall a, k1 a = k2 a) -> glift o k1 = glift o k2.
Proof. intros H. destruct o; cbn; auto. Qed.

Section Sim.
Variable lit : string -> outcome litres.
Variable re_search : string -> string -> outcome reres.
Variable nstr : node -> string.
Variable vstr : list rval -> string.
Variable kw_handler : bool -> keyword -> string -> rval -> ctx -> gen rval.
Variable creator : list pseg -> nat -> rval -> ctx -> gen rval.

Notation EV := (ev lit re_search nstr vstr kw_handler creator).
Notation DISPATCH := (dispatch lit re_search nstr vstr kw_handler).

Lemma by_key_ext (s1 s2 : rval -> ctx -> gen rval) a v c :
  (forall v c, s1 v c = s2 v c) -> by_key s1 a v c = by_key s2 a v c.
Proof.
  intros H. unfold by_key.
  destruct v as [[i x|i kvs|i els|i els]|l|nd pp rr tt aa]; try reflexivity.
  - cbn [elems]. destruct (py_int (attrs_str a)); [reflexivity|].
    destruct (negb (x_tl c)); [reflexivity|]. apply gfor_ext. intros [j e] _. apply H.
  - cbn [elems]. destruct (py_int (attrs_str a)); [reflexivity|].
    destruct (negb (x_tl c)); [reflexivity|]. apply gfor_ext. intros [j e] _. apply H.
Qed.

Lemma match_all_filtered_ext (s1 s2 : rval -> ctx -> gen rval) v c :
  (forall v c, s1 v c = s2 v c) -> match_all_filtered s1 v c = match_all_filtered s2 v c.
Proof.
  intros H. unfold match_all_filtered.
  destruct v as [[i x|i kvs|i els|i els]|l|nd pp rr tt aa]; try reflexivity;
    apply gfor_ext; intros y _; try destruct y as [j e]; rewrite H; reflexivity.
Qed.

Lemma trav_ext (s1 s2 : rval -> ctx -> gen rval) last :
  (forall v c, s1 v c = s2 v c) -> forall tf v c, trav tf last s1 v c = trav tf last s2 v c.
Proof.
  intros H. induction tf as [|tf IH]; intros v c; [reflexivity|].
  cbn [trav]. rewrite H.
  assert (K : forall (A : Type) (l : list A) (f g : A -> gen rval), (forall x, f x = g x) -> gfor l f = gfor l g).
  { intros A l f g Hfg. apply gfor_ext. intros x _. apply Hfg. }
  destruct v as [[i x|i kvs|i els|i els]|l|nd pp rr tt aa]; destruct last; try reflexivity.
  all: try (apply gapp_ext).
  all: apply K; intros y; try destruct y as [j e]; apply IH.
Qed.

Lemma peek_loop_sim rqp v c k : forall r1 r2, Forall2 pseg_sim r1 r2 ->
  forall ncs, peek_loop rqp r1 v c ncs k = peek_loop rqp r2 v c ncs k.
Proof.
  induction 1 as [|a b r1 r2 Hab Hr IH]; intros ncs; [reflexivity|].
  destruct Hab as (He & _ & _ & H2). cbn [peek_loop]. rewrite He, H2.
  destruct (seg_es b) as [[[]|] at_]; try reflexivity.
  destruct at_ as [| | | | |op expr]; try reflexivity.
  destruct op; try reflexivity.
  - apply all_gen_ext. intros items. apply IH.
  - apply all_gen_ext. intros items. apply glift_ext. intros rems.
    destruct (subtraction (List.concat rems) ncs) as [l []]; try reflexivity. apply IH.
  - apply all_gen_ext. intros items. apply IH.
Qed.

Lemma by_collector_sim rqp op a b r1 r2 v c :
  seg_sub a = seg_sub b -> Forall2 pseg_sim r1 r2 ->
  by_collector rqp op a r1 v c = by_collector rqp op b r2 v c.
Proof.
  intros Hs Hr. unfold by_collector. destruct op; try reflexivity.
  rewrite Hs. apply all_gen_ext. intros ncs. apply peek_loop_sim. exact Hr.
Qed.

Lemma sim_nth s1 s2 : Forall2 pseg_sim s1 s2 -> forall i,
  match nth_error s1 i, nth_error s2 i with
  | Some a, Some b => pseg_sim a b
  | None, None => True
  | _, _ => False
  end.
Proof.
  induction 1 as [|a b r1 r2 Hab Hr IH]; intros [|i]; cbn; auto. apply IH.
Qed.

Lemma sim_length s1 s2 : Forall2 pseg_sim s1 s2 -> List.length s1 = List.length s2.
Proof. induction 1; cbn; auto. Qed.

Lemma sim_skipn s1 s2 : Forall2 pseg_sim s1 s2 -> forall i, Forall2 pseg_sim (skipn i s1) (skipn i s2).
Proof. induction 1 as [|a b r1 r2 Hab Hr IH]; intros [|i]; cbn; auto. Qed.

Lemma sim_type_at s1 s2 i : Forall2 pseg_sim s1 s2 -> seg_type_at s1 i = seg_type_at s2 i.
Proof.
  intros H. unfold seg_type_at. pose proof (sim_nth _ _ H i) as K.
  destruct (nth_error s1 i), (nth_error s2 i); try contradiction; [|reflexivity].
  destruct K as (He & _). rewrite He. reflexivity.
Qed.

Lemma dispatch_sim (self1 self2 sg1 sg2 : rval -> ctx -> gen rval) rqp s1 s2 i v0 c0 :
  (forall v c, self1 v c = self2 v c) -> (forall v c, sg1 v c = sg2 v c) -> Forall2 pseg_sim s1 s2 ->
  DISPATCH self1 sg1 rqp s1 i v0 c0 = DISPATCH self2 sg2 rqp s2 i v0 c0.
Proof.
  intros Hself Hsg Hsim. unfold dispatch.
  pose proof (sim_nth _ _ Hsim i) as K.
  destruct (nth_error s1 i) as [a|], (nth_error s2 i) as [b|]; try contradiction; [|reflexivity].
  destruct K as (He & (Hty & Hcoll) & Hsub & Hsub2).
  destruct a as [es1 [uty1 ua1] sub1 sb1]. destruct b as [es2 [uty2 ua2] sub2 sb2].
  cbn [seg_es seg_us seg_sub seg_sub2 fst snd] in *. subst es2 uty2 sub2 sb2.
  destruct es1 as [ty a].
  rewrite (sim_type_at _ _ (i - 1) Hsim), (sim_length _ _ Hsim).
  destruct ((0 <? i) && is_ty TTraverse ty && is_ty TTraverse (seg_type_at s2 (i - 1))); [reflexivity|].
  destruct (unwrap_ctx v0 c0) as [v c].
  assert (Hfb :
    match uty1, ua1 with
    | Some TCollector, ACollector op _ => by_collector rqp op (PSeg (ty, a) (uty1, ua1) sub1 sb1) (skipn (S i) s1) v c
    | _, _ => if is_ty TTraverse ty then trav (S (vsize v)) (negb (S i <? List.length s2)) sg1 v c
              else gerr (PyCrash NotImplemented)
    end =
    match uty1, ua2 with
    | Some TCollector, ACollector op _ => by_collector rqp op (PSeg (ty, a) (uty1, ua2) sub1 sb1) (skipn (S i) s2) v c
    | _, _ => if is_ty TTraverse ty then trav (S (vsize v)) (negb (S i <? List.length s2)) sg2 v c
              else gerr (PyCrash NotImplemented)
    end).
  { assert (Htr : (if is_ty TTraverse ty then trav (S (vsize v)) (negb (S i <? List.length s2)) sg1 v c
                   else gerr (PyCrash NotImplemented))
                  = (if is_ty TTraverse ty then trav (S (vsize v)) (negb (S i <? List.length s2)) sg2 v c
                     else gerr (PyCrash NotImplemented))).
    { destruct (is_ty TTraverse ty); [apply trav_ext; exact Hsg | reflexivity]. }
    destruct (is_coll_attrs ua1 || is_coll_attrs ua2) eqn:Ec.
    - rewrite <- (Hcoll eq_refl). destruct uty1 as [[]|]; try exact Htr. destruct ua1; try exact Htr.
      apply by_collector_sim; [reflexivity | apply sim_skipn; exact Hsim].
    - apply orb_false_iff in Ec. destruct Ec as [E1 E2].
      destruct uty1 as [[]|]; try exact Htr.
      destruct ua1; try discriminate E1; destruct ua2; try discriminate E2; exact Htr. }
  destruct ty as [[]|]; try exact Hfb; try reflexivity;
    try (apply by_key_ext; exact Hself);
    try (destruct a; (exact Hfb || reflexivity)).
  destruct (S i <? List.length s2); [apply match_all_filtered_ext; exact Hsg | reflexivity].
Qed.

Lemma walk_sim (sg1 sg2 : rval -> ctx -> gen rval) rqp s1 s2 i :
  (forall v c, sg1 v c = sg2 v c) -> Forall2 pseg_sim s1 s2 ->
  forall vf v c, walk lit re_search nstr vstr kw_handler sg1 rqp s1 i vf v c
                 = walk lit re_search nstr vstr kw_handler sg2 rqp s2 i vf v c.
Proof.
  intros Hsg Hsim. induction vf as [|vf IH]; intros v c; [reflexivity|].
  cbn [walk]. apply dispatch_sim; assumption.
Qed.

Theorem ev_sim : forall pf md s1 s2 i v c,
  md <> MOpt -> Forall2 pseg_sim s1 s2 -> EV pf md s1 i v c = EV pf md s2 i v c.
Proof.
  induction pf as [|pf IH]; intros md s1 s2 i v c Hmd Hsim; [reflexivity|].
  assert (Hhere : forall v c,
    walk lit re_search nstr vstr kw_handler (EV pf MSeg s1 (S i))
         (fun p v c => match p with PFail e => gerr e | PPath s => EV pf MReq s 0 v c end) s1 i (S (vsize v)) v c
    = walk lit re_search nstr vstr kw_handler (EV pf MSeg s2 (S i))
         (fun p v c => match p with PFail e => gerr e | PPath s => EV pf MReq s 0 v c end) s2 i (S (vsize v)) v c).
  { intros v' c'. apply walk_sim; [|exact Hsim]. intros v'' c''. apply IH; [discriminate | exact Hsim]. }
  destruct md; [| contradiction Hmd; reflexivity |].
  - cbn [ev]. unfold ev_body. rewrite (sim_length _ _ Hsim).
    destruct (i <? List.length s2); [|reflexivity].
    rewrite Hhere. apply gbind_ext_in. intros x _.
    destruct (is_pylist x); [apply IH; [discriminate | exact Hsim]|].
    destruct x as [|l|nd par rf path anc]; try reflexivity. apply IH; [discriminate | exact Hsim].
  - cbn [ev]. unfold ev_body. apply Hhere.
Qed.

Lemma pweight_sim : forall s1 s2, Forall2 pseg_sim s1 s2 -> pweight (PPath s1) = pweight (PPath s2).
Proof.
  intros s1 s2 H. cbn [pweight]. f_equal.
  induction H as [|a b r1 r2 Hab Hr IH]; [reflexivity|].
  destruct a as [e1 u1 sa sa2], b as [e2 u2 sb sb2]. destruct Hab as (_ & _ & H1 & H2). cbn in H1, H2. subst.
  rewrite IH. reflexivity.
Qed.

(* similar prepared paths: the three read entry points give equal streams *)
Theorem required_sim p q d :
  ppath_sim p q ->
  get_required lit re_search nstr vstr kw_handler creator p d = get_required lit re_search nstr vstr kw_handler creator q d.
Proof.
  intros H. unfold get_required. destruct p as [s1|e1], q as [s2|e2]; cbn [ppath_sim] in H; try contradiction.
  - unfold fuel_for. rewrite (pweight_sim _ _ H), (ev_sim _ MReq s1 s2 0 _ _ (fun E => ltac:(discriminate E)) H). reflexivity.
  - subst. reflexivity.
Qed.

Theorem exists_sim p q d :
  ppath_sim p q ->
  exists_ lit re_search nstr vstr kw_handler creator p d = exists_ lit re_search nstr vstr kw_handler creator q d.
Proof.
  intros H. unfold exists_. destruct p as [s1|e1], q as [s2|e2]; cbn [ppath_sim] in H; try contradiction.
  - unfold fuel_for. rewrite (pweight_sim _ _ H), (ev_sim _ MReq s1 s2 0 _ _ (fun E => ltac:(discriminate E)) H). reflexivity.
  - subst. reflexivity.
Qed.

End Sim.

(* ---- the two texts prepare to similar paths ---- *)
Definition outcome_sim (a b : outcome ppath) : Prop :=
  match a, b with
  | Ok p, Ok q => ppath_sim p q
  | OutOfFuel, OutOfFuel => True
  | _, _ => False
  end.

Lemma zip_segs_sim prep : forall es us1 us2, Forall2 us_sim us1 us2 ->
  match zip_segs prep es us1, zip_segs prep es us2 with
  | Ok a, Ok b => Forall2 pseg_sim a b
  | Raise e1, Raise e2 => e1 = e2
  | OutOfFuel, OutOfFuel => True
  | _, _ => False
  end.
Proof.
  induction es as [|e er IH]; intros us1 us2 Hu; [cbn; constructor|].
  destruct Hu as [|u1 u2 r1 r2 Hu Hr]; [cbn; reflexivity|].
  cbn [zip_segs].
  assert (Esub : match snd e with
                 | ASearch _ _ attr _ => prep attr
                 | _ => match snd u1 with ACollector _ expr => prep expr | _ => Ok (PPath []) end
                 end
               = match snd e with
                 | ASearch _ _ attr _ => prep attr
                 | _ => match snd u2 with ACollector _ expr => prep expr | _ => Ok (PPath []) end
                 end).
  { destruct Hu as [_ Hc]. destruct (is_coll_attrs (snd u1) || is_coll_attrs (snd u2)) eqn:Ec.
    - rewrite (Hc eq_refl). reflexivity.
    - apply orb_false_iff in Ec. destruct Ec as [E1 E2].
      destruct (snd e); try reflexivity;
        destruct (snd u1); try discriminate E1; destruct (snd u2); try discriminate E2; reflexivity. }
  rewrite Esub.
  match goal with |- context [bind ?X _] => destruct X as [sub| |] end; cbn [bind]; [| reflexivity | exact I].
  match goal with |- context [bind ?X _] => destruct X as [sub2| |] end; cbn [bind]; [| reflexivity | exact I].
  specialize (IH r1 r2 Hr).
  destruct (zip_segs prep er r1) as [a| |], (zip_segs prep er r2) as [b| |]; cbn [bind]; try contradiction; try exact IH.
  constructor; [|exact IH]. repeat split; try reflexivity; apply Hu.
Qed.

Lemma kseg_us_sim s1 s2 (y : xseg) : us_sim (kseg false s1 y) (kseg false s2 y).
Proof.
  destruct y as [[[ty a] st] X]. unfold kseg.
  destruct ty as [[]|]; try (split; [reflexivity | intros _; reflexivity]);
    destruct a; try (split; [reflexivity | intros _; reflexivity]); split; try reflexivity; cbn; discriminate.
Qed.

Lemma usegs_sim l : Forall2 us_sim (usegs Dot l) (usegs Slash l).
Proof.
  unfold usegs. induction l as [|x r IH]; cbn [map]; constructor; [apply kseg_us_sim | exact IH].
Qed.

Theorem prepare_notation_sim (l : list sseg) f :
  wf Dot l = true -> wf Slash l = true -> first_not_in ["/"%char] (render_ref Dot l) = true ->
  outcome_sim (prepare f (render_ref Dot l)) (prepare f (render_ref Slash l)).
Proof.
  intros Hd Hs Hf. destruct f as [|f]; [exact I|]. cbn [prepare].
  destruct (notation_same_segments l Hd Hs Hf) as [E1 E2]. rewrite E1, E2.
  rewrite (parse_auto_unescaped Dot l Hd Hf), (parse_auto_unescaped Slash l Hs eq_refl).
  destruct (segs_of l) as [|e0 er] eqn:El; [cbn; constructor|].
  pose proof (zip_segs_sim (prepare f) (e0 :: er) _ _ (usegs_sim l)) as Z.
  destruct (zip_segs (prepare f) (e0 :: er) (usegs Dot l)) as [a| |],
           (zip_segs (prepare f) (e0 :: er) (usegs Slash l)) as [b| |]; try contradiction; cbn; auto.
Qed.

Section Notation.
Variable lit : string -> outcome litres.
Variable re_search : string -> string -> outcome reres.
Variable nstr : node -> string.
Variable vstr : list rval -> string.
Variable kw_handler : bool -> keyword -> string -> rval -> ctx -> gen rval.
Variable creator : list pseg -> nat -> rval -> ctx -> gen rval.

(* C01_notation *)
Theorem notation_same_results (l : list sseg) f d :
  wf Dot l = true -> wf Slash l = true -> first_not_in ["/"%char] (render_ref Dot l) = true ->
  match prepare f (render_ref Dot l), prepare f (render_ref Slash l) with
  | Ok pd, Ok ps =>
      get_required lit re_search nstr vstr kw_handler creator pd d
      = get_required lit re_search nstr vstr kw_handler creator ps d
      /\ exists_ lit re_search nstr vstr kw_handler creator pd d
         = exists_ lit re_search nstr vstr kw_handler creator ps d
  | OutOfFuel, OutOfFuel => True
  | _, _ => False
  end.
Proof.
  intros Hd Hs Hf. pose proof (prepare_notation_sim l f Hd Hs Hf) as H.
  destruct (prepare f (render_ref Dot l)) as [pd| |], (prepare f (render_ref Slash l)) as [ps| |];
    cbn [outcome_sim] in H; try contradiction; [|exact I].
  split; [apply required_sim | apply exists_sim]; exact H.
Qed.

End Notation.
