(* C19, document level, part 3: discovery is sound, the whole run, the theorems. *)
From Coq Require Import List Ascii String NArith Bool Arith Lia.
From YP Require Import Outcome PyStr PyVal Doc Eyaml C19Spec C19DocSpec EyamlProofs EyamlSubst EyamlDoc.
Import ListNotations.
Open Scope string_scope.
Open Scope list_scope.
Import Ey.

(* ---- hashes: a key finds its own entry ------------------------------------------------------- *)
Lemma keys_ok_entry : forall kvs, keys_ok_list kvs -> forall k v, In (k, v) kvs ->
  assoc_key (key_val k) kvs = Some v /\ key_index (key_val k) kvs = Some (key_val k).
Proof.
  induction kvs as [|[k0 v0] r IH]; intros H k v Hin; [destruct Hin|].
  simpl in H. destruct H as [(i0 & kv0 & -> & Hrefl & Hall) Hr].
  destruct Hin as [E|Hin].
  - inversion E; subst k v. simpl. rewrite Hrefl. split; reflexivity.
  - rewrite Forall_forall in Hall. destruct (Hall (k, v) Hin) as [A B]. simpl in A, B.
    simpl. rewrite B. destruct (IH Hr k v Hin) as [C D]. split; assumption.
Qed.

Lemma in_resolve_cons : forall n sg rest l, In l (resolve n (sg :: rest)) ->
  exists r c t, In r (step_locs n sg) /\ child n r = Some c /\ l = r :: t /\ In t (resolve c rest).
Proof.
  intros n sg rest l H. rewrite resolve_cons in H. apply in_flat_map in H. destruct H as [r [Hr H]].
  destruct (child n r) as [c|] eqn:Hc; [|destruct H].
  apply in_map_iff in H. destruct H as [t [<- Ht]]. exists r, c, t. repeat split; assumption.
Qed.

(* ---- find_paths by name --------------------------------------------------------------------- *)
Definition fp_seg (e : node) (idx : nat) : pseg :=
  match anchor_name e with Some a => SAnchor a | None => SIdx idx end.

Definition fp_els (pre : ypath) : list node -> nat -> list ypath :=
  fix go (l : list node) (idx : nat) : list ypath :=
    match l with
    | [] => []
    | e :: r =>
        (if is_eyaml_node e then [pre ++ [fp_seg e idx]] else find_paths e (pre ++ [fp_seg e idx])) ++ go r (S idx)
    end.

Definition fp_kvs (pre : ypath) : list (node * node) -> list ypath :=
  fix go (l : list (node * node)) : list ypath :=
    match l with
    | [] => []
    | (k, v) :: r =>
        (if is_eyaml_node v then [pre ++ [SKey (key_val k)]] else find_paths v (pre ++ [SKey (key_val k)])) ++ go r
    end.

Lemma find_paths_seq : forall i els pre, find_paths (NSeq i els) pre = fp_els pre els 0.
Proof. reflexivity. Qed.

Lemma find_paths_map : forall i kvs pre, find_paths (NMap i kvs) pre = fp_kvs pre kvs.
Proof. reflexivity. Qed.

Lemma app_assoc_1 : forall (pre : ypath) sg q, (pre ++ [sg]) ++ q = pre ++ sg :: q.
Proof. intros; rewrite <- app_assoc; reflexivity. Qed.

Lemma secret_node_leaf : forall e, is_eyaml_node e = true -> exists i v, e = NLeaf i v /\ is_eyaml_value v = true.
Proof. intros [i v| | |] H; try discriminate H. exists i, v; split; [reflexivity | exact H]. Qed.

Section Sound.
  Variables (d : node) (next : N).
  Hypothesis HI : Inv d next.
  Hypothesis HK : keys_ok d.

  Definition leads_to_secrets (n : node) (q : ypath) : Prop :=
    forall l, In l (resolve n q) -> exists i v, lookup n l = Some (NLeaf i v) /\ is_eyaml_value v = true.

  (* every discovered path leads to encrypted leaves only *)
  Lemma find_paths_sound : forall n, (forall x, In x (vnodes n) -> In x (vnodes d)) ->
    forall pre p, In p (find_paths n pre) -> exists q, p = pre ++ q /\ leads_to_secrets n q.
  Proof.
    induction n as [i v | i kvs IH | i els IH | i els IH] using node_ind'; intros Hsub pre p Hp; try (destruct Hp; fail).
    - (* hash *)
      rewrite find_paths_map in Hp.
      assert (HKl : keys_ok_list kvs) by (apply (HK i kvs); apply Hsub; apply vnodes_self).
      pose proof (keys_ok_entry kvs HKl) as Hent.
      assert (G : forall suf, (forall k v, In (k, v) suf -> In (k, v) kvs) -> In p (fp_kvs pre suf) ->
                    exists q, p = pre ++ q /\ leads_to_secrets (NMap i kvs) q).
      { induction suf as [|[k v] r IHr]; intros Hsuf Hin; [destruct Hin|].
        simpl in Hin. apply in_app_iff in Hin. destruct Hin as [Hin|Hin];
          [|apply IHr; [intros k' v' H'; apply Hsuf; right; exact H' | exact Hin]].
        assert (Hkv : In (k, v) kvs) by (apply Hsuf; left; reflexivity).
        destruct (Hent k v Hkv) as [Ha Hki].
        assert (Hres : forall rest, resolve (NMap i kvs) (SKey (key_val k) :: rest) = map (cons (RKey (key_val k))) (resolve v rest)).
        { intro rest. rewrite resolve_cons. simpl step_locs. rewrite Hki. simpl. rewrite Ha. rewrite app_nil_r. reflexivity. }
        destruct (is_eyaml_node v) eqn:Es.
        - destruct Hin as [<-|[]]. exists [SKey (key_val k)]; split; [reflexivity|].
          intros l Hl. rewrite Hres in Hl. simpl in Hl. destruct Hl as [<-|[]].
          destruct (secret_node_leaf v Es) as (iv & vv & -> & Hs). exists iv, vv. split; [simpl; rewrite Ha; reflexivity | exact Hs].
        - rewrite Forall_forall in IH. destruct (IH (k, v) Hkv) as [_ IHv]. simpl in IHv.
          destruct (IHv (fun x Hx => Hsub x (vnodes_map_child i kvs k v x Hkv Hx)) _ p Hin) as [q [-> Hq]].
          exists (SKey (key_val k) :: q). split; [apply app_assoc_1|].
          intros l Hl. rewrite Hres in Hl. apply in_map_iff in Hl. destruct Hl as [t [<- Ht]].
          destruct (Hq t Ht) as (iv & vv & Hlk & Hs). exists iv, vv. split; [simpl; rewrite Ha; exact Hlk | exact Hs]. }
      apply (G kvs (fun k v H => H) Hp).
    - (* list *)
      rewrite find_paths_seq in Hp.
      assert (G : forall suf idx, (forall j e, nth_error suf j = Some e -> nth_error els (idx + j) = Some e) ->
                    In p (fp_els pre suf idx) -> exists q, p = pre ++ q /\ leads_to_secrets (NSeq i els) q).
      { induction suf as [|e r IHr]; intros idx Hsuf Hin; [destruct Hin|].
        simpl in Hin. apply in_app_iff in Hin. destruct Hin as [Hin|Hin].
        2:{ apply (IHr (S idx)); [|exact Hin]. intros j e' Hj. rewrite Nat.add_succ_l, <- Nat.add_succ_r. apply Hsuf; exact Hj. }
        assert (He : nth_error els idx = Some e) by (rewrite <- (Nat.add_0_r idx); apply Hsuf; reflexivity).
        assert (Hein : In e els) by (eapply nth_error_In; exact He).
        assert (Hed : In e (vnodes d)) by (apply Hsub; eapply vnodes_seq_child; [exact Hein | apply vnodes_self]).
        (* every location the segment matches holds the element e itself *)
        assert (Hseg : forall rest l, In l (resolve (NSeq i els) (fp_seg e idx :: rest)) ->
                         exists j t, l = RIdx j :: t /\ nth_error els j = Some e /\ In t (resolve e rest)).
        { intros rest l Hl. destruct (in_resolve_cons _ _ _ _ Hl) as (r0 & c & t & Hr0 & Hc & -> & Ht).
          unfold fp_seg in Hr0. destruct (anchor_name e) as [a|] eqn:Ea; simpl in Hr0.
          - apply in_map_iff in Hr0. destruct Hr0 as [j [<- Hj]].
            destruct (anchor_matches_in _ _ _ _ Hj) as (k & e' & -> & Hk & Hm). simpl in Hc, Hk. rewrite Hk in Hc. inversion Hc; subst c.
            assert (He'd : In e' (vnodes d)) by (apply Hsub; eapply vnodes_seq_child; [eapply nth_error_In; exact Hk | apply vnodes_self]).
            assert (E : e' = e).
            { apply (inv_id _ _ HI); [exact He'd | exact Hed|].
              eapply (inv_anchor _ _ HI); [exact He'd | exact Hed | apply amatch_true_araw; exact Hm | apply anchor_name_some_araw; exact Ea]. }
            subst e'. exists k, t. repeat split; assumption.
          - destruct (Nat.ltb idx (List.length els)); [|destruct Hr0]. destruct Hr0 as [<-|[]].
            simpl in Hc. rewrite He in Hc. inversion Hc; subst c. exists idx, t. repeat split; assumption. }
        destruct (is_eyaml_node e) eqn:Es.
        - destruct Hin as [<-|[]]. exists [fp_seg e idx]; split; [reflexivity|].
          intros l Hl. destruct (Hseg [] l Hl) as (j & t & -> & Hj & Ht). destruct Ht as [<-|[]].
          destruct (secret_node_leaf e Es) as (iv & vv & -> & Hs). exists iv, vv. split; [simpl; rewrite Hj; reflexivity | exact Hs].
        - rewrite Forall_forall in IH.
          destruct (IH e Hein (fun x Hx => Hsub x (vnodes_seq_child i els e x Hein Hx)) _ p Hin) as [q [-> Hq]].
          exists (fp_seg e idx :: q). split; [apply app_assoc_1|].
          intros l Hl. destruct (Hseg q l Hl) as (j & t & -> & Hj & Ht).
          destruct (Hq t Ht) as (iv & vv & Hlk & Hs). exists iv, vv. split; [simpl; rewrite Hj; exact Hlk | exact Hs]. }
      apply (G els 0 (fun j e H => H) Hp).
  Qed.
End Sound.

(* ---- discovery is complete: every encrypted value position is reported ------------------------- *)
Definition pos_els : list node -> nat -> list loc :=
  fix go (l : list node) (idx : nat) : list loc :=
    match l with
    | [] => []
    | e :: r => ([RIdx idx] :: map (cons (RIdx idx)) (positions e)) ++ go r (S idx)
    end.

Lemma positions_seq : forall i els, positions (NSeq i els) = pos_els els 0.
Proof. reflexivity. Qed.

Lemma anchor_matches_complete : forall a els idx j e,
  nth_error els j = Some e -> amatch a e = true -> In (idx + j) (anchor_matches a els idx).
Proof.
  induction els as [|e0 r IH]; intros idx j e Hj Hm; [destruct j; discriminate Hj|].
  rewrite anchor_matches_cons. apply in_app_iff. destruct j as [|j]; simpl in Hj.
  - inversion Hj; subst e0. rewrite Hm. left; left. rewrite Nat.add_0_r; reflexivity.
  - right. rewrite Nat.add_succ_r, <- Nat.add_succ_l. eapply IH; eassumption.
Qed.

Lemma fp_kvs_in : forall pre kvs k v p, In (k, v) kvs ->
  In p (if is_eyaml_node v then [pre ++ [SKey (key_val k)]] else find_paths v (pre ++ [SKey (key_val k)])) ->
  In p (fp_kvs pre kvs).
Proof.
  induction kvs as [|[k0 v0] r IH]; intros k v p Hin Hp; [destruct Hin|].
  simpl. apply in_app_iff. destruct Hin as [E|Hin]; [inversion E; subst; left; exact Hp | right; eapply IH; eassumption].
Qed.

Lemma fp_els_in : forall pre suf idx j e p, nth_error suf j = Some e ->
  In p (if is_eyaml_node e then [pre ++ [fp_seg e (idx + j)]] else find_paths e (pre ++ [fp_seg e (idx + j)])) ->
  In p (fp_els pre suf idx).
Proof.
  induction suf as [|e0 r IH]; intros idx j e p Hj Hp; [destruct j; discriminate Hj|].
  simpl. apply in_app_iff. destruct j as [|j]; simpl in Hj.
  - inversion Hj; subst e0. rewrite Nat.add_0_r in Hp. left; exact Hp.
  - right. apply (IH (S idx) j e p Hj). rewrite Nat.add_succ_l, <- Nat.add_succ_r; exact Hp.
Qed.

Lemma pos_els_in : forall suf idx l, In l (pos_els suf idx) ->
  exists j e, nth_error suf j = Some e /\ (l = [RIdx (idx + j)] \/ exists t, l = RIdx (idx + j) :: t /\ In t (positions e)).
Proof.
  induction suf as [|e0 r IH]; intros idx l H; [destruct H|].
  simpl in H. destruct H as [<-|H].
  - exists 0, e0. split; [reflexivity | left; rewrite Nat.add_0_r; reflexivity].
  - apply in_app_iff in H. destruct H as [H|H].
    + apply in_map_iff in H. destruct H as [t [<- Ht]]. exists 0, e0. split; [reflexivity|].
      right; exists t; split; [rewrite Nat.add_0_r; reflexivity | exact Ht].
    + destruct (IH (S idx) l H) as (j & e & Hj & Hc). exists (S j), e. split; [exact Hj|].
      rewrite Nat.add_succ_r, <- Nat.add_succ_l. exact Hc.
Qed.

Lemma positions_secret_leaf : forall e, is_eyaml_node e = true -> positions e = [].
Proof. intros [| | |] H; try discriminate H; reflexivity. Qed.

Section Complete.
  Variables (d : node) (next : N).
  Hypothesis HI : Inv d next.
  Hypothesis HK : keys_ok d.

  Lemma find_paths_complete : forall n, (forall x, In x (vnodes n) -> In x (vnodes d)) ->
    forall pre l x, In l (positions n) -> lookup n l = Some x -> is_eyaml_node x = true ->
      exists q, In (pre ++ q) (find_paths n pre) /\ In l (resolve n q).
  Proof.
    induction n as [i v | i kvs IH | i els IH | i els IH] using node_ind'; intros Hsub pre l x Hl Hx Hs; try (destruct Hl; fail).
    - (* hash *)
      assert (HKl : keys_ok_list kvs) by (apply (HK i kvs); apply Hsub; apply vnodes_self).
      simpl in Hl. apply in_flat_map in Hl. destruct Hl as [[k v] [Hkv Hl]]. simpl in Hl.
      destruct (keys_ok_entry kvs HKl k v Hkv) as [Ha Hki].
      assert (Hres : forall rest, resolve (NMap i kvs) (SKey (key_val k) :: rest) = map (cons (RKey (key_val k))) (resolve v rest)).
      { intro rest. rewrite resolve_cons. simpl step_locs. rewrite Hki. simpl. rewrite Ha. rewrite app_nil_r. reflexivity. }
      rewrite find_paths_map.
      destruct Hl as [<-|Hl].
      + simpl in Hx. rewrite Ha in Hx. inversion Hx; subst x.
        exists [SKey (key_val k)]. split; [eapply fp_kvs_in; [exact Hkv | rewrite Hs; left; reflexivity]|].
        rewrite Hres. left; reflexivity.
      + apply in_map_iff in Hl. destruct Hl as [t [<- Ht]].
        simpl in Hx. rewrite Ha in Hx.
        destruct (is_eyaml_node v) eqn:Es; [rewrite (positions_secret_leaf v Es) in Ht; destruct Ht|].
        rewrite Forall_forall in IH. destruct (IH (k, v) Hkv) as [_ IHv]. simpl in IHv.
        destruct (IHv (fun z Hz => Hsub z (vnodes_map_child i kvs k v z Hkv Hz)) (pre ++ [SKey (key_val k)]) t x Ht Hx Hs) as [q [Hq Hr]].
        exists (SKey (key_val k) :: q). split.
        * eapply fp_kvs_in; [exact Hkv|]. rewrite Es. rewrite <- app_assoc_1. exact Hq.
        * rewrite Hres. apply in_map; exact Hr.
    - (* list *)
      rewrite positions_seq in Hl. destruct (pos_els_in els 0 l Hl) as (j & e & Hj & Hc). simpl in Hc.
      assert (Hein : In e els) by (eapply nth_error_In; exact Hj).
      assert (Hin_seg : forall rest t, In t (resolve e rest) -> In (RIdx j :: t) (resolve (NSeq i els) (fp_seg e j :: rest))).
      { intros rest t Ht. rewrite resolve_cons. apply in_flat_map. exists (RIdx j). split.
        - unfold fp_seg. destruct (anchor_name e) as [a|] eqn:Ea; simpl.
          + apply in_map. apply (anchor_matches_complete a els 0 j e Hj).
            rewrite amatch_araw, (anchor_name_some_araw _ _ Ea). apply String.eqb_refl.
          + assert (Hlt : j < List.length els) by (apply nth_error_Some; rewrite Hj; discriminate).
            apply Nat.ltb_lt in Hlt. rewrite Hlt. left; reflexivity.
        - simpl. rewrite Hj. apply in_map; exact Ht. }
      rewrite find_paths_seq.
      destruct Hc as [->|[t [-> Ht]]].
      + simpl in Hx. rewrite Hj in Hx. inversion Hx; subst x.
        exists [fp_seg e j]. split; [eapply (fp_els_in pre els 0 j e); [exact Hj | simpl; rewrite Hs; left; reflexivity]|].
        apply Hin_seg. left; reflexivity.
      + simpl in Hx. rewrite Hj in Hx.
        destruct (is_eyaml_node e) eqn:Es; [rewrite (positions_secret_leaf e Es) in Ht; destruct Ht|].
        rewrite Forall_forall in IH.
        destruct (IH e Hein (fun z Hz => Hsub z (vnodes_seq_child i els e z Hein Hz)) (pre ++ [fp_seg e j]) t x Ht Hx Hs) as [q [Hq Hr]].
        exists (fp_seg e j :: q). split.
        * eapply (fp_els_in pre els 0 j e); [exact Hj|]. simpl. rewrite Es. rewrite <- app_assoc_1. exact Hq.
        * apply Hin_seg; exact Hr.
  Qed.
End Complete.

(* ---- the whole run ------------------------------------------------------------------------------ *)
Section Whole.
  Variable key : Type.
  Variables enc dec : key -> string -> option string.
  Variable layout : out_fmt -> string -> string.
  Variables oldk newk : key.
  Hypothesis dec_enc : forall k p c, enc k p = Some c -> dec k c = Some p.
  Hypothesis dec_other : forall k k' p c, k <> k' -> enc k p = Some c -> dec k' c = None.
  Hypothesis enc_shape : forall k p c, enc k p = Some c -> cipher_ok c = true.
  Hypothesis layout_ok : forall k p c fmt, enc k p = Some c ->
    exists stored, post_encrypt fmt (layout fmt c) = Ok stored /\ clean stored = c.
  Hypothesis keys_differ : oldk <> newk.

  Variables (d0 : node) (next0 : N) (folded : list N) (ex : nat).
  Hypothesis HI0 : Inv d0 next0.
  Hypothesis HK0 : keys_ok d0.
  Hypothesis Hroot : is_leaf d0 = false.

  Notation LstR := (Lst key dec oldk newk next0).

  Lemma initial_J : J key dec oldk newk d0 next0 (mkrs d0 [] false ex next0 folded []).
  Proof.
    split.
    - constructor; simpl.
      + exact HI0.
      + lia.
      + exact Hroot.
      + apply rotated_refl. intros x Hx Hs. split; [exact Hs|]. split; [apply (inv_fresh _ _ HI0 x Hx) | left; reflexivity].
      + reflexivity.
    - intros _ z a _ _ [].
  Qed.

  Lemma found_paths_ok : forall p, In p (find_eyaml_paths d0) -> PathOK d0 p.
  Proof.
    intros p Hp. destruct (find_paths_sound d0 next0 HI0 HK0 d0 (fun x H => H) [] p Hp) as [q [-> Hq]]. exact Hq.
  Qed.

  Lemma whole_run : forall st,
    rotate_file_from key enc dec layout oldk newk ex d0 next0 folded = Ok st ->
    J key dec oldk newk d0 next0 st /\
    (r_exit st = 0 -> forall p l, In p (find_eyaml_paths d0) -> In l (resolve d0 p) -> Done next0 st l) /\
    (r_exit st = 0 -> ex = 0).
  Proof.
    intros st H. unfold rotate_file_from in H.
    destruct (rotate_paths_J key enc dec layout oldk newk dec_enc dec_other enc_shape layout_ok keys_differ d0 next0
                (find_eyaml_paths d0) _ st initial_J found_paths_ok H) as (HJ & HD & _ & HE).
    split; [exact HJ|]. split; [exact HD | exact HE].
  Qed.

  (* the invariant holds of the document that is written *)
  Lemma final_inv : forall st,
    rotate_file_from key enc dec layout oldk newk ex d0 next0 folded = Ok st -> Inv (r_doc st) (r_next st).
  Proof. intros st H. destruct (whole_run st H) as [[HC _] _]. exact (c_inv _ _ _ _ _ _ _ HC). Qed.

  (* C19_frame *)
  Lemma Lst_frame : forall a b, LstR a b -> frame_leaf a b.
  Proof.
    intros a b [Hs [_ [->|[_ H]]]]; [split; [exact Hs | reflexivity]|].
    destruct H as (i & s & i' & s' & p & -> & -> & Ha & Hs' & _). split; [exact Hs' | exact Ha].
  Qed.

  Lemma final_frame : forall st,
    rotate_file_from key enc dec layout oldk newk ex d0 next0 folded = Ok st ->
    rotated frame_leaf d0 (r_doc st) /\ frame_of (r_doc st) = frame_of d0.
  Proof.
    intros st H. destruct (whole_run st H) as [[HC _] _].
    assert (R : rotated frame_leaf d0 (r_doc st)) by (eapply rotated_mono; [exact Lst_frame | exact (c_rot _ _ _ _ _ _ _ HC)]).
    split; [exact R | apply rotated_frame; exact R].
  Qed.

  (* C19_shared_once, "stay shared": two places that held ONE anchored object hold ONE object afterwards *)
  Lemma final_shared : forall st l1 l2 x a,
    rotate_file_from key enc dec layout oldk newk ex d0 next0 folded = Ok st ->
    (forall m, ~ In (RMember m) l1) -> (forall m, ~ In (RMember m) l2) ->
    lookup d0 l1 = Some x -> lookup d0 l2 = Some x -> is_eyaml_node x = true -> anchor_name x = Some a ->
    exists y, lookup (r_doc st) l1 = Some y /\ lookup (r_doc st) l2 = Some y /\ anchor_name y = Some a /\ is_eyaml_node y = true.
  Proof.
    intros st l1 l2 x a H Hm1 Hm2 H1 H2 Hs Ha.
    destruct (whole_run st H) as [[HC _] _]. pose proof (c_inv _ _ _ _ _ _ _ HC) as HI.
    destruct (rotated_lookup LstR l1 d0 (r_doc st) x Hm1 (c_rot _ _ _ _ _ _ _ HC) H1) as [y1 [Hy1 R1]].
    destruct (rotated_lookup LstR l2 d0 (r_doc st) x Hm2 (c_rot _ _ _ _ _ _ _ HC) H2) as [y2 [Hy2 R2]].
    destruct (secret_node_leaf x Hs) as (ix & vx & -> & Hsx). simpl in R1, R2. rewrite Hsx in R1, R2.
    destruct (Lst_frame _ _ R1) as [S1 A1]. destruct (Lst_frame _ _ R2) as [S2 A2].
    assert (V1 : In y1 (vnodes (r_doc st))) by exact (lookup_vnodes l1 _ _ Hm1 Hy1).
    assert (V2 : In y2 (vnodes (r_doc st))) by exact (lookup_vnodes l2 _ _ Hm2 Hy2).
    assert (E : y1 = y2).
    { apply (inv_id _ _ HI); [exact V1 | exact V2|].
      eapply (inv_anchor _ _ HI); [exact V1 | exact V2 | apply anchor_name_some_araw; rewrite A1; exact Ha | apply anchor_name_some_araw; rewrite A2; exact Ha]. }
    subst y2. exists y1. repeat split; try assumption. rewrite A1; exact Ha.
  Qed.

  (* C19_rekeyed / C19_old_key_dead at every location the discovery reports *)
  Lemma final_rekeyed_found : forall st p l,
    rotate_file_from key enc dec layout oldk newk ex d0 next0 folded = Ok st -> r_exit st = 0 ->
    In p (find_eyaml_paths d0) -> In l (resolve d0 p) ->
    exists m0 y, lookup d0 l = Some m0 /\ lookup (r_doc st) l = Some y /\ is_eyaml_node m0 = true /\
                 rekeyed_leaf key dec oldk newk m0 y.
  Proof.
    intros st p l H Hex Hp Hl.
    destruct (whole_run st H) as [[HC _] [HD _]].
    destruct (found_paths_ok p Hp l Hl) as (i0 & v0 & Hl0 & Hs0).
    destruct (resolve_lookup p d0 l Hl) as [_ Hnm].
    destruct (rotated_lookup LstR l d0 (r_doc st) _ Hnm (c_rot _ _ _ _ _ _ _ HC) Hl0) as [y [Hy Hry]].
    simpl in Hry. rewrite Hs0 in Hry.
    destruct (HD Hex p l Hp Hl) as [y' [Hy' Hnew]]. rewrite Hy in Hy'. inversion Hy'; subst y'.
    exists (NLeaf i0 v0), y. repeat split; try assumption.
    destruct Hry as [_ [Hlt [->|[_ R]]]]; [exfalso; lia | exact R].
  Qed.

  (* ... which is every encrypted value position of the document *)
  Lemma final_rekeyed_all : forall st l m0,
    rotate_file_from key enc dec layout oldk newk ex d0 next0 folded = Ok st -> r_exit st = 0 ->
    In l (positions d0) -> lookup d0 l = Some m0 -> is_eyaml_node m0 = true ->
    exists y, lookup (r_doc st) l = Some y /\ rekeyed_leaf key dec oldk newk m0 y.
  Proof.
    intros st l m0 H Hex Hl Hm Hs.
    destruct (find_paths_complete d0 HK0 d0 (fun x Hx => Hx) [] l m0 Hl Hm Hs) as [q [Hq Hr]].
    destruct (final_rekeyed_found st q l H Hex Hq Hr) as (m0' & y & Hm' & Hy & _ & R).
    rewrite Hm in Hm'. inversion Hm'; subst m0'. exists y; split; assumption.
  Qed.
End Whole.

(* one replacement keeps the invariant *)
Lemma set_at_inv : forall st l value fmt st',
  Inv (r_doc st) (r_next st) -> is_leaf (r_doc st) = false -> (forall m, ~ In (RMember m) l) ->
  set_at st l value fmt = Ok st' ->
  Inv (r_doc st') (r_next st') /\ is_leaf (r_doc st') = false.
Proof.
  intros st l value fmt st' HI Hnl Hnm H.
  destruct (set_at_ok _ _ _ _ _ H) as (parent & i & v & Hp & Hy & ->). simpl.
  split; [eapply step_inv; eassumption | eapply step_not_leaf; eassumption].
Qed.

(* ---- the statements of Properties/C19.v ----------------------------------------------------------- *)
Lemma clean_strip_ws : forall s, clean s = strip_ws s.
Proof.
  induction s as [|c r IH]; [reflexivity|]. simpl.
  assert (E : is_blank c = is_ws c) by (destruct c as [[] [] [] [] [] [] [] []]; reflexivity).
  rewrite E, IH. reflexivity.
Qed.

Lemma marker_all : forall v,
  is_eyaml_value v = match v with PStr s => starts_with marker (strip_ws s) | _ => false end.
Proof.
  intros [| | | |s|]; try reflexivity. simpl. unfold is_eyaml_str, marker. rewrite clean_strip_ws. reflexivity.
Qed.

Section Statements.
  Variable key : Type.
  Variables enc dec : key -> string -> option string.
  Variable layout : out_fmt -> string -> string.
  Variables oldk newk : key.
  Hypothesis laws : cipher_laws key enc dec layout.
  Hypothesis keys_differ : oldk <> newk.
  Variables (d : node) (next : N) (folded : list N) (st : rstate).
  Hypothesis Hdoc : loaded_doc d next.
  Hypothesis Hrun : rotate_file key enc dec layout oldk newk d next folded = Ok st.

  Let l1 := proj1 laws.
  Let l2 := proj1 (proj2 laws).
  Let l3 := proj1 (proj2 (proj2 laws)).
  Let l4 := proj2 (proj2 (proj2 laws)).
  Let hI := proj1 Hdoc.
  Let hK := proj1 (proj2 Hdoc).
  Let hR := proj2 (proj2 Hdoc).

  Lemma stmt_inv_run : Inv (r_doc st) (r_next st).
  Proof. exact (final_inv key enc dec layout oldk newk l1 l2 l3 l4 keys_differ d next folded 0 hI hK hR st Hrun). Qed.

  Lemma stmt_frame : rotated frame_leaf d (r_doc st) /\ frame_of (r_doc st) = frame_of d.
  Proof. exact (final_frame key enc dec layout oldk newk l1 l2 l3 l4 keys_differ d next folded 0 hI hK hR st Hrun). Qed.

  Lemma stmt_shared : 
    (forall l1' l2' x a, (forall m, ~ In (RMember m) l1') -> (forall m, ~ In (RMember m) l2') ->
       lookup d l1' = Some x -> lookup d l2' = Some x -> is_eyaml_node x = true -> anchor_name x = Some a ->
       exists y, lookup (r_doc st) l1' = Some y /\ lookup (r_doc st) l2' = Some y /\ anchor_name y = Some a /\ is_eyaml_node y = true)
    /\ NoDup (r_seen st).
  Proof.
    split.
    - intros l1' l2' x a. exact (final_shared key enc dec layout oldk newk l1 l2 l3 l4 keys_differ d next folded 0 hI hK hR st l1' l2' x a Hrun).
    - eapply seen_anchors_nodup; exact Hrun.
  Qed.

  Lemma stmt_rekeyed_all : r_exit st = 0 ->
    forall l i s, In l (positions d) -> lookup d l = Some (NLeaf i (PStr s)) -> is_eyaml_str s = true ->
      exists i' s' p, lookup (r_doc st) l = Some (NLeaf i' (PStr s')) /\ is_eyaml_str s' = true /\
        decrypt_eyaml key dec oldk (PStr s) = Ok (PStr p) /\
        (plain_ok p = true -> decrypt_eyaml key dec newk (PStr s') = Ok (PStr p) /\
                              decrypt_eyaml key dec oldk (PStr s') = Raise EyamlExc).
  Proof.
    intros Hex l i s Hl Hm Hs.
    destruct (final_rekeyed_all key enc dec layout oldk newk l1 l2 l3 l4 keys_differ d next folded 0 hI hK hR st l _ Hrun Hex Hl Hm Hs)
      as [y [Hy (i0 & s0 & i' & s' & p & E0 & -> & _ & Hs' & Hd & Hp)]].
    inversion E0; subst i0 s0. exists i', s', p. repeat split; try assumption; apply Hp; assumption.
  Qed.

  Lemma stmt_rekeyed : r_exit st = 0 ->
    forall l i s, In l (positions d) -> lookup d l = Some (NLeaf i (PStr s)) -> is_eyaml_str s = true ->
      exists i' s' p, lookup (r_doc st) l = Some (NLeaf i' (PStr s')) /\
        decrypt_eyaml key dec oldk (PStr s) = Ok (PStr p) /\
        (plain_ok p = true -> decrypt_eyaml key dec newk (PStr s') = Ok (PStr p)).
  Proof.
    intros Hex l i s Hl Hm Hs. destruct (stmt_rekeyed_all Hex l i s Hl Hm Hs) as (i' & s' & p & A & _ & B & C).
    exists i', s', p. repeat split; try assumption. intro Hp; apply C; exact Hp.
  Qed.

  Lemma stmt_old_key_dead : r_exit st = 0 ->
    forall l i s, In l (positions d) -> lookup d l = Some (NLeaf i (PStr s)) -> is_eyaml_str s = true ->
      exists i' s' p, lookup (r_doc st) l = Some (NLeaf i' (PStr s')) /\ is_eyaml_str s' = true /\
        decrypt_eyaml key dec oldk (PStr s) = Ok (PStr p) /\
        (plain_ok p = true -> decrypt_eyaml key dec oldk (PStr s') = Raise EyamlExc).
  Proof.
    intros Hex l i s Hl Hm Hs. destruct (stmt_rekeyed_all Hex l i s Hl Hm Hs) as (i' & s' & p & A & A' & B & C).
    exists i', s', p. repeat split; try assumption. intro Hp; apply C; exact Hp.
  Qed.
End Statements.
