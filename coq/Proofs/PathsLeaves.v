(* C07: the locations listed by [leaves] (hence by yield_children) are exactly
   the leaf descendants of the declarative specification. *)
From Coq Require Import List Ascii String ZArith NArith Bool Arith Lia.
From YP Require Import Outcome PyStr PyVal Doc Generated PathParser PathPrinter Searches PathsSearch
     SpecC07 PathsEnum PathsSpec.
Import ListNotations.

Lemma leaf_place_step n r c l : child_at n r c -> leaf_place c l -> leaf_place n (r :: l).
Proof.
  intros Hc [[i [v R]]|[k [l0 [i [els [m [-> [R [Hin Hk]]]]]]]]].
  - left. exists i, v. econstructor; eauto.
  - right. exists k, (r :: l0), i, els, m. split; [reflexivity|]. split; [econstructor; eauto|auto].
Qed.

Theorem leaves_sound n : forall lc l,
    In l (leaves n lc) -> exists l', l = (lc ++ l')%list /\ leaf_place n l'.
Proof.
  induction n as [i v|i kvs IH|i els IH|i els IH] using node_ind'; intros lc l Hin; simpl in Hin.
  - destruct Hin as [<-|[]]. exists []. rewrite app_nil_r. split; auto. left. exists i, v. constructor.
  - apply In_floop in Hin. destruct Hin as [j [[kn v] [Hn Hin]]]. simpl in Hin.
    pose proof (nth_error_In _ _ Hn) as HIn. rewrite Forall_forall in IH.
    destruct (IH _ HIn) as [_ IHv]. destruct (IHv _ _ Hin) as [l' [-> L]].
    exists (key_ref kn :: l'). rewrite <- app_assoc. split; [reflexivity|].
    eapply leaf_place_step; eauto. constructor; auto.
  - apply In_floop in Hin. destruct Hin as [j [e [Hn Hin]]]. simpl in Hin.
    pose proof (nth_error_In _ _ Hn) as HIn. rewrite Forall_forall in IH.
    destruct (IH _ HIn _ _ Hin) as [l' [-> L]].
    exists (RIdx j :: l'). rewrite <- app_assoc. split; [reflexivity|].
    eapply leaf_place_step; eauto. constructor; auto.
  - apply In_floop in Hin. destruct Hin as [j [m [Hn Hin]]]. destruct Hin as [<-|[]].
    exists [member_ref m]. split; [reflexivity|]. right.
    exists (key_val m), [], i, els, m. split; [reflexivity|]. split; [constructor|].
    split; auto. eapply nth_error_In; eauto.
Qed.

Lemma leaves_lift n r c lc l :
  child_at n r c -> In ((lc ++ [r]) ++ l)%list (leaves c (lc ++ [r])%list) -> In (lc ++ r :: l)%list (leaves n lc).
Proof.
  intros Hc Hin. rewrite <- app_assoc in Hin. simpl in Hin. inversion Hc; subst; simpl.
  - destruct (In_nth_error _ _ H) as [j Hn]. apply In_floop. exists j, (k, c). split; auto.
  - apply In_floop. exists idx, c. split; auto.
Qed.

Theorem leaves_complete n l' : leaf_place n l' -> forall lc, In (lc ++ l')%list (leaves n lc).
Proof.
  intros [[i [v R]]|[k [l0 [i [els [m [-> [R [Hin Hk]]]]]]]]].
  - remember (NLeaf i v) as tgt eqn:Et. induction R as [n|n r c l m Hc R IH]; intros lc; subst.
    + simpl. left. symmetry. apply app_nil_r.
    + eapply leaves_lift; eauto.
  - remember (NSet i els) as tgt eqn:Et. induction R as [n|n r c l m0 Hc R IH]; intros lc; subst.
    + simpl. destruct (In_nth_error _ _ Hin) as [j Hn]. apply In_floop. exists j, m. split; auto. left; reflexivity.
    + simpl. eapply leaves_lift; eauto.
Qed.

Theorem leaves_iff n lc l :
  In l (leaves n lc) <-> exists l', l = (lc ++ l')%list /\ leaf_place n l'.
Proof.
  split; [apply leaves_sound|]. intros [l' [-> L]]. apply leaves_complete; auto.
Qed.

(* what yield_children reports, declaratively *)
Theorem yield_children_leaves lit re_search mt tm sp o n :
  o_anchors o = false -> transparent mt o n ->
  forall bp lc kd seen r,
    yield_children lit re_search mt tm sp o n bp lc kd seen = Ok r ->
    (forall h, In h (fst r) -> h_kind h = HChild kd) /\
    (forall l, In l (map h_loc (fst r)) <-> exists l', l = (lc ++ l')%list /\ leaf_place n l').
Proof.
  intros Ha Ht bp lc kd seen r E.
  pose proof (yc_leaves lit re_search mt tm sp o n Ha Ht bp lc kd seen r E) as Eq.
  split.
  - intros h Hin. assert (Hi : In (h_lk h) (map h_lk (fst r))) by (apply in_map; auto).
    rewrite Eq in Hi. apply in_map_iff in Hi. destruct Hi as [l [El _]]. unfold h_lk in El. inversion El; auto.
  - intros l. rewrite <- leaves_iff.
    assert (Em : map h_loc (fst r) = leaves n lc).
    { replace (map h_loc (fst r)) with (map fst (map h_lk (fst r))) by (rewrite map_map; reflexivity).
      rewrite Eq, map_map. simpl. apply map_id. }
    rewrite Em. tauto.
Qed.
