(* C15, part 2: every segment handler of Eval.v yields only NodeCoords (or
   lists) and stops cleanly, provided the generators it consumes do. *)
From Coq Require Import List Ascii String ZArith NArith Bool Arith Lia.
From YP Require Import Outcome PyStr PyVal Doc Generated PathParser PathPrinter Searches Eval EvalGood.
Import ListNotations.
Open Scope string_scope.
Open Scope nat_scope.

Section Handlers.
Variable lit : string -> outcome litres.
Variable re_search : string -> string -> outcome reres.
Variable nstr : node -> string.
Variable vstr : list rval -> string.
Hypothesis lit_total : forall s, exists r, lit s = Ok r /\ (forall c, r <> LCrash c).
Hypothesis re_total : forall p s, exists r, re_search p s = Ok r.

Lemma sm_ok m term v : ok_or_ype (esm lit re_search nstr vstr m term v).
Proof. unfold esm. apply search_matches_ok; auto. Qed.

Lemma bounds_of (n idx : Z) : ((- n <=? idx)%Z && (idx <? n)%Z)%bool = true -> (- n <= idx < n)%Z.
Proof. intros H. apply andb_prop in H. destruct H as [H1 H2]. apply Z.leb_le in H1. apply Z.ltb_lt in H2. lia. Qed.

Ltac step Q :=
  match goal with
  | |- sres _ gnil => apply sres_gnil
  | |- sres _ (gone (ncoords _ _ _ _ _)) => apply sres_coords; reflexivity
  | |- sres _ (gerr (YPE _)) => apply sres_gerr_ype
  | |- sres _ (gfor _ _) => apply sres_gfor; intros
  | |- sres _ (gapp _ _) => apply sres_gapp; [|intros _]
  | |- sres _ (glift (esm _ _ _ _ _ _ _) _) => apply sres_glift; [apply sm_ok|intros]
  | |- sres _ (if ?b then _ else _) => destruct b eqn:?
  | |- sres _ (match ?x with _ => _ end) => destruct x eqn:?
  | |- sres _ (let '(_, _) := ?x in _) => destruct x eqn:?
  end.

Lemma in_enumerate_from {A} (l : list A) : forall k i x, In (i, x) (enumerate_from k l) -> In x l.
Proof.
  induction l as [|y r IH]; intros k i x H; cbn in *; [contradiction|].
  destruct H as [H|H]; [inversion H; left; reflexivity | right; eapply IH; eauto].
Qed.
Lemma in_enumerate {A} (l : list A) i x : In (i, x) (enumerate l) -> In x l.
Proof. apply in_enumerate_from. Qed.

Lemma sres_py_nth Q (els : list rval) idx k :
  ((- Z.of_nat (List.length els) <=? idx)%Z && (idx <? Z.of_nat (List.length els))%Z)%bool = true ->
  (forall e, In e els -> sres Q (k e)) ->
  sres Q (glift (py_nth els idx) k).
Proof.
  intros Hb Hk. destruct (py_nth_ok els idx (bounds_of _ _ Hb)) as [x Hx].
  rewrite Hx; cbn. apply Hk.
  unfold py_nth in Hx.
  repeat match type of Hx with
         | context[if ?b then _ else _] => destruct b
         | context[match ?o with _ => _ end] => destruct o eqn:?
         end; try discriminate.
  all: inversion Hx; subst; eapply nth_error_In; eauto.
Qed.

(* ---- by_key ---- *)
Lemma by_key_res self a v c :
  (forall e c', In e (elems v) -> sres coords_or_list (self e c')) ->
  sres coords_or_list (by_key self a v c).
Proof.
  intros Hself. unfold by_key.
  repeat (step coords_or_list).
  all: try (apply sres_py_nth; [assumption | intros; apply sres_coords; reflexivity]).
  all: try (match goal with H : In (_, _) (enumerate _) |- _ => apply in_enumerate in H end;
            apply Hself; subst; cbn; auto).
Qed.

(* ---- by_index ---- *)
Lemma by_index_res a v c : sres coords_or_list (by_index a v c).
Proof.
  unfold by_index.
  repeat (step coords_or_list).
  all: try (apply sres_py_nth; [assumption | intros; apply sres_coords; reflexivity]).
  all: try (match goal with H : (_ && _ && _)%bool = true |- _ =>
              apply andb_prop in H; destruct H as [H H2]; apply andb_prop in H; destruct H as [H0 H1];
              apply sres_py_nth; [rewrite H1, H2; reflexivity | intros; apply sres_coords; reflexivity]
            end).
  all: try (apply sres_glift;
            [ apply mapM_ok_or_ype; intros x Hx; apply range_in in Hx;
              match goal with H : slice_bounds _ _ _ = _ |- _ => apply slice_bounds_le in H end;
              match goal with |- ok_or_ype (bind (py_nth ?l ?z) _) =>
                destruct (py_nth_ok l z) as [y ->]; [lia | cbn; left; eauto] end
            | intros; apply sres_coords; reflexivity ]).
Qed.

(* ---- by_anchor ---- *)
Lemma by_anchor_res a v c : sres coords_or_list (by_anchor a v c).
Proof. unfold by_anchor. repeat (step coords_or_list). Qed.

(* ---- match_all ---- *)
Lemma match_all_unfiltered_res v c : sres coords_or_list (match_all_unfiltered v c).
Proof. unfold match_all_unfiltered. repeat (step coords_or_list). Qed.

Lemma match_all_filtered_res sg_next v c :
  (forall e c', good (sg_next e c')) ->
  sres coords_or_list (match_all_filtered sg_next v c).
Proof.
  intros Hn. unfold match_all_filtered.
  repeat (step coords_or_list).
  all: apply sres_gfirst; [apply Hn | intros [?|]; [apply sres_coords; reflexivity | apply sres_gnil]].
Qed.

(* ---- sizes ---- *)
Lemma fold_size_in {A} (f : A -> nat) (l : list A) x :
  In x l -> f x <= fold_right (fun y acc => f y + acc) 0 l.
Proof.
  induction l as [|y r IH]; intros H; cbn in *; [contradiction|].
  destruct H as [->|H]; [lia | apply IH in H; lia].
Qed.

Lemma seq_elem_size i els e : In e els -> node_size e < node_size (NSeq i els).
Proof. intros H. cbn. apply (fold_size_in node_size) in H. lia. Qed.

Lemma map_val_size i kvs kv : In kv kvs -> node_size (snd kv) < node_size (NMap i kvs).
Proof.
  intros H. cbn.
  apply (fold_size_in (fun kv => node_size (fst kv) + node_size (snd kv))) in H. cbn in H.
  assert (E : forall l, fold_right (fun (kv0 : node * node) acc => node_size (fst kv0) + node_size (snd kv0) + acc) 0 l
                        = fold_right (fun y acc => node_size (fst y) + node_size (snd y) + acc) 0 l) by reflexivity.
  lia.
Qed.

Lemma rlist_elem_size l e : In e l -> vsize e < vsize (RList l).
Proof.
  intros H. cbn.
  assert (forall l, In e l -> vsize e <= (fix go (l0 : list rval) : nat := match l0 with [] => 0 | x :: r => vsize x + go r end) l).
  { clear. induction l as [|y r IH]; intros H; cbn in *; [contradiction|].
    destruct H as [->|H]; [lia | apply IH in H; lia]. }
  apply H0 in H. lia.
Qed.

Lemma elems_size v e : In e (elems v) -> vsize e < vsize v.
Proof.
  destruct v as [n|l|]; cbn; try contradiction.
  - destruct n; cbn; try contradiction. intros H. apply in_map_iff in H. destruct H as [x [<- Hx]].
    cbn. apply (seq_elem_size i) in Hx. cbn in Hx. exact Hx.
  - apply rlist_elem_size.
Qed.

(* ---- traversal ---- *)
Lemma trav_res sg_next last : (forall e c', good (sg_next e c')) ->
  forall tf v c, vsize v < tf -> sres coords_or_list (trav tf last sg_next v c).
Proof.
  intros Hn. induction tf as [|tf IH]; intros v c Hsz; [lia|].
  cbn [trav].
  repeat (step coords_or_list).
  all: try (apply sres_gfirst; [apply Hn | intros [?|]; [apply sres_coords; reflexivity | apply sres_gnil]]).
  all: try (apply IH;
            match goal with
            | H : In ?kv ?kvs, Hs : vsize (RNode (NMap ?i ?kvs)) < _ |- vsize (RNode (snd ?kv)) < _ =>
                pose proof (map_val_size i kvs kv H); cbn [vsize] in *; lia
            | H : In (_, _) (enumerate _) |- _ =>
                apply in_enumerate in H; apply elems_size in H; subst; cbn [vsize] in *; lia
            end).
Qed.

(* ---- by_search ---- *)
Definition is_coords_b := is_coords.

Lemma hash_desc_scan_res m term inv items st matches k :
  okstop st -> Forall (fun x => is_coords x = true) items ->
  (forall b, sres coords_or_list (k b)) ->
  sres coords_or_list (hash_desc_scan lit re_search nstr vstr m term inv items st matches k).
Proof.
  intros Hst Hit Hk. revert matches. induction items as [|d r IH]; intros matches; cbn.
  - destruct st; cbn in *; auto; try contradiction; split; auto; constructor.
  - inversion Hit as [|? ? Hd Hr]; subst.
    destruct d; cbn in Hd; try discriminate. cbn.
    apply sres_glift; [apply sm_ok|]. intros mt _.
    destruct (xorb_cond mt inv); auto.
Qed.

Lemma by_search_res rq_sub inv m attr term v c :
  (forall e c', reqres (rq_sub e c')) ->
  sres coords_or_list (by_search lit re_search nstr vstr rq_sub inv m attr term v c).
Proof.
  intros Hrq. unfold by_search.
  repeat (step coords_or_list).
  all: try (apply hash_desc_scan_res; [apply Hrq | apply Hrq | intros; repeat (step coords_or_list)]).
  all: apply sres_gfirst_in; [apply Hrq | | repeat (step coords_or_list)].
  all: intros d Hd;
       match type of Hd with In _ (fst (_ ?e ?cc)) => destruct (Hrq e cc) as [_ Hf] end;
       rewrite Forall_forall in Hf; apply Hf in Hd; destruct d; cbn in Hd; try discriminate; cbn;
       repeat (step coords_or_list).
Qed.

End Handlers.
