(* Order and equality facts about Lib/PyVal.v and Model/Searches.v used by the
   C13 proofs: [str_ltb] is a strict total order (so [str_leb] is a total
   order), [py_eq] is an equivalence relation on all scalars, the boolean
   comparisons of Q agree, and an int is its own typed reading
   (Nodes.typed_value(int) never consults ast.literal_eval because str(int) is
   never a spelling of true / false). *)
From Coq Require Import List Ascii String ZArith QArith Bool Arith Lia.
From YP Require Import Outcome PyStr PyVal PathParser Searches.
Import ListNotations.
Open Scope string_scope.

(* ---------- characters ---------- *)
Lemma nat_of_ascii_inj : forall a b, nat_of_ascii a = nat_of_ascii b -> a = b.
Proof.
  intros a b H. rewrite <- (ascii_nat_embedding a), <- (ascii_nat_embedding b), H. reflexivity.
Qed.

(* ---------- str_ltb: strict total order ---------- *)
Lemma str_ltb_irrefl : forall a, str_ltb a a = false.
Proof.
  induction a as [|x a IH]; simpl; [reflexivity|].
  rewrite Nat.ltb_irrefl. exact IH.
Qed.

Lemma str_ltb_trans : forall a b c, str_ltb a b = true -> str_ltb b c = true -> str_ltb a c = true.
Proof.
  induction a as [|x a IH]; intros [|y b] [|z c] Hab Hbc; simpl in *; try discriminate; try reflexivity.
  destruct (Nat.ltb (nat_of_ascii x) (nat_of_ascii y)) eqn:Exy.
  - apply Nat.ltb_lt in Exy.
    destruct (Nat.ltb (nat_of_ascii y) (nat_of_ascii z)) eqn:Eyz.
    + apply Nat.ltb_lt in Eyz.
      assert (E : Nat.ltb (nat_of_ascii x) (nat_of_ascii z) = true) by (apply Nat.ltb_lt; lia).
      rewrite E. reflexivity.
    + destruct (Nat.ltb (nat_of_ascii z) (nat_of_ascii y)) eqn:Ezy; [discriminate|].
      apply Nat.ltb_ge in Eyz. apply Nat.ltb_ge in Ezy.
      assert (E : Nat.ltb (nat_of_ascii x) (nat_of_ascii z) = true) by (apply Nat.ltb_lt; lia).
      rewrite E. reflexivity.
  - destruct (Nat.ltb (nat_of_ascii y) (nat_of_ascii x)) eqn:Eyx; [discriminate|].
    apply Nat.ltb_ge in Exy. apply Nat.ltb_ge in Eyx.
    assert (Hxy : nat_of_ascii x = nat_of_ascii y) by lia.
    rewrite Hxy.
    destruct (Nat.ltb (nat_of_ascii y) (nat_of_ascii z)); [reflexivity|].
    destruct (Nat.ltb (nat_of_ascii z) (nat_of_ascii y)); [discriminate|].
    eapply IH; eassumption.
Qed.

Lemma str_ltb_asym : forall a b, str_ltb a b = true -> str_ltb b a = false.
Proof.
  intros a b H. destruct (str_ltb b a) eqn:E; [|reflexivity].
  pose proof (str_ltb_trans _ _ _ H E) as H1. rewrite str_ltb_irrefl in H1. discriminate.
Qed.

(* trichotomy: neither below the other = the same text *)
Lemma str_ltb_eq : forall a b, str_ltb a b = false -> str_ltb b a = false -> a = b.
Proof.
  induction a as [|x a IH]; intros [|y b] Hab Hba; simpl in *; try discriminate; try reflexivity.
  destruct (Nat.ltb (nat_of_ascii x) (nat_of_ascii y)) eqn:Exy; [discriminate|].
  destruct (Nat.ltb (nat_of_ascii y) (nat_of_ascii x)) eqn:Eyx; [discriminate|].
  apply Nat.ltb_ge in Exy. apply Nat.ltb_ge in Eyx.
  assert (Hxy : x = y) by (apply nat_of_ascii_inj; lia).
  subst y. f_equal. apply IH; assumption.
Qed.

Lemma str_ltb_total : forall a b, str_ltb a b = true \/ a = b \/ str_ltb b a = true.
Proof.
  intros a b. destruct (str_ltb a b) eqn:E1; [left; reflexivity|].
  destruct (str_ltb b a) eqn:E2; [right; right; reflexivity|].
  right; left. apply str_ltb_eq; assumption.
Qed.

(* ---------- str_leb: total order ---------- *)
Lemma str_leb_refl : forall a, str_leb a a = true.
Proof. intros a. unfold str_leb. rewrite str_ltb_irrefl. reflexivity. Qed.

Lemma str_leb_trans : forall a b c, str_leb a b = true -> str_leb b c = true -> str_leb a c = true.
Proof.
  unfold str_leb. intros a b c Hab Hbc.
  apply negb_true_iff in Hab. apply negb_true_iff in Hbc. apply negb_true_iff.
  destruct (str_ltb c a) eqn:Eca; [|reflexivity].
  (* c < a; b <= c ... so b < a unless ... *)
  destruct (str_ltb_total b c) as [H|[H|H]].
  - pose proof (str_ltb_trans _ _ _ H Eca). congruence.
  - subst. congruence.
  - congruence.
Qed.

Lemma str_leb_total : forall a b, str_leb a b = true \/ str_leb b a = true.
Proof.
  intros a b. unfold str_leb. destruct (str_ltb b a) eqn:E; [|left; reflexivity].
  right. rewrite (str_ltb_asym _ _ E). reflexivity.
Qed.

Lemma str_leb_antisym : forall a b, str_leb a b = true -> str_leb b a = true -> a = b.
Proof.
  unfold str_leb. intros a b Hab Hba.
  apply negb_true_iff in Hab. apply negb_true_iff in Hba. apply str_ltb_eq; assumption.
Qed.

Lemma str_eqb_leb : forall a b, String.eqb a b = str_leb a b && str_leb b a.
Proof.
  intros a b. destruct (String.eqb a b) eqn:E.
  - apply String.eqb_eq in E. subst. rewrite str_leb_refl. reflexivity.
  - destruct (str_leb a b) eqn:E1; [|reflexivity].
    destruct (str_leb b a) eqn:E2; [|reflexivity].
    rewrite (str_leb_antisym _ _ E1 E2), String.eqb_refl in E. discriminate.
Qed.

(* ---------- rationals ---------- *)
Lemma Qeq_bool_leb : forall a b, Qeq_bool a b = Qle_bool a b && Qle_bool b a.
Proof.
  intros a b. destruct (Qeq_bool a b) eqn:E.
  - apply Qeq_bool_iff in E. symmetry. apply andb_true_iff.
    split; apply Qle_bool_iff; rewrite E; apply Qle_refl.
  - destruct (Qle_bool a b) eqn:E1; [|reflexivity].
    destruct (Qle_bool b a) eqn:E2; [|reflexivity].
    apply Qle_bool_iff in E1. apply Qle_bool_iff in E2.
    assert (H : (a == b)%Q) by (apply Qle_antisym; assumption).
    apply Qeq_bool_iff in H. congruence.
Qed.

Lemma Qeq_bool_refl : forall a, Qeq_bool a a = true.
Proof. intros a. apply Qeq_bool_iff. reflexivity. Qed.
Lemma Qeq_bool_sym : forall a b, Qeq_bool a b = Qeq_bool b a.
Proof.
  intros a b. destruct (Qeq_bool a b) eqn:E1, (Qeq_bool b a) eqn:E2; try reflexivity.
  - apply Qeq_bool_iff in E1. symmetry in E1. apply Qeq_bool_iff in E1. congruence.
  - apply Qeq_bool_iff in E2. symmetry in E2. apply Qeq_bool_iff in E2. congruence.
Qed.
Lemma Qeq_bool_trans : forall a b c, Qeq_bool a b = true -> Qeq_bool b c = true -> Qeq_bool a c = true.
Proof.
  intros a b c H1 H2. apply Qeq_bool_iff in H1. apply Qeq_bool_iff in H2. apply Qeq_bool_iff.
  rewrite H1. exact H2.
Qed.

(* ---------- py_eq (Python == on scalars) is an equivalence ---------- *)
Lemma py_eq_refl : forall v, py_eq v v = true.
Proof.
  intros [| [] | z | q r | s | r]; unfold py_eq; simpl;
    try apply Qeq_bool_refl; try apply String.eqb_refl; reflexivity.
Qed.

Lemma py_eq_sym : forall v w, py_eq v w = py_eq w v.
Proof.
  intros v w. unfold py_eq.
  destruct (num_of v) as [a|] eqn:Ev, (num_of w) as [b|] eqn:Ew.
  - apply Qeq_bool_sym.
  - destruct v, w; simpl in *; try discriminate; reflexivity.
  - destruct v, w; simpl in *; try discriminate; reflexivity.
  - destruct v, w; simpl in *; try discriminate; try reflexivity; apply String.eqb_sym.
Qed.

Lemma py_eq_trans : forall u v w, py_eq u v = true -> py_eq v w = true -> py_eq u w = true.
Proof.
  intros u v w. unfold py_eq.
  destruct (num_of u) as [a|] eqn:Eu, (num_of v) as [b|] eqn:Ev, (num_of w) as [c|] eqn:Ew;
    intros H1 H2.
  - eapply Qeq_bool_trans; eassumption.
  - destruct v, w; simpl in *; discriminate.
  - destruct u, v; simpl in *; discriminate.
  - destruct u, v; simpl in *; discriminate.
  - destruct u, v; simpl in *; discriminate.
  - destruct u, v; simpl in *; discriminate.
  - destruct v, w; simpl in *; discriminate.
  - destruct u, v, w; simpl in *; try discriminate; try reflexivity;
      apply String.eqb_eq in H1; apply String.eqb_eq in H2; subst; apply String.eqb_refl.
Qed.

(* members equal to the same value are equal to each other *)
Lemma py_eq_trans_false : forall u v w, py_eq u v = true -> py_eq u w = false -> py_eq v w = false.
Proof.
  intros u v w H1 H2. destruct (py_eq v w) eqn:E; [|reflexivity].
  rewrite (py_eq_trans _ _ _ H1 E) in H2. discriminate.
Qed.

(* ---------- str(int) is never a spelling of true / false ---------- *)
Definition is_digit_char (c : ascii) : Prop := exists d, d < 10 /\ c = ascii_of_nat (48 + d).

Lemma pos_digits_head : forall fuel p acc,
  (0 <= p)%Z ->
  (fuel > 0 \/ exists c r, acc = String c r /\ is_digit_char c) ->
  exists c r, pos_digits_fuel fuel p acc = String c r /\ is_digit_char c.
Proof.
  induction fuel as [|f IH]; intros p acc Hp H.
  - simpl. destruct H as [H|H]; [lia|exact H].
  - cbn [pos_digits_fuel].
    assert (Hd : is_digit_char (ascii_of_nat (48 + Z.to_nat (p mod 10)))).
    { exists (Z.to_nat (p mod 10)). split; [|reflexivity].
      pose proof (Z.mod_pos_bound p 10 ltac:(lia)). lia. }
    destruct (p / 10 =? 0)%Z.
    + eexists. eexists. split; [reflexivity|exact Hd].
    + apply IH.
      * apply Z.div_pos; lia.
      * right. eexists. eexists. split; [reflexivity|exact Hd].
Qed.

Lemma lower_digit : forall c, is_digit_char c -> lower_ascii c = c /\ c <> "t"%char /\ c <> "f"%char.
Proof.
  intros c [d [Hd ->]].
  do 10 (destruct d as [|d]; [vm_compute; repeat split; discriminate|]). lia.
Qed.

Lemma str_of_Z_not_bool : forall z,
  String.eqb (lower_str (str_of_Z z)) "true" = false /\
  String.eqb (lower_str (str_of_Z z)) "false" = false.
Proof.
  intros z. unfold str_of_Z.
  destruct (pos_digits_head (S (Z.to_nat (Z.log2 (Z.abs z) + 1))) (Z.abs z) EmptyString
              (Z.abs_nonneg z)) as [c [r [E Hc]]]; [left; lia|].
  rewrite E. destruct (lower_digit c Hc) as [Hl [Ht Hf]].
  destruct (z <? 0)%Z.
  - split; reflexivity.
  - unfold lower_str. cbn [map_str]. rewrite Hl.
    split; apply String.eqb_neq; intros H; inversion H; congruence.
Qed.

(* Nodes.typed_value(int) is the int: literal_eval is not consulted *)
Lemma typed_value_int : forall lit z, typed_value lit (PInt z) = Ok (PInt z).
Proof.
  intros lit z. unfold typed_value. cbn [py_str].
  destruct (str_of_Z_not_bool z) as [H1 H2]. rewrite H1, H2. reflexivity.
Qed.
