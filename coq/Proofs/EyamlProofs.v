(* Lemmas and proofs for C19 (EYAML key rotation). *)
From Coq Require Import List Ascii String NArith Bool Arith.
From YP Require Import Outcome PyStr PyVal Doc Eyaml C19Spec.
Import ListNotations.
Open Scope string_scope.
Import Ey.

(* ---- the marker rule ----------------------------------------------------------- *)

Lemma starts_clean_begins : forall s m, starts_with m (clean s) = true -> begins_ignoring_blanks m s.
Proof.
  induction s as [|c r IH]; intros m H; simpl in H.
  - destruct m; [constructor | discriminate H].
  - destruct (is_blank c) eqn:Hb.
    + apply bib_skip; [exact Hb | apply IH; exact H].
    + destruct m as [|a m']; [constructor|].
      simpl in H. destruct (Ascii.eqb a c) eqn:He; [|discriminate H].
      apply Ascii.eqb_eq in He; subst a. apply bib_match; [exact Hb | apply IH; exact H].
Qed.

Lemma begins_starts_clean : forall m s, begins_ignoring_blanks m s -> starts_with m (clean s) = true.
Proof.
  intros m s H; induction H as [s | m c s Hb _ IH | m c s Hb _ IH].
  - destruct (clean s); reflexivity.
  - simpl; rewrite Hb; exact IH.
  - simpl; rewrite Hb; simpl; rewrite Ascii.eqb_refl; exact IH.
Qed.

Lemma marker_rule : forall s, is_eyaml_str s = true <-> begins_ignoring_blanks marker s.
Proof. intro s; split; [apply starts_clean_begins | apply begins_starts_clean]. Qed.

Lemma marker_rule_value : forall v,
  is_eyaml_value v = true <-> exists s, v = PStr s /\ begins_ignoring_blanks marker s.
Proof.
  intro v; split.
  - destruct v; simpl; try discriminate; intro H; eexists; split; [reflexivity | apply marker_rule; exact H].
  - intros (s & -> & H); apply marker_rule; exact H.
Qed.

(* ---- a file holding no encrypted value ---------------------------------------------- *)

Lemma is_eyaml_node_has_secret : forall n, has_secret n = false -> is_eyaml_node n = false.
Proof. intros [i v| | |] H; try reflexivity; exact H. Qed.

Lemma find_paths_none : forall n pre, has_secret n = false -> find_paths n pre = [].
Proof.
  induction n as [i v | i kvs IH | i els IH | i els IH] using node_ind'; intros pre H; try reflexivity.
  - (* hash *)
    simpl in H |- *. induction kvs as [|[k v] r IHr]; [reflexivity|].
    simpl in H; apply orb_false_iff in H; destruct H as [Hv Hr].
    inversion IH as [|? ? [_ IHv] IHrest]; subst.
    rewrite (is_eyaml_node_has_secret v Hv), (IHv _ Hv); simpl. apply IHr; assumption.
  - (* list *)
    simpl in H |- *. generalize 0 as idx.
    induction els as [|e r IHr]; intro idx; [reflexivity|].
    simpl in H; apply orb_false_iff in H; destruct H as [He Hr].
    inversion IH as [|? ? IHe IHrest]; subst.
    rewrite (is_eyaml_node_has_secret e He), (IHe _ He); simpl. apply IHr; assumption.
Qed.

Section Cipher.
  Variable key : Type.
  Variable enc : key -> string -> option string.
  Variable dec : key -> string -> option string.
  Variable layout : out_fmt -> string -> string.
  Variables oldk newk : key.

  Lemma untouched_if_none : forall d next folded,
    has_secret d = false ->
    rotate_file key enc dec layout oldk newk d next folded = Ok (mkrs d [] false 0 next folded []).
  Proof.
    intros d next folded H; unfold rotate_file, rotate_file_from, find_eyaml_paths.
    rewrite find_paths_none by exact H; reflexivity.
  Qed.

  (* ---- one value through decrypt-with-old / encrypt-with-new ------------------------ *)

  (* the three cipher laws, and what the command's output layout may do *)
  Hypothesis dec_enc : forall k p c, enc k p = Some c -> dec k c = Some p.
  Hypothesis dec_other : forall k k' p c, k <> k' -> enc k p = Some c -> dec k' c = None.
  Hypothesis enc_shape : forall k p c, enc k p = Some c -> cipher_ok c = true.
  Hypothesis layout_ok : forall fmt c, cipher_ok c = true ->
    exists stored, post_encrypt fmt (layout fmt c) = Ok stored /\ clean stored = c.

  Lemma str_app_assoc : forall a b c : string, ((a ++ b) ++ c = a ++ (b ++ c))%string.
  Proof. induction a as [|x a IH]; intros b c; simpl; [reflexivity | rewrite IH; reflexivity]. Qed.

  Lemma rev_acc : forall s acc, rev_str_acc s acc = (rev_str_acc s EmptyString ++ acc)%string.
  Proof.
    induction s as [|c r IH]; intro acc; [reflexivity|].
    simpl; rewrite IH, (IH (String c EmptyString)).
    rewrite str_app_assoc; reflexivity.
  Qed.

  Lemma rev_snoc : forall s c, rev_str (snoc s c) = String c (rev_str s).
  Proof.
    unfold rev_str, snoc; induction s as [|a r IH]; intro c; [reflexivity|].
    simpl; rewrite rev_acc, IH, (rev_acc r (String a EmptyString)); reflexivity.
  Qed.

  Lemma rstrip_stdout : forall p, str_is_empty p = false -> rstrip_py (decrypt_stdout p) = rstrip_py p.
  Proof.
    intros p Hne; unfold decrypt_stdout.
    destruct (last_char p) as [c|] eqn:Hl.
    - destruct (Ascii.eqb c (ch 10)); [reflexivity|].
      unfold rstrip_py; rewrite rev_snoc; reflexivity.
    - destruct p as [|a r]; [discriminate Hne|].
      exfalso; clear Hne; revert a Hl; induction r as [|b r IH]; intros a Hl; simpl in Hl; [discriminate|].
      apply (IH b); exact Hl.
  Qed.

  Lemma is_ascii_stdout : forall p, is_ascii_str p = true -> is_ascii_str (decrypt_stdout p) = true.
  Proof.
    intros p H; unfold decrypt_stdout; destruct (last_char p) as [c|]; [|reflexivity].
    destruct (Ascii.eqb c (ch 10)); [exact H|].
    unfold snoc; induction p as [|a r IH]; [reflexivity|].
    simpl in H |- *; apply andb_true_iff in H; destruct H as [Ha Hr]; rewrite Ha; apply IH; exact Hr.
  Qed.

  Lemma plain_ok_parts : forall p, plain_ok p = true ->
    str_is_empty p = false /\ is_ascii_str p = true /\ rstrip_py p = p /\ is_eyaml_str p = false.
  Proof.
    intros p H; unfold plain_ok in H.
    repeat (apply andb_true_iff in H; destruct H as [H ?]).
    repeat split.
    - apply negb_true_iff; assumption.
    - assumption.
    - apply String.eqb_eq; assumption.
    - apply negb_true_iff; assumption.
  Qed.

  Lemma cipher_ok_parts : forall c, cipher_ok c = true ->
    starts_with "ENC[" c = true /\ is_ascii_str c = true /\ clean c = c /\ rstrip_py c = c.
  Proof.
    intros c H; unfold cipher_ok in H.
    repeat (apply andb_true_iff in H; destruct H as [H ?]).
    unfold marker in *.
    repeat split; try assumption; apply String.eqb_eq; assumption.
  Qed.

  (* decrypting a stored value whose cleaned text is the ciphertext c *)
  Lemma decrypt_stored : forall k s c p,
    clean s = c -> cipher_ok c = true -> dec k c = Some p -> plain_ok p = true ->
    decrypt_eyaml key dec k (PStr s) = Ok (PStr p).
  Proof.
    intros k s c p Hc Hok Hd Hp.
    destruct (cipher_ok_parts c Hok) as (Hm & Ha & Hcl & Hr).
    destruct (plain_ok_parts p Hp) as (Hne & Hpa & Hpr & Hpe).
    unfold decrypt_eyaml, is_eyaml_str; rewrite Hc, Hm; simpl negb; cbv iota.
    rewrite Hr, Ha; simpl negb; cbv iota. rewrite Hd.
    rewrite (is_ascii_stdout p Hpa); simpl negb; cbv iota.
    rewrite (rstrip_stdout p Hne), Hpr, Hne; simpl orb.
    destruct (String.eqb p c) eqn:E; [|reflexivity].
    apply String.eqb_eq in E; subst p.
    unfold is_eyaml_str in Hpe; rewrite Hcl, Hm in Hpe; discriminate Hpe.
  Qed.

  Lemma decrypt_stored_wrong_key : forall k s c,
    clean s = c -> cipher_ok c = true -> dec k c = None ->
    decrypt_eyaml key dec k (PStr s) = Raise EyamlExc.
  Proof.
    intros k s c Hc Hok Hd.
    destruct (cipher_ok_parts c Hok) as (Hm & Ha & Hcl & Hr).
    unfold decrypt_eyaml, is_eyaml_str; rewrite Hc, Hm; simpl negb; cbv iota.
    rewrite Hr, Ha; simpl negb; cbv iota. rewrite Hd; reflexivity.
  Qed.

  (* C19_rekeyed / C19_old_key_dead for one value: whatever encrypt_eyaml stores
     for an acceptable plaintext is an encrypted value, decrypts under the new
     key to that plaintext and is refused under any other key *)
  Lemma rekey_value : forall (p : string) (fmt : out_fmt) (stored : string),
    plain_ok p = true ->
    encrypt_eyaml key enc layout newk p fmt = Ok stored ->
    is_eyaml_str stored = true
    /\ decrypt_eyaml key dec newk (PStr stored) = Ok (PStr p)
    /\ (oldk <> newk -> decrypt_eyaml key dec oldk (PStr stored) = Raise EyamlExc).
  Proof.
    intros p fmt stored Hp He.
    destruct (plain_ok_parts p Hp) as (Hne & Hpa & Hpr & Hpe).
    unfold encrypt_eyaml in He; rewrite Hpe, Hpa in He; simpl in He.
    destruct (enc newk p) as [c|] eqn:Hc; [|discriminate He].
    pose proof (enc_shape _ _ _ Hc) as Hok.
    destruct (layout_ok fmt c Hok) as (st & Hpost & Hclean).
    rewrite Hpost in He; inversion He; subst st; clear He.
    destruct (cipher_ok_parts c Hok) as (Hm & _ & _ & _).
    split; [unfold is_eyaml_str; rewrite Hclean; exact Hm|].
    split.
    - eapply decrypt_stored; eauto.
    - intro Hk; eapply decrypt_stored_wrong_key; eauto.
  Qed.

  (* the plaintext handed to encrypt IS the old plaintext *)
  Lemma decrypt_old_value : forall s c p,
    is_eyaml_str s = true -> rstrip_py (clean s) = c -> is_ascii_str c = true ->
    dec oldk c = Some p -> plain_ok p = true -> p <> c ->
    decrypt_eyaml key dec oldk (PStr s) = Ok (PStr p).
  Proof.
    intros s c p Hs Hc Ha Hd Hp Hne'.
    destruct (plain_ok_parts p Hp) as (Hne & Hpa & Hpr & Hpe).
    unfold decrypt_eyaml; rewrite Hs; simpl negb; cbv iota.
    rewrite Hc, Ha; simpl negb; cbv iota; rewrite Hd.
    rewrite (is_ascii_stdout p Hpa); simpl negb; cbv iota.
    rewrite (rstrip_stdout p Hne), Hpr, Hne; simpl orb.
    destruct (String.eqb p c) eqn:E; [apply String.eqb_eq in E; contradiction | reflexivity].
  Qed.

  (* ---- values shared through an anchor are processed once ---------------------------- *)
  (* seen_anchors never holds a name twice, and a node whose anchor is already in
     it is left alone *)
  Lemma rotate_at_seen_skip : forall st p l i v a,
    lookup (r_doc st) l = Some (NLeaf i v) -> anchor_name (NLeaf i v) = Some a ->
    mem_string a (r_seen st) = true ->
    rotate_at key enc dec layout oldk newk st p l = Ok st.
  Proof.
    intros st p l i v a Hl Ha Hm; unfold rotate_at; rewrite Hl, Ha, Hm; reflexivity.
  Qed.
End Cipher.

(* ---- witnesses of the known finding (F19a) ------------------------------------------ *)
(* a toy cipher satisfying the laws: "ENC[" ++ key ++ "," ++ plaintext ++ "]" style is
   not needed -- the finding only concerns what the tool does around the cipher *)

Lemma trailing_newline_lost :
  forall (key : Type) (dec : key -> string -> option string) (k : key) (s c : string),
    clean s = c -> cipher_ok c = true ->
    dec k c = Some ("secret" ++ String (ch 10) EmptyString)%string ->
    decrypt_eyaml key dec k (PStr s) = Ok (PStr "secret").
Proof.
  intros key dec k s c Hc Hok Hd.
  unfold cipher_ok in Hok.
  repeat (apply andb_true_iff in Hok; destruct Hok as [Hok ?]).
  assert (Hr : rstrip_py c = c) by (apply String.eqb_eq; assumption).
  unfold decrypt_eyaml, is_eyaml_str; rewrite Hc. unfold marker in Hok; rewrite Hok; simpl negb; cbv iota.
  rewrite Hr. match goal with H : is_ascii_str c = true |- _ => rewrite H end. simpl negb; cbv iota.
  rewrite Hd.
  change (decrypt_stdout ("secret" ++ String (ch 10) EmptyString)%string)
    with ("secret" ++ String (ch 10) EmptyString)%string.
  change (rstrip_py ("secret" ++ String (ch 10) EmptyString)%string) with "secret".
  change (is_ascii_str ("secret" ++ String (ch 10) EmptyString)%string) with true.
  simpl negb; cbv iota zeta.
  destruct c as [|a c']; [simpl in Hok; discriminate Hok|].
  cbn [starts_with] in Hok; revert Hok; destruct (Ascii.eqb "E" a) eqn:E; intro Hok; [|discriminate Hok].
  apply Ascii.eqb_eq in E; subst a. reflexivity.
Qed.

(* a plaintext that itself carries the marker is stored as it is *)
Lemma marker_plaintext_stored_in_clear :
  forall (key : Type) (enc : key -> string -> option string) (layout : out_fmt -> string -> string)
         (k : key) (fmt : out_fmt),
    encrypt_eyaml key enc layout k "ENC[looks encrypted]" fmt = Ok "ENC[looks encrypted]".
Proof. reflexivity. Qed.

(* ---- seen_anchors never holds a name twice -------------------------------------------- *)

Lemma mem_string_false_not_in : forall a l, mem_string a l = false -> ~ In a l.
Proof.
  induction l as [|b r IH]; simpl; intros H; [tauto|].
  destruct (String.eqb a b) eqn:E; [discriminate H|].
  intros [Hb|Hr]; [subst b; rewrite String.eqb_refl in E; discriminate E | exact (IH H Hr)].
Qed.

Lemma nodup_snoc : forall (a : string) l, NoDup l -> ~ In a l -> NoDup (l ++ [a])%list.
Proof.
  induction l as [|b r IH]; intros Hn Hi; simpl.
  - constructor; [tauto | constructor].
  - inversion Hn; subst. constructor.
    + rewrite in_app_iff; simpl; intros [H|[H|[]]]; [contradiction | subst; apply Hi; left; reflexivity].
    + apply IH; [assumption | intro H; apply Hi; right; exact H].
Qed.

Lemma set_at_seen : forall st l v f st', set_at st l v f = Ok st' -> r_seen st' = r_seen st.
Proof.
  intros st l v f st' H; unfold set_at in H.
  destruct (lookup (r_doc st) (removelast l)); [|discriminate H].
  destruct (lookup (r_doc st) l) as [[i x| | |]|]; try discriminate H.
  inversion H; reflexivity.
Qed.

Lemma set_value_locs_seen : forall ls st v f st', set_value_locs st ls v f = Ok st' -> r_seen st' = r_seen st.
Proof.
  induction ls as [|l r IH]; intros st v f st' H; simpl in H; [inversion H; reflexivity|].
  destruct (set_at st l v f) as [s1| |] eqn:E; simpl in H; try discriminate H.
  rewrite (IH _ _ _ _ H); eapply set_at_seen; exact E.
Qed.

Section Cipher2.
  Variable key : Type.
  Variable enc : key -> string -> option string.
  Variable dec : key -> string -> option string.
  Variable layout : out_fmt -> string -> string.
  Variables oldk newk : key.

  Lemma rotate_at_nodup : forall st p l st',
    NoDup (r_seen st) -> rotate_at key enc dec layout oldk newk st p l = Ok st' -> NoDup (r_seen st').
  Proof.
    intros st p l st' Hn H; unfold rotate_at in H.
    destruct (lookup (r_doc st) l) as [[i v| | |]|]; try discriminate H.
    set (seen' := match anchor_name (NLeaf i v) with Some a => (r_seen st ++ [a])%list | None => r_seen st end) in *.
    assert (Hs : (match anchor_name (NLeaf i v) with Some a => mem_string a (r_seen st) | None => false end) = false
                 -> NoDup seen').
    { unfold seen'; destruct (anchor_name (NLeaf i v)) as [a|]; intro M; [|exact Hn].
      apply nodup_snoc; [exact Hn | apply mem_string_false_not_in; exact M]. }
    destruct (match anchor_name (NLeaf i v) with Some a => mem_string a (r_seen st) | None => false end) eqn:M.
    - inversion H; subst; exact Hn.
    - specialize (Hs eq_refl).
      destruct (decrypt_eyaml key dec oldk v) as [pv|e|]; try discriminate H.
      + destruct pv; try discriminate H.
        destruct (encrypt_eyaml key enc layout newk s _) as [ev|e|]; try discriminate H.
        * simpl in H.
          match type of H with (do st2 <- ?X; _) = _ => destruct X as [st2| |] eqn:E end; simpl in H; try discriminate H.
          inversion H; subst; simpl. rewrite (set_value_locs_seen _ _ _ _ _ E); exact Hs.
        * destruct e; try discriminate H. inversion H; subst; exact Hs.
      + destruct e; try discriminate H. inversion H; subst; exact Hs.
  Qed.

  Lemma rotate_locs_nodup : forall ls st p st',
    NoDup (r_seen st) -> rotate_locs key enc dec layout oldk newk st p ls = Ok st' -> NoDup (r_seen st').
  Proof.
    induction ls as [|l r IH]; intros st p st' Hn H; simpl in H; [inversion H; subst; exact Hn|].
    destruct (rotate_at key enc dec layout oldk newk st p l) as [s1| |] eqn:E; simpl in H; try discriminate H.
    eapply IH; [eapply rotate_at_nodup; eassumption | exact H].
  Qed.

  Lemma rotate_paths_nodup : forall ps st st',
    NoDup (r_seen st) -> rotate_paths key enc dec layout oldk newk st ps = Ok st' -> NoDup (r_seen st').
  Proof.
    induction ps as [|p r IH]; intros st st' Hn H; simpl in H; [inversion H; subst; exact Hn|].
    destruct (rotate_path key enc dec layout oldk newk st p) as [s1| |] eqn:E; simpl in H; try discriminate H.
    eapply IH; [|exact H].
    unfold rotate_path in E; destruct (resolve (r_doc st) p) as [|l0 ls]; [discriminate E|].
    eapply rotate_locs_nodup; eassumption.
  Qed.

  Lemma seen_anchors_nodup : forall d next folded st,
    rotate_file key enc dec layout oldk newk d next folded = Ok st -> NoDup (r_seen st).
  Proof.
    intros d next folded st H; unfold rotate_file, rotate_file_from in H.
    eapply rotate_paths_nodup; [|exact H]. constructor.
  Qed.
End Cipher2.
