(* C07, alias-exclusion modes on documents WITH anchors.

   search_for_paths threads `seen_anchors` (names).  The specification
   (SpecC07: is_repeat, vreach, the vplace definitions) speaks about object identities in
   document order.  Invariants tying them:
     agree  pre seen : every name in seen is the name of an anchored occurrence in pre
                       (always true: the code visits in document order)
     covers pre seen : every anchored occurrence in pre has its name in seen
                       (the parts the search does not enter are either walked by
                       record_anchors, or shared objects met before: guard shared_closed)
   Part 1: generic loop lemma, classification facts, preservation of agree.
   Part 2: completeness for the visible places (guard: names_consistent).
   Part 3: exclusion -- every report is a visible place (guards: names_consistent, shared_closed). *)
From Coq Require Import List Ascii String ZArith NArith Bool Arith Lia.
From YP Require Import Outcome PyStr PyVal Doc Generated PathParser PathPrinter Searches PathsSearch
     SpecC07 PathsEnum PathsSpec.
Import ListNotations.

(* ---- lists ---- *)
Lemma mem_string_iff s l : mem_string s l = true <-> In s l.
Proof.
  induction l as [|d r IH]; simpl; [split; [discriminate|tauto]|].
  destruct (String.eqb s d) eqn:E.
  - apply String.eqb_eq in E. subst. tauto.
  - rewrite IH. split; [tauto|]. intros [H|H]; auto. subst. rewrite String.eqb_refl in E. discriminate.
Qed.

Lemma firstn_S_nth {A} (l : list A) j x :
  nth_error l j = Some x -> firstn (S j) l = (firstn j l ++ [x])%list.
Proof.
  revert j. induction l as [|a l IH]; intros [|j] H; simpl in *; try discriminate.
  - inversion H; reflexivity.
  - f_equal. apply IH; auto.
Qed.

Lemma flat_map_firstn_S {A B} (f : A -> list B) (l : list A) j x :
  nth_error l j = Some x -> flat_map f (firstn (S j) l) = (flat_map f (firstn j l) ++ f x)%list.
Proof. intros H. rewrite (firstn_S_nth _ _ _ H), flat_map_app. simpl. rewrite app_nil_r. reflexivity. Qed.

(* ---- the generic loop lemma with an invariant on seen_anchors ---- *)
Lemma loop_inv {A} (body : A -> nat -> list string -> outcome res) :
  forall (l : list A) (Inv : nat -> list string -> Prop) idx0 seen r,
    (forall j x s rj, nth_error l j = Some x -> Inv j s -> body x (idx0 + j) s = Ok rj -> Inv (S j) (snd rj)) ->
    Inv 0 seen -> loop body l idx0 seen = Ok r ->
    Inv (List.length l) (snd r) /\
    (forall j x, nth_error l j = Some x ->
                 exists s rj, Inv j s /\ body x (idx0 + j) s = Ok rj /\ incl (fst rj) (fst r)) /\
    (forall h, In h (fst r) ->
               exists j x s rj, nth_error l j = Some x /\ Inv j s /\ body x (idx0 + j) s = Ok rj /\ In h (fst rj)).
Proof.
  induction l as [|a l IH]; intros Inv idx0 seen r Hstep H0 E; simpl in E.
  - inversion E; subst; simpl. split; auto. split.
    + intros j x H. destruct j; discriminate.
    + intros h [].
  - destruct (body a idx0 seen) as [hs| |] eqn:Eb; simpl in E; try discriminate.
    destruct (loop body l (S idx0) (snd hs)) as [rs| |] eqn:El; simpl in E; try discriminate.
    inversion E; subst; clear E. simpl.
    assert (H1 : Inv 1 (snd hs)).
    { apply (Hstep 0 a seen hs); auto. rewrite Nat.add_0_r. auto. }
    destruct (IH (fun j s => Inv (S j) s) (S idx0) (snd hs) rs) as [I1 [I2 I3]]; auto.
    { intros j x s rj Hn Hi Hb. apply (Hstep (S j) x s rj); auto.
      replace (idx0 + S j) with (S idx0 + j) by lia. auto. }
    split; [exact I1|]. split.
    + intros [|j] x Hn; simpl in Hn.
      * inversion Hn; subst. exists seen, hs. rewrite Nat.add_0_r. split; auto. split; auto.
        apply incl_appl, incl_refl.
      * destruct (I2 j x Hn) as [s [rj [Hi [Hb Hinc]]]]. exists s, rj. split; auto.
        replace (idx0 + S j) with (S idx0 + j) by lia. split; auto. apply incl_appr; auto.
    + intros h Hin. apply in_app_iff in Hin. destruct Hin as [Hin|Hin].
      * exists 0, a, seen, hs. rewrite Nat.add_0_r. auto.
      * destruct (I3 h Hin) as [j [x [s [rj [Hn [Hi [Hb Hh]]]]]]].
        exists (S j), x, s, rj. replace (idx0 + S j) with (S idx0 + j) by lia. auto.
Qed.

(* ---- names vs identities ---- *)
Definition agree (pre : list node) (seen : list string) : Prop :=
  forall a, In a seen -> exists y, In y pre /\ get_node_anchor y = Some a.
Definition covers (pre : list node) (seen : list string) : Prop :=
  forall y a, In y pre -> get_node_anchor y = Some a -> In a seen.

Lemma agree_mono pre pre' seen : agree pre seen -> incl pre pre' -> agree pre' seen.
Proof. intros H Hi a Ha. destruct (H a Ha) as [y [Hy E]]. exists y. auto. Qed.

Lemma agree_app pre more seen : agree pre seen -> agree (pre ++ more) seen.
Proof. intros H. eapply agree_mono; eauto. apply incl_appl, incl_refl. Qed.

Lemma self_occ_In x y : In y (self_occ x) -> y = x /\ exists a, get_node_anchor x = Some a.
Proof. unfold self_occ. destruct (get_node_anchor x) eqn:E; simpl; [|tauto]. intros [<-|[]]. eauto. Qed.

Lemma self_occ_some x a : get_node_anchor x = Some a -> self_occ x = [x].
Proof. unfold self_occ. intros ->. reflexivity. Qed.
Lemma self_occ_none x : get_node_anchor x = None -> self_occ x = [].
Proof. unfold self_occ. intros ->. reflexivity. Qed.

(* the two directions of names_consistent, for members of the list *)
Lemma consistent_pair l x y :
  names_consistent l = true -> In x l -> In y l ->
  anchor_name_eqb x y = N.eqb (node_oid x) (node_oid y).
Proof.
  unfold names_consistent. rewrite forallb_forall. intros H Hx Hy.
  specialize (H x Hx). rewrite forallb_forall in H. specialize (H y Hy).
  apply eqb_prop in H. exact H.
Qed.

Lemma names_consistent_incl l l' : names_consistent l' = true -> incl l l' -> names_consistent l = true.
Proof.
  unfold names_consistent. rewrite !forallb_forall. intros H Hi x Hx.
  rewrite forallb_forall. intros y Hy. specialize (H x (Hi _ Hx)). rewrite forallb_forall in H. auto.
Qed.

Lemma same_oid_in_iff pre x : same_oid_in pre x = true <-> exists y, In y pre /\ node_oid y = node_oid x.
Proof.
  unfold same_oid_in. rewrite existsb_exists. split; intros [y [H1 H2]]; exists y; split; auto.
  - apply N.eqb_eq; auto.
  - apply N.eqb_eq; auto.
Qed.

(* ---- record_anchors: the walk that only feeds seen_anchors ---- *)
Lemma note_agree pre seen x : agree pre seen -> agree (pre ++ self_occ x) (note_anchor x seen).
Proof.
  intros H. unfold note_anchor, self_occ. destruct (get_node_anchor x) as [name|] eqn:En.
  - destruct (mem_string name seen); [apply agree_app; auto|].
    intros a Hin. apply in_app_iff in Hin. destruct Hin as [Hin|[<-|[]]].
    + destruct (H a Hin) as [y [Hy E]]. exists y. split; auto. apply in_or_app; auto.
    + exists x. split; auto. apply in_or_app. right. left. reflexivity.
  - rewrite app_nil_r. auto.
Qed.

Lemma note_covers pre seen x : covers pre seen -> covers (pre ++ self_occ x) (note_anchor x seen).
Proof.
  intros H. unfold note_anchor, self_occ. destruct (get_node_anchor x) as [name|] eqn:En.
  - destruct (mem_string name seen) eqn:Em.
    + apply mem_string_iff in Em. intros y a Hy E. apply in_app_iff in Hy. destruct Hy as [Hy|[<-|[]]]; [eauto|]. congruence.
    + intros y a Hy E. apply in_app_iff in Hy. apply in_or_app. destruct Hy as [Hy|[<-|[]]].
      * left. eauto.
      * right. left. congruence.
  - rewrite app_nil_r. auto.
Qed.

Section Record.
Variable Inv : list node -> list string -> Prop.
Hypothesis Hnote : forall pre seen x, Inv pre seen -> Inv (pre ++ self_occ x) (note_anchor x seen).

Lemma record_inv n : forall pre seen, Inv pre seen -> Inv (pre ++ anc_occs n) (record_anchors n seen).
Proof.
  induction n as [i v|i kvs IH|i els IH|i els IH] using node_ind'; intros pre seen H.
  - simpl. rewrite app_nil_r. auto.
  - cbn [record_anchors anc_occs]. revert pre seen H. induction kvs as [|[k v] r IHr]; intros pre seen H.
    + simpl. rewrite app_nil_r. auto.
    + inversion IH as [|? ? [_ Hv] Hr]; subst. cbn [flat_map fst snd].
      replace (pre ++ (self_occ k ++ self_occ v ++ anc_occs v) ++
               flat_map (fun kv => self_occ (fst kv) ++ self_occ (snd kv) ++ anc_occs (snd kv)) r)%list
        with ((((pre ++ self_occ k) ++ self_occ v) ++ anc_occs v) ++
              flat_map (fun kv => self_occ (fst kv) ++ self_occ (snd kv) ++ anc_occs (snd kv)) r)%list
        by (rewrite <- !app_assoc; reflexivity).
      apply IHr; auto.
  - cbn [record_anchors anc_occs]. revert pre seen H. induction els as [|e r IHr]; intros pre seen H.
    + simpl. rewrite app_nil_r. auto.
    + inversion IH as [|? ? He Hr]; subst. cbn [flat_map].
      replace (pre ++ (self_occ e ++ anc_occs e) ++ flat_map (fun e0 => self_occ e0 ++ anc_occs e0) r)%list
        with (((pre ++ self_occ e) ++ anc_occs e) ++ flat_map (fun e0 => self_occ e0 ++ anc_occs e0) r)%list
        by (rewrite <- !app_assoc; reflexivity).
      apply IHr; auto.
  - cbn [record_anchors anc_occs]. clear IH. revert pre seen H. induction els as [|e r IHr]; intros pre seen H.
    + simpl. rewrite app_nil_r. auto.
    + cbn [flat_map fold_left]. rewrite app_assoc. apply IHr. auto.
Qed.
End Record.

Lemma record_agree n pre seen : agree pre seen -> agree (pre ++ anc_occs n) (record_anchors n seen).
Proof. apply record_inv. intros; apply note_agree; auto. Qed.
Lemma record_covers n pre seen : covers pre seen -> covers (pre ++ anc_occs n) (record_anchors n seen).
Proof. apply record_inv. intros; apply note_covers; auto. Qed.

Section Alias.
Variable lit : string -> outcome litres.
Variable re_search : string -> string -> outcome reres.
Variable mt : mtable.
Variable aa : adict.
Variable tm : terms.
Variable sp : sep.
Variable o : opts.
Hypothesis Ha : o_anchors o = false.

Notation sfp := (search_for_paths lit re_search mt aa tm sp o).
Notation sanchor := (search_anchor lit re_search tm o).

(* what one classification does (anchor names not searched) *)
Lemma classify_alias x seen b :
  exists am seen',
    sanchor x seen b = Ok (am, seen') /\ quiet am /\ is_hit am = false /\
    (is_excl am = is_unsearchable_alias am) /\
    (forall pre, agree pre seen -> agree (pre ++ self_occ x) seen') /\
    (forall pre, covers pre seen -> covers (pre ++ self_occ x) seen') /\
    (forall pre, agree pre seen -> names_consistent (pre ++ self_occ x) = true ->
                 is_excl am = true -> is_repeat pre x = true) /\
    (forall pre, covers pre seen -> names_consistent (pre ++ self_occ x) = true ->
                 is_repeat pre x = true -> is_excl am = true).
Proof.
  unfold search_anchor. destruct (get_node_anchor x) as [name|] eqn:En.
  - rewrite Ha. simpl. rewrite (self_occ_some _ _ En).
    destruct (mem_string name seen) eqn:Em.
    + (* alias *)
      exists UnsearchableAlias, seen. split; [reflexivity|]. split; [unfold quiet; auto|].
      split; [reflexivity|]. split; [reflexivity|]. apply mem_string_iff in Em.
      split; [intros pre H; apply agree_app; auto|].
      split; [|split].
      * intros pre H y a Hy E. apply in_app_iff in Hy. destruct Hy as [Hy|[<-|[]]]; [eauto|]. congruence.
      * intros pre Hag Hc _. unfold is_repeat. rewrite En. apply same_oid_in_iff.
        destruct (Hag _ Em) as [y [Hy Ey]]. exists y. split; auto.
        assert (P := consistent_pair _ y x Hc (in_or_app _ _ _ (or_introl Hy)) (in_or_app _ _ _ (or_intror (in_eq _ _)))).
        unfold anchor_name_eqb in P. rewrite Ey, En, String.eqb_refl in P. symmetry in P. apply N.eqb_eq; auto.
      * reflexivity.
    + (* first time *)
      exists UnsearchableAnchor, (seen ++ [name])%list. split; [reflexivity|]. split; [unfold quiet; auto|].
      split; [reflexivity|]. split; [reflexivity|].
      assert (Hni : ~ In name seen) by (intros H; apply mem_string_iff in H; congruence).
      split; [|split; [|split]].
      * intros pre H a Hin. apply in_app_iff in Hin. destruct Hin as [Hin|[<-|[]]].
        -- destruct (H a Hin) as [y [Hy E]]. exists y. split; auto. apply in_or_app; auto.
        -- exists x. split; auto. apply in_or_app. right. left. reflexivity.
      * intros pre H y a Hy E. apply in_app_iff in Hy. apply in_or_app. destruct Hy as [Hy|[<-|[]]].
        -- left. eauto.
        -- right. left. congruence.
      * discriminate.
      * intros pre Hcov Hc Hr. exfalso. unfold is_repeat in Hr. rewrite En in Hr.
        apply same_oid_in_iff in Hr. destruct Hr as [y [Hy Eo]].
        assert (P := consistent_pair _ y x Hc (in_or_app _ _ _ (or_introl Hy)) (in_or_app _ _ _ (or_intror (in_eq _ _)))).
        rewrite Eo, N.eqb_refl in P. unfold anchor_name_eqb in P. rewrite En in P.
        destruct (get_node_anchor y) as [b0|] eqn:Ey; [|discriminate].
        apply String.eqb_eq in P. subst b0. apply Hni. eapply Hcov; eauto.
  - exists NoAnchor, seen. split; [reflexivity|]. split; [unfold quiet; auto|].
    split; [reflexivity|]. split; [reflexivity|]. rewrite (self_occ_none _ En).
    split; [intros pre H; rewrite app_nil_r; auto|]. split; [intros pre H; rewrite app_nil_r; auto|].
    split; [discriminate|]. intros pre _ _ Hr. unfold is_repeat in Hr. rewrite En in Hr. discriminate.
Qed.

Hypothesis Hnx : o_expand o = false.
Notation satb := (satb lit re_search tm).
Notation rec := (fun v t l s => search_for_paths lit re_search mt aa tm sp o v t l s).

(* ---- what the shared value part does for a quiet classification ---- *)
Lemma value_part_cases am v tmp lc' seen r :
  quiet am ->
  value_part lit re_search mt tm sp o rec am v tmp lc' seen = Ok r ->
  (is_unsearchable_alias am && negb (o_valias o) = true /\ r = ([], seen))
  \/ (is_unsearchable_alias am && negb (o_valias o) = false /\ is_container v = true /\ sfp v tmp lc' seen = Ok r)
  \/ (is_unsearchable_alias am && negb (o_valias o) = false /\ is_container v = false /\ snd r = seen /\
      ((o_values o = true /\ satb v = true /\ fst r = [mkhit tmp lc' HValue])
       \/ ((o_values o = false \/ satb v = false) /\ fst r = []))).
Proof.
  intros Q E. unfold value_part in E.
  assert (E' : (if is_unsearchable_alias am && negb (o_valias o) then Ok ([], seen)
                else if is_container v then sfp v tmp lc' seen
                else if o_values o then
                       do m <- term_matches lit re_search tm (node_hay v);
                       Ok (if m then [mkhit tmp lc' HValue] else [], seen)
                     else Ok ([], seen)) = Ok r).
  { destruct Q as [->|[->| ->]]; exact E. }
  clear E. destruct (is_unsearchable_alias am && negb (o_valias o)).
  - left. inversion E'. auto.
  - right. destruct (is_container v).
    + left. auto.
    + right. split; auto. split; auto. destruct (o_values o).
      * destruct (term_matches lit re_search tm (node_hay v)) as [[|]| |] eqn:Em; simpl in E'; try discriminate;
          inversion E'; subst; simpl; split; auto.
        -- left. rewrite (satb_true _ _ _ _ Em). auto.
        -- right. rewrite (satb_false _ _ _ _ Em). auto.
      * inversion E'; subst; simpl. split; auto.
Qed.

(* ---- the loop bodies, named ---- *)
Definition seq_body (bp : string) (lc : loc) :=
  fun (ele : node) (idx : nat) (seen : list string) =>
    do am_s <- sanchor ele seen (o_valias o);
    value_part lit re_search mt tm sp o rec (fst am_s) ele
               (elem_path sp (seq_prefix sp bp) (fst am_s) idx ele) (lc ++ [RIdx idx])%list (snd am_s).

Lemma sfp_seq i els bp lc seen :
  sfp (NSeq i els) bp lc seen = loop (seq_body bp lc) els 0 seen.
Proof. reflexivity. Qed.

Definition map_body (i : info) (bp : string) (lc : loc) :=
  fun (kv : node * node) (pos : nat) (seen : list string) =>
    let key := fst kv in
    let val := snd kv in
    let tmp := (map_prefix sp bp ++ escp sp (key_text key))%string in
    let lc' := (lc ++ [key_ref key])%list in
    do ka_s <- sanchor key seen (o_kalias o);
    do va_s <- sanchor val (snd ka_s) (o_valias o);
    let ka := fst ka_s in
    let va := fst va_s in
    let seen2 := snd va_s in
    if skip_merged mt o (oid i) pos || (negb (o_kalias o) && is_excl ka)
    then Ok ([], record_anchors val seen2)
    else
      do kres <-
        (if o_keys o then
           if is_hit ka then
             do hs <- report lit re_search mt tm sp o val tmp lc' HKeyAnchor seen2; Ok (Some hs)
           else
             do m <- term_matches lit re_search tm (node_hay key);
             if m then do hs <- report lit re_search mt tm sp o val tmp lc' HKey seen2; Ok (Some hs)
             else Ok None
         else Ok None);
      match kres with
      | Some hs => Ok hs
      | None => value_part lit re_search mt tm sp o rec va val tmp lc' seen2
      end.

Lemma sfp_map_eq i kvs bp lc seen :
  sfp (NMap i kvs) bp lc seen =
  (do body <- loop (map_body i bp lc) kvs 0 seen;
   do y <- ymk_hits lit re_search mt aa tm sp o (map_prefix sp bp) lc (oid i);
   Ok ((fst body ++ y)%list, snd body)).
Proof. reflexivity. Qed.

Lemma sfp_map i kvs bp lc seen r :
  sfp (NMap i kvs) bp lc seen = Ok r -> loop (map_body i bp lc) kvs 0 seen = Ok r.
Proof.
  rewrite sfp_map_eq. intros E.
  destruct (loop (map_body i bp lc) kvs 0 seen) as [bd| |] eqn:El; simpl in E; try discriminate.
  unfold ymk_hits in E. rewrite Ha, andb_false_r in E. simpl in E. rewrite app_nil_r in E.
  inversion E; subst. destruct bd; reflexivity.
Qed.

Definition set_body (bp : string) (lc : loc) :=
  fun (key : node) (_ : nat) (seen : list string) =>
    let tmp := (map_prefix sp bp ++ escp sp (key_text key))%string in
    let lc' := (lc ++ [member_ref key])%list in
    do ka_s <- sanchor key seen (o_kalias o);
    let ka := fst ka_s in
    if negb (o_kalias o) && is_excl ka then Ok ([], snd ka_s)
    else if is_hit ka then Ok ([mkhit tmp lc' HMemberAnchor], snd ka_s)
    else
      do m <- term_matches lit re_search tm (node_hay key);
      Ok (if m then [mkhit tmp lc' HMember] else [], snd ka_s).

Lemma sfp_set i els bp lc seen :
  sfp (NSet i els) bp lc seen = loop (set_body bp lc) els 0 seen.
Proof. reflexivity. Qed.

(* what a mapping entry does *)
Lemma map_body_cases i bp lc kv pos seen r :
  map_body i bp lc kv pos seen = Ok r ->
  exists ka s1 va s2,
    sanchor (fst kv) seen (o_kalias o) = Ok (ka, s1) /\ sanchor (snd kv) s1 (o_valias o) = Ok (va, s2) /\
    quiet ka /\ quiet va /\
    ((* a merged-in entry the options hide: classified, then walked by record_anchors *)
     (skip_merged mt o (oid i) pos = true /\ r = ([], record_anchors (snd kv) s2))
     \/ (skip_merged mt o (oid i) pos = false /\
        let tmp := (map_prefix sp bp ++ escp sp (key_text (fst kv)))%string in
        let lc' := (lc ++ [key_ref (fst kv)])%list in
        ((negb (o_kalias o) && is_excl ka = true /\ r = ([], record_anchors (snd kv) s2))
         \/ (negb (o_kalias o) && is_excl ka = false /\ o_keys o = true /\ satb (fst kv) = true /\
             r = ([mkhit tmp lc' HKey], record_anchors (snd kv) s2))
         \/ (negb (o_kalias o) && is_excl ka = false /\ (o_keys o = false \/ satb (fst kv) = false) /\
             value_part lit re_search mt tm sp o rec va (snd kv) tmp lc' s2 = Ok r)))).
Proof.
  intros E. unfold map_body in E.
  destruct (classify_alias (fst kv) seen (o_kalias o)) as [ka [s1 [Ek [Qk [Hk _]]]]].
  rewrite Ek in E. simpl in E.
  destruct (classify_alias (snd kv) s1 (o_valias o)) as [va [s2 [Ev [Qv [Hv _]]]]].
  rewrite Ev in E. simpl in E.
  exists ka, s1, va, s2. split; auto. split; auto. split; auto. split; auto.
  destruct (skip_merged mt o (oid i) pos).
  - left. inversion E; auto.
  - right. split; auto. simpl in E |- *.
    destruct (negb (o_kalias o) && is_excl ka).
    + left. inversion E; auto.
    + right. destruct (o_keys o).
      * rewrite Hk in E.
        destruct (term_matches lit re_search tm (node_hay (fst kv))) as [[|]| |] eqn:Em; simpl in E; try discriminate.
        -- left. unfold report in E. rewrite Hnx in E. simpl in E. inversion E; subst.
           rewrite (satb_true _ _ _ _ Em). auto.
        -- right. rewrite (satb_false _ _ _ _ Em). auto.
      * right. simpl in E. auto.
Qed.

(* what a set member does *)
Lemma set_body_cases bp lc m j seen r :
  set_body bp lc m j seen = Ok r ->
  exists ka s1, sanchor m seen (o_kalias o) = Ok (ka, s1) /\ snd r = s1 /\
    ((negb (o_kalias o) && is_excl ka = true /\ fst r = [])
     \/ (negb (o_kalias o) && is_excl ka = false /\ satb m = true /\
         fst r = [mkhit (map_prefix sp bp ++ escp sp (key_text m))%string (lc ++ [member_ref m])%list HMember])
     \/ (negb (o_kalias o) && is_excl ka = false /\ satb m = false /\ fst r = [])).
Proof.
  intros E. unfold set_body in E.
  destruct (classify_alias m seen (o_kalias o)) as [ka [s1 [Ek [Qk [Hk _]]]]].
  rewrite Ek in E. simpl in E. exists ka, s1. split; auto.
  destruct (negb (o_kalias o) && is_excl ka).
  - inversion E; subst; simpl. auto.
  - rewrite Hk in E.
    destruct (term_matches lit re_search tm (node_hay m)) as [[|]| |] eqn:Em; simpl in E; try discriminate;
      inversion E; subst; simpl; split; auto.
    + right. left. rewrite (satb_true _ _ _ _ Em). auto.
    + right. right. rewrite (satb_false _ _ _ _ Em). auto.
Qed.

Lemma seq_body_cases bp lc e idx seen r :
  seq_body bp lc e idx seen = Ok r ->
  exists am s1, sanchor e seen (o_valias o) = Ok (am, s1) /\ quiet am /\
                value_part lit re_search mt tm sp o rec am e (elem_path sp (seq_prefix sp bp) am idx e)
                           (lc ++ [RIdx idx])%list s1 = Ok r.
Proof.
  intros E. unfold seq_body in E.
  destruct (classify_alias e seen (o_valias o)) as [am [s1 [Ea [Q _]]]].
  rewrite Ea in E. simpl in E. exists am, s1. auto.
Qed.

(* the lone-scalar branch leaves seen_anchors alone *)
Lemma scalar_root_seen n bp lc seen r :
  scalar_root lit re_search tm sp o n bp lc seen = Ok r -> snd r = seen.
Proof.
  unfold scalar_root. destruct (negb (is_none_leaf n) && o_values o).
  - destruct (term_matches lit re_search tm (node_hay n)) as [m| |]; simpl; intros E; inversion E; reflexivity.
  - intros E; inversion E; reflexivity.
Qed.

(* ---- Part 1: agree is preserved (no guard) ---- *)
Definition agree_after (v : node) : Prop :=
  forall pre bp lc seen r, agree pre seen -> sfp v bp lc seen = Ok r -> agree (pre ++ anc_occs v) (snd r).

Lemma value_part_agree am v tmp lc' pre1 s1 r :
  quiet am -> agree pre1 s1 -> agree_after v ->
  value_part lit re_search mt tm sp o rec am v tmp lc' s1 = Ok r ->
  agree (pre1 ++ anc_occs v) (snd r).
Proof.
  intros Q Hag IH E.
  destruct (value_part_cases _ _ _ _ _ _ Q E) as [[_ ->]|[[_ [_ E']]|[_ [_ [-> _]]]]]; simpl.
  - apply agree_app; auto.
  - eapply IH; eauto.
  - apply agree_app; auto.
Qed.

Lemma firstn_length_all {A} (l : list A) : firstn (List.length l) l = l.
Proof. apply firstn_all. Qed.

Theorem sfp_agree n : agree_after n.
Proof.
  induction n as [i v|i kvs IH|i els IH|i els IH] using node_ind'; intros pre bp lc seen r Hag E.
  - simpl in E. rewrite (scalar_root_seen _ _ _ _ _ E). simpl. rewrite app_nil_r. auto.
  - (* mapping *)
    apply sfp_map in E.
    destruct (loop_inv (map_body i bp lc) kvs
                (fun j s => agree (pre ++ flat_map entry_occs (firstn j kvs)) s) 0 seen r) as [I _]; auto.
    + intros j kv s rj Hn Hi Eb. simpl in Eb.
      rewrite (flat_map_firstn_S _ _ _ _ Hn), app_assoc.
      set (pj := (pre ++ flat_map entry_occs (firstn j kvs))%list) in *.
      destruct (map_body_cases _ _ _ _ _ _ _ Eb) as [ka [s1 [va [s2 [Ek [Ev [Qk [Qv C]]]]]]]].
      destruct (classify_alias (fst kv) s (o_kalias o)) as [ka' [s1' [Ek' [_ [_ [_ [Ak _]]]]]]].
      rewrite Ek in Ek'. inversion Ek'; subst ka' s1'.
      destruct (classify_alias (snd kv) s1 (o_valias o)) as [va' [s2' [Ev' [_ [_ [_ [Av _]]]]]]].
      rewrite Ev in Ev'. inversion Ev'; subst va' s2'.
      pose proof (Av _ (Ak _ Hi)) as H2.
      unfold entry_occs. rewrite !app_assoc.
      destruct C as [[_ ->]|[_ [[_ ->]|[[_ [_ [_ ->]]]|[_ [_ Evp]]]]]]; simpl.
      * apply record_agree; auto.
      * apply record_agree; auto.
      * apply record_agree; auto.
      * rewrite Forall_forall in IH. destruct (IH _ (nth_error_In _ _ Hn)) as [_ IHv].
        eapply value_part_agree; eauto.
    + simpl. rewrite app_nil_r. auto.
    + rewrite firstn_length_all in I. exact I.
  - (* sequence *)
    rewrite sfp_seq in E.
    destruct (loop_inv (seq_body bp lc) els
                (fun j s => agree (pre ++ flat_map elem_occs (firstn j els)) s) 0 seen r) as [I _]; auto.
    + intros j e s rj Hn Hi Eb. simpl in Eb.
      rewrite (flat_map_firstn_S _ _ _ _ Hn), app_assoc.
      destruct (seq_body_cases _ _ _ _ _ _ Eb) as [am [s1 [Ea [Q Evp]]]].
      destruct (classify_alias e s (o_valias o)) as [am' [s1' [Ea' [_ [_ [_ [Ae _]]]]]]].
      rewrite Ea in Ea'. inversion Ea'; subst am' s1'.
      unfold elem_occs. rewrite app_assoc.
      rewrite Forall_forall in IH.
      eapply value_part_agree; eauto. apply IH. eapply nth_error_In; eauto.
    + simpl. rewrite app_nil_r. auto.
    + rewrite firstn_length_all in I. exact I.
  - (* set *)
    rewrite sfp_set in E.
    destruct (loop_inv (set_body bp lc) els
                (fun j s => agree (pre ++ flat_map self_occ (firstn j els)) s) 0 seen r) as [I _]; auto.
    + intros j m s rj Hn Hi Eb.
      rewrite (flat_map_firstn_S _ _ _ _ Hn), app_assoc.
      destruct (set_body_cases _ _ _ _ _ _ Eb) as [ka [s1 [Ek [-> _]]]].
      destruct (classify_alias m s (o_kalias o)) as [ka' [s1' [Ek' [_ [_ [_ [Ak _]]]]]]].
      rewrite Ek in Ek'. inversion Ek'; subst ka' s1'. auto.
    + simpl. rewrite app_nil_r. auto.
    + rewrite firstn_length_all in I. exact I.
Qed.

(* one step of each loop preserves agree *)
Lemma value_part_agree' am v tmp lc' pre1 s1 r :
  quiet am -> agree pre1 s1 ->
  value_part lit re_search mt tm sp o rec am v tmp lc' s1 = Ok r -> agree (pre1 ++ anc_occs v) (snd r).
Proof. intros. eapply value_part_agree; eauto. apply sfp_agree. Qed.

Lemma seq_step_agree pre bp lc els j e s rj :
  nth_error els j = Some e -> agree (pre ++ flat_map elem_occs (firstn j els)) s ->
  seq_body bp lc e (0 + j) s = Ok rj -> agree (pre ++ flat_map elem_occs (firstn (S j) els)) (snd rj).
Proof.
  intros Hn Hi Eb. rewrite (flat_map_firstn_S _ _ _ _ Hn), app_assoc.
  destruct (seq_body_cases _ _ _ _ _ _ Eb) as [am [s1 [Ea [Q Evp]]]].
  destruct (classify_alias e s (o_valias o)) as [am' [s1' [Ea' [_ [_ [_ [Ae _]]]]]]].
  rewrite Ea in Ea'. inversion Ea'; subst am' s1'.
  unfold elem_occs. rewrite app_assoc. eapply value_part_agree'; eauto.
Qed.

Lemma map_step_agree i pre bp lc kvs j kv s rj :
  nth_error kvs j = Some kv -> agree (pre ++ flat_map entry_occs (firstn j kvs)) s ->
  map_body i bp lc kv (0 + j) s = Ok rj -> agree (pre ++ flat_map entry_occs (firstn (S j) kvs)) (snd rj).
Proof.
  intros Hn Hi Eb. rewrite (flat_map_firstn_S _ _ _ _ Hn), app_assoc.
  destruct (map_body_cases _ _ _ _ _ _ _ Eb) as [ka [s1 [va [s2 [Ek [Ev [Qk [Qv C]]]]]]]].
  destruct (classify_alias (fst kv) s (o_kalias o)) as [ka' [s1' [Ek' [_ [_ [_ [Ak _]]]]]]].
  rewrite Ek in Ek'. inversion Ek'; subst ka' s1'.
  destruct (classify_alias (snd kv) s1 (o_valias o)) as [va' [s2' [Ev' [_ [_ [_ [Av _]]]]]]].
  rewrite Ev in Ev'. inversion Ev'; subst va' s2'.
  pose proof (Av _ (Ak _ Hi)) as H2.
  unfold entry_occs. rewrite !app_assoc.
  destruct C as [[_ ->]|[_ [[_ ->]|[[_ [_ [_ ->]]]|[_ [_ Evp]]]]]]; simpl.
  - apply record_agree; auto.
  - apply record_agree; auto.
  - apply record_agree; auto.
  - eapply value_part_agree'; eauto.
Qed.

Lemma set_step_agree pre bp lc els j m s rj :
  nth_error els j = Some m -> agree (pre ++ flat_map self_occ (firstn j els)) s ->
  set_body bp lc m (0 + j) s = Ok rj -> agree (pre ++ flat_map self_occ (firstn (S j) els)) (snd rj).
Proof.
  intros Hn Hi Eb. rewrite (flat_map_firstn_S _ _ _ _ Hn), app_assoc.
  destruct (set_body_cases _ _ _ _ _ _ Eb) as [ka [s1 [Ek [-> _]]]].
  destruct (classify_alias m s (o_kalias o)) as [ka' [s1' [Ek' [_ [_ [_ [Ak _]]]]]]].
  rewrite Ek in Ek'. inversion Ek'; subst ka' s1'. auto.
Qed.

(* the state in which the item at position j is processed *)
Lemma seq_at pre bp lc els seen r j e :
  agree pre seen -> loop (seq_body bp lc) els 0 seen = Ok r -> nth_error els j = Some e ->
  exists s rj, agree (pre ++ flat_map elem_occs (firstn j els)) s /\
               seq_body bp lc e j s = Ok rj /\ incl (fst rj) (fst r).
Proof.
  intros Hag E Hn.
  destruct (loop_inv (seq_body bp lc) els
              (fun j s => agree (pre ++ flat_map elem_occs (firstn j els)) s) 0 seen r) as [_ [I _]]; auto.
  - intros; eapply seq_step_agree; eauto.
  - simpl. rewrite app_nil_r. auto.
  - apply (I j e Hn).
Qed.

Lemma map_at i pre bp lc kvs seen r j kv :
  agree pre seen -> loop (map_body i bp lc) kvs 0 seen = Ok r -> nth_error kvs j = Some kv ->
  exists s rj, agree (pre ++ flat_map entry_occs (firstn j kvs)) s /\
               map_body i bp lc kv j s = Ok rj /\ incl (fst rj) (fst r).
Proof.
  intros Hag E Hn.
  destruct (loop_inv (map_body i bp lc) kvs
              (fun j s => agree (pre ++ flat_map entry_occs (firstn j kvs)) s) 0 seen r) as [_ [I _]]; auto.
  - intros; eapply map_step_agree; eauto.
  - simpl. rewrite app_nil_r. auto.
  - apply (I j kv Hn).
Qed.

Lemma set_at pre bp lc els seen r j m :
  agree pre seen -> loop (set_body bp lc) els 0 seen = Ok r -> nth_error els j = Some m ->
  exists s rj, agree (pre ++ flat_map self_occ (firstn j els)) s /\
               set_body bp lc m j s = Ok rj /\ incl (fst rj) (fst r).
Proof.
  intros Hag E Hn.
  destruct (loop_inv (set_body bp lc) els
              (fun j s => agree (pre ++ flat_map self_occ (firstn j els)) s) 0 seen r) as [_ [I _]]; auto.
  - intros; eapply set_step_agree; eauto.
  - simpl. rewrite app_nil_r. auto.
  - apply (I j m Hn).
Qed.

(* ---- Part 2: every visible satisfying place is reported (or lies beneath a reported key) ---- *)
Definition covered_by (r : res) (lc : loc) (l : loc) (k : hkind) : Prop :=
  exists h p, In h (fst r) /\ h_loc h = (lc ++ p)%list /\ prefix p l /\
              ((p = l /\ h_kind h = k) \/ (h_kind h = HKey /\ o_keys o = true)).

Definition vlocal (pre : list node) (tgt : node) (r0 : ref) (k : hkind) : Prop :=
  match k with
  | HValue => o_values o = true /\ exists s, vplace_val mt o pre tgt r0 s /\ is_leaf s = true /\ satb s = true
  | HKey => o_keys o = true /\ exists kn, vplace_key mt o pre tgt r0 kn /\ satb kn = true
  | HMember => exists m, vplace_member o pre tgt r0 m /\ satb m = true
  | _ => False
  end.

Lemma covered_incl rj r lc l k : incl (fst rj) (fst r) -> covered_by rj lc l k -> covered_by r lc l k.
Proof. intros Hi [h [p [H1 H2]]]. exists h, p. split; auto. Qed.

Lemma covered_lift_step rj lc r0 l k :
  covered_by rj (lc ++ [r0])%list l k -> covered_by rj lc (r0 :: l) k.
Proof.
  intros [h [p [H1 [H2 [[s0 H3] H4]]]]]. exists h, (r0 :: p). split; auto.
  split; [rewrite H2, <- app_assoc; reflexivity|].
  split; [exists s0; rewrite H3; reflexivity|].
  destruct H4 as [[-> Hk]|H4]; [left; auto|right; auto].
Qed.

Lemma skip_merged_hidden i pos : ~ merged_hidden mt o (oid i) pos -> skip_merged mt o (oid i) pos = false.
Proof.
  unfold merged_hidden, skip_merged. intros H.
  destruct (is_merged mt (oid i) pos); auto. destruct (o_kalias o); auto. destruct (o_valias o); auto.
  exfalso. apply H. auto.
Qed.

Lemma shown_not_excl b am pre x :
  (b = false -> is_repeat pre x = false) ->
  (is_excl am = true -> is_repeat pre x = true) ->
  negb b && is_excl am = false.
Proof.
  intros H1 H2. destruct b; auto. simpl. destruct (is_excl am); auto.
  rewrite H1 in H2; auto. discriminate H2. reflexivity.
Qed.

Lemma vreach_leaf pre i x l pre' m : vreach mt o pre (NLeaf i x) l pre' m -> l = [] /\ m = NLeaf i x.
Proof. intros H. inversion H; subst. auto. Qed.

Lemma vlocal_leaf pre i x r0 k : ~ vlocal pre (NLeaf i x) r0 k.
Proof.
  destruct k; simpl; try tauto.
  - intros [_ [kn [[i0 [kvs [pos [v [H _]]]]] _]]]. discriminate.
  - intros [_ [s0 [[[i0 [els [idx [H _]]]]|[i0 [kvs [pos [k0 [H _]]]]]] _]]]; discriminate.
  - intros [m [[i0 [els [j [H _]]]] _]]. discriminate.
Qed.

Section Complete.
Variable U : list node.
Hypothesis HU : names_consistent U = true.

Lemma cons_sub l : incl l U -> names_consistent l = true.
Proof. intros. eapply names_consistent_incl; eauto. Qed.

(* a shown value is not skipped by the shared value part *)
Lemma value_not_skipped pre1 v s am s1 :
  incl (pre1 ++ self_occ v) U -> agree pre1 s -> val_shown o pre1 v ->
  sanchor v s (o_valias o) = Ok (am, s1) ->
  is_unsearchable_alias am && negb (o_valias o) = false /\ agree (pre1 ++ self_occ v) s1.
Proof.
  intros Hi Hag Hs Ea.
  destruct (classify_alias v s (o_valias o)) as [am' [s1' [Ea' [_ [_ [Hx [Ag [_ [R _]]]]]]]]].
  rewrite Ea in Ea'. inversion Ea'; subst am' s1'. split; auto.
  rewrite <- Hx, andb_comm. eapply shown_not_excl; [exact Hs|]. intros He. apply R; auto. apply cons_sub; auto.
Qed.

Lemma key_not_skipped pre1 k s ka s1 :
  incl (pre1 ++ self_occ k) U -> agree pre1 s -> key_shown o pre1 k ->
  sanchor k s (o_kalias o) = Ok (ka, s1) ->
  negb (o_kalias o) && is_excl ka = false /\ agree (pre1 ++ self_occ k) s1.
Proof.
  intros Hi Hag Hs Ea.
  destruct (classify_alias k s (o_kalias o)) as [am' [s1' [Ea' [_ [_ [Hx [Ag [_ [R _]]]]]]]]].
  rewrite Ea in Ea'. inversion Ea'; subst am' s1'. split; auto.
  eapply shown_not_excl; [exact Hs|]. intros He. apply R; auto. apply cons_sub; auto.
Qed.

Lemma In_firstn {A} (l : list A) k a : In a (firstn k l) -> In a l.
Proof. intros H. rewrite <- (firstn_skipn k l). apply in_or_app. auto. Qed.

Lemma flat_map_nth_incl {A B} (f : A -> list B) (l : list A) j x :
  nth_error l j = Some x -> incl (flat_map f (firstn j l) ++ f x) (flat_map f l).
Proof.
  intros Hn y Hy. rewrite <- (flat_map_firstn_S _ _ _ _ Hn) in Hy.
  apply in_flat_map in Hy. destruct Hy as [a [Ha1 Ha2]]. apply in_flat_map. exists a. split; auto.
  eapply In_firstn; eauto.
Qed.

Lemma incl_child {A} (f : A -> list node) pre (l : list A) j x :
  incl (pre ++ flat_map f l) U -> nth_error l j = Some x ->
  incl ((pre ++ flat_map f (firstn j l)) ++ f x) U.
Proof.
  intros Hi Hn y Hy. apply Hi. rewrite <- app_assoc in Hy. apply in_app_iff in Hy. apply in_or_app.
  destruct Hy as [Hy|Hy]; auto. right. eapply flat_map_nth_incl; eauto.
Qed.

Lemma incl_app_l' {A} (a b : list A) u : incl (a ++ b) u -> incl a u.
Proof. intros H y Hy. apply H. apply in_or_app; auto. Qed.

Theorem vreach_complete : forall pre n l pre' tgt, vreach mt o pre n l pre' tgt ->
  forall r0 k, vlocal pre' tgt r0 k ->
  forall bp lc seen r, incl (pre ++ anc_occs n) U ->
    agree pre seen -> sfp n bp lc seen = Ok r -> covered_by r lc (l ++ [r0])%list k.
Proof.
  induction 1 as [pre n|pre i els idx e l pre' m Hn Hs R IH|pre i kvs pos k0 v l pre' m Hn Hm Hks Hvs R IH];
    intros r0 k L bp lc seen r Hi Hag E.
  - (* the place is a child of n itself *)
    simpl. destruct k; simpl in L; try contradiction.
    + (* key *)
      destruct L as [Hk [kn [[i [kvs [pos [v [-> [-> [Hn [Hm Hks]]]]]]]] Hsat]]].
      apply sfp_map in E. destruct (map_at _ _ _ _ _ _ _ _ _ Hag E Hn) as [s [rj [Hagj [Eb Hinc]]]].
      eapply covered_incl; eauto. simpl in Hi.
      pose proof (incl_child entry_occs _ _ _ _ Hi Hn) as Hic. unfold entry_occs in Hic. simpl in Hic.
      rewrite !app_assoc in Hic.
      destruct (map_body_cases _ _ _ _ _ _ _ Eb) as [ka [s1 [va [s2 [Ek [Ev [Qk [Qv [[Sk _]|[_ C]]]]]]]]]].
      { rewrite (skip_merged_hidden _ _ Hm) in Sk. discriminate. }
      simpl in Ek, Ev, C.
      destruct (key_not_skipped _ _ _ _ _ (incl_app_l' _ _ _ (incl_app_l' _ _ _ Hic)) Hagj Hks Ek) as [Nk _].
      rewrite Nk in C. destruct C as [[C _]|[[_ [_ [_ ->]]]|[_ [[C|C] _]]]]; try congruence.
      exists (mkhit (map_prefix sp bp ++ escp sp (key_text kn))%string (lc ++ [key_ref kn])%list HKey), [key_ref kn].
      simpl. split; auto. split; auto. split; [exists []; reflexivity|]. left; auto.
    + (* value *)
      destruct L as [Hv [s0 [[[i [els [idx [-> [-> [Hn Hs]]]]]]|[i [kvs [pos [k0 [-> [-> [Hn [Hm [Hks Hvs]]]]]]]]]] [Hleaf Hsat]]]].
      * rewrite sfp_seq in E. destruct (seq_at _ _ _ _ _ _ _ _ Hag E Hn) as [s [rj [Hagj [Eb Hinc]]]].
        eapply covered_incl; eauto. simpl in Hi.
        pose proof (incl_child elem_occs _ _ _ _ Hi Hn) as Hic. unfold elem_occs in Hic. rewrite app_assoc in Hic.
        destruct (seq_body_cases _ _ _ _ _ _ Eb) as [am [s1 [Ea [Q Evp]]]].
        destruct (value_not_skipped _ _ _ _ _ (incl_app_l' _ _ _ Hic) Hagj Hs Ea) as [Ns _].
        destruct (value_part_cases _ _ _ _ _ _ Q Evp) as [[C _]|[[_ [C _]]|[_ [_ [_ [[_ [_ F]]|[[C|C] _]]]]]]]; try congruence.
        { destruct s0; simpl in *; discriminate. }
        exists (mkhit (elem_path sp (seq_prefix sp bp) am idx s0) (lc ++ [RIdx idx])%list HValue), [RIdx idx].
        rewrite F. simpl. split; auto. split; auto. split; [exists []; reflexivity|]. left; auto.
      * apply sfp_map in E. destruct (map_at _ _ _ _ _ _ _ _ _ Hag E Hn) as [s [rj [Hagj [Eb Hinc]]]].
        eapply covered_incl; eauto. simpl in Hi.
        pose proof (incl_child entry_occs _ _ _ _ Hi Hn) as Hic. unfold entry_occs in Hic. simpl in Hic.
        rewrite !app_assoc in Hic.
        destruct (map_body_cases _ _ _ _ _ _ _ Eb) as [ka [s1 [va [s2 [Ek [Ev [Qk [Qv [[Sk _]|[_ C]]]]]]]]]].
        { rewrite (skip_merged_hidden _ _ Hm) in Sk. discriminate. }
        simpl in Ek, Ev, C.
        destruct (key_not_skipped _ _ _ _ _ (incl_app_l' _ _ _ (incl_app_l' _ _ _ Hic)) Hagj Hks Ek) as [Nk Agk].
        rewrite Nk in C. destruct C as [[C _]|[[_ [Hk [Hsk ->]]]|[_ [_ Evp]]]]; try congruence.
        { (* the key matched as well: its report stands at the same location *)
          exists (mkhit (map_prefix sp bp ++ escp sp (key_text k0))%string (lc ++ [key_ref k0])%list HKey), [key_ref k0].
          simpl. split; auto. split; auto. split; [exists []; reflexivity|]. right; auto. }
        destruct (value_not_skipped _ _ _ _ _ (incl_app_l' _ _ _ Hic) Agk Hvs Ev) as [Ns _].
        destruct (value_part_cases _ _ _ _ _ _ Qv Evp) as [[C _]|[[_ [C _]]|[_ [_ [_ [[_ [_ F]]|[[C|C] _]]]]]]]; try congruence.
        { destruct s0; simpl in *; discriminate. }
        exists (mkhit (map_prefix sp bp ++ escp sp (key_text k0))%string (lc ++ [key_ref k0])%list HValue), [key_ref k0].
        rewrite F. simpl. split; auto. split; auto. split; [exists []; reflexivity|]. left; auto.
    + (* set member *)
      destruct L as [m [[i [els [j [-> [-> [Hn Hks]]]]]] Hsat]].
      rewrite sfp_set in E. destruct (set_at _ _ _ _ _ _ _ _ Hag E Hn) as [s [rj [Hagj [Eb Hinc]]]].
      eapply covered_incl; eauto. simpl in Hi.
      pose proof (incl_child self_occ _ _ _ _ Hi Hn) as Hic.
      destruct (set_body_cases _ _ _ _ _ _ Eb) as [ka [s1 [Ek [_ C]]]].
      destruct (key_not_skipped _ _ _ _ _ Hic Hagj Hks Ek) as [Nk _].
      rewrite Nk in C. destruct C as [[C _]|[[_ [_ F]]|[_ [C _]]]]; try congruence.
      exists (mkhit (map_prefix sp bp ++ escp sp (key_text m))%string (lc ++ [member_ref m])%list HMember), [member_ref m].
      rewrite F. simpl. split; auto. split; auto. split; [exists []; reflexivity|]. left; auto.
  - (* through a sequence element *)
    rewrite sfp_seq in E. destruct (seq_at _ _ _ _ _ _ _ _ Hag E Hn) as [s [rj [Hagj [Eb Hinc]]]].
    eapply covered_incl; eauto. simpl in Hi. simpl.
    pose proof (incl_child elem_occs _ _ _ _ Hi Hn) as Hic. unfold elem_occs in Hic. rewrite app_assoc in Hic.
    destruct (seq_body_cases _ _ _ _ _ _ Eb) as [am [s1 [Ea [Q Evp]]]].
    destruct (value_not_skipped _ _ _ _ _ (incl_app_l' _ _ _ Hic) Hagj Hs Ea) as [Ns Ag1].
    apply covered_lift_step.
    destruct (value_part_cases _ _ _ _ _ _ Q Evp) as [[C _]|[[_ [_ E']]|[_ [C _]]]]; try congruence.
    + eapply IH; eauto.
    + destruct (not_container_leaf _ C) as [i0 [x ->]]. destruct (vreach_leaf _ _ _ _ _ _ R) as [-> ->].
      exfalso. eapply vlocal_leaf; eauto.
  - (* through a mapping entry *)
    apply sfp_map in E. destruct (map_at _ _ _ _ _ _ _ _ _ Hag E Hn) as [s [rj [Hagj [Eb Hinc]]]].
    eapply covered_incl; eauto. simpl in Hi. simpl.
    pose proof (incl_child entry_occs _ _ _ _ Hi Hn) as Hic. unfold entry_occs in Hic. simpl in Hic.
    rewrite !app_assoc in Hic.
    destruct (map_body_cases _ _ _ _ _ _ _ Eb) as [ka [s1 [va [s2 [Ek [Ev [Qk [Qv [[Sk _]|[_ C]]]]]]]]]].
    { rewrite (skip_merged_hidden _ _ Hm) in Sk. discriminate. }
    simpl in Ek, Ev, C.
    destruct (key_not_skipped _ _ _ _ _ (incl_app_l' _ _ _ (incl_app_l' _ _ _ Hic)) Hagj Hks Ek) as [Nk Agk].
    rewrite Nk in C. destruct C as [[C _]|[[_ [Hk [Hsk ->]]]|[_ [_ Evp]]]]; try congruence.
    { exists (mkhit (map_prefix sp bp ++ escp sp (key_text k0))%string (lc ++ [key_ref k0])%list HKey), [key_ref k0].
      simpl. split; auto. split; auto. split; [exists (l ++ [r0])%list; reflexivity|]. right; auto. }
    destruct (value_not_skipped _ _ _ _ _ (incl_app_l' _ _ _ Hic) Agk Hvs Ev) as [Ns Ag2].
    apply covered_lift_step.
    destruct (value_part_cases _ _ _ _ _ _ Qv Evp) as [[C _]|[[_ [_ E']]|[_ [C _]]]]; try congruence.
    + eapply IH; eauto.
    + destruct (not_container_leaf _ C) as [i0 [x ->]]. destruct (vreach_leaf _ _ _ _ _ _ R) as [-> ->].
      exfalso. eapply vlocal_leaf; eauto.
Qed.

End Complete.

(* ---- Part 3: exclusion -- every report is a visible place ---- *)
Lemma all_at_spec {A} (f : A -> list node) (chk : list node -> nat -> A -> bool) (l : list A) :
  forall pos pre, all_at f chk l pos pre = true ->
  forall j x, nth_error l j = Some x -> chk (pre ++ flat_map f (firstn j l))%list (pos + j) x = true.
Proof.
  induction l as [|a l IH]; intros pos pre H j x Hn; [destruct j; discriminate|].
  simpl in H. apply andb_true_iff in H. destruct H as [H1 H2]. destruct j as [|j]; simpl in Hn.
  - inversion Hn; subst. simpl. rewrite app_nil_r, Nat.add_0_r. auto.
  - simpl. rewrite app_assoc. replace (pos + S j) with (S pos + j) by lia. apply IH; auto.
Qed.

Lemma satb_satisfiesb x : satb x = satisfiesb lit re_search tm x.
Proof. reflexivity. Qed.

Section Exclude.
Variable U : list node.
Hypothesis HU : names_consistent U = true.

Lemma covers_all_rep pre l seen :
  incl (pre ++ l) U -> covers pre seen -> all_rep pre l = true -> covers (pre ++ l) seen.
Proof.
  intros Hi Hc Hr y a Hy Ey. apply in_app_iff in Hy. destruct Hy as [Hy|Hy]; [eauto|].
  unfold all_rep in Hr. rewrite forallb_forall in Hr. specialize (Hr y Hy).
  apply same_oid_in_iff in Hr. destruct Hr as [y' [Hy' Eo]].
  assert (P := consistent_pair _ y' y HU (Hi _ (in_or_app _ _ _ (or_introl Hy'))) (Hi _ (in_or_app _ _ _ (or_intror Hy)))).
  rewrite Eo, N.eqb_refl in P. unfold anchor_name_eqb in P. rewrite Ey in P.
  destruct (get_node_anchor y') as [b0|] eqn:Ey'; [|discriminate].
  apply String.eqb_eq in P. subst b0. eauto.
Qed.

Definition hits_visible (pre : list node) (n : node) (lc : loc) (hs : list hit) : Prop :=
  forall h, In h hs -> exists l0 r0 pre' tgt,
      h_loc h = (lc ++ l0 ++ [r0])%list /\ vreach mt o pre n l0 pre' tgt /\ vlocal pre' tgt r0 (h_kind h).

Definition vis_after (v : node) : Prop :=
  forall pre bp lc seen r,
    is_container v = true ->
    incl (pre ++ anc_occs v) U -> agree pre seen -> covers pre seen -> shared_closed mt o v pre = true ->
    sfp v bp lc seen = Ok r ->
    covers (pre ++ anc_occs v) (snd r) /\ hits_visible pre v lc (fst r).

(* both directions of the classification, for a node preceded by pre1 *)
Lemma classify_sync x s b am s1 pre1 :
  incl (pre1 ++ self_occ x) U -> agree pre1 s -> covers pre1 s ->
  sanchor x s b = Ok (am, s1) ->
  agree (pre1 ++ self_occ x) s1 /\ covers (pre1 ++ self_occ x) s1 /\ is_excl am = is_repeat pre1 x /\
  is_unsearchable_alias am = is_repeat pre1 x.
Proof.
  intros Hi Hag Hc E.
  destruct (classify_alias x s b) as [am' [s1' [E' [_ [_ [Hx [Ag [Cv [R1 R2]]]]]]]]].
  rewrite E in E'. inversion E'; subst am' s1'.
  assert (Hcs : names_consistent (pre1 ++ self_occ x) = true) by (eapply names_consistent_incl; eauto).
  split; auto. split; auto.
  assert (Q : is_excl am = is_repeat pre1 x).
  { destruct (is_excl am) eqn:E1.
    - symmetry. apply R1; auto.
    - destruct (is_repeat pre1 x) eqn:E2; auto. exfalso. specialize (R2 pre1 Hc Hcs E2). discriminate. }
  split; auto. rewrite <- Hx. auto.
Qed.

Lemma value_part_vis am v tmp lc' pre1 s s1 r :
  incl ((pre1 ++ self_occ v) ++ anc_occs v) U -> agree pre1 s -> covers pre1 s ->
  sanchor v s (o_valias o) = Ok (am, s1) -> quiet am ->
  (if negb (o_valias o) && is_repeat pre1 v then all_rep (pre1 ++ self_occ v) (anc_occs v)
   else shared_closed mt o v (pre1 ++ self_occ v)%list) = true ->
  vis_after v ->
  value_part lit re_search mt tm sp o rec am v tmp lc' s1 = Ok r ->
  covers ((pre1 ++ self_occ v) ++ anc_occs v) (snd r) /\
  forall h, In h (fst r) ->
    val_shown o pre1 v /\
    ((is_leaf v = true /\ o_values o = true /\ satb v = true /\ h = mkhit tmp lc' HValue)
     \/ (exists l0 r0 pre' tgt, h_loc h = (lc' ++ l0 ++ [r0])%list /\
                                vreach mt o (pre1 ++ self_occ v)%list v l0 pre' tgt /\ vlocal pre' tgt r0 (h_kind h))).
Proof.
  intros Hi Hag Hc Ea Q G IH E.
  destruct (classify_sync _ _ _ _ _ _ (incl_app_l' _ _ _ Hi) Hag Hc Ea) as [Ag1 [Cv1 [_ Hr]]].
  assert (Hshown : is_unsearchable_alias am && negb (o_valias o) = false -> val_shown o pre1 v).
  { intros Hns Hv. rewrite Hv in Hns. simpl in Hns. rewrite andb_true_r in Hns. congruence. }
  destruct (value_part_cases _ _ _ _ _ _ Q E) as [[Hs ->]|[[Hns [Hcont E']]|[Hns [Hcont [-> F]]]]]; simpl.
  - split; [|intros h []]. rewrite Hr, andb_comm in Hs. rewrite Hs in G. eapply covers_all_rep; eauto.
  - rewrite Hr, andb_comm in Hns. rewrite Hns in G.
    destruct (IH _ _ _ _ _ Hcont Hi Ag1 Cv1 G E') as [Cv2 Hv]. split; auto.
    intros h Hin. split; [apply Hshown; rewrite Hr, andb_comm; auto|]. right. apply Hv; auto.
  - destruct (not_container_leaf _ Hcont) as [i0 [x ->]]. simpl. rewrite app_nil_r. split; auto.
    intros h Hin. split; [apply Hshown; auto|]. left.
    destruct F as [[Hv [Hs F]]|[_ F]]; rewrite F in Hin; [|contradiction].
    destruct Hin as [<-|[]]. auto.
Qed.

Lemma seq_step_vis pre bp lc i els j e s rj :
  incl (pre ++ anc_occs (NSeq i els)) U -> shared_closed mt o (NSeq i els) pre = true ->
  nth_error els j = Some e -> vis_after e ->
  agree (pre ++ flat_map elem_occs (firstn j els)) s -> covers (pre ++ flat_map elem_occs (firstn j els)) s ->
  seq_body bp lc e j s = Ok rj ->
  covers (pre ++ flat_map elem_occs (firstn (S j) els)) (snd rj) /\ hits_visible pre (NSeq i els) lc (fst rj).
Proof.
  intros Hi G Hn IH Hag Hc Eb. simpl in Hi, G.
  pose proof (all_at_spec _ _ _ _ _ G j e Hn) as Gj. simpl in Gj.
  pose proof (incl_child U elem_occs _ _ _ _ Hi Hn) as Hic. unfold elem_occs in Hic. rewrite app_assoc in Hic.
  destruct (seq_body_cases _ _ _ _ _ _ Eb) as [am [s1 [Ea [Q Evp]]]].
  destruct (value_part_vis _ _ _ _ _ _ _ _ Hic Hag Hc Ea Q Gj IH Evp) as [Cv Hv].
  split.
  - rewrite (flat_map_firstn_S _ _ _ _ Hn). unfold elem_occs at 2. rewrite !app_assoc. exact Cv.
  - intros h Hin. destruct (Hv h Hin) as [Hs [[Hl [Hval [Hsat ->]]]|[l0 [r0 [pre' [tgt [El [R L]]]]]]]].
    + exists [], (RIdx j), pre, (NSeq i els). simpl. split; auto. split; [constructor|].
      split; auto. exists e. split; auto. left. exists i, els, j. auto.
    + exists (RIdx j :: l0), r0, pre', tgt. split; [rewrite El, <- app_assoc; reflexivity|]. split; auto.
      econstructor; eauto.
Qed.

Lemma skip_merged_false_not_hidden i pos : skip_merged mt o (oid i) pos = false -> ~ merged_hidden mt o (oid i) pos.
Proof. unfold skip_merged, merged_hidden. intros H [H1 [H2 H3]]. rewrite H1, H2, H3 in H. discriminate. Qed.

Lemma map_step_vis pre bp lc i kvs j kv s rj :
  incl (pre ++ anc_occs (NMap i kvs)) U -> shared_closed mt o (NMap i kvs) pre = true ->
  nth_error kvs j = Some kv -> vis_after (snd kv) ->
  agree (pre ++ flat_map entry_occs (firstn j kvs)) s -> covers (pre ++ flat_map entry_occs (firstn j kvs)) s ->
  map_body i bp lc kv j s = Ok rj ->
  covers (pre ++ flat_map entry_occs (firstn (S j) kvs)) (snd rj) /\ hits_visible pre (NMap i kvs) lc (fst rj).
Proof.
  intros Hi G Hn IH Hag Hc Eb. simpl in Hi, G.
  pose proof (all_at_spec _ _ _ _ _ G j kv Hn) as Gj. simpl in Gj.
  pose proof (incl_child U entry_occs _ _ _ _ Hi Hn) as Hic.
  rewrite (flat_map_firstn_S _ _ _ _ Hn), app_assoc.
  set (pj := (pre ++ flat_map entry_occs (firstn j kvs))%list) in *.
  destruct kv as [k v]. simpl in *.
  destruct (map_body_cases _ _ _ _ _ _ _ Eb) as [ka [s1 [va [s2 [Ek [Ev [Qk [Qv C]]]]]]]]; simpl in *.
  unfold entry_occs in Hic |- *. simpl in Hic |- *. rewrite !app_assoc in Hic. rewrite !app_assoc.
  destruct (classify_sync _ _ _ _ _ _ (incl_app_l' _ _ _ (incl_app_l' _ _ _ Hic)) Hag Hc Ek) as [Ag1 [Cv1 [Xk _]]].
  destruct (classify_sync _ _ _ _ _ _ (incl_app_l' _ _ _ Hic) Ag1 Cv1 Ev) as [Ag2 [Cv2 [Xv _]]].
  destruct C as [[Sk ->]|[Sk C]]; simpl.
  - (* a merged-in entry the options hide: record_anchors walked the value *)
    split; [|intros h []]. apply record_covers; auto.
  - rewrite Sk in Gj.
    assert (Hks : negb (o_kalias o) && is_excl ka = false -> key_shown o pj k).
    { intros Hns Hv. rewrite Hv in Hns. simpl in Hns. congruence. }
    destruct C as [[Xe ->]|[[Xe [Hk [Hsat ->]]]|[Xe [Hno Evp]]]]; simpl.
    + (* an excluded aliased key: record_anchors walked the value *)
      split; [|intros h []]. apply record_covers; auto.
    + (* a matched key: record_anchors walked the value *)
      split; [apply record_covers; auto|].
      intros h [<-|[]]. exists [], (key_ref k), pre, (NMap i kvs). simpl. split; auto. split; [constructor|].
      split; auto. exists k. split; auto. exists i, kvs, j, v. split; auto. split; auto. split; auto.
      split; [apply skip_merged_false_not_hidden; auto|]. apply Hks; auto.
    + rewrite Xk in Xe. rewrite Xe in Gj.
      destruct (value_part_vis _ _ _ _ _ _ _ _ Hic Ag1 Cv1 Ev Qv Gj IH Evp) as [Cv Hv]. split; auto.
      intros h Hin. destruct (Hv h Hin) as [Hs [[Hl [Hval [Hsat ->]]]|[l0 [r0 [pre' [tgt [El [R L]]]]]]]].
      * exists [], (key_ref k), pre, (NMap i kvs). simpl. split; auto. split; [constructor|].
        split; auto. exists v. split; auto. right. exists i, kvs, j, k. split; auto. split; auto. split; auto.
        split; [apply skip_merged_false_not_hidden; auto|]. split; auto. apply Hks. rewrite Xk; auto.
      * exists (key_ref k :: l0), r0, pre', tgt. split; [rewrite El, <- app_assoc; reflexivity|]. split; auto.
        econstructor; eauto.
        -- apply skip_merged_false_not_hidden; auto.
        -- apply Hks. rewrite Xk; auto.
Qed.

Lemma set_step_vis pre bp lc i els j m s rj :
  incl (pre ++ anc_occs (NSet i els)) U ->
  nth_error els j = Some m ->
  agree (pre ++ flat_map self_occ (firstn j els)) s -> covers (pre ++ flat_map self_occ (firstn j els)) s ->
  set_body bp lc m j s = Ok rj ->
  covers (pre ++ flat_map self_occ (firstn (S j) els)) (snd rj) /\ hits_visible pre (NSet i els) lc (fst rj).
Proof.
  intros Hi Hn Hag Hc Eb. simpl in Hi.
  pose proof (incl_child U self_occ _ _ _ _ Hi Hn) as Hic.
  rewrite (flat_map_firstn_S _ _ _ _ Hn), app_assoc.
  destruct (set_body_cases _ _ _ _ _ _ Eb) as [ka [s1 [Ek [-> C]]]].
  destruct (classify_sync _ _ _ _ _ _ Hic Hag Hc Ek) as [Ag1 [Cv1 [Xk _]]]. split; auto.
  destruct C as [[_ ->]|[[Xe [Hsat ->]]|[_ [_ ->]]]]; [intros h []| |intros h []].
  intros h [<-|[]]. exists [], (member_ref m), pre, (NSet i els). simpl. split; auto. split; [constructor|].
  exists m. split; auto. exists i, els, j. split; auto. split; auto. split; auto.
  intros Hv. rewrite Hv in Xe. simpl in Xe. congruence.
Qed.

Theorem sfp_visible n : vis_after n.
Proof.
  induction n as [i v|i kvs IH|i els IH|i els IH] using node_ind'; intros pre bp lc seen r Hcn Hi Hag Hc G E.
  - discriminate Hcn.
  - apply sfp_map in E. rewrite Forall_forall in IH.
    destruct (loop_inv (map_body i bp lc) kvs
                (fun j s => agree (pre ++ flat_map entry_occs (firstn j kvs)) s /\
                            covers (pre ++ flat_map entry_occs (firstn j kvs)) s) 0 seen r) as [[_ I1] [_ I3]]; auto.
    + intros j kv s rj Hn [Hi1 Hi2] Eb. split; [eapply map_step_agree; eauto|].
      eapply map_step_vis; eauto. apply (IH kv). eapply nth_error_In; eauto.
    + simpl. rewrite app_nil_r. auto.
    + rewrite firstn_length_all in I1. split; auto.
      intros h Hin. destruct (I3 h Hin) as [j [kv [s [rj [Hn [[Hi1 Hi2] [Eb Hh]]]]]]].
      eapply map_step_vis; eauto. apply (IH kv). eapply nth_error_In; eauto.
  - rewrite sfp_seq in E. rewrite Forall_forall in IH.
    destruct (loop_inv (seq_body bp lc) els
                (fun j s => agree (pre ++ flat_map elem_occs (firstn j els)) s /\
                            covers (pre ++ flat_map elem_occs (firstn j els)) s) 0 seen r) as [[_ I1] [_ I3]]; auto.
    + intros j e s rj Hn [Hi1 Hi2] Eb. split; [eapply seq_step_agree; eauto|].
      eapply seq_step_vis; eauto. apply IH. eapply nth_error_In; eauto.
    + simpl. rewrite app_nil_r. auto.
    + rewrite firstn_length_all in I1. split; auto.
      intros h Hin. destruct (I3 h Hin) as [j [e [s [rj [Hn [[Hi1 Hi2] [Eb Hh]]]]]]].
      eapply seq_step_vis; eauto. apply IH. eapply nth_error_In; eauto.
  - rewrite sfp_set in E.
    destruct (loop_inv (set_body bp lc) els
                (fun j s => agree (pre ++ flat_map self_occ (firstn j els)) s /\
                            covers (pre ++ flat_map self_occ (firstn j els)) s) 0 seen r) as [[_ I1] [_ I3]]; auto.
    + intros j m s rj Hn [Hi1 Hi2] Eb. split; [eapply set_step_agree; eauto|].
      eapply set_step_vis; eauto.
    + simpl. rewrite app_nil_r. auto.
    + rewrite firstn_length_all in I1. split; auto.
      intros h Hin. destruct (I3 h Hin) as [j [m [s [rj [Hn [[Hi1 Hi2] [Eb Hh]]]]]]].
      eapply set_step_vis; eauto.
Qed.

End Exclude.

End Alias.
