(* C09 (creation half): the construction branch only appends. *)
From Coq Require Import List ZArith NArith Bool Lia Arith String.
From YP Require Import Outcome PyStr PyVal Doc Searches Mutate Create C09create.
Import ListNotations.

Lemma pads_length : forall lit n rest value next vo l next',
  pads lit n rest value next vo = ROk (l, next') -> List.length l = n.
Proof.
  intros lit n. induction n as [|m IH]; intros rest value next vo l next' H; simpl in H.
  - inversion H; reflexivity.
  - destruct (build_next lit rest value next vo) as [x|e]; simpl in H; [|discriminate].
    destruct (pads lit m rest value (N.succ next) vo) as [[l0 n0]|e] eqn:E; simpl in H; [|discriminate].
    inversion H; subst. simpl. f_equal. eapply IH; eauto.
Qed.

Lemma last_and_init_spec : forall A (l init : list A) x,
  last_and_init l = Some (init, x) -> l = init ++ [x].
Proof.
  intros A l init x H. unfold last_and_init in H.
  destruct (rev l) as [|y r] eqn:E; [discriminate|]. inversion H; subst.
  rewrite <- (rev_involutive l), E. reflexivity.
Qed.

(* the construction branch on the node where the path stops existing: the node only gains children *)
Theorem grow_extends : forall lit segs cur pc next vo value g,
  grow lit segs cur pc next vo value = ROk g -> extends cur (fst (fst g)).
Proof.
  intros lit segs cur pc next vo value g H.
  destruct segs as [|s rest]; simpl in H.
  - inversion H; subst. simpl. constructor.
  - destruct cur as [i v|i kvs|i els|i els].
    + discriminate.
    + destruct s as [k ko|z]; [|discriminate].
      destruct (build_next lit rest value next vo) as [child|e]; simpl in H; [|discriminate].
      destruct (grow lit rest child _ _ vo value) as [[[c1 p1] n1]|e]; simpl in H; [|discriminate].
      inversion H; subst. simpl. constructor.
    + destruct (match s with SKey k _ => py_int k | SIdx z => Some z end) as [z|]; [|discriminate].
      destruct (pads lit _ rest value next vo) as [[l n0]|e]; simpl in H; [|discriminate].
      destruct (last_and_init l) as [[init lastn]|]; [|discriminate].
      destruct (grow lit rest lastn _ _ vo value) as [[[c1 p1] n1]|e]; simpl in H; [|discriminate].
      inversion H; subst. simpl. constructor.
    + destruct s as [k ko|z]; [|discriminate].
      inversion H; subst. simpl.
      destruct (existsb (member_is (PStr k)) els).
      * constructor.
      * constructor.
Qed.

(* sequences are padded only up to the requested index: afterwards the sequence has exactly index+1 elements *)
Theorem grow_pads_exactly : forall lit s rest i els pc next vo value g z,
  (match s with SKey k _ => py_int k | SIdx z => Some z end) = Some z ->
  (Z.of_nat (List.length els) <= z)%Z ->
  grow lit (s :: rest) (NSeq i els) pc next vo value = ROk g ->
  children_count (fst (fst g)) = S (Z.to_nat z).
Proof.
  intros lit s rest i els pc next vo value g z Hz Hlen H. simpl in H. rewrite Hz in H.
  destruct (pads lit _ rest value next vo) as [[l n0]|e] eqn:Ep; simpl in H; [|discriminate].
  destruct (last_and_init l) as [[init lastn]|] eqn:El; [|discriminate].
  destruct (grow lit rest lastn _ _ vo value) as [[[c1 p1] n1]|e]; simpl in H; [|discriminate].
  inversion H; subst. simpl.
  apply pads_length in Ep. apply last_and_init_spec in El. subst l.
  rewrite !app_length in *. simpl in *. lia.
Qed.

(* a new key is appended after the existing entries and the yielded coordinate points into the new tail *)
Theorem grow_map_last_key : forall lit k ko i kvs pc next vo value g,
  grow lit [SKey k ko] (NMap i kvs) pc next vo value = ROk g ->
  exists w, wrap_type lit value next vo = ROk w /\
    fst (fst g) = NMap i (kvs ++ [(key_leaf k ko (N.succ next), w)]) /\
    snd (fst g) = mkpc (Some (oid i)) (PStr k).
Proof.
  intros lit k ko i kvs pc next vo value g H. simpl in H.
  destruct (wrap_type lit value next vo) as [w|e]; simpl in H; [|discriminate].
  inversion H; subst. exists w. auto.
Qed.
