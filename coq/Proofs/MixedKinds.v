(* C13, collections mixing KINDS (numbers with text, booleans, numeric-looking
   text): outside the property's "same-kind scalars"; what max / min DO select
   on them, proved of Model/Keywords.v for all such collections.

   Searches.search_matches compares the TYPED READINGS (Nodes.typed_value) of
   the new value (haystack) and of the running match_value (needle):
     * a new value whose reading is a NUMBER (int, float, bool -- and text that
       ast.literal_eval reads as a number: '10', '1e1') beats the running value
       only when that one reads as a number too, and then by numeric value;
       against a running value that reads as text it never wins;
     * a new value that reads as TEXT beats the running value when its text is
       above / below str(running value) -- the running value's OWN text, also
       when that one is a number ("abc" > "5").
   So the comparison is no order on a mixed collection (max of [5, -x] is 5,
   max of [-x, 5] is -x), and the scan has two phases: while numbers lead, the
   leader is the first numeric extremum of the numbers so far; the first text
   member that beats str(leader) -- or that comes before every number -- takes
   the lead; from then on no number is ever selected and the leader is the first
   lexicographic extremum of the text members from there on.  [kinds_split]
   says this about the collection, [kinds_split_unique] that it determines the
   split, [extremum_list_kinds] & co. that the code selects accordingly. *)
From Coq Require Import List Ascii String ZArith QArith Bool Arith Lia.
From YP Require Import Outcome PyStr PyVal Doc PathParser Searches Keywords SpecC12 SpecC13 PyValOrder KeywordProofs RtInt MixedProofs.
Import ListNotations.
Open Scope string_scope.
Open Scope list_scope.

(* ---------- typed readings of the member kinds ---------- *)
Section KReadings.
Variable lit : string -> outcome litres.

(* the oracle reads the two spellings str(bool) produces (true of CPython:
   literal_eval("True") is True) *)
Definition lit_reads_bools : Prop :=
  lit "True" = Ok (LVal (PBool true)) /\ lit "False" = Ok (LVal (PBool false)).

(* a bool IS handed to literal_eval (through its capitalised spelling:
   nodes.py:641-647) *)
Lemma typed_value_bool : forall b, lit_reads_bools -> typed_value lit (PBool b) = Ok (PBool b).
Proof.
  intros [] [Ht Hf]; unfold typed_value; cbn [py_str].
  - replace (lower_str "True") with "true" by (vm_compute; reflexivity). cbn [String.eqb Ascii.eqb Bool.eqb].
    rewrite Ht. reflexivity.
  - replace (lower_str "False") with "false" by (vm_compute; reflexivity). cbn [String.eqb Ascii.eqb Bool.eqb].
    rewrite Hf. reflexivity.
Qed.

(* numeric-looking text: text the oracle reads as an int / a float *)
Lemma typed_value_int_text : forall s z,
  bool_spelling s = None -> lit s = Ok (LVal (PInt z)) -> typed_value lit (PStr s) = Ok (PInt z).
Proof. intros s z H R. apply typed_value_text_literal; assumption. Qed.
Lemma typed_value_float_text : forall s q r,
  bool_spelling s = None -> lit s = Ok (LVal (PFloat q r)) -> typed_value lit (PStr s) = Ok (PFloat q r).
Proof. intros s q r H R. apply typed_value_text_literal; assumption. Qed.
(* text spelling a boolean (any case) is read through the capitalised spelling *)
Lemma typed_value_bool_text : forall s b,
  bool_spelling s = Some b -> lit_reads_bools -> typed_value lit (PStr s) = Ok (PBool b).
Proof.
  intros s b H [Ht Hf]. unfold typed_value, bool_spelling in *. cbn [py_str].
  destruct (String.eqb (lower_str s) "true").
  - inversion H; subst. rewrite Ht. reflexivity.
  - destruct (String.eqb (lower_str s) "false"); [|discriminate].
    inversion H; subst. rewrite Hf. reflexivity.
Qed.

(* [rd] gives the typed reading of every comparable member: a NUMBER (then the
   member is compared by value), or something else with the member's own text
   (a text that is its own typed reading, a date, ...: compared as text) *)
Definition reads_num (t : pyval) : bool := match num_of t with Some _ => true | None => false end.

Definition has_reading (rd : pyval -> pyval) (v : pyval) : Prop :=
  is_pnone v = false /\ typed_value lit v = Ok (rd v) /\
  (reads_num (rd v) = true \/ py_str (rd v) = py_str v).

End KReadings.

(* the member kinds of the task, each with its reading *)
Inductive kind_member (lit : string -> outcome litres) (rd : pyval -> pyval) : pyval -> Prop :=
  | KM_int : forall z, rd (PInt z) = PInt z -> kind_member lit rd (PInt z)
  | KM_float : forall q r, bool_spelling r = None -> rd (PFloat q r) = PFloat q r -> kind_member lit rd (PFloat q r)
  | KM_bool : forall b, lit_reads_bools lit -> rd (PBool b) = PBool b -> kind_member lit rd (PBool b)
  | KM_text : forall s, bool_spelling s = None -> lit_rejects lit s -> rd (PStr s) = PStr s -> kind_member lit rd (PStr s)
  | KM_int_text : forall s z, bool_spelling s = None -> lit s = Ok (LVal (PInt z)) -> rd (PStr s) = PInt z ->
                              kind_member lit rd (PStr s)
  | KM_float_text : forall s q r, bool_spelling s = None -> lit s = Ok (LVal (PFloat q r)) -> rd (PStr s) = PFloat q r ->
                                  kind_member lit rd (PStr s)
  | KM_bool_text : forall s b, bool_spelling s = Some b -> lit_reads_bools lit -> rd (PStr s) = PBool b ->
                               kind_member lit rd (PStr s).

Lemma kind_member_reading : forall lit rd v, kind_member lit rd v -> has_reading lit rd v.
Proof.
  intros lit rd v K. unfold has_reading. destruct K as [z E|q r H E|b H E|s H R E|s z H R E|s q r H R E|s b H R E];
    rewrite E; (split; [reflexivity|]); split.
  - apply typed_value_int.
  - left; reflexivity.
  - apply typed_value_float; assumption.
  - left; reflexivity.
  - apply typed_value_bool; assumption.
  - left; reflexivity.
  - apply typed_value_text; assumption.
  - right; reflexivity.
  - apply typed_value_int_text; assumption.
  - left; reflexivity.
  - apply typed_value_float_text; assumption.
  - left; reflexivity.
  - apply typed_value_bool_text; assumption.
  - left; reflexivity.
Qed.

(* ---------- what search_matches answers on two members with readings ---------- *)
Section KCompare.
Variable lit : string -> outcome litres.
Variable re_search : string -> string -> outcome reres.
Variable rd : pyval -> pyval.

Definition rd_key (v : pyval) : Q := num_key (rd v).
Definition rd_leb (a b : pyval) : bool := Qle_bool (rd_key a) (rd_key b).
Definition rd_le : pyval -> pyval -> Prop := num_le rd_key.
Definition is_numr (v : pyval) : bool := reads_num (rd v).

(* text b is strictly above (max) / below (min) the text of a *)
Definition text_beats (cmp : smethod) (a b : pyval) : bool :=
  match cmp with MLt => str_ltb (py_str b) (py_str a) | _ => str_ltb (py_str a) (py_str b) end.

(* search_matches(GREATER_THAN / LESS_THAN, running value a, new value b) *)
Definition kinds_beats (cmp : smethod) (a b : pyval) : bool :=
  if is_numr b then is_numr a && negb (goodb cmp rd_leb a b) else text_beats cmp a b.

(* search_matches(EQUALS, running value a, new value b): the ladder on the readings *)
Definition kinds_eq (a b : pyval) : bool :=
  let th := rd b in let tn := rd a in
  if is_bool_inst th && type_is_bool tn then py_eq th tn
  else if is_int_inst th && type_is_int tn then py_eq th tn
  else if is_float_inst th && type_is_float tn then py_eq th tn
  else String.eqb (py_str th) (py_str a).

Lemma sm_unfold_read : forall m a b ta tb,
  typed_value lit a = Ok ta -> typed_value lit b = Ok tb ->
  Keywords.sm lit re_search m a b =
  match m with
  | MEquals =>
      if is_bool_inst tb && type_is_bool ta then Ok (py_eq tb ta)
      else if is_int_inst tb && type_is_int ta then Ok (py_eq tb ta)
      else if is_float_inst tb && type_is_float ta then Ok (py_eq tb ta)
      else Ok (String.eqb (py_str tb) (py_str a))
  | MGt => ordered py_gt (fun p q => str_ltb q p) tb ta (py_str a)
  | MLt => ordered py_lt str_ltb tb ta (py_str a)
  | _ => Keywords.sm lit re_search m a b
  end.
Proof.
  intros m a b ta tb Ha Hb. unfold Keywords.sm, search_matches_g, typed_haystack. simpl hay_pyval.
  rewrite Hb. cbn [bind]. rewrite Ha. cbn [bind]. destruct m; reflexivity.
Qed.

Lemma kinds_cmp : forall cmp a b,
  cmp = MGt \/ cmp = MLt -> has_reading lit rd a -> has_reading lit rd b ->
  Keywords.sm lit re_search cmp a b = Ok (kinds_beats cmp a b).
Proof.
  intros cmp a b Hc [_ [Ta _]] [_ [Tb Cb]].
  rewrite (sm_unfold_read cmp a b _ _ Ta Tb).
  unfold kinds_beats, is_numr, reads_num, text_beats, goodb, rd_leb, rd_key, num_key, ordered, is_num_inst.
  destruct Cb as [Cb|Cb].
  - unfold reads_num in Cb.
    destruct (rd b) as [|bb|zb|qb rb|sb|ob]; cbn in Cb; try discriminate;
      destruct (rd a) as [|ba|za|qa ra|sa|oa]; destruct Hc as [->| ->]; reflexivity.
  - rewrite <- Cb.
    destruct (rd b) as [|bb|zb|qb rb|sb|ob];
      destruct (rd a) as [|ba|za|qa ra|sa|oa]; destruct Hc as [->| ->]; reflexivity.
Qed.

Lemma kinds_equals : forall a b,
  has_reading lit rd a -> has_reading lit rd b ->
  Keywords.sm lit re_search MEquals a b = Ok (kinds_eq a b).
Proof.
  intros a b [_ [Ta _]] [_ [Tb _]]. rewrite (sm_unfold_read MEquals a b _ _ Ta Tb). unfold kinds_eq.
  destruct (is_bool_inst (rd b) && type_is_bool (rd a)); [reflexivity|].
  destruct (is_int_inst (rd b) && type_is_int (rd a)); [reflexivity|].
  destruct (is_float_inst (rd b) && type_is_float (rd a)); reflexivity.
Qed.

End KCompare.

(* ---------- the scan for an arbitrary comparison: generic bookkeeping ---------- *)
(* [bt a b]: the new value b beats the running value a; [eqt a b]: EQUALS deems
   b equal to the running value a.  NO order property is assumed.  [SP ms pre b
   c0 post] is any description of "the collection ms splits at its leader
   (b, c0)" that is preserved by the four things one step can do. *)
Section ScanSP.
Variable lit : string -> outcome litres.
Variable re_search : string -> string -> outcome reres.
Variable cmp : smethod.
Variable bt eqt : pyval -> pyval -> bool.
Variable P : pyval -> Prop.
Hypothesis HP_none : forall v, P v -> is_pnone v = false.
Hypothesis HP_cmp : forall a b, P a -> P b -> Keywords.sm lit re_search cmp a b = Ok (bt a b).
Hypothesis HP_eq : forall a b, P a -> P b -> Keywords.sm lit re_search MEquals a b = Ok (eqt a b).
Variable SP : list mem -> list mem -> pyval -> coords -> list mem -> Prop.
Hypothesis SP_split : forall ms pre b c0 post, SP ms pre b c0 post -> ms = pre ++ (Some b, c0) :: post.
Hypothesis SP_first : forall ms v c,
  (forall w c', ~ In (Some w, c') ms) -> SP (ms ++ [(Some v, c)]) ms v c [].
Hypothesis SP_beat : forall ms pre b c0 post v c,
  SP ms pre b c0 post -> bt b v = true -> SP (ms ++ [(Some v, c)]) ms v c [].
Hypothesis SP_keep : forall ms pre b c0 post v c,
  SP ms pre b c0 post -> bt b v = false -> SP (ms ++ [(Some v, c)]) pre b c0 (post ++ [(Some v, c)]).
Hypothesis SP_null : forall ms pre b c0 post c,
  SP ms pre b c0 post -> SP (ms ++ [(None, c)]) pre b c0 (post ++ [(None, c)]).
Hypothesis SP_unique : forall ms pre b c0 post pre' b' c0' post',
  SP ms pre b c0 post -> SP ms pre' b' c0' post' -> pre' = pre /\ b' = b /\ c0' = c0 /\ post' = post.

Notation gstep := (gstep lit re_search cmp).

Definition Inv3 (ms : list mem) (s : scan) : Prop :=
  ((forall v c, ~ In (Some v, c) ms) /\ s_value s = PNone /\ s_match s = [] /\
   (forall c, In c (s_discard s) <-> exists ov, In (ov, c) ms))
  \/
  (exists pre b c0 post,
     SP ms pre b c0 post /\ s_value s = b /\ P b /\
     s_match s = c0 :: eq_later eqt b post /\
     (forall c, In c (s_discard s) <->
        (exists ov, In (ov, c) pre) \/
        (exists ov, In (ov, c) post /\ match ov with None => True | Some w => eqt b w = false end))).

Lemma gstep_inv3 : forall ms s m,
  Inv3 ms s -> all_P P (ms ++ [m]) ->
  exists s', gstep s m = Ok s' /\ Inv3 (ms ++ [m]) s'.
Proof.
  intros ms s [ov c] HI HP. unfold KeywordProofs.gstep. cbn [fst snd].
  destruct ov as [v|].
  2:{ eexists. split; [reflexivity|]. unfold discard.
    destruct HI as [[Hno [Hv [Hm Hd]]]|[pre [b [c0 [post [Hsp [Hv [Pb [Hm Hd]]]]]]]]].
    - left. cbn. repeat split; try assumption.
      + intros v c' Hi. apply in_snoc2 in Hi. destruct Hi as [Hi|Hi]; [apply (Hno _ _ Hi)|discriminate].
      + intros Hi. apply in_snoc2 in Hi. destruct Hi as [Hi|Hi].
        * apply Hd in Hi. destruct Hi as [ov Hi]. exists ov. apply in_snoc2. left; assumption.
        * subst. exists None. apply in_snoc2. right; reflexivity.
      + intros [ov Hi]. apply in_snoc2. apply in_snoc2 in Hi. destruct Hi as [Hi|Hi].
        * left. apply Hd. exists ov; assumption.
        * inversion Hi; subst. right; reflexivity.
    - right. exists pre, b, c0, (post ++ [(None, c)]). cbn.
      split; [apply SP_null; assumption|]. split; [assumption|]. split; [assumption|].
      split.
      { rewrite Hm, eq_later_app. cbn. rewrite app_nil_r. reflexivity. }
      intros c'. rewrite in_snoc2, Hd. split.
      + intros [[H|H]|H].
        * left; assumption.
        * right. destruct H as [ov [Hi Ho]]. exists ov. split; [apply in_snoc2; left; assumption|assumption].
        * subst c'. right. exists None. split; [apply in_snoc2; right; reflexivity|exact I].
      + intros [H|[ov [Hi Ho]]].
        * left; left; assumption.
        * apply in_snoc2 in Hi. destruct Hi as [Hi|Hi].
          -- left; right. exists ov. split; assumption.
          -- inversion Hi; subst. right; reflexivity. }
  assert (Pv : P v) by (apply (HP v c); apply in_snoc2; right; reflexivity).
  unfold scan_value.
  destruct HI as [[Hno [Hv [Hm Hd]]]|[pre [b [c0 [post [Hsp [Hv [Pb [Hm Hd]]]]]]]]].
  - rewrite Hv. cbn. eexists. split; [reflexivity|].
    right. exists ms, v, c, []. cbn. split; [apply SP_first; assumption|].
    split; [reflexivity|]. split; [assumption|]. split; [reflexivity|].
    intros c'. rewrite Hm, app_nil_r. split.
    + intros Hi. left. apply Hd. exact Hi.
    + intros [H|[ov [[] _]]]. apply Hd. exact H.
  - pose proof (SP_split _ _ _ _ _ Hsp) as Hms.
    subst b. rewrite (HP_none _ Pb). rewrite (HP_cmp _ _ Pb Pv). cbn [bind].
    destruct (bt (s_value s) v) eqn:Eb.
    + eexists. split; [reflexivity|].
      right. exists ms, v, c, []. cbn. split; [eapply SP_beat; eassumption|].
      split; [reflexivity|]. split; [assumption|]. split; [reflexivity|].
      intros c'. split.
      * intros Hi. left. apply in_app_iff in Hi. destruct Hi as [Hi|Hi].
        -- apply Hd in Hi. destruct Hi as [[ov Hi]|[ov [Hi _]]]; exists ov; rewrite Hms; apply in_app_iff.
           ++ left; assumption.
           ++ right; right; assumption.
        -- rewrite Hm in Hi. destruct Hi as [Hi|Hi].
           ++ subst c0. exists (Some (s_value s)). rewrite Hms. apply in_app_iff. right; left; reflexivity.
           ++ apply in_eq_later in Hi. destruct Hi as [w [Hi _]]. exists (Some w). rewrite Hms.
              apply in_app_iff. right; right; assumption.
      * intros [[ov Hi]|[ov [[] _]]]. apply in_app_iff. rewrite Hms in Hi. apply in_app_iff in Hi.
        destruct Hi as [Hi|[Hi|Hi]].
        -- left. apply Hd. left. exists ov; assumption.
        -- inversion Hi; subst. right. rewrite Hm. left; reflexivity.
        -- destruct ov as [w|].
           ++ destruct (eqt (s_value s) w) eqn:Et.
              ** right. rewrite Hm. right. apply in_eq_later. exists w. split; assumption.
              ** left. apply Hd. right. exists (Some w). split; assumption.
           ++ left. apply Hd. right. exists None. split; [assumption|exact I].
    + rewrite (HP_eq _ _ Pb Pv). cbn [bind].
      destruct (eqt (s_value s) v) eqn:Eq.
      * eexists. split; [reflexivity|].
        right. exists pre, (s_value s), c0, (post ++ [(Some v, c)]). cbn.
        split; [apply SP_keep; assumption|]. split; [reflexivity|]. split; [assumption|].
        split.
        { rewrite Hm, eq_later_app. unfold eq_later at 3. cbn. rewrite Eq. reflexivity. }
        intros c'. rewrite Hd. split.
        -- intros [H|[ov [Hi Ho]]]; [left; assumption|]. right. exists ov. split; [apply in_snoc2; left; assumption|assumption].
        -- intros [H|[ov [Hi Ho]]]; [left; assumption|]. apply in_snoc2 in Hi. destruct Hi as [Hi|Hi].
           ++ right. exists ov. split; assumption.
           ++ inversion Hi; subst. rewrite Eq in Ho. discriminate.
      * eexists. split; [reflexivity|]. unfold discard.
        right. exists pre, (s_value s), c0, (post ++ [(Some v, c)]). cbn.
        split; [apply SP_keep; assumption|]. split; [reflexivity|]. split; [assumption|].
        split.
        { rewrite Hm, eq_later_app. unfold eq_later at 3. cbn. rewrite Eq. cbn. rewrite app_nil_r. reflexivity. }
        intros c'. rewrite in_snoc2, Hd. split.
        -- intros [[H|[ov [Hi Ho]]]|H].
           ++ left; assumption.
           ++ right. exists ov. split; [apply in_snoc2; left; assumption|assumption].
           ++ subst c'. right. exists (Some v). split; [apply in_snoc2; right; reflexivity|exact Eq].
        -- intros [H|[ov [Hi Ho]]]; [left; left; assumption|]. apply in_snoc2 in Hi. destruct Hi as [Hi|Hi].
           ++ left; right. exists ov. split; assumption.
           ++ inversion Hi; subst. right; reflexivity.
Qed.

Lemma fold_gstep_inv3 : forall l ms s,
  Inv3 ms s -> all_P P (ms ++ l) ->
  exists s', foldM gstep l s = Ok s' /\ Inv3 (ms ++ l) s'.
Proof.
  induction l as [|m r IH]; intros ms s HI HP; cbn.
  - exists s. rewrite app_nil_r. split; [reflexivity|assumption].
  - assert (HP1 : all_P P (ms ++ [m])).
    { intros v c Hi. apply (HP v c). apply in_app_iff. apply in_snoc2 in Hi. destruct Hi as [Hi|Hi].
      - left; assumption.
      - right; left; symmetry; assumption. }
    destruct (gstep_inv3 ms s m HI HP1) as [s1 [E1 I1]]. rewrite E1. cbn.
    assert (HP2 : all_P P ((ms ++ [m]) ++ r)) by (rewrite <- app_assoc; exact HP).
    destruct (IH (ms ++ [m]) s1 I1 HP2) as [s2 [E2 I2]].
    exists s2. split; [assumption|]. rewrite <- app_assoc in I2. exact I2.
Qed.

Lemma Inv3_nil : Inv3 [] scan0.
Proof.
  left. cbn. split; [intros v c []|]. split; [reflexivity|]. split; [reflexivity|].
  intros c. split; [intros []|intros [ov []]].
Qed.

Lemma scan_total3 : forall l, all_P P l -> exists s, foldM gstep l scan0 = Ok s /\ Inv3 l s.
Proof. intros l HP. apply (fold_gstep_inv3 l [] scan0 Inv3_nil HP). Qed.

(* what is selected, read off the split: the leader and the LATER members that
   EQUALS deems equal to it; inverted, all the others (nulls included) *)
Definition sp_selected (invert : bool) (ms : list mem) (c : coords) : Prop :=
  (forall v c', ~ In (Some v, c') ms) /\ (if invert then exists ov, In (ov, c) ms else False)
  \/
  exists pre b c0 post, SP ms pre b c0 post /\
    if invert then
      (exists ov, In (ov, c) pre) \/
      (exists ov, In (ov, c) post /\ match ov with None => True | Some w => eqt b w = false end)
    else
      c = c0 \/ exists w, In (Some w, c) post /\ eqt b w = true.

Lemma sp_of_Inv3 : forall (invert : bool) ms s,
  Inv3 ms s ->
  forall c, In c (if invert then s_discard s else s_match s) <-> sp_selected invert ms c.
Proof.
  intros invert ms s I c. unfold sp_selected.
  destruct I as [[Hno [Hv [Hm Hd]]]|[pre [b [c0 [post [Hsp [Hv [Pb [Hm Hd]]]]]]]]].
  - split.
    + intros Hi. left. split; [assumption|]. destruct invert.
      * apply Hd. exact Hi.
      * rewrite Hm in Hi. destruct Hi.
    + intros [[_ H]|[pre [b [c0 [post [Hsp _]]]]]].
      * destruct invert; [apply Hd; exact H|destruct H].
      * exfalso. apply (Hno b c0). rewrite (SP_split _ _ _ _ _ Hsp). apply in_app_iff. right; left; reflexivity.
  - pose proof (SP_split _ _ _ _ _ Hsp) as Hms. split.
    + intros Hi. right. exists pre, b, c0, post. split; [assumption|].
      destruct invert.
      * apply Hd. exact Hi.
      * rewrite Hm in Hi. destruct Hi as [Hi|Hi]; [left; symmetry; assumption|right].
        apply (in_eq_later eqt) in Hi. exact Hi.
    + intros [[Hno _]|[pre' [b' [c0' [post' [Hsp' Hsel]]]]]].
      * exfalso. apply (Hno b c0). rewrite Hms. apply in_app_iff. right; left; reflexivity.
      * destruct (SP_unique _ _ _ _ _ _ _ _ _ Hsp Hsp') as [-> [-> [-> ->]]].
        destruct invert.
        -- apply Hd. exact Hsel.
        -- rewrite Hm. destruct Hsel as [->|Hsel]; [left; reflexivity|right].
           apply (in_eq_later eqt). exact Hsel.
Qed.

Lemma extremum_list3 : forall node_str invert i els x,
  node_is_aoh true (NSeq i els) = false ->
  all_P P (map (list_member node_str x) (enumerate els)) ->
  exists res,
    extremum lit re_search node_str cmp invert [] (NSeq i els) x = Ok res /\
    forall c, In c res <-> sp_selected invert (map (list_member node_str x) (enumerate els)) c.
Proof.
  intros node_str invert i els x Haoh HP. unfold extremum. cbn [List.length Nat.ltb Nat.leb].
  cbv iota. rewrite Haoh.
  rewrite (foldM_map_ext _ _ _ gstep (list_member node_str x) (list_step_gstep lit re_search node_str cmp x)).
  destruct (scan_total3 _ HP) as [s [E I]]. rewrite E. cbn. eexists. split; [reflexivity|].
  apply (sp_of_Inv3 invert _ s I).
Qed.

Lemma extremum_aoh3 : forall node_str invert attr i els x,
  node_is_aoh true (NSeq i els) = true ->
  all_P P (map (aoh_member node_str attr x) (enumerate els)) ->
  exists res,
    extremum lit re_search node_str cmp invert [attr] (NSeq i els) x = Ok res /\
    forall c, In c res <-> sp_selected invert (map (aoh_member node_str attr x) (enumerate els)) c.
Proof.
  intros node_str invert attr i els x Haoh HP. unfold extremum. cbn [List.length Nat.ltb Nat.leb].
  cbv iota. rewrite Haoh.
  rewrite (foldM_map_ext _ _ _ gstep (aoh_member node_str attr x) (aoh_step_gstep lit re_search node_str cmp attr x)).
  destruct (scan_total3 _ HP) as [s [E I]]. rewrite E. cbn. eexists. split; [reflexivity|].
  apply (sp_of_Inv3 invert _ s I).
Qed.

Lemma extremum_hoh3 : forall node_str invert attr i kvs x,
  forallb (fun kv => is_map (snd kv)) kvs = true ->
  all_P P (map (hoh_member node_str attr x) kvs) ->
  exists res,
    extremum lit re_search node_str cmp invert [attr] (NMap i kvs) x = Ok res /\
    forall c, In c res <-> sp_selected invert (map (hoh_member node_str attr x) kvs) c.
Proof.
  intros node_str invert attr i kvs x Hhoh HP. unfold extremum. cbn [List.length Nat.ltb Nat.leb].
  cbv iota. cbn [node_is_aoh]. cbv iota.
  rewrite (foldM_map_ext_in _ _ (hoh_step lit re_search node_str cmp attr kvs x) gstep (hoh_member node_str attr x) kvs).
  - destruct (scan_total3 _ HP) as [s [E I]]. rewrite E. cbn. eexists. split; [reflexivity|].
    apply (sp_of_Inv3 invert _ s I).
  - intros s kv Hi. apply hoh_step_gstep. rewrite forallb_forall in Hhoh. apply (Hhoh _ Hi).
Qed.

End ScanSP.

(* ---------- splitting a list at the first extremum of a class of members ---------- *)
Lemma split_cases : forall A (l1 l1' : list A) x x' l2 l2',
  l1 ++ x :: l2 = l1' ++ x' :: l2' ->
  (l1 = l1' /\ x = x' /\ l2 = l2') \/
  (exists mid, l1' = l1 ++ x :: mid /\ l2 = mid ++ x' :: l2') \/
  (exists mid, l1 = l1' ++ x' :: mid /\ l2' = mid ++ x :: l2).
Proof.
  intros A l1. induction l1 as [|a l1 IH]; intros l1' x x' l2 l2' H.
  - destruct l1' as [|a' l1']; cbn in H.
    + inversion H. left. repeat split; reflexivity.
    + inversion H. right; left. exists l1'. split; reflexivity.
  - destruct l1' as [|a' l1']; cbn in H.
    + inversion H. right; right. exists l1. split; reflexivity.
    + inversion H. subst a'. destruct (IH _ _ _ _ _ H2) as [[-> [-> ->]]|[[mid [-> ->]]|[mid [-> ->]]]].
      * left. repeat split; reflexivity.
      * right; left. exists mid. split; reflexivity.
      * right; right. exists mid. split; reflexivity.
Qed.

Lemma snoc_split : forall A (l l1 l2 : list A) x y,
  l ++ [x] = l1 ++ y :: l2 ->
  (l2 = [] /\ l1 = l /\ y = x) \/ (exists l2', l2 = l2' ++ [x] /\ l = l1 ++ y :: l2').
Proof.
  intros A l l1 l2 x y H. destruct (split_cases _ _ _ _ _ _ _ H) as [[E1 [E2 E3]]|[[mid [E1 E2]]|[mid [E1 E2]]]].
  - left. subst. repeat split; reflexivity.
  - destruct mid; discriminate E2.
  - right. exists mid. subst. split; reflexivity.
Qed.

Section FSplit.
Variable cls : pyval -> bool.                (* the members that count *)
Variable gd : pyval -> pyval -> Prop.        (* a is at least as good as b *)

(* the list splits at (b, c0), the FIRST extremum among the members of the
   class: those before it are strictly worse, none after it is better *)
Definition fsplit (l pre : list mem) (b : pyval) (c0 : coords) (post : list mem) : Prop :=
  l = pre ++ (Some b, c0) :: post /\ cls b = true /\
  (forall w c, In (Some w, c) pre -> cls w = true -> ~ gd w b) /\
  (forall w c, In (Some w, c) post -> cls w = true -> gd b w).

Lemma fsplit_unique : forall l pre b c0 post pre' b' c0' post',
  fsplit l pre b c0 post -> fsplit l pre' b' c0' post' ->
  pre' = pre /\ b' = b /\ c0' = c0 /\ post' = post.
Proof.
  intros l pre b c0 post pre' b' c0' post' [H1 [Cb [Hpre Hpost]]] [H2 [Cb' [Hpre' Hpost']]].
  rewrite H1 in H2. destruct (split_cases _ _ _ _ _ _ _ H2) as [[-> [E ->]]|[[mid [-> ->]]|[mid [-> ->]]]].
  - inversion E. repeat split; reflexivity.
  - exfalso. apply (Hpre' b c0); [apply in_app_iff; right; left; reflexivity|assumption|].
    apply (Hpost b' c0'); [apply in_app_iff; right; left; reflexivity|assumption].
  - exfalso. apply (Hpre b' c0'); [apply in_app_iff; right; left; reflexivity|assumption|].
    apply (Hpost' b c0); [apply in_app_iff; right; left; reflexivity|assumption].
Qed.

Lemma fsplit_keep : forall l pre b c0 post ov c,
  fsplit l pre b c0 post ->
  match ov with Some v => cls v = true -> gd b v | None => True end ->
  fsplit (l ++ [(ov, c)]) pre b c0 (post ++ [(ov, c)]).
Proof.
  intros l pre b c0 post ov c [H1 [Cb [Hpre Hpost]]] Ho. split; [rewrite H1, <- app_assoc; reflexivity|].
  split; [assumption|]. split; [assumption|].
  intros w c' Hi Cw. apply in_snoc2 in Hi. destruct Hi as [Hi|Hi]; [apply (Hpost _ _ Hi Cw)|].
  inversion Hi; subst. apply Ho. assumption.
Qed.

Lemma fsplit_first : forall l v c,
  (forall w c', In (Some w, c') l -> cls w = false) -> cls v = true ->
  fsplit (l ++ [(Some v, c)]) l v c [].
Proof.
  intros l v c Hno Cv. split; [reflexivity|]. split; [assumption|]. split.
  - intros w c' Hi Cw. rewrite (Hno _ _ Hi) in Cw. discriminate.
  - intros w c' [].
Qed.

Hypothesis gd_refl : forall a, gd a a.
Hypothesis gd_trans : forall a b c, gd a b -> gd b c -> gd a c.
Hypothesis gd_total : forall a b, gd a b \/ gd b a.

Lemma fsplit_best : forall l pre b c0 post,
  fsplit l pre b c0 post -> forall w c, In (Some w, c) l -> cls w = true -> gd b w.
Proof.
  intros l pre b c0 post [H1 [Cb [Hpre Hpost]]] w c Hi Cw. rewrite H1 in Hi. apply in_app_iff in Hi.
  destruct Hi as [Hi|[Hi|Hi]].
  - destruct (gd_total b w) as [G|G]; [assumption|]. exfalso. apply (Hpre _ _ Hi Cw G).
  - inversion Hi; subst. apply gd_refl.
  - apply (Hpost _ _ Hi Cw).
Qed.

Lemma fsplit_new : forall l pre b c0 post v c,
  fsplit l pre b c0 post -> cls v = true -> ~ gd b v ->
  fsplit (l ++ [(Some v, c)]) l v c [].
Proof.
  intros l pre b c0 post v c F Cv Hn. split; [reflexivity|]. split; [assumption|]. split.
  - intros w c' Hi Cw G. apply Hn. eapply gd_trans; [apply (fsplit_best _ _ _ _ _ F _ _ Hi Cw)|exact G].
  - intros w c' [].
Qed.

End FSplit.

(* ---------- the split of a collection of mixed kinds ---------- *)
Section KSplit.
Variable cmp : smethod.
Variable rd : pyval -> pyval.

Notation isN := (is_numr rd).
Definition is_textr (v : pyval) : bool := negb (is_numr rd v).

(* a is numerically at least as good as b (by the readings) *)
Definition num_good (a b : pyval) : Prop := good cmp (rd_le rd) a b.
(* the text of b does not beat the text of a *)
Definition text_good (a b : pyval) : Prop := text_beats cmp a b = false.

Lemma Qle_total_mk : forall x y : Q, (x <= y)%Q \/ (y <= x)%Q.
Proof. intros x y. destruct (Qlt_le_dec x y) as [H|H]; [left; apply Qlt_le_weak; assumption|right; assumption]. Qed.

Lemma num_good_refl : forall a, num_good a a.
Proof. intros a. unfold num_good, good, rd_le, num_le. destruct cmp; apply Qle_refl. Qed.
Lemma num_good_trans : forall a b c, num_good a b -> num_good b c -> num_good a c.
Proof. intros a b c. unfold num_good, good, rd_le, num_le. destruct cmp; intros; eapply Qle_trans; eauto. Qed.
Lemma num_good_total : forall a b, num_good a b \/ num_good b a.
Proof. intros a b. unfold num_good, good, rd_le, num_le. destruct cmp; apply Qle_total_mk. Qed.
Lemma num_good_goodb : forall a b, goodb cmp (rd_leb rd) a b = true <-> num_good a b.
Proof. intros a b. unfold goodb, num_good, good, rd_leb, rd_le, num_le. destruct cmp; apply Qle_bool_iff. Qed.

Lemma str_ltb_false_leb : forall a b, str_ltb a b = false <-> str_leb b a = true.
Proof. intros a b. unfold str_leb. rewrite negb_true_iff. reflexivity. Qed.

Lemma text_good_refl : forall a, text_good a a.
Proof. intros a. unfold text_good, text_beats. destruct cmp; apply str_ltb_irrefl. Qed.
Lemma text_good_trans : forall a b c, text_good a b -> text_good b c -> text_good a c.
Proof.
  intros a b c. unfold text_good, text_beats. destruct cmp; rewrite !str_ltb_false_leb; intros H1 H2;
    eapply str_leb_trans; eassumption.
Qed.
Lemma text_good_total : forall a b, text_good a b \/ text_good b a.
Proof.
  intros a b. unfold text_good, text_beats.
  destruct cmp; rewrite !str_ltb_false_leb; first [apply str_leb_total | destruct (str_leb_total (py_str a) (py_str b)); auto].
Qed.

(* the text member t would take the lead after the members l1, none of whose
   text members did: no number precedes it, or it beats the text of the numbers'
   first extremum *)
Definition text_enters (l1 : list mem) (t : pyval) : Prop :=
  (forall w c, In (Some w, c) l1 -> isN w = false) \/
  (exists pre a ca post, fsplit isN num_good l1 pre a ca post /\ text_beats cmp a t = true).

(* ... and (t, c) is the FIRST text member that does *)
Definition first_entry (ms l1 : list mem) (t : pyval) (c : coords) (l2 : list mem) : Prop :=
  ms = l1 ++ (Some t, c) :: l2 /\ isN t = false /\ text_enters l1 t /\
  (forall l1a t' c' l1b, l1 = l1a ++ (Some t', c') :: l1b -> isN t' = false -> ~ text_enters l1a t').

(* no text member ever takes the lead *)
Definition no_entry (ms : list mem) : Prop :=
  forall l1 t c l2, ms = l1 ++ (Some t, c) :: l2 -> isN t = false -> ~ text_enters l1 t.

(* the collection splits at the selected leader (b, c0):
   - a NUMBER: no text member ever takes the lead, and b is the first numeric
     extremum of the members that read as numbers;
   - a TEXT: from the first text member (t, c) that takes the lead on, b is the
     first lexicographic extremum of the text members *)
Definition kinds_split (ms pre : list mem) (b : pyval) (c0 : coords) (post : list mem) : Prop :=
  (no_entry ms /\ fsplit isN num_good ms pre b c0 post)
  \/
  (exists l1 t c l2 mid,
     first_entry ms l1 t c l2 /\
     fsplit is_textr text_good ((Some t, c) :: l2) mid b c0 post /\ pre = l1 ++ mid).

Lemma kinds_split_split : forall ms pre b c0 post, kinds_split ms pre b c0 post -> ms = pre ++ (Some b, c0) :: post.
Proof.
  intros ms pre b c0 post [[_ [H _]]|[l1 [t [c [l2 [mid [[H _] [[H2 _] ->]]]]]]]]; [assumption|].
  rewrite H, H2, <- app_assoc. reflexivity.
Qed.

Lemma first_entry_unique : forall ms l1 t c l2 l1' t' c' l2',
  first_entry ms l1 t c l2 -> first_entry ms l1' t' c' l2' -> l1' = l1 /\ t' = t /\ c' = c /\ l2' = l2.
Proof.
  intros ms l1 t c l2 l1' t' c' l2' [H1 [Nt [Et Hf]]] [H2 [Nt' [Et' Hf']]].
  rewrite H1 in H2. destruct (split_cases _ _ _ _ _ _ _ H2) as [[-> [E ->]]|[[mid [-> ->]]|[mid [-> ->]]]].
  - inversion E. repeat split; reflexivity.
  - exfalso. apply (Hf' l1 t c mid eq_refl Nt Et).
  - exfalso. apply (Hf l1' t' c' mid eq_refl Nt' Et').
Qed.

Lemma kinds_split_unique : forall ms pre b c0 post pre' b' c0' post',
  kinds_split ms pre b c0 post -> kinds_split ms pre' b' c0' post' ->
  pre' = pre /\ b' = b /\ c0' = c0 /\ post' = post.
Proof.
  intros ms pre b c0 post pre' b' c0' post'
    [[Hn F]|[l1 [t [c [l2 [mid [FE [F ->]]]]]]]] [[Hn' F']|[l1' [t' [c' [l2' [mid' [FE' [F' ->]]]]]]]].
  - apply (fsplit_unique _ _ _ _ _ _ _ _ _ _ _ F F').
  - exfalso. destruct FE' as [H [Nt [Et _]]]. apply (Hn _ _ _ _ H Nt Et).
  - exfalso. destruct FE as [H [Nt [Et _]]]. apply (Hn' _ _ _ _ H Nt Et).
  - destruct (first_entry_unique _ _ _ _ _ _ _ _ _ FE FE') as [-> [-> [-> ->]]].
    destruct (fsplit_unique _ _ _ _ _ _ _ _ _ _ _ F F') as [-> [-> [-> ->]]].
    repeat split; reflexivity.
Qed.

Lemma first_entry_snoc : forall ms l1 t c l2 m,
  first_entry ms l1 t c l2 -> first_entry (ms ++ [m]) l1 t c (l2 ++ [m]).
Proof.
  intros ms l1 t c l2 m [H R]. split; [rewrite H, <- app_assoc; reflexivity|exact R].
Qed.

Lemma no_entry_snoc : forall ms ov c,
  no_entry ms ->
  match ov with Some v => isN v = false -> ~ text_enters ms v | None => True end ->
  no_entry (ms ++ [(ov, c)]).
Proof.
  intros ms ov c Hn Ho l1 t c' l2 H Nt.
  destruct (snoc_split _ _ _ _ _ _ H) as [[-> [-> E]]|[l2' [-> E]]].
  - inversion E; subst. apply Ho. assumption.
  - apply (Hn _ _ _ _ E Nt).
Qed.

Lemma is_textr_true : forall v, is_textr v = true <-> isN v = false.
Proof. intros v. unfold is_textr. apply negb_true_iff. Qed.

(* the four things one step of the scan can do *)
Lemma kinds_split_first : forall ms v c,
  (forall w c', ~ In (Some w, c') ms) -> kinds_split (ms ++ [(Some v, c)]) ms v c [].
Proof.
  intros ms v c Hno. destruct (isN v) eqn:Nv.
  - left. split.
    + apply no_entry_snoc.
      * intros l1 t c' l2 H _. exfalso. apply (Hno t c'). rewrite H. apply in_app_iff. right; left; reflexivity.
      * intros Hf. congruence.
    + apply fsplit_first; [|assumption]. intros w c' Hi. exfalso. apply (Hno _ _ Hi).
  - right. exists ms, v, c, [], []. split; [|split].
    + split; [reflexivity|]. split; [assumption|]. split.
      * left. intros w c' Hi. exfalso. apply (Hno _ _ Hi).
      * intros l1a t' c' l1b H _. exfalso. apply (Hno t' c'). rewrite H. apply in_app_iff. right; left; reflexivity.
    + split; [reflexivity|]. split; [apply is_textr_true; assumption|]. split; intros w c' [].
    + rewrite app_nil_r. reflexivity.
Qed.

Lemma kinds_split_beat : forall ms pre b c0 post v c,
  kinds_split ms pre b c0 post -> kinds_beats rd cmp b v = true -> kinds_split (ms ++ [(Some v, c)]) ms v c [].
Proof.
  intros ms pre b c0 post v c K Hb. unfold kinds_beats in Hb. destruct (isN v) eqn:Nv.
  - apply andb_prop in Hb. destruct Hb as [Nb Hb].
    destruct K as [[Hn F]|[l1 [t [c' [l2 [mid [FE [F ->]]]]]]]].
    + left. split.
      * apply no_entry_snoc; [assumption|]. intros Hf. congruence.
      * eapply (fsplit_new isN num_good num_good_refl num_good_trans num_good_total); [exact F|assumption|].
        intros G. apply num_good_goodb in G. rewrite G in Hb. discriminate.
    + exfalso. destruct F as [_ [Cb _]]. apply is_textr_true in Cb. congruence.
  - destruct K as [[Hn F]|[l1 [t [c' [l2 [mid [FE [F ->]]]]]]]].
    + right. exists ms, v, c, [], []. split; [|split].
      * split; [reflexivity|]. split; [assumption|]. split.
        -- right. exists pre, b, c0, post. split; assumption.
        -- intros l1a t' c' l1b H Nt'. apply (Hn _ _ _ _ H Nt').
      * split; [reflexivity|]. split; [apply is_textr_true; assumption|]. split; intros w c' [].
      * rewrite app_nil_r. reflexivity.
    + right. exists l1, t, c', (l2 ++ [(Some v, c)]), ((Some t, c') :: l2). split; [|split].
      * apply first_entry_snoc. assumption.
      * change ((Some t, c') :: l2 ++ [(Some v, c)]) with (((Some t, c') :: l2) ++ [(Some v, c)]).
        eapply (fsplit_new is_textr text_good text_good_refl text_good_trans text_good_total); [exact F|apply is_textr_true; assumption|].
        intros G. unfold text_good in G. congruence.
      * destruct FE as [H _]. exact H.
Qed.

Lemma kinds_split_keep : forall ms pre b c0 post v c,
  kinds_split ms pre b c0 post -> kinds_beats rd cmp b v = false ->
  kinds_split (ms ++ [(Some v, c)]) pre b c0 (post ++ [(Some v, c)]).
Proof.
  intros ms pre b c0 post v c K Hb. unfold kinds_beats in Hb.
  destruct K as [[Hn F]|[l1 [t [c' [l2 [mid [FE [F ->]]]]]]]].
  - pose proof F as [Hms [Nb _]]. left. split.
    + apply no_entry_snoc; [assumption|]. intros Nv [Hno|[pre' [a [ca [post' [F' Ha]]]]]].
      * rewrite (Hno b c0) in Nb; [discriminate|]. rewrite Hms. apply in_app_iff. right; left; reflexivity.
      * destruct (fsplit_unique _ _ _ _ _ _ _ _ _ _ _ F F') as [_ [-> _]]. rewrite Nv in Hb. congruence.
    + apply fsplit_keep; [assumption|]. intros Nv. rewrite Nv, Nb in Hb. cbn in Hb.
      apply negb_false_iff in Hb. apply num_good_goodb. exact Hb.
  - right. exists l1, t, c', (l2 ++ [(Some v, c)]), mid. split; [|split].
    + apply first_entry_snoc. assumption.
    + change ((Some t, c') :: l2 ++ [(Some v, c)]) with (((Some t, c') :: l2) ++ [(Some v, c)]).
      apply fsplit_keep; [assumption|]. intros Tv. apply is_textr_true in Tv. rewrite Tv in Hb. exact Hb.
    + reflexivity.
Qed.

Lemma kinds_split_null : forall ms pre b c0 post c,
  kinds_split ms pre b c0 post -> kinds_split (ms ++ [(None, c)]) pre b c0 (post ++ [(None, c)]).
Proof.
  intros ms pre b c0 post c [[Hn F]|[l1 [t [c' [l2 [mid [FE [F ->]]]]]]]].
  - left. split; [apply no_entry_snoc; [assumption|exact I]|apply fsplit_keep; [assumption|exact I]].
  - right. exists l1, t, c', (l2 ++ [(None, c)]), mid. split; [|split].
    + apply first_entry_snoc. assumption.
    + change ((Some t, c') :: l2 ++ [(None, c)]) with (((Some t, c') :: l2) ++ [(None, c)]).
      apply fsplit_keep; [assumption|exact I].
    + reflexivity.
Qed.

(* what max / min select on a collection of mixed kinds: the leader of the
   split and the LATER members that search_matches(EQUALS) deems equal to it
   ([kinds_eq]); inverted, all the others, nulls included *)
Definition kinds_selected (invert : bool) (ms : list mem) (c : coords) : Prop :=
  sp_selected (kinds_eq rd) kinds_split invert ms c.

End KSplit.

(* ---------- the theorems ---------- *)
Section Kinds.
Variable lit : string -> outcome litres.
Variable re_search : string -> string -> outcome reres.
Variable node_str : node -> string.

Lemma has_reading_not_none : forall rd v, has_reading lit rd v -> is_pnone v = false.
Proof. intros rd v [H _]. exact H. Qed.

(* what Searches.search_matches answers on two members with readings *)
Lemma search_matches_kinds : forall rd cmp a b,
  cmp = MGt \/ cmp = MLt -> has_reading lit rd a -> has_reading lit rd b ->
  search_matches_g lit re_search cmp a (HVal b) = Ok (kinds_beats rd cmp a b) /\
  search_matches_g lit re_search MEquals a (HVal b) = Ok (kinds_eq rd a b).
Proof.
  intros rd cmp a b Hc Ra Rb. split.
  - apply (kinds_cmp lit re_search rd cmp a b Hc Ra Rb).
  - apply (kinds_equals lit re_search rd a b Ra Rb).
Qed.

(* ... spelled out by the kinds of the two readings *)
Lemma kinds_beats_cases : forall rd cmp a b,
  (is_numr rd b = true -> is_numr rd a = true ->
     kinds_beats rd cmp a b = negb (goodb cmp (rd_leb rd) a b)) /\
  (is_numr rd b = true -> is_numr rd a = false -> kinds_beats rd cmp a b = false) /\
  (is_numr rd b = false -> kinds_beats rd cmp a b = text_beats cmp a b).
Proof.
  intros rd cmp a b. unfold kinds_beats. repeat split; intros H; try intros H'; rewrite H; try rewrite H'; reflexivity.
Qed.

Theorem extremum_list_readings : forall cmp rd invert i els x,
  cmp = MGt \/ cmp = MLt ->
  node_is_aoh true (NSeq i els) = false ->
  (forall v c, In (Some v, c) (map (list_member node_str x) (enumerate els)) -> has_reading lit rd v) ->
  exists res,
    extremum lit re_search node_str cmp invert [] (NSeq i els) x = Ok res /\
    forall c, In c res <-> kinds_selected cmp rd invert (map (list_member node_str x) (enumerate els)) c.
Proof.
  intros cmp rd invert i els x Hc Haoh HP.
  apply (extremum_list3 lit re_search cmp (kinds_beats rd cmp) (kinds_eq rd) (has_reading lit rd)
           (has_reading_not_none rd)
           (fun a b Pa Pb => kinds_cmp lit re_search rd cmp a b Hc Pa Pb)
           (kinds_equals lit re_search rd)
           (kinds_split cmp rd) (kinds_split_split cmp rd) (kinds_split_first cmp rd)
           (kinds_split_beat cmp rd) (kinds_split_keep cmp rd) (kinds_split_null cmp rd)
           (kinds_split_unique cmp rd) node_str invert i els x Haoh HP).
Qed.

Theorem extremum_aoh_readings : forall cmp rd invert attr i els x,
  cmp = MGt \/ cmp = MLt ->
  node_is_aoh true (NSeq i els) = true ->
  (forall v c, In (Some v, c) (map (aoh_member node_str attr x) (enumerate els)) -> has_reading lit rd v) ->
  exists res,
    extremum lit re_search node_str cmp invert [attr] (NSeq i els) x = Ok res /\
    forall c, In c res <-> kinds_selected cmp rd invert (map (aoh_member node_str attr x) (enumerate els)) c.
Proof.
  intros cmp rd invert attr i els x Hc Haoh HP.
  apply (extremum_aoh3 lit re_search cmp (kinds_beats rd cmp) (kinds_eq rd) (has_reading lit rd)
           (has_reading_not_none rd)
           (fun a b Pa Pb => kinds_cmp lit re_search rd cmp a b Hc Pa Pb)
           (kinds_equals lit re_search rd)
           (kinds_split cmp rd) (kinds_split_split cmp rd) (kinds_split_first cmp rd)
           (kinds_split_beat cmp rd) (kinds_split_keep cmp rd) (kinds_split_null cmp rd)
           (kinds_split_unique cmp rd) node_str invert attr i els x Haoh HP).
Qed.

Theorem extremum_hoh_readings : forall cmp rd invert attr i kvs x,
  cmp = MGt \/ cmp = MLt ->
  forallb (fun kv => is_map (snd kv)) kvs = true ->
  (forall v c, In (Some v, c) (map (hoh_member node_str attr x) kvs) -> has_reading lit rd v) ->
  exists res,
    extremum lit re_search node_str cmp invert [attr] (NMap i kvs) x = Ok res /\
    forall c, In c res <-> kinds_selected cmp rd invert (map (hoh_member node_str attr x) kvs) c.
Proof.
  intros cmp rd invert attr i kvs x Hc Hh HP.
  apply (extremum_hoh3 lit re_search cmp (kinds_beats rd cmp) (kinds_eq rd) (has_reading lit rd)
           (has_reading_not_none rd)
           (fun a b Pa Pb => kinds_cmp lit re_search rd cmp a b Hc Pa Pb)
           (kinds_equals lit re_search rd)
           (kinds_split cmp rd) (kinds_split_split cmp rd) (kinds_split_first cmp rd)
           (kinds_split_beat cmp rd) (kinds_split_keep cmp rd) (kinds_split_null cmp rd)
           (kinds_split_unique cmp rd) node_str invert attr i kvs x Hh HP).
Qed.

(* the member kinds of the task: ints, floats, booleans, plain text, numeric-looking text *)
Theorem extremum_list_kinds : forall cmp rd invert i els x,
  cmp = MGt \/ cmp = MLt ->
  node_is_aoh true (NSeq i els) = false ->
  (forall v c, In (Some v, c) (map (list_member node_str x) (enumerate els)) -> kind_member lit rd v) ->
  exists res,
    extremum lit re_search node_str cmp invert [] (NSeq i els) x = Ok res /\
    forall c, In c res <-> kinds_selected cmp rd invert (map (list_member node_str x) (enumerate els)) c.
Proof.
  intros cmp rd invert i els x Hc Haoh HP. apply extremum_list_readings; try assumption.
  intros v c Hi. apply kind_member_reading. apply (HP v c Hi).
Qed.

Theorem extremum_aoh_kinds : forall cmp rd invert attr i els x,
  cmp = MGt \/ cmp = MLt ->
  node_is_aoh true (NSeq i els) = true ->
  (forall v c, In (Some v, c) (map (aoh_member node_str attr x) (enumerate els)) -> kind_member lit rd v) ->
  exists res,
    extremum lit re_search node_str cmp invert [attr] (NSeq i els) x = Ok res /\
    forall c, In c res <-> kinds_selected cmp rd invert (map (aoh_member node_str attr x) (enumerate els)) c.
Proof.
  intros cmp rd invert attr i els x Hc Haoh HP. apply extremum_aoh_readings; try assumption.
  intros v c Hi. apply kind_member_reading. apply (HP v c Hi).
Qed.

Theorem extremum_hoh_kinds : forall cmp rd invert attr i kvs x,
  cmp = MGt \/ cmp = MLt ->
  forallb (fun kv => is_map (snd kv)) kvs = true ->
  (forall v c, In (Some v, c) (map (hoh_member node_str attr x) kvs) -> kind_member lit rd v) ->
  exists res,
    extremum lit re_search node_str cmp invert [attr] (NMap i kvs) x = Ok res /\
    forall c, In c res <-> kinds_selected cmp rd invert (map (hoh_member node_str attr x) kvs) c.
Proof.
  intros cmp rd invert attr i kvs x Hc Hh HP. apply extremum_hoh_readings; try assumption.
  intros v c Hi. apply kind_member_reading. apply (HP v c Hi).
Qed.

End Kinds.

(* ---------- the split in the two pure cases ---------- *)
(* every member reads as a number (ints, floats, booleans, numeric-looking
   text in any mix): the split is at the first numeric extremum *)
Lemma kinds_split_all_numbers : forall cmp rd ms pre b c0 post,
  (forall v c, In (Some v, c) ms -> is_numr rd v = true) ->
  (kinds_split cmp rd ms pre b c0 post <-> fsplit (is_numr rd) (num_good cmp rd) ms pre b c0 post).
Proof.
  intros cmp rd ms pre b c0 post Hall. split.
  - intros [[_ F]|[l1 [t [c [l2 [mid [[H [Nt _]] _]]]]]]]; [exact F|].
    exfalso. rewrite (Hall t c) in Nt; [discriminate|]. rewrite H. apply in_app_iff. right; left; reflexivity.
  - intros F. left. split; [|exact F]. intros l1 t c l2 H Nt _.
    rewrite (Hall t c) in Nt; [discriminate|]. rewrite H. apply in_app_iff. right; left; reflexivity.
Qed.

(* a text member comes before every number: no number is ever selected *)
Lemma kinds_split_text_first : forall cmp rd ms pre b c0 post l1 t c l2,
  ms = l1 ++ (Some t, c) :: l2 -> (forall w c', ~ In (Some w, c') l1) -> is_numr rd t = false ->
  (kinds_split cmp rd ms pre b c0 post <->
   exists mid, fsplit (is_textr rd) (text_good cmp) ((Some t, c) :: l2) mid b c0 post /\ pre = l1 ++ mid).
Proof.
  intros cmp rd ms pre b c0 post l1 t c l2 Hms Hno Nt.
  assert (FE : first_entry cmp rd ms l1 t c l2).
  { split; [assumption|]. split; [assumption|]. split.
    - left. intros w c' Hi. exfalso. apply (Hno _ _ Hi).
    - intros l1a t' c' l1b H _. exfalso. apply (Hno t' c'). rewrite H. apply in_app_iff. right; left; reflexivity. }
  split.
  - intros [[Hn _]|[l1' [t' [c' [l2' [mid [FE' [F ->]]]]]]]].
    + exfalso. destruct FE as [H [N [E _]]]. apply (Hn _ _ _ _ H N E).
    + destruct (first_entry_unique _ _ _ _ _ _ _ _ _ _ _ FE FE') as [-> [-> [-> ->]]].
      exists mid. split; [assumption|reflexivity].
  - intros [mid [F ->]]. right. exists l1, t, c, l2, mid. split; [assumption|]. split; [assumption|reflexivity].
Qed.
