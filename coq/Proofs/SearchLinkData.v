(* C12, inversion clause over EVERY data shape and over streams that end with an
   exception.

   Proofs/SearchLink.v links the evaluator model's [by_search] to the candidate
   loops for document nodes ([RNode n]) and, where a comparison raises, only
   says that the stream ends with that exception.  Here:

   * the candidate abstraction of Spec/SpecC12data.v ([scd_cands_of],
     [scd_items]: document nodes as before, lists built by the evaluator, a
     NodeCoords) is proved to be what [by_search] iterates over
     ([by_search_refines_data]; the RNode theorem is the instance);
   * [by_search_stream_data]: the stream of [by_search] is EXACTLY
     ([sc_select] (verdicts of the answers before the first comparison that
     does not answer) items, how the loop ends there) -- the items yielded
     before a raise stay in the stream, the candidate whose comparison raises
     and all later ones are absent, and the end of the stream does not depend
     on the inversion flag;
   * from it: the inversion clause for streams that end normally, on every
     data shape ([inversion_data], guard-free on lists / NodeCoords:
     [inversion_list_data], [inversion_coords_data]), and for the prefix when
     a comparison raises ([inversion_data_raises]). *)
From Coq Require Import List Ascii String ZArith NArith Bool Arith Lia.
From YP Require Import Outcome PyStr PyVal Doc Generated PathParser PathPrinter Searches SearchLoops Eval
  SearchCands SpecC12 SpecC12data SearchProofs SearchLink.
Import ListNotations.
Open Scope string_scope.
Open Scope nat_scope.
Open Scope list_scope.

(* ---------- sc_scan ---------- *)
Lemma sc_scan_ok b r : sc_scan (Ok b :: r) = (b :: fst (sc_scan r), snd (sc_scan r)).
Proof. cbn. destruct (sc_scan r). reflexivity. Qed.

Lemma sc_scan_not_mut os : forall o k, snd (sc_scan os) <> Mut o k.
Proof.
  induction os as [|[b|e|] r IH]; intros o k; try (cbn; discriminate).
  rewrite sc_scan_ok. cbn. apply IH.
Qed.

Lemma sc_scan_length os : List.length (fst (sc_scan os)) <= List.length os.
Proof.
  induction os as [|[b|e|] r IH]; try (cbn; lia). rewrite sc_scan_ok. cbn. lia.
Qed.

(* ended normally: every comparison answered *)
Lemma sc_scan_done os : forall ms, sc_scan os = (ms, Done) -> os = map (@Ok bool) ms.
Proof.
  induction os as [|[b|e|] r IH]; intros ms H; try (cbn in H; discriminate).
  - cbn in H. injection H as <-. reflexivity.
  - rewrite sc_scan_ok in H. injection H as <- Hs. cbn. f_equal. apply IH.
    destruct (sc_scan r); cbn in *; subst; reflexivity.
Qed.

(* ended with an exception: the answers before it, then the comparison that raises *)
Lemma sc_scan_err os : forall ms e, sc_scan os = (ms, Err e) ->
  exists rest, os = map (@Ok bool) ms ++ Raise e :: rest.
Proof.
  induction os as [|[b|e'|] r IH]; intros ms e H; try (cbn in H; discriminate).
  - rewrite sc_scan_ok in H. injection H as <- Hs.
    destruct (IH (fst (sc_scan r)) e) as [rest Hr].
    { destruct (sc_scan r); cbn in *; subst; reflexivity. }
    exists rest. cbn. f_equal. exact Hr.
  - cbn in H. injection H as <- <-. exists r. reflexivity.
Qed.

Lemma sc_scan_map_done {X} (f : X -> outcome bool) : forall xs ms,
  sc_scan (map f xs) = (ms, Done) -> mapM f xs = Ok ms.
Proof.
  induction xs as [|x r IH]; intros ms H.
  - cbn in H. injection H as <-. reflexivity.
  - cbn [map] in H. cbn [mapM]. destruct (f x) as [b|e|]; try (cbn in H; discriminate).
    rewrite sc_scan_ok in H. injection H as <- Hs.
    rewrite (IH (fst (sc_scan (map f r)))).
    + reflexivity.
    + destruct (sc_scan (map f r)); cbn in *; subst; reflexivity.
Qed.

Lemma sc_select_firstn {A} : forall (mask : list bool) (items : list A),
  sc_select mask items = sc_select mask (firstn (List.length mask) items).
Proof.
  induction mask as [|b r IH]; intros items; [reflexivity|].
  destruct items as [|x t]; [reflexivity|]. cbn. rewrite <- IH. reflexivity.
Qed.

(* ---------- the generic candidate loop, as an exact stream ---------- *)
Section GenScan.
Variable X Y : Type.
Variable f : X -> outcome bool.
Variable inv : bool.

Lemma gen_stream_scan (body : nat * Y -> gen rval) : forall (xs : list X) (ys : list Y) (its : list rval) idx,
  List.length ys = List.length xs -> List.length its = List.length xs ->
  (forall k x y it, nth_error xs k = Some x -> nth_error ys k = Some y -> nth_error its k = Some it ->
                    body (idx + k, y) = cand_body X f inv it x) ->
  gfor (enumerate_from idx ys) body =
  (sc_select (map (verdict inv) (fst (sc_scan (map f xs)))) its, snd (sc_scan (map f xs))).
Proof.
  induction xs as [|x r IH]; intros ys its idx Hys Hits Hb.
  - destruct ys; [|discriminate]. reflexivity.
  - destruct ys as [|y ys]; [discriminate|]. destruct its as [|it itr]; [discriminate|].
    cbn [enumerate_from gfor map].
    pose proof (Hb 0 x y it eq_refl eq_refl eq_refl) as H0. rewrite Nat.add_0_r in H0. rewrite H0.
    unfold cand_body. destruct (f x) as [mt|e|]; cbn [glift]; [|reflexivity|reflexivity].
    rewrite sc_scan_ok. cbn [fst snd map sc_select].
    assert (Hi : gfor (enumerate_from (S idx) ys) body =
                 (sc_select (map (verdict inv) (fst (sc_scan (map f r)))) itr, snd (sc_scan (map f r)))).
    { apply IH.
      - cbn in Hys. lia.
      - cbn in Hits. lia.
      - intros k x' y' it' Hx Hy Hi. replace (S idx + k) with (idx + S k) by lia.
        apply (Hb (S k) x' y' it'); assumption. }
    change (xorb_cond mt inv) with (verdict inv mt).
    destruct (verdict inv mt); unfold gapp, gone, gnil; rewrite Hi; reflexivity.
Qed.

(* the position loop of Proofs/SearchProofs.v read through [sc_scan] *)
Lemma gen_loop_scan : forall xs idx,
  gen_loop X f inv xs idx =
  match sc_scan (map f xs) with
  | (ms, Done) => Ok (mask_idxs (map (verdict inv) ms) idx)
  | (_, Err e) => Raise e
  | (_, Fuel) => OutOfFuel
  | (_, Mut _ _) => Raise OracleMiss
  end.
Proof.
  induction xs as [|x r IH]; intros idx; [reflexivity|].
  cbn [gen_loop map]. destruct (f x) as [mt|e|]; cbn [bind]; [|reflexivity|reflexivity].
  rewrite sc_scan_ok. rewrite (IH (S idx)). destruct (sc_scan (map f r)) as [ms [ |e| |o k]]; cbn; reflexivity.
Qed.
End GenScan.

(* an exact stream refines the position loop *)
Lemma stream_scan_refines {X} (f : X -> outcome bool) inv (xs : list X) (g : gen rval) (its : list rval) :
  List.length its = List.length xs ->
  g = (sc_select (map (verdict inv) (fst (sc_scan (map f xs)))) its, snd (sc_scan (map f xs))) ->
  sc_refines g (gen_loop X f inv xs 0) its.
Proof.
  intros Hl ->. rewrite gen_loop_scan.
  pose proof (sc_scan_not_mut (map f xs)) as Hm.
  destruct (sc_scan (map f xs)) as [ms st] eqn:Es. cbn [fst snd] in *.
  destruct st as [ |e| |o k]; cbn; try reflexivity.
  - pose proof (sc_scan_done _ _ Es) as Ho.
    assert (Hlen : List.length ms = List.length its).
    { rewrite Hl. rewrite <- (map_length f xs), Ho, map_length. reflexivity. }
    f_equal. symmetry. apply (sc_pick_mask (map (verdict inv) ms) its []). rewrite map_length. exact Hlen.
  - exfalso. apply (Hm o k). reflexivity.
Qed.

Section LinkData.
Variable lit : string -> outcome litres.
Variable re_search : string -> string -> outcome reres.
Variable nstr : node -> string.
Variable vstr : list rval -> string.
Variable rq : rval -> ctx -> gen rval.

Notation bys := (by_search lit re_search nstr vstr rq).
Notation hay_ := (sc_hay nstr vstr).
Notation cmp := (sc_cmp lit re_search).
Notation smf := (sm lit re_search).

(* ---------- the body of the list loop (processor.py:1433-1468), for any list data ---------- *)
Definition bys_list_body (inv : bool) (m : smethod) (attr term : string) (v : rval) (c : ctx) (is_aoh : bool)
           (ie : nat * rval) : gen rval :=
  let '(i, e) := ie in
  let zi := Z.of_nat i in
  let yield_if := fun (mt : bool) =>
    if xorb_cond mt inv then
      gone (ncoords e (Some v) (Some (PInt zi)) (tp_add (x_tp c) (idx_text zi)) (x_anc c ++ [(v, PInt zi)])%list)
    else gnil in
  if String.eqb attr "." then
    if is_aoh && negb (is_pynone e)
       && match dict_get (PStr term) e with Some _ => true | None => false end
    then yield_if true
    else glift (esm lit re_search nstr vstr m term e) yield_if
  else
    match dict_get (PStr attr) e with
    | Some x => glift (esm lit re_search nstr vstr m term (RNode x)) yield_if
    | None =>
        gfirst (rq e (mkctx None None true (tp_add (x_tp c) (idx_text zi)) (x_anc c ++ [(v, PInt zi)])%list))
          (fun f =>
             match f with
             | Some d => glift (cnode d) (fun nd => glift (esm lit re_search nstr vstr m term nd) yield_if)
             | None => yield_if false
             end)
    end.

Definition bys_list_items (v : rval) (c : ctx) (es : list rval) : list rval :=
  map (fun ie : nat * rval =>
         let zi := Z.of_nat (fst ie) in
         ncoords (snd ie) (Some v) (Some (PInt zi)) (tp_add (x_tp c) (idx_text zi)) (x_anc c ++ [(v, PInt zi)]))
      (enumerate es).

Lemma by_search_rlist inv m attr term l c :
  x_tl c = true ->
  bys inv m attr term (RList l) c =
  gfor (enumerate l)
       (bys_list_body inv m attr term (RList l) c (forallb (fun e => is_pynone e || is_pydict e) l)).
Proof. intros Htl. unfold by_search. rewrite Htl. reflexivity. Qed.

Lemma by_search_nseq inv m attr term i els c :
  x_tl c = true ->
  bys inv m attr term (RNode (NSeq i els)) c =
  gfor (enumerate (map RNode els))
       (bys_list_body inv m attr term (RNode (NSeq i els)) c
          (forallb (fun e => is_pynone e || is_pydict e) (map RNode els))).
Proof. intros Htl. unfold by_search. rewrite Htl. reflexivity. Qed.

(* element k of the list: the body of the loop IS "compare candidate k, yield on verdict" *)
Lemma list_body_cand inv m attr term v c es is_aoh cs :
  mapM (sc_list_cand nstr vstr rq v c is_aoh attr term) (enumerate es) = Ok cs ->
  List.length cs = List.length es /\
  forall k cnd e it,
    nth_error cs k = Some cnd -> nth_error es k = Some e -> nth_error (bys_list_items v c es) k = Some it ->
    bys_list_body inv m attr term v c is_aoh (0 + k, e) =
    cand_body lcand (lcand_match lit re_search m term) inv it cnd.
Proof.
  intros Hm. unfold enumerate in *. destruct (mapM_enum_nth _ _ _ _ Hm) as [Hlen Hnth].
  split; [exact Hlen|].
  intros k cnd e it Hc He Hi.
  assert (Hit : Some it = Some (ncoords e (Some v) (Some (PInt (Z.of_nat k)))
                                        (tp_add (x_tp c) (idx_text (Z.of_nat k)))
                                        (x_anc c ++ [(v, PInt (Z.of_nat k))]))).
  { rewrite <- Hi. unfold bys_list_items, enumerate.
    apply (nth_error_map_enum
             (fun ie : nat * rval =>
                ncoords (snd ie) (Some v) (Some (PInt (Z.of_nat (fst ie))))
                        (tp_add (x_tp c) (idx_text (Z.of_nat (fst ie))))
                        (x_anc c ++ [(v, PInt (Z.of_nat (fst ie)))]))
             es 0 k e He). }
  injection Hit as ->. clear Hi.
  specialize (Hnth k e cnd He Hc). cbn [Nat.add fst snd] in *.
  unfold sc_list_cand in Hnth. unfold bys_list_body.
  destruct (String.eqb attr ".") eqn:Ea.
  - injection Hnth as <-. unfold cand_body, lcand_match, sc_has_key. cbn [list_elem_matches].
    destruct is_aoh; cbn [andb].
    + destruct (negb (is_pynone e) && match dict_get (PStr term) e with Some _ => true | None => false end);
        reflexivity.
    + reflexivity.
  - destruct (dict_get (PStr attr) e) as [x|] eqn:Ed.
    + injection Hnth as <-. reflexivity.
    + destruct (sc_first_hays nstr vstr _) as [ds| |] eqn:Ef; cbn in Hnth; try discriminate.
      injection Hnth as <-. apply (first_hays_body lit re_search nstr vstr inv m term _ ds _ Ef).
Qed.

Lemma bys_list_items_length v c es : List.length (bys_list_items v c es) = List.length es.
Proof. unfold bys_list_items, enumerate. rewrite map_length, enumerate_from_length. reflexivity. Qed.

(* the list loop over any element list, as an exact stream *)
Lemma list_stream_scan inv m attr term v c es is_aoh cs :
  mapM (sc_list_cand nstr vstr rq v c is_aoh attr term) (enumerate es) = Ok cs ->
  gfor (enumerate es) (bys_list_body inv m attr term v c is_aoh) =
  (sc_select (map (verdict inv) (fst (sc_scan (cmp m term (SCList cs))))) (bys_list_items v c es),
   snd (sc_scan (cmp m term (SCList cs)))).
Proof.
  intros Hm. destruct (list_body_cand inv m attr term v c es is_aoh cs Hm) as [Hlen Hb].
  unfold enumerate. cbn [sc_cmp].
  apply (gen_stream_scan lcand rval (lcand_match lit re_search m term) inv _ cs es _ 0).
  - symmetry. exact Hlen.
  - rewrite bys_list_items_length. symmetry. exact Hlen.
  - exact Hb.
Qed.

(* ---------- refinement of the loops, for every data shape ---------- *)
Theorem by_search_refines_data inv m attr term v c cands :
  scd_cands_of nstr vstr rq attr term v c = Ok cands ->
  sc_refines (bys inv m attr term v c) (sc_run lit re_search inv m term cands) (scd_items attr v c).
Proof.
  intros H. destruct v as [n|l|nd par rf path anc]; cbn [scd_cands_of scd_items] in *.
  - apply by_search_refines. exact H.
  - destruct (x_tl c) eqn:Etl; cbn [negb] in *.
    + destruct (mapM _ _) as [cs| |] eqn:Em; cbn in H; try discriminate. injection H as <-.
      rewrite (by_search_rlist inv m attr term l c Etl). cbn [sc_run]. unfold list_loop.
      rewrite list_loop_from_gen.
      apply (stream_scan_refines (lcand_match lit re_search m term) inv cs).
      * rewrite map_length. unfold enumerate. rewrite enumerate_from_length.
        destruct (list_body_cand inv m attr term _ _ _ _ _ Em) as [Hl _]. symmetry. exact Hl.
      * apply (list_stream_scan inv m attr term _ _ _ _ _ Em).
    + injection H as <-. unfold by_search, sc_refines. rewrite Etl. reflexivity.
  - injection H as <-. cbn [sc_run]. unfold by_search, self_site. apply single_stream.
Qed.

(* ---------- the exact stream, for every data shape ---------- *)
Lemma single_stream_scan inv m term h (it : rval) :
  glift (smf m term h) (fun mt => if xorb_cond mt inv then gone it else gnil) =
  (sc_select (map (verdict inv) (fst (sc_scan [smf m term h]))) [it], snd (sc_scan [smf m term h])).
Proof.
  destruct (smf m term h) as [mt|e|]; cbn; try reflexivity.
  change (xorb_cond mt inv) with (verdict inv mt). destruct (verdict inv mt); reflexivity.
Qed.

Theorem by_search_stream_node inv m attr term n c cands :
  sc_cands_of nstr vstr rq attr term n c = Ok cands ->
  sc_guard cands = true ->
  bys inv m attr term (RNode n) c =
  (sc_select (map (verdict inv) (fst (sc_scan (cmp m term cands)))) (sc_items attr n c),
   snd (sc_scan (cmp m term cands))).
Proof.
  intros H Hg. destruct n as [i x|i kvs|i els|i els]; cbn [sc_cands_of] in H.
  - (* scalar self *)
    injection H as <-. unfold by_search, sc_items. cbn [sc_cmp]. apply single_stream_scan.
  - destruct (String.eqb attr ".") eqn:Ea.
    + (* hash keys *)
      injection H as <-. unfold by_search, sc_items. rewrite Ea. cbn [sc_cmp].
      rewrite (gfor_enum _ kvs 0).
      apply (gen_stream_scan hay (node * node) (smf m term) inv _ _ kvs _ 0).
      * rewrite map_length. reflexivity.
      * etransitivity; [apply map_length | symmetry; apply map_length].
      * intros k x y it Hx Hy Hi.
        apply (nth_map_inv _ _ _ _ _ Hy) in Hx. apply (nth_map_inv _ _ _ _ _ Hy) in Hi. subst x it. reflexivity.
    + destruct (assoc_key (PStr attr) kvs) as [value|] eqn:Ev.
      * (* hash attribute *)
        injection H as <-. unfold by_search, sc_items. rewrite Ea, Ev. cbn [sc_cmp]. apply single_stream_scan.
      * (* descendant search reaching at most one node *)
        destruct (sc_all_hays nstr vstr _) as [ds| |] eqn:Ed; cbn in H; try discriminate.
        injection H as <-. unfold by_search, sc_items. rewrite Ea, Ev.
        unfold sc_all_hays, sc_desc_hays in Ed.
        destruct (rq (RNode (NMap i kvs)) (mkctx (x_par c) (x_ref c) true (x_tp c) (x_anc c))) as [items st].
        destruct st; cbn in Ed; try discriminate.
        destruct (mapM cnode items) as [nds| |] eqn:Em; cbn in Ed; try discriminate.
        injection Ed as <-. cbn [fst snd].
        rewrite (desc_scan_stream lit re_search nstr vstr inv m term _ items nds false Em).
        cbn in Hg. destruct nds as [|nd [|nd2 r]]; cbn in Hg; try discriminate.
        -- cbn. destruct inv; reflexivity.
        -- cbn [map desc_scan sc_cmp]. change (sm lit re_search m term (hay_ nd)) with (smf m term (hay_ nd)).
           destruct (smf m term (hay_ nd)) as [mt|e|]; cbn; try reflexivity.
           destruct mt, inv; reflexivity.
  - destruct (x_tl c) eqn:Etl; cbn [negb] in H.
    + destruct (mapM _ _) as [cs| |] eqn:Em; cbn in H; try discriminate. injection H as <-.
      rewrite (by_search_nseq inv m attr term i els c Etl).
      rewrite (list_stream_scan inv m attr term _ _ _ _ _ Em).
      unfold sc_items, bys_list_items. rewrite Etl. reflexivity.
    + injection H as <-. unfold by_search, sc_items. rewrite Etl. reflexivity.
  - (* set members *)
    injection H as <-. unfold by_search, sc_items. cbn [sc_cmp].
    rewrite (gfor_enum _ els 0).
    apply (gen_stream_scan hay node (smf m term) inv _ _ els _ 0).
    + rewrite map_length. reflexivity.
    + etransitivity; [apply map_length | symmetry; apply map_length].
    + intros k x y it Hx Hy Hi.
      apply (nth_map_inv _ _ _ _ _ Hy) in Hx. apply (nth_map_inv _ _ _ _ _ Hy) in Hi. subst x it. reflexivity.
Qed.

Theorem by_search_stream_data inv m attr term v c cands :
  scd_cands_of nstr vstr rq attr term v c = Ok cands ->
  sc_guard cands = true ->
  bys inv m attr term v c =
  (sc_select (map (verdict inv) (fst (sc_scan (cmp m term cands)))) (scd_items attr v c),
   snd (sc_scan (cmp m term cands))).
Proof.
  intros H Hg. destruct v as [n|l|nd par rf path anc]; cbn [scd_cands_of scd_items] in *.
  - apply by_search_stream_node; assumption.
  - destruct (x_tl c) eqn:Etl; cbn [negb] in *.
    + destruct (mapM _ _) as [cs| |] eqn:Em; cbn in H; try discriminate. injection H as <-.
      rewrite (by_search_rlist inv m attr term l c Etl).
      apply (list_stream_scan inv m attr term _ _ _ _ _ Em).
    + injection H as <-. unfold by_search. rewrite Etl. reflexivity.
  - injection H as <-. unfold by_search. cbn [sc_cmp]. apply single_stream_scan.
Qed.

(* ---------- counting ---------- *)
Lemma scd_items_count attr term v c cands :
  scd_cands_of nstr vstr rq attr term v c = Ok cands -> List.length (scd_items attr v c) = sc_count cands.
Proof.
  intros H. destruct v as [n|l|nd par rf path anc]; cbn [scd_cands_of scd_items] in *.
  - apply (sc_items_count nstr vstr rq attr term n c cands H).
  - destruct (x_tl c); cbn [negb] in *.
    + destruct (mapM _ _) as [cs| |] eqn:Em; cbn in H; try discriminate. injection H as <-.
      unfold enumerate in *. destruct (mapM_enum_nth _ _ _ _ Em) as [Hl _].
      cbn. rewrite map_length, enumerate_from_length. symmetry. exact Hl.
    + injection H as <-. reflexivity.
  - injection H as <-. reflexivity.
Qed.

Lemma sc_cmp_length m term cs : List.length (cmp m term cs) = sc_count cs.
Proof. destruct cs as [l|l|v|[|d r]|l|v|]; cbn; rewrite ?map_length; reflexivity. Qed.

Lemma sc_cmp_matches m term cs ms :
  sc_scan (cmp m term cs) = (ms, Done) -> sc_matches lit re_search m term cs = Ok ms.
Proof.
  intros H. destruct cs as [l|l|v|[|d r]|l|v|]; cbn [sc_cmp sc_matches] in *;
    try (apply sc_scan_map_done; exact H);
    try (destruct (sm lit re_search m term _) as [mt|e|]; cbn in H; try discriminate;
         injection H as <-; reflexivity).
  - injection H as <-. reflexivity.
  - injection H as <-. reflexivity.
Qed.

(* on data that is not a document node the guard holds by itself: a list is
   searched by the list loop, a NodeCoords is compared itself *)
Lemma scd_guard_rlist attr term l c cands :
  scd_cands_of nstr vstr rq attr term (RList l) c = Ok cands -> sc_guard cands = true.
Proof.
  cbn [scd_cands_of]. destruct (x_tl c); cbn [negb].
  - destruct (mapM _ _); cbn; try discriminate. intros H. injection H as <-. reflexivity.
  - intros H. injection H as <-. reflexivity.
Qed.
Lemma scd_guard_rcoords attr term nd par rf path anc c cands :
  scd_cands_of nstr vstr rq attr term (RCoords nd par rf path anc) c = Ok cands -> sc_guard cands = true.
Proof. cbn [scd_cands_of]. intros H. injection H as <-. reflexivity. Qed.

(* ---------- the inversion clause, streams that end normally ---------- *)
Theorem inversion_data m attr term v c cands plain invd :
  scd_cands_of nstr vstr rq attr term v c = Ok cands ->
  sc_guard cands = true ->
  bys false m attr term v c = (plain, Done) ->
  bys true m attr term v c = (invd, Done) ->
  exists mask,
    sc_matches lit re_search m term cands = Ok mask /\
    List.length mask = List.length (scd_items attr v c) /\
    plain = sc_select mask (scd_items attr v c) /\
    invd = sc_select (map negb mask) (scd_items attr v c).
Proof.
  intros Hc Hg Hp Hi.
  rewrite (by_search_stream_data false m attr term v c cands Hc Hg) in Hp.
  rewrite (by_search_stream_data true m attr term v c cands Hc Hg) in Hi.
  destruct (sc_scan (cmp m term cands)) as [ms st] eqn:Es. cbn [fst snd] in *.
  injection Hp as <- ->. injection Hi as <-.
  exists ms. split; [apply sc_cmp_matches; exact Es|].
  split.
  - rewrite (scd_items_count attr term v c cands Hc), <- (sc_cmp_length m term cands).
    rewrite (sc_scan_done _ _ Es), map_length. reflexivity.
  - rewrite verdict_false_map, verdict_true_map. split; reflexivity.
Qed.

Theorem inversion_list_data m attr term l c cands plain invd :
  scd_cands_of nstr vstr rq attr term (RList l) c = Ok cands ->
  bys false m attr term (RList l) c = (plain, Done) ->
  bys true m attr term (RList l) c = (invd, Done) ->
  exists mask,
    sc_matches lit re_search m term cands = Ok mask /\
    List.length mask = List.length (scd_items attr (RList l) c) /\
    plain = sc_select mask (scd_items attr (RList l) c) /\
    invd = sc_select (map negb mask) (scd_items attr (RList l) c).
Proof.
  intros Hc. apply (inversion_data m attr term (RList l) c cands plain invd Hc).
  apply (scd_guard_rlist attr term l c cands Hc).
Qed.

(* a NodeCoords: one candidate, itself; nothing to assume at all *)
Theorem inversion_coords_data m attr term nd par rf path anc c plain invd :
  let v := RCoords nd par rf path anc in
  let self := ncoords v (x_par c) (x_ref c) (x_tp c) (x_anc c) in
  bys false m attr term v c = (plain, Done) ->
  bys true m attr term v c = (invd, Done) ->
  exists mt,
    sm lit re_search m term (hay_ nd) = Ok mt /\
    plain = (if mt then [self] else []) /\
    invd = (if mt then [] else [self]).
Proof.
  intros v self Hp Hi.
  destruct (inversion_data m attr term v c (SCSelf (hay_ v)) plain invd eq_refl eq_refl Hp Hi)
    as [mask [Hm [_ [-> ->]]]].
  cbn [sc_matches] in Hm. change (hay_ v) with (hay_ nd) in Hm.
  destruct (sm lit re_search m term (hay_ nd)) as [mt|e|]; cbn in Hm; try discriminate.
  injection Hm as <-. exists mt. split; [reflexivity|]. cbn. destruct mt; split; reflexivity.
Qed.

(* ---------- the inversion clause for the prefix, when a comparison raises ---------- *)
(* whichever of the two searches is seen to end with an exception [e]: both
   end with [e], at the same candidate k -- the candidates before k answered
   ([mask]), the comparison of candidate k raises [e], later candidates are
   never compared -- and on the candidates before k the inverted search yields
   exactly those the plain search does not *)
Theorem inversion_data_raises inv0 m attr term v c cands e :
  scd_cands_of nstr vstr rq attr term v c = Ok cands ->
  sc_guard cands = true ->
  snd (bys inv0 m attr term v c) = Err e ->
  exists k mask rest,
    List.length mask = k /\ k < List.length (scd_items attr v c) /\
    cmp m term cands = map (@Ok bool) mask ++ Raise e :: rest /\
    bys false m attr term v c = (sc_select mask (firstn k (scd_items attr v c)), Err e) /\
    bys true m attr term v c = (sc_select (map negb mask) (firstn k (scd_items attr v c)), Err e).
Proof.
  intros Hc Hg He.
  rewrite (by_search_stream_data inv0 m attr term v c cands Hc Hg) in He.
  rewrite (by_search_stream_data false m attr term v c cands Hc Hg).
  rewrite (by_search_stream_data true m attr term v c cands Hc Hg).
  destruct (sc_scan (cmp m term cands)) as [ms st] eqn:Es. cbn [fst snd] in *. subst st.
  destruct (sc_scan_err _ _ _ Es) as [rest Hr].
  exists (List.length ms), ms, rest. split; [reflexivity|]. split.
  - rewrite (scd_items_count attr term v c cands Hc), <- (sc_cmp_length m term cands), Hr.
    rewrite app_length, map_length. cbn. lia.
  - split; [exact Hr|]. rewrite verdict_false_map, verdict_true_map. split.
    + rewrite (sc_select_firstn ms). reflexivity.
    + rewrite (sc_select_firstn (map negb ms)), map_length. reflexivity.
Qed.

(* document nodes: the instance *)
Theorem inversion_doc_raises inv0 m attr term n c cands e :
  sc_cands_of nstr vstr rq attr term n c = Ok cands ->
  sc_guard cands = true ->
  snd (bys inv0 m attr term (RNode n) c) = Err e ->
  exists k mask rest,
    List.length mask = k /\ k < List.length (sc_items attr n c) /\
    cmp m term cands = map (@Ok bool) mask ++ Raise e :: rest /\
    bys false m attr term (RNode n) c = (sc_select mask (firstn k (sc_items attr n c)), Err e) /\
    bys true m attr term (RNode n) c = (sc_select (map negb mask) (firstn k (sc_items attr n c)), Err e).
Proof. exact (inversion_data_raises inv0 m attr term (RNode n) c cands e). Qed.

End LinkData.

(* ---------- the dispatcher: any data, NodeCoords unwrapped once ---------- *)
Lemma dispatch_search_data lit re_search nstr vstr kw_handler self sg_next rqp segs i us sub sub2
      inv m attr term v0 c0 :
  nth_error segs i = Some (PSeg (Some TSearch, ASearch inv m attr term) us sub sub2) ->
  dispatch lit re_search nstr vstr kw_handler self sg_next rqp segs i v0 c0 =
  by_search lit re_search nstr vstr (rqp sub) inv m attr term (fst (unwrap_ctx v0 c0)) (snd (unwrap_ctx v0 c0)).
Proof.
  intros H. unfold dispatch. rewrite H. cbn [seg_es seg_us seg_sub]. destruct us as [uty ua].
  cbn [is_ty is_stype]. destruct (unwrap_ctx v0 c0) as [v c]. destruct (0 <? i); reflexivity.
Qed.

Theorem inversion_data_dispatch lit re_search nstr vstr kw_handler self sg_next rqp segs i us sub sub2
      m attr term v0 c0 cands plain invd segs' :
  let v := fst (unwrap_ctx v0 c0) in
  let c := snd (unwrap_ctx v0 c0) in
  nth_error segs i = Some (PSeg (Some TSearch, ASearch false m attr term) us sub sub2) ->
  nth_error segs' i = Some (PSeg (Some TSearch, ASearch true m attr term) us sub sub2) ->
  scd_cands_of nstr vstr (rqp sub) attr term v c = Ok cands ->
  sc_guard cands = true ->
  dispatch lit re_search nstr vstr kw_handler self sg_next rqp segs i v0 c0 = (plain, Done) ->
  dispatch lit re_search nstr vstr kw_handler self sg_next rqp segs' i v0 c0 = (invd, Done) ->
  exists mask,
    sc_matches lit re_search m term cands = Ok mask /\
    List.length mask = List.length (scd_items attr v c) /\
    plain = sc_select mask (scd_items attr v c) /\
    invd = sc_select (map negb mask) (scd_items attr v c).
Proof.
  intros v c H1 H2 Hc Hg Hp Hi.
  rewrite (dispatch_search_data _ _ _ _ _ _ _ _ _ _ _ _ _ _ _ _ _ _ _ H1) in Hp.
  rewrite (dispatch_search_data _ _ _ _ _ _ _ _ _ _ _ _ _ _ _ _ _ _ _ H2) in Hi.
  exact (inversion_data lit re_search nstr vstr (rqp sub) m attr term v c cands plain invd Hc Hg Hp Hi).
Qed.

(* ---------- concrete data for the Examples of Properties/C12.v ---------- *)
(* `re` with a pattern that does not compile: re.error whatever the text *)
Definition scd_demo_re (p _ : string) : outcome reres :=
  if String.eqb p "(" then Ok RError else Ok (RMatch false).

(* Processor.get_nodes(text, mustexist=True) by the evaluator model *)
Definition scd_run (text : string) (d : node) : gen rval :=
  match prepare (String.length text + 2) text with
  | Ok p => get_required sc_demo_lit scd_demo_re sc_demo_nstr sc_demo_vstr sc_demo_kw sc_demo_cr p d
  | _ => gfuel
  end.

(* the data (and keyword arguments) a following search segment is handed when
   [text] yields one NodeCoords: unwrapped once, as the dispatcher does *)
Definition scd_data_at (text : string) (d : node) : rval * ctx :=
  match fst (scd_run text d) with
  | [x] => unwrap_ctx x root_ctx
  | _ => (RList [], root_ctx)
  end.

(* a yielded NodeCoords shown as (identity of the document node it finally
   wraps, parentref) *)
Fixpoint scd_deep_oid (x : rval) : N :=
  match x with RNode n => node_oid n | RCoords nd _ _ _ _ => scd_deep_oid nd | RList _ => 0%N end.
Definition scd_ids (l : list rval) : list (N * option pyval) :=
  map (fun x => match x with RCoords nd _ rf _ _ => (scd_deep_oid nd, rf) | _ => (0%N, None) end) l.

(* {x: [1, 5, 1, abc]}  (the two 1 are one interned object) *)
Definition scd_doc_slice : node :=
  NMap (sc_inf 1) [(sc_leaf 2 (PStr "x"),
     NSeq (sc_inf 3) [sc_leaf 4 (PInt 1); sc_leaf 5 (PInt 5); sc_leaf 4 (PInt 1); sc_leaf 6 (PStr "abc")])].
(* [{'(': 1}, {b: 2}, {c: 3}] *)
Definition scd_seq_regex : node :=
  NSeq (sc_inf 3) [NMap (sc_inf 4) [(sc_leaf 5 (PStr "("), sc_leaf 6 (PInt 1))];
                   NMap (sc_inf 7) [(sc_leaf 8 (PStr "b"), sc_leaf 9 (PInt 2))];
                   NMap (sc_inf 10) [(sc_leaf 11 (PStr "c"), sc_leaf 12 (PInt 3))]].
(* {x: [{b: 1}, {a: 2}, {c: 3}]} *)
Definition scd_seq_attr : node :=
  NSeq (sc_inf 3) [NMap (sc_inf 4) [(sc_leaf 5 (PStr "b"), sc_leaf 6 (PInt 1))];
                   NMap (sc_inf 7) [(sc_leaf 8 (PStr "a"), sc_leaf 9 (PInt 2))];
                   NMap (sc_inf 10) [(sc_leaf 11 (PStr "c"), sc_leaf 12 (PInt 3))]].
Definition scd_doc_attr : node := NMap (sc_inf 1) [(sc_leaf 2 (PStr "x"), scd_seq_attr)].
