(* C08: token-level facts (separator, brackets, quotes, operators) and the
   per-segment simulation lemmas of the reference writer. *)
From Coq Require Import List Ascii String ZArith Bool Arith Lia.
From YP Require Import Outcome PyStr Generated PathParser PathPrinter C08Spec RtStep.
Import ListNotations.
Open Scope string_scope.
Open Scope nat_scope.

(* the segment a pending text becomes when it is flushed *)
Definition pend (sid : string) (ty : option segtype) : outcome (list seg) :=
  if nonempty sid then do sg <- expand_splats sid (key_if_none ty); Ok [sg] else Ok [].

(* top-level state *)
Notation Top S ty A acc sa sc := (Gst false S ty [] false None A None 0 CNone acc sa sc).

Lemma sep_step_top strip sp S ty A acc sa sc :
  step strip (sep_char sp) (Top S ty A acc sa sc) (sep_char sp)
  = (do p <- pend acc ty; Ok (Top (S ++ p)%list None A "" true sc)).
Proof.
  unfold pend. destruct sp, sa, sc; destruct acc as [|a r]; cbn [nonempty bind];
    try (rewrite app_nil_r; reflexivity);
    unfold step; cbn -[expand_splats];
    destruct (expand_splats (String a r) (key_if_none ty)); reflexivity.
Qed.

Notation Br S ty i m A acc sa sc := (Gst false S ty ["["%char] i m A None 0 CNone acc sa sc).
Notation Qt q S ty A acc sa sc := (Gst false S ty [qchar q] false None A None 0 CNone acc sa sc).
Notation BQ q S ty i m A acc sa sc := (Gst false S ty [qchar q; "["%char] i m A None 0 CNone acc sa sc).
Notation BrD d S ty i m A acc sa sc := (GstD d false S ty ["["%char] i m A None 0 CNone acc sa sc).
Notation BQD d q S ty i m A acc sa sc := (GstD d false S ty [qchar q; "["%char] i m A None 0 CNone acc sa sc).
Notation Kw S i k acc sa sc :=
  (Gst false S (Some TKeywordSearch) ["("%char; "["%char] i None "" (Some k) 0 CNone acc sa sc).

Lemma finish_top S ty A acc sa sc :
  finish (Top S ty A acc sa sc) = (do p <- pend acc ty; Ok (S ++ p)%list).
Proof.
  unfold pend, finish. destruct acc as [|a r]; cbn [nonempty bind].
  - cbn. rewrite app_nil_r. reflexivity.
  - cbn -[expand_splats]. destruct (expand_splats (String a r) (key_if_none ty)); reflexivity.
Qed.

Lemma open_bracket_top strip sepc S ty A acc sa sc :
  step strip sepc (Top S ty A acc sa sc) "["%char
  = (do p <- pend acc ty; Ok (Br (S ++ p)%list (Some TIndex) false None "" "" true false)).
Proof.
  unfold pend. destruct sa, sc; destruct acc as [|a r]; cbn [nonempty bind];
    try (rewrite app_nil_r; reflexivity);
    unfold step; cbn -[expand_splats];
    destruct (expand_splats (String a r) (key_if_none ty)); reflexivity.
Qed.

(* the anchor mark *)
Lemma amp_top strip sepc S ty A sc :
  step strip sepc (Top S ty A "" true sc) "&"%char = Ok (Top S (Some TAnchor) A "" false sc).
Proof. destruct sc; reflexivity. Qed.

Lemma amp_bracket strip sepc S ty i m A sc :
  step strip sepc (Br S ty i m A "" true sc) "&"%char = Ok (Br S (Some TAnchor) i m A "" false sc).
Proof. destruct sc; reflexivity. Qed.

(* ] closing an element index, a slice, an anchor, a search *)
Lemma close_index strip sepc S i m A acc sa sc z :
  str_in ":"%char acc = false -> py_int acc = Some z ->
  step strip sepc (Br S (Some TIndex) i m A acc sa sc) "]"%char
  = Ok (Top (S ++ [(Some TIndex, AInt z)])%list None A "" sa sc).
Proof.
  intros H1 H2. destruct sa, sc; unfold step; cbn -[py_int str_in]; rewrite H1, H2; reflexivity.
Qed.

Lemma close_slice strip sepc S i A acc sa sc :
  str_in ":"%char acc = true ->
  step strip sepc (Br S (Some TIndex) i None A acc sa sc) "]"%char
  = Ok (Top (S ++ [(Some TIndex, AStr acc)])%list None A "" sa sc).
Proof.
  intros H1. destruct sa, sc; unfold step; cbn -[py_int str_in]; rewrite H1; reflexivity.
Qed.

Lemma close_anchor strip sepc S i A acc sa sc :
  step strip sepc (Br S (Some TAnchor) i None A acc sa sc) "]"%char
  = Ok (Top (S ++ [(Some TAnchor, AStr acc)])%list None A "" sa sc).
Proof. destruct sa, sc; reflexivity. Qed.

(* since the fix of F21 the term is undemarcated only when a demarcating quote opened it *)
Lemma close_search strip sepc d S i m A acc sa sc :
  step strip sepc (BrD d S (Some TSearch) i (Some m) A acc sa sc) "]"%char
  = Ok (Top (S ++ [(Some TSearch, ASearch i m A (if d then undemarcate acc else acc))])%list None A "" sa sc).
Proof. destruct d, sa, sc; unfold step; cbn -[undemarcate]; reflexivity. Qed.

(* search operators; the attribute must have been read *)
Lemma bang_bracket strip sepc S ty A acc sa sc :
  step strip sepc (Br S ty false None A acc sa sc) "!"%char = Ok (Br S ty true None A acc sa sc).
Proof. destruct sa, sc; reflexivity. Qed.

Definition op1 (m : smethod) : option ascii :=
  match m with
  | MContains => Some "%" | MEndsWith => Some "$" | MEquals => Some "=" | MStartsWith => Some "^"
  | MGt => Some ">" | MLt => Some "<" | _ => None
  end%char.

Lemma op_bracket strip sepc S ty i A0 a r sa sc m c :
  op1 m = Some c ->
  step strip sepc (Br S ty i None A0 (String a r) sa sc) c
  = Ok (Br S (Some TSearch) i (Some m) (String a r) "" sa sc).
Proof.
  intros H. destruct m; inversion H; subst; destruct sa, sc; reflexivity.
Qed.

Lemma op_ge strip sepc S i A sa sc :
  step strip sepc (Br S (Some TSearch) i (Some MGt) A "" sa sc) "="%char
  = Ok (Br S (Some TSearch) i (Some MGe) A "" sa sc).
Proof. destruct sa, sc; reflexivity. Qed.

Lemma op_le strip sepc S i A sa sc :
  step strip sepc (Br S (Some TSearch) i (Some MLt) A "" sa sc) "="%char
  = Ok (Br S (Some TSearch) i (Some MLe) A "" sa sc).
Proof. destruct sa, sc; reflexivity. Qed.

(* =~ d expr d ] *)
Definition Rseek S i A sa sc : pst :=
  mkpst S "" (Some TSearch) ["["%char] false i (Some MRegex) A None true false 0 CNone sc None sa 1 false.
Definition Rcap d S i A acc sa sc : pst :=
  mkpst S acc (Some TSearch) [d; "["%char] false i (Some MRegex) A None false true 0 CNone sc None sa 2 false.

Lemma tilde_bracket strip sepc S i A sa sc :
  step strip sepc (Br S (Some TSearch) i (Some MEquals) A "" sa sc) "~"%char = Ok (Rseek S i A sa sc).
Proof. destruct sa, sc; reflexivity. Qed.

Lemma delim_open strip sepc S i A sa sc d :
  Ascii.eqb d "\"%char = false -> Ascii.eqb d " "%char = false ->
  step strip sepc (Rseek S i A sa sc) d = Ok (Rcap d S i A "" sa sc).
Proof.
  intros H1 H2. unfold step, Rseek, Rcap. cbn. rewrite H1, H2. cbn. reflexivity.
Qed.

Lemma delim_char strip sepc S i A acc sa sc d c :
  Ascii.eqb c d = false ->
  step strip sepc (Rcap d S i A acc sa sc) c = Ok (Rcap d S i A (snoc acc c) false false).
Proof.
  intros H1. unfold step, Rcap. cbn. rewrite H1. cbn. reflexivity.
Qed.

Lemma delim_close strip sepc S i A acc sa sc d rest :
  run strip sepc (Rcap d S i A acc sa sc) (String d (String "]"%char rest))
  = run strip sepc (Top (S ++ [(Some TSearch, ASearch i MRegex A acc)])%list None A "" sa sc) rest.
Proof.
  cbn [run]. unfold step at 1. unfold Rcap. cbn -[undemarcate run step]. rewrite Ascii.eqb_refl.
  cbn -[undemarcate run step]. destruct sa, sc; unfold step at 1; cbn -[undemarcate run step]; reflexivity.
Qed.

(* quotes at top level *)
Lemma quote_open_top strip sepc q S ty A sa sc :
  step strip sepc (Top S ty A "" sa sc) (qchar q) = Ok (Qt q S ty A "" sa sc).
Proof. destruct q, sa, sc; reflexivity. Qed.

Lemma quote_close_top strip sepc q S ty A a r sa sc :
  step strip sepc (Qt q S ty A (String a r) sa sc) (qchar q)
  = Ok (Top (S ++ [(key_if_none ty, AStr (String a r))])%list None A "" sa sc).
Proof. destruct q, sa, sc; reflexivity. Qed.

(* quotes inside [ ] *)
(* a quote that opens the term of a search (method known, nothing accumulated) demarcates it *)
Definition opens_term (m : option smethod) (acc : string) : bool :=
  match m with Some _ => negb (nonempty acc) | None => false end.

Lemma quote_open_br strip sepc q S ty i m A acc sa sc :
  step strip sepc (Br S ty i m A acc sa sc) (qchar q)
  = Ok (BQD (opens_term m acc) q S ty i m A (snoc acc (qchar q)) false false).
Proof. destruct q, sa, sc, m, acc; reflexivity. Qed.

Lemma quote_close_br strip sepc d q S ty i m A acc sa sc :
  step strip sepc (BQD d q S ty i m A acc sa sc) (qchar q)
  = Ok (BrD d S ty i m A (snoc acc (qchar q)) false false).
Proof. destruct d, q, sa, sc; reflexivity. Qed.

(* the other quote character inside a quote pair inside [ ]: a nested pair
   (the text so far is not empty -- it starts with the demarcating quote -- so
   the mark does not count as the one that opens the term) *)
Notation BN open d q S ty i m A acc := (GstD d false S ty (nstk q open) i m A None 0 CNone acc false false).

Lemma nest_open strip sepc d q S ty i m A a r :
  step strip sepc (BN false d q S ty i m A (String a r)) (qchar (other_quote q))
  = Ok (BN true d q S ty i m A (snoc (String a r) (qchar (other_quote q)))).
Proof. destruct d, q, m; reflexivity. Qed.

Lemma nest_close strip sepc d q S ty i m A acc :
  step strip sepc (BN true d q S ty i m A acc) (qchar (other_quote q))
  = Ok (BN false d q S ty i m A (snoc acc (qchar (other_quote q)))).
Proof. destruct d, q; reflexivity. Qed.

(* keyword searches *)
Lemma kw_open strip sepc S i k sa sc :
  run strip sepc (Br S (Some TIndex) i None "" "" sa sc) (kw_text k ++ "(")
  = Ok (Kw S i k "" false false).
Proof. destruct k, i, sa, sc; vm_compute; reflexivity. Qed.

Lemma kw_close strip sepc S i k acc sa sc rest :
  run strip sepc (Kw S i k acc sa sc) (String ")"%char (String "]"%char rest))
  = run strip sepc (Top (S ++ [(Some TKeywordSearch, AKeyword i k acc)])%list None "" "" sa false) rest.
Proof. destruct sa, sc; reflexivity. Qed.

(* collectors: n+1 parentheses are open *)
Definition Cst S A op n acc sa sc : pst :=
  Gst false S (Some TCollector) (repeat "("%char (Datatypes.S n)) false None A None (Datatypes.S n) op acc sa sc.

Lemma coll_open_top strip sepc S ty A acc sa sc :
  step strip sepc (Top S ty A acc sa sc) "("%char
  = (do p <- pend acc ty; Ok (Cst (S ++ p)%list A CNone 0 "" sa false)).
Proof.
  unfold pend, Cst. destruct sa, sc; destruct acc as [|a r]; cbn [nonempty bind];
    try (rewrite app_nil_r; reflexivity);
    unfold step; cbn -[expand_splats];
    destruct (expand_splats (String a r) (key_if_none ty)); reflexivity.
Qed.

(* an operator and the parenthesis, directly after a collector *)
Lemma coll_op_open strip sepc S ty A op rest :
  run strip sepc (Top S ty A "" false true) (cop_text op ++ String "("%char rest)
  = run strip sepc (Cst S A op 0 "" false false) rest.
Proof. destruct op; reflexivity. Qed.

Definition coll_plain_char (c : ascii) : bool :=
  expr_char_ok c && negb (Ascii.eqb c "("%char) && negb (Ascii.eqb c ")"%char).

Lemma coll_plain strip sepc S A op n acc sa sc c :
  coll_plain_char c = true -> first_ok sa sc c = true ->
  step strip sepc (Cst S A op n acc sa sc) c = Ok (Cst S A op n (snoc acc c) false false).
Proof.
  intros H F. unfold Cst. destruct n as [|[|n]]; destruct sa, sc; all_ascii c; vm_compute in H; try discriminate H;
    vm_compute in F; try discriminate F; vm_compute; reflexivity.
Qed.

(* the outermost open mark of a collector's stack is its own parenthesis (the
   test of the F30 repair: no collector inside a [...] segment) *)
Lemma bottom_of_parens n : bottom_of ("("%char :: repeat "("%char n) = Ok "("%char.
Proof. induction n as [|n IH]; [reflexivity | exact IH]. Qed.

Lemma coll_nest strip sepc S A op n acc sa sc :
  step strip sepc (Cst S A op n acc sa sc) "("%char = Ok (Cst S A op (Datatypes.S n) (snoc acc "("%char) false false).
Proof.
  unfold Cst. destruct n as [|[|n]]; destruct sa, sc; try (vm_compute; reflexivity);
    unfold step; cbn -[bottom_of];
    change (bottom_of (_ :: _ :: _ :: repeat "("%char n))
      with (bottom_of ("("%char :: repeat "("%char (Datatypes.S (Datatypes.S n))));
    rewrite bottom_of_parens; reflexivity.
Qed.

Lemma coll_unnest strip sepc S A op n acc sa sc :
  step strip sepc (Cst S A op (Datatypes.S n) acc sa sc) ")"%char = Ok (Cst S A op n (snoc acc ")"%char) false false).
Proof. unfold Cst. destruct n as [|[|n]]; destruct sa, sc; vm_compute; reflexivity. Qed.

Lemma coll_close strip sepc S A op acc sa sc :
  step strip sepc (Cst S A op 0 acc sa sc) ")"%char
  = Ok (Top (S ++ [(Some TCollector, ACollector op acc)])%list None A "" sa true).
Proof. unfold Cst. destruct sa, sc; reflexivity. Qed.

Lemma coll_expr strip sepc S A op : forall e d n acc sa,
  balanced d e = true -> all_chars expr_char_ok e = true ->
  (sa = true -> first_not_in ["&"%char] e = true) ->
  run strip sepc (Cst S A op (d + n) acc sa false) e = Ok (Cst S A op n (acc ++ e) (aft sa e) false).
Proof.
  induction e as [|c r IH]; intros d n acc sa Hb Ha Hf.
  - cbn in Hb. apply Nat.eqb_eq in Hb. subst d. cbn. rewrite app_nil_r_s. reflexivity.
  - cbn [balanced] in Hb. cbn [all_chars] in Ha. apply andb_true_iff in Ha. destruct Ha as [Hc Ha].
    cbn [run aft].
    destruct (Ascii.eqb c "("%char) eqn:E1.
    + apply Ascii.eqb_eq in E1. subst c. rewrite coll_nest. cbn [bind].
      change (Datatypes.S (d + n)) with (Datatypes.S d + n).
      rewrite (IH (Datatypes.S d) n _ false Hb Ha) by discriminate.
      rewrite app_snoc. destruct r; reflexivity.
    + destruct (Ascii.eqb c ")"%char) eqn:E2.
      * apply Ascii.eqb_eq in E2. subst c. destruct d as [|d']; [discriminate|].
        change (Datatypes.S d' + n) with (Datatypes.S (d' + n)). rewrite coll_unnest. cbn [bind].
        rewrite (IH d' n _ false Hb Ha) by discriminate.
        rewrite app_snoc. destruct r; reflexivity.
      * rewrite coll_plain.
        -- cbn [bind]. rewrite (IH d n _ false Hb Ha) by discriminate.
           rewrite app_snoc. destruct r; reflexivity.
        -- unfold coll_plain_char. rewrite Hc, E1, E2. reflexivity.
        -- unfold first_ok. destruct sa; [|reflexivity].
           specialize (Hf eq_refl). cbn in Hf. cbn.
           destruct (Ascii.eqb c "&"%char); [discriminate Hf | reflexivity].
Qed.
