(* C07: the TEXT yaml-paths builds for a place is [build_path] of the place's
   location - for every reported path of search_for_paths / yield_children,
   whatever the options and the control flow - provided
     * the keys on the way are ones escape_path_section protects (guard of the
       resolve theorem anyway; an empty key would also make the tool drop the
       separator after it), and
     * no sequence element of the document carries an anchor (the tool prints
       such an element as [&anchor], finding F-C07-4), and
     * anchor names are not searched (--refnames off: no merge-key reports).
   With Proofs/ResolveMain.v: the reported text resolves to the place. *)
From Coq Require Import List Ascii String ZArith NArith Bool Arith Lia.
From YP Require Import Outcome PyStr PyVal Doc Generated PathParser PathPrinter Searches PathsSearch SpecC07
     C08Spec RtStep RtSeg RtInt RtRender RtTables RtCanon PathBuild ResolveWr ResolveText.
Import ListNotations.
Open Scope string_scope.

(* no sequence element (at any depth) carries an anchor *)
Fixpoint seq_plain (n : node) : bool :=
  match n with
  | NLeaf _ _ => true
  | NMap _ kvs => forallb (fun kv => seq_plain (snd kv)) kvs
  | NSeq _ els => forallb (fun e => match get_node_anchor e with None => seq_plain e | Some _ => false end) els
  | NSet _ _ => true
  end.

Section PathText.
Variable sp : sep.
Notation sepc := (sep_char sp).

(* a reference whose text the tool and build_path write alike *)
Definition okr (r : ref) : bool :=
  match r with
  | RKey PNone | RMember PNone => false
  | _ => gsafe sepc (gs_of_ref r)
  end.
Definition okl (l : loc) : bool := forallb okr l.

Lemma okl_app a b : okl (a ++ b)%list = (okl a && okl b)%bool.
Proof. apply forallb_app. Qed.

(* the prefix handed down: "" at the root *)
Definition pb_bp (l : loc) : string := match l with [] => "" | _ => build_path sp l end.

Lemma pb_go_snoc r : forall l first, l <> [] ->
  pb_go sepc first (l ++ [r])%list = pb_go sepc first l ++ pb_ref_text sepc false r.
Proof.
  induction l as [|x rest IH]; intros first Hn; [congruence|]. cbn [app pb_go].
  destruct rest as [|y rest'].
  - cbn [app pb_go]. rewrite !app_nil_r_s. reflexivity.
  - rewrite IH by discriminate. rewrite app_assoc_s. reflexivity.
Qed.

Lemma build_path_snoc l r : l <> [] -> build_path sp (l ++ [r])%list = build_path sp l ++ pb_ref_text sepc false r.
Proof. intros Hn. unfold build_path. rewrite pb_go_snoc by exact Hn. rewrite app_assoc_s. reflexivity. Qed.

Lemma okr_text_nonempty r first : okr r = true -> nonempty (pb_ref_text sepc first r) = true.
Proof.
  intros H. destruct r as [k|i|k]; cbn [pb_ref_text]; try reflexivity.
  - assert (Hs : safe_key sepc (py_str k) = true) by (destruct k; try discriminate H; exact H).
    unfold pb_sec. rewrite (escape_section_wr sp _ (safe_key_okbs _ _ Hs)).
    destruct first; [|reflexivity]. apply wr_nonempty. destruct (safe_key_parts sp _ Hs) as (N & _). exact N.
  - assert (Hs : safe_key sepc (py_str k) = true) by (destruct k; try discriminate H; exact H).
    unfold pb_sec. rewrite (escape_section_wr sp _ (safe_key_okbs _ _ Hs)).
    destruct first; [|reflexivity]. apply wr_nonempty. destruct (safe_key_parts sp _ Hs) as (N & _). exact N.
Qed.

Lemma nonempty_app_l a b : nonempty a = true -> nonempty (a ++ b) = true.
Proof. destruct a; [discriminate | reflexivity]. Qed.
Lemma nonempty_app_r a b : nonempty b = true -> nonempty (a ++ b) = true.
Proof. destruct a; [intros H; exact H | reflexivity]. Qed.

Lemma build_path_nonempty l : l <> [] -> okl l = true -> nonempty (build_path sp l) = true.
Proof.
  intros Hn Hok. destruct l as [|r rest]; [congruence|]. cbn [okl forallb] in Hok.
  apply andb_true_iff in Hok. destruct Hok as [Hr _].
  unfold build_path. apply nonempty_app_r. cbn [pb_go]. apply nonempty_app_l. apply okr_text_nonempty. exact Hr.
Qed.

Definition PT (lc : loc) (bp : string) : Prop := okl lc = true -> bp = pb_bp lc.

Lemma is_slash_text : (if is_slash sp then strsep sp else "") = match sp with Slash => "/" | Dot => "" end.
Proof. destruct sp; reflexivity. Qed.

Lemma key_text_val key :
  PathsSearch.key_val key <> PNone -> key_text key = py_str (PathsSearch.key_val key).
Proof. destruct key; cbn; try congruence; reflexivity. Qed.

(* a mapping key / set member *)
Lemma PT_key lc bp key (mk : pyval -> ref) :
  (mk = RKey \/ mk = RMember) ->
  PT lc bp -> PT (lc ++ [mk (PathsSearch.key_val key)])%list (map_prefix sp bp ++ escp sp (key_text key)).
Proof.
  intros Hmk H Hok. rewrite okl_app in Hok. apply andb_true_iff in Hok. destruct Hok as [Hl Hr].
  specialize (H Hl). subst bp. cbn [okl forallb] in Hr. rewrite andb_true_r in Hr.
  assert (Hkv : PathsSearch.key_val key <> PNone).
  { intros E. rewrite E in Hr. destruct Hmk as [-> | ->]; discriminate Hr. }
  rewrite (key_text_val key Hkv). unfold escp, map_prefix.
  assert (Ht : pb_ref_text sepc false (mk (PathsSearch.key_val key))
               = str1 sepc ++ escape_path_section (py_str (PathsSearch.key_val key)) sepc
               /\ pb_ref_text sepc true (mk (PathsSearch.key_val key))
                  = escape_path_section (py_str (PathsSearch.key_val key)) sepc).
  { destruct Hmk as [-> | ->]; split; reflexivity. }
  destruct Ht as [Ht1 Ht2].
  destruct lc as [|x rest].
  - cbn [pb_bp nonempty app]. unfold build_path. cbn [pb_go]. rewrite Ht2, app_nil_r_s.
    destruct sp; reflexivity.
  - assert (Hne : nonempty (build_path sp (x :: rest)) = true) by (apply build_path_nonempty; [discriminate | exact Hl]).
    cbn [pb_bp]. rewrite Hne.
    assert (E : pb_bp ((x :: rest) ++ [mk (PathsSearch.key_val key)])%list = build_path sp ((x :: rest) ++ [mk (PathsSearch.key_val key)])%list)
      by reflexivity.
    rewrite E, build_path_snoc by discriminate. rewrite Ht1, app_assoc_s. unfold strsep, sepch, str1. reflexivity.
Qed.

(* a sequence element without an anchor *)
Lemma PT_idx lc bp idx :
  PT lc bp -> PT (lc ++ [RIdx idx])%list (seq_prefix sp bp ++ nat_str idx ++ "]").
Proof.
  intros H Hok. rewrite okl_app in Hok. apply andb_true_iff in Hok. destruct Hok as [Hl _].
  specialize (H Hl). subst bp. unfold seq_prefix, root_slash, nat_str.
  destruct lc as [|x rest].
  - cbn [pb_bp nonempty negb andb app]. unfold build_path. cbn [pb_go pb_ref_text]. unfold pb_idx.
    destruct sp; cbn; rewrite ?app_nil_r_s; reflexivity.
  - assert (Hne : nonempty (build_path sp (x :: rest)) = true) by (apply build_path_nonempty; [discriminate | exact Hl]).
    cbn [pb_bp]. rewrite Hne. cbn [negb andb].
    assert (E : pb_bp ((x :: rest) ++ [RIdx idx])%list = build_path sp ((x :: rest) ++ [RIdx idx])%list) by reflexivity.
    rewrite E, build_path_snoc by discriminate. cbn [pb_ref_text]. unfold pb_idx. rewrite !app_assoc_s. reflexivity.
Qed.

(* what is claimed of every reported path *)
Definition HP (lc : loc) (h : hit) : Prop :=
  (exists rest, h_loc h = (lc ++ rest)%list) /\ (okl (h_loc h) = true -> h_path h = build_path sp (h_loc h)).

Lemma HP_up lc r h : HP (lc ++ [r])%list h -> HP lc h.
Proof.
  intros [[rest E] H]. split; [|exact H]. exists (r :: rest). rewrite E, <- app_assoc. reflexivity.
Qed.

Lemma HP_hit lc tmp kd : PT lc tmp -> lc <> [] -> HP lc (mkhit tmp lc kd).
Proof.
  intros H Hn. split; [exists []; cbn; rewrite app_nil_r; reflexivity|]. cbn [h_loc h_path]. intros Hok.
  rewrite (H Hok). destruct lc; [congruence | reflexivity].
Qed.

Lemma snoc_not_nil {A} (l : list A) x : (l ++ [x])%list <> [].
Proof. destruct l; discriminate. Qed.

Section Search.
Variable lit : string -> outcome litres.
Variable re_search : string -> string -> outcome reres.
Variable mt : mtable.
Variable aa : adict.
Variable tm : terms.
Variable o : opts.
Hypothesis Ha : o_anchors o = false.

Lemma loop_HP {A} (body : A -> nat -> list string -> outcome res) (P : hit -> Prop) : forall (l : list A),
  (forall x, In x l -> forall idx seen r, body x idx seen = Ok r -> Forall P (fst r)) ->
  forall idx seen r, loop body l idx seen = Ok r -> Forall P (fst r).
Proof.
  induction l as [|a l IH]; intros H idx seen r E; simpl in E.
  - inversion E; constructor.
  - destruct (body a idx seen) as [hs| |] eqn:Eb; simpl in E; try discriminate.
    destruct (loop body l (S idx) (snd hs)) as [rs| |] eqn:El; simpl in E; try discriminate.
    inversion E; subst; simpl. apply Forall_app. split.
    + eapply H; [left; reflexivity | exact Eb].
    + eapply IH; [|exact El]. intros x Hin. apply H. right. exact Hin.
Qed.

Lemma sa_none x seen b : get_node_anchor x = None ->
  search_anchor lit re_search tm o x seen b = Ok (NoAnchor, seen).
Proof. intros H. unfold search_anchor. rewrite H. reflexivity. Qed.

Lemma Forall_up lc r hs : Forall (HP (lc ++ [r])%list) hs -> Forall (HP lc) hs.
Proof. intros H. eapply Forall_impl; [|exact H]. intros h. apply HP_up. Qed.

Theorem yc_paths n :
  seq_plain n = true ->
  forall bp lc kd seen r, lc <> [] -> PT lc bp ->
    yield_children lit re_search mt tm sp o n bp lc kd seen = Ok r -> Forall (HP lc) (fst r).
Proof.
  induction n as [i v|i kvs IH|i els IH|i els IH] using node_ind'; intros Hp bp lc kd seen r Hn HT E.
  - simpl in E. inversion E; subst. constructor; [|constructor].
    split; [exists []; cbn; rewrite app_nil_r; reflexivity|]. cbn [h_loc h_path]. intros Hok.
    rewrite (HT Hok). unfold root_slash.
    rewrite (build_path_nonempty lc Hn Hok) || idtac.
    destruct lc; [congruence|]. cbn [pb_bp]. rewrite (build_path_nonempty _ Hn Hok). reflexivity.
  - simpl in E. eapply loop_HP; [|exact E].
    intros kv Hin idx seen0 r0 Eb. cbv beta in Eb.
    destruct (search_anchor _ _ _ _ (fst kv) seen0 _) as [ka_s| |]; simpl in Eb; try discriminate.
    destruct (search_anchor _ _ _ _ (snd kv) (snd ka_s) _) as [va_s| |]; simpl in Eb; try discriminate.
    destruct (_ || _); [inversion Eb; constructor|].
    pose proof (PT_key lc bp (fst kv) RKey (or_introl eq_refl) HT) as HT'.
    apply (Forall_up lc (key_ref (fst kv))).
    destruct (is_container (snd kv)).
    + rewrite Forall_forall in IH. destruct (IH _ Hin) as [_ IHv].
      eapply IHv; [| apply snoc_not_nil | exact HT' | exact Eb].
      simpl in Hp. rewrite forallb_forall in Hp. apply (Hp _ Hin).
    + inversion Eb; subst. constructor; [|constructor]. apply HP_hit; [exact HT' | apply snoc_not_nil].
  - simpl in E. eapply loop_HP; [|exact E].
    intros e Hin idx seen0 r0 Eb. cbv beta in Eb.
    simpl in Hp. rewrite forallb_forall in Hp. specialize (Hp _ Hin).
    destruct (get_node_anchor e) eqn:Ega; [discriminate Hp|].
    rewrite (sa_none e seen0 _ Ega) in Eb. simpl in Eb. rewrite andb_false_r in Eb.
    pose proof (PT_idx lc bp idx HT) as HT'.
    apply (Forall_up lc (RIdx idx)).
    destruct (is_container e).
    + rewrite Forall_forall in IH. eapply (IH _ Hin); [exact Hp | apply snoc_not_nil | exact HT' | exact Eb].
    + inversion Eb; subst. constructor; [|constructor]. apply HP_hit; [exact HT' | apply snoc_not_nil].
  - simpl in E. eapply loop_HP; [|exact E].
    intros k Hin idx seen0 r0 Eb. cbv beta in Eb.
    destruct (search_anchor _ _ _ _ k seen0 _) as [ka_s| |]; simpl in Eb; try discriminate.
    pose proof (PT_key lc bp k RMember (or_intror eq_refl) HT) as HT'.
    apply (Forall_up lc (member_ref k)).
    destruct (_ && _); inversion Eb; subst; [constructor|].
    constructor; [|constructor]. apply HP_hit; [exact HT' | apply snoc_not_nil].
Qed.

Lemma report_paths nd tmp lc kd seen r :
  seq_plain nd = true -> lc <> [] -> PT lc tmp ->
  report lit re_search mt tm sp o nd tmp lc kd seen = Ok r -> Forall (HP lc) (fst r).
Proof.
  intros Hp Hn HT. unfold report. destruct (o_expand o).
  - apply yc_paths; assumption.
  - intros E. inversion E; subst. constructor; [|constructor]. apply HP_hit; assumption.
Qed.

Lemma value_part_paths rec am v tmp lc' seen r :
  seq_plain v = true -> lc' <> [] -> PT lc' tmp ->
  (forall r, rec v tmp lc' seen = Ok r -> Forall (HP lc') (fst r)) ->
  value_part lit re_search mt tm sp o rec am v tmp lc' seen = Ok r -> Forall (HP lc') (fst r).
Proof.
  intros Hp Hn HT Hrec E. unfold value_part in E.
  assert (G : (if is_unsearchable_alias am && negb (o_valias o) then Ok ([], seen)
               else if is_container v then rec v tmp lc' seen
               else if o_values o then
                 do m <- term_matches lit re_search tm (node_hay v);
                 Ok (if m then [mkhit tmp lc' HValue] else [], seen)
               else Ok ([], seen)) = Ok r -> Forall (HP lc') (fst r)).
  { intros E'. destruct (_ && _); [inversion E'; constructor|].
    destruct (is_container v); [apply Hrec; exact E'|].
    destruct (o_values o); [|inversion E'; constructor].
    destruct (term_matches _ _ _ _) as [[|]| |]; simpl in E'; try discriminate; inversion E'; subst; [|constructor].
    constructor; [|constructor]. apply HP_hit; assumption. }
  destruct am; try (apply G; exact E).
  - inversion E; constructor.
  - eapply report_paths; eauto.
  - eapply report_paths; eauto.
Qed.

Theorem sfp_paths n :
  seq_plain n = true ->
  forall bp lc seen r, PT lc bp ->
    search_for_paths lit re_search mt aa tm sp o n bp lc seen = Ok r -> Forall (HP lc) (fst r).
Proof.
  induction n as [i v|i kvs IH|i els IH|i els IH] using node_ind'; intros Hp bp lc seen r HT E.
  - (* the lone-scalar document: reported by the root path *)
    simpl in E. unfold scalar_root in E.
    assert (Hh : HP lc (mkhit (root_slash sp bp) lc HValue)).
    { split; [exists []; rewrite app_nil_r; reflexivity|]. cbn [h_loc h_path]. intros Hok.
      rewrite (HT Hok). destruct lc as [|x rest].
      - cbn [pb_bp]. unfold root_slash, build_path. destruct sp; reflexivity.
      - cbn [pb_bp]. unfold root_slash.
        rewrite (build_path_nonempty (x :: rest)); [reflexivity | discriminate | exact Hok]. }
    destruct (negb (is_none_leaf (NLeaf i v)) && o_values o); [|inversion E; constructor].
    destruct (term_matches _ _ _ _) as [[|]| |]; simpl in E; try discriminate; inversion E; subst; simpl;
      [constructor; [exact Hh | constructor] | constructor].
  - (* mapping *)
    simpl in E.
    match type of E with bind (loop ?b _ _ _) _ = _ => set (body := b) in * end.
    destruct (loop body kvs 0 seen) as [bd| |] eqn:El; simpl in E; try discriminate.
    unfold ymk_hits in E. rewrite Ha, andb_false_r in E. simpl in E. inversion E; subst; clear E.
    simpl fst. rewrite app_nil_r.
    eapply loop_HP; [|exact El].
    intros kv Hin idx seen0 r0 Eb. unfold body in Eb. clear El body.
    destruct (search_anchor _ _ _ _ (fst kv) seen0 _) as [ka_s| |]; simpl in Eb; try discriminate.
    destruct (search_anchor _ _ _ _ (snd kv) (snd ka_s) _) as [va_s| |]; simpl in Eb; try discriminate.
    destruct (_ || _); [inversion Eb; constructor|].
    pose proof (PT_key lc bp (fst kv) RKey (or_introl eq_refl) HT) as HT'.
    assert (Hpv : seq_plain (snd kv) = true) by (simpl in Hp; rewrite forallb_forall in Hp; apply (Hp _ Hin)).
    apply (Forall_up lc (key_ref (fst kv))).
    rewrite Forall_forall in IH. destruct (IH _ Hin) as [_ IHv].
    assert (Hvp : forall r1, value_part lit re_search mt tm sp o
                     (fun v t l s => search_for_paths lit re_search mt aa tm sp o v t l s)
                     (fst va_s) (snd kv) (map_prefix sp bp ++ escp sp (key_text (fst kv)))
                     (lc ++ [key_ref (fst kv)])%list (snd va_s) = Ok r1 ->
                   Forall (HP (lc ++ [key_ref (fst kv)])%list) (fst r1)).
    { intros r1 E1. eapply value_part_paths; [exact Hpv | apply snoc_not_nil | exact HT' | | exact E1].
      intros r2 E2. eapply IHv; [exact Hpv | exact HT' | exact E2]. }
    destruct (o_keys o); simpl in Eb; [|apply Hvp; exact Eb].
    destruct (is_hit (fst ka_s)).
    + destruct (report _ _ _ _ _ _ (snd kv) _ _ HKeyAnchor _) as [hs| |] eqn:Er; simpl in Eb; try discriminate.
      inversion Eb; subst. eapply report_paths; [exact Hpv | apply snoc_not_nil | exact HT' | exact Er].
    + destruct (term_matches _ _ _ _) as [[|]| |]; simpl in Eb; try discriminate.
      * destruct (report _ _ _ _ _ _ (snd kv) _ _ HKey _) as [hs| |] eqn:Er; simpl in Eb; try discriminate.
        inversion Eb; subst. eapply report_paths; [exact Hpv | apply snoc_not_nil | exact HT' | exact Er].
      * apply Hvp; exact Eb.
  - (* sequence *)
    simpl in E. eapply loop_HP; [|exact E].
    intros e Hin idx seen0 r0 Eb. cbv beta in Eb.
    simpl in Hp. rewrite forallb_forall in Hp. specialize (Hp _ Hin).
    destruct (get_node_anchor e) eqn:Ega; [discriminate Hp|].
    rewrite (sa_none e seen0 _ Ega) in Eb. cbn [bind fst snd elem_path] in Eb.
    pose proof (PT_idx lc bp idx HT) as HT'.
    apply (Forall_up lc (RIdx idx)).
    rewrite Forall_forall in IH.
    eapply value_part_paths; [exact Hp | apply snoc_not_nil | exact HT' | | exact Eb].
    intros r2 E2. eapply (IH _ Hin); [exact Hp | exact HT' | exact E2].
  - (* set *)
    simpl in E. eapply loop_HP; [|exact E].
    intros k Hin idx seen0 r0 Eb. cbv beta in Eb.
    destruct (search_anchor _ _ _ _ k seen0 _) as [ka_s| |]; simpl in Eb; try discriminate.
    pose proof (PT_key lc bp k RMember (or_intror eq_refl) HT) as HT'.
    apply (Forall_up lc (member_ref k)).
    destruct (_ && _); [inversion Eb; constructor|].
    destruct (is_hit (fst ka_s)).
    + inversion Eb; subst. constructor; [|constructor]. apply HP_hit; [exact HT' | apply snoc_not_nil].
    + destruct (term_matches _ _ _ _) as [[|]| |]; simpl in Eb; try discriminate; inversion Eb; subst; [|constructor].
      constructor; [|constructor]. apply HP_hit; [exact HT' | apply snoc_not_nil].
Qed.

End Search.

(* every path the search reports for a document *)
Theorem search_doc_paths lit re_search mt tm o d res :
  o_anchors o = false ->
  seq_plain d = true -> search_doc lit re_search mt tm sp o d = Ok res ->
  forall h, In h res -> okl (h_loc h) = true -> h_path h = build_path sp (h_loc h).
Proof.
  intros Ha Hp E h Hin. unfold search_doc in E.
  destruct (search_for_paths _ _ _ _ _ _ _ d "" [] []) as [r| |] eqn:Es; simpl in E; try discriminate.
  inversion E; subst.
  pose proof (sfp_paths lit re_search mt _ tm o Ha d Hp "" [] [] r (fun _ => eq_refl) Es) as F.
  rewrite Forall_forall in F. destruct (F h Hin) as [_ H]. exact H.
Qed.
End PathText.

Theorem reported_text lit re_search mt tm sp o d res :
  o_anchors o = false -> seq_plain d = true ->
  search_doc lit re_search mt tm sp o d = Ok res ->
  forall h, In h res -> okl sp (h_loc h) = true -> h_path h = build_path sp (h_loc h).
Proof. intros Ha Hp E. exact (search_doc_paths sp lit re_search mt tm o d res Ha Hp E). Qed.

(* the guard of the resolve theorem implies the text guard *)
Lemma safe_okl sp d l : pb_safe sp d l = true -> okl sp l = true.
Proof.
  unfold pb_safe. intros H. apply andb_true_iff in H. destruct H as [H _].
  apply andb_true_iff in H. destruct H as [_ H]. revert d H.
  induction l as [|r rest IH]; intros d H; [reflexivity|]. cbn [pb_safe_go] in H.
  apply andb_true_iff in H. destruct H as [H1 H2].
  destruct (child d r) as [c|]; [|discriminate H2]. cbn [okl forallb]. fold (okl sp rest). rewrite (IH c H2), andb_true_r.
  destruct r as [k|i|k]; cbn [okr gs_of_ref gsafe]; try reflexivity;
    destruct k; cbn [pb_safe_ref py_str] in H1 |- *; try discriminate H1; try exact H1; apply safe_key_int.
Qed.
