(* C15, part 3: the dispatcher and the drivers; fuel sufficiency. *)
From Coq Require Import List Ascii String ZArith NArith Bool Arith Lia.
From YP Require Import Outcome PyStr PyVal Doc Generated PathParser PathPrinter Searches Eval SpecC15 EvalGood EvalHandlers.
Import ListNotations.
Open Scope string_scope.
Open Scope nat_scope.

Fixpoint wsegs (l : list pseg) : nat :=
  match l with
  | [] => 0
  | PSeg _ _ s s2 :: r => S (pweight s + pweight s2 + wsegs r)
  end.

Lemma pweight_ppath segs : pweight (PPath segs) = S (wsegs segs).
Proof.
  induction segs as [|[es us s s2] r IH]; [reflexivity|].
  change (pweight (PPath (PSeg es us s s2 :: r))) with (S (S (pweight s + pweight s2 + pred (pweight (PPath r))))).
  rewrite IH. reflexivity.
Qed.

Lemma in_fragment_ppath segs : in_fragment (PPath segs) = frag_segs in_fragment segs.
Proof.
  induction segs as [|[es us s s2] r IH]; [reflexivity|].
  change (in_fragment (PPath (PSeg es us s s2 :: r)))
    with (seg_ok es us && in_fragment s && in_fragment s2 && in_fragment (PPath r)).
  rewrite IH. reflexivity.
Qed.

Lemma frag_nth segs : forall i ps, frag_segs in_fragment segs = true -> nth_error segs i = Some ps ->
  seg_ok (seg_es ps) (seg_us ps) = true /\ in_fragment (seg_sub ps) = true /\ in_fragment (seg_sub2 ps) = true.
Proof.
  induction segs as [|[es us s s2] r IH]; intros i ps H Hn; destruct i; cbn in *; try discriminate.
  - inversion Hn; subst; cbn.
    apply andb_prop in H; destruct H as [H H4]. apply andb_prop in H; destruct H as [H H3].
    apply andb_prop in H; destruct H as [H1 H2]. auto.
  - apply andb_prop in H; destruct H as [H H4]. eapply IH; eauto.
Qed.

Lemma wsegs_skipn segs : forall i ps, nth_error segs i = Some ps ->
  wsegs (skipn i segs) = S (pweight (seg_sub ps) + pweight (seg_sub2 ps) + wsegs (skipn (S i) segs)).
Proof.
  induction segs as [|[es us s s2] r IH]; intros i ps Hn; destruct i; cbn in *; try discriminate.
  - inversion Hn; subst; reflexivity.
  - apply IH; auto.
Qed.

Section Total.
Variable lit : string -> outcome litres.
Variable re_search : string -> string -> outcome reres.
Variable nstr : node -> string.
Variable vstr : list rval -> string.
Variable kw_handler : bool -> keyword -> string -> rval -> ctx -> gen rval.
Variable creator : list pseg -> nat -> rval -> ctx -> gen rval.
Hypothesis lit_total : forall s, exists r, lit s = Ok r /\ (forall c, r <> LCrash c).
Hypothesis re_total : forall p s, exists r, re_search p s = Ok r.
Hypothesis kw_ok : forall inv k ps v c, sres coords_or_list (kw_handler inv k ps v c).
Hypothesis creator_ok : forall segs i v c, sres is_coords (creator segs i v c).

Notation EV := (ev lit re_search nstr vstr kw_handler creator).

Lemma unwrap_size v0 c0 v c : unwrap_ctx v0 c0 = (v, c) -> vsize v <= vsize v0.
Proof. destruct v0; cbn; intros H; inversion H; subst; cbn; lia. Qed.

Lemma dispatch_res self sg_next rqp segs i v0 c0 :
  frag_segs in_fragment segs = true ->
  (forall e c', vsize e < vsize v0 -> sres coords_or_list (self e c')) ->
  (forall ps e c', nth_error segs i = Some ps -> good (sg_next e c')) ->
  (forall ps e c', nth_error segs i = Some ps -> reqres (rqp (seg_sub ps) e c')) ->
  sres coords_or_list (dispatch lit re_search nstr vstr kw_handler self sg_next rqp segs i v0 c0).
Proof.
  intros Hfr Hself Hnext Hrq. unfold dispatch.
  destruct (nth_error segs i) as [ps|] eqn:En; [|apply sres_gnil].
  assert (Hnext' : forall e c', good (sg_next e c')) by (intros; eapply Hnext; eauto).
  clear Hnext; rename Hnext' into Hnext.
  destruct (frag_nth segs i ps Hfr En) as [Hok _].
  destruct ps as [[ty a] [uty ua] sub sub2]; cbn [seg_es seg_us seg_sub] in *.
  destruct (_ && _ && _) eqn:Erec; [apply sres_gerr_ype|].
  destruct (unwrap_ctx v0 c0) as [v c] eqn:Eu. pose proof (unwrap_size _ _ _ _ Eu) as Hsz.
  unfold seg_ok in Hok; cbn [fst snd] in Hok. apply andb_prop in Hok. destruct Hok as [Hty Hnc].
  destruct ty as [[]|]; try discriminate.
  - (* anchor *) apply by_anchor_res.
  - (* index *) apply by_index_res.
  - (* key *) apply by_key_res. intros e c' He. apply Hself. apply elems_size in He. lia.
  - (* search *) destruct a; try discriminate. apply by_search_res; auto.
    intros e c'. apply (Hrq _ e c' eq_refl).
  - (* traverse *)
    destruct uty as [[]|]; cbn in Hnc; try discriminate;
      cbn [is_ty is_stype segtype_eqb]; (eapply trav_res; eauto; lia) || idtac.
    all: destruct ua; cbn [is_ty is_stype segtype_eqb]; eapply trav_res; eauto; lia.
  - (* keyword *) destruct a; try discriminate. apply kw_ok.
  - (* match all *)
    destruct (S i <? Datatypes.length segs); [apply match_all_filtered_res; auto | apply match_all_unfiltered_res].
Qed.

Definition res_of (md : mode) : gen rval -> Prop :=
  match md with
  | MSeg => sres coords_or_list
  | MReq => sres is_coords
  | MOpt => sres is_coords
  end.

Lemma nth_error_ltb {A} (l : list A) i : (i <? List.length l) = true -> exists x, nth_error l i = Some x.
Proof.
  intros H. apply Nat.ltb_lt in H. destruct (nth_error l i) eqn:E; eauto.
  apply nth_error_None in E. lia.
Qed.

(* (fix 45f1b07) the node-creating branches are reached only with a tail that can be built: a missing ANCHOR /
   INDEX / KEY element followed by anything but Hash keys and non-negative Array indexes (from the segment itself
   on when the data is a null) is the refusal of Nodes.require_buildable_path, whatever the creator would do *)
Lemma missing_element_unbuildable segs i ps v c :
  is_ty TAnchor (fst (seg_us ps)) || is_ty TIndex (fst (seg_us ps)) || is_ty TKey (fst (seg_us ps)) = true ->
  buildable_tail segs (match v with RNode (NLeaf _ PNone) => i | _ => S i end) = false ->
  missing_element creator segs i ps v c = gerr (YPE Generic).
Proof. intros H1 H2. unfold missing_element. rewrite H1, H2. reflexivity. Qed.

Lemma missing_element_res segs i ps v c : sres is_coords (missing_element creator segs i ps v c).
Proof.
  unfold missing_element.
  repeat match goal with
         | |- sres _ (gerr (YPE _)) => apply sres_gerr_ype
         | |- sres _ (creator _ _ _ _) => apply creator_ok
         | |- sres _ (if ?b then _ else _) => destruct b eqn:?
         | |- sres _ (match ?x with _ => _ end) => destruct x eqn:?
         end.
Qed.

Lemma walk_res sg_next rqp segs i :
  frag_segs in_fragment segs = true ->
  (forall ps e c', nth_error segs i = Some ps -> good (sg_next e c')) ->
  (forall ps e c', nth_error segs i = Some ps -> reqres (rqp (seg_sub ps) e c')) ->
  forall vf v c, vsize v < vf ->
  sres coords_or_list (walk lit re_search nstr vstr kw_handler sg_next rqp segs i vf v c).
Proof.
  intros Hfr Hnext Hrq. induction vf as [|vf IHv]; intros v c Hsz; [lia|].
  cbn [walk]. apply dispatch_res; auto.
  intros e c' He. apply IHv. lia.
Qed.

Lemma ev_res : forall pf md segs i v c,
  wsegs (skipn i segs) < pf -> frag_segs in_fragment segs = true ->
  res_of md (EV pf md segs i v c).
Proof.
  induction pf as [|pf IH]; intros md segs i v c Hw Hfr; [lia|].
  cbn [ev]. unfold ev_body.
  set (rqp := fun (p : ppath) (v : rval) (c : ctx) =>
                match p with PFail e => gerr e | PPath s => EV pf MReq s 0 v c end).
  assert (Hnext : forall ps e c', nth_error segs i = Some ps -> sres coords_or_list (EV pf MSeg segs (S i) e c')).
  { intros ps e c' En. apply (IH MSeg); auto. rewrite (wsegs_skipn _ _ _ En) in Hw. lia. }
  assert (Hrq : forall ps e c', nth_error segs i = Some ps -> reqres (rqp (seg_sub ps) e c')).
  { intros ps e c' En. destruct (frag_nth _ _ _ Hfr En) as [_ [Hs _]].
    unfold rqp. destruct (seg_sub ps) as [s|ex] eqn:Es.
    - apply (IH MReq); [|rewrite <- in_fragment_ppath; exact Hs].
      rewrite (wsegs_skipn _ _ _ En) in Hw. rewrite Es, pweight_ppath in Hw. cbn [skipn]. lia.
    - cbn in Hs. destruct ex; try discriminate. apply sres_gerr_ype. }
  assert (Hhere : forall v c, sres coords_or_list
            (walk lit re_search nstr vstr kw_handler (EV pf MSeg segs (S i)) rqp segs i (S (vsize v)) v c)).
  { intros v1 c1. apply walk_res; auto; try lia. intros ps e c' En. eapply Hnext; eauto. }
  destruct md; cbn [res_of].
  - (* MReq *)
    destruct (i <? Datatypes.length segs) eqn:Elt; [|apply sres_coords; reflexivity].
    destruct (nth_error_ltb _ _ Elt) as [ps En].
    apply sres_gbind; [apply Hhere|].
    intros x Hx. destruct (Hhere v (mkctx (x_par c) (x_ref c) true (x_tp c) (x_anc c))) as [_ Hf].
    rewrite Forall_forall in Hf. specialize (Hf x Hx).
    assert (Hw' : wsegs (skipn (S i) segs) < pf) by (rewrite (wsegs_skipn _ _ _ En) in Hw; lia).
    destruct (is_pylist x) eqn:El; [apply (IH MReq); auto|].
    destruct x; cbn in Hf, El; try discriminate.
    + rewrite El in Hf. discriminate.
    + apply (IH MReq); auto.
  - (* MOpt *)
    destruct (nth_error segs i) as [ps|] eqn:En; [|apply sres_coords; reflexivity].
    assert (Hw' : wsegs (skipn (S i) segs) < pf) by (rewrite (wsegs_skipn _ _ _ En) in Hw; lia).
    set (gg := walk lit re_search nstr vstr kw_handler (EV pf MSeg segs (S i)) rqp segs i (S (vsize v)) v
                    (mkctx (x_par c) (x_ref c) true (x_tp c) (x_anc c))).
    assert (Hgg : sres coords_or_list gg) by apply Hhere.
    clearbody gg.
    assert (Hfound : sres is_coords
              (gbind gg
                 (fun x => if is_pylist x then EV pf MOpt segs (S i) x c
                           else match x with
                                | RCoords nd par rf path anc =>
                                    EV pf MOpt segs (S i) nd (mkctx par rf true path anc)
                                | _ => gerr (PyCrash AttributeError)
                                end))).
    { apply sres_gbind; [apply Hgg|].
      intros x Hx. destruct Hgg as [_ Hf].
      rewrite Forall_forall in Hf. specialize (Hf x Hx).
      destruct (is_pylist x) eqn:El; [apply (IH MOpt); auto|].
      destruct x; cbn in Hf, El; try discriminate.
      - rewrite El in Hf. discriminate.
      - apply (IH MOpt); auto. }
    destruct gg as [[|x0 l0] st]; [destruct st|]; try exact Hfound.
    destruct (creatable _); [apply missing_element_res | exact Hfound].
  - (* MSeg *) apply Hhere.
Qed.

End Total.

(* ---- the public entry points ---- *)
Section Entry.
Variable lit : string -> outcome litres.
Variable re_search : string -> string -> outcome reres.
Variable nstr : node -> string.
Variable vstr : list rval -> string.
Variable kw_handler : bool -> keyword -> string -> rval -> ctx -> gen rval.
Variable creator : list pseg -> nat -> rval -> ctx -> gen rval.
Hypothesis lit_total : forall s, exists r, lit s = Ok r /\ (forall c, r <> LCrash c).
Hypothesis re_total : forall p s, exists r, re_search p s = Ok r.
Hypothesis kw_ok : forall inv k ps v c, sres coords_or_list (kw_handler inv k ps v c).
Hypothesis creator_ok : forall segs i v c, sres is_coords (creator segs i v c).

Lemma okstop_clean s : okstop s <-> clean_or_mut s.
Proof. destruct s as [|[]| |]; cbn; tauto. Qed.

Lemma top_ev md segs v c :
  in_fragment (PPath segs) = true ->
  res_of md (ev lit re_search nstr vstr kw_handler creator (fuel_for (PPath segs)) md segs 0 v c).
Proof.
  intros H. apply ev_res; auto.
  - unfold fuel_for. rewrite pweight_ppath. cbn [skipn]. lia.
  - rewrite <- in_fragment_ppath. exact H.
Qed.

Lemma null_doc_case {A} (d : node) (a b : A) (P : A -> Prop) :
  P a -> P b -> P (match d with NLeaf _ PNone => a | _ => b end).
Proof. intros; destruct d as [i v| | |]; try destruct v; auto. Qed.

Theorem get_required_clean p d :
  in_fragment p = true -> clean_or_mut (snd (get_required lit re_search nstr vstr kw_handler creator p d)).
Proof.
  intros H. apply okstop_clean. unfold get_required.
  apply (null_doc_case d _ _ (fun g => okstop (snd g))); [exact I|].
  destruct p as [segs|e]; [|cbn in H; destruct e; try discriminate; exact I].
  pose proof (top_ev MReq segs (RNode d) root_ctx H) as [Hg _].
  destruct (ev _ _ _ _ _ _ _ _ _ _ _ _) as [[|x l] []]; cbn in *; auto.
Qed.

Theorem get_optional_clean p d :
  in_fragment p = true -> clean_or_mut (snd (get_optional lit re_search nstr vstr kw_handler creator p d)).
Proof.
  intros H. apply okstop_clean. unfold get_optional.
  apply (null_doc_case d _ _ (fun g => okstop (snd g))); [exact I|].
  destruct p as [segs|e]; [|cbn in H; destruct e; try discriminate; exact I].
  apply (top_ev MOpt segs _ root_ctx H).
Qed.

Theorem exists_clean p d :
  in_fragment p = true -> clean_or_mut (snd (exists_ lit re_search nstr vstr kw_handler creator p d)).
Proof.
  intros H. apply okstop_clean. unfold exists_.
  apply (null_doc_case d _ _ (fun g => okstop (snd g))); [exact I|].
  destruct p as [segs|e]; [|cbn in H; destruct e; try discriminate; exact I].
  pose proof (top_ev MReq segs (RNode d) root_ctx H) as [Hg _].
  destruct (ev _ _ _ _ _ _ _ _ _ _ _ _) as [l []]; cbn in *; auto.
Qed.

End Entry.
