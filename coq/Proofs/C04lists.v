(* List lemmas behind C04: deleting by position inside a list from which some
   original positions are already gone. *)
From Coq Require Import List ZArith NArith Bool Lia Arith.
From YP Require Import Outcome PyStr PyVal Doc Searches Mutate C04spec.
Import ListNotations.

Lemma find_first : forall A (P : A -> bool) l, find_idx P l = first_idx P l.
Proof.
  induction l as [|x r IH]; simpl; [reflexivity|].
  destruct (P x); [reflexivity|]. rewrite IH. destruct (first_idx P r); reflexivity.
Qed.

Lemma filter_from_ext_ge : forall A (keep keep' : nat -> bool) (l : list A) s,
  (forall k, s <= k -> keep k = keep' k) -> filter_from keep s l = filter_from keep' s l.
Proof.
  induction l as [|x r IH]; intros s H; simpl; auto.
  rewrite (H s) by lia. rewrite (IH (S s)) by (intros; apply H; lia). reflexivity.
Qed.

Lemma filter_from_ext : forall A (keep keep' : nat -> bool) (l : list A) s,
  (forall k, keep k = keep' k) -> filter_from keep s l = filter_from keep' s l.
Proof. intros. apply filter_from_ext_ge. auto. Qed.

Lemma filter_from_all : forall A (keep : nat -> bool) (l : list A) s,
  (forall k, s <= k < s + length l -> keep k = true) -> filter_from keep s l = l.
Proof.
  induction l as [|x r IH]; intros s H; simpl; auto.
  rewrite (H s) by (simpl; lia). f_equal. apply IH. intros k Hk. apply H. simpl. lia.
Qed.

(* the i-th original element is still at position i when nothing at or before it is gone *)
Lemma remove_filter_pos : forall A (keep : nat -> bool) (l : list A) s i,
  (forall k, s <= k <= s + i -> keep k = true) -> i < length l ->
  i < length (filter_from keep s l) /\
  remove_nth i (filter_from keep s l) = filter_from (fun k => keep k && negb (k =? s + i)) s l.
Proof.
  induction l as [|x r IH]; intros s i H Hi; simpl in *; [lia|].
  rewrite (H s) by lia.
  destruct i as [|i'].
  - simpl. split; [lia|].
    replace (s =? s + 0) with true by (symmetry; apply Nat.eqb_eq; lia). simpl.
    apply filter_from_ext_ge. intros k Hk.
    replace (k =? s + 0) with false by (symmetry; apply Nat.eqb_neq; lia).
    simpl. rewrite andb_true_r. reflexivity.
  - destruct (IH (S s) i') as [H1 H2]; [intros; apply H; lia | lia |].
    simpl. split; [lia|].
    replace (s =? s + S i') with false by (symmetry; apply Nat.eqb_neq; lia). simpl.
    f_equal. rewrite H2. apply filter_from_ext. intros k.
    replace (S s + i') with (s + S i') by lia. reflexivity.
Qed.

(* deleting "the first element satisfying P" from the thinned list removes the
   original element i, provided i itself is still there *)
Lemma remove_filter_find : forall A (P : A -> bool) (keep : nat -> bool) (l : list A) s i,
  find_idx P l = Some i -> keep (s + i) = true ->
  exists j, find_idx P (filter_from keep s l) = Some j /\
            remove_nth j (filter_from keep s l) = filter_from (fun k => keep k && negb (k =? s + i)) s l.
Proof.
  induction l as [|x r IH]; intros s i Hf Hk; simpl in *; [discriminate|].
  destruct (P x) eqn:HP.
  - inversion Hf; subst i. rewrite Nat.add_0_r in *. rewrite Hk.
    exists 0. simpl. rewrite HP. split; auto.
    rewrite Nat.eqb_refl. simpl.
    apply filter_from_ext_ge. intros k Hk'.
    replace (k =? s) with false by (symmetry; apply Nat.eqb_neq; lia).
    simpl. rewrite andb_true_r. reflexivity.
  - destruct (find_idx P r) as [i'|] eqn:Hr; [|discriminate]. inversion Hf; subst i.
    destruct (IH (S s) i' eq_refl) as [j [Hj1 Hj2]].
    { replace (S s + i') with (s + S i') by lia. exact Hk. }
    replace (s =? s + S i') with false by (symmetry; apply Nat.eqb_neq; lia).
    rewrite andb_true_r.
    assert (E : filter_from (fun k => keep k && negb (k =? S s + i')) (S s) r
                = filter_from (fun k => keep k && negb (k =? s + S i')) (S s) r).
    { apply filter_from_ext. intros k. replace (S s + i') with (s + S i') by lia. reflexivity. }
    destruct (keep s).
    + exists (S j). simpl. rewrite HP, Hj1. split; auto. rewrite Hj2, E. reflexivity.
    + exists j. split; auto. rewrite Hj2, E. reflexivity.
Qed.

Lemma find_none_filter : forall A (P : A -> bool) (keep : nat -> bool) (l : list A) s,
  find_idx P l = None -> find_idx P (filter_from keep s l) = None.
Proof.
  induction l as [|x r IH]; intros s H; simpl in *; auto.
  destruct (P x) eqn:HP; [discriminate|].
  destruct (find_idx P r) eqn:Hr; [discriminate|].
  destruct (keep s); simpl; [rewrite HP|]; rewrite (IH (S s)); auto.
Qed.

Lemma find_idx_map : forall A B (P : B -> bool) (Q : A -> bool) (g : A -> B) l,
  (forall x, P (g x) = Q x) -> find_idx P (map g l) = find_idx Q l.
Proof.
  induction l as [|x r IH]; intros H; simpl; auto. rewrite H, IH; auto.
Qed.

Lemma find_idx_lt : forall A (P : A -> bool) l i, find_idx P l = Some i -> i < length l.
Proof.
  induction l as [|x r IH]; intros i H; simpl in *; [discriminate|].
  destruct (P x); [inversion H; lia|].
  destruct (find_idx P r) eqn:E; [|discriminate]. inversion H; subst. specialize (IH _ eq_refl). lia.
Qed.

Lemma filter_from_length_le : forall A (keep : nat -> bool) (l : list A) s,
  length (filter_from keep s l) <= length l.
Proof.
  induction l as [|x r IH]; intros s; simpl; auto.
  destruct (keep s); simpl; specialize (IH (S s)); lia.
Qed.

(* rmapM over a thinned, mapped list *)
Lemma rmapM_filter : forall A B C (h : B -> res C) (g : A -> B) (g' : A -> C) (keep : nat -> bool) l s,
  Forall (fun x => h (g x) = ROk (g' x)) l ->
  rmapM h (filter_from keep s (map g l)) = ROk (filter_from keep s (map g' l)).
Proof.
  induction l as [|x r IH]; intros s H; simpl; auto.
  inversion H; subst.
  destruct (keep s); simpl.
  - rewrite H2. simpl. rewrite (IH (S s)) by assumption. reflexivity.
  - apply IH; assumption.
Qed.
