(* C10: _resolve_anchor_conflicts never crashes on documents whose hash keys carry no
   anchor (keys_plain; anchored CONTAINERS as hash values are allowed): the outcome is a
   resolved pair, the MergeException of 'stop' meeting a conflict, or the NameError of an
   anchor policy text outside its enumeration -- never the KeyError of the dictionary
   lookups / of replace_anchor's key re-insertion, never the AttributeError of
   `repl_node.anchor.value`, never OutOfFuel of _calc_unique_anchor's loop. *)
From Coq Require Import List Ascii String ZArith QArith NArith Bool Lia.
From YP Require Import Outcome PyStr PyVal Doc PathParser Searches MergeConfig Merge Anchors SpecC10
  AnchorsFuel AnchorsStr AnchorsProofs AnchorsPolicy AnchorsScan AnchorsUnique.
Import ListNotations.
Open Scope string_scope.
Open Scope list_scope.

(* the substitution keeps plain keys when the replacement node has plain keys (a Scalar, or an
   anchored container of a plain-key document) *)
Lemma subst_keys_plain_gen : forall name repl d,
  keys_plain repl = true -> keys_plain d = true -> keys_plain (subst_named name repl d) = true.
Proof.
  intros name repl d Hr. induction d as [i v|i kvs IH|i els IH|i els IH] using node_ind'; intros Hk; try exact Hk.
  - change (subst_named name repl (NMap i kvs)) with
      (NMap i (map (fun kv => (fst kv, if hit name (snd kv) then repl else subst_named name repl (snd kv))) kvs)).
    simpl. simpl in Hk. rewrite forallb_forall in *. intros kv' Hin.
    apply in_map_iff in Hin. destruct Hin as [[k v] [<- Hin]]. simpl.
    specialize (Hk (k, v) Hin). simpl in Hk. apply andb_true_iff in Hk. destruct Hk as [Hkk Hkv].
    rewrite Hkk. simpl. destruct (hit name v); [exact Hr|].
    rewrite Forall_forall in IH. destruct (IH (k, v) Hin) as [_ IHv]. now apply IHv.
  - change (subst_named name repl (NSeq i els)) with
      (NSeq i (map (fun e => if hit name e then repl else subst_named name repl e) els)).
    simpl. simpl in Hk. rewrite forallb_forall in *. intros e' Hin.
    apply in_map_iff in Hin. destruct Hin as [e [<- Hin]].
    destruct (hit name e); [exact Hr|].
    rewrite Forall_forall in IH. apply (IH e Hin). now apply Hk.
Qed.

(* what scan_for_anchors records in a plain-key document has plain keys itself *)
Lemma scanned_keys_plain : forall d n,
  keys_plain d = true -> In n (scanned d) -> an_name n <> None -> keys_plain n = true.
Proof.
  induction d as [i v|i kvs IH|i els IH|i els IH] using node_ind'; intros n Hk Hn Hname.
  - simpl in Hn. destruct Hn as [<-|[]]. reflexivity.
  - simpl in Hn. simpl in Hk. rewrite forallb_forall in Hk.
    apply in_flat_map in Hn. destruct Hn as [[k v] [Hin Hn]]. cbn [fst snd] in Hn.
    specialize (Hk (k, v) Hin). cbn [fst snd] in Hk. apply andb_true_iff in Hk. destruct Hk as [Hkk Hkv].
    destruct Hn as [<-|[<-|Hn]].
    + exfalso. apply Hname. rewrite <- c10_name_an_name. destruct (c10_name k); [discriminate|reflexivity].
    + exact Hkv.
    + rewrite Forall_forall in IH. destruct (IH (k, v) Hin) as [_ IHv]. cbn [snd] in IHv.
      destruct v; try contradiction; apply IHv; auto.
  - simpl in Hn. simpl in Hk. rewrite forallb_forall in Hk.
    apply in_flat_map in Hn. destruct Hn as [e [Hin Hn]].
    rewrite Forall_forall in IH. apply (IH e Hin); auto.
  - simpl in Hn. destruct Hn as [<-|[]]. reflexivity.
Qed.

Lemma scan_get_keys_plain : forall d c x,
  keys_plain d = true -> ad_get c (an_scan_anchors d []) = Some x -> keys_plain x = true.
Proof.
  intros d c x Hk H. rewrite scan_is_fold in H. apply scan_fold_get in H. destruct H as [[Hin Hn]|H]; [|discriminate].
  apply (scanned_keys_plain d x Hk Hin). congruence.
Qed.

Lemma anchor_of_str_cases : forall s, (exists m, anchor_of_str s = Ok m) \/ anchor_of_str s = Raise name_error.
Proof.
  intros s. unfold anchor_of_str.
  repeat match goal with |- context [if ?c then _ else _] => destruct c; [left; eexists; reflexivity|] end.
  now right.
Qed.

(* the outcomes a run may end in *)
Definition an_clean {A} (cfg : mconfig) (o : outcome A) : Prop :=
  (exists a, o = Ok a) \/
  (o = Raise MergeExc /\ anchor_merge_mode cfg = Ok KStop) \/
  (o = Raise name_error /\ anchor_merge_mode cfg = Raise name_error).

Section NoCrash.
Variable cfg : mconfig.
Variables l0 r0 : node.
Let lanc := an_scan_anchors l0 [].
Let ranc := an_scan_anchors r0 [].
Hypothesis Hkl : keys_plain l0 = true.
Hypothesis Hkr : keys_plain r0 = true.

Lemma loop_no_crash : forall names l r,
  (forall c, In c names -> In c (common_names lanc ranc)) ->
  keys_plain l = true -> (anchor_merge_mode cfg <> Ok KRename -> keys_plain r = true) ->
  an_clean cfg (foldM (resolve_step cfg lanc ranc) names (l, r)).
Proof.
  induction names as [|b rest IH]; intros l r HC Kl Kr.
  - left. eexists. reflexivity.
  - rewrite foldM_cons.
    destruct (common_in l0 r0 b (HC b (or_introl eq_refl))) as [lb [rb [Hlb Hrb]]].
    assert (HC' : forall c, In c rest -> In c (common_names lanc ranc)) by (intros; apply HC; now right).
    pose proof (scan_names l0 b lb Hlb) as Nlb. pose proof (scan_names r0 b rb Hrb) as Nrb.
    pose proof (scan_get_keys_plain l0 b lb Hkl Hlb) as Plb. pose proof (scan_get_keys_plain r0 b rb Hkr Hrb) as Prb.
    unfold resolve_step at 1. fold lanc ranc in Hlb, Hrb. rewrite Hlb, Hrb.
    unfold anchor_merge_mode in *.
    destruct (anchor_of_str_cases (cli_or_default (cli_anchors cfg) (ini_of cfg (ini_anchors cfg)) "STOP"))
      as [[mode Em]|Em]; rewrite Em in *; cbn [bind].
    + assert (SL : an_clean cfg (do s' <- (do l' <- replace_anchor rb l; Ok (l', r));
                                 foldM (resolve_step cfg lanc ranc) rest s')).
      { rewrite (replace_anchor_subst rb b l Nrb Kl). cbn [bind].
        apply IH; auto. now apply subst_keys_plain_gen. }
      destruct (anchors_match lb rb); [exact SL|].
      destruct mode.
      * right. left. split; [reflexivity|]. unfold anchor_merge_mode. exact Em.
      * rewrite (replace_anchor_subst lb b r Nlb (Kr ltac:(discriminate))). cbn [bind].
        apply IH; auto. intros _. apply subst_keys_plain_gen; auto. apply Kr. discriminate.
      * exact SL.
      * destruct (calc_unique_total b (known_names lanc ranc)) as [nn [Ec _]]. rewrite Ec. cbn [bind].
        apply IH; auto; try (intros X; exfalso; apply X; reflexivity).
    + right. right. split; [reflexivity|]. unfold anchor_merge_mode. exact Em.
Qed.
End NoCrash.

Theorem resolve_no_crash : forall cfg l r,
  keys_plain l = true -> keys_plain r = true -> an_clean cfg (resolve_conflicts cfg l r).
Proof.
  intros cfg l r Kl Kr. unfold resolve_conflicts.
  apply (loop_no_crash cfg l r Kl Kr); auto.
Qed.

(* every policy: a resolved pair, or MergeExc under 'stop' *)
Theorem resolve_no_crash_policy : forall cfg l r mode,
  anchor_merge_mode cfg = Ok mode -> keys_plain l = true -> keys_plain r = true ->
  (exists res, resolve_conflicts cfg l r = Ok res) \/
  (mode = KStop /\ resolve_conflicts cfg l r = Raise MergeExc).
Proof.
  intros cfg l r mode Hm Kl Kr.
  destruct (resolve_no_crash cfg l r Kl Kr) as [H|[[H1 H2]|[H1 H2]]].
  - now left.
  - right. split; [congruence|exact H1].
  - congruence.
Qed.

(* 'stop', exactly: MergeExc iff some common name does not match *)
Theorem resolve_stop_exact : forall cfg l r,
  anchor_merge_mode cfg = Ok KStop -> keys_plain l = true -> keys_plain r = true ->
  ((exists a la ra, ad_get a (an_scan_anchors l []) = Some la /\ ad_get a (an_scan_anchors r []) = Some ra /\
                    anchors_match la ra = false) -> resolve_conflicts cfg l r = Raise MergeExc) /\
  (no_conflict l r -> exists res, resolve_conflicts cfg l r = Ok res).
Proof.
  intros cfg l r Hm Kl Kr. split.
  - intros [a [la [ra [Hl [Hr Hc]]]]].
    destruct (resolve_no_crash_policy cfg l r KStop Hm Kl Kr) as [[res E]|[_ E]]; [|exact E].
    exfalso. exact (resolve_stop_refuses cfg l r a la ra Hm Hl Hr Hc res E).
  - intros Hn. unfold resolve_conflicts.
    assert (G : forall names l1 r1,
                (forall c, In c names -> In c (common_names (an_scan_anchors l []) (an_scan_anchors r []))) ->
                keys_plain l1 = true ->
                exists res, foldM (resolve_step cfg (an_scan_anchors l []) (an_scan_anchors r [])) names (l1, r1) = Ok res).
    { induction names as [|b rest IH]; intros l1 r1 HC K1; [eexists; reflexivity|].
      rewrite foldM_cons.
      destruct (common_in l r b (HC b (or_introl eq_refl))) as [lb [rb [Hlb Hrb]]].
      unfold resolve_step at 1. rewrite Hlb, Hrb, Hm. cbn [bind]. rewrite (Hn b lb rb Hlb Hrb).
      rewrite (replace_anchor_subst rb b l1 (scan_names r b rb Hrb) K1). cbn [bind].
      apply IH; [intros; apply HC; now right|].
      apply subst_keys_plain_gen; [exact (scan_get_keys_plain r b rb Kr Hrb)|exact K1]. }
    exact (G _ l r (fun c X => X) Kl).
Qed.
