(* Resolve, step 3: the evaluator model on a path of KEY / INDEX segments that
   names a location: the required query yields exactly one item - the node at
   that location, with that node's parent and reference, the ancestry of the
   way to it, and the append-form text [build_orig loc] as reported path.

   Subtleties reproduced from _get_nodes_by_key: on a hash the key TEXT is
   tried first, int(text) second (so an integer key is found through its
   digits unless the digits are also a string key of the same hash); on a set
   only the text is tried; a list is entered by [index] only. *)
From Coq Require Import List Ascii String ZArith NArith Bool Arith Lia.
From YP Require Import Outcome PyStr PyVal Doc Generated PathParser PathPrinter Searches Eval C08Spec
     RtStep RtSeg RtInt RtRender RtTables RtCanon PathBuild ResolveWr ResolveText.
Import ListNotations.
Open Scope string_scope.
Open Scope nat_scope.

(* the reference value recorded for a step *)
Definition ref_val (r : ref) : pyval :=
  match r with RKey k | RMember k => k | RIdx i => PInt (Z.of_nat i) end.

(* the escaped-parse segment that names a step *)
Definition es_of_ref (r : ref) : seg :=
  match r with
  | RKey k | RMember k => (Some TKey, AStr (py_str k))
  | RIdx i => (Some TIndex, AInt (Z.of_nat i))
  end.

(* what the evaluator needs of a step (weaker than [pb_safe_ref]: nothing about
   the characters of the key) *)
Definition ev_ref_ok (parent : node) (r : ref) : bool :=
  match r with
  | RIdx _ => true
  | RKey (PStr _) => true
  | RKey (PInt z) =>
      match parent with
      | NMap _ kvs => match assoc_key (PStr (str_of_Z z)) kvs with None => true | Some _ => false end
      | _ => false
      end
  | RMember (PStr _) => true
  | _ => false
  end.

Fixpoint ev_ok (n : node) (l : loc) : bool :=
  match l with
  | [] => true
  | r :: rest => ev_ref_ok n r && match child n r with Some c => ev_ok c rest | None => false end
  end.

Lemma safe_ref_ev sepc n r : pb_safe_ref sepc n r = true -> ev_ref_ok n r = true.
Proof. destruct r as [k|i|k]; try reflexivity; destruct k; cbn; try discriminate; auto. Qed.

Lemma safe_go_ev sepc : forall l n, pb_safe_go sepc n l = true -> ev_ok n l = true.
Proof.
  induction l as [|r rest IH]; intros n H; [reflexivity|]. cbn [pb_safe_go ev_ok] in *.
  apply andb_true_iff in H. destruct H as [H1 H2]. rewrite (safe_ref_ev _ _ _ H1). cbn [andb].
  destruct (child n r); [apply IH; exact H2 | discriminate H2].
Qed.

(* the keyword arguments after a step *)
Definition step_ctx (c : ctx) (cur : node) (r : ref) : ctx :=
  mkctx (Some (RNode cur)) (Some (ref_val r)) true
        (pb_add (x_tp c) (pb_ref_seg (x_tp c) r)) (x_anc c ++ [(RNode cur, ref_val r)])%list.

Fixpoint walk_ctx (c : ctx) (cur : node) (l : loc) : ctx :=
  match l with
  | [] => c
  | r :: rest => match child cur r with Some ch => walk_ctx (step_ctx c cur r) ch rest | None => c end
  end.

Definition coords_of (c : ctx) (n : node) : rval :=
  RCoords (RNode n) (x_par c) (x_ref c) (x_tp c) (x_anc c).

(* the one result of the query for [loc] *)
Definition pb_coords (d : node) (l : loc) (n : node) : rval := coords_of (walk_ctx root_ctx d l) n.

Lemma tp_add_pb tp sg : tp_add tp sg = pb_add tp sg.
Proof. reflexivity. Qed.

Lemma find_member_find k : forall els ch,
  find_member (PStr k) els = Some ch ->
  find (fun e => py_eq (key_val e) (PStr k)) els = Some ch /\ key_val ch = PStr k.
Proof.
  induction els as [|e r IH]; intros ch H; [discriminate H|]. cbn [find_member find] in *.
  destruct e as [i v| | |]; try (cbn [key_val]; cbn; apply IH; exact H).
  cbn [key_val]. destruct (py_eq v (PStr k)) eqn:E.
  - injection H as <-. split; [reflexivity|]. cbn [key_val].
    destruct v; cbn in E; try discriminate E. apply String.eqb_eq in E. subst. reflexivity.
  - apply IH. exact H.
Qed.

Lemma py_nth_nat (els : list node) n ch :
  nth_error els n = Some ch ->
  ((- Z.of_nat (List.length (map RNode els)) <=? Z.of_nat n)%Z && (Z.of_nat n <? Z.of_nat (List.length (map RNode els)))%Z)%bool = true
  /\ py_nth (map RNode els) (Z.of_nat n) = Ok (RNode ch).
Proof.
  intros H. assert (Hn : n < List.length els) by (apply nth_error_Some; rewrite H; discriminate).
  rewrite map_length. split.
  - apply andb_true_iff. split; [apply Z.leb_le | apply Z.ltb_lt]; lia.
  - unfold py_nth. rewrite map_length.
    replace (Z.of_nat n <? 0)%Z with false by (symmetry; apply Z.ltb_ge; lia).
    replace (0 <=? Z.of_nat n)%Z with true by (symmetry; apply Z.leb_le; lia).
    replace (Z.of_nat n <? Z.of_nat (List.length els))%Z with true by (symmetry; apply Z.ltb_lt; lia).
    cbn [andb]. rewrite Nat2Z.id. rewrite (map_nth_error RNode _ _ H). reflexivity.
Qed.

(* one step of by_key / by_index *)
Lemma key_step self cur r ch c :
  child cur r = Some ch -> ev_ref_ok cur r = true ->
  match r with
  | RIdx i => by_index (AInt (Z.of_nat i)) (RNode cur) c
  | RKey k | RMember k => by_key self (AStr (py_str k)) (RNode cur) c
  end = gone (coords_of (step_ctx c cur r) ch).
Proof.
  intros Hc Hok. unfold coords_of, step_ctx. cbn [x_par x_ref x_tp x_anc].
  destruct r as [k|i|k].
  - (* mapping key *)
    destruct cur as [? ?|i0 kvs|? ?|? ?]; try discriminate Hc. cbn [child] in Hc.
    destruct k; try discriminate Hok.
    + (* an integer key, found by the int() fallback *)
      cbn [ev_ref_ok] in Hok. unfold by_key. cbn [attrs_str attr_val py_str].
      destruct (assoc_key (PStr (str_of_Z z)) kvs); [discriminate Hok|].
      rewrite py_int_str_of_Z, Hc. reflexivity.
    + unfold by_key. cbn [attrs_str attr_val py_str]. rewrite Hc. reflexivity.
  - (* sequence position *)
    destruct cur as [? ?|? ?|i0 els|? ?]; try discriminate Hc. cbn [child] in Hc.
    unfold by_index. cbn [attrs_str].
    destruct (str_of_Z_chars (Z.of_nat i)) as [_ H2]. rewrite H2, py_int_str_of_Z.
    cbn [is_pylist elems].
    destruct (py_nth_nat els i ch Hc) as [Hb Hn]. rewrite Hb, Hn. reflexivity.
  - (* set member *)
    destruct cur as [? ?|? ?|? ?|i0 els]; try discriminate Hc. cbn [child] in Hc.
    destruct k; try discriminate Hok.
    unfold by_key. cbn [attrs_str attr_val py_str].
    destruct (find_member_find s els ch Hc) as [Hf Hk]. rewrite Hf, Hk. reflexivity.
Qed.

Section EvalRes.
Variable lit : string -> outcome litres.
Variable re_search : string -> string -> outcome reres.
Variable nstr : node -> string.
Variable vstr : list rval -> string.
Variable kw_handler : bool -> keyword -> string -> rval -> ctx -> gen rval.
Variable creator : list pseg -> nat -> rval -> ctx -> gen rval.
Notation EV := (ev lit re_search nstr vstr kw_handler creator).

Lemma walk_step sgn rqp segs i ps cur r ch c vf :
  nth_error segs i = Some ps -> seg_es ps = es_of_ref r ->
  child cur r = Some ch -> ev_ref_ok cur r = true ->
  walk lit re_search nstr vstr kw_handler sgn rqp segs i (Datatypes.S vf) (RNode cur) c
  = gone (coords_of (step_ctx c cur r) ch).
Proof.
  intros Hn He Hc Hok. cbn [walk]. unfold dispatch. rewrite Hn.
  destruct ps as [es us sub sub2]. cbn [seg_es] in He. subst es. cbn [seg_es seg_us].
  destruct us as [uty ua].
  pose proof (key_step (walk lit re_search nstr vstr kw_handler sgn rqp segs i vf) cur r ch c Hc Hok) as K.
  destruct r as [k|n|k]; cbn [es_of_ref] in *; cbn [is_ty is_stype segtype_eqb andb unwrap_ctx]; rewrite andb_false_r; exact K.
Qed.

Lemma skipn_nil_len {A} : forall i (l : list A), skipn i l = [] -> List.length l <= i.
Proof. induction i as [|i IH]; intros [|x l] H; cbn in *; try lia; [discriminate H | specialize (IH l H); lia]. Qed.

Lemma skipn_cons_nth {A} : forall i (l : list A) x t,
  skipn i l = x :: t -> nth_error l i = Some x /\ skipn (Datatypes.S i) l = t /\ i < List.length l.
Proof.
  induction i as [|i IH]; intros [|y l] x t H; cbn in *; try discriminate H.
  - injection H as -> ->. repeat split. lia.
  - destruct (IH l x t H) as (H1 & H2 & H3). repeat split; try assumption. lia.
Qed.

Definition names (r : ref) (ps : pseg) : Prop := seg_es ps = es_of_ref r.

Lemma ev_resolve : forall l segs i cur c n pf,
  Forall2 names l (skipn i segs) -> lookup cur l = Some n -> ev_ok cur l = true ->
  List.length l < pf ->
  EV pf MReq segs i (RNode cur) c = gone (coords_of (walk_ctx c cur l) n).
Proof.
  induction l as [|r rest IH]; intros segs i cur c n pf HF Hl Hok Hpf.
  - destruct pf as [|pf']; [cbn in Hpf; lia|]. inversion HF as [E|]; subst.
    cbn [lookup] in Hl. injection Hl as <-.
    cbn [ev ev_body walk_ctx].
    replace (i <? List.length segs) with false
      by (symmetry; apply Nat.ltb_ge; apply skipn_nil_len; symmetry; assumption).
    reflexivity.
  - destruct pf as [|pf']; [cbn in Hpf; lia|].
    inversion HF as [|r0 ps l0 tl Hnm HF' E1 E2]; subst.
    destruct (skipn_cons_nth i segs ps tl (eq_sym E2)) as (Hnth & Hsk & Hlt).
    cbn [lookup] in Hl. cbn [ev_ok] in Hok. apply andb_true_iff in Hok. destruct Hok as [Hr Hok].
    destruct (child cur r) as [ch|] eqn:Ec; [|discriminate Hl].
    cbn [ev ev_body walk_ctx]. rewrite Ec.
    replace (i <? List.length segs) with true by (symmetry; apply Nat.ltb_lt; exact Hlt).
    rewrite (walk_step _ _ segs i ps cur r ch _ _ Hnth Hnm Ec Hr).
    unfold gbind, gone. cbn [fst snd gfor]. cbn [is_pylist coords_of].
    match goal with |- context [ev lit re_search nstr vstr kw_handler creator pf' MReq segs (Datatypes.S i) (RNode ch) ?cc] =>
      change cc with (step_ctx c cur r) end.
    rewrite (IH segs (Datatypes.S i) ch (step_ctx c cur r) n pf'); [| rewrite Hsk; exact HF' | exact Hl | exact Hok | cbn in Hpf; lia].
    reflexivity.
Qed.

Lemma go_weight_len : forall segs : list pseg,
  List.length segs <=
  (fix go (l : list pseg) : nat :=
     match l with [] => 0 | PSeg _ _ s s2 :: r => Datatypes.S (pweight s + pweight s2 + go r) end) segs.
Proof. induction segs as [|[? ? ? ?] r IH]; [cbn; lia|]. cbn [List.length]. lia. Qed.

Lemma names_psegs S : forall l, Forall2 names l (pb_psegs S (map gs_of_ref l)).
Proof.
  induction l as [|r rest IH]; [constructor|]. cbn [map pb_psegs]. constructor; [|exact IH].
  unfold names. destruct r; reflexivity.
Qed.

(* resolve_eval: the required query for a path that names [l] *)
Theorem resolve_eval_psegs S d l n :
  lookup d l = Some n -> ev_ok d l = true -> pb_doc_ok d = true ->
  get_required lit re_search nstr vstr kw_handler creator (PPath (pb_psegs S (map gs_of_ref l))) d
  = gone (pb_coords d l n).
Proof.
  intros Hl Hok Hd. unfold get_required.
  assert (E : EV (fuel_for (PPath (pb_psegs S (map gs_of_ref l)))) MReq (pb_psegs S (map gs_of_ref l)) 0 (RNode d) root_ctx
              = gone (pb_coords d l n)).
  { apply ev_resolve; [cbn [skipn]; apply names_psegs | exact Hl | exact Hok |].
    unfold fuel_for. cbn [pweight].
    pose proof (go_weight_len (pb_psegs S (map gs_of_ref l))) as G.
    unfold pb_psegs in G at 1. rewrite !map_length in G. lia. }
  rewrite E. destruct d as [i v| | |]; try reflexivity. destruct v; try reflexivity. discriminate Hd.
Qed.
End EvalRes.

(* ---- the reported path and the coordinates of the result ---- *)
Lemma walk_ctx_tp : forall l c cur n, lookup cur l = Some n -> x_tp (walk_ctx c cur l) = pb_append (x_tp c) l.
Proof.
  induction l as [|r rest IH]; intros c cur n H; [reflexivity|]. cbn [lookup walk_ctx pb_append] in *.
  destruct (child cur r) as [ch|]; [|discriminate H]. rewrite (IH _ ch n H). reflexivity.
Qed.

Lemma pb_coords_path d l n : lookup d l = Some n ->
  match pb_coords d l n with RCoords _ _ _ path _ => path | _ => "" end = build_orig l.
Proof. intros H. unfold pb_coords, coords_of, build_orig. rewrite (walk_ctx_tp l root_ctx d n H). reflexivity. Qed.

Lemma lookup_app : forall l0 d p r, lookup d l0 = Some p -> lookup d (l0 ++ [r])%list = child p r.
Proof.
  induction l0 as [|x rest IH]; intros d p r H; cbn in *.
  - injection H as <-. destruct (child d r); reflexivity.
  - destruct (child d x); [apply IH; exact H | discriminate H].
Qed.

(* parent[parentref] is the node: the result carries the parent of the last
   step and the reference of that step; its ancestry lists every step *)
Lemma walk_ctx_snoc : forall l0 c cur p r n,
  lookup cur l0 = Some p -> child p r = Some n ->
  walk_ctx c cur (l0 ++ [r])%list = step_ctx (walk_ctx c cur l0) p r.
Proof.
  induction l0 as [|x rest IH]; intros c cur p r n Hl Hc; cbn [app walk_ctx lookup] in *.
  - injection Hl as <-. rewrite Hc. reflexivity.
  - destruct (child cur x) as [ch|]; [|discriminate Hl]. apply (IH _ ch p r n Hl Hc).
Qed.

Lemma pb_append_snoc : forall l0 tp r,
  pb_append tp (l0 ++ [r])%list = pb_add (pb_append tp l0) (pb_ref_seg (pb_append tp l0) r).
Proof. induction l0 as [|x rest IH]; intros tp r; [reflexivity|]. cbn [app pb_append]. apply IH. Qed.

Theorem pb_coords_located d l0 r p n :
  lookup d l0 = Some p -> child p r = Some n ->
  exists path anc0,
    pb_coords d (l0 ++ [r])%list n = RCoords (RNode n) (Some (RNode p)) (Some (ref_val r)) path (anc0 ++ [(RNode p, ref_val r)])%list
    /\ path = build_orig (l0 ++ [r])%list.
Proof.
  intros Hl Hc. unfold pb_coords. rewrite (walk_ctx_snoc l0 root_ctx d p r n Hl Hc).
  eexists _, _. split; [reflexivity|].
  unfold build_orig. cbn [step_ctx x_tp].
  rewrite (walk_ctx_tp l0 root_ctx d p Hl). rewrite pb_append_snoc. reflexivity.
Qed.
