(* C03 / C01 / C02: the evaluator model composed with the set_value model
   (Model/Compose.v [ce_set]).

   READ HALF.  For a path of the C01 fragment the coordinates the required query
   gathers are LOCATIONS of the document - (identity of a container object of d,
   reference) - and the location number i holds the very node number i of
   [sem_doc p d]: C01_required_sem_partial (which nodes) + C02_results_located
   (parent[parentref] is the node, the ancestry walks from the root) + the
   document invariants (every container object once; keys and members are
   leaves; keys pairwise different) that make "the object with this identity"
   and "the child under this reference" unambiguous.

   WRITE HALF.  Mutate.set_value run on those coordinates is, under C03's own
   guard, the successive substitution [ce_set_spec] at those locations
   (C03history.apply_action_exact = C03_set_exact per change) and refines the
   plain-data run (C03_chain_partial). *)
From Coq Require Import List Ascii String ZArith NArith Bool Lia Arith.
From YP Require Import Outcome PyStr PyVal Doc PathParser Searches Eval Mutate Compose
  SpecC01 EvalSem EvalSemLib EvalSemPath EvalSemTop EvalLocAll
  C03spec C03hist C04spec C03e2e C03set C03history C04delete C04plan C09doc PyValOrder EvalDelete.
Import ListNotations.

(* ---------------------------------------------------------------------- *)
(* document invariants along an ancestry chain                              *)

Definition ce_inv (d p : node) : Prop := in_doc p d /\ ce_flat p = true /\ mkeys_distinct p = true.

Lemma sel_element_some els z m :
  sel_element els z = [m] ->
  let n := Z.of_nat (List.length els) in
  (- n <= z < n)%Z /\ nth_error els (Z.to_nat (if (z <? 0)%Z then (z + n)%Z else z)) = Some m.
Proof.
  unfold sel_element. cbv zeta.
  destruct ((- Z.of_nat (List.length els) <=? z)%Z && (z <? Z.of_nat (List.length els))%Z) eqn:E; [|discriminate].
  apply andb_prop in E. destruct E as [E1 E2]. apply Z.leb_le in E1. apply Z.ltb_lt in E2.
  destruct (nth_error els _) as [e|] eqn:En; [|discriminate].
  intros H. inversion H; subst. split; [lia|reflexivity].
Qed.

Lemma child_rel_is_child q r m : ce_flat q = true -> child_rel q r m -> is_child m q.
Proof.
  intros Hf H. destruct q as [i v|i kvs|i els|i els]; simpl in *.
  - contradiction.
  - destruct H as [kv [Hin [Hs _]]]. exists kv. split; assumption.
  - destruct H as [z [_ Hs]]. apply sel_element_some in Hs. destruct Hs as [_ Hn].
    eapply nth_error_In; eassumption.
  - split; [exact H|]. rewrite forallb_forall in Hf. apply Hf. exact H.
Qed.

Lemma child_rel_inv d q r m : ce_inv d q -> child_rel q r m -> ce_inv d m.
Proof.
  intros [Hd [Hf Hk]] H. pose proof (child_rel_is_child _ _ _ Hf H) as Hc.
  split; [eapply in_doc_child; eassumption|].
  destruct q as [i v|i kvs|i els|i els]; simpl in *.
  - contradiction.
  - destruct Hc as [kv [Hin <-]]. apply andb_prop in Hk. destruct Hk as [_ Hk].
    rewrite forallb_forall in Hf, Hk. specialize (Hf kv Hin). specialize (Hk kv Hin).
    apply andb_prop in Hf. destruct Hf as [_ Hf]. split; assumption.
  - rewrite forallb_forall in Hf, Hk. split; [apply Hf|apply Hk]; exact Hc.
  - destruct Hc as [_ Hl]. destruct m; try discriminate. split; reflexivity.
Qed.

Lemma walks_inv d anc m : ce_flat d = true -> mkeys_distinct d = true -> walks d anc m -> ce_inv d m.
Proof.
  intros Hf Hk H. induction H.
  - split; [|split; assumption]. intros o Ho. apply objs_self. exact Ho.
  - eapply child_rel_inv; eassumption.
Qed.

Lemma walks_last d anc p r m : walks d (anc ++ [(RNode p, r)]) m -> walks d anc p.
Proof.
  intros H. inversion H as [E|anc0 p0 r0 m0 Hw Hc E].
  - destruct anc; discriminate.
  - apply app_inj_tail in E. destruct E as [-> E]. inversion E; subst. exact Hw.
Qed.

Lemma find_in_doc d p o : wf_doc d -> in_doc p d -> coid p = Some o -> find_obj o d = Some p.
Proof.
  intros Hwf Hin Ho. specialize (Hin o Ho). rewrite find_obj_hd.
  destruct (objs o d) as [|a t] eqn:E; [contradiction|]. simpl.
  f_equal. apply (objs_unique o d p a Hwf); rewrite E; [exact Hin|left; reflexivity].
Qed.

(* ---------------------------------------------------------------------- *)
(* parent[parentref] of the write side is the child relation of C02         *)

Lemma find_key_unique r kvs kv :
  mkeys_nodup (map fst kvs) = true -> In kv kvs -> key_is r kv = true -> find (key_is r) kvs = Some kv.
Proof.
  induction kvs as [|kv0 rest IH]; intros Hn Hin Hk; [contradiction|]. simpl in *.
  apply andb_prop in Hn. destruct Hn as [Hn0 Hn].
  destruct (key_is r kv0) eqn:E0.
  - destruct Hin as [->|Hin]; [reflexivity|]. exfalso.
    rewrite forallb_forall in Hn0. specialize (Hn0 (fst kv) (in_map fst _ _ Hin)).
    apply negb_true_iff in Hn0. unfold key_is in E0, Hk. unfold mkey_eq in Hn0.
    destruct (fst kv0) as [i0 v0| | |]; try discriminate. destruct (fst kv) as [i1 v1| | |]; try discriminate.
    rewrite (py_eq_trans v0 r v1) in Hn0; [discriminate|exact E0|]. rewrite py_eq_sym. exact Hk.
  - destruct Hin as [->|Hin]; [congruence|]. apply IH; assumption.
Qed.

Lemma child_get_change p r m :
  ce_flat p = true -> mkeys_distinct p = true -> is_set p = false -> child_rel p r m ->
  get_change p (norm_ref p r) = ROk (Some m).
Proof.
  intros Hf Hk Hs H. destruct p as [i v|i kvs|i els|i els]; simpl in H; try discriminate.
  - contradiction.
  - destruct H as [kv [Hin [Hv Hkey]]].
    assert (Hn : norm_ref (NMap i kvs) r = r) by (unfold norm_ref; destruct (as_index r); reflexivity).
    rewrite Hn. simpl in Hf, Hk. apply andb_prop in Hk. destruct Hk as [Hk _].
    assert (Hki : key_is r kv = true).
    { rewrite forallb_forall in Hf. specialize (Hf kv Hin). apply andb_prop in Hf. destruct Hf as [Hl _].
      unfold key_is. destruct (fst kv) as [ki kvv| | |]; try discriminate. simpl in Hkey.
      destruct Hkey as [<-|Hkey]; [apply py_eq_refl|exact Hkey]. }
    simpl. rewrite (find_key_unique r kvs kv Hk Hin Hki). rewrite Hv. reflexivity.
  - destruct H as [z [-> Hsel]]. apply sel_element_some in Hsel. cbv zeta in Hsel. destruct Hsel as [Hr Hn].
    unfold norm_ref. simpl as_index. cbv iota beta.
    destruct (z <? 0)%Z eqn:Ez.
    + apply Z.ltb_lt in Ez. simpl.
      assert (E1 : (z + Z.of_nat (List.length els) <? 0)%Z = false) by (apply Z.ltb_ge; lia).
      rewrite E1.
      assert (E2 : ((0 <=? z + Z.of_nat (List.length els)) && (z + Z.of_nat (List.length els) <? Z.of_nat (List.length els)))%Z = true).
      { apply andb_true_intro. split; [apply Z.leb_le|apply Z.ltb_lt]; lia. }
      rewrite E2, Hn. reflexivity.
    + apply Z.ltb_ge in Ez. simpl.
      assert (E1 : (z <? 0)%Z = false) by (apply Z.ltb_ge; lia). rewrite E1.
      assert (E2 : ((0 <=? z) && (z <? Z.of_nat (List.length els)))%Z = true).
      { apply andb_true_intro. split; [apply Z.leb_le|apply Z.ltb_lt]; lia. }
      rewrite E2, Hn. reflexivity.
Qed.

(* ---------------------------------------------------------------------- *)
(* one located result                                                       *)

Lemma plain_item x m : item_res x = SNode m -> exists par rf path anc, x = RCoords (RNode m) par rf path anc.
Proof.
  destruct x as [n|l|nd par rf path anc]; simpl; try discriminate.
  destruct nd as [n|l|]; try discriminate.
  - intros H. inversion H; subst. repeat eexists.
  - destruct (elem_nodes l); discriminate.
Qed.

Lemma small_not_copy d p o : ce_small d = true -> In p (objs o d) -> is_copy p = false.
Proof.
  intros Hs Hin. pose proof (objs_in_coids _ _ _ Hin) as Hc. pose proof (objs_coid _ _ _ Hin) as Ho.
  unfold ce_small in Hs. rewrite forallb_forall in Hs. specialize (Hs o Hc). apply N.ltb_lt in Hs.
  unfold is_copy. apply N.leb_gt.
  destruct p; simpl in Ho; try discriminate; inversion Ho; subst; exact Hs.
Qed.

Lemma located_holds d x m :
  wf_doc d -> ce_flat d = true -> ce_small d = true -> mkeys_distinct d = true ->
  res_loc true d x -> item_res x = SNode m ->
  ce_holds d (pc_pair (coord_of x)) (SNode m) /\ ce_coord false x = Some (CNode (coord_of x) false).
Proof.
  intros Hwf Hf Hsm Hk Hl Hi. destruct (plain_item _ _ Hi) as [par [rf [path [anc ->]]]].
  simpl in Hl. destruct Hl as [Hw Hp].
  destruct par as [[p| |]|]; destruct rf as [r|]; try contradiction.
  - destruct Hp as [Hc [anc' [r' ->]]].
    pose proof (walks_inv _ _ _ Hf Hk (walks_last _ _ _ _ _ Hw)) as [Hin [Hfp Hkp]].
    assert (Ho : coid p = Some (node_oid p)) by (destruct p; simpl in *; [contradiction|reflexivity..]).
    pose proof (find_in_doc _ _ _ Hwf Hin Ho) as Hfind.
    pose proof (small_not_copy _ _ _ Hsm (Hin _ Ho)) as Hnc.
    split.
    + simpl. exists p. split; [exact Hfind|]. split; [reflexivity|].
      destruct p as [i v|i kvs|i els|i els]; simpl in Hc; try contradiction; try exact Hc;
        apply child_get_change; auto.
    + simpl. destruct p as [i v|i kvs|i els|i els]; simpl in Hc; try contradiction;
        simpl; simpl in Hnc; rewrite Hnc; reflexivity.
  - split; [|reflexivity]. simpl. subst anc. inversion Hw as [E|anc0 p0 r0 m0 Hw0 Hc0 E]; [reflexivity|].
    destruct anc0; discriminate.
Qed.

(* ... and it is a coordinate that LOCATES a node in the sense of C04 (Spec/C04spec.v del_located) *)
Lemma first_idx_some {A} (P : A -> bool) l x : In x l -> P x = true -> first_idx P l <> None.
Proof.
  induction l as [|y r IH]; intros Hin Hp; [contradiction|]. simpl.
  destruct (P y) eqn:E; [discriminate|]. destruct Hin as [->|Hin]; [congruence|].
  destruct (first_idx P r); [discriminate|]. exfalso. apply (IH Hin Hp). reflexivity.
Qed.

Lemma located_del d x m :
  wf_doc d -> ce_flat d = true -> mkeys_distinct d = true ->
  res_loc true d x -> item_res x = SNode m -> ce_elem_parent x = true ->
  del_located d (pc_pair (coord_of x)) = true.
Proof.
  intros Hwf Hf Hk Hl Hi He. destruct (plain_item _ _ Hi) as [par [rf [path [anc ->]]]].
  simpl in Hl. destruct Hl as [Hw Hp].
  destruct par as [[p| |]|]; destruct rf as [r|]; try contradiction; try discriminate.
  destruct Hp as [Hc [anc' [r' ->]]].
  pose proof (walks_inv _ _ _ Hf Hk (walks_last _ _ _ _ _ Hw)) as [Hin [Hfp Hkp]].
  assert (Ho : coid p = Some (node_oid p)) by (destruct p; simpl in *; [contradiction|reflexivity..]).
  pose proof (find_in_doc _ _ _ Hwf Hin Ho) as Hfind. rewrite find_obj_hd in Hfind.
  unfold del_located, pc_pair, coord_of, target_of. cbn [pc_parent pc_ref fst snd].
  destruct (objs (node_oid p) d) as [|n0 t]; [discriminate|]. simpl in Hfind. inversion Hfind; subst n0.
  destruct p as [i v|i kvs|i els|i els]; try discriminate; simpl in Hc.
  - destruct Hc as [kv [Hkv [_ Hkey]]]. simpl.
    assert (Hne : first_idx (fun kv0 => leaf_eq r (fst kv0)) kvs <> None).
    { apply (first_idx_some _ kvs kv Hkv). simpl in Hfp. rewrite forallb_forall in Hfp.
      specialize (Hfp kv Hkv). apply andb_prop in Hfp. destruct Hfp as [Hl _].
      unfold leaf_eq. destruct (fst kv) as [ki kvv| | |]; try discriminate. simpl in Hkey.
      destruct Hkey as [<-|Hkey]; [apply py_eq_refl|exact Hkey]. }
    destruct (first_idx _ kvs); [reflexivity|congruence].
  - destruct Hc as [z [-> Hsel]]. apply sel_element_some in Hsel. cbv zeta in Hsel. destruct Hsel as [Hr _].
    simpl. destruct ((0 <=? z)%Z && (z <? Z.of_nat (List.length els))%Z) eqn:E1; [reflexivity|].
    destruct ((z <? 0)%Z && (0 <=? z + Z.of_nat (List.length els))%Z) eqn:E2; [reflexivity|]. exfalso.
    apply andb_false_iff in E1. apply andb_false_iff in E2.
    destruct E1 as [E1|E1]; [apply Z.leb_gt in E1|apply Z.ltb_ge in E1];
      (destruct E2 as [E2|E2]; [apply Z.ltb_ge in E2|apply Z.leb_gt in E2]); lia.
Qed.

Section EndToEnd.
Variable lit : string -> outcome litres.
Variable re_search : string -> string -> outcome reres.
Variable nstr : node -> string.
Variable vstr : list rval -> string.
Variable kw_handler : bool -> keyword -> string -> rval -> ctx -> gen rval.
Variable creator : list pseg -> nat -> rval -> ctx -> gen rval.
Variable fl : string -> outcome flres.

Notation REQ := (get_required lit re_search nstr vstr kw_handler creator).
Notation GATHERED := (gathered lit re_search nstr vstr kw_handler creator).
Notation SEM := (sem_doc lit re_search nstr false).
Notation GUARD := (sem_doc lit re_search nstr true).

Lemma items_hold d items sem :
  wf_doc d -> ce_flat d = true -> ce_small d = true -> mkeys_distinct d = true ->
  Forall (res_loc true d) items -> map item_res items = sem -> ce_plain sem = true ->
  Forall2 (ce_holds d) (map pc_pair (map coord_of items)) sem /\
  ce_coords false items = Some (map (fun c => CNode c false) (map coord_of items)).
Proof.
  intros Hwf Hf Hsm Hk. revert sem. induction items as [|x r IH]; intros sem Hl Hm Hp; simpl in *.
  - subst sem. split; [constructor|reflexivity].
  - subst sem. simpl in Hp. inversion Hl as [|? ? Hx Hr]; subst.
    destruct (item_res x) as [m| |] eqn:Ei; try discriminate.
    destruct (located_holds d x m Hwf Hf Hsm Hk Hx Ei) as [Hh Hc].
    destruct (IH _ Hr eq_refl Hp) as [IH1 IH2].
    split; [constructor; assumption|]. rewrite Hc, IH2. reflexivity.
Qed.

(* THE READ HALF: the gathered coordinates are the locations of the selected nodes *)
Theorem gathered_holds_sem segs d :
  c01_frag (PPath segs) = true -> is_null_node d = false -> specified (GUARD (PPath segs) d) = true ->
  slices_last segs = true -> ce_plain (SEM (PPath segs) d) = true ->
  wf_doc d -> ce_flat d = true -> ce_small d = true -> mkeys_distinct d = true ->
  Forall2 (ce_holds d) (map pc_pair (GATHERED (PPath segs) d)) (SEM (PPath segs) d) /\
  ce_coords false (fst (REQ (PPath segs) d)) = Some (map (fun c => CNode c false) (GATHERED (PPath segs) d)) /\
  snd (REQ (PPath segs) d) = match SEM (PPath segs) d with [] => Err (YPE Unmatched) | _ => Done end.
Proof.
  intros Hfr Hnn Hsp Hsl Hpl Hwf Hf Hsm Hk.
  destruct (required_sem lit re_search nstr vstr kw_handler creator (PPath segs) d Hfr Hnn Hsp) as [Hm Hs].
  pose proof (required_located lit re_search nstr vstr kw_handler creator d (PPath segs) segs eq_refl Hfr Hsl) as Hl.
  destruct (items_hold d _ _ Hwf Hf Hsm Hk Hl Hm Hpl) as [H1 H2].
  unfold gathered. repeat split; assumption.
Qed.


Lemma items_located d items sem :
  wf_doc d -> ce_flat d = true -> mkeys_distinct d = true ->
  Forall (res_loc true d) items -> map item_res items = sem -> ce_plain sem = true ->
  forallb ce_elem_parent items = true ->
  del_all_located d (map pc_pair (map coord_of items)) = true.
Proof.
  intros Hwf Hf Hk. revert sem. induction items as [|x r IH]; intros sem Hl Hm Hp He; simpl in *; [reflexivity|].
  subst sem. simpl in Hp. inversion Hl as [|? ? Hx Hr]; subst.
  apply andb_prop in He. destruct He as [He1 He2].
  destruct (item_res x) as [m| |] eqn:Ei; try discriminate.
  rewrite (located_del d x m Hwf Hf Hk Hx Ei He1). simpl. apply (IH _ Hr eq_refl Hp He2).
Qed.

(* C04's hypothesis, derived: when no result is the root or a set member, every gathered coordinate
   locates a node (del_all_located) *)
Theorem gathered_all_located segs d :
  c01_frag (PPath segs) = true -> is_null_node d = false -> specified (GUARD (PPath segs) d) = true ->
  slices_last segs = true -> ce_plain (SEM (PPath segs) d) = true ->
  wf_doc d -> ce_flat d = true -> mkeys_distinct d = true ->
  forallb ce_elem_parent (fst (REQ (PPath segs) d)) = true ->
  del_all_located d (map pc_pair (GATHERED (PPath segs) d)) = true.
Proof.
  intros Hfr Hnn Hsp Hsl Hpl Hwf Hf Hk He.
  destruct (required_sem lit re_search nstr vstr kw_handler creator (PPath segs) d Hfr Hnn Hsp) as [Hm _].
  pose proof (required_located lit re_search nstr vstr kw_handler creator d (PPath segs) segs eq_refl Hfr Hsl) as Hl.
  unfold gathered. eapply items_located; eauto.
Qed.

(* Processor.delete_nodes(path) end to end, C04's hypothesis discharged *)
Theorem delete_required_e2e segs d :
  c01_frag (PPath segs) = true -> is_null_node d = false -> specified (GUARD (PPath segs) d) = true ->
  slices_last segs = true -> ce_plain (SEM (PPath segs) d) = true ->
  wf_doc d -> ce_flat d = true -> ce_small d = true -> mkeys_distinct d = true ->
  forallb ce_elem_parent (fst (REQ (PPath segs) d)) = true ->
  Forall2 (ce_holds d) (map pc_pair (GATHERED (PPath segs) d)) (SEM (PPath segs) d) /\
  delete_nodes (map (fun c => CNode c false) (GATHERED (PPath segs) d)) d
  = MDone (delete_spec d (map pc_pair (GATHERED (PPath segs) d))).
Proof.
  intros Hfr Hnn Hsp Hsl Hpl Hwf Hf Hsm Hk He.
  destruct (gathered_holds_sem segs d Hfr Hnn Hsp Hsl Hpl Hwf Hf Hsm Hk) as [A _].
  split; [exact A|].
  apply delete_gathered_exact; [exact Hwf|]. apply gathered_all_located; assumption.
Qed.

(* ---------------------------------------------------------------------- *)
(* THE WRITE HALF                                                           *)

Definition ce_acts (fmt : vformat) (pcs : list pcoord) : list action := map (fun c => mkact c false fmt) pcs.

Lemma plain_actions fmt pcs : flat_map (set_actions fmt) (map (fun c => CNode c false) pcs) = ce_acts fmt pcs.
Proof. induction pcs as [|c r IH]; simpl; [reflexivity|]. rewrite IH. reflexivity. Qed.

(* a guarded run over plain coordinates IS the successive substitution at their locations *)
Lemma run_is_spec value fmt vo pcs st st' :
  wf_attr (fst st) = true -> acts_ok lit fl value vo (ce_acts fmt pcs) st = true ->
  run_actions lit fl value vo (ce_acts fmt pcs) st = SDone st' ->
  ce_set_spec lit fl value fmt vo (map pc_pair pcs) st = Some st'.
Proof.
  revert st. induction pcs as [|pc r IH]; intros st Hwf Hok H; simpl in *.
  - inversion H; subst. reflexivity.
  - apply andb_true_iff in Hok. destruct Hok as [Hok1 Hok2].
    destruct (apply_action lit fl value vo (mkact pc false fmt) st) as [st1|e] eqn:Ea; [|discriminate].
    destruct (apply_action_exact lit fl _ _ _ _ _ Hwf Hok1 Ea) as [o [rf [c [ri [rv [Et [Hm [Hs Hw]]]]]]]].
    unfold act_target in Et. simpl in Et.
    destruct (pc_parent pc) as [o0|]; [|discriminate].
    destruct (find_obj o0 (fst st)) as [pn|]; [|discriminate].
    destruct (get_change pn (norm_ref pn (pc_ref pc))) as [[c0|]|e]; try discriminate.
    inversion Et; subst o0 rf c0. simpl in Hm. rewrite Hm. rewrite <- Hs. apply IH; assumption.
Qed.

(* Processor.set_value(path, value, mustexist=True) end to end *)
Theorem set_required_e2e segs d value fmt vo :
  let p := PPath segs in
  let pcs := GATHERED p d in
  let s0 := sv_start vo (init_state d) in
  c01_frag p = true -> is_null_node d = false -> specified (GUARD p d) = true ->
  slices_last segs = true -> ce_name_kw p = false -> ce_plain (SEM p d) = true ->
  ce_doc_ok d = true ->
  (* the coordinates handed to _apply_change are the locations of the selected nodes, in order *)
  Forall2 (ce_holds d) (map pc_pair pcs) (SEM p d) /\
  (* nothing selected: the Unmatched YAML Path error, nothing applied *)
  (SEM p d = [] ->
   ce_set lit re_search nstr vstr kw_handler creator fl true p d value fmt vo = CeRead (Err (YPE Unmatched))) /\
  (* a completed run under C03's guard: the successive substitution at those locations *)
  (acts_ok lit fl value (fst s0) (ce_acts fmt pcs) (snd s0) = true ->
   forall st', ce_set lit re_search nstr vstr kw_handler creator fl true p d value fmt vo = CeDone st' ->
     ce_set_spec lit fl value fmt (fst s0) (map pc_pair pcs) (snd s0) = Some st' /\
     psteps (abs_actions lit fl value (fst s0) (ce_acts fmt pcs) (snd s0)) (erase d) (erase (fst st')) /\
     wf_attr (fst st') = true).
Proof.
  cbv zeta. intros Hfr Hnn Hsp Hsl Hnk Hpl Hok.
  unfold ce_doc_ok in Hok. repeat (apply andb_prop in Hok; destruct Hok as [Hok ?]).
  rename H into Hwa, H0 into Hkd, H1 into Hsm, H2 into Hfl. apply wf_docb_sound in Hok.
  destruct (gathered_holds_sem segs d Hfr Hnn Hsp Hsl Hpl Hok Hfl Hsm Hkd) as [Hh [Hc Hs]].
  split; [exact Hh|]. unfold ce_set, ce_gather. rewrite Hs, Hnk.
  split.
  - intros E. rewrite E. reflexivity.
  - intros Hg st'. destruct (sem_doc lit re_search nstr false (PPath segs) d) as [|s r] eqn:E; [discriminate|].
    rewrite Hc. rewrite set_value_unfold, plain_actions.
    destruct (run_actions lit fl value (fst (sv_start vo (init_state d))) (ce_acts fmt (GATHERED (PPath segs) d))
                (snd (sv_start vo (init_state d)))) as [st1|st1 e1] eqn:Er; [|discriminate].
    intros H. inversion H; subst st1.
    assert (Hw0 : wf_attr (fst (snd (sv_start vo (init_state d)))) = true) by (destruct vo; exact Hwa).
    split; [apply run_is_spec; assumption|].
    replace (erase d) with (erase (fst (snd (sv_start vo (init_state d))))) by (destruct vo; reflexivity).
    apply (actions_refine lit fl _ _ _ _ _ Hw0 Hg Er).
Qed.

(* Processor.set_value(path, value) - mustexist=False - on a path that exists in
   every branch ([opt_ok], C01_optional_on_existing_partial) IS the mustexist=True
   call: same gather, hence same changes, and no node is created *)
Theorem set_optional_is_required segs d value fmt vo :
  let p := PPath segs in
  opt_ok lit re_search nstr vstr kw_handler creator (fuel_for p) segs 0 (RNode d) root_ctx = true ->
  fst (REQ p d) <> [] ->
  ce_set lit re_search nstr vstr kw_handler creator fl false p d value fmt vo
  = ce_set lit re_search nstr vstr kw_handler creator fl true p d value fmt vo.
Proof.
  cbv zeta. intros Hok Hne. unfold ce_set, ce_gather.
  rewrite (optional_on_existing lit re_search nstr vstr kw_handler creator (PPath segs) segs d eq_refl Hok Hne).
  reflexivity.
Qed.

(* a failing call stops at the failing change, which changed nothing; the changes before it are complete *)
Theorem set_failed_clean mustexist p d value fmt vo st e :
  ce_set lit re_search nstr vstr kw_handler creator fl mustexist p d value fmt vo = CeFailed st e ->
  exists cs done rest a,
    ce_coords (ce_name_kw p) (fst (ce_gather lit re_search nstr vstr kw_handler creator mustexist p d)) = Some cs /\
    flat_map (set_actions fmt) cs = (done ++ a :: rest)%list /\
    run_actions lit fl value (fst (sv_start vo (init_state d))) done (snd (sv_start vo (init_state d))) = SDone st /\
    apply_action lit fl value (fst (sv_start vo (init_state d))) a st = RErr e.
Proof.
  unfold ce_set. destruct (snd (ce_gather _ _ _ _ _ _ mustexist p d)); try discriminate.
  destruct (ce_coords _ _) as [cs|]; [|discriminate]. rewrite set_value_unfold.
  destruct (run_actions _ _ _ _ _ _) as [st1|st1 e1] eqn:Er; [discriminate|].
  intros H. inversion H; subst.
  destruct (run_actions_failed_state lit fl _ _ _ _ _ _ Er) as [dn [rest [a [E1 [E2 E3]]]]].
  exists cs, dn, rest, a. repeat split; assumption.
Qed.

End EndToEnd.
