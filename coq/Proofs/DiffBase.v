(* Generic lemmas for the Differ proofs: monadic folds, Python key equality,
   lookups in well-formed documents. *)
From Coq Require Import List Ascii String ZArith NArith QArith Bool Arith Lia Permutation.
From YP Require Import Outcome PyStr PyVal Doc Diff C06Spec.
Import ListNotations.
Close Scope Q_scope.
Open Scope nat_scope.

(* ---- foldM ---- *)
Lemma foldM_inv {A S} (f : S -> A -> outcome S) (I : S -> Prop) :
  forall l s s',
    (forall a x a', In x l -> f a x = Ok a' -> I a -> I a') ->
    foldM f l s = Ok s' -> I s -> I s'.
Proof.
  induction l as [|x r IH]; simpl; intros s s' Hf H Hs.
  - inversion H; subst; auto.
  - destruct (f s x) as [s1| |] eqn:E; simpl in H; try discriminate.
    eapply IH; [ | exact H | ].
    + intros a y a' Hy; apply Hf; right; exact Hy.
    + eapply Hf; [left; reflexivity | exact E | exact Hs].
Qed.

(* a fold with an invariant indexed by the processed prefix *)
Lemma foldM_ind {A S} (f : S -> A -> outcome S) (I : list A -> S -> Prop) :
  forall l pre s s',
    (forall p x a a', In x l -> f a x = Ok a' -> I p a -> I (p ++ [x]) a') ->
    foldM f l s = Ok s' -> I pre s -> I (pre ++ l) s'.
Proof.
  induction l as [|x r IH]; simpl; intros pre s s' Hf H Hs.
  - inversion H; subst. rewrite app_nil_r; auto.
  - destruct (f s x) as [s1| |] eqn:E; simpl in H; try discriminate.
    replace (pre ++ x :: r) with ((pre ++ [x]) ++ r) by (rewrite <- app_assoc; reflexivity).
    eapply IH; [ | exact H | ].
    + intros p y a a' Hy; apply Hf; right; exact Hy.
    + eapply Hf; [left; reflexivity | exact E | exact Hs].
Qed.

Lemma foldM_ok {A S} (f : S -> A -> outcome S) :
  forall l s, (forall a x, In x l -> exists a', f a x = Ok a') -> exists s', foldM f l s = Ok s'.
Proof.
  induction l as [|x r IH]; simpl; intros s Hf.
  - eauto.
  - destruct (Hf s x (or_introl eq_refl)) as [s1 E]. rewrite E; simpl.
    apply IH. intros a y Hy; apply Hf; right; exact Hy.
Qed.

(* ---- Python equality of scalar values ---- *)
Lemma py_eq_refl : forall v, py_eq v v = true.
Proof.
  destruct v; simpl; auto.
  - apply Qeq_bool_iff; reflexivity.
  - apply Qeq_bool_iff; reflexivity.
  - apply Qeq_bool_iff; reflexivity.
  - apply String.eqb_refl.
  - apply String.eqb_refl.
Qed.

(* ---- enumerate ---- *)
Lemma enumerate_from_nth {A} : forall (l : list A) i n x,
  In (n, x) (enumerate_from i l) -> exists k, n = i + k /\ nth_error l k = Some x.
Proof.
  induction l as [|y r IH]; simpl; intros i n x H; [contradiction|].
  destruct H as [H|H].
  - inversion H; subst. exists 0; split; [lia|reflexivity].
  - destruct (IH _ _ _ H) as [k [E1 E2]]. exists (S k); split; [lia|exact E2].
Qed.

Lemma enumerate_nth {A} : forall (l : list A) n x,
  In (n, x) (enumerate l) -> nth_error l n = Some x.
Proof.
  intros l n x H. destruct (enumerate_from_nth _ _ _ _ H) as [k [E1 E2]].
  simpl in E1; subst; exact E2.
Qed.

Lemma enumerate_from_map_snd {A} : forall (l : list A) i, map snd (enumerate_from i l) = l.
Proof. induction l; simpl; intros; f_equal; auto. Qed.

Lemma enumerate_from_length {A} : forall (l : list A) i, List.length (enumerate_from i l) = List.length l.
Proof. induction l; simpl; intros; auto. Qed.

(* ---- lookup along an extended location ---- *)
Lemma lookup_app : forall l1 l2 n,
  lookup n (l1 ++ l2) = match lookup n l1 with Some c => lookup c l2 | None => None end.
Proof.
  induction l1 as [|r l1 IH]; simpl; intros; auto.
  destruct (child n r); auto.
Qed.

Lemma lookup_snoc : forall l r n c,
  lookup n l = Some c -> lookup n (l ++ [r]) = child c r.
Proof.
  intros. rewrite lookup_app, H. simpl. destruct (child c r); reflexivity.
Qed.

(* ---- keys of well-formed mappings ---- *)
Lemma plain_leaf_inv : forall n, plain_leaf n = true -> exists i v, n = NLeaf i v /\ tag i = None.
Proof.
  destruct n; simpl; intros H; try discriminate.
  destruct (tag i) eqn:E; try discriminate. eauto.
Qed.

Lemma node_eq_plain : forall a b, plain_leaf a = true -> plain_leaf b = true ->
  node_eq a b = py_eq (key_val a) (key_val b).
Proof.
  intros a b Ha Hb.
  destruct (plain_leaf_inv _ Ha) as [i [v [-> Hi]]].
  destruct (plain_leaf_inv _ Hb) as [j [w [-> Hj]]].
  simpl. unfold leaf_eq, is_tagged. rewrite Hi, Hj. reflexivity.
Qed.

(* mapping[key] by the model = assoc_key of the shared vocabulary *)
Lemma map_get_assoc : forall kvs k,
  forallb (fun kv => plain_leaf (fst kv)) kvs = true -> plain_leaf k = true ->
  map_get k kvs = assoc_key (key_val k) kvs.
Proof.
  unfold map_get.
  induction kvs as [|[kn v] r IH]; simpl; intros k Hk Hp; auto.
  apply andb_true_iff in Hk; destruct Hk as [Hkn Hr].
  rewrite (node_eq_plain _ _ Hkn Hp).
  destruct (plain_leaf_inv _ Hkn) as [i [w [-> Hi]]]. simpl.
  destruct (py_eq w (key_val k)); auto.
Qed.

(* an item of a mapping with unique keys is what the mapping holds at its key *)
Lemma assoc_key_in : forall kvs k v,
  forallb (fun kv => plain_leaf (fst kv)) kvs = true ->
  nodup_vals (map (fun kv => leaf_value (fst kv)) kvs) = true ->
  In (k, v) kvs -> assoc_key (key_val k) kvs = Some v.
Proof.
  induction kvs as [|[kn w] r IH]; simpl; intros k v Hp Hn Hin; [contradiction|].
  apply andb_true_iff in Hp; destruct Hp as [Hkn Hr].
  apply andb_true_iff in Hn; destruct Hn as [Hfresh Hn].
  destruct (plain_leaf_inv _ Hkn) as [i [x [-> Hi]]]. simpl in *.
  destruct Hin as [E|Hin].
  - inversion E; subst. simpl. rewrite py_eq_refl. reflexivity.
  - assert (Hk : plain_leaf k = true).
    { rewrite forallb_forall in Hr. apply (Hr (k, v) Hin). }
    destruct (plain_leaf_inv _ Hk) as [j [y [-> Hj]]]. simpl.
    destruct (py_eq x y) eqn:E.
    + exfalso. apply negb_true_iff in Hfresh.
      assert (existsb (py_eq x) (map (fun kv => leaf_value (fst kv)) r) = true).
      { apply existsb_exists. exists y. split; [|exact E].
        apply in_map_iff. exists (NLeaf j y, v). split; [reflexivity|exact Hin]. }
      congruence.
    + apply (IH (NLeaf j y) v Hr Hn Hin).
Qed.

Lemma find_member_in : forall els m,
  forallb plain_leaf els = true -> nodup_vals (map leaf_value els) = true ->
  In m els -> find_member (key_val m) els = Some m.
Proof.
  induction els as [|x r IH]; simpl; intros m Hp Hn Hin; [contradiction|].
  apply andb_true_iff in Hp; destruct Hp as [Hx Hr].
  apply andb_true_iff in Hn; destruct Hn as [Hfresh Hn].
  destruct (plain_leaf_inv _ Hx) as [i [v [-> Hi]]]. simpl in *.
  destruct Hin as [E|Hin].
  - subst. simpl. rewrite py_eq_refl. reflexivity.
  - assert (Hm : plain_leaf m = true) by (rewrite forallb_forall in Hr; auto).
    destruct (plain_leaf_inv _ Hm) as [j [y [-> Hj]]]. simpl.
    destruct (py_eq v y) eqn:E.
    + exfalso. apply negb_true_iff in Hfresh.
      assert (existsb (py_eq v) (map leaf_value r) = true).
      { apply existsb_exists. exists y. split; [|exact E].
        apply in_map_iff. exists (NLeaf j y). split; [reflexivity|exact Hin]. }
      congruence.
    + apply (IH (NLeaf j y) Hr Hn Hin).
Qed.

(* `for ele in s: if ele == key` finds a member of the set *)
Lemma set_find_in : forall els k, set_has k els = true -> In (set_find k els) els.
Proof.
  unfold set_has, set_find. intros els k H.
  destruct (find (fun e => node_eq e k) els) eqn:E.
  - apply find_some in E. tauto.
  - apply existsb_exists in H. destruct H as [x [Hx Hx2]].
    pose proof (find_none _ _ E x Hx). simpl in H. congruence.
Qed.

(* ---- well-formedness is inherited by children ---- *)
Lemma wf_map_inv : forall i kvs, wf_doc (NMap i kvs) = true ->
  forallb (fun kv => plain_leaf (fst kv)) kvs = true /\
  nodup_vals (map (fun kv => leaf_value (fst kv)) kvs) = true /\
  (forall kv, In kv kvs -> wf_doc (snd kv) = true).
Proof.
  intros i kvs H. simpl in H.
  apply andb_true_iff in H; destruct H as [H H3].
  apply andb_true_iff in H; destruct H as [H1 H2].
  repeat split; auto.
  clear H1 H2. induction kvs as [|kv r IH]; simpl; intros x Hx; [contradiction|].
  apply andb_true_iff in H3; destruct H3 as [Ha Hb].
  destruct Hx as [->|Hx]; auto.
Qed.

Lemma wf_seq_inv : forall i els, wf_doc (NSeq i els) = true -> forall x, In x els -> wf_doc x = true.
Proof.
  intros i els H. simpl in H.
  induction els as [|y r IH]; simpl; intros x Hx; [contradiction|].
  apply andb_true_iff in H; destruct H as [Ha Hb].
  destruct Hx as [->|Hx]; auto.
Qed.

Lemma wf_set_inv : forall i els, wf_doc (NSet i els) = true ->
  forallb plain_leaf els = true /\ nodup_vals (map leaf_value els) = true.
Proof.
  intros i els H. simpl in H. apply andb_true_iff in H. destruct H as [_ H].
  apply andb_true_iff in H. exact H.
Qed.

Lemma wf_plain_leaf : forall n, plain_leaf n = true -> wf_doc n = true.
Proof. destruct n; simpl; intros; auto; discriminate. Qed.

Lemma assoc_key_some_in : forall kvs k v, assoc_key k kvs = Some v -> exists kn, In (kn, v) kvs.
Proof.
  induction kvs as [|[kn w] r IH]; simpl; intros k v H; [discriminate|].
  destruct kn; try (destruct (IH _ _ H) as [x Hx]; exists x; right; exact Hx).
  destruct (py_eq v0 k).
  - inversion H; subst. eexists; left; reflexivity.
  - destruct (IH _ _ H) as [x Hx]; exists x; right; exact Hx.
Qed.

Lemma find_member_some_in : forall els k m, find_member k els = Some m -> In m els.
Proof.
  induction els as [|x r IH]; simpl; intros k m H; [discriminate|].
  destruct x; try (right; eapply IH; exact H).
  destruct (py_eq v k).
  - inversion H; subst. left; reflexivity.
  - right; eapply IH; exact H.
Qed.

Lemma wf_child : forall n r c, wf_doc n = true -> child n r = Some c -> wf_doc c = true.
Proof.
  intros n r c Hwf Hc. destruct n, r; simpl in Hc; try discriminate.
  - destruct (wf_map_inv _ _ Hwf) as [_ [_ H3]].
    destruct (assoc_key_some_in _ _ _ Hc) as [kn Hin]. apply (H3 (kn, c) Hin).
  - apply nth_error_In in Hc. eapply wf_seq_inv; eauto.
  - destruct (wf_set_inv _ _ Hwf) as [H1 _].
    apply find_member_some_in in Hc. rewrite forallb_forall in H1.
    apply wf_plain_leaf; auto.
Qed.

Lemma wf_lookup : forall l n c, wf_doc n = true -> lookup n l = Some c -> wf_doc c = true.
Proof.
  induction l as [|r l IH]; simpl; intros n c Hwf H.
  - inversion H; subst; auto.
  - destruct (child n r) eqn:E; try discriminate.
    eapply IH; [eapply wf_child; eauto | exact H].
Qed.

Lemma map_get_in : forall kvs k v, map_get k kvs = Some v -> exists kn, In (kn, v) kvs.
Proof.
  unfold map_get. intros kvs k v H.
  destruct (find (fun kv => node_eq (fst kv) k) kvs) as [[kn w]|] eqn:E; try discriminate.
  inversion H; subst. apply find_some in E. exists kn; tauto.
Qed.
