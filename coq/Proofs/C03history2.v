(* C03: chains of changes INCLUDING [name()] key renames, and whole edit
   histories, refine the plain-data model under guards that no longer re-check the
   document invariants: doc_inv is asked of the FIRST document only and proved to
   survive every Set (values, alias keys, renamed keys), every Delete and every
   Create. *)
From Coq Require Import String List ZArith NArith Bool Lia Arith Permutation.
From YP Require Import Outcome PyStr PyVal Doc Searches Mutate Create History C03spec C04spec C03hist C03e2e C03set
  C04lists C04delete C04plan C09create C09createP C09doc C03erase C03history C03inv C03invCreate C03guard C03rename.
Import ListNotations.

(* ---------------- doc_inv = the local invariants + every container once ---------------- *)
Lemma doc_inv_iff : forall d, doc_inv d = true <-> (linv d = true /\ wf_doc d).
Proof.
  intros d. unfold doc_inv. rewrite !andb_true_iff. rewrite linv_iff. split.
  - intros [[[A B] C] D]. repeat split; auto. apply wf_docb_sound. exact B.
  - intros [[A [B C]] D]. repeat split; auto. apply wf_docb_complete. exact D.
Qed.

Lemma doc_inv_intro : forall d, linv d = true -> wf_doc d -> doc_inv d = true.
Proof. intros. apply doc_inv_iff. auto. Qed.

Lemma forallb_map_local : forall A B (g : A -> B) (f : B -> bool) l,
  forallb f (map g l) = forallb (fun x => f (g x)) l.
Proof. induction l; simpl; congruence. Qed.

(* ---------------- the rename on plain data, and its invariants ---------------- *)
Lemma drekey_nil : forall k x, drekey (MNode []) k x = x.
Proof.
  intros k x. destruct x as [v|kvs|els|els]; simpl; auto.
  - f_equal. induction kvs as [|kv r IH]; simpl; auto. rewrite IH. reflexivity.
  - f_equal. induction els as [|e r IH]; simpl; auto. rewrite IH. reflexivity.
Qed.

Theorem erase_krename : forall o idx vi value d,
  erase (krename o idx (NLeaf vi value) d) = drekey (mask_entry o idx d) value (erase d).
Proof.
  intros o idx vi value d. induction d using node_ind'.
  - reflexivity.
  - simpl. destruct (N.eqb (oid i) o).
    + simpl. f_equal. clear H. generalize 0%nat. induction kvs as [|kv r IHr]; intros k; simpl; auto.
      rewrite <- IHr. rewrite drekey_nil. destruct (Nat.eqb k idx); reflexivity.
    + simpl. f_equal. induction kvs as [|kv r IHr]; simpl; auto.
      inversion H; subst. destruct H2 as [_ Hv]. rewrite <- IHr by assumption. rewrite Hv. reflexivity.
  - simpl. destruct (N.eqb (oid i) o).
    + simpl. f_equal. clear H. induction els as [|x r IHr]; simpl; auto. rewrite <- IHr. reflexivity.
    + simpl. f_equal. induction els as [|x r IHr]; simpl; auto.
      inversion H; subst. rewrite <- IHr by assumption. rewrite H2. reflexivity.
  - reflexivity.
Qed.

Section Hist2.
Variable lit : string -> outcome litres.
Variable fl : string -> outcome flres.

(* a completed rename: the document afterwards, its plain-data step, the invariants *)
Lemma rename_step : forall a value vo st d',
  doc_inv (fst st) = true -> a_name a = true ->
  rename_key (a_pc a) value vo (fst st) = ROk d' ->
  psteps (abs_action2 lit fl value vo a st) (erase (fst st)) (erase d') /\ doc_inv d' = true /\
  incl (coids d') (coids (fst st)).
Proof.
  intros a value vo [d next] d' Hinv Hname Hr. simpl in *.
  apply doc_inv_iff in Hinv. destruct Hinv as [Hl Hwf].
  pose proof (rename_exact (a_pc a) value vo d Hwf (linv_mkeys _ Hl)) as Hx.
  unfold abs_action2, rename_target. rewrite Hname. simpl.
  destruct (pc_parent (a_pc a)) as [o|]; [|congruence].
  destruct (find_obj o d) as [pn|] eqn:Ef.
  - destruct pn as [i v|i kvs|i els|i els]; try congruence.
    destruct (existsb (key_is value) kvs) eqn:Ee; [congruence|].
    destruct (find_idx (key_is (pc_ref (a_pc a))) kvs) as [idx|] eqn:Ei.
    + rewrite Hx in Hr. inversion Hr; subst d'. clear Hr. split.
      * econstructor; [|constructor]. rewrite erase_krename. constructor.
      * (* the renamed document = putf of the renamed mapping: invariants *)
        pose proof (find_obj_in _ _ _ Ef) as Hin.
        assert (Hn : mkeys_nodup (map fst kvs) = true).
        { pose proof (objs_mkeys o d (NMap i kvs) (linv_mkeys _ Hl) Hin) as Hm.
          simpl in Hm. apply andb_true_iff in Hm. tauto. }
        destruct (rename_entries value (mkinfo vo None false None) (pc_ref (a_pc a)) kvs Hn Ee idx Ei)
          as [kv [Hnth [_ Hnew]]].
        rewrite <- (putf_krename o idx _ i kvs d)
          by (intros n Hn'; apply (objs_unique o d (NMap i kvs) n Hwf Hin Hn')).
        set (kvs' := imap (fun j kv0 => if Nat.eqb j idx then (NLeaf (mkinfo vo None false None) value, snd kv0) else kv0) 0 kvs) in *.
        assert (Hperm : Permutation (coids (putf o (NMap i kvs') d)) (coids d)).
        { assert (Hsnd0 : map snd kvs' = map snd kvs).
          { unfold kvs'. generalize 0%nat. clear. induction kvs as [|kv0 r IH]; intros k; simpl; auto.
            rewrite IH. destruct (Nat.eqb k idx); reflexivity. }
          rewrite <- (app_nil_r (coids d)). apply (putf_perm o _ (NMap i kvs) [] d Hwf Hin).
          rewrite app_nil_r. simpl. apply perm_skip.
          rewrite <- (flat_map_map _ _ _ snd coids), Hsnd0, flat_map_map. apply Permutation_refl. }
        assert (Hsnd : map snd kvs' = map snd kvs).
        { unfold kvs'. generalize 0%nat. clear. induction kvs as [|kv r IH]; intros k; simpl; auto.
          rewrite IH. destruct (Nat.eqb k idx); reflexivity. }
        assert (Hleaf : forallb (fun kv => is_leaf (fst kv)) kvs' = true).
        { pose proof (objs_linv o d (NMap i kvs) Hl Hin) as Hm. simpl in Hm.
          apply andb_true_iff in Hm. destruct Hm as [_ Hm].
          unfold kvs'. generalize 0%nat. clear - Hm. induction kvs as [|kv r IH]; intros k; simpl; auto.
          simpl in Hm. apply andb_true_iff in Hm. destruct Hm as [Hk Hm]. apply andb_true_iff in Hk.
          rewrite IH by exact Hm. destruct (Nat.eqb k idx); simpl; [reflexivity|]. destruct Hk as [-> _]. reflexivity. }
        split; [|intros y Hy; apply (Permutation_in _ Hperm Hy)].
        apply doc_inv_intro.
        -- apply putf_linv; auto.
           pose proof (objs_linv o d (NMap i kvs) Hl Hin) as Hm. simpl in Hm.
           apply andb_true_iff in Hm. destruct Hm as [Hm Hvals]. apply andb_true_iff in Hm. destruct Hm as [Hi _].
           simpl. rewrite Hi, Hnew. simpl.
           rewrite forallb_andb. rewrite Hleaf. simpl.
           rewrite forallb_andb in Hvals. apply andb_true_iff in Hvals. destruct Hvals as [_ Hvals].
           rewrite <- (forallb_map_local _ _ snd linv) in *. rewrite Hsnd. exact Hvals.
        -- unfold wf_doc. eapply Permutation_NoDup; [apply Permutation_sym; exact Hperm|exact Hwf].
    + rewrite Hx in Hr. inversion Hr; subst d'. split; [constructor|]. split; [apply doc_inv_iff; auto|apply incl_refl].
  - rewrite Hx in Hr. inversion Hr; subst d'. split; [constructor|]. split; [apply doc_inv_iff; auto|apply incl_refl].
Qed.

(* a completed _update_node witnesses that the change is not one the code refuses *)
Lemma update_no_conflict : forall p value fmt vo d next st' o pn c,
  pc_parent p = Some o -> find_obj o d = Some pn ->
  get_change pn (norm_ref pn (pc_ref p)) = ROk (Some c) ->
  update_node lit fl p value fmt vo (d, next) = ROk st' ->
  exists new, make_new_node lit fl (Some (node_info c)) value fmt next vo = ROk new /\
              key_conflict (node_oid c) new d = false.
Proof.
  intros p value fmt vo d next st' o pn c Hp Hf Hc Hu.
  unfold update_node in Hu. rewrite Hp, Hf, Hc in Hu. simpl in Hu.
  destruct (make_new_node lit fl (Some (node_info c)) value fmt next vo) as [new|e] eqn:Em; simpl in Hu; [|discriminate].
  destruct (key_conflict (node_oid c) new d) eqn:Ek; [discriminate|]. eauto.
Qed.

(* a change that addresses no node leaves the document alone *)
Lemma update_no_target : forall a value vo st st',
  a_name a = false -> act_target a st = None ->
  apply_action lit fl value vo a st = ROk st' -> fst st' = fst st.
Proof.
  intros a value vo [d next] st' Hn Ht Ha. unfold apply_action in Ha. rewrite Hn in Ha.
  assert (Hu : update_node lit fl (a_pc a) value (a_fmt a) vo (d, next) = ROk st').
  { destruct (update_node lit fl (a_pc a) value (a_fmt a) vo (d, next)) as [s1|e]; auto.
    destruct e; try discriminate. destruct c; discriminate. }
  clear Ha. unfold act_target in Ht. unfold update_node in Hu. simpl in *.
  destruct (pc_parent (a_pc a)) as [o|]; [|inversion Hu; reflexivity].
  destruct (find_obj o d) as [pn|]; [|inversion Hu; reflexivity].
  destruct (get_change pn (norm_ref pn (pc_ref (a_pc a)))) as [[c|]|e]; simpl in Hu; try discriminate.
  destruct (make_new_node lit fl None value (a_fmt a) next vo); simpl in Hu; [|discriminate].
  inversion Hu; reflexivity.
Qed.

(* ONE CHANGE of a set_value call - a key rename or a change of a node - under the new guard *)
Lemma action_step : forall value vo a st st',
  doc_inv (fst st) = true -> act_ok2 a st = true ->
  apply_action lit fl value vo a st = ROk st' ->
  psteps (abs_action2 lit fl value vo a st) (erase (fst st)) (erase (fst st')) /\ doc_inv (fst st') = true /\
  incl (coids (fst st')) (coids (fst st)).
Proof.
  intros value vo a st st' Hinv Hok Ha.
  destruct (a_name a) eqn:Hname.
  - unfold apply_action in Ha. rewrite Hname in Ha.
    destruct (rename_key (a_pc a) value vo (fst st)) as [d'|e] eqn:Er; simpl in Ha; [|discriminate].
    inversion Ha; subst st'. simpl. eapply rename_step; eauto.
  - unfold act_ok2 in Hok. rewrite Hname in Hok. simpl in Hok.
    destruct (act_target a st) as [[[o r] c]|] eqn:Et.
    + pose proof Hinv as Hinv0. apply doc_inv_iff in Hinv. destruct Hinv as [Hl Hwf].
      assert (Hok1 : act_ok a st = true).
      { unfold act_ok. rewrite Hname, Et, Hok, (linv_mkeys _ Hl). reflexivity. }
      destruct (apply_action_exact lit fl value vo a st st' (linv_wf_attr _ Hl) Hok1 Ha)
        as [o' [r' [c' [ri [rv [Et' [Hm [Hs Hw]]]]]]]].
      rewrite Et in Et'. inversion Et'; subst o' r' c'. clear Et'.
      split.
      * unfold abs_action2. rewrite Hname, Et, Hm.
        econstructor; [constructor|]. econstructor; [|constructor].
        subst st'. simpl. rewrite erase_ksubst, erase_subst. constructor.
      * (* invariants: the completed update witnesses key_conflict = false *)
        destruct st as [d next]. simpl in *.
        assert (Hkc : key_conflict (node_oid c) (NLeaf ri rv) d = false).
        { unfold apply_action in Ha. rewrite Hname in Ha.
          assert (Hu : update_node lit fl (a_pc a) value (a_fmt a) vo (d, next) = ROk st').
          { destruct (update_node lit fl (a_pc a) value (a_fmt a) vo (d, next)) as [s1|e]; auto.
            destruct e; try discriminate. destruct c0; discriminate. }
          unfold act_target in Et. simpl in Et.
          destruct (pc_parent (a_pc a)) as [o0|] eqn:Ep; [|discriminate].
          destruct (find_obj o0 d) as [pn|] eqn:Ef; [|discriminate].
          destruct (get_change pn (norm_ref pn (pc_ref (a_pc a)))) as [[c0|]|e] eqn:Eg; try discriminate.
          inversion Et; subst o0 r c0.
          destruct (update_no_conflict _ _ _ _ _ _ _ _ _ _ Ep Ef Eg Hu) as [new [Hm' Hk]].
          rewrite Hm in Hm'. inversion Hm'; subst new. exact Hk. }
        subst st'. simpl. split; [|intros x Hx; eapply sublist_in; [apply set_coids|exact Hx]].
        apply doc_inv_intro.
        -- apply set_linv; auto.
        -- unfold wf_doc. eapply sublist_nodup; [apply set_coids|exact Hwf].
    + rewrite (update_no_target a value vo st st' Hname Et Ha).
      unfold abs_action2. rewrite Hname, Et. split; [constructor|]. split; [exact Hinv|apply incl_refl].
Qed.

(* THE CHAIN, renames included, invariants derived *)
Theorem actions_refine2 : forall value vo acts st st',
  doc_inv (fst st) = true -> acts_ok2 lit fl value vo acts st = true ->
  run_actions lit fl value vo acts st = SDone st' ->
  psteps (abs_actions2 lit fl value vo acts st) (erase (fst st)) (erase (fst st')) /\ doc_inv (fst st') = true /\
  incl (coids (fst st')) (coids (fst st)).
Proof.
  intros value vo acts. induction acts as [|a r IH]; intros st st' Hinv Hok H; simpl in *.
  - inversion H; subst. split; [constructor|]. split; [assumption|apply incl_refl].
  - apply andb_true_iff in Hok. destruct Hok as [Hok1 Hok2].
    destruct (apply_action lit fl value vo a st) as [st1|e] eqn:Ea; [|discriminate].
    destruct (action_step _ _ _ _ _ Hinv Hok1 Ea) as [Hp [Hinv1 Hc1]].
    destruct (IH st1 st' Hinv1 Hok2 H) as [Hp' [Hinv' Hc']].
    split; [eapply psteps_app; eauto|]. split; auto. eapply incl_tran; eauto.
Qed.

(* ---------------- Delete and Create keep the invariants ---------------- *)
Theorem prune_doc_inv : forall T d, doc_inv d = true -> doc_inv (prune T d) = true.
Proof.
  intros T d H. apply doc_inv_iff in H. destruct H as [Hl Hwf]. apply doc_inv_intro.
  - apply prune_linv. exact Hl.
  - unfold wf_doc. eapply sublist_nodup; [apply prune_coids|exact Hwf].
Qed.

Theorem delete_doc_inv : forall cs d d',
  doc_inv d = true -> del_all_located d (pairs_of cs) = true ->
  delete_nodes cs d = MDone d' -> doc_inv d' = true.
Proof.
  intros cs d d' Hinv Hok H. pose proof Hinv as Hinv0. apply doc_inv_iff in Hinv. destruct Hinv as [_ Hwf].
  rewrite (delete_exact d cs Hwf Hok) in H. inversion H; subst d'. unfold delete_spec. apply prune_doc_inv. exact Hinv0.
Qed.

(* the walk of a creation: the new document satisfies the invariants, and its container identities are
   the old ones and new ones below the counter it returns *)
Theorem create_walk_inv : forall segs value vo d vo' d1 pc next1,
  doc_inv d = true ->
  create_walk lit segs value vo d = (vo', ROk (d1, pc, next1)) ->
  doc_inv d1 = true /\
  (forall x, In x (coids d1) -> In x (coids d) \/ (N.succ (max_oid d) <= x < next1)%N).
Proof.
  intros segs value vo d vo' d1 pc next1 Hinv Hw.
  apply doc_inv_iff in Hinv. destruct Hinv as [Hl Hwf].
  unfold create_walk in Hw. inversion Hw; subst vo'. clear Hw.
  set (next := snd (snd (sv_start vo (init_state d)))) in *.
  assert (Hnext : (N.succ (max_oid d) <= next)%N).
  { unfold next, init_state. destruct vo; simpl; lia. }
  assert (Hin : in_doc d d) by (intros o Ho; apply objs_self; exact Ho).
  destruct (walk_inv lit segs d (mkpc None PNone) d next (fst (sv_start vo (init_state d))) value d1 pc next1
              Hwf Hl Hin Hl H1) as [Hle [Hl1 [extra [Hp Hfr]]]].
  destruct Hfr as [Hnd Hrange].
  split.
  - apply doc_inv_intro; auto. unfold wf_doc.
    eapply Permutation_NoDup; [apply Permutation_sym; exact Hp|].
    apply nodup_app; auto. intros x Hx Hx2. specialize (Hrange x Hx2). pose proof (coids_le_max d x Hx). lia.
  - intros x Hx. apply (Permutation_in _ Hp) in Hx. apply in_app_or in Hx. destruct Hx as [Hx|Hx]; auto.
    right. specialize (Hrange x Hx). lia.
Qed.

(* ---------------- one operation, the history ---------------- *)
(* the identities a Create step may hand to containers: below the counter its walk returns *)
Definition op_id_bound (op : hop) (d : node) : N :=
  match op with
  | HCreate segs v f vo =>
      match create_walk lit segs v vo d with
      | (_, ROk (_, _, next1)) => next1
      | _ => 0%N
      end
  | _ => 0%N
  end.

Lemma op_refines2 : forall op d d',
  doc_inv d = true -> op_ok2 lit fl op d = true -> run_op lit fl op d = MDone d' ->
  psteps (abs_op2 lit fl op d) (erase d) (erase d') /\ doc_inv d' = true /\
  (forall x, In x (coids d') -> In x (coids d) \/ (x < op_id_bound op d)%N).
Proof.
  intros op d d' Hinv Hok H.
  destruct op as [cs v f vo|segs v f vo|cs]; unfold run_op, abs_op2, op_ok2 in *.
  - rewrite set_value_unfold in H.
    destruct (run_actions lit fl v (fst (sv_start vo (init_state d))) (flat_map (set_actions f) cs)
                          (snd (sv_start vo (init_state d)))) as [st'|st' e] eqn:Er; [|discriminate].
    inversion H; subst d'.
    assert (Hd0 : fst (snd (sv_start vo (init_state d))) = d) by (destruct vo; reflexivity).
    assert (Hw0 : doc_inv (fst (snd (sv_start vo (init_state d)))) = true) by (rewrite Hd0; exact Hinv).
    destruct (actions_refine2 _ _ _ _ _ Hw0 Hok Er) as [Hp [Hi Hc]]. rewrite Hd0 in Hp, Hc. auto.
  - rewrite create_set_unfold in H.
    destruct (create_walk lit segs v vo d) as [vo' [[[d1 pc] n1]|e]] eqn:Ew; [|discriminate].
    destruct (run_actions lit fl v vo' [mkact pc false f] (d1, n1)) as [st'|st' e] eqn:Er; [|discriminate].
    inversion H; subst d'.
    destruct (create_walk_inv _ _ _ _ _ _ _ _ Hinv Ew) as [Hinv1 Hb1].
    destruct (actions_refine2 v vo' [mkact pc false f] (d1, n1) st' Hinv1 Hok Er) as [Hp [Hi Hc]].
    split; [|split; [exact Hi|]].
    2:{ intros x Hx. apply Hc in Hx. simpl in Hx. destruct (Hb1 x Hx) as [Hx1|Hx1]; [left; exact Hx1|right].
        unfold op_id_bound. rewrite Ew. lia. }
    econstructor; [|exact Hp]. constructor.
    apply doc_inv_iff in Hinv. destruct Hinv as [_ Hwf].
    unfold create_walk in Ew. inversion Ew; subst.
    eapply erase_embeds.
    eapply (walk_frame_g _ _ _ _ _ _ _ _ _ _ _ (snd (snd (sv_start vo (init_state d)))));
      [exact Hwf| |apply N.le_refl|eassumption].
    intros o Ho. apply objs_self. exact Ho.
  - pose proof (delete_doc_inv cs d d' Hinv Hok H) as Hi.
    apply doc_inv_iff in Hinv. destruct Hinv as [_ Hwf].
    rewrite (delete_exact d cs Hwf Hok) in H. inversion H; subst d'.
    split; [|split; [exact Hi|]].
    + econstructor; [|constructor]. unfold delete_spec. rewrite erase_prune. constructor.
    + intros x Hx. left. eapply sublist_in; [apply prune_coids|exact Hx].
Qed.

(* THE HISTORY THEOREM: the invariants are a hypothesis on the first document only *)
Theorem history_refines2 : forall ops d k d',
  doc_inv d = true -> hist_ok2 lit fl ops d = true -> run_ops lit fl ops d k = HDone d' ->
  psteps (abs_ops2 lit fl ops d) (erase d) (erase d') /\ doc_inv d' = true.
Proof.
  induction ops as [|op r IH]; intros d k d' Hinv Hok H; simpl in *.
  - inversion H; subst. split; [constructor|assumption].
  - apply andb_true_iff in Hok. destruct Hok as [Hok1 Hok2].
    destruct (run_op lit fl op d) as [d1|d1 e] eqn:Eo; [|discriminate].
    destruct (op_refines2 _ _ _ Hinv Hok1 Eo) as [Hp [Hinv1 _]].
    destruct (IH d1 (S k) d' Hinv1 Hok2 H) as [Hp' Hinv'].
    split; auto. eapply psteps_app; eauto.
Qed.

Theorem history_failed_prefix2 : forall ops d k d' e n,
  doc_inv d = true -> hist_ok2 lit fl ops d = true -> run_ops lit fl ops d k = HFailed d' e n ->
  exists done rest op d0, ops = done ++ op :: rest /\ n = (k + List.length done)%nat /\
    run_ops lit fl done d k = HDone d0 /\ psteps (abs_ops2 lit fl done d) (erase d) (erase d0) /\
    doc_inv d0 = true /\ run_op lit fl op d0 = Failed d' e.
Proof.
  induction ops as [|op r IH]; intros d k d' e n Hinv Hok H; simpl in *; [discriminate|].
  apply andb_true_iff in Hok. destruct Hok as [Hok1 Hok2].
  destruct (run_op lit fl op d) as [d1|d1 e1] eqn:Eo.
  - destruct (op_refines2 _ _ _ Hinv Hok1 Eo) as [Hp [Hinv1 _]].
    destruct (IH d1 (S k) d' e n Hinv1 Hok2 H) as [dn [rest [op' [d0 [E1 [E2 [E3 [E4 [E5 E6]]]]]]]]].
    exists (op :: dn), rest, op', d0. subst. simpl. rewrite Eo. repeat split; auto; try lia.
    eapply psteps_app; eauto.
  - inversion H; subst. exists [], r, op, d. simpl. repeat split; auto; try lia. constructor.
Qed.

End Hist2.

(* the new guards ask less than the ones of the first round *)
Section Weaker.
Variable lit : string -> outcome litres.
Variable fl : string -> outcome flres.

Lemma act_ok_ok2 : forall a st, act_ok a st = true -> act_ok2 a st = true.
Proof.
  intros a st H. unfold act_ok in H. unfold act_ok2.
  apply andb_true_iff in H. destruct H as [H Ht]. apply andb_true_iff in H. destruct H as [Hn _].
  apply negb_true_iff in Hn. rewrite Hn. simpl.
  destruct (act_target a st) as [[[o r] c]|]; [exact Ht|reflexivity].
Qed.

Lemma acts_ok_ok2 : forall value vo acts st,
  acts_ok lit fl value vo acts st = true -> acts_ok2 lit fl value vo acts st = true.
Proof.
  intros value vo acts. induction acts as [|a r IH]; intros st H; simpl in *; auto.
  apply andb_true_iff in H. destruct H as [H1 H2]. rewrite (act_ok_ok2 _ _ H1). simpl.
  destruct (apply_action lit fl value vo a st); auto.
Qed.

Lemma op_ok_ok2 : forall op d, op_ok lit fl op d = true -> op_ok2 lit fl op d = true.
Proof.
  intros op d H. unfold op_ok in H. apply andb_true_iff in H. destruct H as [_ H].
  destruct op as [cs v f vo|segs v f vo|cs]; unfold op_ok2.
  - apply acts_ok_ok2. exact H.
  - apply andb_true_iff in H. destruct H as [_ H].
    destruct (create_walk lit segs v vo d) as [vo' [[[d1 pc] n1]|e]]; auto.
    apply andb_true_iff in H. destruct H as [_ H]. apply acts_ok_ok2. exact H.
  - apply andb_true_iff in H. tauto.
Qed.

Theorem hist_ok_ok2 : forall ops d, hist_ok lit fl ops d = true -> hist_ok2 lit fl ops d = true.
Proof.
  induction ops as [|op r IH]; intros d H; simpl in *; auto.
  apply andb_true_iff in H. destruct H as [H1 H2]. rewrite (op_ok_ok2 _ _ H1). simpl.
  destruct (run_op lit fl op d); auto.
Qed.
End Weaker.
