(* C03: edit histories whose steps are PATHS (Model/Compose.v [ce_hop], [ce_run_ops]):
   every Set / Delete step gathers its coordinates with the evaluator model on
   the document the previous step left.  Such a run IS a run of History.run_ops
   on the plain history [ce_trace] whose coordinates are the evaluator's own
   answers (refinement by construction, proved here), so C03_history_partial
   applies; and under the per-step guards of C03_set_end_to_end the coordinates
   of every step are the locations of the nodes [sem_doc] selects on the
   document of that moment. *)
From Coq Require Import List Ascii String ZArith NArith Bool Lia Arith.
From YP Require Import Outcome PyStr PyVal Doc PathParser Searches Eval Mutate Create History Compose
  SpecC01 EvalSem EvalSemLib EvalSemPath EvalSemTop EvalLocAll
  C03spec C03hist C04spec C03e2e C03set C03history C04delete C04plan EvalDelete EvalSet.
Import ListNotations.

Lemma ce_Forall2_length {A B} (R : A -> B -> Prop) l1 l2 : Forall2 R l1 l2 -> List.length l1 = List.length l2.
Proof. induction 1; simpl; congruence. Qed.

Section Hist.
Variable lit : string -> outcome litres.
Variable re_search : string -> string -> outcome reres.
Variable nstr : node -> string.
Variable vstr : list rval -> string.
Variable kw_handler : bool -> keyword -> string -> rval -> ctx -> gen rval.
Variable creator : list pseg -> nat -> rval -> ctx -> gen rval.
Variable fl : string -> outcome flres.

Notation REQ := (get_required lit re_search nstr vstr kw_handler creator).
Notation RAW := (ce_required_raw lit re_search nstr vstr kw_handler creator).
Notation GATHER := (ce_gather lit re_search nstr vstr kw_handler creator).
Notation GATHERED := (gathered lit re_search nstr vstr kw_handler creator).
Notation SEM := (sem_doc lit re_search nstr false).
Notation GUARD := (sem_doc lit re_search nstr true).
Notation RUN_OP := (ce_run_op lit re_search nstr vstr kw_handler creator fl).
Notation RUN_OPS := (ce_run_ops lit re_search nstr vstr kw_handler creator fl).
Notation OPT_OK := (opt_ok lit re_search nstr vstr kw_handler creator).

(* the plain step (History.hop) a path step amounts to on the document d: the
   coordinates are the ones the evaluator gathers there; None = the gather did
   not end normally or left the adapter *)
Definition ce_hop_trace (op : ce_hop) (d : node) : option hop :=
  match op with
  | CeSet must p v f vo =>
      match snd (GATHER must p d) with
      | Done => option_map (fun cs => HSet cs v f vo) (ce_coords (ce_name_kw p) (fst (GATHER must p d)))
      | _ => None
      end
  | CeCreate segs v f vo => Some (HCreate segs v f vo)
  | CeDelete p =>
      match snd (RAW p d) with
      | Done => option_map HDelete (ce_coords false (fst (RAW p d)))
      | _ => None
      end
  end.

Fixpoint ce_trace (ops : list ce_hop) (d : node) : option (list hop) :=
  match ops with
  | [] => Some []
  | op :: r =>
      match ce_hop_trace op d with
      | None => None
      | Some h =>
          match run_op lit fl h d with
          | MDone d' => option_map (cons h) (ce_trace r d')
          | Failed _ _ => Some [h]
          end
      end
  end.

Lemma run_op_trace op d d' :
  RUN_OP op d = CsDone d' -> exists h, ce_hop_trace op d = Some h /\ run_op lit fl h d = MDone d'.
Proof.
  destruct op as [must p v f vo|segs v f vo|p]; simpl.
  - unfold ce_set. destruct (snd (GATHER must p d)) as [|e0| |] eqn:Es; try discriminate.
    destruct (ce_coords (ce_name_kw p) (fst (GATHER must p d))) as [cs|]; [|discriminate].
    destruct (set_value lit fl cs v f vo (init_state d)) as [st|st e] eqn:Er; [|discriminate].
    intros H. inversion H; subst. exists (HSet cs v f vo). split; [reflexivity|]. unfold run_op. rewrite Er. reflexivity.
  - destruct (create_set lit fl segs v f vo d) as [st|st e] eqn:Er; [|discriminate].
    intros H. inversion H; subst. exists (HCreate segs v f vo). split; [reflexivity|]. unfold run_op. rewrite Er. reflexivity.
  - unfold ce_delete. destruct (snd (RAW p d)) eqn:Es; try discriminate.
    destruct (ce_coords false (fst (RAW p d))) as [cs|]; [|discriminate].
    destruct (delete_nodes cs d) as [d1|d1 e] eqn:Er; [|discriminate].
    intros H. inversion H; subst. exists (HDelete cs). simpl. split; [reflexivity|exact Er].
Qed.

(* REFINEMENT: a completed run over paths is the run of History.run_ops over its trace *)
Theorem run_ops_trace ops d k d' :
  RUN_OPS ops d k = ChDone d' ->
  exists hops, ce_trace ops d = Some hops /\ List.length hops = List.length ops /\
               run_ops lit fl hops d k = HDone d'.
Proof.
  revert d k. induction ops as [|op r IH]; intros d k H; simpl in *.
  - inversion H; subst. exists []. repeat split.
  - destruct (RUN_OP op d) as [d1|d1 e|] eqn:Eo; try discriminate.
    destruct (run_op_trace _ _ _ Eo) as [h [Eh Er]].
    destruct (IH _ _ H) as [hops [Et [El Ers]]].
    exists (h :: hops). simpl. rewrite Eh, Er, Et, El. simpl. repeat split; try exact Ers.
Qed.

(* a failing run: the completed prefix is a run of History.run_ops over its trace *)
Theorem run_ops_trace_failed ops d k d' e n :
  RUN_OPS ops d k = ChFailed d' e n ->
  exists done op rest d0 hops,
    ops = (done ++ op :: rest)%list /\ n = (k + List.length done)%nat /\
    ce_trace done d = Some hops /\ run_ops lit fl hops d k = HDone d0 /\ RUN_OP op d0 = CsFailed d' e.
Proof.
  revert d k. induction ops as [|op r IH]; intros d k H; simpl in *; [discriminate|].
  destruct (RUN_OP op d) as [d1|d1 e1|] eqn:Eo; try discriminate.
  - destruct (run_op_trace _ _ _ Eo) as [h [Eh Er]].
    destruct (IH _ _ H) as [dn [op' [rest [d0 [hops [E1 [E2 [E3 [E4 E5]]]]]]]]].
    exists (op :: dn), op', rest, d0, (h :: hops). subst. simpl. rewrite Eh, Er, E3. simpl.
    repeat split; auto; lia.
  - inversion H; subst. exists [], op, r, d, []. simpl. repeat split; auto; lia.
Qed.

(* ---- what the coordinates of each step are: the guards of C03_set_end_to_end, per step, on the
   document of that moment ---- *)
Definition ce_read_guard (segs : list pseg) (d : node) : bool :=
  c01_frag (PPath segs) && negb (is_null_node d) && specified (GUARD (PPath segs) d) &&
  slices_last segs && negb (ce_name_kw (PPath segs)) && ce_plain (SEM (PPath segs) d) && ce_doc_ok d.

Definition ce_step_guard (op : ce_hop) (d : node) : bool :=
  match op with
  | CeSet must (PPath segs) _ _ _ =>
      ce_read_guard segs d &&
      (must || (OPT_OK (fuel_for (PPath segs)) segs 0 (RNode d) root_ctx &&
                match SEM (PPath segs) d with [] => false | _ => true end))
  | CeDelete (PPath segs) => ce_read_guard segs d
  | CeCreate _ _ _ _ => true
  | _ => false
  end.

(* the step's plain counterpart carries exactly the locations of the nodes the path selects on d *)
Definition ce_step_sem (op : ce_hop) (d : node) : Prop :=
  match op with
  | CeSet _ p v f vo =>
      ce_hop_trace op d = Some (HSet (map (fun c => CNode c false) (GATHERED p d)) v f vo) /\
      Forall2 (ce_holds d) (map pc_pair (GATHERED p d)) (SEM p d)
  | CeDelete p =>
      ce_hop_trace op d = Some (HDelete (map (fun c => CNode c false) (GATHERED p d))) /\
      Forall2 (ce_holds d) (map pc_pair (GATHERED p d)) (SEM p d)
  | CeCreate _ _ _ _ => True
  end.

Lemma read_guard_facts segs d :
  ce_read_guard segs d = true ->
  Forall2 (ce_holds d) (map pc_pair (GATHERED (PPath segs) d)) (SEM (PPath segs) d) /\
  ce_coords false (fst (REQ (PPath segs) d)) = Some (map (fun c => CNode c false) (GATHERED (PPath segs) d)) /\
  snd (REQ (PPath segs) d) = match SEM (PPath segs) d with [] => Err (YPE Unmatched) | _ => Done end /\
  ce_name_kw (PPath segs) = false /\
  RAW (PPath segs) d = (fst (REQ (PPath segs) d), Done).
Proof.
  unfold ce_read_guard. intros H.
  apply andb_prop in H. destruct H as [H Hok]. apply andb_prop in H. destruct H as [H Hpl].
  apply andb_prop in H. destruct H as [H Hnk]. apply andb_prop in H. destruct H as [H Hsl].
  apply andb_prop in H. destruct H as [H Hsp]. apply andb_prop in H. destruct H as [H Hnn].
  apply negb_true_iff in Hnn. apply negb_true_iff in Hnk.
  unfold ce_doc_ok in Hok.
  apply andb_prop in Hok. destruct Hok as [Hok Hwa]. apply andb_prop in Hok. destruct Hok as [Hok Hkd].
  apply andb_prop in Hok. destruct Hok as [Hok Hsm]. apply andb_prop in Hok. destruct Hok as [Hok Hfl].
  apply wf_docb_sound in Hok.
  destruct (gathered_holds_sem lit re_search nstr vstr kw_handler creator segs d H Hnn Hsp Hsl Hpl Hok Hfl Hsm Hkd)
    as [A [B C]].
  repeat split; auto.
  (* the raw driver ends Done with the same items *)
  assert (Hd : sem_doc lit re_search nstr true (PPath segs) d = sem_path lit re_search nstr true (PPath segs) true d).
  { unfold sem_doc. destruct d as [i v| | |]; try reflexivity. destruct v; try reflexivity. discriminate. }
  rewrite Hd in Hsp.
  destruct (ev_root_sem lit re_search nstr vstr kw_handler creator segs d root_ctx H Hsp) as [Hs _].
  unfold ce_required_raw, get_required.
  set (g := ev lit re_search nstr vstr kw_handler creator (fuel_for (PPath segs)) MReq segs 0 (RNode d) root_ctx) in *.
  clearbody g. destruct g as [l s]. simpl in Hs. subst s.
  destruct d as [i [] | | |]; try (simpl in Hnn; discriminate Hnn); destruct l; reflexivity.
Qed.

Theorem step_sem op d d' : ce_step_guard op d = true -> RUN_OP op d = CsDone d' -> ce_step_sem op d.
Proof.
  destruct op as [must p v f vo|segs v f vo|p]; simpl; auto.
  - destruct p as [segs|e]; [|discriminate]. intros Hg Hr. apply andb_prop in Hg. destruct Hg as [Hg Hm].
    destruct (read_guard_facts _ _ Hg) as [A [B [C [Dn _]]]]. split; [|exact A].
    assert (Eg : GATHER must (PPath segs) d = REQ (PPath segs) d).
    { unfold ce_gather. destruct must; [reflexivity|]. simpl in Hm. apply andb_prop in Hm. destruct Hm as [Hm Hne].
      apply (optional_on_existing lit re_search nstr vstr kw_handler creator (PPath segs) segs d eq_refl Hm).
      intros E. pose proof (ce_Forall2_length _ _ _ A) as Hl. rewrite map_length in Hl. unfold gathered in Hl.
      rewrite map_length, E in Hl. destruct (SEM (PPath segs) d); [discriminate Hne|discriminate Hl]. }
    rewrite Eg. unfold ce_set in Hr. rewrite Eg, C in Hr. rewrite C.
    destruct (SEM (PPath segs) d); [discriminate|]. rewrite Dn, B. reflexivity.
  - destruct p as [segs|e]; [|discriminate]. intros Hg Hr.
    destruct (read_guard_facts _ _ Hg) as [A [B [_ [_ E]]]]. split; [|exact A].
    rewrite E. simpl. rewrite B. reflexivity.
Qed.

Fixpoint ce_hist_guard (ops : list ce_hop) (d : node) : bool :=
  match ops with
  | [] => true
  | op :: r => ce_step_guard op d && match RUN_OP op d with CsDone d' => ce_hist_guard r d' | _ => true end
  end.

Fixpoint ce_hist_sem (ops : list ce_hop) (d : node) : Prop :=
  match ops with
  | [] => True
  | op :: r => match RUN_OP op d with CsDone d' => ce_step_sem op d /\ ce_hist_sem r d' | _ => True end
  end.

Theorem hist_sem ops d : ce_hist_guard ops d = true -> ce_hist_sem ops d.
Proof.
  revert d. induction ops as [|op r IH]; intros d H; simpl in *; [exact I|].
  apply andb_prop in H. destruct H as [Hg Hr].
  destruct (RUN_OP op d) as [d1| |] eqn:Eo; auto. split; [eapply step_sem; eassumption|apply IH; exact Hr].
Qed.

(* THE HISTORY THEOREM, end to end *)
Theorem history_e2e ops d k d' :
  RUN_OPS ops d k = ChDone d' ->
  exists hops,
    ce_trace ops d = Some hops /\ List.length hops = List.length ops /\
    run_ops lit fl hops d k = HDone d' /\
    (hist_ok lit fl hops d = true -> psteps (abs_ops lit fl hops d) (erase d) (erase d')) /\
    (ce_hist_guard ops d = true -> ce_hist_sem ops d).
Proof.
  intros H. destruct (run_ops_trace _ _ _ _ H) as [hops [Et [El Er]]].
  exists hops. repeat split; auto.
  - intros Hok. eapply history_refines; eassumption.
  - apply hist_sem.
Qed.

End Hist.
