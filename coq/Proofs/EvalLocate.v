(* C02: coordinates built by the handlers locate their node. *)
From Coq Require Import List Ascii String ZArith NArith Bool Arith Lia.
From YP Require Import Outcome PyStr PyVal Doc Generated PathParser PathPrinter Searches Eval SpecC01 EvalSem.
Import ListNotations.
Open Scope string_scope.

(* parent[parentref] is node, for a hash parent *)
Definition child_of (par : rval) (rf : pyval) (nd : rval) : Prop :=
  match par, nd with
  | RNode (NMap _ kvs), RNode n => assoc_key rf kvs = Some n
  | _, _ => False
  end.

(* a NodeCoords whose parent is [par], whose reference leads from the parent to
   the node, and whose ancestry is the context's chain plus that link *)
Definition located (par : rval) (anc : list (rval * pyval)) (x : rval) : Prop :=
  match x with
  | RCoords nd (Some p) (Some rf) _ a => p = par /\ child_of par rf nd /\ a = (anc ++ [(par, rf)])%list
  | _ => False
  end.

Theorem by_key_map_located self k i kvs c :
  Forall (located (RNode (NMap i kvs)) (x_anc c)) (fst (by_key self (AStr k) (RNode (NMap i kvs)) c)).
Proof.
  unfold by_key. cbv zeta. cbn [attrs_str attr_val].
  destruct (assoc_key (PStr k) kvs) eqn:E1.
  - repeat constructor. exact E1.
  - destruct (py_int k); [|constructor].
    destruct (assoc_key (PInt z) kvs) eqn:E2; [|constructor].
    repeat constructor. exact E2.
Qed.

(* the first pair with a given key is what indexing by that key returns: the
   wildcard yields every pair, so it locates a value only when its key is not
   shadowed by an equal earlier key (Python dicts have no equal keys) *)
Fixpoint keys_distinct (kvs : list (node * node)) : Prop :=
  match kvs with
  | [] => True
  | (k, _) :: r => (forall kv, In kv r -> py_eq (key_val (fst kv)) (key_val k) = false) /\ keys_distinct r
  end.

Theorem match_all_map_located i kvs c :
  Forall (fun x => match x with RCoords _ (Some p) _ _ a => p = RNode (NMap i kvs) /\ exists rf, a = (x_anc c ++ [(p, rf)])%list
                   | _ => False end)
         (fst (match_all_unfiltered (RNode (NMap i kvs)) c)).
Proof.
  unfold match_all_unfiltered.
  generalize (RNode (NMap i kvs)) as par. intros par.
  induction kvs as [|kv r IH]; cbn; [constructor|].
  destruct (gfor r _) as [lr sr] eqn:Er. cbn in IH |- *.
  constructor; [split; [reflexivity | eexists; reflexivity] | exact IH].
Qed.
