(* Resolve, step 5: the two tools.
   yaml-paths: the text reported for a place is build_path of the place, str()
   leaves it unchanged (what is printed), and it resolves to the place.
   Differ: an entry's path text is build_orig of the entry's location and
   resolves, in the left / right document, to the value the entry reports. *)
From Coq Require Import List Ascii String ZArith NArith Bool Arith Lia.
From YP Require Import Outcome PyStr PyVal Doc Generated PathParser PathPrinter Searches Eval PathsSearch SpecC07
     Diff C06Spec DiffBase DiffPos C08Spec RtStep RtSeg RtInt RtRender RtTables RtCanon
     PathBuild ResolveWr ResolveText ResolveEval ResolveMain ResolvePaths ResolveDiff.
Import ListNotations.
Open Scope string_scope.

(* ---- str() of a built text is the text itself ---- *)
Lemma T_ks_sec_sp sp c : mem_ascii c (ks sp) = true -> mem_ascii c (sec_set sp) = true.
Proof. intros H. destruct sp; all_ascii c; vm_compute in H; try discriminate H; reflexivity. Qed.

Lemma infer_build sp (t : string) :
  nonempty t = true -> nonblank t = true ->
  (sp = Dot -> first_not_in ["/"%char] t = true) -> (sp = Slash -> exists r, t = String "/"%char r) ->
  effective_sep Auto (normalize_original t) = Some sp.
Proof.
  intros Hn Hb Hd Hs. rewrite (normalize_nonblank _ Hb). destruct t as [|c r]; [discriminate Hn|].
  cbn [effective_sep infer_sep]. destruct sp.
  - specialize (Hd eq_refl). cbn in Hd. destruct (Ascii.eqb c "/"%char); [discriminate Hd | reflexivity].
  - destruct (Hs eq_refl) as (r' & E). injection E as -> _. reflexivity.
Qed.

Lemma nonblank_nonempty t : nonblank t = true -> nonempty t = true.
Proof. destruct t; intros H; [vm_compute in H; discriminate H | reflexivity]. Qed.

Theorem str_build_path sp d l :
  pb_safe sp d l = true -> path_str Auto (build_path sp l) = Ok (build_path sp l).
Proof.
  intros Hs.
  destruct l as [|r0 rest]; [destruct sp; vm_compute; reflexivity|].
  assert (Hg : forallb (gsafe (sep_char sp)) (map gs_of_ref (r0 :: rest)) = true).
  { unfold pb_safe in Hs. apply andb_true_iff in Hs. destruct Hs as [Hs0 _].
    apply andb_true_iff in Hs0. destruct Hs0 as [_ Hs0]. eapply safe_go_gsafe. exact Hs0. }
  pose proof (canon_pg (sec_set sp) false sp sp d (r0 :: rest) (sec_set_hard sp) Hs) as Hc.
  rewrite <- (build_path_pg sp _ Hg) in Hc.
  assert (Efix : pg_text (canon_set sp (sec_set sp)) false sp (map gs_of_ref (r0 :: rest)) = build_path sp (r0 :: rest)).
  { rewrite (build_path_pg sp _ Hg). apply pg_text_ext. intros c. unfold canon_set. rewrite mem_app, mem_rev.
    destruct (mem_ascii c (ks sp)) eqn:E; [rewrite (T_ks_sec_sp sp c E); reflexivity | reflexivity]. }
  rewrite Efix in Hc. unfold canon in Hc. unfold path_str.
  destruct (parse Auto false (build_path sp (r0 :: rest))) as [u| |]; cbn [bind] in Hc |- *; try discriminate Hc.
  assert (Ei : effective_sep Auto (normalize_original (build_path sp (r0 :: rest))) = Some sp).
  { rewrite (build_path_pg sp _ Hg).
    assert (Hnb : nonblank (pg_text (sec_set sp) false sp (map gs_of_ref (r0 :: rest))) = true).
    { destruct sp; [apply (pg_first_conditions _ false d (r0 :: rest) (sec_set_hard Dot) Hs) | unfold pg_text; apply nonblank_slash]. }
    apply infer_build.
    - apply nonblank_nonempty. exact Hnb.
    - exact Hnb.
    - intros ->. apply (pg_first_conditions _ false d (r0 :: rest) (sec_set_hard Dot) Hs).
    - intros ->. eexists. reflexivity. }
  rewrite Ei. exact Hc.
Qed.

Section Tools.
Variable elit : string -> outcome litres.
Variable ere : string -> string -> outcome reres.
Variable nstr : node -> string.
Variable vstr : list rval -> string.
Variable kw_handler : bool -> keyword -> string -> rval -> ctx -> gen rval.
Variable creator : list pseg -> nat -> rval -> ctx -> gen rval.
Notation GR := (get_required elit ere nstr vstr kw_handler creator).

(* ---- yaml-paths ---- *)
Theorem paths_text_resolves lit re_search mt tm sp o d res h n f :
  o_anchors o = false -> seq_plain d = true ->
  search_doc lit re_search mt tm sp o d = Ok res -> In h res ->
  lookup d (h_loc h) = Some n -> pb_safe sp d (h_loc h) = true ->
  h_path h = build_path sp (h_loc h)
  /\ path_str Auto (h_path h) = Ok (h_path h)
  /\ exists p, prepare (S f) (h_path h) = Ok p /\ GR p d = ([pb_coords d (h_loc h) n], Done).
Proof.
  intros Ha Hp E Hin Hl Hs.
  pose proof (search_doc_paths sp lit re_search mt tm o d res Ha Hp E h Hin (safe_okl sp d _ Hs)) as Et.
  rewrite Et. split; [reflexivity|]. split; [apply (str_build_path sp d _ Hs)|].
  apply resolve_query; assumption.
Qed.

(* ---- Differ ---- *)
Theorem diff_entry_resolves path_eq cfg L R es e f :
  positional cfg -> wf_doc L = true -> wf_doc R = true ->
  compare_to path_eq cfg L R = Ok es -> In e es ->
  e_path e = build_orig (e_loc e)
  /\ (has_left e = true -> pb_safe Dot L (e_loc e) = true ->
      exists p, prepare (S f) (e_path e) = Ok p /\ GR p L = ([pb_coords L (e_loc e) (e_lhs e)], Done))
  /\ (has_right e = true -> pb_safe Dot R (e_loc e) = true ->
      exists p, prepare (S f) (e_path e) = Ok p /\ GR p R = ([pb_coords R (e_loc e) (e_rhs e)], Done)).
Proof.
  intros Hpos HL HR E Hin.
  pose proof (compare_to_paths path_eq cfg Hpos L R es E) as Gp.
  pose proof (positional_truthful path_eq cfg L R es Hpos HL HR E) as Gt.
  rewrite Forall_forall in Gp, Gt. specialize (Gp e Hin). destruct (Gt e Hin) as [Tl Tr].
  unfold goodp in Gp. rewrite Gp. split; [reflexivity|]. split.
  - intros Hh Hs. apply resolve_query_orig; [apply Tl; exact Hh | exact Hs].
  - intros Hh Hs. apply resolve_query_orig; [apply Tr; exact Hh | exact Hs].
Qed.
End Tools.
