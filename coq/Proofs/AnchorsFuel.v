(* C10: the `while` loop of Merger._calc_unique_anchor terminates within
   |known| + 1 iterations: every candidate is strictly longer than its
   predecessors, so the candidates are pairwise distinct, and at most |known| of
   them can be members of known (pigeonhole: NoDup_incl_length). *)
From Coq Require Import List Ascii String ZArith NArith Bool Lia.
From YP Require Import Outcome PyStr PyVal Doc MergeConfig Merge Anchors.
Import ListNotations.
Open Scope string_scope.
Open Scope list_scope.

Lemma str_length_app : forall a b : string, String.length (a ++ b) = String.length a + String.length b.
Proof. induction a as [|c a IH]; intros b; simpl; [reflexivity|]. now rewrite IH. Qed.

Lemma next_anchor_longer : forall a k, String.length a < String.length (next_anchor a k).
Proof. intros a k. unfold next_anchor. rewrite str_length_app. simpl. lia. Qed.

Lemma mem_string_In : forall s l, mem_string s l = true -> In s l.
Proof.
  induction l as [|d r IH]; simpl; intros H; [discriminate|].
  destruct (String.eqb s d) eqn:E; [left; symmetry; now apply String.eqb_eq|right; auto].
Qed.

Lemma In_mem_string : forall s l, In s l -> mem_string s l = true.
Proof.
  induction l as [|d r IH]; simpl; intros H; [contradiction|].
  destruct H as [->|H]; [now rewrite String.eqb_refl|].
  destruct (String.eqb s d); auto.
Qed.

Lemma calc_fuel_ok : forall known fuel a aid seen,
  NoDup seen ->
  (forall x, In x seen -> In x known) ->
  (forall x, In x seen -> String.length x < String.length a) ->
  List.length known < fuel + List.length seen ->
  exists s, calc_unique_fuel fuel a aid known = Ok s /\ mem_string s known = false.
Proof.
  intros known fuel. induction fuel as [|f IH]; intros a aid seen ND Hin Hlen Hf.
  - simpl. destruct (mem_string a known) eqn:M.
    + exfalso. apply mem_string_In in M.
      assert (ND' : NoDup (a :: seen)).
      { constructor; [|assumption]. intro Hx. apply Hlen in Hx. lia. }
      assert (L := NoDup_incl_length ND' (l' := known)).
      assert (incl (a :: seen) known) by (intros x [<-|Hx]; auto).
      specialize (L H). simpl in L. lia.
    + exists a. split; [reflexivity|assumption].
  - simpl. destruct (mem_string a known) eqn:M.
    + apply mem_string_In in M.
      assert (ND' : NoDup (a :: seen)).
      { constructor; [|assumption]. intro Hx. apply Hlen in Hx. lia. }
      apply (IH (next_anchor a aid) (S aid) (a :: seen) ND').
      * intros x [<-|Hx]; auto.
      * intros x [<-|Hx]; [apply next_anchor_longer|].
        specialize (Hlen x Hx). pose proof (next_anchor_longer a aid). lia.
      * simpl. lia.
    + exists a. split; [reflexivity|assumption].
Qed.

(* the supplied fuel is sufficient: never OutOfFuel, and the answer is new *)
Theorem calc_unique_total : forall anchor known,
  exists s, calc_unique_anchor anchor known = Ok s /\ mem_string s known = false.
Proof.
  intros. unfold calc_unique_anchor.
  apply (calc_fuel_ok known (S (List.length known)) anchor 1 []).
  - constructor.
  - intros x [].
  - intros x [].
  - simpl. lia.
Qed.

Corollary calc_unique_never_out_of_fuel : forall anchor known,
  calc_unique_anchor anchor known <> OutOfFuel.
Proof. intros a k. destruct (calc_unique_total a k) as [s [E _]]. rewrite E. discriminate. Qed.

(* a name that is not taken stays; a taken one is replaced *)
Lemma calc_unique_fresh : forall anchor known s,
  calc_unique_anchor anchor known = Ok s -> mem_string s known = false.
Proof. intros a k s E. destruct (calc_unique_total a k) as [s' [E' M]]. rewrite E in E'. now inversion E'; subst. Qed.

Lemma calc_unique_changes : forall anchor known s,
  In anchor known -> calc_unique_anchor anchor known = Ok s -> s <> anchor.
Proof.
  intros a k s Hin E Heq. subst s. apply calc_unique_fresh in E. apply In_mem_string in Hin. congruence.
Qed.
