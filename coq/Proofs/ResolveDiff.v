(* C06: the path TEXT of every entry of a positional diff is the append-form
   text [build_orig] of the entry's (ghost) location - the location the
   truthfulness theorem speaks about.  No condition on keys: Differ and
   PathBuild append the same segments (YAMLPath.__add__).  With
   Proofs/ResolveMain.v the text resolves, in the left / right document, to
   the value the entry reports there. *)
From Coq Require Import List Ascii String ZArith NArith Bool Arith Lia.
From YP Require Import Outcome PyStr PyVal Doc Generated PathParser PathPrinter Diff C06Spec DiffBase DiffPos PathBuild.
Import ListNotations.
Open Scope string_scope.

Lemma path_add_pb orig sg : path_add orig sg = pb_add orig sg.
Proof. destruct orig as [|c r]; [reflexivity|]. unfold path_add, pb_add, path_sepc, pb_sepc. cbn. destruct (Ascii.eqb c "/"%char); reflexivity. Qed.

Lemma path_sepc_pb orig : path_sepc orig = pb_sepc orig.
Proof. destruct orig as [|c r]; [reflexivity|]. unfold path_sepc, pb_sepc. cbn. destruct (Ascii.eqb c "/"%char); reflexivity. Qed.

Lemma pb_append_snoc' : forall l0 tp r,
  pb_append tp (l0 ++ [r])%list = pb_add (pb_append tp l0) (pb_ref_seg (pb_append tp l0) r).
Proof. induction l0 as [|x rest IH]; intros tp r; [reflexivity|]. cbn [app pb_append]. apply IH. Qed.

Lemma add_key_orig q k : path_add_key (build_orig q) k = build_orig (q ++ [RKey (Diff.key_val k)])%list.
Proof. unfold path_add_key, build_orig. rewrite pb_append_snoc', path_add_pb, path_sepc_pb. reflexivity. Qed.

Lemma add_member_orig q k : path_add_key (build_orig q) k = build_orig (q ++ [RMember (Diff.key_val k)])%list.
Proof. unfold path_add_key, build_orig. rewrite pb_append_snoc', path_add_pb, path_sepc_pb. reflexivity. Qed.

Lemma add_idx_orig q n : path_add_idx (build_orig q) (Some n) = build_orig (q ++ [RIdx n])%list.
Proof. unfold path_add_idx, build_orig. rewrite pb_append_snoc', path_add_pb. reflexivity. Qed.

Definition goodp (e : entry) : Prop := e_path e = build_orig (e_loc e).

Section PosPath.
  Variable path_eq : string -> string -> outcome bool.
  Variable cfg : dcfg.
  Hypothesis Hpos : positional cfg.

  Definition rec_goodp (rec : rec_t) : Prop :=
    forall q l r par pref a a',
      rec (build_orig q) q l r par pref a = Ok a' -> Forall goodp a -> Forall goodp a'.

  Lemma Forall_rev_map_app' {A} (f : A -> entry) (P : entry -> Prop) : forall l a,
    (forall x, In x l -> P (f x)) -> Forall P a -> Forall P (rev (map f l) ++ a).
  Proof.
    intros l a Hf Ha. apply Forall_forall. intros e He.
    apply in_app_or in He. destruct He as [He|He].
    - apply in_rev in He. apply in_map_iff in He. destruct He as [x [<- Hx]]. auto.
    - rewrite Forall_forall in Ha; auto.
  Qed.

  Lemma purge_goodp q l root a : Forall goodp a -> Forall goodp (purge (build_orig q) q l root a).
  Proof.
    intros Ha. destruct l as [i v|i kvs|i els|i els]; simpl.
    - destruct v, root; simpl; auto; constructor; auto; reflexivity.
    - apply Forall_rev_map_app'; auto. intros kv _. unfold goodp. simpl. apply add_key_orig.
    - apply Forall_rev_map_app'; auto. intros ie _. unfold goodp. simpl. apply add_idx_orig.
    - apply Forall_rev_map_app'; auto. intros e _. unfold goodp. simpl. apply add_member_orig.
  Qed.

  Lemma add_everything_goodp q r root a : Forall goodp a -> Forall goodp (add_everything (build_orig q) q r root a).
  Proof.
    intros Ha. destruct r as [i v|i kvs|i els|i els]; simpl.
    - destruct v, root; simpl; auto; constructor; auto; reflexivity.
    - apply Forall_rev_map_app'; auto. intros kv _. unfold goodp. simpl. apply add_key_orig.
    - apply Forall_rev_map_app'; auto. intros ie _. unfold goodp. simpl. apply add_idx_orig.
    - apply Forall_rev_map_app'; auto. intros e _. unfold goodp. simpl. apply add_member_orig.
  Qed.

  Lemma clash_goodp q l r root a a' :
    Forall goodp a ->
    (let a1 := add_everything (build_orig q) q r root (purge (build_orig q) q l root a) in
     if Nat.eqb (List.length a1) (List.length a)
     then Ok (mkentry AChange (build_orig q) q l r :: a1) else Ok a1) = Ok a' ->
    Forall goodp a'.
  Proof.
    intros Ha H. simpl in H.
    assert (G : Forall goodp (add_everything (build_orig q) q r root (purge (build_orig q) q l root a))).
    { apply add_everything_goodp. apply purge_goodp. exact Ha. }
    destruct (Nat.eqb _ _); inversion H; subst; auto. constructor; auto. reflexivity.
  Qed.

  Lemma dicts_goodp rec q l r lkvs rkvs a a' :
    rec_goodp rec ->
    diff_dicts rec (build_orig q) q l r lkvs rkvs a = Ok a' -> Forall goodp a -> Forall goodp a'.
  Proof.
    intros Hrec H Ha. unfold diff_dicts in H.
    destruct (negb _).
    - inversion H; subst. constructor; [reflexivity|]. constructor; [reflexivity | exact Ha].
    - match type of H with (bind ?F _ = _) => destruct F as [acc1| |] eqn:EF end; simpl in H; try discriminate.
      inversion H; subst; clear H.
      assert (G1 : Forall goodp acc1).
      { eapply (foldM_inv _ (Forall goodp)); [ | exact EF | exact Ha].
        intros b [k rv] b' Hin Hf Hb. simpl in Hf.
        destruct (map_get k lkvs) as [lv|]; [|inversion Hf; subst; auto].
        destruct (map_has k rkvs); [|inversion Hf; subst; auto].
        rewrite add_key_orig in Hf. eapply Hrec; [exact Hf | exact Hb]. }
      apply Forall_rev_map_app'.
      { intros kv _. unfold goodp. simpl. apply add_key_orig. }
      apply Forall_rev_map_app'; auto.
      intros kv _. unfold goodp. simpl. apply add_key_orig.
  Qed.

  Lemma sets_goodp rec q l r lels rels a a' :
    rec_goodp rec ->
    diff_sets rec (build_orig q) q l r lels rels a = Ok a' -> Forall goodp a -> Forall goodp a'.
  Proof.
    intros Hrec H Ha. unfold diff_sets in H.
    match type of H with (bind ?F _ = _) => destruct F as [acc1| |] eqn:EF end; simpl in H; try discriminate.
    inversion H; subst; clear H.
    assert (G1 : Forall goodp acc1).
    { eapply (foldM_inv _ (Forall goodp)); [ | exact EF | exact Ha].
      intros b k b' Hin Hf Hb. simpl in Hf.
      destruct (set_has k lels && set_has k rels); [|inversion Hf; subst; auto].
      rewrite add_member_orig in Hf. eapply Hrec; [exact Hf | exact Hb]. }
    apply Forall_rev_map_app'.
    { intros k _. unfold goodp. simpl. apply add_member_orig. }
    apply Forall_rev_map_app'; auto.
    intros k _. unfold goodp. simpl. apply add_member_orig.
  Qed.

  Lemma zip_goodp rec deep q r0 :
    rec_goodp rec ->
    forall lels idx rels a a',
      zip_go rec deep (build_orig q) q r0 idx lels rels a = Ok a' -> Forall goodp a -> Forall goodp a'.
  Proof.
    intros Hrec. induction lels as [|le lr IH]; simpl; intros idx rels a a' H Ha.
    - inversion H; subst. apply Forall_rev_map_app'; auto.
      intros ie _. unfold goodp. simpl. apply add_idx_orig.
    - destruct rels as [|re rr].
      + eapply IH; [exact H|]. constructor; auto. unfold goodp. simpl. apply add_idx_orig.
      + match type of H with (bind ?F _ = _) => destruct F as [a1| |] eqn:EF end; simpl in H; try discriminate.
        eapply IH; [exact H|].
        destruct deep.
        * rewrite add_idx_orig in EF. eapply Hrec; [exact EF | exact Ha].
        * inversion EF; subst. constructor; auto. unfold goodp, cmp_entry. simpl. apply add_idx_orig.
  Qed.

  Lemma arrays_goodp rec deep q r lels rels nc a a' :
    rec_goodp rec ->
    diff_arrays path_eq cfg rec deep (build_orig q) q r lels rels nc a = Ok a' ->
    Forall goodp a -> Forall goodp a'.
  Proof.
    intros Hrec H Ha. unfold diff_arrays in H. destruct Hpos as [Hp1 _]. rewrite Hp1 in H. simpl in H.
    eapply zip_goodp; eauto.
  Qed.

  Lemma lists_goodp rec q l r lels rels par pref a a' :
    rec_goodp rec ->
    diff_lists path_eq cfg rec (build_orig q) q l r lels rels par pref a = Ok a' ->
    Forall goodp a -> Forall goodp a'.
  Proof.
    intros Hrec H Ha. unfold diff_lists in H.
    destruct (negb _).
    { inversion H; subst. constructor; [reflexivity|]. constructor; [reflexivity | exact Ha]. }
    assert (Haoh : forall nc,
      diff_aoh path_eq cfg rec (build_orig q) q r lels rels nc a = Ok a' -> Forall goodp a').
    { intros nc H'. unfold diff_aoh in H'. destruct Hpos as [_ Hp2].
      destruct (Hp2 nc) as [E|E]; rewrite E in H'; simpl in H'; eapply arrays_goodp; eauto. }
    destruct rels as [|[ | | | ] rr]; try (eapply arrays_goodp; eauto; fail).
    eapply Haoh; eauto.
  Qed.

  Lemma body_goodp rec : rec_goodp rec -> rec_goodp (diff_body path_eq cfg rec).
  Proof.
    intros Hrec q l r par pref a a' H Ha.
    destruct l as [i v|i lkvs|i lels|i lels], r as [j w|j rkvs|j rels|j rels];
      try (eapply (clash_goodp q _ _ (match par with None => true | Some _ => false end)); [exact Ha | exact H]); simpl in H.
    - inversion H; subst. constructor; [unfold goodp, diff_scalars, cmp_entry; reflexivity | exact Ha].
    - eapply dicts_goodp; [exact Hrec | exact H | exact Ha].
    - eapply lists_goodp; [exact Hrec | exact H | exact Ha].
    - eapply sets_goodp; [exact Hrec | exact H | exact Ha].
  Qed.

  Lemma between_goodp : forall fuel, rec_goodp (diff_between path_eq cfg fuel).
  Proof.
    induction fuel as [|f IH].
    - intros q l r par pref a a' H. simpl in H. discriminate.
    - intros q l r par pref a a' H Ha. simpl in H. eapply body_goodp; eauto.
  Qed.

  Theorem compare_to_paths L R es :
    compare_to path_eq cfg L R = Ok es -> Forall goodp es.
  Proof.
    intros H. unfold compare_to in H.
    match type of H with (bind ?F _ = _) => destruct F as [acc| |] eqn:EF end; simpl in H; try discriminate.
    inversion H; subst.
    apply Forall_forall. intros e He. apply in_rev in He. revert e He. apply Forall_forall.
    eapply (between_goodp _ []); [exact EF | constructor].
  Qed.
End PosPath.

Theorem entry_path_text path_eq cfg L R es :
  positional cfg -> compare_to path_eq cfg L R = Ok es ->
  Forall (fun e => e_path e = build_orig (e_loc e)) es.
Proof. intros Hp E. exact (compare_to_paths path_eq cfg Hp L R es E). Qed.
