(* C19, document level, part 1: the identity-driven replacement [subst] on a
   document that satisfies the identity-consistency / freshness invariant. *)
From Coq Require Import List Ascii String NArith Bool Arith Lia.
From YP Require Import Outcome PyStr PyVal Doc Eyaml C19Spec C19DocSpec.
Import ListNotations.
Open Scope string_scope.
Open Scope list_scope.
Import Ey.

(* ---- generalities ------------------------------------------------------------------ *)

Lemma vnodes_self : forall n, In n (vnodes n).
Proof. destruct n; simpl; left; reflexivity. Qed.

Lemma vnodes_map_child : forall i kvs k v x,
  In (k, v) kvs -> In x (vnodes v) -> In x (vnodes (NMap i kvs)).
Proof.
  intros i kvs k v x Hin Hx; simpl; right.
  apply in_flat_map; exists (k, v); split; assumption.
Qed.

Lemma vnodes_seq_child : forall i els v x,
  In v els -> In x (vnodes v) -> In x (vnodes (NSeq i els)).
Proof.
  intros i els v x Hin Hx; simpl; right.
  apply in_flat_map; exists v; split; assumption.
Qed.

Lemma assoc_key_in : forall k kvs v, assoc_key k kvs = Some v -> exists kn, In (kn, v) kvs.
Proof.
  induction kvs as [|[kn w] r IH]; simpl; intros v H; [discriminate|].
  destruct kn as [i kv| | |]; try (destruct (IH _ H) as [x Hx]; exists x; right; exact Hx).
  destruct (py_eq kv k).
  - inversion H; subst; eexists; left; reflexivity.
  - destruct (IH _ H) as [x Hx]; exists x; right; exact Hx.
Qed.

Lemma leaf_no_child : forall i v r, child (NLeaf i v) r = None.
Proof. intros i v [k|j|m]; reflexivity. Qed.

Lemma lookup_leaf : forall i v l y, lookup (NLeaf i v) l = Some y -> l = [] /\ y = NLeaf i v.
Proof.
  intros i v [|r rest] y H; simpl in H.
  - inversion H; split; reflexivity.
  - destruct r; discriminate H.
Qed.

Lemma find_member_leaf : forall k els m, find_member k els = Some m -> is_leaf m = true.
Proof.
  induction els as [|e r IH]; simpl; intros m H; [discriminate|].
  destruct e as [i v| | |]; try (apply IH; exact H).
  destruct (py_eq v k); [inversion H; reflexivity | apply IH; exact H].
Qed.

(* value-position children: what [child] reaches in a hash or a list *)
Lemma child_vnodes : forall n r c x,
  is_set n = false -> child n r = Some c -> In x (vnodes c) -> In x (vnodes n).
Proof.
  intros [i v|i kvs|i els|i els] r c x Hs Hc Hx; destruct r; simpl in Hc; try discriminate.
  - destruct (assoc_key_in _ _ _ Hc) as [kn Hin]. eapply vnodes_map_child; eassumption.
  - eapply vnodes_seq_child; [eapply nth_error_In; exact Hc | exact Hx].
Qed.

Lemma anchor_name_araw : forall n,
  araw n <> Some EmptyString -> anchor_name n = araw n.
Proof.
  intros n H; unfold anchor_name, araw in *.
  destruct (has_anchor_attr (node_info n)); [|reflexivity].
  destruct (anchor (node_info n)) as [a|]; [|reflexivity].
  destruct a; [exfalso; apply H; reflexivity | reflexivity].
Qed.

Lemma anchor_name_not_empty : forall n, anchor_name n <> Some EmptyString.
Proof.
  intros n; unfold anchor_name.
  destruct (has_anchor_attr (node_info n)); [|discriminate].
  destruct (anchor (node_info n)) as [a|]; [|discriminate].
  destruct a; simpl; discriminate.
Qed.

(* the scalar Nodes.make_new_node builds: anchor kept, tag dropped *)
Definition fresh_leaf (o : N) (oldn : node) (value : string) : node :=
  NLeaf (mkinfo o (anchor_name oldn) true None) (PStr value).

Lemma araw_fresh_leaf : forall o oldn value, araw (fresh_leaf o oldn value) = anchor_name oldn.
Proof. reflexivity. Qed.

Lemma anchor_name_fresh_leaf : forall o oldn value,
  anchor_name (fresh_leaf o oldn value) = anchor_name oldn.
Proof.
  intros; apply (anchor_name_araw (fresh_leaf o oldn value)).
  rewrite araw_fresh_leaf; apply anchor_name_not_empty.
Qed.

(* ---- the Anchor test of the [&name] segment ---------------------------------------------- *)
Definition amatch (a : string) (e : node) : bool :=
  has_anchor_attr (node_info e) &&
  match anchor (node_info e) with Some b => String.eqb a b | None => false end.

Lemma amatch_araw : forall a e,
  amatch a e = match araw e with Some b => String.eqb a b | None => false end.
Proof. intros a e; unfold amatch, araw; destruct (has_anchor_attr (node_info e)); reflexivity. Qed.

Lemma amatch_true_araw : forall a e, amatch a e = true -> araw e = Some a.
Proof.
  intros a e H; rewrite amatch_araw in H. destruct (araw e) as [b|]; [|discriminate H].
  apply String.eqb_eq in H; subst; reflexivity.
Qed.

Lemma anchor_matches_cons : forall a e r idx,
  anchor_matches a (e :: r) idx = (if amatch a e then [idx] else []) ++ anchor_matches a r (S idx).
Proof. reflexivity. Qed.

Lemma anchor_matches_in : forall a els idx j, In j (anchor_matches a els idx) ->
  exists k e, j = idx + k /\ nth_error els k = Some e /\ amatch a e = true.
Proof.
  induction els as [|e r IH]; intros idx j H; [destruct H|].
  rewrite anchor_matches_cons in H. apply in_app_iff in H. destruct H as [H|H].
  - destruct (amatch a e) eqn:E; [|destruct H]. destruct H as [<-|[]].
    exists 0, e; split; [rewrite Nat.add_0_r; reflexivity | split; [reflexivity | exact E]].
  - destruct (IH (S idx) j H) as [k [e' [A [B C]]]]. exists (S k), e'.
    split; [rewrite Nat.add_succ_r; exact A | split; [exact B | exact C]].
Qed.

Lemma resolve_cons : forall n sg rest,
  resolve n (sg :: rest) =
  flat_map (fun r => match child n r with
                     | Some c => map (cons r) (resolve c rest)
                     | None => []
                     end) (step_locs n sg).
Proof. reflexivity. Qed.

Lemma resolve_leaf : forall n p, is_leaf n = true ->
  resolve n p = match p with [] => [[]] | _ => [] end.
Proof. intros [i v| | |] [|sg rest] H; try discriminate H; reflexivity. Qed.

Lemma step_locs_no_member : forall n sg r, In r (step_locs n sg) -> forall m, r <> RMember m.
Proof.
  intros n sg r H m. destruct n as [i v|i kvs|i els|i els]; destruct sg as [k|j|a]; simpl in H; try destruct H.
  - destruct (key_index k kvs); [destruct H as [<-|[]]; discriminate | destruct H].
  - destruct (Nat.ltb j (List.length els)); [destruct H as [<-|[]]; discriminate | destruct H].
  - apply in_map_iff in H. destruct H as [x [<- _]]; discriminate.
Qed.

(* every location [resolve] yields exists and runs through hash values / list elements *)
Lemma resolve_lookup : forall p n l, In l (resolve n p) ->
  (exists y, lookup n l = Some y) /\ (forall m, ~ In (RMember m) l).
Proof.
  induction p as [|sg rest IH]; intros n l H.
  - destruct H as [<-|[]]. split; [exists n; reflexivity | intros m []].
  - rewrite resolve_cons in H. apply in_flat_map in H. destruct H as [r [Hr H]].
    destruct (child n r) as [c|] eqn:Hc; [|destruct H].
    apply in_map_iff in H. destruct H as [t [<- Ht]]. destruct (IH c t Ht) as [[y Hy] Hm].
    split; [exists y; simpl; rewrite Hc; exact Hy|].
    intros m [E|E]; [eapply step_locs_no_member; eassumption | eapply Hm; exact E].
Qed.

(* on a consistent document all locations of one discovered path hold ONE object *)
Lemma resolve_same : forall d next, Inv d next ->
  forall p n l1 l2 y1 y2, (forall x, In x (vnodes n) -> In x (vnodes d)) ->
    In l1 (resolve n p) -> In l2 (resolve n p) ->
    lookup n l1 = Some y1 -> lookup n l2 = Some y2 -> y1 = y2.
Proof.
  intros d next HI. induction p as [|sg rest IH]; intros n l1 l2 y1 y2 Hsub H1 H2 L1 L2.
  - destruct H1 as [<-|[]]; destruct H2 as [<-|[]]. simpl in L1, L2. congruence.
  - rewrite resolve_cons in H1, H2. apply in_flat_map in H1, H2.
    destruct H1 as [r1 [Hr1 H1]]; destruct H2 as [r2 [Hr2 H2]].
    destruct (child n r1) as [c1|] eqn:Hc1; [|destruct H1].
    destruct (child n r2) as [c2|] eqn:Hc2; [|destruct H2].
    apply in_map_iff in H1, H2. destruct H1 as [t1 [<- Ht1]]; destruct H2 as [t2 [<- Ht2]].
    simpl in L1, L2. rewrite Hc1 in L1; rewrite Hc2 in L2.
    assert (Hset : is_set n = false).
    { destruct n as [| | |i els]; try reflexivity. destruct sg; destruct Hr1. }
    assert (Hs1 : forall x, In x (vnodes c1) -> In x (vnodes d)) by (intros x Hx; apply Hsub; apply (child_vnodes n r1 c1 x Hset Hc1 Hx)).
    assert (Hs2 : forall x, In x (vnodes c2) -> In x (vnodes d)) by (intros x Hx; apply Hsub; apply (child_vnodes n r2 c2 x Hset Hc2 Hx)).
    assert (Ec : c1 = c2).
    { destruct n as [i v|i kvs|i els|i els]; destruct sg as [k|j|a]; simpl in Hr1, Hr2; try (destruct Hr1; fail).
      - destruct (key_index k kvs); [|destruct Hr1]. destruct Hr1 as [<-|[]]; destruct Hr2 as [<-|[]]. congruence.
      - destruct (Nat.ltb j (List.length els)); [|destruct Hr1]. destruct Hr1 as [<-|[]]; destruct Hr2 as [<-|[]]. congruence.
      - apply in_map_iff in Hr1, Hr2. destruct Hr1 as [j1 [<- Hj1]]; destruct Hr2 as [j2 [<- Hj2]].
        destruct (anchor_matches_in _ _ _ _ Hj1) as [k1 [e1 [-> [N1 M1]]]].
        destruct (anchor_matches_in _ _ _ _ Hj2) as [k2 [e2 [-> [N2 M2]]]].
        simpl in Hc1, Hc2. rewrite N1 in Hc1; rewrite N2 in Hc2. inversion Hc1; inversion Hc2; subst e1 e2.
        apply (inv_id d next HI); [apply Hs1, vnodes_self | apply Hs2, vnodes_self|].
        eapply (inv_anchor d next HI); [apply Hs1, vnodes_self | apply Hs2, vnodes_self | apply amatch_true_araw; exact M1 | apply amatch_true_araw; exact M2]. }
    subst c2. eapply (IH c1 t1 t2); eassumption.
Qed.

(* ---- the pieces of [rotated] by name ---------------------------------------------------- *)
Definition rot_kvs (L : node -> node -> Prop) : list (node * node) -> list (node * node) -> Prop :=
  fix go (l l' : list (node * node)) {struct l} : Prop :=
    match l, l' with
    | [], [] => True
    | kv :: r, kv' :: r' => fst kv' = fst kv /\ rotated L (snd kv) (snd kv') /\ go r r'
    | _, _ => False
    end.

Definition rot_els (L : node -> node -> Prop) : list node -> list node -> Prop :=
  fix go (l l' : list node) {struct l} : Prop :=
    match l, l' with
    | [], [] => True
    | e :: r, e' :: r' => rotated L e e' /\ go r r'
    | _, _ => False
    end.

Lemma rotated_map : forall L i kvs n',
  rotated L (NMap i kvs) n' = (exists kvs', n' = NMap i kvs' /\ rot_kvs L kvs kvs').
Proof. reflexivity. Qed.

Lemma rotated_seq : forall L i els n',
  rotated L (NSeq i els) n' = (exists els', n' = NSeq i els' /\ rot_els L els els').
Proof. reflexivity. Qed.

Lemma rot_kvs_cons : forall L kv r kv' r',
  rot_kvs L (kv :: r) (kv' :: r') = (fst kv' = fst kv /\ rotated L (snd kv) (snd kv') /\ rot_kvs L r r').
Proof. reflexivity. Qed.

Lemma rot_els_cons : forall L e r e' r',
  rot_els L (e :: r) (e' :: r') = (rotated L e e' /\ rot_els L r r').
Proof. reflexivity. Qed.

(* ---- [subst] written with named pieces --------------------------------------------- *)

Section Subst.
  Variables (poid : N) (pref : ref) (old : N) (attr : bool) (new : node).
  Notation Sb := (subst poid pref old attr new).

  Definition s_kv (i : info) (kv : node * node) : node * node :=
    let (k, v) := kv in
    if N.eqb (node_oid v) old
    then (if attr || (N.eqb (oid i) poid && ref_is_key pref k) then (k, new) else (k, v))
    else (k, Sb v).

  Definition s_els (i : info) : list node -> nat -> list node :=
    fix go (l : list node) (idx : nat) : list node :=
      match l with
      | [] => []
      | v :: r =>
          (if N.eqb (node_oid v) old && (attr || (N.eqb (oid i) poid && ref_is_idx pref idx))
           then new else Sb v) :: go r (S idx)
      end.

  Lemma subst_map : forall i kvs, Sb (NMap i kvs) = NMap i (map (s_kv i) kvs).
  Proof. reflexivity. Qed.

  Lemma subst_seq : forall i els, Sb (NSeq i els) = NSeq i (s_els i els 0).
  Proof. reflexivity. Qed.

  Lemma subst_leaf : forall n, is_leaf n = true -> Sb n = n.
  Proof. intros [| | |]; simpl; intros; try discriminate; reflexivity. Qed.

  Lemma subst_info : forall n, node_info (Sb n) = node_info n.
  Proof. intros [| | |]; reflexivity. Qed.

  Lemma subst_oid : forall n, node_oid (Sb n) = node_oid n.
  Proof. intro n; unfold node_oid; rewrite subst_info; reflexivity. Qed.

  Lemma subst_is_leaf : forall n, is_leaf (Sb n) = is_leaf n.
  Proof. intros [| | |]; reflexivity. Qed.

  Lemma fst_s_kv : forall i kv, fst (s_kv i kv) = fst kv.
  Proof.
    intros i [k v]; unfold s_kv.
    destruct (N.eqb (node_oid v) old); [destruct (attr || _)|]; reflexivity.
  Qed.

  (* ---- on a consistent document ------------------------------------------------------ *)
  Variables (d : node) (next : N).
  Hypothesis HI : Inv d next.
  Variables (iy : info) (vy : pyval).
  Notation yold := (NLeaf iy vy).
  Hypothesis Hy : In yold (vnodes d).
  Hypothesis Hold : old = oid iy.
  Hypothesis Hattr : attr = has_anchor_attr iy.
  Hypothesis Hnew_oid : node_oid new = next.
  Hypothesis Hnew_leaf : is_leaf new = true.
  Hypothesis Hnew_araw : araw new = anchor_name yold.

  Lemma old_is_yold : forall v, In v (vnodes d) -> node_oid v = old -> v = yold.
  Proof.
    intros v Hv Ho. apply (inv_id d next HI); [exact Hv | exact Hy | rewrite Ho, Hold; reflexivity].
  Qed.

  (* the image of a hash value / list element *)
  Lemma s_kv_cases : forall i k v, In v (vnodes d) ->
    (s_kv i (k, v) = (k, new) /\ v = yold) \/
    (s_kv i (k, v) = (k, Sb v) /\ ~ (node_oid v = old /\ attr = true)).
  Proof.
    intros i k v Hv; unfold s_kv.
    destruct (N.eqb (node_oid v) old) eqn:E.
    - apply N.eqb_eq in E. pose proof (old_is_yold v Hv E) as ->.
      destruct (attr || _) eqn:C.
      + left; split; reflexivity.
      + right; split; [reflexivity|].
        intros [_ Ha]; rewrite Ha in C; discriminate C.
    - right; split; [reflexivity|]. intros [Ho _]. apply N.eqb_neq in E; contradiction.
  Qed.

  Lemma s_els_cons : forall i v r idx,
    s_els i (v :: r) idx =
    (if N.eqb (node_oid v) old && (attr || (N.eqb (oid i) poid && ref_is_idx pref idx))
     then new else Sb v) :: s_els i r (S idx).
  Proof. reflexivity. Qed.

  Lemma s_el_cases : forall i v idx, In v (vnodes d) ->
    let img := if N.eqb (node_oid v) old && (attr || (N.eqb (oid i) poid && ref_is_idx pref idx))
               then new else Sb v in
    (img = new /\ v = yold) \/ (img = Sb v /\ ~ (node_oid v = old /\ attr = true)).
  Proof.
    intros i v idx Hv; cbv zeta.
    destruct (N.eqb (node_oid v) old) eqn:E; simpl.
    - apply N.eqb_eq in E. pose proof (old_is_yold v Hv E) as ->.
      destruct (attr || _) eqn:C.
      + left; split; reflexivity.
      + right; split; [reflexivity|]. intros [_ Ha]; rewrite Ha in C; discriminate C.
    - right; split; [reflexivity|]. intros [Ho _]. apply N.eqb_neq in E; contradiction.
  Qed.

  Definition sub_of (n : node) : Prop := forall x, In x (vnodes n) -> In x (vnodes d).

  Lemma sub_of_map_child : forall i kvs k v, sub_of (NMap i kvs) -> In (k, v) kvs -> sub_of v.
  Proof. intros i kvs k v H Hin x Hx; apply H; eapply vnodes_map_child; eassumption. Qed.

  Lemma sub_of_seq_child : forall i els v, sub_of (NSeq i els) -> In v els -> sub_of v.
  Proof. intros i els v H Hin x Hx; apply H; eapply vnodes_seq_child; eassumption. Qed.

  Lemma vnodes_new : vnodes new = [new].
  Proof. destruct new; simpl in *; try discriminate; reflexivity. Qed.

  (* L1: the value positions of the result *)
  Lemma vnodes_subst : forall n, sub_of n ->
    forall z, In z (vnodes (Sb n)) ->
      z = new \/ exists y, In y (vnodes n) /\ z = Sb y /\ (y = n \/ ~ (node_oid y = old /\ attr = true)).
  Proof.
    induction n as [i v | i kvs IH | i els IH | i els IH] using node_ind'; intros Hsub z Hz.
    - right; exists (NLeaf i v); simpl in Hz; destruct Hz as [<-|[]].
      split; [left; reflexivity | split; [reflexivity | left; reflexivity]].
    - rewrite subst_map in Hz. simpl in Hz. destruct Hz as [<-|Hz].
      + right; exists (NMap i kvs); split; [apply vnodes_self | split; [reflexivity | left; reflexivity]].
      + apply in_flat_map in Hz. destruct Hz as [kv' [Hkv' Hz]].
        apply in_map_iff in Hkv'. destruct Hkv' as [[k v] [<- Hin]].
        assert (Hv : In v (vnodes d)) by (apply Hsub; eapply vnodes_map_child; [exact Hin | apply vnodes_self]).
        destruct (s_kv_cases i k v Hv) as [[E _]|[E Hn]]; rewrite E in Hz; simpl in Hz.
        * rewrite vnodes_new in Hz; destruct Hz as [<-|[]]; left; reflexivity.
        * rewrite Forall_forall in IH. destruct (IH (k, v) Hin) as [_ IHv]. simpl in IHv.
          destruct (IHv (sub_of_map_child _ _ _ _ Hsub Hin) z Hz) as [->|[y [Hy1 [Hy2 Hy3]]]]; [left; reflexivity|].
          right; exists y; split; [eapply vnodes_map_child; eassumption|]. split; [exact Hy2|].
          destruct Hy3 as [->|Hy3]; right; assumption.
    - rewrite subst_seq in Hz. simpl in Hz. destruct Hz as [<-|Hz].
      + right; exists (NSeq i els); split; [apply vnodes_self | split; [reflexivity | left; reflexivity]].
      + assert (G : forall l idx, (forall v, In v l -> In v els) ->
                     In z (flat_map vnodes (s_els i l idx)) ->
                     z = new \/ exists y, In y (vnodes (NSeq i els)) /\ z = Sb y /\ ~ (node_oid y = old /\ attr = true)).
        { induction l as [|v r IHl]; intros idx Hl Hin; [destruct Hin|].
          rewrite s_els_cons in Hin. simpl in Hin. apply in_app_iff in Hin. destruct Hin as [Hin|Hin].
          - assert (Hve : In v els) by (apply Hl; left; reflexivity).
            assert (Hv : In v (vnodes d)) by (apply Hsub; eapply vnodes_seq_child; [exact Hve | apply vnodes_self]).
            destruct (s_el_cases i v idx Hv) as [[E _]|[E Hn]]; rewrite E in Hin.
            + rewrite vnodes_new in Hin; destruct Hin as [<-|[]]; left; reflexivity.
            + rewrite Forall_forall in IH.
              destruct (IH v Hve (sub_of_seq_child _ _ _ Hsub Hve) z Hin) as [->|[y [Hy1 [Hy2 Hy3]]]]; [left; reflexivity|].
              right; exists y; split; [eapply vnodes_seq_child; eassumption|]. split; [exact Hy2|].
              destruct Hy3 as [->|Hy3]; assumption.
          - apply (IHl (S idx)); [intros w Hw; apply Hl; right; exact Hw | exact Hin]. }
        destruct (G els 0 (fun v H => H) Hz) as [->|[y [Hy1 [Hy2 Hy3]]]]; [left; reflexivity|].
        right; exists y; split; [exact Hy1 | split; [exact Hy2 | right; exact Hy3]].
    - right; exists (NSet i els); simpl in Hz; destruct Hz as [<-|[]].
      split; [left; reflexivity | split; [reflexivity | left; reflexivity]].
  Qed.

  Lemma sub_of_d : sub_of d.
  Proof. intros x Hx; exact Hx. Qed.

  (* L2: the invariant survives, with the next identity *)
  Lemma subst_inv : is_leaf d = false -> Inv (Sb d) (N.succ next).
  Proof.
    intro Hd.
    assert (Hroot : forall y, y = d -> node_oid y = old -> False).
    { intros y -> Ho. pose proof (old_is_yold d (vnodes_self d) Ho) as E. rewrite E in Hd; discriminate Hd. }
    assert (Hyattr : forall x, araw yold = Some x -> attr = true).
    { intros x Hx; rewrite Hattr. unfold araw in Hx; simpl in Hx.
      destruct (has_anchor_attr iy); [reflexivity | discriminate Hx]. }
    assert (Hyname : anchor_name yold = araw yold) by (apply anchor_name_araw; apply (inv_named d next HI); exact Hy).
    constructor.
    - intros a b Ha Hb Hab.
      destruct (vnodes_subst d sub_of_d a Ha) as [->|[ya [Hya [-> _]]]];
      destruct (vnodes_subst d sub_of_d b Hb) as [->|[yb [Hyb [-> _]]]]; try reflexivity.
      + exfalso. rewrite subst_oid, Hnew_oid in Hab. pose proof (inv_fresh d next HI yb Hyb); lia.
      + exfalso. rewrite subst_oid, Hnew_oid in Hab. pose proof (inv_fresh d next HI ya Hya); lia.
      + rewrite !subst_oid in Hab. rewrite (inv_id d next HI ya yb Hya Hyb Hab); reflexivity.
    - intros a Ha. destruct (vnodes_subst d sub_of_d a Ha) as [->|[ya [Hya [-> _]]]].
      + rewrite Hnew_oid; lia.
      + rewrite subst_oid. pose proof (inv_fresh d next HI ya Hya); lia.
    - assert (K : forall y x, In y (vnodes d) -> araw new = Some x -> araw (Sb y) = Some x ->
                    (y = d \/ ~ (node_oid y = old /\ attr = true)) -> False).
      { intros y x Hyin Hn Hs Hc. rewrite Hnew_araw, Hyname in Hn.
        unfold araw in Hs; rewrite subst_info in Hs; fold (araw y) in Hs.
        pose proof (inv_anchor d next HI y yold x Hyin Hy Hs Hn) as Ho. simpl in Ho; fold (node_oid y) in Ho.
        assert (Ho' : node_oid y = old) by (rewrite Hold; exact Ho).
        destruct Hc as [->|Hc]; [eapply Hroot; [reflexivity | exact Ho'] | apply Hc; split; [exact Ho' | eapply Hyattr; exact Hn]]. }
      intros a b x Ha Hb Hax Hbx.
      destruct (vnodes_subst d sub_of_d a Ha) as [->|[ya [Hya [-> Hca]]]];
      destruct (vnodes_subst d sub_of_d b Hb) as [->|[yb [Hyb [-> Hcb]]]]; try reflexivity.
      + exfalso; eapply K; eassumption.
      + exfalso; eapply K; eassumption.
      + rewrite !subst_oid. unfold araw in Hax, Hbx; rewrite subst_info in Hax, Hbx.
        eapply (inv_anchor d next HI); eassumption.
    - intros a Ha. destruct (vnodes_subst d sub_of_d a Ha) as [->|[ya [Hya [-> _]]]].
      + rewrite Hnew_araw; apply anchor_name_not_empty.
      + unfold araw; rewrite subst_info; apply (inv_named d next HI); exact Hya.
  Qed.

  (* ---- L3: looking a location up in the result ------------------------------------------ *)
  Lemma assoc_key_cons_s_kv : forall i k kn w r,
    assoc_key k (map (s_kv i) ((kn, w) :: r)) =
    match kn with
    | NLeaf _ kv => if py_eq kv k then Some (snd (s_kv i (kn, w))) else assoc_key k (map (s_kv i) r)
    | _ => assoc_key k (map (s_kv i) r)
    end.
  Proof.
    intros i k kn w r. change (map (s_kv i) ((kn, w) :: r)) with (s_kv i (kn, w) :: map (s_kv i) r).
    pose proof (fst_s_kv i (kn, w)) as F.
    destruct (s_kv i (kn, w)) as [k' w']. simpl in F; subst k'. destruct kn; reflexivity.
  Qed.

  Lemma assoc_key_s_kv : forall i k kvs c,
    assoc_key k kvs = Some c ->
    exists kn, In (kn, c) kvs /\ assoc_key k (map (s_kv i) kvs) = Some (snd (s_kv i (kn, c)))
               /\ ref_is_key (RKey k) kn = true.
  Proof.
    induction kvs as [|[kn0 w] r IH]; intros c H; [discriminate H|].
    rewrite assoc_key_cons_s_kv. simpl in H.
    destruct kn0 as [ik kv| | |];
      try (destruct (IH c H) as [kn [A [B C]]]; exists kn; split; [right; exact A | split; assumption]).
    destruct (py_eq kv k) eqn:P.
    - inversion H; subst w. exists (NLeaf ik kv). split; [left; reflexivity|]. split; [reflexivity | exact P].
    - destruct (IH c H) as [kn [A [B C]]]; exists kn; split; [right; exact A | split; assumption].
  Qed.

  Lemma assoc_key_s_kv_none : forall i k kvs,
    assoc_key k kvs = None -> assoc_key k (map (s_kv i) kvs) = None.
  Proof.
    induction kvs as [|[kn0 w] r IH]; intros H; [reflexivity|].
    rewrite assoc_key_cons_s_kv. simpl in H.
    destruct kn0 as [ik kv| | |]; try (apply IH; exact H).
    destruct (py_eq kv k); [discriminate H | apply IH; exact H].
  Qed.

  Lemma nth_error_s_els : forall i els idx j c, nth_error els j = Some c ->
    nth_error (s_els i els idx) j =
    Some (if N.eqb (node_oid c) old && (attr || (N.eqb (oid i) poid && ref_is_idx pref (idx + j)))
          then new else Sb c).
  Proof.
    induction els as [|v r IH]; intros idx j c H; [destruct j; discriminate H|].
    rewrite s_els_cons. destruct j as [|j]; simpl in H |- *.
    - inversion H; subst; rewrite Nat.add_0_r; reflexivity.
    - rewrite (IH (S idx) j c H). rewrite Nat.add_succ_r; reflexivity.
  Qed.

  Lemma length_s_els : forall i els idx, List.length (s_els i els idx) = List.length els.
  Proof. induction els as [|v r IH]; intro idx; [reflexivity|]. rewrite s_els_cons; simpl; rewrite IH; reflexivity. Qed.

  Lemma nth_error_s_els_none : forall i els idx j, nth_error els j = None -> nth_error (s_els i els idx) j = None.
  Proof.
    intros i els idx j H. apply nth_error_None. rewrite length_s_els. apply nth_error_None; exact H.
  Qed.

  Lemma child_subst : forall n r c, sub_of n -> child n r = Some c ->
    child (Sb n) r = Some (Sb c) \/ (child (Sb n) r = Some new /\ c = yold).
  Proof.
    intros [i v|i kvs|i els|i els] r c Hsub H; destruct r as [k|j|m]; try discriminate H.
    - rewrite subst_map. simpl in H |- *.
      destruct (assoc_key_s_kv i k kvs c H) as [kn [Hin [A _]]]. rewrite A.
      assert (Hv : In c (vnodes d)) by (apply Hsub; eapply vnodes_map_child; [exact Hin | apply vnodes_self]).
      destruct (s_kv_cases i kn c Hv) as [[E Ec]|[E _]]; rewrite E; simpl; [right; split; [reflexivity | exact Ec] | left; reflexivity].
    - rewrite subst_seq. simpl in H |- *.
      rewrite (nth_error_s_els i els 0 j c H).
      assert (Hv : In c (vnodes d)) by (apply Hsub; eapply vnodes_seq_child; [eapply nth_error_In; exact H | apply vnodes_self]).
      destruct (s_el_cases i c (0 + j) Hv) as [[E Ec]|[E _]]; rewrite E; [right; split; [reflexivity | exact Ec] | left; reflexivity].
    - left. simpl in H |- *. rewrite H. rewrite subst_leaf; [reflexivity | eapply find_member_leaf; exact H].
  Qed.

  Lemma child_subst_none : forall n r, child n r = None -> child (Sb n) r = None.
  Proof.
    intros [i v|i kvs|i els|i els] r H; destruct r as [k|j|m]; try reflexivity; try exact H.
    - rewrite subst_map; simpl in H |- *; apply assoc_key_s_kv_none; exact H.
    - rewrite subst_seq; simpl in H |- *; apply nth_error_s_els_none; exact H.
  Qed.

  Lemma sub_of_child : forall n r c, sub_of n -> child n r = Some c -> is_set n = false -> sub_of c.
  Proof. intros n r c Hsub Hc Hs x Hx; apply Hsub; eapply child_vnodes; eassumption. Qed.

  Lemma lookup_subst : forall l n y, sub_of n -> lookup n l = Some y ->
    lookup (Sb n) l = Some (Sb y) \/ (lookup (Sb n) l = Some new /\ y = yold /\ l <> []).
  Proof.
    induction l as [|r rest IH]; intros n y Hsub H.
    - inversion H; subst; left; reflexivity.
    - simpl in H. destruct (child n r) as [c|] eqn:Hc; [|discriminate H].
      destruct (is_set n) eqn:Hset.
      + (* a set: untouched; its members are leaves *)
        destruct n as [| | |i els]; try discriminate Hset. left.
        change (Sb (NSet i els)) with (NSet i els).
        destruct r as [k|j|m]; try discriminate Hc.
        assert (Hleaf : is_leaf c = true) by (simpl in Hc; eapply find_member_leaf; exact Hc).
        destruct c as [ic vc| | |]; try discriminate Hleaf.
        destruct (lookup_leaf _ _ _ _ H) as [-> ->].
        change (lookup (NSet i els) [RMember m]) with (match child (NSet i els) (RMember m) with Some c => lookup c [] | None => None end).
        rewrite Hc; reflexivity.
      + destruct (child_subst n r c Hsub Hc) as [E|[E Ec]]; simpl; rewrite E.
        * destruct (IH c y (sub_of_child _ _ _ Hsub Hc Hset) H) as [A|[A [B C]]]; [left; exact A|].
          right; split; [exact A | split; [exact B | discriminate]].
        * subst c. destruct (lookup_leaf _ _ _ _ H) as [-> ->].
          right; split; [destruct new; try discriminate Hnew_leaf; reflexivity | split; [reflexivity | discriminate]].
  Qed.

  Lemma yold_oid_eqb : N.eqb (node_oid yold) old = true.
  Proof. rewrite Hold; unfold node_oid; simpl; apply N.eqb_refl. Qed.

  Lemma s_kv_addressed : forall i kn, oid i = poid -> ref_is_key pref kn = true -> s_kv i (kn, yold) = (kn, new).
  Proof.
    intros i kn Hi Hr; unfold s_kv. rewrite yold_oid_eqb, Hi, N.eqb_refl, Hr, orb_true_r; reflexivity.
  Qed.

  (* L4: the addressed position holds the new node *)
  Definition no_member (l : loc) : Prop := forall m, ~ In (RMember m) l.

  Lemma lookup_subst_addressed : forall lp r n P,
    sub_of n -> no_member (lp ++ [r]) -> lookup n lp = Some P -> child P r = Some yold ->
    poid = node_oid P -> pref = r -> lookup (Sb n) (lp ++ [r]) = Some new.
  Proof.
    induction lp as [|r0 lp' IH]; intros r n P Hsub Hnm HP Hc Hpo Hpr.
    - inversion HP; subst P; clear HP. simpl.
      assert (Hnewl : lookup new [] = Some new) by reflexivity.
      destruct n as [i v|i kvs|i els|i els]; destruct r as [k|j|m]; try discriminate Hc.
      + rewrite subst_map. simpl in Hc |- *.
        destruct (assoc_key_s_kv i k kvs _ Hc) as [kn [Hin [A R]]]. rewrite A.
        rewrite s_kv_addressed; [reflexivity | rewrite Hpo; reflexivity | rewrite Hpr; exact R].
      + rewrite subst_seq. simpl in Hc |- *.
        rewrite (nth_error_s_els i els 0 j _ Hc). rewrite yold_oid_eqb.
        rewrite Hpo, Hpr. unfold node_oid; simpl. rewrite N.eqb_refl, Nat.eqb_refl. rewrite orb_true_r. reflexivity.
      + exfalso; apply (Hnm m); left; reflexivity.
    - simpl in HP. destruct (child n r0) as [c|] eqn:Hc0; [|discriminate HP].
      assert (Hset : is_set n = false).
      { destruct n as [| | |i els]; try reflexivity. destruct r0 as [k|j|m]; try discriminate Hc0.
        exfalso; apply (Hnm m); left; reflexivity. }
      simpl. destruct (child_subst n r0 c Hsub Hc0) as [E|[E Ec]]; rewrite E.
      + eapply IH; try eassumption.
        * eapply sub_of_child; eassumption.
        * intros m Hm; apply (Hnm m); right; exact Hm.
      + subst c. destruct (lookup_leaf _ _ _ _ HP) as [-> ->]. destruct r; discriminate Hc.
  Qed.

  (* ---- L5: "the input with exactly the secret leaves substituted" survives ---------------- *)
  Section RotatedSubst.
    Variable L : node -> node -> Prop.
    Hypothesis HLleaf : forall a b, L a b -> is_leaf b = true.
    Hypothesis HLnew : forall m0, L m0 yold -> L m0 new.
    Hypothesis Hysecret : is_eyaml_node yold = true.

    Lemma rotated_leaf_image : forall n0 b, is_leaf b = true -> rotated L n0 b -> is_leaf n0 = true.
    Proof.
      intros [i v|i kvs|i els|i els] b Hb H; try reflexivity; simpl in H.
      - destruct H as [kvs' [-> _]]; discriminate Hb.
      - destruct H as [els' [-> _]]; discriminate Hb.
      - subst b; discriminate Hb.
    Qed.

    Lemma rotated_yold_new : forall n0, rotated L n0 yold -> rotated L n0 new.
    Proof.
      intros n0 H. pose proof (rotated_leaf_image n0 yold eq_refl H) as Hl.
      destruct n0 as [i v| | |]; try discriminate Hl. simpl in H |- *.
      destruct (is_eyaml_value v) eqn:E; [apply HLnew; exact H|].
      exfalso. inversion H; subst. simpl in Hysecret. rewrite E in Hysecret; discriminate.
    Qed.

    Lemma rotated_subst : forall n0 n, sub_of n -> rotated L n0 n -> rotated L n0 (Sb n).
    Proof.
      induction n0 as [i v | i kvs IH | i els IH | i els IH] using node_ind'; intros n Hsub H.
      - simpl in H |- *. destruct (is_eyaml_value v).
        + rewrite subst_leaf; [exact H | eapply HLleaf; exact H].
        + subst n; reflexivity.
      - rewrite rotated_map in H. destruct H as [kvs' [-> H]]. rewrite subst_map, rotated_map. eexists; split; [reflexivity|].
        assert (Hs : forall k v, In (k, v) kvs' -> sub_of v) by (intros k v Hin; eapply sub_of_map_child; eassumption).
        clear Hsub. revert kvs' H Hs. induction kvs as [|[k0 v0] r IHr]; intros [|[k v] r'] H Hs; try (exact H).
        change (map (s_kv i) ((k, v) :: r')) with (s_kv i (k, v) :: map (s_kv i) r').
        rewrite rot_kvs_cons in H |- *.
        destruct H as [Hk [Hv Hr]]. simpl in Hk, Hv. subst k.
        pose proof (Forall_inv IH) as [_ IHv]; pose proof (Forall_inv_tail IH) as IHrest.
        assert (Hvd : In v (vnodes d)) by (apply (Hs k0 v); [left; reflexivity | apply vnodes_self]).
        split; [rewrite fst_s_kv; reflexivity|]. split.
        * simpl in IHv. destruct (s_kv_cases i k0 v Hvd) as [[E Ev]|[E _]]; rewrite E; simpl.
          -- subst v. apply rotated_yold_new; exact Hv.
          -- apply IHv; [apply (Hs k0 v); left; reflexivity | exact Hv].
        * apply IHr; [exact IHrest | exact Hr | intros k' v' Hin; apply (Hs k' v'); right; exact Hin].
      - rewrite rotated_seq in H. destruct H as [els' [-> H]]. rewrite subst_seq, rotated_seq. eexists; split; [reflexivity|].
        assert (Hs : forall v, In v els' -> sub_of v) by (intros v Hin; eapply sub_of_seq_child; eassumption).
        clear Hsub. generalize 0 as idx. revert els' H Hs.
        induction els as [|v0 r IHr]; intros [|v r'] H Hs idx; try (exact H).
        rewrite s_els_cons. rewrite rot_els_cons in H |- *.
        destruct H as [Hv Hr]. pose proof (Forall_inv IH) as IHv; pose proof (Forall_inv_tail IH) as IHrest.
        assert (Hvd : In v (vnodes d)) by (apply (Hs v); [left; reflexivity | apply vnodes_self]).
        split.
        * destruct (s_el_cases i v idx Hvd) as [[E Ev]|[E _]]; cbv zeta in E; rewrite E.
          -- subst v. apply rotated_yold_new; exact Hv.
          -- apply IHv; [apply (Hs v); left; reflexivity | exact Hv].
        * apply IHr; [exact IHrest | exact Hr | intros v' Hin; apply (Hs v'); right; exact Hin].
      - simpl in H |- *. subst n; reflexivity.
    Qed.
  End RotatedSubst.

  (* ---- L6: the discovered paths lead to the same locations afterwards ---------------------- *)
  Lemma key_index_s_kv : forall i k kvs, key_index k (map (s_kv i) kvs) = key_index k kvs.
  Proof.
    induction kvs as [|[kn w] r IH]; [reflexivity|].
    change (map (s_kv i) ((kn, w) :: r)) with (s_kv i (kn, w) :: map (s_kv i) r).
    pose proof (fst_s_kv i (kn, w)) as F. destruct (s_kv i (kn, w)) as [k' w']. simpl in F; subst k'.
    simpl. rewrite IH; reflexivity.
  Qed.

  Lemma amatch_info : forall a e e', node_info e = node_info e' -> amatch a e = amatch a e'.
  Proof. intros a e e' H; unfold amatch; rewrite H; reflexivity. Qed.

  Lemma amatch_new : forall a, amatch a new = amatch a yold.
  Proof.
    intro a. rewrite !amatch_araw, Hnew_araw.
    rewrite (anchor_name_araw yold); [reflexivity | apply (inv_named d next HI); exact Hy].
  Qed.

  Lemma anchor_matches_s_els : forall a i els idx idx', (forall v, In v els -> In v (vnodes d)) ->
    anchor_matches a (s_els i els idx) idx' = anchor_matches a els idx'.
  Proof.
    induction els as [|v r IH]; intros idx idx' Hin; [reflexivity|].
    rewrite s_els_cons, !anchor_matches_cons. rewrite (IH (S idx) (S idx')) by (intros w Hw; apply Hin; right; exact Hw).
    f_equal. destruct (s_el_cases i v idx (Hin v (or_introl eq_refl))) as [[E Ev]|[E _]]; cbv zeta in E; rewrite E.
    - subst v; rewrite amatch_new; reflexivity.
    - rewrite (amatch_info a (Sb v) v (subst_info v)); reflexivity.
  Qed.

  Lemma step_locs_subst : forall n sg, sub_of n -> step_locs (Sb n) sg = step_locs n sg.
  Proof.
    intros [i v|i kvs|i els|i els] sg Hsub; try reflexivity.
    - rewrite subst_map. destruct sg as [k|j|a]; try reflexivity. simpl. rewrite key_index_s_kv; reflexivity.
    - rewrite subst_seq. destruct sg as [k|j|a]; try reflexivity; simpl.
      + rewrite length_s_els; reflexivity.
      + rewrite anchor_matches_s_els; [reflexivity|].
        intros v Hv; apply Hsub; eapply vnodes_seq_child; [exact Hv | apply vnodes_self].
  Qed.

  Lemma resolve_subst : forall p n, sub_of n -> resolve (Sb n) p = resolve n p.
  Proof.
    induction p as [|sg rest IH]; intros n Hsub; [reflexivity|].
    rewrite !resolve_cons, step_locs_subst by exact Hsub.
    apply flat_map_ext. intro r.
    destruct (child n r) as [c|] eqn:Hc; [|rewrite (child_subst_none n r Hc); reflexivity].
    destruct (is_set n) eqn:Hset.
    - destruct n as [| | |i els]; try discriminate Hset.
      change (Sb (NSet i els)) with (NSet i els). rewrite Hc; reflexivity.
    - destruct (child_subst n r c Hsub Hc) as [E|[E Ec]]; rewrite E.
      + rewrite IH; [reflexivity | eapply sub_of_child; eassumption].
      + subst c. rewrite (resolve_leaf new rest Hnew_leaf), (resolve_leaf yold rest eq_refl); reflexivity.
  Qed.
End Subst.
