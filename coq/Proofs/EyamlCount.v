(* C19: "rotated ONCE", as a count over the encryption log r_log. *)
From Coq Require Import List Ascii String NArith Bool Arith Lia.
From YP Require Import Outcome PyStr PyVal Doc Eyaml C19Spec C19DocSpec C19FilesSpec
                       EyamlProofs EyamlSubst EyamlDoc EyamlFinal.
Import ListNotations.
Open Scope string_scope.
Open Scope list_scope.
Import Ey.

(* ---- set_value leaves seen_anchors, exit_state and the log alone -------------------------------- *)
Lemma set_at_fields : forall st l v f st', set_at st l v f = Ok st' ->
  r_seen st' = r_seen st /\ r_exit st' = r_exit st /\ r_log st' = r_log st.
Proof.
  intros st l v f st' H; unfold set_at in H.
  destruct (lookup (r_doc st) (removelast l)); [|discriminate H].
  destruct (lookup (r_doc st) l) as [[i x| | |]|]; try discriminate H.
  inversion H; repeat split.
Qed.

Lemma set_value_locs_fields : forall ls st v f st', set_value_locs st ls v f = Ok st' ->
  r_seen st' = r_seen st /\ r_exit st' = r_exit st /\ r_log st' = r_log st.
Proof.
  induction ls as [|l r IH]; intros st v f st' H; simpl in H; [inversion H; repeat split|].
  destruct (set_at st l v f) as [s1| |] eqn:E; simpl in H; try discriminate H.
  destruct (IH _ _ _ _ H) as (A & B & C). destruct (set_at_fields _ _ _ _ _ E) as (A' & B' & C').
  repeat split; congruence.
Qed.

Lemma NoDup_app_intro : forall (A : Type) (a b : list A),
  NoDup a -> NoDup b -> (forall x, In x a -> In x b -> False) -> NoDup (a ++ b).
Proof.
  induction a as [|x a IH]; intros b Na Nb H; [exact Nb|].
  inversion Na; subst. simpl. constructor.
  - rewrite in_app_iff. intros [F|F]; [contradiction | apply (H x); [left; reflexivity | exact F]].
  - apply IH; [assumption | exact Nb | intros y Hy; apply H; right; exact Hy].
Qed.

Definition is_none {A} (o : option A) : bool := match o with None => true | Some _ => false end.

Section Count.
  Variable key : Type.
  Variables enc dec : key -> string -> option string.
  Variable layout : out_fmt -> string -> string.
  Variables oldk newk : key.
  Hypothesis dec_enc : forall k p c, enc k p = Some c -> dec k c = Some p.
  Hypothesis dec_other : forall k k' p c, k <> k' -> enc k p = Some c -> dec k' c = None.
  Hypothesis enc_shape : forall k p c, enc k p = Some c -> cipher_ok c = true.
  Hypothesis layout_ok : forall k p c fmt, enc k p = Some c ->
    exists stored, post_encrypt fmt (layout fmt c) = Ok stored /\ clean stored = c.
  Hypothesis keys_differ : oldk <> newk.

  Variables (d0 : node) (next0 : N).

  Notation rot_at := (rotate_at key enc dec layout oldk newk).
  Notation rot_locs := (rotate_locs key enc dec layout oldk newk).
  Notation rot_path := (rotate_path key enc dec layout oldk newk).
  Notation rot_paths := (rotate_paths key enc dec layout oldk newk).
  Notation JJ := (J key dec oldk newk d0 next0).
  Notation LstR := (Lst key dec oldk newk next0).
  Notation DoneR := (Done next0).
  Notation POK := (PathOK d0).

  Definition unanch (vs : list loc) : list loc := filter (fun l => is_none (anchor_at d0 l)) vs.

  Lemma Lst_anchor : forall a b, LstR a b -> anchor_name b = anchor_name a.
  Proof.
    intros a b [_ [_ [->|[_ H]]]]; [reflexivity|].
    destruct H as (i & s & i' & s' & p & -> & -> & Ha & _); exact Ha.
  Qed.

  (* under the guard every plaintext handed to encrypt_eyaml is plain_ok (so the cipher IS called) *)
  Definition log_plain (e : N * string * string) : Prop := plain_ok (snd (fst e)) = true.

  Record StepFacts (st : rstate) (vs : list loc) (st' : rstate) : Prop := mkSF {
    sf_seen : forall a, In a (r_seen st') <-> In a (r_seen st) \/ exists l, In l vs /\ anchor_at d0 l = Some a;
    sf_count : r_exit st' = 0 ->
               List.length (r_log st') + List.length (r_seen st)
               = List.length (r_log st) + List.length (r_seen st') + List.length (unanch vs);
    sf_fresh : plain_guard key dec oldk d0 = true -> r_exit st' = 0 ->
               NoDup (unanch vs) /\ forall l, In l (unanch vs) -> ~ DoneR st l;
    sf_log : Forall (log_ok key enc layout newk) (r_log st) -> Forall (log_ok key enc layout newk) (r_log st');
    sf_plain : plain_guard key dec oldk d0 = true -> Forall log_plain (r_log st) -> Forall log_plain (r_log st')
  }.

  Lemma rotate_at_facts : forall st p l st', JJ st -> POK p -> In l (resolve d0 p) ->
    rot_at st p l = Ok st' -> StepFacts st [l] st'.
  Proof.
    intros st p l st' [HC HS] HP Hl H. unfold rotate_at in H.
    destruct (resolve_lookup p d0 l Hl) as [_ Hnm].
    destruct (HP l Hl) as (i0 & v0 & Hl0 & Hs0).
    destruct (rotated_lookup LstR l d0 (r_doc st) _ Hnm (c_rot _ _ _ _ _ _ _ HC) Hl0) as [y [Hy Hry]].
    simpl in Hry. rewrite Hs0 in Hry.
    assert (Hanc : anchor_name y = anchor_at d0 l).
    { unfold anchor_at; rewrite Hl0. apply (Lst_anchor _ _ Hry). }
    rewrite Hy in H.
    assert (Hyleaf : exists i v, y = NLeaf i v).
    { destruct Hry as [_ [_ [->|[_ Hr]]]]; [exists i0, v0; reflexivity|].
      destruct Hr as (a & s & i' & s' & q & _ & -> & _). exists i', (PStr s'); reflexivity. }
    destruct Hyleaf as (i & v & ->).
    assert (Hplain : plain_guard key dec oldk d0 = true ->
              forall txt, decrypt_eyaml key dec oldk v = Ok (PStr txt) -> plain_ok txt = true).
    { intros G txt Hdv. unfold plain_guard in G. rewrite forallb_forall in G.
      specialize (G (NLeaf i0 v0) (lookup_vnodes l d0 _ Hnm Hl0)). unfold secret_plain_ok in G.
      destruct v0 as [| | | |s0|]; try discriminate Hs0. simpl in Hs0. rewrite Hs0 in G.
      destruct Hry as [_ [_ [E0|[_ Hr]]]].
      - inversion E0; subst. rewrite Hdv in G. exact G.
      - destruct Hr as (ia & s & i' & s' & q & E0 & E1 & _ & _ & Hdq & Hq).
        inversion E0; subst ia s. inversion E1; subst i' v. rewrite Hdq in G.
        destruct (Hq G) as [_ B]. rewrite B in Hdv. discriminate Hdv. }
    assert (Hone : forall a, (exists l', In l' [l] /\ anchor_at d0 l' = Some a) <-> anchor_at d0 l = Some a).
    { intro a; split; [intros [l' [[<-|[]] E]]; exact E | intro E; exists l; split; [left; reflexivity | exact E]]. }
    rewrite Hanc in H.
    destruct (anchor_at d0 l) as [a|] eqn:Ea.
    - (* anchored *)
      assert (Hun : unanch [l] = []) by (unfold unanch; simpl; rewrite Ea; reflexivity).
      destruct (mem_string a (r_seen st)) eqn:Hskip.
      + inversion H; subst st'. constructor.
        * intro b; rewrite Hone. split; [tauto|]. intros [Hb|Hb]; [exact Hb|]. inversion Hb; subst b.
          apply mem_string_true_in; exact Hskip.
        * intros _. rewrite Hun; simpl; lia.
        * intros _ _. rewrite Hun. split; [constructor | intros l' []].
        * tauto.
        * tauto.
      + assert (Hnew : forall sn, sn = r_seen st ++ [a] ->
                  forall b, In b sn <-> In b (r_seen st) \/ exists l', In l' [l] /\ anchor_at d0 l' = Some b).
        { intros sn E b. rewrite E, Hone, in_app_iff. simpl. split.
          - intros [A|[A|[]]]; [left; exact A | right; subst b; reflexivity].
          - intros [A|A]; [left; exact A | right; left; inversion A; reflexivity]. }
        destruct (decrypt_eyaml key dec oldk v) as [pv|e|] eqn:Hd; [| |discriminate H].
        2:{ destruct e; try discriminate H. inversion H; subst st'. constructor; cbn [r_seen r_log r_exit r_doc r_next].
            - apply (Hnew _ eq_refl).
            - intro F; discriminate F.
            - intros _ F; discriminate F.
            - tauto.
            - tauto. }
        destruct pv as [| | | |txt|]; try discriminate H.
        destruct (encrypt_eyaml key enc layout newk txt (if mem_N (oid i) (r_folded st) then OBlock else OString)) as [encval|e|] eqn:He;
          [| |discriminate H].
        2:{ destruct e; try discriminate H. inversion H; subst st'. constructor; cbn [r_seen r_log r_exit r_doc r_next].
            - apply (Hnew _ eq_refl).
            - intro F; discriminate F.
            - intros _ F; discriminate F.
            - tauto.
            - tauto. }
        simpl in H.
        match type of H with (do st2 <- ?X; _) = _ => destruct X as [st2| |] eqn:E end; simpl in H; try discriminate H.
        inversion H; subst st'; clear H.
        destruct (set_value_locs_fields _ _ _ _ _ E) as (F1 & F2 & F3). simpl in F1, F2, F3.
        constructor; cbn [r_seen r_log r_exit r_doc r_next].
        * apply (Hnew _ F1).
        * intros _. rewrite F1, F3, Hun, !app_length. simpl. lia.
        * intros _ _. rewrite Hun. split; [constructor | intros l' []].
        * intro Hf. rewrite F3. apply Forall_app. split; [exact Hf|]. constructor; [|constructor].
          eexists; exact He.
        * intros G Hf. rewrite F3. apply Forall_app. split; [exact Hf|]. constructor; [|constructor].
          exact (Hplain G txt eq_refl).
    - (* no anchor *)
      assert (Hun : unanch [l] = [l]) by (unfold unanch; simpl; rewrite Ea; reflexivity).
      assert (Hsame : forall sn, sn = r_seen st ->
                  forall b, In b sn <-> In b (r_seen st) \/ exists l', In l' [l] /\ anchor_at d0 l' = Some b).
      { intros sn E b. rewrite E, Hone. split; [tauto | intros [A|A]; [exact A | discriminate A]]. }
      (* under the guard a location that already holds an object of the run cannot be visited with success *)
      assert (Hfresh : forall st3, plain_guard key dec oldk d0 = true -> r_exit st3 = 0 ->
                 (decrypt_eyaml key dec oldk v = Raise EyamlExc -> False) ->
                 NoDup (unanch [l]) /\ forall l', In l' (unanch [l]) -> ~ DoneR st l').
      { intros st3 G _ Hnofail. rewrite Hun. split; [constructor; [intros []|constructor]|].
        intros l' [<-|[]] [y' [Hy' Hge]]. rewrite Hy in Hy'. inversion Hy'; subst y'. clear Hy'.
        destruct Hry as [_ [Hlt [E0|[_ Hr]]]].
        - inversion E0; subst. unfold node_oid in Hge, Hlt; simpl in Hge, Hlt. lia.
        - destruct Hr as (ia & s & i' & s' & q & E0 & E1 & _ & _ & Hdq & Hq).
          inversion E0; subst ia v0. inversion E1; subst i' v. clear E0 E1.
          apply Hnofail. apply Hq.
          unfold plain_guard in G. rewrite forallb_forall in G.
          specialize (G (NLeaf i0 (PStr s)) (lookup_vnodes l d0 _ Hnm Hl0)).
          unfold secret_plain_ok in G. simpl in Hs0. rewrite Hs0, Hdq in G. exact G. }
      destruct (decrypt_eyaml key dec oldk v) as [pv|e|] eqn:Hd; [| |discriminate H].
      2:{ destruct e; try discriminate H. inversion H; subst st'. constructor; cbn [r_seen r_log r_exit r_doc r_next].
          - apply (Hsame _ eq_refl).
          - intro F; discriminate F.
          - intros _ F; discriminate F.
          - tauto.
          - tauto. }
      destruct pv as [| | | |txt|]; try discriminate H.
      destruct (encrypt_eyaml key enc layout newk txt (if mem_N (oid i) (r_folded st) then OBlock else OString)) as [encval|e|] eqn:He;
        [| |discriminate H].
      2:{ destruct e; try discriminate H. inversion H; subst st'. constructor; cbn [r_seen r_log r_exit r_doc r_next].
          - apply (Hsame _ eq_refl).
          - intro F; discriminate F.
          - intros _ F; discriminate F.
          - tauto.
          - tauto. }
      simpl in H.
      match type of H with (do st2 <- ?X; _) = _ => destruct X as [st2| |] eqn:E end; simpl in H; try discriminate H.
      inversion H; subst st'; clear H.
      destruct (set_value_locs_fields _ _ _ _ _ E) as (F1 & F2 & F3). simpl in F1, F2, F3.
      constructor; cbn [r_seen r_log r_exit r_doc r_next].
      * apply (Hsame _ F1).
      * intros _. rewrite F1, F3, Hun, !app_length. simpl. lia.
      * intros G Hex. apply (Hfresh st2 G); [exact Hex | intro F; discriminate F].
      * intro Hf. rewrite F3. apply Forall_app. split; [exact Hf|]. constructor; [|constructor].
        eexists; exact He.
      * intros G Hf. rewrite F3. apply Forall_app. split; [exact Hf|]. constructor; [|constructor].
        exact (Hplain G txt eq_refl).
  Qed.

  Lemma unanch_app : forall a b, unanch (a ++ b) = unanch a ++ unanch b.
  Proof. intros; unfold unanch; apply filter_app. Qed.

  Lemma unanch_in : forall vs l, In l (unanch vs) -> In l vs.
  Proof. intros vs l H; unfold unanch in H; apply filter_In in H; tauto. Qed.

  (* two stretches of visits, one after the other *)
  Lemma facts_compose : forall st vs1 s1 vs2 st',
    StepFacts st vs1 s1 -> StepFacts s1 vs2 st' ->
    (r_exit st' = 0 -> r_exit s1 = 0) ->
    (r_exit s1 = 0 -> forall l, In l vs1 -> DoneR s1 l) ->
    (forall l, DoneR st l -> DoneR s1 l) ->
    StepFacts st (vs1 ++ vs2) st'.
  Proof.
    intros st vs1 s1 vs2 st' [A1 B1 C1 D1 P1] [A2 B2 C2 D2 P2] Hex HD HM. constructor.
    - intro a. rewrite A2, A1. split.
      + intros [[X|[l [Hl E]]]|[l [Hl E]]]; [left; exact X | right; exists l; split; [apply in_or_app; left; exact Hl | exact E]
                                             | right; exists l; split; [apply in_or_app; right; exact Hl | exact E]].
      + intros [X|[l [Hl E]]]; [left; left; exact X|]. apply in_app_or in Hl. destruct Hl as [Hl|Hl];
          [left; right; exists l; split; assumption | right; exists l; split; assumption].
    - intro E. specialize (B2 E). specialize (B1 (Hex E)). rewrite unanch_app, app_length. lia.
    - intros G E. destruct (C2 G E) as [N2 F2]. destruct (C1 G (Hex E)) as [N1 F1]. rewrite unanch_app. split.
      + apply NoDup_app_intro; [exact N1 | exact N2|].
        intros l H1 H2. apply (F2 l H2). apply (HD (Hex E)). apply unanch_in; exact H1.
      + intros l Hl Hd. apply in_app_or in Hl. destruct Hl as [Hl|Hl]; [exact (F1 l Hl Hd) | exact (F2 l Hl (HM l Hd))].
    - intro F; apply D2, D1, F.
    - intros G F; apply (P2 G), (P1 G), F.
  Qed.

  Lemma facts_nil : forall st, StepFacts st [] st.
  Proof.
    intro st. constructor.
    - intro a; split; [tauto | intros [H|[l [[] _]]]; exact H].
    - intros _. simpl. lia.
    - intros _ _. split; [constructor | intros l []].
    - tauto.
    - tauto.
  Qed.

  Notation at_J := (rotate_at_J key enc dec layout oldk newk dec_enc dec_other enc_shape layout_ok keys_differ d0 next0).
  Notation locs_J := (rotate_locs_J key enc dec layout oldk newk dec_enc dec_other enc_shape layout_ok keys_differ d0 next0).
  Notation paths_J := (rotate_paths_J key enc dec layout oldk newk dec_enc dec_other enc_shape layout_ok keys_differ d0 next0).

  Lemma rotate_locs_facts : forall ls st p st', JJ st -> POK p -> (forall l, In l ls -> In l (resolve d0 p)) ->
    rot_locs st p ls = Ok st' -> StepFacts st ls st'.
  Proof.
    induction ls as [|l r IH]; intros st p st' HJ HP Hls H; simpl in H.
    - inversion H; subst. apply facts_nil.
    - destruct (rot_at st p l) as [s1| |] eqn:E; simpl in H; try discriminate H.
      pose proof (rotate_at_facts st p l s1 HJ HP (Hls l (or_introl eq_refl)) E) as F1.
      destruct (at_J st p l s1 HJ HP (Hls l (or_introl eq_refl)) E) as (HJ1 & HD1 & HM1 & HE1).
      pose proof (IH s1 p st' HJ1 HP (fun l0 H0 => Hls l0 (or_intror H0)) H) as F2.
      destruct (locs_J r s1 p st' HJ1 HP (fun l0 H0 => Hls l0 (or_intror H0)) H) as (_ & _ & _ & HE2).
      change (l :: r) with ([l] ++ r).
      apply (facts_compose st [l] s1 r st' F1 F2 HE2); [|exact HM1].
      intros Hex l0 [<-|[]]. apply HD1; exact Hex.
  Qed.

  Lemma rotate_paths_facts : forall ps st st', JJ st -> (forall p, In p ps -> POK p) ->
    rot_paths st ps = Ok st' -> StepFacts st (flat_map (resolve d0) ps) st'.
  Proof.
    induction ps as [|p r IH]; intros st st' HJ HP H; simpl in H.
    - inversion H; subst. apply facts_nil.
    - destruct (rot_path st p) as [s1| |] eqn:E; simpl in H; try discriminate H.
      unfold rotate_path in E. rewrite (c_res _ _ _ _ _ _ _ (proj1 HJ) p) in E.
      assert (E' : rot_locs st p (resolve d0 p) = Ok s1)
        by (destruct (resolve d0 p); [discriminate E | exact E]).
      pose proof (rotate_locs_facts _ st p s1 HJ (HP p (or_introl eq_refl)) (fun l H0 => H0) E') as F1.
      destruct (locs_J _ st p s1 HJ (HP p (or_introl eq_refl)) (fun l H0 => H0) E') as (HJ1 & HD1 & HM1 & HE1).
      pose proof (IH s1 st' HJ1 (fun q Hq => HP q (or_intror Hq)) H) as F2.
      destruct (paths_J r s1 st' HJ1 (fun q Hq => HP q (or_intror Hq)) H) as (_ & _ & _ & HE2).
      simpl flat_map.
      apply (facts_compose st _ s1 _ st' F1 F2 HE2); [|exact HM1].
      intros Hex l0 Hl0. apply HD1; assumption.
  Qed.
End Count.

(* ---- value positions: no position twice; what a discovered path resolves to is a position ------- *)
Lemma positions_not_nil : forall n, ~ In [] (positions n).
Proof.
  intros [i v|i kvs|i els|i els] H; try (destruct H; fail).
  - simpl in H. apply in_flat_map in H. destruct H as [kv [_ [H|H]]]; [discriminate H|].
    apply in_map_iff in H. destruct H as [t [H _]]; discriminate H.
  - rewrite positions_seq in H. destruct (pos_els_in _ _ _ H) as (j & e & _ & [E|[t [E _]]]); discriminate E.
Qed.

Lemma nodup_map_cons : forall (r : ref) (L : list loc), NoDup L -> NoDup (map (cons r) L).
Proof.
  induction L as [|x L IH]; intro H; [constructor|]. inversion H; subst. simpl. constructor; [|apply IH; assumption].
  intro F. apply in_map_iff in F. destruct F as [y [E Hy]]. inversion E; subst y. contradiction.
Qed.

Lemma pos_els_intro : forall suf idx j e, nth_error suf j = Some e ->
  In [RIdx (idx + j)] (pos_els suf idx) /\ forall t, In t (positions e) -> In (RIdx (idx + j) :: t) (pos_els suf idx).
Proof.
  induction suf as [|e0 r IH]; intros idx j e Hj; [destruct j; discriminate Hj|].
  destruct j as [|j]; simpl in Hj.
  - inversion Hj; subst e0. rewrite Nat.add_0_r. split.
    + simpl. left; reflexivity.
    + intros t Ht. simpl. right. apply in_or_app; left. apply in_map; exact Ht.
  - destruct (IH (S idx) j e Hj) as [A B]. rewrite Nat.add_succ_r, <- Nat.add_succ_l. split.
    + simpl. right. apply in_or_app; right. exact A.
    + intros t Ht. simpl. right. apply in_or_app; right. apply B; exact Ht.
Qed.

Lemma key_index_in : forall k kvs k', key_index k kvs = Some k' ->
  exists kn v, In (kn, v) kvs /\ key_val kn = k'.
Proof.
  induction kvs as [|[kn v] r IH]; intros k' H; [discriminate H|].
  simpl in H. destruct (py_eq (key_val kn) k).
  - inversion H. exists kn, v. split; [left; reflexivity | reflexivity].
  - destruct (IH k' H) as (kn' & v' & Hin & E). exists kn', v'. split; [right; exact Hin | exact E].
Qed.

Section Positions.
  Variable d : node.
  Hypothesis HK : keys_ok d.

  Notation sub n := (forall x, In x (vnodes n) -> In x (vnodes d)).

  Lemma resolve_in_positions : forall p n, sub n -> forall l, In l (resolve n p) -> l = [] \/ In l (positions n).
  Proof.
    induction p as [|sg rest IH]; intros n Hsub l Hl.
    - simpl in Hl. destruct Hl as [<-|[]]. left; reflexivity.
    - right. destruct (in_resolve_cons _ _ _ _ Hl) as (r & c & t & Hr & Hc & -> & Ht).
      destruct n as [i v|i kvs|i els|i els]; destruct sg as [k|j|a]; simpl in Hr; try (destruct Hr; fail).
      + (* hash, key *)
        destruct (key_index k kvs) as [k'|] eqn:Hk; [|destruct Hr]. destruct Hr as [<-|[]].
        destruct (key_index_in _ _ _ Hk) as (kn & v & Hin & Ekn).
        assert (HKl : keys_ok_list kvs) by (apply (HK i kvs); apply Hsub; apply vnodes_self).
        destruct (keys_ok_entry kvs HKl kn v Hin) as [Ha _]. rewrite Ekn in Ha.
        simpl in Hc. rewrite Ha in Hc. inversion Hc; subst c.
        assert (Hsubv : sub v) by (intros x Hx; apply Hsub; eapply vnodes_map_child; eassumption).
        simpl. apply in_flat_map. exists (kn, v). split; [exact Hin|]. simpl. rewrite Ekn.
        destruct (IH v Hsubv t Ht) as [->|Hp]; [left; reflexivity | right; apply in_map; exact Hp].
      + (* list, index *)
        destruct (Nat.ltb j (List.length els)); [|destruct Hr]. destruct Hr as [<-|[]].
        simpl in Hc. rewrite positions_seq.
        assert (Hsubc : sub c) by (intros x Hx; apply Hsub; eapply vnodes_seq_child; [eapply nth_error_In; exact Hc | exact Hx]).
        destruct (pos_els_intro els 0 j c Hc) as [A B]. simpl in A, B.
        destruct (IH c Hsubc t Ht) as [->|Hp]; [exact A | apply B; exact Hp].
      + (* list, anchor *)
        apply in_map_iff in Hr. destruct Hr as [j [<- Hj]].
        simpl in Hc. rewrite positions_seq.
        assert (Hsubc : sub c) by (intros x Hx; apply Hsub; eapply vnodes_seq_child; [eapply nth_error_In; exact Hc | exact Hx]).
        destruct (pos_els_intro els 0 j c Hc) as [A B]. simpl in A, B.
        destruct (IH c Hsubc t Ht) as [->|Hp]; [exact A | apply B; exact Hp].
  Qed.

  Definition pos_kv (kv : node * node) : list loc :=
    [RKey (key_val (fst kv))] :: map (cons (RKey (key_val (fst kv)))) (positions (snd kv)).

  Lemma pos_kv_head : forall kv l, In l (pos_kv kv) -> exists t, l = RKey (key_val (fst kv)) :: t.
  Proof.
    intros kv l [<-|H]; [eexists; reflexivity|]. apply in_map_iff in H. destruct H as [t [<- _]]. eexists; reflexivity.
  Qed.

  Lemma pos_els_head : forall suf idx l, In l (pos_els suf idx) -> exists j t, l = RIdx (idx + j) :: t.
  Proof.
    intros suf idx l H. destruct (pos_els_in _ _ _ H) as (j & e & _ & [E|[t [E _]]]); subst l; do 2 eexists; reflexivity.
  Qed.

  Lemma positions_nodup : forall n, sub n -> NoDup (positions n).
  Proof.
    induction n as [i v | i kvs IH | i els IH | i els IH] using node_ind'; intro Hsub; try constructor.
    - (* hash *)
      assert (HKl : keys_ok_list kvs) by (apply (HK i kvs); apply Hsub; apply vnodes_self).
      assert (Hsubv : forall k v, In (k, v) kvs -> sub v)
        by (intros k v Hin x Hx; apply Hsub; eapply vnodes_map_child; eassumption).
      change (positions (NMap i kvs)) with (flat_map pos_kv kvs).
      clear Hsub. induction kvs as [|[k v] r IHr]; [constructor|].
      simpl in HKl. destruct HKl as [(ik & kv & -> & Hrefl & Hall) HKr].
      pose proof (Forall_inv IH) as [_ IHv]; pose proof (Forall_inv_tail IH) as IHrest. simpl in IHv.
      change (flat_map pos_kv ((NLeaf ik kv, v) :: r)) with (pos_kv (NLeaf ik kv, v) ++ flat_map pos_kv r).
      apply NoDup_app_intro.
      + unfold pos_kv; simpl fst; simpl snd. simpl key_val. constructor.
        * intro F. apply in_map_iff in F. destruct F as [t [E Ht]]. inversion E; subst t.
          exact (positions_not_nil v Ht).
        * apply nodup_map_cons. apply IHv. apply (Hsubv _ _ (or_introl eq_refl)).
      + apply IHr; [exact IHrest | exact HKr | intros k' v' H'; apply (Hsubv k' v'); right; exact H'].
      + intros l H1 H2. destruct (pos_kv_head _ _ H1) as [t1 E1]. simpl in E1.
        apply in_flat_map in H2. destruct H2 as [kv2 [Hin2 H2]]. destruct (pos_kv_head _ _ H2) as [t2 E2].
        rewrite E1 in E2. inversion E2 as [Ek].
        rewrite Forall_forall in Hall. destruct (Hall kv2 Hin2) as [A _]. rewrite <- Ek, Hrefl in A. discriminate A.
    - (* list *)
      assert (Hsube : forall e, In e els -> sub e)
        by (intros e Hin x Hx; apply Hsub; eapply vnodes_seq_child; eassumption).
      rewrite positions_seq. clear Hsub. generalize 0 as idx.
      induction els as [|e r IHr]; intro idx; [constructor|].
      pose proof (Forall_inv IH) as IHe; pose proof (Forall_inv_tail IH) as IHrest.
      change (pos_els (e :: r) idx) with (([RIdx idx] :: map (cons (RIdx idx)) (positions e)) ++ pos_els r (S idx)).
      apply NoDup_app_intro.
      + constructor.
        * intro F. apply in_map_iff in F. destruct F as [t [E Ht]]. inversion E; subst t. exact (positions_not_nil e Ht).
        * apply nodup_map_cons. apply IHe. apply Hsube; left; reflexivity.
      + apply IHr; [exact IHrest | intros e' H'; apply Hsube; right; exact H'].
      + intros l H1 H2. destruct (pos_els_head _ _ _ H2) as (j & t2 & E2).
        destruct H1 as [<-|H1]; [inversion E2; lia|].
        apply in_map_iff in H1. destruct H1 as [t1 [<- _]]. inversion E2; lia.
  Qed.
End Positions.

(* ---- the whole file -------------------------------------------------------------------------- *)
Section CountStatements.
  Variable key : Type.
  Variables enc dec : key -> string -> option string.
  Variable layout : out_fmt -> string -> string.
  Variables oldk newk : key.
  Hypothesis laws : cipher_laws key enc dec layout.
  Hypothesis keys_differ : oldk <> newk.
  Variables (d : node) (next : N) (folded : list N) (st : rstate).
  Hypothesis Hdoc : loaded_doc d next.
  Hypothesis Hrun : rotate_file key enc dec layout oldk newk d next folded = Ok st.

  Let l1 := proj1 laws.
  Let l2 := proj1 (proj2 laws).
  Let l3 := proj1 (proj2 (proj2 laws)).
  Let l4 := proj2 (proj2 (proj2 laws)).
  Let hI := proj1 Hdoc.
  Let hK := proj1 (proj2 Hdoc).
  Let hR := proj2 (proj2 Hdoc).

  Definition visits : list loc := flat_map (resolve d) (find_eyaml_paths d).

  Lemma run_facts : StepFacts key enc dec layout oldk newk d next (mkrs d [] false 0 next folded []) visits st.
  Proof.
    unfold rotate_file, rotate_file_from in Hrun.
    exact (rotate_paths_facts key enc dec layout oldk newk l1 l2 l3 l4 keys_differ d next
             (find_eyaml_paths d) _ st (initial_J key dec oldk newk d next folded 0 hI hR)
             (found_paths_ok d next hI hK) Hrun).
  Qed.

  Lemma visit_is_secret_position : forall l, In l visits <-> In l (secret_positions d).
  Proof.
    intro l. unfold visits, secret_positions. rewrite filter_In, in_flat_map. split.
    - intros [p [Hp Hl]].
      destruct (found_paths_ok d next hI hK p Hp l Hl) as (i & v & Hlk & Hs).
      split.
      + destruct (resolve_in_positions d hK p d (fun x H => H) l Hl) as [->|H]; [|exact H].
        simpl in Hlk. inversion Hlk as [E]. pose proof hR as R. rewrite E in R. discriminate R.
      + unfold secret_at. rewrite Hlk. exact Hs.
    - intros [Hl Hs]. unfold secret_at in Hs. destruct (lookup d l) as [x|] eqn:Hx; [|discriminate Hs].
      destruct (find_paths_complete d hK d (fun z Hz => Hz) [] l x Hl Hx Hs) as [q [Hq Hr]].
      exists q. split; [exact Hq | exact Hr].
  Qed.

  (* seen_anchors at the end of the file: exactly the Anchor names of its secrets, each once *)
  Lemma stmt_seen_exact :
    NoDup (r_seen st) /\
    forall a, In a (r_seen st) <-> exists l, In l (secret_positions d) /\ anchor_at d l = Some a.
  Proof.
    split; [eapply seen_anchors_nodup; exact Hrun|].
    intro a. rewrite (sf_seen _ _ _ _ _ _ _ _ _ _ _ run_facts a). simpl. split.
    - intros [[]|[l [Hl E]]]. exists l. split; [apply visit_is_secret_position; exact Hl | exact E].
    - intros [l [Hl E]]. right. exists l. split; [apply visit_is_secret_position; exact Hl | exact E].
  Qed.

  Lemma stmt_log_calls : Forall (log_ok key enc layout newk) (r_log st).
  Proof. apply (sf_log _ _ _ _ _ _ _ _ _ _ _ run_facts). constructor. Qed.

  (* under the guard every logged call reached the cipher: its plaintext does not carry the marker *)
  Lemma stmt_log_cipher_calls : plain_guard key dec oldk d = true ->
    Forall (fun e : N * string * string =>
              plain_ok (snd (fst e)) = true /\ exists c, enc newk (snd (fst e)) = Some c) (r_log st).
  Proof.
    intro G. pose proof stmt_log_calls as A.
    pose proof (sf_plain _ _ _ _ _ _ _ _ _ _ _ run_facts G (Forall_nil _)) as B.
    rewrite Forall_forall in A, B |- *. intros e He. specialize (A e He). specialize (B e He).
    split; [exact B|]. destruct A as [fmt Hf]. unfold log_plain in B.
    destruct (plain_ok_parts _ B) as (_ & Hpa & _ & Hpe).
    unfold encrypt_eyaml in Hf. rewrite Hpe, Hpa in Hf. simpl in Hf.
    destruct (enc newk (snd (fst e))) as [c|]; [exists c; reflexivity | discriminate Hf].
  Qed.

  Lemma unanch_visits_incl : forall l, In l (unanchored_secret_positions d) -> In l (unanch d visits).
  Proof.
    intros l H. unfold unanchored_secret_positions in H. apply filter_In in H. destruct H as [H1 H2].
    unfold unanch. apply filter_In. split; [apply visit_is_secret_position; exact H1|].
    destruct (anchor_at d l); [discriminate H2 | reflexivity].
  Qed.

  Lemma unanch_visits_incl_rev : forall l, In l (unanch d visits) -> In l (unanchored_secret_positions d).
  Proof.
    intros l H. unfold unanch in H. apply filter_In in H. destruct H as [H1 H2].
    unfold unanchored_secret_positions. apply filter_In. split; [apply visit_is_secret_position; exact H1|].
    destruct (anchor_at d l); [discriminate H2 | reflexivity].
  Qed.

  Lemma unanchored_positions_nodup : NoDup (unanchored_secret_positions d).
  Proof.
    unfold unanchored_secret_positions, secret_positions. do 2 apply NoDup_filter.
    apply (positions_nodup d hK d (fun x H => H)).
  Qed.

  Lemma count_visits : r_exit st = 0 ->
    List.length (r_log st) = List.length (r_seen st) + List.length (unanch d visits).
  Proof.
    intro Hex. pose proof (sf_count _ _ _ _ _ _ _ _ _ _ _ run_facts Hex) as H. simpl in H. lia.
  Qed.

  (* full strength, no guard: at least one encryption per Anchor name and per unanchored secret position *)
  Lemma stmt_encrypt_calls_at_least : r_exit st = 0 ->
    List.length (r_seen st) + List.length (unanchored_secret_positions d) <= List.length (r_log st).
  Proof.
    intro Hex. rewrite (count_visits Hex). apply Nat.add_le_mono_l.
    apply NoDup_incl_length; [exact unanchored_positions_nodup | exact unanch_visits_incl].
  Qed.

  (* under the F19a guard: exactly one *)
  Lemma stmt_encrypt_calls : r_exit st = 0 -> plain_guard key dec oldk d = true ->
    List.length (r_log st) = List.length (r_seen st) + List.length (unanchored_secret_positions d).
  Proof.
    intros Hex G. rewrite (count_visits Hex). f_equal.
    destruct (sf_fresh _ _ _ _ _ _ _ _ _ _ _ run_facts G Hex) as [Nd _].
    apply Nat.le_antisymm.
    - apply NoDup_incl_length; [exact Nd | exact unanch_visits_incl_rev].
    - apply NoDup_incl_length; [exact unanchored_positions_nodup | exact unanch_visits_incl].
  Qed.

  Lemma somes_in : forall (A B : Type) (f : A -> option B) (L : list A) (b : B),
    In b (somes (map f L)) <-> exists x, In x L /\ f x = Some b.
  Proof.
    induction L as [|x L IH]; intro b; simpl; [split; [intros [] | intros [x [[] _]]]|].
    destruct (f x) as [b0|] eqn:E; simpl; rewrite IH; split.
    - intros [<-|[y [Hy Ey]]]; [exists x; split; [left; reflexivity | exact E] | exists y; split; [right; exact Hy | exact Ey]].
    - intros [y [[<-|Hy] Ey]]; [left; rewrite E in Ey; inversion Ey; reflexivity | right; exists y; split; assumption].
    - intros [y [Hy Ey]]; exists y; split; [right; exact Hy | exact Ey].
    - intros [y [[<-|Hy] Ey]]; [rewrite E in Ey; discriminate Ey | exists y; split; assumption].
  Qed.

  Lemma seen_length : List.length (r_seen st) = List.length (secret_anchor_names d).
  Proof.
    destruct stmt_seen_exact as [Nd Hin]. unfold secret_anchor_names. apply Nat.le_antisymm.
    - apply NoDup_incl_length; [exact Nd|]. intros a Ha. apply nodup_In. apply somes_in. apply Hin; exact Ha.
    - apply NoDup_incl_length; [apply NoDup_nodup|]. intros a Ha. apply nodup_In in Ha. apply somes_in in Ha. apply Hin; exact Ha.
  Qed.

  Lemma stmt_encrypt_calls_expected : r_exit st = 0 -> plain_guard key dec oldk d = true ->
    List.length (r_log st) = expected_encryptions d.
  Proof. intros Hex G. unfold expected_encryptions. rewrite <- seen_length. apply stmt_encrypt_calls; assumption. Qed.

  Lemma stmt_encrypt_calls_expected_at_least : r_exit st = 0 -> expected_encryptions d <= List.length (r_log st).
  Proof. intro Hex. unfold expected_encryptions. rewrite <- seen_length. apply stmt_encrypt_calls_at_least; exact Hex. Qed.
End CountStatements.
