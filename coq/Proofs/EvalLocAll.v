(* C02 for every handler of the C01 fragment: every real result of the
   required query names its parent, a reference leading from that parent to the
   node, and an ancestry chain that walks from the document root to the node. *)
From Coq Require Import List Ascii String ZArith NArith Bool Arith Lia.
From YP Require Import Outcome PyStr PyVal Doc Generated PathParser PathPrinter Searches Eval SpecC01 SpecC15
  EvalSem EvalSemLib EvalSemSeg EvalSemPath EvalGood EvalHandlers EvalTotal RtInt.
Import ListNotations.
Open Scope string_scope.
Open Scope nat_scope.

(* indexing the parent by the reference gives the node: a hash pair whose key
   is (equal to) the reference, the element at that position counted from the
   front or -- negative -- from the end, a member of the set *)
Definition child_rel (p : node) (r : pyval) (m : node) : Prop :=
  match p with
  | NMap _ kvs => exists kv, In kv kvs /\ snd kv = m /\ (key_val (fst kv) = r \/ py_eq (key_val (fst kv)) r = true)
  | NSeq _ els => exists z, r = PInt z /\ sel_element els z = [m]
  | NSet _ els => In m els
  | NLeaf _ _ => False
  end.

(* the ancestry chain walks from the root: each link a child step *)
Inductive walks (d : node) : list (rval * pyval) -> node -> Prop :=
  | walks_root : walks d [] d
  | walks_step anc p r m : walks d anc p -> child_rel p r m -> walks d (anc ++ [(RNode p, r)]) m.

Definition node_located (d m : node) (par : option rval) (rf : option pyval) (anc : list (rval * pyval)) : Prop :=
  walks d anc m /\
  match par, rf with
  | None, None => anc = []
  | Some (RNode p), Some r => child_rel p r m /\ exists anc' r', anc = (anc' ++ [(RNode p, r')])%list
  | _, _ => False
  end.
Definition ctx_loc (d m : node) (c : ctx) : Prop := node_located d m (x_par c) (x_ref c) (x_anc c).
(* av: may the stream yield virtual results (array slices: they designate no single node) *)
Definition res_loc (av : bool) (d : node) (x : rval) : Prop :=
  match x with
  | RCoords (RNode m) par rf _ anc => node_located d m par rf anc
  | RCoords (RList _) _ _ _ _ => av = true
  | _ => False
  end.

Definition gall (P : rval -> Prop) (g : gen rval) : Prop := Forall P (fst g).

Lemma gall_gnil (P : rval -> Prop) : gall P gnil. Proof. constructor. Qed.
Lemma gall_gerr (P : rval -> Prop) e : gall P (gerr e). Proof. constructor. Qed.
Lemma gall_gone (P : rval -> Prop) x : P x -> gall P (gone x). Proof. intros H. repeat constructor. exact H. Qed.
Lemma gall_gapp (P : rval -> Prop) a b : gall P a -> gall P (b tt) -> gall P (gapp a b).
Proof.
  unfold gall. intros Ha Hb. destruct a as [l []]; cbn in *; auto.
  destruct (b tt) as [l2 s2]. cbn in *. apply Forall_app. split; assumption.
Qed.
Lemma gall_gfor {A} (P : rval -> Prop) (l : list A) f : (forall x, In x l -> gall P (f x)) -> gall P (gfor l f).
Proof.
  induction l as [|x r IH]; intros H; cbn; [apply gall_gnil|].
  apply gall_gapp; [apply H; left; reflexivity | apply IH; intros; apply H; right; assumption].
Qed.
Lemma gall_gbind (P Q : rval -> Prop) (g : gen rval) K : gall P g -> (forall x, P x -> gall Q (K x)) -> gall Q (gbind g K).
Proof.
  intros Hg HK. unfold gbind.
  assert (H : gall Q (gfor (fst g) K)).
  { apply gall_gfor. intros x Hx. apply HK. unfold gall in Hg. rewrite Forall_forall in Hg. auto. }
  unfold gall in *. destruct (gfor (fst g) K) as [l2 []]; exact H.
Qed.
Lemma gall_glift {A} (P : rval -> Prop) (o : outcome A) k : (forall a, gall P (k a)) -> gall P (glift o k).
Proof. intros H. destruct o; cbn; auto; constructor. Qed.
Lemma gall_gfirst {A} (P : rval -> Prop) (g : gen A) k : (forall o, gall P (k o)) -> gall P (gfirst g k).
Proof. intros H. destruct g as [[|x l] s]; cbn; auto. destruct s; auto; constructor. Qed.

(* ---- children ---- *)
Lemma assoc_key_child i kvs r m : assoc_key r kvs = Some m -> child_rel (NMap i kvs) r m.
Proof.
  induction kvs as [|[kn v] rest IH]; intros H; cbn in H; [discriminate|].
  destruct kn as [ik kv| | |].
  - destruct (py_eq kv r) eqn:E.
    + injection H as <-. exists (NLeaf ik kv, v). cbn. auto.
    + destruct (IH H) as [x [H1 H2]]. exists x. cbn. auto.
  - destruct (IH H) as [x [H1 H2]]. exists x. cbn. auto.
  - destruct (IH H) as [x [H1 H2]]. exists x. cbn. auto.
  - destruct (IH H) as [x [H1 H2]]. exists x. cbn. auto.
Qed.

Lemma pair_child i kvs kv : In kv kvs -> child_rel (NMap i kvs) (key_val (fst kv)) (snd kv).
Proof. intros H. exists kv. auto. Qed.

Lemma sel_element_nat (els : list node) k e : nth_error els k = Some e -> sel_element els (Z.of_nat k) = [e].
Proof.
  intros H. unfold sel_element.
  assert (Hk : k < List.length els) by (apply nth_error_Some; rewrite H; discriminate).
  assert (E0 : (Z.of_nat k <? 0)%Z = false) by (apply Z.ltb_ge; lia). rewrite E0.
  assert (E1 : (- Z.of_nat (List.length els) <=? Z.of_nat k)%Z = true) by (apply Z.leb_le; lia).
  assert (E2 : (Z.of_nat k <? Z.of_nat (List.length els))%Z = true) by (apply Z.ltb_lt; lia).
  rewrite E1, E2. cbn [andb]. rewrite Nat2Z.id, H. reflexivity.
Qed.

Lemma in_enum_nth (els : list node) : forall k j x, In (j, x) (enumerate_from k (map RNode els)) ->
  exists e, x = RNode e /\ nth_error els (j - k) = Some e /\ k <= j.
Proof.
  induction els as [|e r IH]; intros k j x H; cbn in H; [contradiction|].
  destruct H as [H|H].
  - injection H as <- <-. exists e. rewrite Nat.sub_diag. auto.
  - destruct (IH (S k) j x H) as [e' [H1 [H2 H3]]]. exists e'. split; [exact H1|]. split; [|lia].
    replace (j - k) with (S (j - S k)) by lia. exact H2.
Qed.

Lemma enum_child i els j x : In (j, x) (enumerate (map RNode els)) ->
  exists e, x = RNode e /\ child_rel (NSeq i els) (PInt (Z.of_nat j)) e.
Proof.
  intros H. destruct (in_enum_nth els 0 j x H) as [e [H1 [H2 _]]]. rewrite Nat.sub_0_r in H2.
  exists e. split; [exact H1|]. exists (Z.of_nat j). split; [reflexivity | apply sel_element_nat; exact H2].
Qed.

(* one more link *)
Lemma step_loc2 d n c r r' m :
  ctx_loc d n c -> child_rel n r m -> child_rel n r' m ->
  node_located d m (Some (RNode n)) (Some r) (x_anc c ++ [(RNode n, r')]).
Proof.
  intros [Hw _] H1 H2. split; [apply walks_step; assumption|]. split; [exact H1|]. eauto.
Qed.
Lemma step_loc d n c r m :
  ctx_loc d n c -> child_rel n r m -> node_located d m (Some (RNode n)) (Some r) (x_anc c ++ [(RNode n, r)]).
Proof. intros. apply step_loc2; assumption. Qed.

Section Loc.
Variable lit : string -> outcome litres.
Variable re_search : string -> string -> outcome reres.
Variable nstr : node -> string.
Variable vstr : list rval -> string.
Variable kw_handler : bool -> keyword -> string -> rval -> ctx -> gen rval.
Variable creator : list pseg -> nat -> rval -> ctx -> gen rval.
Variable d : node.
Variable av : bool.

Notation EV := (ev lit re_search nstr vstr kw_handler creator).
Notation RL := (res_loc av d).

Ltac gstep :=
  match goal with
  | |- gall _ gnil => apply gall_gnil
  | |- gall _ (gerr _) => apply gall_gerr
  | |- gall _ (gfor _ _) => apply gall_gfor; intros
  | |- gall _ (gapp _ _) => apply gall_gapp
  | |- gall _ (glift _ _) => apply gall_glift; intros
  | |- gall _ (gfirst _ _) => apply gall_gfirst; intros
  | |- gall _ (if ?b then _ else _) => destruct b eqn:?
  | |- gall _ (match ?x with _ => _ end) => destruct x eqn:?
  | |- gall _ (let '(_, _) := ?x in _) => destruct x eqn:?
  end.

Ltac enum_tac i els :=
  match goal with
  | H : In (_, _) (enumerate (map RNode els)) |- _ =>
      let e := fresh "e" in let He := fresh "He" in let Hc := fresh "Hc" in
      destruct (enum_child i els _ _ H) as [e [He Hc]]; subst
  end.

Lemma find_in {A} (p : A -> bool) l x : find p l = Some x -> In x l.
Proof. intros H. apply find_some in H. apply H. Qed.

Lemma by_key_loc self k n c :
  ctx_loc d n c ->
  (forall e c', ctx_loc d e c' -> gall RL (self (RNode e) c')) ->
  gall RL (by_key self (AStr k) (RNode n) c).
Proof.
  intros Hc Hself. unfold by_key. cbn [attrs_str attr_val].
  destruct n as [i x|i kvs|i els|i els].
  - apply gall_gnil.
  - destruct (assoc_key (PStr k) kvs) eqn:E1.
    + apply gall_gone. apply step_loc; [exact Hc | apply assoc_key_child; exact E1].
    + destruct (py_int k); [|apply gall_gnil].
      destruct (assoc_key (PInt z) kvs) eqn:E2; [|apply gall_gnil].
      apply gall_gone. apply step_loc; [exact Hc | apply assoc_key_child; exact E2].
  - cbn [elems]. rewrite map_length.
    destruct (py_int k) as [idx|].
    + destruct ((- Z.of_nat (List.length els) <=? idx)%Z && (idx <? Z.of_nat (List.length els))%Z)%bool eqn:Eb;
        [|apply gall_gnil].
      destruct (py_nth_sel els idx Eb) as [e [-> Hs]]. cbn. apply gall_gone.
      apply step_loc; [exact Hc|]. exists idx. auto.
    + destruct (negb (x_tl c)); [apply gall_gnil|].
      apply gall_gfor. intros [j x] Hin. enum_tac i els.
      apply Hself. apply step_loc; assumption.
  - destruct (find _ els) eqn:Ef; [|apply gall_gnil].
    apply gall_gone. apply find_in in Ef. apply step_loc2; [exact Hc | exact Ef | exact Ef].
Qed.

Lemma by_index_loc a n c :
  (str_in ":"%char (attrs_str a) = true -> av = true) ->
  ctx_loc d n c -> gall RL (by_index a (RNode n) c).
Proof.
  intros Hav Hc. unfold by_index.
  destruct (str_in ":"%char (attrs_str a)).
  - destruct (split_colon (attrs_str a)) as [lo hi].
    destruct n as [i x|i kvs|i els|i els].
    + apply gall_gnil.
    + apply gall_gfor. intros kv Hkv. destruct (_ && _); [|apply gall_gnil].
      apply gall_gone. apply step_loc; [exact Hc | apply pair_child; exact Hkv].
    + cbn [elems]. repeat gstep; apply gall_gone; apply Hav; reflexivity.
    + apply gall_gfor. intros e He. destruct (_ && _); [|apply gall_gnil].
      apply gall_gone. apply step_loc; [exact Hc | exact He].
  - destruct (py_int (attrs_str a)) as [idx|]; [|apply gall_gerr].
    destruct n as [i x|i kvs|i els|i els]; cbn [is_pylist]; try apply gall_gnil; try apply gall_gerr.
    cbn [elems]. rewrite map_length.
    destruct ((- Z.of_nat (List.length els) <=? idx)%Z && (idx <? Z.of_nat (List.length els))%Z)%bool eqn:Eb;
      [|apply gall_gnil].
    destruct (py_nth_sel els idx Eb) as [e [-> Hs]]. cbn. apply gall_gone.
    apply step_loc; [exact Hc|]. exists idx. auto.
Qed.

Lemma by_anchor_loc a n c : ctx_loc d n c -> gall RL (by_anchor a (RNode n) c).
Proof.
  intros Hc. unfold by_anchor.
  destruct n as [i x|i kvs|i els|i els].
  - apply gall_gnil.
  - apply gall_gfor. intros kv Hkv. destruct (_ || _); [|apply gall_gnil].
    apply gall_gone. apply step_loc; [exact Hc | apply pair_child; exact Hkv].
  - cbn [elems]. apply gall_gfor. intros [j x] Hin. enum_tac i els.
    destruct (anchor_is _ _); [|apply gall_gnil]. apply gall_gone. apply step_loc; assumption.
  - apply gall_gfor. intros e He. destruct (node_anchor_is _ _); [|apply gall_gnil].
    apply gall_gone. apply step_loc; [exact Hc | exact He].
Qed.

Lemma match_all_unfiltered_loc n c : ctx_loc d n c -> gall RL (match_all_unfiltered (RNode n) c).
Proof.
  intros Hc. unfold match_all_unfiltered.
  destruct n as [i x|i kvs|i els|i els].
  - apply gall_gnil.
  - apply gall_gfor. intros kv Hkv. apply gall_gone. apply step_loc; [exact Hc | apply pair_child; exact Hkv].
  - cbn [elems]. apply gall_gfor. intros [j x] Hin. enum_tac i els. apply gall_gone. apply step_loc; assumption.
  - apply gall_gfor. intros e He. apply gall_gone. apply step_loc; [exact Hc | exact He].
Qed.

Lemma match_all_filtered_loc sg n c : ctx_loc d n c -> gall RL (match_all_filtered sg (RNode n) c).
Proof.
  intros Hc. unfold match_all_filtered.
  destruct n as [i x|i kvs|i els|i els].
  - apply gall_gnil.
  - apply gall_gfor. intros kv Hkv. apply gall_gfirst. intros [o|]; [|apply gall_gnil].
    apply gall_gone. apply step_loc; [exact Hc | apply pair_child; exact Hkv].
  - cbn [elems]. apply gall_gfor. intros [j x] Hin. enum_tac i els.
    apply gall_gfirst. intros [o|]; [|apply gall_gnil]. apply gall_gone. apply step_loc; assumption.
  - apply gall_gfor. intros e He. apply gall_gfirst. intros [o|]; [|apply gall_gnil].
    apply gall_gone. apply step_loc; [exact Hc | exact He].
Qed.

Lemma hash_desc_scan_loc m term inv items st matches k :
  (forall b, gall RL (k b)) -> gall RL (hash_desc_scan lit re_search nstr vstr m term inv items st matches k).
Proof.
  intros Hk. revert matches. induction items as [|x r IH]; intros matches; cbn.
  - destruct st; auto; constructor.
  - repeat gstep; auto.
Qed.

Lemma by_search_loc rq inv m attr term n c :
  ctx_loc d n c -> gall RL (by_search lit re_search nstr vstr rq inv m attr term (RNode n) c).
Proof.
  intros Hc. unfold by_search.
  assert (Hself : gall RL (gone (ncoords (RNode n) (x_par c) (x_ref c) (x_tp c) (x_anc c)))).
  { apply gall_gone. exact Hc. }
  destruct n as [i x|i kvs|i els|i els].
  - repeat gstep; auto.
  - destruct (String.eqb attr ".").
    + apply gall_gfor. intros kv Hkv. repeat gstep.
      apply gall_gone. apply step_loc; [exact Hc | apply pair_child; exact Hkv].
    + destruct (assoc_key (PStr attr) kvs) eqn:E1.
      * repeat gstep. apply gall_gone. apply step_loc; [exact Hc | apply assoc_key_child; exact E1].
      * apply hash_desc_scan_loc. intros b. repeat gstep; auto.
  - destruct (negb (x_tl c)); [apply gall_gnil|]. cbn [elems].
    apply gall_gfor. intros [j x] Hin. enum_tac i els.
    repeat gstep; apply gall_gone; apply step_loc; assumption.
  - apply gall_gfor. intros e He. repeat gstep.
    apply gall_gone. apply step_loc; [exact Hc | exact He].
Qed.

Lemma trav_loc sg last : forall tf n c, ctx_loc d n c -> gall RL (trav tf last sg (RNode n) c).
Proof.
  induction tf as [|tf IH]; intros n c Hc; [apply gall_gnil|].
  cbn [trav].
  assert (Hkids : gall RL
    (match n with
     | NMap _ kvs =>
         gfor kvs (fun kv => trav tf last sg (RNode (snd kv))
                               (mkctx (Some (RNode n)) (Some (key_val (fst kv))) (x_tl c)
                                      (tp_add (x_tp c) (esc_sec (py_str (key_val (fst kv))) (x_tp c)))
                                      (x_anc c ++ [(RNode n, key_val (fst kv))])))
     | NSeq _ els =>
         gfor (enumerate (map RNode els))
           (fun ie => let '(i, e) := ie in
                      trav tf last sg e (mkctx (Some (RNode n)) (Some (PInt (Z.of_nat i))) (x_tl c)
                                               (tp_add (x_tp c) (idx_text (Z.of_nat i)))
                                               (x_anc c ++ [(RNode n, PInt (Z.of_nat i))])))
     | _ => gnil
     end)).
  { destruct n as [i x|i kvs|i els|i els]; try apply gall_gnil.
    - apply gall_gfor. intros kv Hkv. apply IH. apply step_loc; [exact Hc | apply pair_child; exact Hkv].
    - apply gall_gfor. intros [j x] Hin. enum_tac i els. apply IH. apply step_loc; assumption. }
  destruct last.
  - destruct n as [i x|i kvs|i els|i els].
    + apply gall_gone. exact Hc.
    + exact Hkids.
    + exact Hkids.
    + apply gall_gfor. intros e He. apply gall_gone. apply step_loc; [exact Hc | exact He].
  - apply gall_gapp.
    + apply gall_gfirst. intros [o|]; [apply gall_gone; exact Hc | apply gall_gnil].
    + destruct n as [i x|i kvs|i els|i els]; try apply gall_gnil; exact Hkids.
Qed.

End Loc.

(* ---- the drivers ---- *)
Definition is_slice (ps : pseg) : bool :=
  match seg_es ps with (Some TIndex, AStr _) => true | _ => false end.
(* slices (their array form yields a virtual result) only as the last segment *)
Fixpoint slices_last (l : list pseg) : bool :=
  match l with
  | [] => true
  | a :: r => match r with [] => true | _ => negb (is_slice a) && slices_last r end
  end.

Section LocPath.
Variable lit : string -> outcome litres.
Variable re_search : string -> string -> outcome reres.
Variable nstr : node -> string.
Variable vstr : list rval -> string.
Variable kw_handler : bool -> keyword -> string -> rval -> ctx -> gen rval.
Variable creator : list pseg -> nat -> rval -> ctx -> gen rval.
Variable d : node.

Notation EV := (ev lit re_search nstr vstr kw_handler creator).

Lemma walk_loc sg rq segs i ps :
  nth_error segs i = Some ps ->
  c01_seg (seg_es ps) (seg_us ps) = true ->
  ((0 <? i) && is_ty TTraverse (fst (seg_es ps)) && is_ty TTraverse (seg_type_at segs (i - 1))) = false ->
  forall vf n c, ctx_loc d n c ->
  gall (res_loc (is_slice ps) d) (walk lit re_search nstr vstr kw_handler sg rq segs i vf (RNode n) c).
Proof.
  intros En Hok Hrec. induction vf as [|vf IH]; intros n c Hc; [apply gall_gnil|].
  rewrite (walk_node lit re_search nstr vstr kw_handler _ _ _ _ _ _ _ _ En Hok Hrec).
  pose proof Hok as Hok'. unfold c01_seg in Hok'. apply andb_prop in Hok'. destruct Hok' as [Hty _].
  unfold is_slice in *.
  destruct (seg_es ps) as [[[]|] a]; try discriminate.
  - apply by_anchor_loc. exact Hc.
  - apply by_index_loc; [|exact Hc].
    destruct a; try discriminate; [reflexivity|].
    cbn [attrs_str]. rewrite (proj2 (str_of_Z_chars z)). discriminate.
  - destruct a; try discriminate. apply by_key_loc; [exact Hc|]. intros e c' He. apply IH. exact He.
  - destruct a; try discriminate. apply by_search_loc. exact Hc.
  - apply trav_loc. exact Hc.
  - destruct (S i <? List.length segs); [apply match_all_filtered_loc | apply match_all_unfiltered_loc]; exact Hc.
Qed.

Theorem ev_loc : forall pf segs i n c,
  c01_segs c01_frag segs = true -> no_double_trav segs = true -> slices_last (skipn i segs) = true ->
  ctx_loc d n c -> gall (res_loc true d) (EV pf MReq segs i (RNode n) c).
Proof.
  induction pf as [|pf IH]; intros segs i n c Hfr Hnd Hsl Hc; [apply gall_gnil|].
  rewrite ev_req_unfold.
  destruct (nth_error segs i) as [ps|] eqn:En.
  2: { rewrite (nth_none_ltb _ _ En). apply gall_gone. exact Hc. }
  rewrite (nth_some_ltb _ _ _ En).
  destruct (c01_nth _ _ _ Hfr En) as [Hok _].
  pose proof (no_double_nth _ _ _ Hnd En) as Hrec.
  rewrite (skipn_nth_cons _ _ _ En) in Hsl.
  apply (gall_gbind (res_loc (is_slice ps) d)).
  - unfold WALK. apply walk_loc; auto.
  - intros x Hx. unfold KREQ.
    destruct x as [m|l|nd par rf path anc]; try contradiction.
    destruct nd as [m|l|]; try contradiction; cbn [is_pylist].
    + apply IH; auto.
      cbn [slices_last] in Hsl. destruct (skipn (S i) segs) eqn:Es; [reflexivity|].
      apply andb_prop in Hsl. apply Hsl.
    + cbn [res_loc] in Hx. cbn [slices_last] in Hsl.
      destruct (skipn (S i) segs) eqn:Es.
      * destruct pf as [|pf']; [apply gall_gnil|]. rewrite ev_req_unfold, has_next_last, Es. cbn [negb].
        apply gall_gone. reflexivity.
      * rewrite Hx in Hsl. discriminate.
Qed.

(* Processor.get_nodes(path, mustexist=True): every real result is node_located *)
Theorem required_located p segs :
  p = PPath segs -> c01_frag p = true -> slices_last segs = true ->
  Forall (res_loc true d) (fst (get_required lit re_search nstr vstr kw_handler creator p d)).
Proof.
  intros -> Hfr Hsl. rewrite c01_frag_ppath in Hfr. apply andb_prop in Hfr. destruct Hfr as [Hnd Hfr].
  assert (H : gall (res_loc true d) (EV (fuel_for (PPath segs)) MReq segs 0 (RNode d) root_ctx)).
  { apply ev_loc; auto. split; [constructor | reflexivity]. }
  unfold get_required. unfold gall in H.
  destruct (EV (fuel_for (PPath segs)) MReq segs 0 (RNode d) root_ctx) as [l s].
  assert (G : Forall (res_loc true d) (fst (match (l, s) with ([], Done) => gerr (YPE Unmatched) | g => g end))).
  { destruct l as [|x l']; [destruct s; constructor | destruct s; exact H]. }
  destruct d as [i v|i kvs|i els|i els]; try exact G. destruct v; try exact G. constructor.
Qed.

End LocPath.

(* what the property text says, read off [node_located]: indexing the parent by the
   reference gives the node, and the chain walks from the root to it *)
Lemma located_parentref d m p r anc : node_located d m (Some (RNode p)) (Some r) anc -> child_rel p r m.
Proof. intros [_ [H _]]. exact H. Qed.
Lemma located_ancestry d m par rf anc : node_located d m par rf anc -> walks d anc m.
Proof. intros [H _]. exact H. Qed.


Section LocStatements.
Variable lit : string -> outcome litres.
Variable re_search : string -> string -> outcome reres.
Variable nstr : node -> string.
Variable vstr : list rval -> string.
Variable kw_handler : bool -> keyword -> string -> rval -> ctx -> gen rval.
Variable creator : list pseg -> nat -> rval -> ctx -> gen rval.

(* indexing the parent by the reference gives the very node returned *)
Theorem required_parentref segs d m par r path anc :
  c01_frag (PPath segs) = true -> slices_last segs = true ->
  In (RCoords (RNode m) (Some par) (Some r) path anc)
     (fst (get_required lit re_search nstr vstr kw_handler creator (PPath segs) d)) ->
  exists p, par = RNode p /\ child_rel p r m.
Proof.
  intros Hfr Hsl Hin.
  pose proof (required_located lit re_search nstr vstr kw_handler creator d _ segs eq_refl Hfr Hsl) as H.
  rewrite Forall_forall in H. specialize (H _ Hin). cbn in H. destruct H as [_ H].
  destruct par as [p| |]; try contradiction. exists p. split; [reflexivity | apply H].
Qed.

(* the ancestry chain walks from the document root to the node, its last link
   starting at the reported parent; a result without parent is the root *)
Theorem required_ancestry segs d m par rf path anc :
  c01_frag (PPath segs) = true -> slices_last segs = true ->
  In (RCoords (RNode m) par rf path anc)
     (fst (get_required lit re_search nstr vstr kw_handler creator (PPath segs) d)) ->
  walks d anc m /\
  match par with
  | None => anc = [] /\ m = d
  | Some p => exists anc' r', anc = (anc' ++ [(p, r')])%list
  end.
Proof.
  intros Hfr Hsl Hin.
  pose proof (required_located lit re_search nstr vstr kw_handler creator d _ segs eq_refl Hfr Hsl) as H.
  rewrite Forall_forall in H. specialize (H _ Hin). cbn in H. destruct H as [Hw H].
  split; [exact Hw|].
  destruct par as [[p| |]|]; destruct rf; try contradiction.
  - destruct H as [_ H]. exact H.
  - subst anc. split; [reflexivity|]. inversion Hw; [reflexivity|].
    match goal with E : (_ ++ [_])%list = [] |- _ => apply app_eq_nil in E; destruct E; discriminate end.
Qed.

End LocStatements.
