(* C06, completeness under positional comparison: every leaf of either
   document is covered by an entry at its location or at an ancestor's --
   unless one DOCUMENT is null (the root: "no document") and the other a
   container with content (what is left of finding F3 after its repair: a null
   that has a parent is now deleted / added like any other scalar). *)
From Coq Require Import List Ascii String ZArith NArith Bool Arith Lia Permutation.
From YP Require Import Outcome PyStr PyVal Doc Diff C06Spec DiffBase DiffEq DiffKeys DiffPos.
Import ListNotations.
Open Scope nat_scope.

(* ---- locations up to Python key equality ---- *)
Lemma ref_same_refl : forall r, ref_same r r.
Proof. destruct r; simpl; auto using py_eq_refl. Qed.

Lemma ref_same_trans : forall a b c, ref_same a b -> ref_same b c -> ref_same a c.
Proof.
  destruct a, b, c; simpl; intros; try contradiction; try congruence; eapply py_eq_trans; eauto.
Qed.

Lemma is_prefix_refl_app : forall q l, is_prefix q (q ++ l).
Proof. induction q; simpl; intros; auto using ref_same_refl. Qed.

Lemma is_prefix_app : forall q p l, is_prefix p l -> is_prefix (q ++ p) (q ++ l).
Proof. induction q; simpl; intros; auto using ref_same_refl. Qed.

Lemma is_prefix_one : forall q a b rest, ref_same a b -> is_prefix (q ++ [a]) (q ++ b :: rest).
Proof. intros. apply is_prefix_app. simpl. auto. Qed.

(* replacing one reference of the longer location by an equal one *)
Lemma is_prefix_swap : forall q p a b rest, ref_same a b ->
  is_prefix p ((q ++ [a]) ++ rest) -> is_prefix p (q ++ b :: rest).
Proof.
  induction q as [|r q IH]; simpl; intros p a b rest Hab H.
  - destruct p as [|x p]; simpl in *; auto. destruct H as [H1 H2]. split; auto.
    eapply ref_same_trans; eauto.
  - destruct p as [|x p]; simpl in *; auto. destruct H as [H1 H2]. split; auto.
    eapply IH; eauto.
Qed.

(* ---- what the coverage invariant says ---- *)
Definition lcov (q : loc) (l : node) (a : list entry) : Prop :=
  forall l' i v, lookup l l' = Some (NLeaf i v) ->
    exists e, In e a /\ has_left e = true /\ is_prefix (e_loc e) (q ++ l').
Definition rcov (q : loc) (r : node) (a : list entry) : Prop :=
  forall l' i v, lookup r l' = Some (NLeaf i v) ->
    exists e, In e a /\ has_right e = true /\ is_prefix (e_loc e) (q ++ l').

Lemma lcov_mono : forall q l a a', incl a a' -> lcov q l a -> lcov q l a'.
Proof. intros q l a a' Hi H l' i v Hl. destruct (H l' i v Hl) as [e [He R]]. exists e; split; auto. Qed.
Lemma rcov_mono : forall q l a a', incl a a' -> rcov q l a -> rcov q l a'.
Proof. intros q l a a' Hi H l' i v Hl. destruct (H l' i v Hl) as [e [He R]]. exists e; split; auto. Qed.

Lemma lcov_whole : forall q l a e, In e a -> has_left e = true -> e_loc e = q -> lcov q l a.
Proof. intros q l a e He Hl Hq l' i v _. exists e. repeat split; auto. rewrite Hq. apply is_prefix_refl_app. Qed.
Lemma rcov_whole : forall q l a e, In e a -> has_right e = true -> e_loc e = q -> rcov q l a.
Proof. intros q l a e He Hl Hq l' i v _. exists e. repeat split; auto. rewrite Hq. apply is_prefix_refl_app. Qed.

(* a container is covered when each child is covered under a reference equal
   to the one that reaches it *)
Lemma lcov_children : forall q l a,
  is_leaf l = false ->
  (forall ref c, child l ref = Some c -> exists ref', ref_same ref' ref /\ lcov (q ++ [ref']) c a) ->
  lcov q l a.
Proof.
  intros q l a Hnl H l' i v Hl. destruct l' as [|ref rest]; simpl in Hl.
  - inversion Hl; subst. discriminate.
  - destruct (child l ref) as [c|] eqn:E; try discriminate.
    destruct (H ref c E) as [ref' [Hs Hc]].
    destruct (Hc rest i v Hl) as [e [He [Hh Hp]]].
    exists e. repeat split; auto. eapply is_prefix_swap; eauto.
Qed.
Lemma rcov_children : forall q l a,
  is_leaf l = false ->
  (forall ref c, child l ref = Some c -> exists ref', ref_same ref' ref /\ rcov (q ++ [ref']) c a) ->
  rcov q l a.
Proof.
  intros q l a Hnl H l' i v Hl. destruct l' as [|ref rest]; simpl in Hl.
  - inversion Hl; subst. discriminate.
  - destruct (child l ref) as [c|] eqn:E; try discriminate.
    destruct (H ref c E) as [ref' [Hs Hc]].
    destruct (Hc rest i v Hl) as [e [He [Hh Hp]]].
    exists e. repeat split; auto. eapply is_prefix_swap; eauto.
Qed.

Lemma In_rev_map_app {A B} (f : A -> B) : forall l acc x, In x l -> In (f x) (rev (map f l) ++ acc).
Proof. intros. apply in_or_app. left. apply in_rev. rewrite rev_involutive. apply in_map. auto. Qed.

Lemma incl_app_acc {A} : forall (n acc : list A), incl acc (n ++ acc).
Proof. intros n acc x H. apply in_or_app; auto. Qed.

(* the children of a well-formed container, as the items the code iterates over *)
Lemma child_map_item : forall kvs x c, forallb (fun kv => plain_leaf (fst kv)) kvs = true ->
  assoc_key x kvs = Some c -> exists k, In (k, c) kvs /\ py_eq (key_val k) x = true.
Proof.
  intros kvs x c Hp H. rewrite (assoc_key_findk _ _ Hp) in H.
  destruct (findk kkey x kvs) as [[k w]|] eqn:F; simpl in H; try discriminate. inversion H; subst.
  apply findk_some in F. destruct F as [Hin E]. exists k. split; auto.
Qed.

Lemma child_set_item : forall els x c, forallb plain_leaf els = true ->
  find_member x els = Some c -> In c els /\ py_eq (key_val c) x = true.
Proof.
  intros els x c Hp H. rewrite (find_member_findk _ _ Hp) in H. apply findk_some in H. exact H.
Qed.

Lemma enumerate_from_in {A} : forall (l : list A) i k x,
  nth_error l k = Some x -> In (i + k, x) (enumerate_from i l).
Proof.
  induction l as [|y r IH]; intros i k x H; destruct k; simpl in *; try discriminate.
  - inversion H; subst. left. f_equal. lia.
  - right. replace (i + S k) with (S i + k) by lia. apply IH; auto.
Qed.

Lemma cmp_has_left : forall p q a b, has_left (cmp_entry p q a b) = true.
Proof. intros. unfold cmp_entry, has_left. simpl. destruct (val_eq a b); reflexivity. Qed.
Lemma cmp_has_right : forall p q a b, has_right (cmp_entry p q a b) = true.
Proof. intros. unfold cmp_entry, has_right. simpl. destruct (val_eq a b); reflexivity. Qed.

Section Cover.
  Variable path_eq : string -> string -> outcome bool.
  Variable cfg : dcfg.
  Hypothesis Hpos : positional cfg.

  (* the guard concerns the root call only (no parent) *)
  Definition root_ok (par : option node) (l r : node) : Prop :=
    par = None -> clash_ok l r /\ clash_ok r l.

  Definition rec_cov (rec : rec_t) : Prop :=
    forall path q l r par pref a a',
      wf_doc l = true -> wf_doc r = true -> root_ok par l r ->
      rec path q l r par pref a = Ok a' ->
      incl a a' /\ lcov q l a' /\ rcov q r a'.

  Lemma root_ok_child : forall p l r, root_ok (Some p) l r.
  Proof. intros p l r H. discriminate. Qed.

  (* ---- _purge_document / _add_everything ---- *)
  Lemma purge_incl : forall path q l root a, incl a (purge path q l root a).
  Proof.
    intros path q l root a. destruct l as [i v| | |]; simpl; try apply incl_app_acc.
    destruct v, root; simpl; auto using incl_refl, incl_tl.
  Qed.
  Lemma add_everything_incl : forall path q l root a, incl a (add_everything path q l root a).
  Proof.
    intros path q l root a. destruct l as [i v| | |]; simpl; try apply incl_app_acc.
    destruct v, root; simpl; auto using incl_refl, incl_tl.
  Qed.

  Lemma purge_cov : forall path q l root a, wf_doc l = true -> is_null_leaf l && root = false ->
    lcov q l (purge path q l root a).
  Proof.
    intros path q l root a Hwf Hnn. destruct l as [i v|i kvs|i els|i els].
    - assert (E : purge path q (NLeaf i v) root a = del_entry path q (NLeaf i v) :: a).
      { destruct v, root; simpl in *; auto; discriminate. }
      rewrite E. eapply lcov_whole; [left; reflexivity | reflexivity | reflexivity].
    - destruct (wf_map_inv _ _ Hwf) as [Hp _]. apply lcov_children; auto.
      intros ref c Hc. destruct ref; simpl in Hc; try discriminate.
      destruct (child_map_item _ _ _ Hp Hc) as [kn [Hin E]].
      exists (RKey (key_val kn)). split; [exact E|].
      eapply lcov_whole; [ | | ]; cycle 1; [ | | simpl;
        apply (In_rev_map_app (fun kv => del_entry (path_add_key path (fst kv)) (q ++ [RKey (key_val (fst kv))]) (snd kv)) kvs a (kn, c) Hin)];
        reflexivity.
    - apply lcov_children; auto.
      intros ref c Hc. destruct ref; simpl in Hc; try discriminate.
      exists (RIdx n). split; [reflexivity|].
      pose proof (enumerate_from_in els 0 n c Hc) as Hin. simpl in Hin.
      eapply lcov_whole; [ | | ]; cycle 1; [ | | simpl;
        apply (In_rev_map_app (fun ie => del_entry (path_add_idx path (Some (fst ie))) (q ++ [RIdx (fst ie)]) (snd ie)) (enumerate els) a (n, c) Hin)];
        reflexivity.
    - destruct (wf_set_inv _ _ Hwf) as [Hp _]. apply lcov_children; auto.
      intros ref c Hc. destruct ref; simpl in Hc; try discriminate.
      destruct (child_set_item _ _ _ Hp Hc) as [Hin E].
      exists (RMember (key_val c)). split; [exact E|].
      eapply lcov_whole; [ | | ]; cycle 1; [ | | simpl;
        apply (In_rev_map_app (fun e => del_entry (path_add_key path e) (q ++ [RMember (key_val e)]) e) els a c Hin)];
        reflexivity.
  Qed.

  Lemma add_everything_cov : forall path q l root a, wf_doc l = true -> is_null_leaf l && root = false ->
    rcov q l (add_everything path q l root a).
  Proof.
    intros path q l root a Hwf Hnn. destruct l as [i v|i kvs|i els|i els].
    - assert (E : add_everything path q (NLeaf i v) root a = add_entry path q (NLeaf i v) :: a).
      { destruct v, root; simpl in *; auto; discriminate. }
      rewrite E. eapply rcov_whole; [left; reflexivity | reflexivity | reflexivity].
    - destruct (wf_map_inv _ _ Hwf) as [Hp _]. apply rcov_children; auto.
      intros ref c Hc. destruct ref; simpl in Hc; try discriminate.
      destruct (child_map_item _ _ _ Hp Hc) as [kn [Hin E]].
      exists (RKey (key_val kn)). split; [exact E|].
      eapply rcov_whole; [ | | ]; cycle 1; [ | | simpl;
        apply (In_rev_map_app (fun kv => add_entry (path_add_key path (fst kv)) (q ++ [RKey (key_val (fst kv))]) (snd kv)) kvs a (kn, c) Hin)];
        reflexivity.
    - apply rcov_children; auto.
      intros ref c Hc. destruct ref; simpl in Hc; try discriminate.
      exists (RIdx n). split; [reflexivity|].
      pose proof (enumerate_from_in els 0 n c Hc) as Hin. simpl in Hin.
      eapply rcov_whole; [ | | ]; cycle 1; [ | | simpl;
        apply (In_rev_map_app (fun ie => add_entry (path_add_idx path (Some (fst ie))) (q ++ [RIdx (fst ie)]) (snd ie)) (enumerate els) a (n, c) Hin)];
        reflexivity.
    - destruct (wf_set_inv _ _ Hwf) as [Hp _]. apply rcov_children; auto.
      intros ref c Hc. destruct ref; simpl in Hc; try discriminate.
      destruct (child_set_item _ _ _ Hp Hc) as [Hin E].
      exists (RMember (key_val c)). split; [exact E|].
      eapply rcov_whole; [ | | ]; cycle 1; [ | | simpl;
        apply (In_rev_map_app (fun e => add_entry (path_add_key path e) (q ++ [RMember (key_val e)]) e) els a c Hin)];
        reflexivity.
  Qed.

  Lemma purge_nocontent : forall path q l root a, has_content l = false -> is_leaf l = false -> purge path q l root a = a.
  Proof. intros path q l root a H1 H2. destruct l as [|i [|]|i [|]|i [|]]; simpl in *; auto; discriminate. Qed.
  Lemma add_everything_nocontent : forall path q l root a, has_content l = false -> is_leaf l = false ->
    add_everything path q l root a = a.
  Proof. intros path q l root a H1 H2. destruct l as [|i [|]|i [|]|i [|]]; simpl in *; auto; discriminate. Qed.
  Lemma purge_null : forall path q l a, is_null_leaf l = true -> purge path q l true a = a.
  Proof. intros path q l a H. destruct l as [i v| | |]; simpl in *; try discriminate. destruct v; auto; discriminate. Qed.
  Lemma add_everything_null : forall path q l a, is_null_leaf l = true -> add_everything path q l true a = a.
  Proof. intros path q l a H. destruct l as [i v| | |]; simpl in *; try discriminate. destruct v; auto; discriminate. Qed.

  (* the type-clash branch of _diff_between *)
  Lemma clash_cov : forall path q l r par a a',
    wf_doc l = true -> wf_doc r = true -> root_ok par l r ->
    (is_leaf l = false \/ is_leaf r = false) ->
    (let root := match par with None => true | Some _ => false end in
     let a1 := add_everything path q r root (purge path q l root a) in
     if Nat.eqb (List.length a1) (List.length a)
     then Ok (mkentry AChange path q l r :: a1) else Ok a1) = Ok a' ->
    incl a a' /\ lcov q l a' /\ rcov q r a'.
  Proof.
    intros path q l r par a a' Hwl Hwr Hf Hk H. cbv zeta in H.
    set (root := match par with None => true | Some _ => false end) in *.
    set (a1 := add_everything path q r root (purge path q l root a)) in *.
    assert (I1 : incl a a1).
    { unfold a1. eapply incl_tran; [apply purge_incl | apply add_everything_incl]. }
    assert (HL : is_null_leaf l && root = true -> a1 = a).
    { intros Hn. apply andb_true_iff in Hn. destruct Hn as [Hn Hr].
      assert (par = None) by (destruct par; [discriminate | reflexivity]).
      destruct (Hf H0) as [C1 C2]. unfold a1. rewrite Hr. rewrite (purge_null _ _ _ _ Hn).
      destruct (has_content r) eqn:Hc; [exfalso; apply C1; auto|].
      apply add_everything_nocontent; auto.
      destruct Hk as [Hk|Hk]; auto. destruct l; simpl in *; discriminate. }
    assert (HR : is_null_leaf r && root = true -> a1 = a).
    { intros Hn. apply andb_true_iff in Hn. destruct Hn as [Hn Hr].
      assert (par = None) by (destruct par; [discriminate | reflexivity]).
      destruct (Hf H0) as [C1 C2]. unfold a1. rewrite Hr. rewrite (add_everything_null _ _ _ _ Hn).
      destruct (has_content l) eqn:Hc; [exfalso; apply C2; auto|].
      apply purge_nocontent; auto.
      destruct Hk as [Hk|Hk]; auto. destruct r; simpl in *; discriminate. }
    assert (CL : is_null_leaf l && root = false -> lcov q l a1).
    { intros Hn. unfold a1. eapply lcov_mono; [apply add_everything_incl | apply purge_cov; auto]. }
    assert (CR : is_null_leaf r && root = false -> rcov q r a1).
    { intros Hn. unfold a1. apply add_everything_cov; auto. }
    destruct (Nat.eqb (List.length a1) (List.length a)) eqn:El; inversion H; subst; clear H.
    - split; [apply incl_tl; exact I1|]. split.
      + eapply lcov_whole; [left; reflexivity | reflexivity | reflexivity].
      + eapply rcov_whole; [left; reflexivity | reflexivity | reflexivity].
    - split; [exact I1|]. split.
      + destruct (is_null_leaf l && root) eqn:Hn; [|auto].
        rewrite (HL eq_refl), Nat.eqb_refl in El. discriminate.
      + destruct (is_null_leaf r && root) eqn:Hn; [|auto].
        rewrite (HR eq_refl), Nat.eqb_refl in El. discriminate.
  Qed.

  (* ---- mappings ---- *)
  Lemma dicts_cov : forall rec path q i lkvs j rkvs a a',
    rec_cov rec ->
    wf_doc (NMap i lkvs) = true -> wf_doc (NMap j rkvs) = true ->
    diff_dicts rec path q (NMap i lkvs) (NMap j rkvs) lkvs rkvs a = Ok a' ->
    incl a a' /\ lcov q (NMap i lkvs) a' /\ rcov q (NMap j rkvs) a'.
  Proof.
    intros rec path q i lkvs j rkvs a a' Hrec HwL HwR H.
    destruct (wf_map_inv _ _ HwL) as [Lp [Ln Lw]].
    destruct (wf_map_inv _ _ HwR) as [Rp [Rn Rw]].
    unfold diff_dicts in H.
    destruct (negb _).
    - inversion H; subst. split; [apply incl_tl, incl_tl, incl_refl|]. split.
      + eapply lcov_whole; [right; left; reflexivity | reflexivity | reflexivity].
      + eapply rcov_whole; [left; reflexivity | reflexivity | reflexivity].
    - match type of H with (bind ?F _ = _) => destruct F as [acc1| |] eqn:EF end; simpl in H; try discriminate.
      inversion H; subst; clear H.
      (* the shared keys, visited in right-hand order *)
      assert (G : incl a acc1 /\
                  forall kv', In kv' ([] ++ rkvs) -> forall lv, map_get (fst kv') lkvs = Some lv ->
                    lcov (q ++ [RKey (kkey kv')]) lv acc1 /\ rcov (q ++ [RKey (kkey kv')]) (snd kv') acc1).
      { eapply (foldM_ind _ (fun p b => incl a b /\
                  forall kv', In kv' p -> forall lv, map_get (fst kv') lkvs = Some lv ->
                    lcov (q ++ [RKey (kkey kv')]) lv b /\ rcov (q ++ [RKey (kkey kv')]) (snd kv') b));
          [ | exact EF | split; [apply incl_refl | intros kv' []] ].
        intros p [k rv] b b' Hin Hstep [Ib Cb]. simpl in Hstep.
        assert (Hk : plain_leaf k = true) by (rewrite forallb_forall in Rp; apply (Rp (k, rv) Hin)).
        assert (Hhas : map_has k rkvs = true).
        { rewrite (map_has_hask _ _ Rp Hk). apply (hask_in kkey rkvs (k, rv) Hin). }
        destruct (map_get k lkvs) as [lv|] eqn:Eg.
        - rewrite Hhas in Hstep.
          assert (Hcl : child (NMap i lkvs) (RKey (key_val k)) = Some lv).
          { simpl. rewrite <- map_get_assoc; auto. }
          assert (Hcr : child (NMap j rkvs) (RKey (key_val k)) = Some rv).
          { simpl. apply assoc_key_in; auto. }
          destruct (map_get_in _ _ _ Eg) as [kn Hkn].
          destruct (Hrec _ _ _ _ _ _ _ _ (Lw _ Hkn) (Rw _ Hin) (root_ok_child _ _ _) Hstep)
            as [I2 [C2l C2r]].
          split; [eapply incl_tran; eauto|].
          intros kv' Hkv' lv' Eg'. apply in_app_or in Hkv'. destruct Hkv' as [Hkv'|[<-|[]]].
          + destruct (Cb kv' Hkv' lv' Eg') as [X Y]. split; [eapply lcov_mono | eapply rcov_mono]; eauto.
          + simpl in Eg'. rewrite Eg in Eg'. inversion Eg'; subst. split; assumption.
        - inversion Hstep; subst. split; auto.
          intros kv' Hkv' lv' Eg'. apply in_app_or in Hkv'. destruct Hkv' as [Hkv'|[<-|[]]]; auto.
          simpl in Eg'. congruence. }
      destruct G as [I1 C1]. simpl in C1.
      set (adds := filter (fun kv => negb (map_has (fst kv) lkvs)) rkvs).
      set (dels := filter (fun kv => negb (map_has (fst kv) rkvs)) lkvs).
      match goal with |- incl a ?X /\ _ => set (res := X) end.
      assert (I2 : incl acc1 res).
      { unfold res. eapply incl_tran; [|apply incl_app_acc]. apply incl_app_acc. }
      split; [eapply incl_tran; eauto|]. split.
      + apply lcov_children; auto.
        intros ref c Hc. destruct ref as [x| |]; simpl in Hc; try discriminate.
        destruct (child_map_item _ _ _ Lp Hc) as [kn [Hkn Ekn]].
        assert (Pkn : plain_leaf kn = true) by (rewrite forallb_forall in Lp; apply (Lp (kn, c) Hkn)).
        destruct (map_has kn rkvs) eqn:Hh.
        * (* shared: visited at the right-hand item with an equal key *)
          rewrite (map_has_hask _ _ Rp Pkn), hask_findk in Hh.
          destruct (findk kkey (key_val kn) rkvs) as [[k' rv]|] eqn:F; try discriminate.
          apply findk_some in F. destruct F as [Hin' E']. unfold kkey in E'; simpl in E'.
          assert (Pk' : plain_leaf k' = true) by (rewrite forallb_forall in Rp; apply (Rp (k', rv) Hin')).
          assert (Eg : map_get k' lkvs = Some c).
          { rewrite (map_get_findk _ _ Lp Pk').
            rewrite (findk_congr kkey _ _ lkvs E').
            change (key_val kn) with (kkey (kn, c)).
            rewrite (findk_in kkey lkvs (kn, c) Ln Hkn). reflexivity. }
          destruct (C1 (k', rv) Hin' c Eg) as [X _].
          exists (RKey (key_val k')). split; [simpl; eapply py_eq_trans; eauto|].
          eapply lcov_mono; eauto.
        * exists (RKey (key_val kn)). split; [exact Ekn|].
          eapply lcov_whole with (e := del_entry (path_add_key path kn) (q ++ [RKey (key_val kn)]) c);
            [ | reflexivity | reflexivity].
          unfold res. apply in_or_app. right.
          apply (In_rev_map_app (fun kv => del_entry (path_add_key path (fst kv)) (q ++ [RKey (key_val (fst kv))]) (snd kv))
                                dels acc1 (kn, c)).
          unfold dels. apply filter_In. split; auto. simpl. rewrite Hh. reflexivity.
      + apply rcov_children; auto.
        intros ref c Hc. destruct ref as [x| |]; simpl in Hc; try discriminate.
        destruct (child_map_item _ _ _ Rp Hc) as [kn [Hkn Ekn]].
        assert (Pkn : plain_leaf kn = true) by (rewrite forallb_forall in Rp; apply (Rp (kn, c) Hkn)).
        exists (RKey (key_val kn)). split; [exact Ekn|].
        destruct (map_get kn lkvs) as [lv|] eqn:Eg.
        * destruct (C1 (kn, c) Hkn lv Eg) as [_ Y]. eapply rcov_mono; eauto.
        * eapply rcov_whole with (e := add_entry (path_add_key path kn) (q ++ [RKey (key_val kn)]) c);
            [ | reflexivity | reflexivity].
          unfold res.
          apply (In_rev_map_app (fun kv => add_entry (path_add_key path (fst kv)) (q ++ [RKey (key_val (fst kv))]) (snd kv))
                                adds _ (kn, c)).
          unfold adds. apply filter_In. split; auto. simpl. unfold map_has. rewrite Eg. reflexivity.
  Qed.

  (* ---- sets ---- *)
  Lemma sets_cov : forall rec path q i lels j rels a a',
    rec_cov rec ->
    wf_doc (NSet i lels) = true -> wf_doc (NSet j rels) = true ->
    diff_sets rec path q (NSet i lels) (NSet j rels) lels rels a = Ok a' ->
    incl a a' /\ lcov q (NSet i lels) a' /\ rcov q (NSet j rels) a'.
  Proof.
    intros rec path q i lels j rels a a' Hrec HwL HwR H.
    destruct (wf_set_inv _ _ HwL) as [Lp Ln].
    destruct (wf_set_inv _ _ HwR) as [Rp Rn].
    unfold diff_sets in H.
    match type of H with (bind ?F _ = _) => destruct F as [acc1| |] eqn:EF end; simpl in H; try discriminate.
    inversion H; subst; clear H.
    assert (G : incl a acc1 /\
                forall k, In k ([] ++ rels) -> set_has k lels = true ->
                  lcov (q ++ [RMember (key_val k)]) (set_find k lels) acc1 /\
                  rcov (q ++ [RMember (key_val k)]) k acc1).
    { eapply (foldM_ind _ (fun p b => incl a b /\
                forall k, In k p -> set_has k lels = true ->
                  lcov (q ++ [RMember (key_val k)]) (set_find k lels) b /\
                  rcov (q ++ [RMember (key_val k)]) k b));
        [ | exact EF | split; [apply incl_refl | intros k []] ].
      intros p k b b' Hin Hstep [Ib Cb]. simpl in Hstep.
      assert (Hk : plain_leaf k = true) by (rewrite forallb_forall in Rp; auto).
      assert (Hself : set_find k rels = k).
      { rewrite (set_find_findk _ _ Rp Hk), (findk_in key_val rels k Rn Hin). reflexivity. }
      assert (Hhas : set_has k rels = true).
      { rewrite (set_has_hask _ _ Rp Hk). apply (hask_in key_val rels k Hin). }
      destruct (set_has k lels) eqn:E1; simpl in Hstep.
      - rewrite Hhas in Hstep. simpl in Hstep. rewrite Hself in Hstep.
        pose proof (set_find_in _ _ E1) as Hm.
        assert (Pm : plain_leaf (set_find k lels) = true) by (rewrite forallb_forall in Lp; auto).
        destruct (plain_leaf_inv _ Pm) as [mi [mv [Em _]]].
        destruct (plain_leaf_inv _ Hk) as [ki [kv [Ek _]]].
        destruct (Hrec _ _ _ _ _ _ _ _ (wf_plain_leaf _ Pm) (wf_plain_leaf _ Hk) (root_ok_child _ _ _) Hstep) as [I2 [C2l C2r]].
        split; [eapply incl_tran; eauto|].
        intros k' Hk' Hs'. apply in_app_or in Hk'. destruct Hk' as [Hk'|[<-|[]]].
        + destruct (Cb k' Hk' Hs') as [X Y]. split; [eapply lcov_mono | eapply rcov_mono]; eauto.
        + split; assumption.
      - inversion Hstep; subst. split; auto.
        intros k' Hk' Hs'. apply in_app_or in Hk'. destruct Hk' as [Hk'|[<-|[]]]; auto. congruence. }
    destruct G as [I1 C1]. simpl in C1.
    set (adds := filter (fun k => negb (set_has k lels)) rels).
    set (dels := filter (fun k => negb (set_has k rels)) lels).
    match goal with |- incl a ?X /\ _ => set (res := X) end.
    assert (I2 : incl acc1 res).
    { unfold res. eapply incl_tran; [|apply incl_app_acc]. apply incl_app_acc. }
    split; [eapply incl_tran; eauto|]. split.
    - apply lcov_children; auto.
      intros ref c Hc. destruct ref as [|n|x]; simpl in Hc; try discriminate.
      destruct (child_set_item _ _ _ Lp Hc) as [Hin Ex].
      assert (Pc : plain_leaf c = true) by (rewrite forallb_forall in Lp; auto).
      destruct (set_has c rels) eqn:Hh.
      + rewrite (set_has_hask _ _ Rp Pc), hask_findk in Hh.
        destruct (findk key_val (key_val c) rels) as [k'|] eqn:F; try discriminate.
        apply findk_some in F. destruct F as [Hin' E'].
        assert (Pk' : plain_leaf k' = true) by (rewrite forallb_forall in Rp; auto).
        assert (Hs : set_has k' lels = true).
        { rewrite (set_has_hask _ _ Lp Pk'). rewrite <- (hask_congr key_val _ _ lels (py_eq_sym _ _ E')).
          apply (hask_in key_val lels c Hin). }
        assert (Hf : set_find k' lels = c).
        { rewrite (set_find_findk _ _ Lp Pk'), (findk_congr key_val _ _ lels E'),
                  (findk_in key_val lels c Ln Hin). reflexivity. }
        destruct (C1 k' Hin' Hs) as [X _]. rewrite Hf in X.
        exists (RMember (key_val k')). split; [simpl; eapply py_eq_trans; eauto|].
        eapply lcov_mono; eauto.
      + exists (RMember (key_val c)). split; [exact Ex|].
        eapply lcov_whole with (e := del_entry (path_add_key path c) (q ++ [RMember (key_val c)]) c);
          [ | reflexivity | reflexivity].
        unfold res. apply in_or_app. right.
        apply (In_rev_map_app (fun k => del_entry (path_add_key path k) (q ++ [RMember (key_val k)]) k) dels acc1 c).
        unfold dels. apply filter_In. split; auto. rewrite Hh. reflexivity.
    - apply rcov_children; auto.
      intros ref c Hc. destruct ref as [|n|x]; simpl in Hc; try discriminate.
      destruct (child_set_item _ _ _ Rp Hc) as [Hin Ex].
      exists (RMember (key_val c)). split; [exact Ex|].
      destruct (set_has c lels) eqn:Hh.
      + destruct (C1 c Hin Hh) as [_ Y]. eapply rcov_mono; eauto.
      + eapply rcov_whole with (e := add_entry (path_add_key path c) (q ++ [RMember (key_val c)]) c);
          [ | reflexivity | reflexivity].
        unfold res.
        apply (In_rev_map_app (fun k => add_entry (path_add_key path k) (q ++ [RMember (key_val k)]) k) adds _ c).
        unfold adds. apply filter_In. split; auto. rewrite Hh. reflexivity.
  Qed.

  (* ---- sequences, positional ---- *)
  Lemma zip_cov : forall rec deep path q r0,
    rec_cov rec ->
    forall lels idx rels a a',
      (forall x, In x lels -> wf_doc x = true) -> (forall x, In x rels -> wf_doc x = true) ->
      zip_go rec deep path q r0 idx lels rels a = Ok a' ->
      incl a a' /\
      (forall k x, nth_error lels k = Some x -> lcov (q ++ [RIdx (idx + k)]) x a') /\
      (forall k y, nth_error rels k = Some y -> rcov (q ++ [RIdx (idx + k)]) y a').
  Proof.
    intros rec deep path q r0 Hrec.
    induction lels as [|le lr IH]; simpl; intros idx rels a a' HwL HwR H.
    - inversion H; subst. split; [apply incl_app_acc|]. split.
      + intros k x Hk. destruct k; discriminate.
      + intros k y Hk.
        eapply rcov_whole with (e := add_entry (path_add_idx path (Some (idx + k))) (q ++ [RIdx (idx + k)]) y);
          [ | reflexivity | reflexivity].
        apply (In_rev_map_app (fun ie => add_entry (path_add_idx path (Some (fst ie))) (q ++ [RIdx (fst ie)]) (snd ie))
                              (enumerate_from idx rels) a (idx + k, y)).
        apply enumerate_from_in; auto.
    - destruct rels as [|re rr].
      + destruct (IH (S idx) [] _ _ (fun x Hx => HwL x (or_intror Hx)) HwR H) as [I1 [C1 C2]].
        split; [eapply incl_tran; [apply incl_tl, incl_refl | exact I1]|]. split.
        * intros k x Hk. destruct k as [|k]; simpl in Hk.
          -- inversion Hk; subst. rewrite Nat.add_0_r.
             eapply lcov_whole with (e := del_entry (path_add_idx path (Some idx)) (q ++ [RIdx idx]) x);
               [apply I1; left; reflexivity | reflexivity | reflexivity].
          -- replace (idx + S k) with (S idx + k) by lia. apply C1; auto.
        * intros k y Hk. destruct k; discriminate.
      + match type of H with (bind ?F _ = _) => destruct F as [a1| |] eqn:EF end; simpl in H; try discriminate.
        destruct (IH (S idx) rr _ _ (fun x Hx => HwL x (or_intror Hx)) (fun x Hx => HwR x (or_intror Hx)) H)
          as [I1 [C1 C2]].
        assert (St : incl a a1 /\ lcov (q ++ [RIdx idx]) le a1 /\ rcov (q ++ [RIdx idx]) re a1).
        { destruct deep.
          - eapply Hrec; [ | | | exact EF].
            + apply HwL; left; reflexivity.
            + apply HwR; left; reflexivity.
            + apply root_ok_child.
          - inversion EF; subst. split; [apply incl_tl, incl_refl|]. split.
            + eapply lcov_whole; [left; reflexivity | apply cmp_has_left | reflexivity].
            + eapply rcov_whole; [left; reflexivity | apply cmp_has_right | reflexivity]. }
        destruct St as [I0 [S1 S2]].
        split; [eapply incl_tran; eauto|]. split.
        * intros k x Hk. destruct k as [|k]; simpl in Hk.
          -- inversion Hk; subst. rewrite Nat.add_0_r. eapply lcov_mono; eauto.
          -- replace (idx + S k) with (S idx + k) by lia. apply C1; auto.
        * intros k y Hk. destruct k as [|k]; simpl in Hk.
          -- inversion Hk; subst. rewrite Nat.add_0_r. eapply rcov_mono; eauto.
          -- replace (idx + S k) with (S idx + k) by lia. apply C2; auto.
  Qed.

  Lemma zip_seq_cov : forall rec deep path q i lels j rels a a',
    rec_cov rec ->
    wf_doc (NSeq i lels) = true -> wf_doc (NSeq j rels) = true ->
    zip_go rec deep path q (NSeq j rels) 0 lels rels a = Ok a' ->
    incl a a' /\ lcov q (NSeq i lels) a' /\ rcov q (NSeq j rels) a'.
  Proof.
    intros rec deep path q i lels j rels a a' Hrec HwL HwR H.
    destruct (zip_cov rec deep path q (NSeq j rels) Hrec lels 0 rels a a'
                (wf_seq_inv _ _ HwL) (wf_seq_inv _ _ HwR) H) as [I1 [C1 C2]].
    split; auto. split.
    - apply lcov_children; auto. intros ref c Hc. destruct ref; simpl in Hc; try discriminate.
      exists (RIdx n). split; [reflexivity|]. apply (C1 n c Hc).
    - apply rcov_children; auto. intros ref c Hc. destruct ref; simpl in Hc; try discriminate.
      exists (RIdx n). split; [reflexivity|]. apply (C2 n c Hc).
  Qed.

  Lemma lists_cov : forall rec path q i lels j rels par pref a a',
    rec_cov rec ->
    wf_doc (NSeq i lels) = true -> wf_doc (NSeq j rels) = true ->
    diff_lists path_eq cfg rec path q (NSeq i lels) (NSeq j rels) lels rels par pref a = Ok a' ->
    incl a a' /\ lcov q (NSeq i lels) a' /\ rcov q (NSeq j rels) a'.
  Proof.
    intros rec path q i lels j rels par pref a a' Hrec HwL HwR H.
    destruct Hpos as [Hp1 Hp2].
    assert (Harr : forall deep nc,
      diff_arrays path_eq cfg rec deep path q (NSeq j rels) lels rels nc a = Ok a' ->
      incl a a' /\ lcov q (NSeq i lels) a' /\ rcov q (NSeq j rels) a').
    { intros deep nc H'. unfold diff_arrays in H'. rewrite Hp1 in H'. simpl in H'.
      eapply zip_seq_cov; eauto. }
    assert (Haoh : forall nc,
      diff_aoh path_eq cfg rec path q (NSeq j rels) lels rels nc a = Ok a' ->
      incl a a' /\ lcov q (NSeq i lels) a' /\ rcov q (NSeq j rels) a').
    { intros nc H'. unfold diff_aoh in H'.
      destruct (Hp2 nc) as [E|E]; rewrite E in H'; simpl in H'; eapply Harr; eauto. }
    unfold diff_lists in H.
    destruct (negb _).
    { inversion H; subst. split; [apply incl_tl, incl_tl, incl_refl|]. split.
      + eapply lcov_whole; [right; left; reflexivity | reflexivity | reflexivity].
      + eapply rcov_whole; [left; reflexivity | reflexivity | reflexivity]. }
    destruct rels as [|[ | | | ] rr]; try (eapply Harr; eauto; fail).
    eapply Haoh; eauto.
  Qed.

  Lemma body_cov : forall rec, rec_cov rec -> rec_cov (diff_body path_eq cfg rec).
  Proof.
    intros rec Hrec path q l r par pref a a' HwL HwR Hf H.
    destruct l as [i v|i lkvs|i lels|i lels], r as [j w|j rkvs|j rels|j rels]; simpl in H;
      try (eapply (clash_cov path q _ _ par); [exact HwL | exact HwR | exact Hf | simpl; auto | exact H]).
    - inversion H; subst. unfold diff_scalars. split; [apply incl_tl, incl_refl|]. split.
      + eapply lcov_whole; [left; reflexivity | apply cmp_has_left | reflexivity].
      + eapply rcov_whole; [left; reflexivity | apply cmp_has_right | reflexivity].
    - eapply dicts_cov; eauto.
    - eapply lists_cov; eauto.
    - eapply sets_cov; eauto.
  Qed.

  Lemma between_cov : forall fuel, rec_cov (diff_between path_eq cfg fuel).
  Proof.
    induction fuel as [|f IH].
    - intros path q l r par pref a a' _ _ _ H. simpl in H. discriminate.
    - intros path q l r par pref a a' HwL HwR Hf H. simpl in H. eapply body_cov; eauto.
  Qed.

  Theorem compare_to_covers : forall L R es,
    wf_doc L = true -> wf_doc R = true -> clash_ok L R /\ clash_ok R L ->
    compare_to path_eq cfg L R = Ok es -> covers_left L es /\ covers_right R es.
  Proof.
    intros L R es HwL HwR Hf H. unfold compare_to in H.
    match type of H with (bind ?F _ = _) => destruct F as [acc| |] eqn:EF end; simpl in H; try discriminate.
    inversion H; subst.
    destruct (between_cov _ _ _ _ _ _ _ _ _ HwL HwR (fun _ => Hf) EF) as [_ [C1 C2]].
    split; intros l i v Hl.
    - destruct (C1 l i v Hl) as [e [He R1]]. exists e. split; [apply -> in_rev; exact He | exact R1].
    - destruct (C2 l i v Hl) as [e [He R1]]. exists e. split; [apply -> in_rev; exact He | exact R1].
  Qed.
End Cover.

(* ---- the computable guard implies the declarative one ---- *)
Lemma clash_b_ok : forall a b, clash_b a b = true -> clash_ok a b.
Proof. unfold clash_b, clash_ok. intros a b H [X Y]. rewrite X, Y in H. discriminate. Qed.

Lemma assoc_key_congr : forall kvs x y, py_eq x y = true -> assoc_key x kvs = assoc_key y kvs.
Proof.
  induction kvs as [|[kn v] r IH]; simpl; intros x y H; auto.
  destruct kn; auto. rewrite (py_eq_congr_r _ _ v0 H). rewrite (IH _ _ H). reflexivity.
Qed.

Lemma positional_covers :
  forall path_eq cfg L R es,
    positional cfg -> wf_doc L = true -> wf_doc R = true -> root_guard L R = true ->
    compare_to path_eq cfg L R = Ok es -> covers_left L es /\ covers_right R es.
Proof.
  intros path_eq cfg L R es Hp HL HR Hf H.
  eapply compare_to_covers; eauto.
  unfold root_guard in Hf. apply andb_true_iff in Hf. destruct Hf as [F1 F2].
  split; apply clash_b_ok; assumption.
Qed.

(* the guard holds whenever neither document is null *)
Lemma root_guard_nonnull : forall L R, is_null_leaf L = false -> is_null_leaf R = false -> root_guard L R = true.
Proof. intros L R H1 H2. unfold root_guard, clash_b. rewrite H1, H2. reflexivity. Qed.

(* ---- finding F3 ---- *)
Definition f3_leaf (o : N) (v : pyval) : node := NLeaf (mkinfo o None false None) v.
Definition f3_L : node := NMap (mkinfo 0 None true None) [(f3_leaf 1 (PStr "a"), f3_leaf 2 PNone)].
Definition f3_R : node :=
  NMap (mkinfo 3 None true None)
       [(f3_leaf 1 (PStr "a"), NMap (mkinfo 4 None true None) [(f3_leaf 5 (PStr "b"), f3_leaf 6 (PInt 1))])].
Definition f3_cfg : dcfg := mkdcfg false [] [] None None None None.

(* what is left of it: a null DOCUMENT against a container with content *)
Definition f3_root_R : node := NMap (mkinfo 3 None true None) [(f3_leaf 5 (PStr "b"), f3_leaf 6 (PInt 1))].

Lemma complete_refuted_witness :
  exists L R es, wf_doc L = true /\ wf_doc R = true /\
    compare_to path_eq_real f3_cfg L R = Ok es /\ ~ covers_left L es.
Proof.
  exists (f3_leaf 2 PNone), f3_root_R. eexists. split; [reflexivity|]. split; [reflexivity|]. split; [vm_compute; reflexivity|].
  intros C. destruct (C [] (mkinfo 2 None false None) PNone eq_refl) as [e [He [Hl _]]].
  destruct He as [<-|[]]. discriminate Hl.
Qed.
