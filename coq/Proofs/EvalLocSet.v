(* C02 / C04: what [child_rel] (Proofs/EvalLocAll.v) does not say about a SET
   parent -- the parentref of a member IS (equal to) the member -- by the same
   induction, run next to [ev_loc]:  every real result of the required query
   on a path of the C01 fragment is located AND, when its parent is a set, its
   parentref equals the member.  [av] = may the answer hold virtual (array
   slice) results: false when the path has no slice segment at all. *)
From Coq Require Import List Ascii String ZArith NArith Bool Arith Lia.
From YP Require Import Outcome PyStr PyVal Doc Generated PathParser PathPrinter Searches Eval SpecC01 SpecC15
  EvalSem EvalSemLib EvalSemSeg EvalSemPath EvalGood EvalHandlers EvalTotal RtInt EvalLocAll PyValOrder.
Import ListNotations.
Open Scope string_scope.
Open Scope nat_scope.

Definition child_set (p : node) (r : pyval) (m : node) : Prop :=
  match p with NSet _ _ => py_eq (key_val m) r = true | _ => True end.
Definition pr_set (par : option rval) (rf : option pyval) (m : node) : Prop :=
  match par, rf with Some (RNode p), Some r => child_set p r m | _, _ => True end.
Definition ctx_set (c : ctx) (n : node) : Prop := pr_set (x_par c) (x_ref c) n.
Definition res_set (x : rval) : Prop :=
  match x with RCoords (RNode m) par rf _ _ => pr_set par rf m | _ => True end.

Lemma res_set_nonset nd p rf path anc : is_set p = false -> res_set (RCoords nd (Some (RNode p)) rf path anc).
Proof. intros H. destruct nd as [m| |]; try exact I. destruct p, rf; try exact I; discriminate H. Qed.

Lemma res_set_member m i els path anc :
  res_set (RCoords (RNode m) (Some (RNode (NSet i els))) (Some (key_val m)) path anc).
Proof. cbn. apply py_eq_refl. Qed.

Lemma gall_and (P Q : rval -> Prop) g : gall P g -> gall Q g -> gall (fun x => P x /\ Q x) g.
Proof.
  unfold gall. intros HP HQ. rewrite Forall_forall in *. intros x Hx. split; [apply HP | apply HQ]; exact Hx.
Qed.

Section SetRef.
Variable lit : string -> outcome litres.
Variable re_search : string -> string -> outcome reres.
Variable nstr : node -> string.
Variable vstr : list rval -> string.
Variable kw_handler : bool -> keyword -> string -> rval -> ctx -> gen rval.
Variable creator : list pseg -> nat -> rval -> ctx -> gen rval.

Notation EV := (ev lit re_search nstr vstr kw_handler creator).

Ltac gstep :=
  match goal with
  | |- gall _ gnil => apply gall_gnil
  | |- gall _ (gerr _) => apply gall_gerr
  | |- gall _ (gfor _ _) => apply gall_gfor; intros
  | |- gall _ (gapp _ _) => apply gall_gapp
  | |- gall _ (glift _ _) => apply gall_glift; intros
  | |- gall _ (gfirst _ _) => apply gall_gfirst; intros
  | |- gall _ (if ?b then _ else _) => destruct b eqn:?
  | |- gall _ (match ?x with _ => _ end) => destruct x eqn:?
  | |- gall _ (let '(_, _) := ?x in _) => destruct x eqn:?
  end.

(* a yielded NodeCoords whose parent is the (destructed) context node *)
Ltac fin :=
  apply gall_gone;
  first [ apply res_set_nonset; reflexivity | apply res_set_member | exact I ].

Lemma by_key_set self k n c :
  (forall e c', ctx_set c' e -> gall res_set (self (RNode e) c')) ->
  gall res_set (by_key self (AStr k) (RNode n) c).
Proof.
  intros Hself. unfold by_key. cbn [attrs_str attr_val].
  destruct n as [i x|i kvs|i els|i els].
  - apply gall_gnil.
  - repeat gstep; fin.
  - cbn [elems]. destruct (py_int k) as [idx|].
    + repeat gstep; fin.
    + destruct (negb (x_tl c)); [apply gall_gnil|].
      apply gall_gfor. intros [j x] Hin. destruct (in_enum_nth els 0 j x Hin) as [e [-> _]].
      apply Hself. exact I.
  - destruct (find _ els) eqn:Ef; [|apply gall_gnil].
    apply find_some in Ef. destruct Ef as [_ Ef]. apply gall_gone. cbn. exact Ef.
Qed.

Lemma by_index_set a n c : gall res_set (by_index a (RNode n) c).
Proof.
  unfold by_index.
  destruct (str_in ":"%char (attrs_str a)).
  - destruct (split_colon (attrs_str a)) as [lo hi].
    destruct n as [i x|i kvs|i els|i els].
    + apply gall_gnil.
    + repeat gstep; fin.
    + cbn [elems]. repeat gstep; fin.
    + repeat gstep; fin.
  - destruct (py_int (attrs_str a)) as [idx|]; [|apply gall_gerr].
    destruct n as [i x|i kvs|i els|i els]; cbn [is_pylist]; try apply gall_gnil; try apply gall_gerr.
    cbn [elems]. repeat gstep; fin.
Qed.

Lemma by_anchor_set a n c : gall res_set (by_anchor a (RNode n) c).
Proof.
  unfold by_anchor. destruct n as [i x|i kvs|i els|i els]; [apply gall_gnil | | |].
  - repeat gstep; fin.
  - cbn [elems]. apply gall_gfor. intros [j x] Hin. repeat gstep; fin.
  - repeat gstep; fin.
Qed.

Lemma match_all_unfiltered_set n c : gall res_set (match_all_unfiltered (RNode n) c).
Proof.
  unfold match_all_unfiltered. destruct n as [i x|i kvs|i els|i els]; [apply gall_gnil | | |].
  - repeat gstep; fin.
  - cbn [elems]. apply gall_gfor. intros [j x] Hin. fin.
  - repeat gstep; fin.
Qed.

Lemma match_all_filtered_set sg n c : gall res_set (match_all_filtered sg (RNode n) c).
Proof.
  unfold match_all_filtered. destruct n as [i x|i kvs|i els|i els]; [apply gall_gnil | | |].
  - repeat gstep; fin.
  - cbn [elems]. apply gall_gfor. intros [j x] Hin. repeat gstep; fin.
  - repeat gstep; fin.
Qed.

Lemma hash_desc_scan_set m term inv items st matches k :
  (forall b, gall res_set (k b)) -> gall res_set (hash_desc_scan lit re_search nstr vstr m term inv items st matches k).
Proof.
  intros Hk. revert matches. induction items as [|x r IH]; intros matches; cbn.
  - destruct st; auto; constructor.
  - repeat gstep; auto.
Qed.

Lemma by_search_set rq inv m attr term n c :
  ctx_set c n -> gall res_set (by_search lit re_search nstr vstr rq inv m attr term (RNode n) c).
Proof.
  intros Hc. unfold by_search.
  assert (Hself : gall res_set (gone (ncoords (RNode n) (x_par c) (x_ref c) (x_tp c) (x_anc c)))).
  { apply gall_gone. exact Hc. }
  destruct n as [i x|i kvs|i els|i els].
  - repeat gstep; auto.
  - destruct (String.eqb attr ".").
    + repeat gstep; fin.
    + destruct (assoc_key (PStr attr) kvs) eqn:E1.
      * repeat gstep; fin.
      * apply hash_desc_scan_set. intros b. repeat gstep; auto.
  - destruct (negb (x_tl c)); [apply gall_gnil|]. cbn [elems].
    apply gall_gfor. intros [j x] Hin. repeat gstep; fin.
  - repeat gstep; fin.
Qed.

Lemma trav_set sg last : forall tf n c, ctx_set c n -> gall res_set (trav tf last sg (RNode n) c).
Proof.
  induction tf as [|tf IH]; intros n c Hc; [apply gall_gnil|].
  cbn [trav].
  assert (Hkids : gall res_set
    (match n with
     | NMap _ kvs =>
         gfor kvs (fun kv => trav tf last sg (RNode (snd kv))
                               (mkctx (Some (RNode n)) (Some (key_val (fst kv))) (x_tl c)
                                      (tp_add (x_tp c) (esc_sec (py_str (key_val (fst kv))) (x_tp c)))
                                      (x_anc c ++ [(RNode n, key_val (fst kv))])))
     | NSeq _ els =>
         gfor (enumerate (map RNode els))
           (fun ie => let '(i, e) := ie in
                      trav tf last sg e (mkctx (Some (RNode n)) (Some (PInt (Z.of_nat i))) (x_tl c)
                                               (tp_add (x_tp c) (idx_text (Z.of_nat i)))
                                               (x_anc c ++ [(RNode n, PInt (Z.of_nat i))])))
     | _ => gnil
     end)).
  { destruct n as [i x|i kvs|i els|i els]; try apply gall_gnil.
    - apply gall_gfor. intros kv Hkv. apply IH. exact I.
    - apply gall_gfor. intros [j x] Hin. destruct (in_enum_nth els 0 j x Hin) as [e [-> _]]. apply IH. exact I. }
  destruct last.
  - destruct n as [i x|i kvs|i els|i els].
    + apply gall_gone. exact Hc.
    + exact Hkids.
    + exact Hkids.
    + repeat gstep; fin.
  - apply gall_gapp.
    + apply gall_gfirst. intros [o|]; [apply gall_gone; exact Hc | apply gall_gnil].
    + destruct n as [i x|i kvs|i els|i els]; try apply gall_gnil; exact Hkids.
Qed.

Lemma walk_set sg rq segs i ps :
  nth_error segs i = Some ps ->
  c01_seg (seg_es ps) (seg_us ps) = true ->
  ((0 <? i) && is_ty TTraverse (fst (seg_es ps)) && is_ty TTraverse (seg_type_at segs (i - 1))) = false ->
  forall vf n c, ctx_set c n ->
  gall res_set (walk lit re_search nstr vstr kw_handler sg rq segs i vf (RNode n) c).
Proof.
  intros En Hok Hrec. induction vf as [|vf IH]; intros n c Hc; [apply gall_gnil|].
  rewrite (walk_node lit re_search nstr vstr kw_handler _ _ _ _ _ _ _ _ En Hok Hrec).
  pose proof Hok as Hok'. unfold c01_seg in Hok'. apply andb_prop in Hok'. destruct Hok' as [Hty _].
  destruct (seg_es ps) as [[[]|] a]; try discriminate.
  - apply by_anchor_set.
  - apply by_index_set.
  - destruct a; try discriminate. apply by_key_set. intros e c' He. apply IH. exact He.
  - destruct a; try discriminate. apply by_search_set. exact Hc.
  - apply trav_set. exact Hc.
  - destruct (S i <? List.length segs); [apply match_all_filtered_set | apply match_all_unfiltered_set].
Qed.

Variable d : node.
Variable av : bool.

Lemma res_loc_weaken b x : (b = true -> av = true) -> res_loc b d x -> res_loc av d x.
Proof.
  intros H Hx. destruct x as [m|l|nd par rf path anc]; try contradiction.
  destruct nd as [m|l|]; try contradiction; [exact Hx | apply H; exact Hx].
Qed.

Theorem ev_locset : forall pf segs i n c,
  c01_segs c01_frag segs = true -> no_double_trav segs = true -> slices_last (skipn i segs) = true ->
  (forall ps, In ps segs -> is_slice ps = true -> av = true) ->
  ctx_loc d n c -> ctx_set c n ->
  gall (fun x => res_loc av d x /\ res_set x) (EV pf MReq segs i (RNode n) c).
Proof.
  induction pf as [|pf IH]; intros segs i n c Hfr Hnd Hsl Hav Hc Hs; [apply gall_gnil|].
  rewrite ev_req_unfold.
  destruct (nth_error segs i) as [ps|] eqn:En.
  2: { rewrite (nth_none_ltb _ _ En). apply gall_gone. split; [exact Hc | exact Hs]. }
  rewrite (nth_some_ltb _ _ _ En).
  destruct (c01_nth _ _ _ Hfr En) as [Hok _].
  pose proof (no_double_nth _ _ _ Hnd En) as Hrec.
  rewrite (skipn_nth_cons _ _ _ En) in Hsl.
  apply (gall_gbind (fun x => res_loc (is_slice ps) d x /\ res_set x)).
  - unfold WALK. apply gall_and.
    + apply (walk_loc lit re_search nstr vstr kw_handler d _ _ segs i ps En Hok Hrec). exact Hc.
    + apply (walk_set _ _ segs i ps En Hok Hrec). exact Hs.
  - intros x [Hx Hxs]. unfold KREQ.
    destruct x as [m|l|nd par rf path anc]; try contradiction.
    destruct nd as [m|l|]; try contradiction; cbn [is_pylist].
    + apply IH; auto.
      cbn [slices_last] in Hsl. destruct (skipn (S i) segs) eqn:Es; [reflexivity|].
      apply andb_prop in Hsl. apply Hsl.
    + cbn [res_loc] in Hx. cbn [slices_last] in Hsl.
      destruct (skipn (S i) segs) eqn:Es.
      * destruct pf as [|pf']; [apply gall_gnil|]. rewrite ev_req_unfold, has_next_last, Es. cbn [negb].
        apply gall_gone. split; [|exact I]. cbn. apply (Hav ps); [eapply nth_error_In; exact En | exact Hx].
      * rewrite Hx in Hsl. discriminate.
Qed.

Theorem required_locset p segs :
  p = PPath segs -> c01_frag p = true -> slices_last segs = true ->
  (forall ps, In ps segs -> is_slice ps = true -> av = true) ->
  Forall (fun x => res_loc av d x /\ res_set x) (fst (get_required lit re_search nstr vstr kw_handler creator p d)).
Proof.
  intros -> Hfr Hsl Hav. rewrite c01_frag_ppath in Hfr. apply andb_prop in Hfr. destruct Hfr as [Hnd Hfr].
  assert (H : gall (fun x => res_loc av d x /\ res_set x) (EV (fuel_for (PPath segs)) MReq segs 0 (RNode d) root_ctx)).
  { apply ev_locset; auto; [split; [constructor | reflexivity] | exact I]. }
  unfold get_required. unfold gall in H.
  destruct (EV (fuel_for (PPath segs)) MReq segs 0 (RNode d) root_ctx) as [l s].
  assert (G : Forall (fun x => res_loc av d x /\ res_set x)
                     (fst (match (l, s) with ([], Done) => gerr (YPE Unmatched) | g => g end))).
  { destruct l as [|x l']; [destruct s; constructor | destruct s; exact H]. }
  destruct d as [i v|i kvs|i els|i els]; try exact G. destruct v; try exact G. constructor.
Qed.

End SetRef.
