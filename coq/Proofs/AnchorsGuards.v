(* C10: the Prop-level well-formedness hypotheses of C10_unique_names / C10_rename
   (one_node_per_name, an_heap_ok) have computable boolean forms; the tidy-document
   guard implies an_doc_ok and makes "anchored Scalar" and "place" the same thing. *)
From Coq Require Import List Ascii String ZArith QArith NArith Bool Lia.
From YP Require Import Outcome PyStr PyVal Doc PathParser Searches MergeConfig Merge Anchors SpecC10
  AnchorsProofs AnchorsPolicy AnchorsScan.
Import ListNotations.
Open Scope string_scope.
Open Scope list_scope.

(* ---------- structural equality ---------- *)
Lemma c10_opt_eqb_eq : forall a b, c10_opt_eqb a b = true <-> a = b.
Proof.
  intros [a|] [b|]; simpl; split; intros H; try discriminate; try reflexivity.
  - apply String.eqb_eq in H. now subst.
  - inversion H; subst. apply String.eqb_refl.
Qed.

Lemma c10_info_eqb_eq : forall a b, c10_info_eqb a b = true <-> a = b.
Proof.
  intros [o1 a1 h1 t1] [o2 a2 h2 t2]. unfold c10_info_eqb. simpl. rewrite !andb_true_iff.
  rewrite N.eqb_eq, !c10_opt_eqb_eq, Bool.eqb_true_iff. split.
  - intros [[[-> ->] ->] ->]. reflexivity.
  - intros H. inversion H; subst. auto.
Qed.

Lemma c10_pyval_eqb_eq : forall a b, c10_pyval_eqb a b = true <-> a = b.
Proof.
  intros a b. destruct a as [|x|x|[n d] r|x|x]; destruct b as [|y|y|[n' d'] r'|y|y]; simpl;
    split; intros H; try discriminate; try reflexivity.
  - destruct x, y; try discriminate; reflexivity.
  - inversion H; subst. destruct y; reflexivity.
  - apply Z.eqb_eq in H. now subst.
  - inversion H; subst. apply Z.eqb_refl.
  - rewrite !andb_true_iff in H. destruct H as [[H1 H2] H3].
    apply Z.eqb_eq in H1. apply Pos.eqb_eq in H2. apply String.eqb_eq in H3. now subst.
  - inversion H; subst. rewrite Z.eqb_refl, Pos.eqb_refl, String.eqb_refl. reflexivity.
  - apply String.eqb_eq in H. now subst.
  - inversion H; subst. apply String.eqb_refl.
  - apply String.eqb_eq in H. now subst.
  - inversion H; subst. apply String.eqb_refl.
Qed.

Lemma c10_node_eqb_sound : forall a b, c10_node_eqb a b = true -> a = b.
Proof.
  induction a as [i v|i kvs IH|i els IH|i els IH] using node_ind'; intros b H; destruct b as [j w|j kb|j eb|j eb];
    try discriminate; simpl in H; apply andb_true_iff in H; destruct H as [Hi H]; apply c10_info_eqb_eq in Hi; subst j.
  - apply c10_pyval_eqb_eq in H. now subst.
  - f_equal. revert kb H. induction kvs as [|[k v] l IHl]; intros [|[k' v'] m] H; try discriminate; [reflexivity|].
    inversion IH as [|? ? [IHk IHv] IHrest]; subst. cbn [fst snd] in *.
    rewrite !andb_true_iff in H. destruct H as [[Hk Hv] Hr].
    rewrite (IHk _ Hk), (IHv _ Hv), (IHl IHrest _ Hr). reflexivity.
  - f_equal. revert eb H. induction els as [|x l IHl]; intros [|y m] H; try discriminate; [reflexivity|].
    inversion IH as [|? ? IHx IHrest]; subst. rewrite andb_true_iff in H. destruct H as [Hx Hr].
    rewrite (IHx _ Hx), (IHl IHrest _ Hr). reflexivity.
  - f_equal. revert eb H. induction els as [|x l IHl]; intros [|y m] H; try discriminate; [reflexivity|].
    inversion IH as [|? ? IHx IHrest]; subst. rewrite andb_true_iff in H. destruct H as [Hx Hr].
    rewrite (IHx _ Hx), (IHl IHrest _ Hr). reflexivity.
Qed.

Lemma c10_node_eqb_refl : forall a, c10_node_eqb a a = true.
Proof.
  assert (Ri : forall i, c10_info_eqb i i = true) by (intros i; now apply c10_info_eqb_eq).
  induction a as [i v|i kvs IH|i els IH|i els IH] using node_ind'; simpl; rewrite Ri; simpl.
  - now apply c10_pyval_eqb_eq.
  - induction kvs as [|[k v] l IHl]; [reflexivity|].
    inversion IH as [|? ? [IHk IHv] IHrest]; subst. cbn [fst snd] in *. rewrite IHk, IHv. simpl. now apply IHl.
  - induction els as [|x l IHl]; [reflexivity|]. inversion IH as [|? ? IHx IHrest]; subst. rewrite IHx. simpl. now apply IHl.
  - induction els as [|x l IHl]; [reflexivity|]. inversion IH as [|? ? IHx IHrest]; subst. rewrite IHx. simpl. now apply IHl.
Qed.

Lemma c10_node_eqb_eq : forall a b, c10_node_eqb a b = true <-> a = b.
Proof. intros a b. split; [apply c10_node_eqb_sound|intros ->; apply c10_node_eqb_refl]. Qed.

(* ---------- the boolean guards decide the Prop-level hypotheses ---------- *)
Theorem one_node_per_name_b_iff : forall d, one_node_per_name_b d = true <-> one_node_per_name d.
Proof.
  intros d. unfold one_node_per_name_b, one_node_per_name. rewrite forallb_forall. split.
  - intros H n m a Hn Hm Nn Nm. specialize (H n Hn). rewrite forallb_forall in H. specialize (H m Hm).
    unfold c10_named_same in H. rewrite Nn, Nm, String.eqb_refl in H. simpl in H. now apply c10_node_eqb_sound.
  - intros H n Hn. apply forallb_forall. intros m Hm. unfold c10_named_same.
    destruct (c10_name n) as [a|] eqn:Nn; [|reflexivity]. destruct (c10_name m) as [b|] eqn:Nm; [|reflexivity].
    destruct (String.eqb a b) eqn:E; [|reflexivity]. apply String.eqb_eq in E. subst b. simpl.
    rewrite (H n m a Hn Hm Nn Nm). apply c10_node_eqb_refl.
Qed.

Theorem an_heap_ok_b_iff : forall d, an_heap_ok_b d = true <-> an_heap_ok d.
Proof.
  intros d. unfold an_heap_ok_b, an_heap_ok. rewrite forallb_forall. split.
  - intros H n m Hn Hm E. specialize (H n Hn). rewrite forallb_forall in H. specialize (H m Hm).
    unfold c10_oid_same in H. rewrite E, N.eqb_refl in H. simpl in H. now apply c10_node_eqb_sound.
  - intros H n Hn. apply forallb_forall. intros m Hm. unfold c10_oid_same.
    destruct (N.eqb (node_oid n) (node_oid m)) eqn:E; [|reflexivity]. apply N.eqb_eq in E. simpl.
    rewrite (H n m Hn Hm E). apply c10_node_eqb_refl.
Qed.

(* ---------- tidy documents ---------- *)
Lemma tidy_keys_plain : forall d, an_tidy d = true -> keys_plain d = true.
Proof.
  induction d as [i v|i kvs IH|i els IH|i els IH] using node_ind'; intros H; try reflexivity.
  - simpl in H. apply andb_true_iff in H. destruct H as [_ H]. simpl. rewrite forallb_forall in *.
    intros [k v] Hin. specialize (H (k, v) Hin). cbn [fst snd] in *. rewrite !andb_true_iff in H.
    destruct H as [[_ Hn] Hv]. rewrite Forall_forall in IH. destruct (IH (k, v) Hin) as [_ IHv]. cbn [snd] in IHv.
    rewrite (IHv Hv). unfold an_noname in Hn. destruct (c10_name k); [discriminate|reflexivity].
  - simpl in H. apply andb_true_iff in H. destruct H as [_ H]. simpl. rewrite forallb_forall in *.
    intros e Hin. rewrite Forall_forall in IH. apply (IH e Hin). now apply H.
Qed.

Lemma tidy_scalars_only : forall d, an_tidy d = true -> an_scalars_only d = true.
Proof.
  induction d as [i v|i kvs IH|i els IH|i els IH] using node_ind'; intros H; try reflexivity.
  - simpl in H. apply andb_true_iff in H. destruct H as [Hn H]. simpl. simpl in Hn. rewrite Hn. simpl.
    rewrite forallb_forall in *.
    intros [k v] Hin. specialize (H (k, v) Hin). cbn [fst snd] in *. rewrite !andb_true_iff in H.
    destruct H as [[Hl _] Hv]. rewrite Forall_forall in IH. destruct (IH (k, v) Hin) as [_ IHv]. cbn [snd] in IHv.
    now rewrite Hl, (IHv Hv).
  - simpl in H. apply andb_true_iff in H. destruct H as [Hn H]. simpl. simpl in Hn. rewrite Hn. simpl.
    rewrite forallb_forall in *.
    intros e Hin. rewrite Forall_forall in IH. apply (IH e Hin). now apply H.
  - simpl in H. apply andb_true_iff in H. destruct H as [Hn _]. simpl. exact Hn.
Qed.

Lemma doc_tidy_parts : forall d, an_doc_tidy d = true -> is_leaf d = false /\ an_tidy d = true.
Proof.
  intros d H. unfold an_doc_tidy in H. apply andb_true_iff in H. destruct H as [H1 H2].
  apply negb_true_iff in H1. auto.
Qed.

Theorem doc_tidy_ok : forall d, an_doc_tidy d = true -> an_doc_ok d = true.
Proof.
  intros d H. destruct (doc_tidy_parts d H) as [Hl Ht]. unfold an_doc_ok.
  rewrite Hl, (tidy_keys_plain d Ht), (tidy_scalars_only d Ht). reflexivity.
Qed.

(* THE BRIDGE: in a tidy document every node that carries an anchor name is a Scalar standing
   at a place (hash value or array element): set members, keys and containers carry none *)
Lemma noname_not_named : forall n, an_noname n = true -> c10_name n = None.
Proof. intros n H. unfold an_noname in H. destruct (c10_name n); [discriminate|reflexivity]. Qed.

Lemma tidy_named : forall d, an_tidy d = true ->
  forall p, In p (an_all d) -> c10_name p <> None -> In p (vplaces d) /\ is_leaf p = true.
Proof.
  induction d as [i v|i kvs IH|i els IH|i els IH] using node_ind'; intros Ht p Hp Hn.
  - simpl in Hp. destruct Hp as [<-|[]]. split; [now left|reflexivity].
  - simpl in Ht. apply andb_true_iff in Ht. destruct Ht as [Hno Ht]. rewrite forallb_forall in Ht.
    simpl in Hp. destruct Hp as [<-|Hp]; [exfalso; apply Hn; now apply noname_not_named|].
    apply in_flat_map in Hp. destruct Hp as [[k v] [Hin Hp]]. cbn [fst snd] in Hp.
    specialize (Ht (k, v) Hin). cbn [fst snd] in Ht. rewrite !andb_true_iff in Ht. destruct Ht as [[Hkl Hkn] Hv].
    apply in_app_or in Hp. destruct Hp as [Hp|Hp].
    + destruct k; try discriminate. simpl in Hp. destruct Hp as [<-|[]]. exfalso. apply Hn. now apply noname_not_named.
    + rewrite Forall_forall in IH. destruct (IH (k, v) Hin) as [_ IHv]. cbn [snd] in IHv.
      destruct (IHv Hv p Hp Hn) as [A B]. split; [|exact B].
      change (vplaces (NMap i kvs)) with (places (NMap i kvs)). rewrite places_map.
      apply in_flat_map. exists (k, v). split; [exact Hin|]. right. exact A.
  - simpl in Ht. apply andb_true_iff in Ht. destruct Ht as [Hno Ht]. rewrite forallb_forall in Ht.
    simpl in Hp. destruct Hp as [<-|Hp]; [exfalso; apply Hn; now apply noname_not_named|].
    apply in_flat_map in Hp. destruct Hp as [e [Hin Hp]].
    rewrite Forall_forall in IH. destruct (IH e Hin (Ht e Hin) p Hp Hn) as [A B]. split; [|exact B].
    change (vplaces (NSeq i els)) with (places (NSeq i els)). rewrite places_seq.
    apply in_flat_map. exists e. split; assumption.
  - simpl in Ht. apply andb_true_iff in Ht. destruct Ht as [Hno Ht]. rewrite forallb_forall in Ht.
    simpl in Hp. destruct Hp as [<-|Hp]; [exfalso; apply Hn; now apply noname_not_named|].
    apply in_flat_map in Hp. destruct Hp as [e [Hin Hp]]. specialize (Ht e Hin). apply andb_true_iff in Ht.
    destruct Ht as [Hl Hne]. destruct e; try discriminate. simpl in Hp. destruct Hp as [<-|[]].
    exfalso. apply Hn. now apply noname_not_named.
Qed.

Theorem tidy_bridge : forall d, an_doc_tidy d = true ->
  forall p a, In p (an_all d) -> c10_name p = Some a -> In p (places d) /\ is_leaf p = true.
Proof.
  intros d H p a Hp Hn. destruct (doc_tidy_parts d H) as [Hl Ht].
  destruct (tidy_named d Ht p Hp) as [A B]; [congruence|]. split; [|exact B].
  destruct d; try discriminate; exact A.
Qed.

Lemma noname_map : forall i a b, an_noname (NMap i a) = an_noname (NMap i b).
Proof. reflexivity. Qed.
Lemma noname_seq : forall i a b, an_noname (NSeq i a) = an_noname (NSeq i b).
Proof. reflexivity. Qed.
Lemma noname_set : forall i a b, an_noname (NSet i a) = an_noname (NSet i b).
Proof. reflexivity. Qed.

(* ---------- tidy is kept by the two operations of the conflict resolution ---------- *)
Lemma subst_tidy : forall b repl d, is_leaf repl = true -> an_tidy d = true -> an_tidy (subst_named b repl d) = true.
Proof.
  intros b repl d Hl. induction d as [i v|i kvs IH|i els IH|i els IH] using node_ind'; intros H; try exact H.
  - change (subst_named b repl (NMap i kvs)) with
      (NMap i (map (fun kv => (fst kv, if hit b (snd kv) then repl else subst_named b repl (snd kv))) kvs)).
    simpl in H. apply andb_true_iff in H. destruct H as [Hn H]. cbn [an_tidy]. rewrite (noname_map i _ kvs), Hn. cbn [andb].
    rewrite forallb_forall in *. intros kv' Hin. apply in_map_iff in Hin. destruct Hin as [[k v] [<- Hin]]. cbn [fst snd].
    specialize (H (k, v) Hin). cbn [fst snd] in H. rewrite !andb_true_iff in H. destruct H as [[Hkl Hkn] Hv].
    rewrite Hkl, Hkn. simpl. destruct (hit b v).
    + destruct repl; try discriminate. reflexivity.
    + rewrite Forall_forall in IH. destruct (IH (k, v) Hin) as [_ IHv]. now apply IHv.
  - change (subst_named b repl (NSeq i els)) with
      (NSeq i (map (fun e => if hit b e then repl else subst_named b repl e) els)).
    simpl in H. apply andb_true_iff in H. destruct H as [Hn H]. cbn [an_tidy]. rewrite (noname_seq i _ els), Hn. cbn [andb].
    rewrite forallb_forall in *. intros e' Hin. apply in_map_iff in Hin. destruct Hin as [e [<- Hin]].
    destruct (hit b e).
    + destruct repl; try discriminate. reflexivity.
    + rewrite Forall_forall in IH. apply (IH e Hin). now apply H.
Qed.

Lemma subst_is_leaf : forall b repl d, is_leaf (subst_named b repl d) = is_leaf d.
Proof. intros b repl d. destruct d; reflexivity. Qed.

Lemma rho_is_leaf : forall ids nn d, is_leaf (rename_objs ids nn d) = is_leaf d.
Proof. intros ids nn d. destruct d; reflexivity. Qed.

Section RenameTidy.
Variable ids : list N.
Variable nn : string.
Notation rho := (rename_objs ids nn).

Lemma upd_out : forall n, an_in_ids ids n = false -> an_upd ids nn (node_info n) = node_info n.
Proof. intros n H. unfold an_upd. unfold an_in_ids, node_oid in H. now rewrite H. Qed.

Lemma rho_tidy : forall d,
  (forall q, In q (an_all d) -> an_in_ids ids q = true -> c10_name q <> None) ->
  an_tidy d = true -> an_tidy (rho d) = true.
Proof.
  induction d as [i v|i kvs IH|i els IH|i els IH] using node_ind'; intros Hq Ht; [reflexivity| | |].
  - assert (Hself : an_in_ids ids (NMap i kvs) = false).
    { destruct (an_in_ids ids (NMap i kvs)) eqn:E; [|reflexivity]. exfalso. apply (Hq _ (all_self _) E).
      simpl in Ht. apply andb_true_iff in Ht. now apply noname_not_named. }
    change (rho (NMap i kvs)) with (NMap (an_upd ids nn i) (map (fun kv => (rho (fst kv), rho (snd kv))) kvs)).
    pose proof (upd_out _ Hself) as Hu. simpl in Hu. rewrite Hu.
    simpl in Ht. apply andb_true_iff in Ht. destruct Ht as [Hn Ht]. cbn [an_tidy]. rewrite (noname_map i _ kvs), Hn. cbn [andb].
    rewrite forallb_forall in *. intros kv' Hin. apply in_map_iff in Hin. destruct Hin as [[k v] [<- Hin]]. cbn [fst snd].
    specialize (Ht (k, v) Hin). cbn [fst snd] in Ht. rewrite !andb_true_iff in Ht. destruct Ht as [[Hkl Hkn] Hv].
    assert (Sub : forall q, In q (an_all k) \/ In q (an_all v) -> In q (an_all (NMap i kvs))).
    { intros q Hq'. simpl. right. apply in_flat_map. exists (k, v). split; [assumption|]. apply in_or_app. exact Hq'. }
    assert (Hk : rho k = k).
    { apply rho_out; [exact Hkl|]. destruct (an_in_ids ids k) eqn:E; [|reflexivity]. exfalso.
      apply (Hq k (Sub k (or_introl (all_self k))) E). now apply noname_not_named. }
    rewrite Hk, Hkl, Hkn. simpl.
    rewrite Forall_forall in IH. destruct (IH (k, v) Hin) as [_ IHv]. apply IHv; [|exact Hv].
    intros q Hq1 Hq2. apply Hq; [|exact Hq2]. apply Sub. now right.
  - assert (Hself : an_in_ids ids (NSeq i els) = false).
    { destruct (an_in_ids ids (NSeq i els)) eqn:E; [|reflexivity]. exfalso. apply (Hq _ (all_self _) E).
      simpl in Ht. apply andb_true_iff in Ht. now apply noname_not_named. }
    change (rho (NSeq i els)) with (NSeq (an_upd ids nn i) (map rho els)).
    pose proof (upd_out _ Hself) as Hu. simpl in Hu. rewrite Hu.
    simpl in Ht. apply andb_true_iff in Ht. destruct Ht as [Hn Ht]. cbn [an_tidy]. rewrite (noname_seq i _ els), Hn. cbn [andb].
    rewrite forallb_forall in *. intros e' Hin. apply in_map_iff in Hin. destruct Hin as [e [<- Hin]].
    rewrite Forall_forall in IH. apply (IH e Hin); [|now apply Ht].
    intros q Hq1 Hq2. apply Hq; [|exact Hq2]. simpl. right. apply in_flat_map. exists e. auto.
  - assert (Hself : an_in_ids ids (NSet i els) = false).
    { destruct (an_in_ids ids (NSet i els)) eqn:E; [|reflexivity]. exfalso. apply (Hq _ (all_self _) E).
      simpl in Ht. apply andb_true_iff in Ht. now apply noname_not_named. }
    change (rho (NSet i els)) with (NSet (an_upd ids nn i) (map rho els)).
    pose proof (upd_out _ Hself) as Hu. simpl in Hu. rewrite Hu.
    simpl in Ht. apply andb_true_iff in Ht. destruct Ht as [Hn Ht]. cbn [an_tidy]. rewrite (noname_set i _ els), Hn. cbn [andb].
    rewrite forallb_forall in *. intros e' Hin. apply in_map_iff in Hin. destruct Hin as [e [<- Hin]].
    specialize (Ht e Hin). apply andb_true_iff in Ht. destruct Ht as [Hl Hne].
    assert (He : rho e = e).
    { apply rho_out; [exact Hl|]. destruct (an_in_ids ids e) eqn:E; [|reflexivity]. exfalso.
      assert (In e (an_all (NSet i els))) by (simpl; right; apply in_flat_map; exists e; split; [assumption|apply all_self]).
      apply (Hq e H E). now apply noname_not_named. }
    now rewrite He, Hl, Hne.
Qed.
End RenameTidy.

Lemma rename_tidy : forall a nn d, an_heap_ok d -> an_tidy d = true -> an_tidy (rename_anchor a nn d) = true.
Proof.
  intros a nn d Hh Ht. unfold rename_anchor. apply rho_tidy; [|exact Ht].
  intros q Hq Hi. unfold an_in_ids in Hi. apply existsb_exists in Hi. destruct Hi as [o [Ho Eo]].
  apply N.eqb_eq in Eo. subst o. destruct (reach_all a d _ Ho) as [q' [Hq' [Hh' Eq]]].
  assert (q' = q) by (apply Hh; assumption). subst q'.
  unfold an_has in Hh'. rewrite <- c10_name_an_name in Hh'. destruct (c10_name q); [discriminate|discriminate Hh'].
Qed.
