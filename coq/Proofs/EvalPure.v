(* C09 purity: no stream of a required query (or of exists()) ends in a document
   mutation -- for every path, collectors with +, - and & at any nesting level
   included (the subtraction works on a copy since the fix of F16). *)
From Coq Require Import List Ascii String ZArith NArith Bool Arith Lia.
From YP Require Import Outcome PyStr PyVal Doc Generated PathParser PathPrinter Searches Eval SpecC09.
Import ListNotations.
Open Scope string_scope.
Open Scope nat_scope.

Definition nomut {A} (g : gen A) : Prop := pure_stop (snd g).

Lemma nomut_gnil {A} : nomut (@gnil A). Proof. exact I. Qed.
Lemma nomut_gone {A} (x : A) : nomut (gone x). Proof. exact I. Qed.
Lemma nomut_gerr {A} e : nomut (@gerr A e). Proof. exact I. Qed.
Lemma nomut_gfuel {A} : nomut (@gfuel A). Proof. exact I. Qed.

Lemma nomut_gapp {A} (a : gen A) b : nomut a -> (forall u, nomut (b u)) -> nomut (gapp a b).
Proof.
  intros Ha Hb. destruct a as [l s]; destruct s; cbn in *; auto.
  specialize (Hb tt). destruct (b tt) as [l2 s2]; exact Hb.
Qed.

Lemma nomut_gfor {A B} (l : list A) (f : A -> gen B) : (forall x, nomut (f x)) -> nomut (gfor l f).
Proof. intros H. induction l as [|x r IH]; cbn; [exact I|]. apply nomut_gapp; auto. Qed.

Lemma nomut_gbind {A B} (g : gen A) (f : A -> gen B) : nomut g -> (forall x, nomut (f x)) -> nomut (gbind g f).
Proof.
  intros Hg Hf. unfold gbind. pose proof (nomut_gfor (fst g) f Hf) as H.
  destruct (gfor (fst g) f) as [l2 s2]; destruct s2; cbn in *; auto.
Qed.

Lemma nomut_glift {A B} (o : outcome A) (k : A -> gen B) : (forall a, nomut (k a)) -> nomut (glift o k).
Proof. intros H. destruct o; cbn; auto; exact I. Qed.

Lemma nomut_gfirst {A B} (g : gen A) (k : option A -> gen B) : nomut g -> (forall o, nomut (k o)) -> nomut (gfirst g k).
Proof. intros Hg Hk. destruct g as [[|x r] s]; cbn; auto. destruct s; cbn in *; auto. Qed.

Lemma nomut_all_gen {A B} (g : gen A) (k : list A -> gen B) : nomut g -> (forall l, nomut (k l)) -> nomut (all_gen g k).
Proof. intros Hg Hk. destruct g as [l s]; destruct s; cbn in *; auto. Qed.

Ltac pstep :=
  match goal with
  | |- nomut gnil => exact I
  | |- nomut (gone _) => exact I
  | |- nomut (gerr _) => exact I
  | |- nomut gfuel => exact I
  | |- nomut (gfor _ _) => apply nomut_gfor; intros
  | |- nomut (gapp _ _) => apply nomut_gapp; [|intros _]
  | |- nomut (glift _ _) => apply nomut_glift; intros
  | |- nomut (if ?b then _ else _) => destruct b eqn:?
  | |- nomut (match ?x with _ => _ end) => destruct x eqn:?
  | |- nomut (let '(_, _) := ?x in _) => destruct x eqn:?
  end.

Section Pure.
Variable lit : string -> outcome litres.
Variable re_search : string -> string -> outcome reres.
Variable nstr : node -> string.
Variable vstr : list rval -> string.
Variable kw_handler : bool -> keyword -> string -> rval -> ctx -> gen rval.
Variable creator : list pseg -> nat -> rval -> ctx -> gen rval.
Hypothesis kw_pure : forall inv k ps v c, nomut (kw_handler inv k ps v c).

Lemma by_key_pure self a v c : (forall e c', nomut (self e c')) -> nomut (by_key self a v c).
Proof. intros H. unfold by_key. repeat pstep; auto. Qed.

Lemma by_index_pure a v c : nomut (by_index a v c).
Proof. unfold by_index. repeat pstep. Qed.

Lemma by_anchor_pure a v c : nomut (by_anchor a v c).
Proof. unfold by_anchor. repeat pstep. Qed.

Lemma hash_desc_scan_pure m term inv items st matches (k : bool -> gen rval) :
  pure_stop st -> (forall b, nomut (k b)) ->
  nomut (hash_desc_scan lit re_search nstr vstr m term inv items st matches k).
Proof.
  intros Hst Hk. revert matches. induction items as [|d r IH]; intros matches; cbn.
  - destruct st; cbn in *; auto.
  - repeat pstep; auto.
Qed.

Lemma by_search_pure rq_sub inv m attr term v c :
  (forall e c', nomut (rq_sub e c')) -> nomut (by_search lit re_search nstr vstr rq_sub inv m attr term v c).
Proof.
  intros H. unfold by_search. repeat pstep.
  all: try (apply hash_desc_scan_pure; [apply H | intros; repeat pstep]).
  all: try (apply nomut_gfirst; [apply H | intros; repeat pstep]).
Qed.

Lemma match_all_unfiltered_pure v c : nomut (match_all_unfiltered v c).
Proof. unfold match_all_unfiltered. repeat pstep. Qed.

Lemma match_all_filtered_pure sg_next v c : (forall e c', nomut (sg_next e c')) -> nomut (match_all_filtered sg_next v c).
Proof.
  intros H. unfold match_all_filtered. repeat pstep.
  all: apply nomut_gfirst; [apply H | intros; repeat pstep].
Qed.

Lemma trav_pure sg_next last : (forall e c', nomut (sg_next e c')) ->
  forall tf v c, nomut (trav tf last sg_next v c).
Proof.
  intros H. induction tf as [|tf IH]; intros v c; [exact I|].
  cbn [trav]. repeat pstep; auto.
  all: try (apply nomut_gfirst; [apply H | intros; repeat pstep]).
Qed.

(* collectors.  Since the fix of F16 the subtraction removes pairs from a copy:
   [subtraction] has no [Mut] stop. *)
Lemma subtraction_pure rems lhs : nomut (subtraction rems lhs).
Proof. unfold subtraction. destruct (sub_scan rems lhs []); exact I. Qed.

Lemma peek_loop_pure rqp rest v c :
  (forall p e c', nomut (rqp p e c')) ->
  forall ncs k, (forall l, nomut (k l)) -> nomut (peek_loop rqp rest v c ncs k).
Proof.
  intros Hrq. induction rest as [|[es us s s2] r IH]; intros ncs k Hk; cbn [peek_loop]; auto.
  cbn [seg_es seg_sub2].
  destruct es as [ty a]. destruct ty as [[]|]; auto.
  destruct a; auto. destruct op; auto.
  - exact I.
  - apply nomut_all_gen; auto.
  - apply nomut_all_gen; auto. intros items. apply nomut_glift. intros rems.
    pose proof (subtraction_pure (List.concat rems) ncs) as Hs.
    destruct (subtraction (List.concat rems) ncs) as [l st]. destruct st; cbn in *; auto.
  - apply nomut_all_gen; auto.
Qed.

Lemma by_collector_pure rqp op ps rest v c :
  (forall p e c', nomut (rqp p e c')) ->
  nomut (by_collector rqp op ps rest v c).
Proof.
  intros Hrq. unfold by_collector. destruct op; try exact I.
  apply nomut_all_gen; auto. intros l.
  apply peek_loop_pure; auto. intros l2. destruct l2; exact I.
Qed.

Lemma dispatch_pure self sg_next rqp segs i v c :
  (forall e c', nomut (self e c')) -> (forall e c', nomut (sg_next e c')) ->
  (forall p e c', nomut (rqp p e c')) ->
  nomut (dispatch lit re_search nstr vstr kw_handler self sg_next rqp segs i v c).
Proof.
  intros Hs Hn Hr. unfold dispatch.
  destruct (nth_error segs i) as [ps|] eqn:En; [|exact I].
  destruct (seg_es ps) as [ty a]. destruct (seg_us ps) as [uty ua].
  destruct (_ && _ && _); [exact I|].
  destruct (unwrap_ctx v c) as [v1 c1].
  assert (Hfb : nomut (match uty, ua with
                       | Some TCollector, ACollector op _ => by_collector rqp op ps (skipn (S i) segs) v1 c1
                       | _, _ => if is_ty TTraverse ty
                                 then trav (S (vsize v1)) (negb (S i <? Datatypes.length segs)) sg_next v1 c1
                                 else gerr (PyCrash NotImplemented)
                       end)).
  { destruct uty as [[]|]; try (destruct (is_ty TTraverse ty); [apply trav_pure; auto | exact I]).
    destruct ua; try (destruct (is_ty TTraverse ty); [apply trav_pure; auto | exact I]).
    apply by_collector_pure; auto. }
  destruct ty as [[]|]; try exact Hfb.
  - apply by_anchor_pure.
  - apply by_index_pure.
  - apply by_key_pure; auto.
  - destruct a; try exact Hfb. apply by_search_pure; auto.
  - destruct a; try exact Hfb. apply kw_pure.
  - destruct (S i <? Datatypes.length segs); [apply match_all_filtered_pure; auto | apply match_all_unfiltered_pure].
Qed.

Lemma walk_pure sg_next rqp segs i :
  (forall e c', nomut (sg_next e c')) -> (forall p e c', nomut (rqp p e c')) ->
  forall vf v c, nomut (walk lit re_search nstr vstr kw_handler sg_next rqp segs i vf v c).
Proof.
  intros Hn Hr. induction vf as [|vf IH]; intros v c; [exact I|].
  cbn [walk]. apply dispatch_pure; auto.
Qed.

(* every path: the required driver and the per-segment driver never write *)
Lemma ev_pure : forall pf md segs i v c,
  md <> MOpt ->
  nomut (ev lit re_search nstr vstr kw_handler creator pf md segs i v c).
Proof.
  induction pf as [|pf IH]; intros md segs i v c Hmd; [exact I|].
  cbn [ev]. unfold ev_body.
  set (rqp := fun (p : ppath) (v : rval) (c : ctx) =>
                match p with PFail e => gerr e
                | PPath s => ev lit re_search nstr vstr kw_handler creator pf MReq s 0 v c end).
  assert (Hrq : forall p e c', nomut (rqp p e c')).
  { intros p e c'. unfold rqp. destruct p as [s|ex]; [|exact I]. apply IH; discriminate. }
  assert (Hnext : forall e c', nomut (ev lit re_search nstr vstr kw_handler creator pf MSeg segs (S i) e c')).
  { intros. apply IH; discriminate. }
  destruct md; try (exfalso; apply Hmd; reflexivity).
  - destruct (i <? Datatypes.length segs); [|exact I].
    apply nomut_gbind; [apply walk_pure; auto|].
    intros x. destruct (is_pylist x); [apply IH; discriminate|].
    destruct x; try exact I. apply IH; discriminate.
  - apply walk_pure; auto.
Qed.

Theorem get_required_pure p d :
  pure_stop (snd (get_required lit re_search nstr vstr kw_handler creator p d)).
Proof.
  unfold get_required.
  destruct d as [i v| | |]; try destruct v; try exact I.
  all: destruct p as [segs|e]; [|exact I].
  all: match goal with |- pure_stop (snd (match ?g with _ => _ end)) =>
         assert (Hg : nomut g) by (apply ev_pure; discriminate);
         destruct g as [[|x l] []]; cbn in *; auto
       end.
Qed.

Theorem exists_pure p d :
  pure_stop (snd (exists_ lit re_search nstr vstr kw_handler creator p d)).
Proof.
  unfold exists_.
  destruct d as [i v| | |]; try destruct v; try exact I.
  all: destruct p as [segs|e]; [|exact I].
  all: match goal with |- pure_stop (snd (match ?g with _ => _ end)) =>
         assert (Hg : nomut g) by (apply ev_pure; discriminate);
         destruct g as [l []]; cbn in *; auto
       end.
Qed.

End Pure.
