(* Python's == on loaded nodes (Diff.node_eq) coincides with the spec's data
   equality (C06Spec.data_eq) on well-formed documents without explicit tags. *)
From Coq Require Import List Ascii String ZArith NArith QArith Bool Arith Lia.
From YP Require Import Outcome PyStr PyVal Doc Diff C06Spec DiffBase.
Import ListNotations.
Close Scope Q_scope.
Open Scope nat_scope.

(* == on scalar values is Euclidean (hence, with reflexivity, an equivalence) *)
Lemma py_eq_eucl : forall x y z, py_eq x y = true -> py_eq x z = true -> py_eq y z = true.
Proof.
  intros x y z; destruct x, y, z; simpl; intros H1 H2; try discriminate; try reflexivity;
    try (apply Qeq_bool_iff; apply Qeq_bool_iff in H1; apply Qeq_bool_iff in H2;
         rewrite <- H1, <- H2; reflexivity);
    try (apply String.eqb_eq in H1; apply String.eqb_eq in H2; subst; apply String.eqb_refl).
Qed.

Lemma untagged_tag : forall n, untagged n = true -> tag (node_info n) = None.
Proof. intros n H. destruct n; simpl in *; destruct (tag i); auto; discriminate. Qed.

Lemma untagged_map_inv : forall i kvs, untagged (NMap i kvs) = true ->
  forall kv, In kv kvs -> untagged (snd kv) = true.
Proof.
  intros i kvs H. simpl in H. destruct (tag i); [discriminate|].
  induction kvs as [|x r IH]; simpl; intros kv Hin; [contradiction|].
  apply andb_true_iff in H; destruct H as [H Hr].
  apply andb_true_iff in H; destruct H as [_ Hv].
  destruct Hin as [->|Hin]; auto.
Qed.

Lemma untagged_seq_inv : forall i els, untagged (NSeq i els) = true ->
  forall x, In x els -> untagged x = true.
Proof.
  intros i els H. simpl in H. destruct (tag i); [discriminate|].
  induction els as [|y r IH]; simpl; intros x Hin; [contradiction|].
  apply andb_true_iff in H; destruct H as [Hy Hr].
  destruct Hin as [->|Hin]; auto.
Qed.

(* unfolding the nested fixpoints into list functions *)
Definition lookm (kv : node * node) (kvs' : list (node * node)) : bool :=
  match find (fun kv' => node_eq (fst kv) (fst kv')) kvs' with
  | Some kv' => node_eq (snd kv) (snd kv')
  | None => false
  end.

Lemma node_eq_map : forall i kvs j kvs',
  node_eq (NMap i kvs) (NMap j kvs') =
  Nat.eqb (List.length kvs) (List.length kvs') && forallb (fun kv => lookm kv kvs') kvs.
Proof.
  intros. simpl. f_equal.
  induction kvs as [|kv r IH]; simpl; auto. rewrite IH. f_equal. clear IH.
  unfold lookm. induction kvs' as [|kv' r' IH']; simpl; auto.
  destruct (node_eq (fst kv) (fst kv')); auto.
Qed.

Lemma data_eq_map : forall i kvs j kvs',
  data_eq (NMap i kvs) (NMap j kvs') =
  tag_eqb (tag i) (tag j) && Nat.eqb (List.length kvs) (List.length kvs') &&
  forallb (fun kv => existsb (fun kv' => py_eq (leaf_value (fst kv)) (leaf_value (fst kv'))
                                        && data_eq (snd kv) (snd kv')) kvs') kvs.
Proof.
  intros. reflexivity.
Qed.

Fixpoint forall2b {A} (f : A -> A -> bool) (l l' : list A) : bool :=
  match l, l' with
  | [], [] => true
  | x :: r, y :: r' => f x y && forall2b f r r'
  | _, _ => false
  end.

Lemma node_eq_seq : forall i els j els', node_eq (NSeq i els) (NSeq j els') = forall2b node_eq els els'.
Proof.
  intros. simpl. revert els'. induction els as [|x r IH]; destruct els'; simpl; auto.
  rewrite IH. reflexivity.
Qed.

Lemma data_eq_seq : forall i els j els',
  data_eq (NSeq i els) (NSeq j els') = tag_eqb (tag i) (tag j) && forall2b data_eq els els'.
Proof.
  intros. simpl. f_equal. revert els'. induction els as [|x r IH]; destruct els'; simpl; auto.
  rewrite IH. reflexivity.
Qed.

Lemma node_eq_set : forall i els j els',
  node_eq (NSet i els) (NSet j els') =
  Nat.eqb (List.length els) (List.length els') && forallb (fun x => existsb (fun y => node_eq x y) els') els.
Proof.
  intros. reflexivity.
Qed.

(* first match = some match, in a mapping with unique keys *)
Lemma lookm_exists : forall kv kvs',
  plain_leaf (fst kv) = true ->
  forallb (fun kv' => plain_leaf (fst kv')) kvs' = true ->
  nodup_vals (map (fun kv' => leaf_value (fst kv')) kvs') = true ->
  (forall kv', In kv' kvs' -> node_eq (snd kv) (snd kv') = data_eq (snd kv) (snd kv')) ->
  lookm kv kvs' =
  existsb (fun kv' => py_eq (leaf_value (fst kv)) (leaf_value (fst kv')) && data_eq (snd kv) (snd kv')) kvs'.
Proof.
  intros kv kvs' Hk. unfold lookm.
  induction kvs' as [|kv' r IH]; simpl; intros Hp Hn Hv; auto.
  apply andb_true_iff in Hp; destruct Hp as [Hk' Hr].
  apply andb_true_iff in Hn; destruct Hn as [Hfresh Hn].
  rewrite (node_eq_plain _ _ Hk Hk').
  change (key_val (fst kv)) with (leaf_value (fst kv)).
  change (key_val (fst kv')) with (leaf_value (fst kv')).
  destruct (py_eq (leaf_value (fst kv)) (leaf_value (fst kv'))) eqn:E; simpl.
  - rewrite (Hv kv' (or_introl eq_refl)).
    destruct (data_eq (snd kv) (snd kv')); simpl; auto.
    symmetry. apply not_true_is_false. intros Hex. apply existsb_exists in Hex.
    destruct Hex as [kv2 [Hin H2]]. apply andb_true_iff in H2; destruct H2 as [H2 _].
    apply negb_true_iff in Hfresh.
    assert (existsb (py_eq (leaf_value (fst kv'))) (map (fun kv0 => leaf_value (fst kv0)) r) = true).
    { apply existsb_exists. exists (leaf_value (fst kv2)). split.
      - apply in_map_iff. exists kv2; auto.
      - eapply py_eq_eucl; eauto. }
    congruence.
  - apply IH; auto.
Qed.

Lemma forallb_ext_in {A} (f g : A -> bool) : forall l, (forall x, In x l -> f x = g x) -> forallb f l = forallb g l.
Proof.
  induction l as [|x r IH]; simpl; intros H; auto.
  rewrite (H x (or_introl eq_refl)), IH; auto.
Qed.

Theorem node_eq_data_eq : forall a b,
  wf_doc a = true -> wf_doc b = true -> untagged a = true -> untagged b = true ->
  node_eq a b = data_eq a b.
Proof.
  induction a as [i v|i kvs IH|i els IH|i els IH] using node_ind'; intros b Hwa Hwb Hua Hub;
    destruct b as [j w|j kvs'|j els'|j els']; try reflexivity.
  - simpl. unfold leaf_eq, is_tagged.
    pose proof (untagged_tag _ Hua) as Ti. pose proof (untagged_tag _ Hub) as Tj. simpl in Ti, Tj.
    rewrite Ti, Tj. reflexivity.
  - rewrite node_eq_map, data_eq_map.
    pose proof (untagged_tag _ Hua) as Ti. pose proof (untagged_tag _ Hub) as Tj. simpl in Ti, Tj.
    rewrite Ti, Tj. simpl.
    destruct (wf_map_inv _ _ Hwa) as [Ap [An Av]].
    destruct (wf_map_inv _ _ Hwb) as [Bp [Bn Bv]].
    f_equal. apply forallb_ext_in. intros kv Hin.
    apply lookm_exists; auto.
    + rewrite forallb_forall in Ap. apply Ap; auto.
    + intros kv' Hin'. rewrite Forall_forall in IH. destruct (IH kv Hin) as [_ IHv].
      apply IHv; [apply Av; auto | apply Bv; auto
                 | exact (untagged_map_inv _ _ Hua kv Hin) | exact (untagged_map_inv _ _ Hub kv' Hin')].
  - rewrite node_eq_seq, data_eq_seq.
    pose proof (untagged_tag _ Hua) as Ti. pose proof (untagged_tag _ Hub) as Tj. simpl in Ti, Tj.
    rewrite Ti, Tj. simpl.
    pose proof (wf_seq_inv _ _ Hwa) as Aw. pose proof (wf_seq_inv _ _ Hwb) as Bw.
    pose proof (untagged_seq_inv _ _ Hua) as Au. pose proof (untagged_seq_inv _ _ Hub) as Bu.
    clear Hwa Hwb Hua Hub Ti Tj.
    revert els' Bw Bu. induction els as [|x r IHr]; intros els' Bw Bu; destruct els' as [|y r']; simpl; auto.
    inversion IH; subst. f_equal.
    + apply H1; [apply Aw | apply Bw | apply Au | apply Bu]; left; reflexivity.
    + apply IHr; auto; intros z Hz; [apply Aw | apply Au | apply Bw | apply Bu]; right; exact Hz.
  - rewrite node_eq_set. simpl.
    pose proof (untagged_tag _ Hua) as Ti. pose proof (untagged_tag _ Hub) as Tj. simpl in Ti, Tj.
    rewrite Ti, Tj. simpl. f_equal.
    destruct (wf_set_inv _ _ Hwa) as [Ap _]. destruct (wf_set_inv _ _ Hwb) as [Bp _].
    apply forallb_ext_in. intros x Hx.
    assert (Px : plain_leaf x = true) by (rewrite forallb_forall in Ap; auto).
    clear - Px Bp. induction els' as [|y r IHr]; simpl; auto.
    simpl in Bp. apply andb_true_iff in Bp; destruct Bp as [Py Pr].
    rewrite (node_eq_plain _ _ Px Py). rewrite IHr; auto.
Qed.

Lemma untagged_set_inv : forall i els, untagged (NSet i els) = true ->
  forall x, In x els -> untagged x = true.
Proof.
  intros i els H. simpl in H. destruct (tag i); [discriminate|].
  induction els as [|y r IH]; simpl; intros x Hin; [contradiction|].
  apply andb_true_iff in H; destruct H as [Hy Hr].
  destruct Hin as [->|Hin]; auto.
Qed.

Lemma untagged_child : forall n r c, untagged n = true -> child n r = Some c -> untagged c = true.
Proof.
  intros n r c Hu Hc. destruct n, r; simpl in Hc; try discriminate.
  - destruct (assoc_key_some_in _ _ _ Hc) as [kn Hin]. exact (untagged_map_inv _ _ Hu (kn, c) Hin).
  - apply nth_error_In in Hc. eapply untagged_seq_inv; eauto.
  - apply find_member_some_in in Hc. eapply untagged_set_inv; eauto.
Qed.

Lemma untagged_lookup : forall l n c, untagged n = true -> lookup n l = Some c -> untagged c = true.
Proof.
  induction l as [|r l IH]; simpl; intros n c Hu H.
  - inversion H; subst; auto.
  - destruct (child n r) eqn:E; try discriminate.
    eapply IH; [eapply untagged_child; eauto | exact H].
Qed.

(* SAME / CHANGE entries of a positional diff, against the spec's data equality *)
From YP Require Import DiffPos.

Lemma positional_same_change :
  forall path_eq cfg L R es,
    positional cfg -> wf_doc L = true -> wf_doc R = true ->
    untagged L = true -> untagged R = true ->
    compare_to path_eq cfg L R = Ok es ->
    Forall (fun e => same_ok e /\ change_ok e) es.
Proof.
  intros path_eq cfg L R es Hp HL HR UL UR H.
  pose proof (compare_to_good path_eq cfg Hp L R HL HR es H) as G.
  eapply Forall_impl; [ | exact G].
  intros e [[TL TR] [S C]].
  assert (B : e_action e = ASame \/ e_action e = AChange ->
              node_eq (e_lhs e) (e_rhs e) = data_eq (e_lhs e) (e_rhs e)).
  { intros HA.
    assert (HLft : has_left e = true) by (unfold has_left; destruct HA as [-> | ->]; reflexivity).
    assert (HRgt : has_right e = true) by (unfold has_right; destruct HA as [-> | ->]; reflexivity).
    specialize (TL HLft). specialize (TR HRgt).
    apply node_eq_data_eq.
    - exact (wf_lookup _ _ _ HL TL).
    - exact (wf_lookup _ _ _ HR TR).
    - exact (untagged_lookup _ _ _ UL TL).
    - exact (untagged_lookup _ _ _ UR TR). }
  split.
  - intros HA. rewrite <- (B (or_introl HA)). exact (S HA).
  - intros HA. rewrite <- (B (or_intror HA)). exact (C HA).
Qed.

Lemma positional_same_equal :
  forall path_eq cfg L R es,
    positional cfg -> wf_doc L = true -> wf_doc R = true ->
    untagged L = true -> untagged R = true ->
    compare_to path_eq cfg L R = Ok es -> Forall same_ok es.
Proof.
  intros path_eq cfg L R es Hp HL HR UL UR H.
  pose proof (positional_same_change path_eq cfg L R es Hp HL HR UL UR H) as G.
  eapply Forall_impl; [ | exact G]. intros e [S _]; exact S.
Qed.

Lemma positional_change_differs :
  forall path_eq cfg L R es,
    positional cfg -> wf_doc L = true -> wf_doc R = true ->
    untagged L = true -> untagged R = true ->
    compare_to path_eq cfg L R = Ok es -> Forall change_ok es.
Proof.
  intros path_eq cfg L R es Hp HL HR UL UR H.
  pose proof (positional_same_change path_eq cfg L R es Hp HL HR UL UR H) as G.
  eapply Forall_impl; [ | exact G]. intros e [_ C]; exact C.
Qed.

(* ---- refutation witnesses (known finding F1: tags) ---- *)
Definition dflt_cfg : dcfg := mkdcfg false [] [] None None None None.

Definition tagged_b (o : N) : node := NLeaf (mkinfo o None false (Some "x"%string)) (POther "b"%string).

Lemma change_differs_refuted_witness :
  exists L R es, wf_doc L = true /\ wf_doc R = true /\
    compare_to path_eq_real dflt_cfg L R = Ok es /\ ~ Forall change_ok es.
Proof.
  exists (tagged_b 1), (tagged_b 2), [mkentry AChange ""%string [] (tagged_b 1) (tagged_b 2)].
  repeat split; try (vm_compute; reflexivity).
  intros F. inversion F as [|e r Hc _]; subst. specialize (Hc eq_refl). vm_compute in Hc. discriminate.
Qed.

Definition tmap (o k v : N) (t : string) : node :=
  NMap (mkinfo o None true (Some t))
       [(NLeaf (mkinfo k None false None) (PStr "x"%string), NLeaf (mkinfo v None false None) (PInt 1))].
Definition seq1 (o : N) (x : node) : node := NSeq (mkinfo o None true None) [x].

Lemma same_equal_refuted_witness :
  exists L R es, wf_doc L = true /\ wf_doc R = true /\
    compare_to path_eq_real dflt_cfg L R = Ok es /\ ~ Forall same_ok es.
Proof.
  exists (seq1 0 (tmap 1 2 3 "a")), (seq1 4 (tmap 5 2 3 "b")),
         [mkentry ASame "[0]"%string [RIdx 0] (tmap 1 2 3 "a") (tmap 5 2 3 "b")].
  repeat split; try (vm_compute; reflexivity).
  intros F. inversion F as [|e r Hc _]; subst. specialize (Hc eq_refl). vm_compute in Hc. discriminate.
Qed.
