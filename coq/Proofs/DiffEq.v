(* The differ's value comparison Differ._same_data (Diff.val_eq) coincides with
   the spec's data equality (C06Spec.data_eq) on well-formed documents - tags
   included (the repair of finding F1; before it values were compared with
   Python's ==, which is identity on TaggedScalars and ignores container tags). *)
From Coq Require Import List Ascii String ZArith NArith QArith Bool Arith Lia.
From YP Require Import Outcome PyStr PyVal Doc Diff C06Spec DiffBase.
Import ListNotations.
Close Scope Q_scope.
Open Scope nat_scope.

(* == on scalar values is Euclidean (hence, with reflexivity, an equivalence) *)
Lemma py_eq_eucl : forall x y z, py_eq x y = true -> py_eq x z = true -> py_eq y z = true.
Proof.
  intros x y z; destruct x, y, z; simpl; intros H1 H2; try discriminate; try reflexivity;
    try (apply Qeq_bool_iff; apply Qeq_bool_iff in H1; apply Qeq_bool_iff in H2;
         rewrite <- H1, <- H2; reflexivity);
    try (apply String.eqb_eq in H1; apply String.eqb_eq in H2; subst; apply String.eqb_refl).
Qed.

Lemma py_eq_comm : forall x y, py_eq x y = py_eq y x.
Proof.
  intros x y. destruct (py_eq x y) eqn:E1, (py_eq y x) eqn:E2; auto.
  - pose proof (py_eq_eucl x y x E1 (py_eq_refl x)). congruence.
  - pose proof (py_eq_eucl y x y E2 (py_eq_refl y)). congruence.
Qed.

Lemma opt_str_tag_eqb : forall a b, opt_str_eqb a b = tag_eqb a b.
Proof. intros [x|] [y|]; reflexivity. Qed.

(* unfolding the nested fixpoints into list functions *)
Definition lookv (f : node -> node -> bool) (kv : node * node) (kvs' : list (node * node)) : bool :=
  match map_get (fst kv) kvs' with
  | Some v' => f (snd kv) v'
  | None => false
  end.

Lemma val_eq_map : forall i kvs j kvs',
  val_eq (NMap i kvs) (NMap j kvs') =
  tag_eqb (tag i) (tag j) &&
  (Nat.eqb (List.length kvs) (List.length kvs') && forallb (fun kv => lookv val_eq kv kvs') kvs).
Proof.
  intros. simpl. rewrite opt_str_tag_eqb. reflexivity.
Qed.

Lemma data_eq_map : forall i kvs j kvs',
  data_eq (NMap i kvs) (NMap j kvs') =
  tag_eqb (tag i) (tag j) && Nat.eqb (List.length kvs) (List.length kvs') &&
  forallb (fun kv => existsb (fun kv' => py_eq (leaf_value (fst kv)) (leaf_value (fst kv'))
                                        && data_eq (snd kv) (snd kv')) kvs') kvs.
Proof.
  intros. reflexivity.
Qed.

Lemma forall2b_length {A} (f : A -> A -> bool) : forall l l', forall2b f l l' = true -> List.length l = List.length l'.
Proof.
  induction l as [|x r IH]; destruct l'; simpl; intros H; try discriminate; auto.
  apply andb_true_iff in H. destruct H as [_ H]. f_equal. auto.
Qed.

Lemma val_eq_seq : forall i els j els',
  val_eq (NSeq i els) (NSeq j els') = tag_eqb (tag i) (tag j) && forall2b val_eq els els'.
Proof.
  intros. simpl. rewrite opt_str_tag_eqb. f_equal.
  revert els'. induction els as [|x r IH]; destruct els' as [|y r']; simpl; auto.
  rewrite <- IH. change (Nat.eqb (S (List.length r)) (S (List.length r'))) with (Nat.eqb (List.length r) (List.length r')).
  destruct (Nat.eqb (List.length r) (List.length r')); simpl; auto. rewrite andb_false_r. reflexivity.
Qed.

Lemma data_eq_seq : forall i els j els',
  data_eq (NSeq i els) (NSeq j els') = tag_eqb (tag i) (tag j) && forall2b data_eq els els'.
Proof.
  intros. simpl. f_equal. revert els'. induction els as [|x r IH]; destruct els'; simpl; auto.
  rewrite IH. reflexivity.
Qed.

Lemma node_eq_set : forall i els j els',
  node_eq (NSet i els) (NSet j els') =
  Nat.eqb (List.length els) (List.length els') && forallb (fun x => existsb (fun y => node_eq x y) els') els.
Proof.
  intros. reflexivity.
Qed.

Lemma val_eq_set : forall i els j els',
  val_eq (NSet i els) (NSet j els') = tag_eqb (tag i) (tag j) && node_eq (NSet i els) (NSet j els').
Proof. intros. simpl. rewrite opt_str_tag_eqb. reflexivity. Qed.

Lemma val_eq_leaf : forall i v j w,
  val_eq (NLeaf i v) (NLeaf j w) = tag_eqb (tag i) (tag j) && py_eq v w.
Proof.
  intros. simpl. rewrite opt_str_tag_eqb. unfold leaf_eq, is_tagged.
  destruct (tag i), (tag j); simpl; reflexivity.
Qed.

(* `key in rhs and same(val, rhs[key])` = some item with an equal key holds the
   same data, in a mapping with unique keys *)
Lemma lookv_exists : forall kv kvs',
  plain_leaf (fst kv) = true ->
  forallb (fun kv' => plain_leaf (fst kv')) kvs' = true ->
  nodup_vals (map (fun kv' => leaf_value (fst kv')) kvs') = true ->
  (forall kv', In kv' kvs' -> val_eq (snd kv) (snd kv') = data_eq (snd kv) (snd kv')) ->
  lookv val_eq kv kvs' =
  existsb (fun kv' => py_eq (leaf_value (fst kv)) (leaf_value (fst kv')) && data_eq (snd kv) (snd kv')) kvs'.
Proof.
  intros kv kvs' Hk. unfold lookv, map_get.
  induction kvs' as [|kv' r IH]; simpl; intros Hp Hn Hv; auto.
  apply andb_true_iff in Hp; destruct Hp as [Hk' Hr].
  apply andb_true_iff in Hn; destruct Hn as [Hfresh Hn].
  rewrite (node_eq_plain _ _ Hk' Hk).
  change (key_val (fst kv)) with (leaf_value (fst kv)).
  change (key_val (fst kv')) with (leaf_value (fst kv')).
  rewrite (py_eq_comm (leaf_value (fst kv')) (leaf_value (fst kv))).
  destruct (py_eq (leaf_value (fst kv)) (leaf_value (fst kv'))) eqn:E; simpl.
  - rewrite (Hv kv' (or_introl eq_refl)).
    destruct (data_eq (snd kv) (snd kv')); simpl; auto.
    symmetry. apply not_true_is_false. intros Hex. apply existsb_exists in Hex.
    destruct Hex as [kv2 [Hin H2]]. apply andb_true_iff in H2; destruct H2 as [H2 _].
    apply negb_true_iff in Hfresh.
    assert (existsb (py_eq (leaf_value (fst kv'))) (map (fun kv0 => leaf_value (fst kv0)) r) = true).
    { apply existsb_exists. exists (leaf_value (fst kv2)). split.
      - apply in_map_iff. exists kv2; auto.
      - eapply py_eq_eucl; eauto. }
    congruence.
  - apply IH; auto.
Qed.

Lemma forallb_ext_in {A} (f g : A -> bool) : forall l, (forall x, In x l -> f x = g x) -> forallb f l = forallb g l.
Proof.
  induction l as [|x r IH]; simpl; intros H; auto.
  rewrite (H x (or_introl eq_refl)), IH; auto.
Qed.

Lemma wf_set_tag : forall i els, wf_doc (NSet i els) = true -> tag i = None.
Proof. intros i els H. simpl in H. destruct (tag i); auto; discriminate. Qed.

Theorem val_eq_data_eq : forall a b,
  wf_doc a = true -> wf_doc b = true -> val_eq a b = data_eq a b.
Proof.
  induction a as [i v|i kvs IH|i els IH|i els IH] using node_ind'; intros b Hwa Hwb;
    destruct b as [j w|j kvs'|j els'|j els'];
    try (simpl; apply andb_false_r).
  - apply val_eq_leaf.
  - rewrite val_eq_map, data_eq_map, <- andb_assoc.
    destruct (wf_map_inv _ _ Hwa) as [Ap [An Av]].
    destruct (wf_map_inv _ _ Hwb) as [Bp [Bn Bv]].
    f_equal. f_equal. apply forallb_ext_in. intros kv Hin.
    apply lookv_exists; auto.
    + rewrite forallb_forall in Ap. apply Ap; auto.
    + intros kv' Hin'. rewrite Forall_forall in IH. destruct (IH kv Hin) as [_ IHv].
      apply IHv; [apply Av; auto | apply Bv; auto].
  - rewrite val_eq_seq, data_eq_seq. f_equal.
    pose proof (wf_seq_inv _ _ Hwa) as Aw. pose proof (wf_seq_inv _ _ Hwb) as Bw.
    clear Hwa Hwb.
    revert els' Bw. induction els as [|x r IHr]; intros els' Bw; destruct els' as [|y r']; simpl; auto.
    inversion IH; subst. f_equal.
    + apply H1; [apply Aw | apply Bw]; left; reflexivity.
    + apply IHr; auto; intros z Hz; [apply Aw | apply Bw]; right; exact Hz.
  - rewrite val_eq_set, node_eq_set. simpl.
    rewrite (wf_set_tag _ _ Hwa), (wf_set_tag _ _ Hwb). simpl. f_equal.
    destruct (wf_set_inv _ _ Hwa) as [Ap _]. destruct (wf_set_inv _ _ Hwb) as [Bp _].
    apply forallb_ext_in. intros x Hx.
    assert (Px : plain_leaf x = true) by (rewrite forallb_forall in Ap; auto).
    clear - Px Bp. induction els' as [|y r IHr]; simpl; auto.
    simpl in Bp. apply andb_true_iff in Bp; destruct Bp as [Py Pr].
    rewrite (node_eq_plain _ _ Px Py). rewrite IHr; auto.
Qed.

(* SAME / CHANGE entries of a positional diff, against the spec's data equality *)
From YP Require Import DiffPos.

Lemma positional_same_change :
  forall path_eq cfg L R es,
    positional cfg -> wf_doc L = true -> wf_doc R = true ->
    compare_to path_eq cfg L R = Ok es ->
    Forall (fun e => same_ok e /\ change_ok e) es.
Proof.
  intros path_eq cfg L R es Hp HL HR H.
  pose proof (compare_to_good path_eq cfg Hp L R HL HR es H) as G.
  eapply Forall_impl; [ | exact G].
  intros e [[TL TR] [S C]].
  assert (B : e_action e = ASame \/ e_action e = AChange ->
              val_eq (e_lhs e) (e_rhs e) = data_eq (e_lhs e) (e_rhs e)).
  { intros HA.
    assert (HLft : has_left e = true) by (unfold has_left; destruct HA as [-> | ->]; reflexivity).
    assert (HRgt : has_right e = true) by (unfold has_right; destruct HA as [-> | ->]; reflexivity).
    specialize (TL HLft). specialize (TR HRgt).
    apply val_eq_data_eq.
    - exact (wf_lookup _ _ _ HL TL).
    - exact (wf_lookup _ _ _ HR TR). }
  split.
  - intros HA. rewrite <- (B (or_introl HA)). exact (S HA).
  - intros HA. rewrite <- (B (or_intror HA)). exact (C HA).
Qed.

Lemma positional_same_equal :
  forall path_eq cfg L R es,
    positional cfg -> wf_doc L = true -> wf_doc R = true ->
    compare_to path_eq cfg L R = Ok es -> Forall same_ok es.
Proof.
  intros path_eq cfg L R es Hp HL HR H.
  pose proof (positional_same_change path_eq cfg L R es Hp HL HR H) as G.
  eapply Forall_impl; [ | exact G]. intros e [S _]; exact S.
Qed.

Lemma positional_change_differs :
  forall path_eq cfg L R es,
    positional cfg -> wf_doc L = true -> wf_doc R = true ->
    compare_to path_eq cfg L R = Ok es -> Forall change_ok es.
Proof.
  intros path_eq cfg L R es Hp HL HR H.
  pose proof (positional_same_change path_eq cfg L R es Hp HL HR H) as G.
  eapply Forall_impl; [ | exact G]. intros e [_ C]; exact C.
Qed.

(* ---- the former refutation witnesses of finding F1 (tags), now positive ---- *)
Definition dflt_cfg : dcfg := mkdcfg false [] [] None None None None.

Definition tagged_b (o : N) : node := NLeaf (mkinfo o None false (Some "x"%string)) (POther "b"%string).

Definition tmap (o k v : N) (t : string) : node :=
  NMap (mkinfo o None true (Some t))
       [(NLeaf (mkinfo k None false None) (PStr "x"%string), NLeaf (mkinfo v None false None) (PInt 1))].
Definition seq1 (o : N) (x : node) : node := NSeq (mkinfo o None true None) [x].
