(* C16 -- yaml-merge's glue composed with the library models of its pairwise merge:
   Merger(l).merge_with(r) = Merge.merge_root (default insertion point) or
   CliLibSet.lib_merge_at (--mergeat P on an existing path: Eval.get_optional gathering the
   targets, MergeAt.merge_at merging into them).  Generic in the node-level merge [m]. *)
From Coq Require Import List Ascii String ZArith NArith Bool Arith Lia.
From YP Require Import Outcome PyStr PyVal Doc PathParser Searches.
From YP Require Import Cli CliSpec CliMerge CliLibSpec CliLibSet.
Import ListNotations.
Open Scope list_scope.

Section MergeCompose.
  Variable doc_of : nat -> node.
  Variable id_of : node -> nat.
  Variable m : node -> node -> outcome node.     (* the library model of one merge_with *)

  (* the left-to-right fold of the library merges over DOCUMENTS *)
  Fixpoint fold_nodes (d : node) (rs : list node) : outcome node :=
    match rs with
    | [] => Ok d
    | r :: rest => match m d r with Ok x => fold_nodes x rest | other => other end
    end.

  (* the identifiers are coherent along that fold: the document behind the identifier of every
     intermediate result is that result *)
  Fixpoint fold_coherent (d : node) (rs : list node) : Prop :=
    match rs with
    | [] => True
    | r :: rest => match m d r with Ok x => doc_of (id_of x) = x /\ fold_coherent x rest | _ => True end
    end.

  Lemma fold_merge_lib : forall rs d D,
    fold_nodes (doc_of d) (map doc_of rs) = Ok D -> fold_coherent (doc_of d) (map doc_of rs) ->
    doc_of (fold_merge (merge2_of doc_of id_of m) d rs) = D.
  Proof.
    induction rs as [|r rest IH]; intros d D H C; simpl in *.
    - inversion H; reflexivity.
    - unfold fold_merge in *. simpl. unfold merge2_of at 2.
      destruct (m (doc_of d) (doc_of r)) as [x| |] eqn:E; try discriminate.
      destruct C as [C1 C2]. simpl. apply IH; rewrite C1; assumption.
  Qed.

  Lemma clean_of_total :
    (forall l r, exists x, m (doc_of l) (doc_of r) = Ok x) -> merges_clean (merge2_of doc_of id_of m).
  Proof. intros H l r. unfold merge2_of. destruct (H l r) as [x ->]. reflexivity. Qed.

  (* yaml-merge, default mode: glue o library merge *)
  Theorem merge_e2e : forall flow jview estr a tty srcs stdin_src nerr vl n',
    (forall l r, exists x, m (doc_of l) (doc_of r) = Ok x) ->
    ma_mode a = CondenseAll ->
    merge_validate a (List.length srcs) (map s_name srcs) tty = (nerr, vl, n') -> nerr = 0 -> ma_config_err a = None ->
    Forall (src_loads estr) srcs ->
    (stdin_waits_m a tty srcs = true -> src_loads estr stdin_src) ->
    ma_backup a && negb (ma_overwrite_exists a) = false ->
    forall d rest D,
      flat_map (src_docs estr) srcs ++ (if stdin_waits_m a tty srcs then src_docs estr stdin_src else []) = d :: rest ->
      fold_nodes (doc_of d) (map doc_of rest) = Ok D -> fold_coherent (doc_of d) (map doc_of rest) ->
      let run := cli_merge_main (merge2_of doc_of id_of m) flow jview estr a tty srcs stdin_src in
      exists i, doc_of i = D /\
        r_status run = Exit 0 /\
        delivered run = [(doc_is_json flow a i, [prepared flow jview a (prepared flow jview a i)])].
  Proof.
    intros flow jview estr a tty srcs stdin_src nerr vl n' Ht Hm Hv Hn Hc Hl Hs Hb d rest D Hd Hf Hco. cbv zeta.
    destruct (merge_output_condense (merge2_of doc_of id_of m) flow jview estr a tty srcs stdin_src nerr vl n'
                (clean_of_total Ht) Hm Hv Hn Hc Hl Hs Hb d rest Hd) as [S Dl].
    exists (fold_merge (merge2_of doc_of id_of m) d rest).
    split; [apply fold_merge_lib; assumption|]. split; assumption.
  Qed.
End MergeCompose.

(* ------------------------------------------------------------------ *)
(* --mergeat P on an existing path: what one library step is (C11 applies to it) *)
From YP Require Eval MergeConfig Merge MergeAt MergeAtProofs.

Section MergeAtCompose.
  Variable lit : string -> outcome litres.
  Variable re_search : string -> string -> outcome reres.
  Variable nstr : node -> string.
  Variable vstr : list Eval.rval -> string.
  Variable kw_handler : bool -> keyword -> string -> Eval.rval -> Eval.ctx -> Eval.gen Eval.rval.
  Variable creator : list Eval.pseg -> nat -> Eval.rval -> Eval.ctx -> Eval.gen Eval.rval.
  Variable cfg : MergeConfig.mconfig.

  (* a completed step is MergeAt.merge_at on the locations of the evaluator's answer; hence
     (C11_frame) every location that leaves all of them holds what it held *)
  Theorem mergeat_step : forall p l r out,
    lib_merge_at lit re_search nstr vstr kw_handler creator cfg p l r = Ok out ->
    exists items ts,
      Eval.get_optional lit re_search nstr vstr kw_handler creator p l = (items, Eval.Done) /\
      target_locs items = Some ts /\
      MergeAt.merge_at lit cfg (match p with Eval.PPath [] => true | _ => false end) ts l r = Ok out /\
      (forall q, Forall (fun t => MergeAtProofs.leaves t q) ts -> lookup out q = lookup l q).
  Proof.
    intros p l r out H. unfold lib_merge_at in H.
    destruct (Eval.get_optional lit re_search nstr vstr kw_handler creator p l) as [items st].
    destruct st; try discriminate.
    destruct (target_locs items) as [ts|] eqn:Et; [|discriminate].
    exists items, ts. repeat split; auto.
    intros q Hq. eapply MergeAtProofs.merge_at_frame; eassumption.
  Qed.
End MergeAtCompose.
