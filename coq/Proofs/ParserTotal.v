(* C14: lifting the one-rule-chain invariant lemma to the whole parse. *)
From Coq Require Import List Ascii String ZArith Bool Arith Lia.
From YP Require Import Outcome PyStr Generated PathParser PathPrinter ParserStep.
Import ListNotations.
Open Scope string_scope.
Open Scope nat_scope.

Lemma pre_step_spec s c :
  Inv s -> Inv (pre_step s c) /\ dcount (pre_step s c) = List.length (stack (pre_step s c)).
Proof.
  intros HI. unfold pre_step. cbn.
  destruct (ncmb s) as [m|]; [destruct (Ascii.eqb c m)|]; cbn; split; auto.
Qed.

Lemma step_good strip sepc s c : Inv s -> goodst (step strip sepc s c).
Proof.
  intros HI. unfold step.
  destruct (pre_step_spec s c HI) as [HI0 Hd0].
  pose proof (first_rule_good strip sepc _ c HI0 Hd0) as G.
  destruct (first_rule (rules strip sepc) (pre_step s c) c) as [[s' b]|e|]; cbn in *; auto.
  destruct b; cbn; auto.
Qed.

Lemma run_good strip sepc str : forall s, Inv s -> goodst (run strip sepc s str).
Proof.
  induction str as [|c r IH]; intros s HI; cbn; auto.
  pose proof (step_good strip sepc s c HI) as G.
  destruct (step strip sepc s c) as [s'|e|]; cbn in *; auto.
Qed.

Lemma finish_ok s : ok_or_ype (finish s).
Proof.
  unfold finish.
  repeat match goal with |- context[if ?b then _ else _] => destruct b end;
    try (right; eauto; fail).
  destruct (flush_expand_spec s) as [[s' [-> _]]|[k ->]]; cbn; [left|right]; eauto.
Qed.

Lemma init_inv b : Inv (init_pst b).
Proof. unfold Inv; cbn; discriminate. Qed.

Lemma nth_char_lt n s : n < String.length s -> nth_char n s <> None.
Proof.
  unfold nth_char. revert n; induction s as [|c r IH]; intros n H; cbn in *; [lia|].
  destruct n; [discriminate | apply IH; lia].
Qed.

Theorem parse_total m strip text : ok_or_ype (parse m strip text).
Proof.
  unfold parse.
  destruct (normalize_original text) as [|c0 rest] eqn:E; [left; eauto|].
  set (orig := String c0 rest) in *.
  set (pos := match effective_sep m orig with
              | Some Slash => if 1 <? String.length orig then 1 else 0
              | _ => 0 end).
  assert (Hpos : pos < String.length orig).
  { unfold pos. destruct (effective_sep m orig) as [[|]|]; cbn; try lia.
    destruct (String.length rest) eqn:L; cbn; lia. }
  destruct (nth_char pos orig) as [c1|] eqn:En; [|exfalso; eapply nth_char_lt; eauto].
  pose proof (run_good strip (sepc_of (effective_sep m orig)) orig _ (init_inv (Ascii.eqb c1 "&"%char))) as G.
  destruct (run strip _ _ orig) as [s'|e|]; cbn in *.
  - apply finish_ok.
  - destruct e; try contradiction. right; eauto.
  - contradiction.
Qed.

Theorem path_str_total m text : ok_or_ype (path_str m text).
Proof.
  unfold path_str.
  destruct (parse_total m false text) as [[a ->]|[k ->]]; cbn; [left|right]; eauto.
Qed.

(* SearchKeywordTerms.parameters: a list, or ValueError for unmatched quotes *)
Definition list_or_valueerror (o : outcome (list string)) : Prop :=
  (exists l, o = Ok l) \/ o = Raise (PyCrash ValueError).

Lemma kstep_ok s c : exists s', kstep s c = Ok s'.
Proof.
  unfold kstep.
  repeat match goal with
         | |- context[if ?b then _ else _] => destruct b eqn:?
         | |- context[match k_stack ?s with _ => _ end] => destruct (k_stack s) eqn:?
         end; cbn in *; eauto; discriminate.
Qed.

Lemma krun_ok str : forall s, exists s', krun s str = Ok s'.
Proof.
  induction str as [|c r IH]; intros s; cbn; eauto.
  destruct (kstep_ok s c) as [s' ->]; cbn. apply IH.
Qed.

Theorem keyword_parameters_total raw : list_or_valueerror (keyword_parameters raw).
Proof.
  unfold keyword_parameters.
  destruct (krun_ok raw (mkkst "" [] false [])) as [s' ->]; cbn.
  destruct (List.length (k_stack s')); cbn; [left; eexists; reflexivity | right; reflexivity].
Qed.
