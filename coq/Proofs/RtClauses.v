(* C08: clauses 2-4 of the property -- canonical string, fixed point, ==. *)
From Coq Require Import List Ascii String ZArith Bool Arith Lia.
From YP Require Import Outcome PyStr Generated PathParser PathPrinter C08Spec RtStep RtSeg RtInt RtRender RtTables RtCanon.
Import ListNotations.
Open Scope string_scope.
Open Scope nat_scope.

Lemma wfc_split sp l : wfc sp l = true -> wf sp l = true /\ forallb wfc_seg l = true.
Proof. unfold wfc. intros H. apply andb_true_iff in H. exact H. Qed.

Lemma wf_split sp l : wf sp l = true -> wf_go false l = true /\ (is_nil l || nonblank (render_ref sp l)) = true.
Proof. unfold wf. intros H. apply andb_true_iff in H. exact H. Qed.

Lemma map_ffst_plain l : map (fun y : xseg => fst (fst y)) (map plain_x l) = segs_of l.
Proof. unfold segs_of. rewrite map_map. reflexivity. Qed.

(* the unescaped parse of the reference writer's text *)
Definition usegs (sp : sep) (l : list sseg) : list seg := map (kseg false (sep_char sp)) (map plain_x l).

Lemma parse_forced_unescaped sp l :
  wf sp l = true -> parse (Forced sp) false (render_ref sp l) = Ok (usegs sp l).
Proof.
  intros Hwf. destruct (wf_split _ _ Hwf) as [Hgo Hbl].
  rewrite <- render_x_plain. apply parse_render_x.
  - rewrite map_fst_plain. exact Hgo.
  - rewrite is_nil_map, render_x_plain. exact Hbl.
Qed.

Lemma parse_auto_unescaped sp l :
  wf sp l = true -> dot_text_ok sp (render_ref sp l) = true ->
  parse Auto false (render_ref sp l) = Ok (usegs sp l).
Proof.
  intros Hwf Hd. rewrite (parse_auto_forced sp); [apply parse_forced_unescaped; exact Hwf | |].
  - intros ->. exact Hd.
  - intros ->. eexists. reflexivity.
Qed.

(* the canonical text, explicitly *)
Definition canon_of (sp sp' : sep) (l : list sseg) : string :=
  render_x sp' (restyle_list (sep_char sp) true (map plain_x l)).

Lemma canon_is sp sp' l :
  wfc sp l = true -> dot_text_ok sp (render_ref sp l) = true ->
  canon sp' (render_ref sp l) = Ok (canon_of sp sp' l).
Proof.
  intros Hwfc Hd. destruct (wfc_split _ _ Hwfc) as [Hwf Hc]. destruct (wf_split _ _ Hwf) as [Hgo _].
  unfold canon. rewrite (parse_auto_unescaped sp l Hwf Hd). cbn [bind]. unfold usegs.
  rewrite canon_text by (rewrite map_fst_plain; assumption). reflexivity.
Qed.

Theorem canonical sp sp' l c :
  wfc sp l = true -> dot_text_ok sp (render_ref sp l) = true ->
  canon sp' (render_ref sp l) = Ok c ->
  (sp' = Dot -> (is_nil l || nonblank c) = true) ->
  parse (Forced sp') true c = Ok (segs_of l).
Proof.
  intros Hwfc Hd Hcan Hb. rewrite (canon_is sp sp' l Hwfc Hd) in Hcan. injection Hcan as <-.
  destruct (wfc_split _ _ Hwfc) as [Hwf Hc]. destruct (wf_split _ _ Hwf) as [Hgo _].
  unfold canon_of in *. rewrite canon_reparse.
  - rewrite segs_restyle, map_ffst_plain. reflexivity.
  - rewrite map_fst_plain. exact Hgo.
  - rewrite map_fst_plain. exact Hc.
  - rewrite is_nil_map. exact Hb.
Qed.

(* the same through separator inference, outside the exclusion *)
Theorem canonical_auto sp sp' l c :
  wfc sp l = true -> dot_text_ok sp (render_ref sp l) = true ->
  canon sp' (render_ref sp l) = Ok c ->
  (sp' = Dot -> (is_nil l || nonblank c) = true) -> dot_text_ok sp' c = true ->
  parse Auto true c = Ok (segs_of l).
Proof.
  intros Hwfc Hd Hcan Hb Hd'. rewrite (parse_auto_forced sp').
  - eapply canonical; eassumption.
  - intros ->. exact Hd'.
  - intros ->. rewrite (canon_is sp Slash l Hwfc Hd) in Hcan. injection Hcan as <-. eexists. reflexivity.
Qed.

(* clause 2b: the canonical string is a fixed point of str() *)
Theorem fixpoint sp sp' l c :
  wfc sp l = true -> dot_text_ok sp (render_ref sp l) = true ->
  canon sp' (render_ref sp l) = Ok c ->
  (sp' = Dot -> (is_nil l || nonblank c) = true) ->
  path_str (Forced sp') c = Ok c.
Proof.
  intros Hwfc Hd Hcan Hb. rewrite (canon_is sp sp' l Hwfc Hd) in Hcan. injection Hcan as <-.
  destruct (wfc_split _ _ Hwfc) as [Hwf Hc]. destruct (wf_split _ _ Hwf) as [Hgo _].
  unfold path_str, canon_of in *. cbn [effective_sep].
  rewrite canon_reparse; [| rewrite map_fst_plain; assumption | rewrite map_fst_plain; assumption
                         | rewrite is_nil_map; exact Hb].
  cbn [bind]. rewrite canon_text.
  - unfold render_x. rewrite render_go_restyle2. reflexivity.
  - apply wf_go_restyle; [rewrite map_fst_plain; assumption | rewrite map_fst_plain; assumption | reflexivity].
  - rewrite wfc_restyle_list, map_fst_plain. exact Hc.
Qed.

(* ====================================================================== *)
(* clause 3: == *)
Lemma parse_auto_es strip T :
  parse Auto strip T = parse_es (infer_sep (normalize_original T)) strip (normalize_original T).
Proof. unfold parse, parse_es. destruct (normalize_original T); reflexivity. Qed.

Lemma normalize_idem T : normalize_original (normalize_original T) = normalize_original T.
Proof.
  unfold normalize_original. destruct (strip_py T) eqn:E; [reflexivity|]. rewrite E. reflexivity.
Qed.

(* YAMLPath(T).escaped on a fresh object is the escaped parse with separator inference *)
Lemma y_escaped_new T : fst (y_escaped (y_new T)) = parse Auto true T.
Proof.
  rewrite parse_auto_es.
  unfold y_escaped, y_new, y_set_original. cbn [y_esc seglist_nonempty]. unfold y_separator. cbn [y_sep y_orig y_unesc y_esc y_strd].
  destruct (parse_es _ true _) as [u| |]; reflexivity.
Qed.

(* __eq__ (since the repair of F23): the escaped parses of the two texts, compared as plain values *)
Lemma y_eq_parse T1 T2 :
  y_eq (y_new T1) T2
  = (do a <- parse Auto true T1; do b <- parse Auto true T2;
     Ok (seglist_eqb (map comparable_seg a) (map comparable_seg b))).
Proof.
  unfold y_eq. rewrite !y_escaped_new. unfold y_new at 1, y_set_original. cbn [y_orig].
  rewrite (parse_auto_es true (normalize_original T1)), normalize_idem, <- parse_auto_es. reflexivity.
Qed.

(* ---- the comparison of plain values decides equality ---- *)
Lemma smethod_eqb_eq a b : smethod_eqb a b = true <-> a = b.
Proof. destruct a, b; split; intros H; try reflexivity; discriminate H. Qed.
Lemma keyword_eqb_eq a b : keyword_eqb a b = true <-> a = b.
Proof. destruct a, b; split; intros H; try reflexivity; discriminate H. Qed.
Lemma cop_eqb_eq a b : cop_eqb a b = true <-> a = b.
Proof. destruct a, b; split; intros H; try reflexivity; discriminate H. Qed.
Lemma segtype_eqb_eq a b : segtype_eqb a b = true <-> a = b.
Proof. destruct a, b; split; intros H; try reflexivity; discriminate H. Qed.
Lemma opt_segtype_eqb_eq a b : opt_segtype_eqb a b = true <-> a = b.
Proof.
  destruct a as [a|], b as [b|]; cbn; split; intros H; try reflexivity; try discriminate H.
  - apply segtype_eqb_eq in H. subst. reflexivity.
  - injection H as ->. apply segtype_eqb_eq. reflexivity.
Qed.

Ltac eqb_fwd :=
  repeat match goal with
  | H : (_ && _)%bool = true |- _ => apply andb_true_iff in H; destruct H
  | H : String.eqb _ _ = true |- _ => apply String.eqb_eq in H; subst
  | H : Z.eqb _ _ = true |- _ => apply Z.eqb_eq in H; subst
  | H : Bool.eqb _ _ = true |- _ => apply Bool.eqb_prop in H; subst
  | H : smethod_eqb _ _ = true |- _ => apply smethod_eqb_eq in H; subst
  | H : keyword_eqb _ _ = true |- _ => apply keyword_eqb_eq in H; subst
  | H : cop_eqb _ _ = true |- _ => apply cop_eqb_eq in H; subst
  end.

Lemma attrs_eqb_refl a : attrs_eqb a a = true.
Proof.
  destruct a; cbn; rewrite ?String.eqb_refl, ?Z.eqb_refl, ?Bool.eqb_reflx; try reflexivity.
  - replace (smethod_eqb m m) with true by (symmetry; apply smethod_eqb_eq; reflexivity). reflexivity.
  - replace (keyword_eqb k k) with true by (symmetry; apply keyword_eqb_eq; reflexivity). reflexivity.
  - replace (cop_eqb op op) with true by (symmetry; apply cop_eqb_eq; reflexivity). reflexivity.
Qed.

Lemma attrs_eqb_eq a b : attrs_eqb a b = true <-> a = b.
Proof.
  split; [|intros ->; apply attrs_eqb_refl].
  destruct a, b; cbn [attrs_eqb]; intros H; try discriminate H; eqb_fwd; reflexivity.
Qed.

Lemma seg_eqb_eq a b : seg_eqb a b = true <-> a = b.
Proof.
  destruct a as [t1 a1], b as [t2 a2]. unfold seg_eqb. cbn [fst snd]. rewrite andb_true_iff, opt_segtype_eqb_eq, attrs_eqb_eq.
  split; [intros [-> ->]; reflexivity | intros H; injection H as -> ->; split; reflexivity].
Qed.

Lemma seglist_eqb_eq : forall a b, seglist_eqb a b = true <-> a = b.
Proof.
  induction a as [|x r IH]; intros [|y t]; cbn [seglist_eqb]; split; intros H; try reflexivity; try discriminate H.
  - apply andb_true_iff in H. destruct H as [H1 H2]. apply seg_eqb_eq in H1. apply IH in H2. subst. reflexivity.
  - injection H as -> ->. apply andb_true_iff. split; [apply seg_eqb_eq | apply IH]; reflexivity.
Qed.

(* ---- on well-formed segments the plain values determine the segment: str()
   of keyword and collector terms is one-to-one ---- *)
Lemma length_app_s (a b : string) : String.length (a ++ b) = String.length a + String.length b.
Proof. induction a; cbn; [reflexivity | f_equal; auto]. Qed.

Lemma app_inv_tail_s (t : string) : forall a b : string, (a ++ t = b ++ t)%string -> a = b.
Proof.
  induction a as [|c r IH]; intros b H; destruct b as [|d s]; [reflexivity | | |].
  - exfalso. apply (f_equal String.length) in H. cbn in H. rewrite length_app_s in H. lia.
  - exfalso. apply (f_equal String.length) in H. cbn in H. rewrite length_app_s in H. lia.
  - cbn in H. injection H as -> H. f_equal. apply IH. exact H.
Qed.

Lemma keyword_str_inj i k p j l q : keyword_str i k p = keyword_str j l q -> i = j /\ k = l /\ p = q.
Proof.
  unfold keyword_str. rewrite !T_spell_kw. intros H.
  destruct i, j, k, l; cbn in H; try discriminate H;
    inversion H as [H1]; apply (app_inv_tail_s ")]") in H1; subst; repeat split; reflexivity.
Qed.

Lemma collector_str_inj o e p f : collector_str o e = collector_str p f -> o = p /\ e = f.
Proof.
  unfold collector_str. rewrite !T_spell_cop. intros H.
  destruct o, p; cbn in H; try discriminate H;
    inversion H as [H1]; apply (app_inv_tail_s ")") in H1; subst; split; reflexivity.
Qed.

Lemma pair_astr_inj (ty ty' : option segtype) a b : (ty, AStr a) = (ty', AStr b) -> a = b.
Proof. intros H. injection H. auto. Qed.

Lemma comparable_inj p1 p2 sg1 st1 sg2 st2 :
  wf_seg p1 (sg1, st1) = true -> wf_seg p2 (sg2, st2) = true ->
  comparable_seg sg1 = comparable_seg sg2 -> sg1 = sg2.
Proof.
  intros W1 W2 H.
  destruct sg1 as [[[]|] a1]; try discriminate W1; destruct a1; try discriminate W1;
    destruct sg2 as [[[]|] a2]; try discriminate W2; destruct a2; try discriminate W2;
    cbn [comparable_seg] in H; try discriminate H; try exact H.
  - apply pair_astr_inj in H. apply collector_str_inj in H. destruct H as [-> ->]. reflexivity.
  - apply pair_astr_inj in H. apply keyword_str_inj in H. destruct H as (-> & -> & ->). reflexivity.
Qed.

Lemma comparable_map_inj : forall l1 l2 p1 p2,
  wf_go p1 l1 = true -> wf_go p2 l2 = true ->
  map comparable_seg (segs_of l1) = map comparable_seg (segs_of l2) -> segs_of l1 = segs_of l2.
Proof.
  induction l1 as [|[sg1 st1] r1 IH]; intros [|[sg2 st2] r2] p1 p2 W1 W2 H; try discriminate H; [reflexivity|].
  cbn [wf_go] in W1, W2. apply andb_true_iff in W1. destruct W1 as [A1 B1].
  apply andb_true_iff in W2. destruct W2 as [A2 B2].
  cbn in H. injection H as H1 H2. cbn. f_equal.
  - eapply comparable_inj; eassumption.
  - eapply IH; eassumption.
Qed.

(* clause 3 for ANY two texts that parse: == is the comparison of the parsed segments as plain values *)
Theorem eq_parsed T1 T2 s1 s2 :
  parse Auto true T1 = Ok s1 -> parse Auto true T2 = Ok s2 ->
  exists b, y_eq (y_new T1) T2 = Ok b /\ (b = true <-> map comparable_seg s1 = map comparable_seg s2).
Proof.
  intros P1 P2. rewrite y_eq_parse, P1, P2. cbn [bind]. eexists. split; [reflexivity|]. apply seglist_eqb_eq.
Qed.

Theorem eq_iff sp1 sp2 l1 l2 :
  wf sp1 l1 = true -> wf sp2 l2 = true ->
  dot_text_ok sp1 (render_ref sp1 l1) = true -> dot_text_ok sp2 (render_ref sp2 l2) = true ->
  exists b, y_eq (y_new (render_ref sp1 l1)) (render_ref sp2 l2) = Ok b
            /\ (b = true <-> segs_of l1 = segs_of l2).
Proof.
  intros W1 W2 D1 D2.
  destruct (eq_parsed (render_ref sp1 l1) (render_ref sp2 l2) (segs_of l1) (segs_of l2)) as (b & E & Hb).
  - apply parse_render_auto; [exact W1 | intros ->; exact D1].
  - apply parse_render_auto; [exact W2 | intros ->; exact D2].
  - exists b. split; [exact E|]. rewrite Hb. split; [|intros ->; reflexivity].
    destruct (wf_split _ _ W1) as [G1 _]. destruct (wf_split _ _ W2) as [G2 _].
    eapply comparable_map_inj; eassumption.
Qed.
