(* C08: clauses 2-4 of the property -- canonical string, fixed point, ==. *)
From Coq Require Import List Ascii String ZArith Bool Arith Lia.
From YP Require Import Outcome PyStr Generated PathParser PathPrinter C08Spec RtStep RtSeg RtInt RtRender RtTables RtCanon.
Import ListNotations.
Open Scope string_scope.
Open Scope nat_scope.

Lemma wfc_split sp l : wfc sp l = true -> wf sp l = true /\ forallb wfc_seg l = true.
Proof. unfold wfc. intros H. apply andb_true_iff in H. exact H. Qed.

Lemma wf_split sp l : wf sp l = true -> wf_go false l = true /\ (is_nil l || nonblank (render_ref sp l)) = true.
Proof. unfold wf. intros H. apply andb_true_iff in H. exact H. Qed.

Lemma map_ffst_plain l : map (fun y : xseg => fst (fst y)) (map plain_x l) = segs_of l.
Proof. unfold segs_of. rewrite map_map. reflexivity. Qed.

(* the unescaped parse of the reference writer's text *)
Definition usegs (sp : sep) (l : list sseg) : list seg := map (kseg false (sep_char sp)) (map plain_x l).

Lemma parse_forced_unescaped sp l :
  wf sp l = true -> parse (Forced sp) false (render_ref sp l) = Ok (usegs sp l).
Proof.
  intros Hwf. destruct (wf_split _ _ Hwf) as [Hgo Hbl].
  rewrite <- render_x_plain. apply parse_render_x.
  - rewrite map_fst_plain. exact Hgo.
  - rewrite is_nil_map, render_x_plain. exact Hbl.
Qed.

Lemma parse_auto_unescaped sp l :
  wf sp l = true -> dot_text_ok sp (render_ref sp l) = true ->
  parse Auto false (render_ref sp l) = Ok (usegs sp l).
Proof.
  intros Hwf Hd. rewrite (parse_auto_forced sp); [apply parse_forced_unescaped; exact Hwf | |].
  - intros ->. exact Hd.
  - intros ->. eexists. reflexivity.
Qed.

(* the canonical text, explicitly *)
Definition canon_of (sp sp' : sep) (l : list sseg) : string :=
  render_x sp' (restyle_list (sep_char sp) true (map plain_x l)).

Lemma canon_is sp sp' l :
  wfc sp l = true -> dot_text_ok sp (render_ref sp l) = true ->
  canon sp' (render_ref sp l) = Ok (canon_of sp sp' l).
Proof.
  intros Hwfc Hd. destruct (wfc_split _ _ Hwfc) as [Hwf Hc]. destruct (wf_split _ _ Hwf) as [Hgo _].
  unfold canon. rewrite (parse_auto_unescaped sp l Hwf Hd). cbn [bind]. unfold usegs.
  rewrite canon_text by (rewrite map_fst_plain; assumption). reflexivity.
Qed.

Theorem canonical sp sp' l c :
  wfc sp l = true -> dot_text_ok sp (render_ref sp l) = true ->
  canon sp' (render_ref sp l) = Ok c ->
  (sp' = Dot -> (is_nil l || nonblank c) = true) ->
  parse (Forced sp') true c = Ok (segs_of l).
Proof.
  intros Hwfc Hd Hcan Hb. rewrite (canon_is sp sp' l Hwfc Hd) in Hcan. injection Hcan as <-.
  destruct (wfc_split _ _ Hwfc) as [Hwf Hc]. destruct (wf_split _ _ Hwf) as [Hgo _].
  unfold canon_of in *. rewrite canon_reparse.
  - rewrite segs_restyle, map_ffst_plain. reflexivity.
  - rewrite map_fst_plain. exact Hgo.
  - rewrite map_fst_plain. exact Hc.
  - rewrite is_nil_map. exact Hb.
Qed.

(* the same through separator inference, outside the exclusion *)
Theorem canonical_auto sp sp' l c :
  wfc sp l = true -> dot_text_ok sp (render_ref sp l) = true ->
  canon sp' (render_ref sp l) = Ok c ->
  (sp' = Dot -> (is_nil l || nonblank c) = true) -> dot_text_ok sp' c = true ->
  parse Auto true c = Ok (segs_of l).
Proof.
  intros Hwfc Hd Hcan Hb Hd'. rewrite (parse_auto_forced sp').
  - eapply canonical; eassumption.
  - intros ->. exact Hd'.
  - intros ->. rewrite (canon_is sp Slash l Hwfc Hd) in Hcan. injection Hcan as <-. eexists. reflexivity.
Qed.

(* clause 2b: the canonical string is a fixed point of str() *)
Theorem fixpoint sp sp' l c :
  wfc sp l = true -> dot_text_ok sp (render_ref sp l) = true ->
  canon sp' (render_ref sp l) = Ok c ->
  (sp' = Dot -> (is_nil l || nonblank c) = true) ->
  path_str (Forced sp') c = Ok c.
Proof.
  intros Hwfc Hd Hcan Hb. rewrite (canon_is sp sp' l Hwfc Hd) in Hcan. injection Hcan as <-.
  destruct (wfc_split _ _ Hwfc) as [Hwf Hc]. destruct (wf_split _ _ Hwf) as [Hgo _].
  unfold path_str, canon_of in *. cbn [effective_sep].
  rewrite canon_reparse; [| rewrite map_fst_plain; assumption | rewrite map_fst_plain; assumption
                         | rewrite is_nil_map; exact Hb].
  cbn [bind]. rewrite canon_text.
  - unfold render_x. rewrite render_go_restyle2. reflexivity.
  - apply wf_go_restyle; [rewrite map_fst_plain; assumption | rewrite map_fst_plain; assumption | reflexivity].
  - rewrite wfc_restyle_list, map_fst_plain. exact Hc.
Qed.

(* ====================================================================== *)
(* clause 3: == *)
Lemma parse_auto_es strip T :
  parse Auto strip T = parse_es (infer_sep (normalize_original T)) strip (normalize_original T).
Proof. unfold parse, parse_es. destruct (normalize_original T); reflexivity. Qed.

Lemma normalize_idem T : normalize_original (normalize_original T) = normalize_original T.
Proof.
  unfold normalize_original. destruct (strip_py T) eqn:E; [reflexivity|]. rewrite E. reflexivity.
Qed.

Lemma stringify_slash_nonempty u : nonempty (stringify (Some Slash) u) = true.
Proof. reflexivity. Qed.

(* the comparison string of __eq__ is the forward-slash canonical string *)
Lemma y_cmp_canon T : y_cmp_string T = canon Slash T.
Proof.
  unfold y_cmp_string, canon. rewrite parse_auto_es.
  unfold y_set_separator, y_new, y_set_original. cbn [y_sep sepopt_eqb].
  unfold y_unescaped. cbn [y_unesc seglist_nonempty]. unfold y_separator. cbn [y_sep y_orig y_unesc y_esc y_strd].
  destruct (parse_es _ false _) as [u| |]; cbn; reflexivity.
Qed.

Lemma y_eq_canon T1 T2 :
  y_eq (y_new T1) T2 = (do a <- canon Slash T1; do b <- canon Slash T2; Ok (String.eqb a b)).
Proof.
  unfold y_eq. rewrite !y_cmp_canon. unfold y_new, y_set_original. cbn [y_orig].
  unfold canon at 1. rewrite parse_auto_es, normalize_idem, <- parse_auto_es. reflexivity.
Qed.

(* for keys without a dot the forward-slash canonical text depends on the segments only *)
Lemma esc_with_ext_on E E' k :
  (forall c, str_in c k = true -> mem_ascii c E = mem_ascii c E') -> esc_with E k = esc_with E' k.
Proof.
  induction k as [|c r IH]; intros H; [reflexivity|]. cbn [esc_with].
  rewrite (H c) by (cbn; rewrite Ascii.eqb_refl; reflexivity).
  rewrite IH; [reflexivity|]. intros d Hd. apply H. cbn. rewrite Hd. destruct (Ascii.eqb d c); reflexivity.
Qed.

Lemma key_set_slash sepc (x : sseg) c :
  (sepc = "."%char \/ sepc = "/"%char) -> Ascii.eqb c "."%char = false ->
  mem_ascii c (key_set sepc (plain_x x) ++ key_specials "/"%char)%list = mem_ascii c (key_specials "/"%char).
Proof.
  intros Hs Hc. destruct x as [sg st]. unfold key_set, plain_x. cbn [fst snd].
  destruct (st_quote st); destruct Hs as [-> | ->]; all_ascii c; try discriminate Hc; vm_compute; reflexivity.
Qed.

Lemma body_canon_same sp1 sp2 first sg st1 st2 :
  no_dot_key (sg, st1) = true ->
  body_x "/"%char (restyle (sep_char sp1) first (plain_x (sg, st1)))
  = body_x "/"%char (restyle (sep_char sp2) first (plain_x (sg, st2))).
Proof.
  intros Hn. destruct sg as [ty at_]. destruct ty as [[]|]; try reflexivity; destruct at_; try reflexivity.
  cbn [no_dot_key] in Hn. apply negb_true_iff in Hn.
  cbn [restyle body_x plain_x fst snd st_quote].
  transitivity (esc_with (key_specials "/"%char) s).
  - apply esc_with_ext_on. intros c Hc. apply key_set_slash; [destruct sp1; auto|].
    destruct (Ascii.eqb c "."%char) eqn:E; [|reflexivity]. apply Ascii.eqb_eq in E. subst c. rewrite Hn in Hc. discriminate.
  - symmetry. apply esc_with_ext_on. intros c Hc. apply key_set_slash; [destruct sp2; auto|].
    destruct (Ascii.eqb c "."%char) eqn:E; [|reflexivity]. apply Ascii.eqb_eq in E. subst c. rewrite Hn in Hc. discriminate.
Qed.

Lemma needs_sep_restyle sepc1 sepc2 first sg st1 st2 :
  needs_sep (fst (restyle sepc1 first (plain_x (sg, st1)))) = needs_sep (fst (restyle sepc2 first (plain_x (sg, st2)))).
Proof. reflexivity. Qed.

Lemma render_canon_same sp1 sp2 : forall l1 l2 first,
  segs_of l1 = segs_of l2 -> forallb no_dot_key l1 = true ->
  render_go_x "/"%char first (restyle_list (sep_char sp1) first (map plain_x l1))
  = render_go_x "/"%char first (restyle_list (sep_char sp2) first (map plain_x l2)).
Proof.
  induction l1 as [|[sg1 st1] r1 IH]; intros l2 first Hs Hn; destruct l2 as [|[sg2 st2] r2]; try discriminate Hs; [reflexivity|].
  cbn in Hs. injection Hs as -> Hs. cbn [forallb] in Hn. apply andb_true_iff in Hn. destruct Hn as [Hn1 Hn2].
  cbn [map restyle_list render_go_x].
  rewrite (body_canon_same sp1 sp2 first sg2 st1 st2 Hn1), (IH r2 false Hs Hn2).
  rewrite (needs_sep_restyle (sep_char sp1) (sep_char sp2) first sg2 st1 st2). reflexivity.
Qed.

Theorem eq_iff sp1 sp2 l1 l2 :
  wfc sp1 l1 = true -> wfc sp2 l2 = true ->
  forallb no_dot_key l1 = true -> forallb no_dot_key l2 = true ->
  dot_text_ok sp1 (render_ref sp1 l1) = true -> dot_text_ok sp2 (render_ref sp2 l2) = true ->
  exists b, y_eq (y_new (render_ref sp1 l1)) (render_ref sp2 l2) = Ok b
            /\ (b = true <-> segs_of l1 = segs_of l2).
Proof.
  intros W1 W2 N1 N2 D1 D2.
  rewrite y_eq_canon, (canon_is sp1 Slash l1 W1 D1), (canon_is sp2 Slash l2 W2 D2). cbn [bind].
  eexists. split; [reflexivity|]. split.
  - intros E. apply String.eqb_eq in E.
    pose proof (canonical sp1 Slash l1 _ W1 D1 (canon_is sp1 Slash l1 W1 D1)) as P1.
    pose proof (canonical sp2 Slash l2 _ W2 D2 (canon_is sp2 Slash l2 W2 D2)) as P2.
    rewrite E in P1. rewrite P1 in P2 by discriminate. specialize (P2 ltac:(discriminate)).
    injection P2 as P2. exact P2.
  - intros E. apply String.eqb_eq. unfold canon_of, render_x. cbn [sep_char].
    rewrite (render_canon_same sp1 sp2 l1 l2 true E N1). reflexivity.
Qed.
