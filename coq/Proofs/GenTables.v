(* Obligations tying the literal tables inside the merge / diff models to the
   tables regenerated from /repo's source on every run (coq/Gen/Generated.v):
   exit-state constants of the multi-document drivers and the member names of
   the option enumerations.  Each is closed by vm_compute; editing an enum or
   an exit state in the Python source re-opens it, and the properties that
   import this file (C05, C06, C10, C11, C18) are then reported as no longer
   proved (with a search for a failing input). *)
From Coq Require Import List String Bool Arith.
From YP Require Import Outcome PyStr Generated MergeConfig MultiDoc Diff.
Import ListNotations.
Open Scope string_scope.

(* a name is accepted by a from_str model iff it is a member name *)
Definition accepts {A} (f : string -> outcome A) (s : string) : bool :=
  match f s with Ok _ => true | _ => false end.

(* exactly the listed names are accepted: every listed one is, and a probe set of
   near-misses (each listed name with a character appended) is not *)
Definition exactly {A} (f : string -> outcome A) (names : list string) (n : nat) : bool :=
  forallb (accepts f) names
  && forallb (fun s => negb (accepts f (s ++ "X"))) names
  && Nat.eqb (List.length names) n.

Example gen_hash_merge_names : exactly hash_of_str g_enum_hash_merge 3 = true.
Proof. vm_compute. reflexivity. Qed.
Example gen_array_merge_names : exactly array_of_str g_enum_array_merge 4 = true.
Proof. vm_compute. reflexivity. Qed.
Example gen_aoh_merge_names : exactly aoh_of_str g_enum_aoh_merge 5 = true.
Proof. vm_compute. reflexivity. Qed.
Example gen_set_merge_names : exactly set_of_str g_enum_set_merge 3 = true.
Proof. vm_compute. reflexivity. Qed.
Example gen_anchor_conflict_names : exactly anchor_of_str g_enum_anchor_conflict 4 = true.
Proof. vm_compute. reflexivity. Qed.
Example gen_array_diff_names : exactly arr_from_str g_enum_array_diff 2 = true.
Proof. vm_compute. reflexivity. Qed.
Example gen_aoh_diff_names : exactly aoh_from_str g_enum_aoh_diff 5 = true.
Proof. vm_compute. reflexivity. Qed.
Example gen_is_arr_name : forallb is_arr_name g_enum_array_diff = true
                          /\ forallb (fun s => negb (is_arr_name s))
                                     (filter (fun s => negb (mem_string s g_enum_array_diff)) g_enum_aoh_diff) = true.
Proof. vm_compute. split; reflexivity. Qed.
Example gen_diff_actions : g_enum_diff_actions = ["ADD"; "CHANGE"; "DELETE"; "SAME"].
Proof. vm_compute. reflexivity. Qed.
Example gen_multidoc_modes : g_enum_multidoc = ["CONDENSE_ALL"; "MERGE_ACROSS"; "MATRIX_MERGE"].
Proof. vm_compute. reflexivity. Qed.

(* exit states of the three multi-document drivers, in source order *)
Example gen_states_condense :
  [st_condense_lhs CMerge; st_condense_lhs CPath; st_condense_rhs CMerge; st_condense_rhs CPath]
  = g_states_merge_condense_all.
Proof. vm_compute. reflexivity. Qed.
Example gen_states_across : [st_across CMerge; st_across CPath] = g_states_merge_across.
Proof. vm_compute. reflexivity. Qed.
Example gen_states_matrix : [st_matrix CMerge; st_matrix CPath] = g_states_merge_matrix.
Proof. vm_compute. reflexivity. Qed.
