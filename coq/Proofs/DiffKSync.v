(* synchronize_lods_by_key on well-keyed lists without a [keys] configuration:
   it is the plain "match each left record with the right record of the same
   identity value" ([ksync]), and every tuple it yields has one of three
   shapes (matched by identity / left only / right only). *)
From Coq Require Import List Ascii String ZArith NArith Bool Arith Lia Permutation.
From YP Require Import Outcome PyStr PyVal Doc Diff C06Spec DiffBase DiffEq DiffKeys DiffSync.
Import ListNotations.
Open Scope nat_scope.

(* ---- nodup_vals and permutations ---- *)
Lemma existsb_perm {A} (f : A -> bool) : forall l l', Permutation l l' -> existsb f l = existsb f l'.
Proof.
  intros l l' P. induction P; simpl; auto.
  - rewrite IHP. reflexivity.
  - rewrite !orb_assoc, (orb_comm (f y) (f x)). reflexivity.
  - congruence.
Qed.

Lemma nodup_vals_perm : forall l l', Permutation l l' -> nodup_vals l = true -> nodup_vals l' = true.
Proof.
  intros l l' P. induction P; simpl; intros H; auto.
  - apply andb_true_iff in H. destruct H as [H1 H2]. rewrite (IHP H2), andb_true_r.
    rewrite <- (existsb_perm _ _ _ P). exact H1.
  - apply andb_true_iff in H. destruct H as [H1 H2]. apply andb_true_iff in H2. destruct H2 as [H2 H3].
    rewrite H3, andb_true_r. apply negb_true_iff in H1. apply orb_false_iff in H1. destruct H1 as [E1 E2].
    rewrite (py_eq_sym_b x y), E1, E2. simpl. rewrite ?andb_true_r. exact H2.
Qed.

Lemma extract_first_ext {A} (f g : A -> bool) : forall l, (forall x, In x l -> f x = g x) ->
  extract_first f l = extract_first g l.
Proof.
  induction l as [|x r IH]; simpl; intros H; auto.
  rewrite (H x (or_introl eq_refl)), IH; auto.
Qed.

Lemma extract_first_none {A} (f : A -> bool) : forall l, extract_first f l = None -> forall x, In x l -> f x = false.
Proof.
  induction l as [|y r IH]; simpl; intros H x Hx; [contradiction|].
  destruct (f y) eqn:E; [discriminate|].
  destruct (extract_first f r) as [[z r']|] eqn:E2; [discriminate|].
  destruct Hx as [<-|Hx]; auto.
Qed.

Section KSync.
  Variable idf : node -> pyval.
  Definition ida (p : nat * node) : pyval := idf (snd p).

  Fixpoint ksync (lhs red : list (nat * node)) : list spair :=
    match lhs with
    | [] => leftover red
    | (li, le) :: rest =>
        match extract_first (fun p => py_eq (ida p) (idf le)) red with
        | Some ((ri, re), red') => (Some li, le, Some ri, re) :: ksync rest red'
        | None => (Some li, le, None, none_node) :: ksync rest red
        end
    end.

  Inductive shape (lhs red : list (nat * node)) : spair -> Prop :=
  | sh_both : forall li le ri re, In (li, le) lhs -> In (ri, re) red -> py_eq (idf re) (idf le) = true ->
      shape lhs red (Some li, le, Some ri, re)
  | sh_left : forall li le, In (li, le) lhs -> hask ida (idf le) red = false ->
      shape lhs red (Some li, le, None, none_node)
  | sh_right : forall ri re, In (ri, re) red -> hask ida (idf re) lhs = false ->
      shape lhs red (None, none_node, Some ri, re).

  Lemma ksync_shape : forall lhs red,
    nodup_vals (map ida lhs) = true -> nodup_vals (map ida red) = true ->
    forall p, In p (ksync lhs red) -> shape lhs red p.
  Proof.
    induction lhs as [|[li le] rest IH]; simpl; intros red Nl Nr p Hp.
    - unfold leftover in Hp. apply in_map_iff in Hp. destruct Hp as [[ri re] [<- Hin]].
      apply sh_right; auto.
    - pose proof (nodup_tail ida _ _ Nl) as Nrest.
      destruct (extract_first (fun p0 => py_eq (ida p0) (idf le)) red) as [[[ri re] red']|] eqn:Ex.
      + destruct (extract_first_perm _ _ _ _ Ex) as [P Fx]. unfold ida in Fx. simpl in Fx.
        assert (Nr' : nodup_vals (map ida ((ri, re) :: red')) = true).
        { eapply nodup_vals_perm; [apply Permutation_map; exact P | exact Nr]. }
        pose proof (nodup_tail ida _ _ Nr') as Nred'.
        assert (Sub : forall x, In x red' -> In x red).
        { intros x Hx. eapply Permutation_in; [apply Permutation_sym; exact P | right; exact Hx]. }
        destruct Hp as [<-|Hp].
        * apply sh_both; [left; reflexivity | eapply Permutation_in; [apply Permutation_sym; exact P | left; reflexivity] | exact Fx].
        * destruct (IH red' Nrest Nred' p Hp) as [li' le' ri' re' H1 H2 H3|li' le' H1 H2|ri' re' H1 H2].
          -- apply sh_both; auto. right; exact H1.
          -- apply sh_left; [right; exact H1|].
             unfold hask. rewrite (existsb_perm _ _ _ P). simpl. fold (hask ida (idf le') red'). rewrite H2, orb_false_r.
             unfold ida. simpl.
             destruct (py_eq (idf re) (idf le')) eqn:E; auto.
             pose proof (nodup_fresh ida _ _ Nl (li', le') H1) as F. unfold ida in F. simpl in F.
             assert (py_eq (idf le) (idf le') = true).
             { eapply py_eq_trans; [apply py_eq_sym; exact Fx | exact E]. }
             congruence.
          -- apply sh_right; [apply Sub; exact H1|].
             unfold hask. simpl. fold (hask ida (idf re') rest). rewrite H2, orb_false_r.
             unfold ida. simpl.
             destruct (py_eq (idf le) (idf re')) eqn:E; auto.
             pose proof (nodup_fresh ida _ _ Nr' (ri', re') H1) as F. unfold ida in F. simpl in F.
             assert (py_eq (idf re) (idf re') = true) by (eapply py_eq_trans; eauto).
             congruence.
      + pose proof (extract_first_none _ _ Ex) as Fn.
        destruct Hp as [<-|Hp].
        * apply sh_left; [left; reflexivity|].
          unfold hask. apply not_true_is_false. intros X. apply existsb_exists in X. destruct X as [x [Hx E]].
          rewrite (Fn x Hx) in E. discriminate.
        * destruct (IH red Nrest Nr p Hp) as [li' le' ri' re' H1 H2 H3|li' le' H1 H2|ri' re' H1 H2].
          -- apply sh_both; auto. right; exact H1.
          -- apply sh_left; auto. right; exact H1.
          -- apply sh_right; auto.
             unfold hask. simpl. fold (hask ida (idf re') rest). rewrite H2, orb_false_r.
             pose proof (Fn (ri', re') H1) as F. unfold ida in *. simpl in *. rewrite py_eq_sym_b. exact F.
  Qed.
End KSync.

(* ---- DifferConfig.aoh_diff_key without a [keys] table ---- *)
Lemma aoh_diff_key_nokeys : forall c n p r, c_keys c = [] ->
  aoh_diff_key c (n, p, r) =
  match n with NMap _ (kv :: _) => (fst kv, false) | _ => (str_leaf "", true) end.
Proof.
  intros c n p r H. unfold aoh_diff_key, get_config_for. rewrite H.
  destruct (d_has_config c); simpl; reflexivity.
Qed.

(* the identity value of a well-keyed record, as the model reads it *)
Lemma id_val_get : forall K x v, plain_leaf K = true -> wf_doc x = true ->
  id_val (leaf_value K) x = Some v ->
  exists i kvs iv, x = NMap i kvs /\ map_get K kvs = Some (NLeaf iv v) /\ tag iv = None.
Proof.
  intros K x v PK Hw H. destruct x as [|i kvs| |]; simpl in H; try discriminate.
  destruct (assoc_key (leaf_value K) kvs) as [[iv w| | |]|] eqn:A; try discriminate.
  destruct (tag iv) eqn:T; try discriminate. inversion H; subst.
  destruct (wf_map_inv _ _ Hw) as [Kp _].
  exists i, kvs, iv. split; auto. split; auto.
  rewrite (map_get_assoc _ _ Kp PK). exact A.
Qed.

Lemma key_match_id : forall c r K le ri re u v,
  c_keys c = [] -> plain_leaf K = true ->
  wf_doc le = true -> wf_doc re = true ->
  id_val (leaf_value K) le = Some u -> id_val (leaf_value K) re = Some v ->
  key_match c r K le (ri, re) = py_eq v u.
Proof.
  intros c r K le ri re u v Hc PK Wl Wr Il Ir.
  destruct (id_val_get _ _ _ PK Wl Il) as [il [lkvs [iu [-> [Gl Tu]]]]].
  destruct (id_val_get _ _ _ PK Wr Ir) as [ir [rkvs [iv [-> [Gr Tv]]]]].
  unfold key_match. rewrite (aoh_diff_key_nokeys _ _ _ _ Hc).
  assert (E : (let '(alt, is_user) := match NMap ir rkvs with
                                      | NMap _ (kv :: _) => (fst kv, false)
                                      | _ => (str_leaf "", true)
                                      end in
               if is_user && py_truthy (key_val alt) then alt else K) = K).
  { destruct rkvs; reflexivity. }
  destruct rkvs as [|kv0 rk].
  - unfold map_get in Gr. simpl in Gr. discriminate.
  - simpl. simpl in Gr. unfold map_get in *.
    destruct (find (fun kv => node_eq (fst kv) K) (kv0 :: rk)) as [[k1 v1]|]; try discriminate.
    destruct (find (fun kv => node_eq (fst kv) K) lkvs) as [[k2 v2]|]; try discriminate.
    simpl in *. inversion Gl; inversion Gr; subst. simpl. unfold leaf_eq, is_tagged. rewrite Tu, Tv. reflexivity.
Qed.

(* all elements of a list are well-formed records holding an identity value *)
Definition keyed_elems (Kv : pyval) (l : list (nat * node)) : Prop :=
  forall p, In p l -> wf_doc (snd p) = true /\
                      id_val Kv (snd p) = Some (id_or_none Kv (snd p)).

Lemma sync_key_go_ksync : forall c r K lhs red,
  c_keys c = [] -> plain_leaf K = true ->
  keyed_elems (leaf_value K) lhs -> keyed_elems (leaf_value K) red ->
  sync_key_go c r K lhs red = ksync (id_or_none (leaf_value K)) lhs red.
Proof.
  intros c r K lhs. induction lhs as [|[li le] rest IH]; simpl; intros red Hc PK Kl Kr; auto.
  destruct (Kl (li, le) (or_introl eq_refl)) as [Wl Il]. simpl in Wl, Il.
  destruct (id_val_get _ _ _ PK Wl Il) as [il [lkvs [iu [El [Gl Tu]]]]].
  assert (Hk : (match node_map_items le with Some lkvs0 => map_has K lkvs0 | None => false end) = true).
  { rewrite El. simpl. unfold map_has. rewrite Gl. reflexivity. }
  rewrite Hk. simpl.
  assert (X : extract_first (key_match c r K le) red =
              extract_first (fun p => py_eq (ida (id_or_none (leaf_value K)) p) (id_or_none (leaf_value K) le)) red).
  { apply extract_first_ext. intros [ri re] Hin.
    destruct (Kr (ri, re) Hin) as [Wr Ir]. simpl in Wr, Ir.
    apply (key_match_id c r K le ri re _ _ Hc PK Wl Wr Il Ir). }
  rewrite X. clear X.
  destruct (extract_first (fun p => py_eq (ida (id_or_none (leaf_value K)) p) (id_or_none (leaf_value K) le)) red)
    as [[[ri re] red']|] eqn:Ex.
  - f_equal. apply IH; auto.
    + intros p Hp. apply Kl. right; exact Hp.
    + intros p Hp. apply Kr. destruct (extract_first_perm _ _ _ _ Ex) as [P _].
      eapply Permutation_in; [apply Permutation_sym; exact P | right; exact Hp].
  - f_equal. apply IH; auto. intros p Hp. apply Kl. right; exact Hp.
Qed.
