(* C04 end to end, the read-side hypothesis discharged: every coordinate the
   required query gathers on a path of the C01 fragment without slice segments
   either is the root coordinate (no parent: the delete is refused) or LOCATES
   a node in the sense of Spec/C04spec.v [del_located] -- its parent is a
   container object of the document and its parentref names a child of it.
   From C02 (Proofs/EvalLocAll.v [node_located], Proofs/EvalLocSet.v for set
   parents); the bridge from chains of child steps to [target_of] (object
   identities) needs [wf_doc] (every container object occurs once) and
   [c02_doc_ok] (keys / members are scalars). *)
From Coq Require Import List Ascii String ZArith NArith Bool Arith Lia.
From YP Require Import Outcome PyStr PyVal Doc Generated PathParser PathPrinter Searches Eval SpecC01
  EvalSemPath EvalLocAll EvalLocSet EvalLocChild SpecC02 PyValOrder EvalPathAt
  Mutate C04spec C04lists C04delete C04plan EvalDelete.
Import ListNotations.
Open Scope string_scope.
Open Scope nat_scope.

Lemma first_idx_some {A} (P : A -> bool) : forall l x, In x l -> P x = true -> exists k, first_idx P l = Some k.
Proof.
  induction l as [|y r IH]; intros x Hin Hp; [contradiction|]. cbn [first_idx].
  destruct (P y) eqn:E; [eexists; reflexivity|].
  destruct Hin as [->|Hin]; [rewrite Hp in E; discriminate|].
  destruct (IH x Hin Hp) as [k Hk]. rewrite Hk. eexists. reflexivity.
Qed.

(* the parentref names a child of the parent, C04's way *)
Lemma child_rel_index p r m :
  c02_doc_ok p = true -> child_rel p r m -> child_set p r m -> exists k, child_index r p = Some k.
Proof.
  intros Hok H Hs. destruct p as [i v|i kvs|i els|i els]; cbn [child_rel child_set child_index] in *.
  - contradiction.
  - destruct H as (kv & Hin & _ & Hk).
    cbn [c02_doc_ok] in Hok. apply andb_prop in Hok. destruct Hok as [Hu _].
    assert (Hl : is_leaf (fst kv) = true) by (apply (keys_uniq_leaf _ _ Hu); apply in_map; exact Hin).
    apply (first_idx_some _ kvs kv Hin).
    destruct (fst kv) as [ik x| | |]; try discriminate Hl. cbn [leaf_eq key_val] in *.
    destruct Hk as [<-|Hk]; [apply py_eq_refl | exact Hk].
  - destruct H as (z & -> & Hsel). unfold sel_element in Hsel.
    destruct ((- Z.of_nat (List.length els) <=? z)%Z && (z <? Z.of_nat (List.length els))%Z)%bool eqn:Eb; [|discriminate Hsel].
    apply andb_prop in Eb. destruct Eb as [E1 E2]. apply Z.leb_le in E1. apply Z.ltb_lt in E2.
    destruct (0 <=? z)%Z eqn:E0.
    + replace (z <? Z.of_nat (List.length els))%Z with true by (symmetry; apply Z.ltb_lt; exact E2).
      eexists. reflexivity.
    + apply Z.leb_gt in E0. cbn [andb].
      replace (z <? 0)%Z with true by (symmetry; apply Z.ltb_lt; exact E0).
      replace (0 <=? z + Z.of_nat (List.length els))%Z with true by (symmetry; apply Z.leb_le; lia).
      eexists. reflexivity.
  - pose proof (keys_uniq_leaf _ _ Hok H) as Hl.
    apply (first_idx_some _ els m H). destruct m as [im x| | |]; try discriminate Hl. exact Hs.
Qed.

(* the container objects of a reachable node are container objects of the document *)
Lemma child_rel_objs p r m q o : c02_doc_ok p = true -> child_rel p r m -> In q (objs o m) -> In q (objs o p).
Proof.
  intros Hok H Hq. destruct p as [i v|i kvs|i els|i els]; cbn [child_rel] in H.
  - contradiction.
  - destruct H as (kv & Hin & <- & _). cbn [objs]. apply in_or_app. right. apply in_flat_map. exists kv. auto.
  - destruct H as (z & -> & Hs). apply sel_element_nth in Hs. cbn [objs]. apply in_or_app. right.
    apply in_flat_map. exists m. split; [eapply nth_error_In; exact Hs | exact Hq].
  - cbn [c02_doc_ok] in Hok. pose proof (keys_uniq_leaf _ _ Hok H) as Hl.
    destruct m; try discriminate Hl. contradiction Hq.
Qed.

Lemma walks_objs d : c02_doc_ok d = true -> forall anc p, walks d anc p ->
  forall q o, In q (objs o p) -> In q (objs o d).
Proof.
  intros Hd anc p H. induction H as [|anc p r m Hw IH Hc]; intros q o Hq; [exact Hq|].
  apply IH. eapply child_rel_objs; [eapply walks_ok; eassumption | exact Hc | exact Hq].
Qed.

Lemma self_objs p : is_leaf p = false -> In p (objs (node_oid p) p).
Proof.
  destruct p as [i v|i kvs|i els|i els]; intros H; try discriminate H; cbn [objs node_oid node_info];
    rewrite N.eqb_refl; left; reflexivity.
Qed.

Lemma walks_parent d anc' p r' m : walks d (anc' ++ [(RNode p, r')]) m -> walks d anc' p.
Proof.
  intros Hw. inversion Hw as [E|anc0 p0 r0 m0 Hw0 Hc0 E1 E2].
  - symmetry in E. apply app_eq_nil in E. destruct E as [_ E]. discriminate E.
  - apply app_inj_tail in E1. destruct E1 as [-> E1]. injection E1 as -> _. exact Hw0.
Qed.

Lemma located_del d m p r anc :
  wf_doc d -> c02_doc_ok d = true ->
  node_located d m (Some (RNode p)) (Some r) anc -> child_set p r m ->
  del_located d (Some (node_oid p), r) = true.
Proof.
  intros Hwf Hd [Hw [Hc (anc' & r' & Ea)]] Hs. subst anc. apply walks_parent in Hw.
  assert (Hleaf : is_leaf p = false) by (destruct p; [contradiction Hc | | |]; reflexivity).
  pose proof (walks_objs d Hd _ _ Hw p (node_oid p) (self_objs p Hleaf)) as Hin.
  pose proof (objs_le1 (node_oid p) d Hwf) as Hle.
  destruct (child_rel_index p r m (walks_ok d Hd _ _ Hw) Hc Hs) as [k Hk].
  unfold del_located, target_of. cbn [fst snd].
  destruct (objs (node_oid p) d) as [|n0 rest]; [contradiction Hin|].
  destruct rest as [|n1 rest]; [|cbn in Hle; lia].
  destruct Hin as [->|[]]. rewrite Hk. reflexivity.
Qed.

Definition no_slice (segs : list pseg) : bool := forallb (fun ps => negb (is_slice ps)) segs.

Lemma no_slice_last : forall segs, no_slice segs = true -> slices_last segs = true.
Proof.
  induction segs as [|a r IH]; intros H; [reflexivity|]. cbn [no_slice forallb] in H.
  apply andb_prop in H. destruct H as [Ha Hr]. cbn [slices_last]. destruct r; [reflexivity|].
  rewrite Ha. cbn [andb]. apply IH. exact Hr.
Qed.

Section EndToEnd.
Variable lit : string -> outcome litres.
Variable re_search : string -> string -> outcome reres.
Variable nstr : node -> string.
Variable vstr : list rval -> string.
Variable kw_handler : bool -> keyword -> string -> rval -> ctx -> gen rval.
Variable creator : list pseg -> nat -> rval -> ctx -> gen rval.
Notation GATHERED := (gathered lit re_search nstr vstr kw_handler creator).

(* what the read side owes the delete loop *)
Theorem gathered_located segs d :
  wf_doc d -> c02_doc_ok d = true -> c01_frag (PPath segs) = true -> no_slice segs = true ->
  Forall (fun q => pc_parent q = None \/ del_located d (pc_pair q) = true) (GATHERED (PPath segs) d).
Proof.
  intros Hwf Hd Hfr Hns. unfold gathered.
  pose proof (required_locset lit re_search nstr vstr kw_handler creator d false (PPath segs) segs eq_refl Hfr
                (no_slice_last _ Hns)) as H.
  assert (Hav : forall ps, In ps segs -> is_slice ps = true -> false = true).
  { intros ps Hin Hsl. unfold no_slice in Hns. rewrite forallb_forall in Hns. specialize (Hns ps Hin).
    rewrite Hsl in Hns. discriminate Hns. }
  specialize (H Hav). rewrite Forall_forall in *. intros q Hq. apply in_map_iff in Hq. destruct Hq as (x & <- & Hx).
  destruct (H x Hx) as [Hl Hs].
  destruct x as [m|l|nd par rf path anc]; try contradiction.
  destruct nd as [m|l|]; try contradiction; [|discriminate Hl].
  cbn [res_loc] in Hl. cbn [res_set] in Hs. pose proof Hl as Hl'. destruct Hl' as [_ Hpr].
  destruct par as [[p|lp|]|]; destruct rf as [r|]; try contradiction.
  - right. cbn [coord_of pc_pair pc_parent pc_ref]. apply (located_del d m p r anc Hwf Hd Hl Hs).
  - left. reflexivity.
Qed.

Lemma forall_located_or_root d : forall ps,
  Forall (fun q => pc_parent q = None \/ del_located d (pc_pair q) = true) ps ->
  has_root_coord ps = false -> del_all_located d (map pc_pair ps) = true.
Proof.
  induction ps as [|q r IH]; intros H Hr; [reflexivity|]. inversion H as [|? ? Hq Hrest]; subst.
  cbn [has_root_coord existsb] in Hr. apply orb_false_iff in Hr. destruct Hr as [Hq0 Hr].
  cbn [map del_all_located forallb]. apply andb_true_iff. split.
  - destruct Hq as [Hq|Hq]; [rewrite Hq in Hq0; discriminate | exact Hq].
  - apply IH; assumption.
Qed.

(* C04 end to end with nothing left to assume about the read side *)
Theorem delete_gathered_full segs d :
  wf_doc d -> c02_doc_ok d = true -> c01_frag (PPath segs) = true -> no_slice segs = true ->
  delete_nodes (map (fun c => CNode c false) (GATHERED (PPath segs) d)) d
  = if has_root_coord (GATHERED (PPath segs) d) then Failed d (YPE NoDocument)
    else MDone (delete_spec d (map pc_pair (GATHERED (PPath segs) d))).
Proof.
  intros Hwf Hd Hfr Hns. pose proof (gathered_located segs d Hwf Hd Hfr Hns) as H.
  destruct (has_root_coord (GATHERED (PPath segs) d)) eqn:Er.
  - unfold delete_nodes. rewrite leaf_coords_plain, Er. reflexivity.
  - apply delete_exact_plain; [exact Hwf|]. apply forall_located_or_root; assumption.
Qed.

End EndToEnd.
