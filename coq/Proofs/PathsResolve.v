(* C07: the location part of "every reported path resolves": the ghost
   location of a report, walked position by position, reaches the matched
   node.  (That the printed TEXT parses to segments naming this location is
   not proved here: it needs C08's parse/escape round trip and C01's
   evaluator.) *)
From Coq Require Import List Ascii String ZArith NArith Bool Arith Lia.
From YP Require Import Outcome PyStr PyVal Doc Generated PathParser PathPrinter Searches PathsSearch
     SpecC07 PathsEnum PathsSpec PathsMain.
Import ListNotations.

Lemma reach_snoc d l0 p r c : reach d l0 p -> child_at p r c -> reach d (l0 ++ [r])%list c.
Proof.
  induction 1 as [n|n r0 c0 l m Hc R IH]; intros H; simpl.
  - econstructor; eauto. constructor.
  - econstructor; eauto.
Qed.

(* the node a report is for: the satisfying scalar (HValue), the value under
   the satisfying key (HKey) *)
Definition resolves_to (lit : string -> outcome litres) (re_search : string -> string -> outcome reres)
           (tm : terms) (d : node) (h : hit) : Prop :=
  match h_kind h with
  | HValue => exists i v, reach d (h_loc h) (NLeaf i v) /\ satisfies lit re_search tm (NLeaf i v)
  | HKey => exists l0 kn m, h_loc h = (l0 ++ [key_ref kn])%list /\ reach d (h_loc h) m /\
                            satisfies lit re_search tm kn
  | _ => True
  end.

Theorem resolves_location lit re_search mt tm sp o d res :
  o_anchors o = false -> o_expand o = false -> transparent mt o d ->
  search_doc lit re_search mt tm sp o d = Ok res ->
  forall h, In h res -> resolves_to lit re_search tm d h.
Proof.
  intros Ha Hx Ht E h Hin. pose proof (sound lit re_search mt tm sp o d res Ha Hx Ht E h Hin) as J.
  unfold justified in J. unfold resolves_to. destruct (h_kind h); auto.
  - destruct J as [_ [kn [[l0 [i [kvs [v [El [R Hi]]]]]] Hs]]].
    exists l0, kn, v. split; auto. split; auto.
    rewrite El. eapply reach_snoc; eauto. constructor; auto.
  - destruct J as [_ [s [[[l0 [p [r [El [R [Hc Hl]]]]]]|[El [Es [Hl _]]]] Hs]]].
    + destruct s as [i v| | |]; try discriminate.
      exists i, v. split; auto. rewrite El. eapply reach_snoc; eauto.
    + subst s. destruct d as [i v| | |]; try discriminate.
      exists i, v. split; auto. rewrite El. constructor.
Qed.
